import Yaep.Lemmas.PruneCSpec
/-!
# The first pass (`prune_to_minimal`): state invariant and what every call returns
-/
namespace Yaep.PC
open Yaep

/-- map the leading `some`s -/
def mapPre (f : Nat → Nat) : List (Option Nat) → List (Option Nat)
  | some k :: r => some (f k) :: mapPre f r
  | l => l

theorem somePrefix_mapPre (f : Nat → Nat) (l : List (Option Nat)) :
    somePrefix (mapPre f l) = (somePrefix l).map f := by
  induction l with
  | nil => rfl
  | cons x r ih =>
    cases x with
    | none => rfl
    | some k => simp [mapPre, somePrefix, ih]

/-- the cells `l` are linked in this order and the last one ends the chain -/
def Linked (h : Array Cell) : List Nat → Prop
  | [] => True
  | [j] => ∃ nd, cellAt h j = .alt nd none
  | j :: j' :: r => (∃ nd, cellAt h j = .alt nd (some j')) ∧ Linked h (j' :: r)

section
variable (h0 : Array Cell) (rk hd : Nat → Nat) (one free : Bool)

/-- cell `k` (a leaf, an abstract node or the head of a chain) has been processed -/
def Visited (s : PSt) (k : Nat) : Prop :=
  match cellAt h0 k with
  | .anode _ _ _ => costAt s.heap k < 0 ∧ (free = true → k ∈ s.coll)
  | .alt _ _ => (memoFind s.memo k).isSome = true ∧ (free = true → ∀ j ∈ chain0 h0 k, j ∈ s.coll)
  | _ => free = true → k ∈ s.coll

/-- an abstract node is untouched or finished; a leaf never changes -/
def NodeOK (s : PSt) (i : Nat) : Prop :=
  match cellAt h0 i with
  | .anode nm c ks =>
    cellAt s.heap i = .anode nm c ks ∨
    (∃ ks' : Array (Option Nat),
      cellAt s.heap i = .anode nm (-(cost0 h0 rk one i : Int) - 1) ks' ∧
      ks'.toList = mapPre (res0 h0 rk one) ks.toList ∧
      (∀ k ∈ kidsOf ks, Visited h0 free s k) ∧ (free = true → i ∈ s.coll))
  | .alt _ _ => True
  | c => cellAt s.heap i = c

/-- the chain with head `a` is untouched or finished -/
def ChainOK (s : PSt) (a : Nat) : Prop :=
  if (memoFind s.memo a).isSome = true then
    (∀ j ∈ chain0 h0 a, (∃ nx, cellAt s.heap j = .alt (altNode h0 j) nx) ∧
        Visited h0 free s (altNode h0 j) ∧ (free = true → j ∈ s.coll)) ∧
      Linked s.heap (kept h0 rk one a)
  else ∀ j ∈ chain0 h0 a, cellAt s.heap j = cellAt h0 j

def MemoOK (s : PSt) : Prop :=
  ∀ a e, memoFind s.memo a = some e →
    a < h0.size ∧ isAlt h0 a = true ∧ hd a = a ∧ e.result = res0 h0 rk one a ∧
      e.cost = (cost0 h0 rk one a : Int)

/-- the state invariant; `X` holds of the abstract nodes and chain heads in progress -/
structure Inv (X : Nat → Prop) (s : PSt) : Prop where
  size : s.heap.size = h0.size
  node : ∀ i, i < h0.size → ¬ X i → NodeOK h0 rk one free s i
  chain : ∀ a, a < h0.size → isAlt h0 a = true → hd a = a → ¬ X a → ChainOK h0 rk one free s a
  memo : MemoOK h0 rk hd one s

/-- what a call for a cell of rank `r` leaves alone -/
structure Frame (s s' : PSt) (r : Nat) : Prop where
  size : s'.heap.size = s.heap.size
  cells : ∀ j, r < rk (hd j) → cellAt s'.heap j = cellAt s.heap j
  memoHi : ∀ a, r < rk a → memoFind s'.memo a = memoFind s.memo a
  memoMono : ∀ a e, memoFind s.memo a = some e → memoFind s'.memo a = some e
  coll : ∀ i, i ∈ s.coll → i ∈ s'.coll
  neg : ∀ j, costAt s.heap j < 0 → costAt s'.heap j < 0
  oof : s'.oof = s.oof

end

section
variable {h0 : Array Cell} {rk hd : Nat → Nat} {one free : Bool}

theorem Frame.refl (s : PSt) (r : Nat) : Frame rk hd s s r :=
  ⟨rfl, fun _ _ => rfl, fun _ _ => rfl, fun _ _ h => h, fun _ h => h, fun _ h => h, rfl⟩

theorem Frame.trans {s s' s'' : PSt} {r r' : Nat} (h1 : Frame rk hd s s' r)
    (h2 : Frame rk hd s' s'' r') (hr : r' ≤ r) : Frame rk hd s s'' r := by
  constructor
  · rw [h2.size, h1.size]
  · intro j hj; rw [h2.cells j (by omega), h1.cells j hj]
  · intro a ha; rw [h2.memoHi a (by omega), h1.memoHi a ha]
  · intro a e he; exact h2.memoMono a e (h1.memoMono a e he)
  · intro i hi; exact h2.coll i (h1.coll i hi)
  · intro j hj; exact h2.neg j (h1.neg j hj)
  · rw [h2.oof, h1.oof]

theorem Frame.mono {s s' : PSt} {r r' : Nat} (h1 : Frame rk hd s s' r) (hr : r ≤ r') :
    Frame rk hd s s' r' :=
  ⟨h1.size, fun j hj => h1.cells j (by omega), fun a ha => h1.memoHi a (by omega), h1.memoMono,
    h1.coll, h1.neg, h1.oof⟩

/-- monotonicity of `Visited` -/
theorem Visited.mono {s s' : PSt} {k : Nat} (hm : ∀ a e, memoFind s.memo a = some e → memoFind s'.memo a = some e)
    (hc : ∀ i, i ∈ s.coll → i ∈ s'.coll) (hn : ∀ j, costAt s.heap j < 0 → costAt s'.heap j < 0)
    (hv : Visited h0 free s k) : Visited h0 free s' k := by
  unfold Visited at hv ⊢
  split
  · rename_i e; rw [e] at hv
    exact ⟨hn _ hv.1, fun hf => hc _ (hv.2 hf)⟩
  · rename_i e; rw [e] at hv
    refine ⟨?_, fun hf j hj => hc _ (hv.2 hf j hj)⟩
    cases hx : memoFind s.memo k with
    | none => rw [hx] at hv; simp at hv
    | some e => rw [hm k e hx]; rfl
  · rename_i e1 e2
    have : free = true → k ∈ s.coll := by
      revert hv
      split
      · rename_i e; exact absurd e (e1 _ _ _)
      · rename_i e; exact absurd e (e2 _ _)
      · exact id
    exact fun hf => hc _ (this hf)

theorem Visited.frame {s s' : PSt} {k r : Nat} (hf : Frame rk hd s s' r)
    (hv : Visited h0 free s k) : Visited h0 free s' k :=
  hv.mono hf.memoMono hf.coll hf.neg


/-! ## preservation of the invariant by writes that concern cells in progress only -/

theorem Linked.pres {h h' : Array Cell} : ∀ {l : List Nat}, (∀ j ∈ l, cellAt h' j = cellAt h j) →
    Linked h l → Linked h' l
  | [], _, _ => trivial
  | [j], hc, hl => by
    obtain ⟨nd, e⟩ := hl
    exact ⟨nd, by rw [hc j (by simp), e]⟩
  | j :: j' :: r, hc, hl => by
    obtain ⟨⟨nd, e⟩, hl'⟩ := hl
    exact ⟨⟨nd, by rw [hc j (by simp), e]⟩,
      Linked.pres (fun x hx => hc x (List.mem_cons_of_mem _ hx)) hl'⟩

theorem keepFold_subset (one : Bool) (cost : Nat → Nat) : ∀ (l : List Nat) (st : Nat × List Nat),
    ∀ j ∈ (keepFold one cost l st).2, j ∈ st.2 ∨ j ∈ l
  | [], st, j, hj => Or.inl hj
  | x :: l, st, j, hj => by
    rcases keepFold_subset one cost l _ j hj with h | h
    · unfold keepStep at h
      split at h
      · simp at h; subst h; exact Or.inr (by simp)
      · split at h
        · rcases List.mem_cons.1 h with rfl | h
          · exact Or.inr (by simp)
          · exact Or.inl h
        · exact Or.inl h
    · exact Or.inr (List.mem_cons_of_mem _ h)

theorem kept_subset (a : Nat) : ∀ j ∈ kept h0 rk one a, j ∈ chain0 h0 a := by
  intro j hj
  rcases keepFold_subset one _ _ _ j hj with h | h
  · cases h
  · exact h

theorem NodeOK.pres {s s' : PSt} {i : Nat} (hcell : cellAt s'.heap i = cellAt s.heap i)
    (hm : ∀ a e, memoFind s.memo a = some e → memoFind s'.memo a = some e)
    (hc : ∀ i, i ∈ s.coll → i ∈ s'.coll) (hn : ∀ j, costAt s.heap j < 0 → costAt s'.heap j < 0)
    (h : NodeOK h0 rk one free s i) : NodeOK h0 rk one free s' i := by
  unfold NodeOK at h ⊢
  split
  · rename_i nm c ks e
    rw [e] at h
    simp only at h
    rcases h with h | ⟨ks', h1, h2, h3, h4⟩
    · left; rw [hcell]; exact h
    · right
      exact ⟨ks', by rw [hcell]; exact h1, h2, fun k hk => (h3 k hk).mono hm hc hn,
        fun hf => hc _ (h4 hf)⟩
  · trivial
  · rename_i e1 e2
    rw [hcell]
    revert h
    split
    · rename_i e; exact absurd e (e1 _ _ _)
    · rename_i e; exact absurd e (e2 _ _)
    · exact id

theorem ChainOK.pres {s s' : PSt} {a : Nat}
    (hcell : ∀ j ∈ chain0 h0 a, cellAt s'.heap j = cellAt s.heap j)
    (hma : memoFind s'.memo a = memoFind s.memo a)
    (hm : ∀ a e, memoFind s.memo a = some e → memoFind s'.memo a = some e)
    (hc : ∀ i, i ∈ s.coll → i ∈ s'.coll) (hn : ∀ j, costAt s.heap j < 0 → costAt s'.heap j < 0)
    (h : ChainOK h0 rk one free s a) : ChainOK h0 rk one free s' a := by
  unfold ChainOK at h ⊢
  rw [hma]
  split
  · rename_i hsome
    rw [if_pos hsome] at h
    refine ⟨fun j hj => ?_, Linked.pres (fun j hj => hcell j (kept_subset a j hj)) h.2⟩
    obtain ⟨⟨nx, e⟩, h2, h3⟩ := h.1 j hj
    exact ⟨⟨nx, by rw [hcell j hj, e]⟩, h2.mono hm hc hn, fun hf => hc _ (h3 hf)⟩
  · rename_i hnone
    rw [if_neg hnone] at h
    intro j hj
    rw [hcell j hj, h j hj]

theorem Inv.pres (wf : WfHeap h0 rk hd) {X : Nat → Prop} {s s' : PSt}
    (hs : s'.heap.size = s.heap.size)
    (hcell : ∀ j, j < h0.size → ¬ X (hd j) → cellAt s'.heap j = cellAt s.heap j)
    (hmemo : s'.memo = s.memo)
    (hc : ∀ i, i ∈ s.coll → i ∈ s'.coll) (hn : ∀ j, costAt s.heap j < 0 → costAt s'.heap j < 0)
    (hi : Inv h0 rk hd one free X s) : Inv h0 rk hd one free X s' := by
  have hm : ∀ a e, memoFind s.memo a = some e → memoFind s'.memo a = some e := by
    intro a e h; rw [hmemo]; exact h
  constructor
  · rw [hs, hi.size]
  · intro i hi1 hx
    cases hal : isAlt h0 i with
    | true =>
      unfold NodeOK
      unfold isAlt at hal
      split at hal
      · rename_i e; simp [e]
      · cases hal
    | false =>
      have := wf.hd_self i hi1 hal
      exact (hi.node i hi1 hx).pres (hcell i hi1 (by rw [this]; exact hx)) hm hc hn
  · intro a ha hal hhd hx
    have hch := chain0_isChain wf ha hal
    refine (hi.chain a ha hal hhd hx).pres ?_ (by rw [hmemo]) hm hc hn
    intro j hj
    obtain ⟨q1, q2, q3, q4⟩ := hch.props wf ha j hj
    exact hcell j q1 (by rw [q3, hhd]; exact hx)
  · intro a e he
    rw [hmemo] at he
    exact hi.memo a e he

/-! ## list helpers -/

theorem list_getD_mid {α : Type} (A : List α) (x : α) (B : List α) (d : α) :
    (A ++ x :: B).getD A.length d = x := by
  induction A with
  | nil => rfl
  | cons a A ih => simpa using ih

theorem list_set_mid {α : Type} (A : List α) (x v : α) (B : List α) :
    (A ++ x :: B).set A.length v = A ++ v :: B := by
  induction A with
  | nil => rfl
  | cons a A ih => simp [ih]

theorem arr_getD_toList {α : Type} (a : Array α) (i : Nat) (d : α) :
    a.getD i d = a.toList.getD i d := by
  simp [Array.getD_eq_getD_getElem?, List.getD_eq_getElem?_getD]

theorem arr_set!_toList {α : Type} (a : Array α) (i : Nat) (v : α) :
    (a.set! i v).toList = a.toList.set i v := by
  simp [Array.set!_eq_setIfInBounds]

end

end Yaep.PC
