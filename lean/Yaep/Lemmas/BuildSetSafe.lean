import Yaep.Lemmas.BuildSet
/-!
# The `do … while` of `build_new_set` is never entered with an empty vector

In the second loop of `build_new_set` the C code looks up `core_symb_vect_find (prev_set_core,
lhs)` and, if the triple exists, runs a `do … while` over its transition vector (after
`assert (curr_el != NULL)`).  A triple can exist with an empty transition vector (only a
reduce vector).  For a well-formed grammar (`Grammar.WF`) this never happens at that point;
the flag `Tab.bad` of the model stays `false`.
-/
namespace Yaep.BS
open Yaep

/-- every item either belongs to a rule of `$S` or was predicted from an item of its origin set -/
theorem EarleyF.predictor {g : Grammar} {ok : Nat → Nat → Nat → Bool} {w : List Nat} {j : Nat}
    {it : Item} (h : EarleyF g ok w j it) :
    ∀ rl, g.rules[it.rule]? = some rl → rl.lhs = g.axiomN ∨
      ∃ r' d' i', EarleyF g ok w it.origin ⟨r', d', i'⟩ ∧ g.nextSym r' d' = some (Sym.n rl.lhs) := by
  induction h with
  | init hr hl =>
    intro rl hrl
    simp only at hrl
    rw [hr] at hrl; cases hrl
    exact Or.inl hl
  | scan _ _ _ _ ih => exact ih
  | @predict j r d i B r' rl' h hs hr hl _ =>
    intro rl hrl
    simp only at hrl
    rw [hr] at hrl; cases hrl
    exact Or.inr ⟨r, d, i, h, by rw [hl]; exact hs⟩
  | complete _ _ _ _ _ _ ih2 => exact ih2

/-- set 0 has no completed item of a rule of `$S` -/
theorem no_complete_axiom_set0 {g : Grammar} (hwf : g.WF) {ok : Nat → Nat → Nat → Bool} {w : List Nat}
    {r d o : Nat} {rl : Rule} (h : EarleyF g ok w 0 ⟨r, d, o⟩) (hr : g.rules[r]? = some rl)
    (hl : rl.lhs = g.axiomN) : d < rl.rhs.length := by
  obtain ⟨rl', hr', hd, ho, hder⟩ := h.sound
  simp only at hr' hd ho hder
  rw [hr] at hr'; cases hr'
  rcases Nat.lt_or_ge d rl.rhs.length with hlt | hge
  · exact hlt
  · exfalso
    have ho0 : o = 0 := by omega
    subst ho0
    rw [List.take_of_length_le hge, slice_self] at hder
    obtain ⟨hrlt, hrl⟩ := List.getElem?_eq_some_iff.mp hr
    have hcases := hwf.2.1 r hrlt (by rw [hrl]; exact hl)
    rw [hrl] at hcases
    have hall := hder.forall_of_nil
    rcases hcases with h0 | herr
    · subst h0
      obtain ⟨r0, hr0, _, hrhs⟩ := hwf.rule0
      rw [hr] at hr0; cases hr0
      exact Der.not_t_nil (hall (Sym.t g.eofT) (by rw [hrhs]; simp))
    · exact Der.not_t_nil (hall (Sym.t g.eofT) (by rw [herr]; simp))

section Safe
variable {g : Grammar} {an : Analysis} {ok : Nat → Nat → Bool} {okF : Nat → Nat → Nat → Bool}
  {w' : List Nat} {plA : List (List Item)} {pl : List CSet} {a : Nat}

/-- one step: the flag computed by the second loop of `build_new_set` is `false` -/
theorem newStarts_not_bad (hwf : g.WF) (hnl : an.nl = g.nullable) (h : PLOK g plA pl) (hne : pl ≠ [])
    (hexp : ∀ cs ∈ pl, Expanded g an cs) (hinv : PLInv g okF w' plA)
    (hnext : ∀ it, it ∈ nextSet g ok plA a → EarleyF g okF w' plA.length it) :
    (newStarts g an ok pl a).2 = false := by
  unfold newStarts newSetLoop2
  refine (scanLoop_preserves (len := fun st : NewStart × Bool => st.1.length)
    (step := newSetStep2 g an ok pl (pl.length - 1))
    (fun st => st.2 = false ∧ ∀ p ∈ st.1, PairOK g ok plA a p) ?_ _ 0 _
    ⟨rfl, pairOK_loop1 h hne⟩).1
  intro i st ⟨hb, hall⟩ hi
  refine ⟨?_, ?_⟩
  · -- the flag
    have hmemi : st.1.getD i default ∈ st.1 := by
      rw [List.getD_eq_getElem?_getD, List.getElem?_eq_getElem hi]
      exact List.getElem_mem hi
    obtain ⟨⟨rl, hrl, hd0⟩, h1, h2, hT⟩ := hall _ hmemi
    unfold newSetStep2
    generalize st.1.getD i default = p0 at hrl hd0 h1 h2 hT
    obtain ⟨⟨r0, d0⟩, nd0⟩ := p0
    simp only at hrl hd0 h1 h2 hT ⊢
    split
    · split
      · rename_i het hfind
        simp only [hb, Bool.false_or]
        have hplace : pl.length - 1 + 1 - nd0 = plA.length - nd0 := by rw [h.len]; omega
        rw [hplace] at hfind ⊢
        have hk : plA.length - nd0 < pl.length := by rw [← h.len]; omega
        have hlhs : lhsOf g (r0, d0) = rl.lhs := by
          unfold lhsOf
          rw [List.getD_eq_getElem?_getD, hrl]; rfl
        rw [hlhs] at hfind ⊢
        have hE := hnext _ hT
        have hok := h.ok _ hk
        have hitems := h.items _ hk
        have hmem : pl.getD (plA.length - nd0) default ∈ pl := by
          rw [List.getD_eq_getElem?_getD, List.getElem?_eq_getElem hk]
          exact List.getElem_mem hk
        obtain ⟨num, ss, hc, _, _⟩ := hexp _ hmem
        have hsp : ExpandSpec g an num ss (pl.getD (plA.length - nd0) default).core :=
          hc ▸ expandNewStartSet_spec g an num ss
        generalize pl.getD (plA.length - nd0) default = prev at hfind hok hitems hsp ⊢
        rcases EarleyF.predictor hE rl hrl with hax | ⟨r', d', i', hE', hnx'⟩
        · -- a rule of `$S`: no triple exists in set 0
          exfalso
          have ho0 : plA.length - nd0 = 0 := hE.axiom_origin hwf rl hrl hax
          rw [ho0] at hitems
          unfold Core.find at hfind
          simp only [hok.trans, hsp.reduces, Bool.or_eq_true] at hfind
          rcases hfind with hf | hf
          · unfold vecOf at hf
            split at hf
            · cases hf
            · rename_i hne'
              obtain ⟨k, hk'⟩ := List.exists_mem_of_ne_nil _ hne'
              obtain ⟨_, hnxk⟩ := mem_filt.mp hk'
              unfold nextOf at hnxk
              obtain ⟨rl', hrl', hs'⟩ := nextSym_eq_some.mp hnxk
              rw [hax] at hs'
              exact hwf.2.2.1 rl' (List.mem_of_getElem? hrl') (List.mem_of_getElem? hs')
          · unfold vecOf at hf
            split at hf
            · cases hf
            · rename_i hne'
              obtain ⟨k, hk'⟩ := List.exists_mem_of_ne_nil _ hne'
              obtain ⟨hklt, hred⟩ := mem_rfilt.mp hk'
              have hget : prev.core.sits[k]? = some (prev.core.sits.getD k default) := by
                rw [List.getD_eq_getElem?_getD, List.getElem?_eq_getElem hklt]; rfl
              unfold redOf at hred
              generalize prev.core.sits.getD k default = sit at hget hred
              split at hred
              · cases hred
              · rename_i rl1 hrl1
                split at hred
                · rename_i hdot
                  simp only [Option.some.injEq] at hred
                  have hit : (⟨sit.1, sit.2, 0 - dtag prev.dists (prev.core.tagOf k)⟩ : Item) ∈
                      plA.getD 0 [] := (hitems _).mp (mem_items.mpr ⟨k, sit, hget, rfl⟩)
                  have hE0 := (hinv 0 (by rw [h.len]; omega) _).mp hit
                  have := no_complete_axiom_set0 hwf hE0 hrl1 (by rw [hred, hax])
                  omega
                · cases hred
        · -- predicted in the origin set: the transition vector is not empty
          simp only at hE'
          have hit := (hinv _ (by omega) _).mpr hE'
          obtain ⟨k, sit, hs, hit'⟩ := mem_items.mp ((hitems _).mpr hit)
          simp only [Item.mk.injEq] at hit'
          have hmem : k ∈ (prev.core.transOf (Sym.n rl.lhs)).getD [] := by
            apply hok.mem_trans.mpr
            refine ⟨(List.getElem?_eq_some_iff.mp hs).1, ?_⟩
            rw [nextOf_of_get hs, ← hit'.1, ← hit'.2.1]; exact hnx'
          cases htr : (prev.core.transOf (Sym.n rl.lhs)).getD [] with
          | nil => rw [htr] at hmem; cases hmem
          | cons x xs => rfl
      · exact hb
    · exact hb
  · -- the pairs
    rw [newSetStep2_fst]
    intro p hp
    rcases mem_addNew hp with hp | hp
    · exact hall p hp
    · exact pairOK_step hnl h st.1 i hall hi p hp

theorem buildNewSet_bad {tab : Tab} :
    (buildNewSet g an ok tab pl (pl.getLastD default) (Sym.t a)).1.bad =
      (tab.bad || (newStarts g an ok pl a).2) := by
  have hunf : buildNewSet g an ok tab pl (pl.getLastD default) (Sym.t a) =
      let st := newStarts g an ok pl a
      let r := setInsert tab st.1
      let tab' : Tab := { r.1 with bad := r.1.bad || st.2 }
      if r.2.2 then
        (tab'.storeCore (expandNewStartSet g an r.2.1.core),
          { r.2.1 with core := expandNewStartSet g an r.2.1.core })
      else (tab', r.2.1) := rfl
  rw [hunf]
  dsimp only
  have hb := (setInsert_spec tab (newStarts g an ok pl a).1).2.1
  split
  · show ((setInsert tab (newStarts g an ok pl a).1).1.bad || _) = _
    rw [hb]
  · show ((setInsert tab (newStarts g an ok pl a).1).1.bad || _) = _
    rw [hb]

end Safe

theorem buildStartSet_bad (g : Grammar) (an : Analysis) : (buildStartSet g an).1.bad = false := by
  rw [buildStartSet_unfold]
  dsimp only
  generalize (rulesOf g g.axiomN).foldl (fun ns r => addStartSit ns (r, 0) 0) setNewStart = ns
  have := (setInsert_spec {} ns).2.1
  generalize setInsert {} ns = r at this
  exact this

/-- the main loop keeps the flag `false` -/
theorem parseLoopC_bad {g : Grammar} (hwf : g.WF) (an : Analysis) (la : Nat) (hnl : an.nl = g.nullable)
    (w' : List Nat) :
    ∀ (toks : List Nat) (tab : Tab) (pl : List CSet) (plA : List (List Item)) (k : Nat),
      w'.drop k = toks → plA.length = k + 1 → PLInv g (laFilter g an la w') w' plA →
      TabInv g an tab → PLOK g plA pl → pl ≠ [] → (∀ cs ∈ pl, Expanded g an cs) → tab.bad = false →
      (parseLoopC g an la toks tab pl k).2.1.bad = false := by
  intro toks
  induction toks with
  | nil => intro tab pl plA k _ _ _ _ _ _ _ hb; exact hb
  | cons a rest ih =>
    intro tab pl plA k hdrop hlen hinv ht h hne he hb
    obtain ⟨hw, hrest⟩ := drop_succ_of_drop_cons hdrop
    rw [parseLoopC_cons]
    split
    · have hhead : rest.head? = w'[k + 1]? := by rw [← hrest, List.head?_drop]
      have hokeq : okItem g an la rest.head? = laFilter g an la w' (k + 1) := by rw [hhead]; rfl
      obtain ⟨h1, h2, h3, h4⟩ :=
        buildNewSet_main (ok := okItem g an la rest.head?) (a := a) hnl ht h hne
      have hnext : ∀ it, it ∈ nextSet g (okItem g an la rest.head?) plA a ↔
          EarleyF g (laFilter g an la w') w' (k + 1) it := by
        rw [hokeq]; exact mem_nextSet_iff hlen hinv hw
      apply ih _ _ (plA ++ [nextSet g (okItem g an la rest.head?) plA a]) (k + 1) hrest
        (by rw [List.length_append, hlen]; rfl)
        (PLInv_snoc hinv (by rw [hlen]; exact hnext)) h1 (PLOK_snoc h h2 h4) (by simp)
      · intro cs hcs
        rcases List.mem_append.mp hcs with hcs | hcs
        · exact he cs hcs
        · rw [List.mem_singleton.mp hcs]; exact h3
      · rw [buildNewSet_bad, hb,
          newStarts_not_bad hwf hnl h hne he hinv (fun it hit => by rw [hlen]; exact (hnext it).mp hit)]
        rfl
    · exact hb

/-- For a well-formed grammar the `do … while` of `build_new_set` is never entered with an
empty transition vector (`assert (curr_el != NULL)` holds). -/
theorem buildPLC_not_bad {g : Grammar} (hwf : g.WF) (la : Nat) (w : List Nat) :
    (buildPLC g la w).2.1.bad = false := by
  rw [buildPLC_eq]
  obtain ⟨h1, h2, h3, h4⟩ := buildStartSet_main g g.analysis rfl
  apply parseLoopC_bad hwf g.analysis la rfl (w ++ [g.eofT]) _ _ _ [set0 g] 0 rfl rfl
    (PLInv_set0 _ _ _) h1
  · refine ⟨rfl, ?_, ?_⟩
    · intro k hk
      have : k = 0 := by simpa using hk
      subst this; simpa using h2
    · intro k hk it
      have : k = 0 := by simpa using hk
      subst this; simpa using h4 it
  · simp
  · intro cs hcs
    rw [List.mem_singleton.mp hcs]; exact h3
  · exact buildStartSet_bad g g.analysis

end Yaep.BS
