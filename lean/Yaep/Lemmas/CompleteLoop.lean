import Yaep.Lemmas.CompleteStep
import Yaep.Lemmas.CompleteKid
/-!
# Completeness of the all-parses forest, part 6: the candidate loop — what never gets undone, the
two event counters, an induction principle that knows which reduces are still to come
-/
namespace Yaep.CP
open Yaep Yaep.MP

/-- from `s1` to `s2` the tree memory is monotone, the existing parse states are untouched, the
stack only grows -/
structure CExt (s1 s2 : St) : Prop where
  hm : HMono s1.heap s2.heap
  sts : ∀ y, y < s1.states.size → s2.state y = s1.state y
  size : s1.states.size ≤ s2.states.size
  stack : ∀ x ∈ s1.stack, x ∈ s2.stack

theorem CExt.refl (s : St) : CExt s s := ⟨HMono.refl _, fun _ _ => rfl, Nat.le_refl _, fun _ h => h⟩

theorem CExt.trans {a b c : St} (h1 : CExt a b) (h2 : CExt b c) : CExt a c :=
  ⟨h1.hm.trans h2.hm, fun y hy => by rw [h2.sts y (by have := h1.size; omega), h1.sts y hy],
   Nat.le_trans h1.size h2.size, fun x hx => h2.stack x (h1.stack x hx)⟩

theorem CExt.of_eq {s1 s2 : St} (hh : s2.heap = s1.heap) (hs : s2.states = s1.states)
    (hk : s2.stack = s1.stack) : CExt s1 s2 :=
  ⟨by rw [hh]; exact HMono.refl _, fun y _ => state_congr hs y, by rw [hs]; exact Nat.le_refl _,
   fun x hx => by rw [hk]; exact hx⟩

/-- a new parse state -/
theorem CExt.pushState {s1 s2 : St} {p : PState} (hh : s2.heap = s1.heap)
    (hs : s2.states = s1.states.push p) (hk : s2.stack = s1.states.size :: s1.stack) : CExt s1 s2 := by
  refine ⟨by rw [hh]; exact HMono.refl _, fun y hy => ?_, by rw [hs]; simp, fun x hx => by rw [hk]; simp [hx]⟩
  unfold St.state; rw [hs]; exact getD_push_lt _ _ _ _ hy

theorem state_push_lt {s1 s2 : St} {p : PState} (hs : s2.states = s1.states.push p) {y : Nat}
    (hy : y < s1.states.size) : s2.state y = s1.state y := by
  unfold St.state; rw [hs]; exact getD_push_lt _ _ _ _ hy

theorem state_push_eq {s1 s2 : St} {p : PState} (hs : s2.states = s1.states.push p) :
    s2.state s1.states.size = p := by
  unfold St.state; rw [hs]; exact getD_push_eq _ _ _

section
variable {g : Grammar} {toks : List Nat}

/-- `Ev` is monotone along `CExt` (parents of stack states are older states) -/
theorem Ev.ext {s1 s2 : St} (he : CExt s1 s2)
    (hpar : ∀ x ∈ s1.stack, (s1.state x).parent < s1.states.size ∧ x < s1.states.size)
    {π : Nat × Nat} {t : Tree} (h : Ev g toks s1 π t) : Ev g toks s2 π t := by
  refine Ev.mono he.hm.slot ?_ h
  intro x hx
  obtain ⟨p1, p2⟩ := hpar x hx
  exact ⟨he.stack x hx, he.sts x p2, tgt_congr (by rw [he.sts _ p1])⟩

end

/-! ## the two event counters only grow -/

theorem candPre_counts (L : Loc) (sit : Item) (n : Nat) (s : St) :
    (candPre L sit n s).reuse = s.reuse ∧ s.origins ≤ (candPre L sit n s).origins ∧
    ((candPre L sit n s).origins = s.origins → n ≠ 0 → (L.parentAnode.isSome && L.disp.isSome) = false →
      (s.state L.origSid).plInd = sit.origin) := by
  unfold candPre
  simp only
  by_cases hn : (n == 0) = true
  · have hn0 : n = 0 := by simpa using hn
    subst hn0
    simp only [bne_self_eq_false, Bool.false_and, Bool.false_eq_true, if_false, beq_self_eq_true, if_true]
    exact ⟨rfl, Nat.le_refl _, fun _ h => absurd rfl h⟩
  · have hn' : (n != 0) = true := by simpa using hn
    simp only [hn, hn', Bool.true_and, Bool.false_eq_true, if_false]
    by_cases hc : (!(L.parentAnode.isSome && L.disp.isSome) && (s.state L.origSid).plInd != sit.origin) = true
    · rw [if_pos hc]
      refine ⟨rfl, Nat.le_succ _, fun h => ?_⟩
      simp only at h
      omega
    · rw [if_neg hc]
      refine ⟨rfl, Nat.le_refl _, fun _ _ hnt => ?_⟩
      rw [hnt] at hc
      simpa using hc

theorem candHead_counts (L : Loc) (sit : Item) (n : Nat) (os : List Nat) (s : St) (pp : Nat × Nat)
    (disp : Nat) : (candHead L sit n os s pp disp).1.reuse = s.reuse ∧
      (candHead L sit n os s pp disp).1.origins = s.origins := by
  unfold candHead
  simp only
  split
  · split
    · exact ⟨rfl, rfl⟩
    · split <;> exact ⟨rfl, rfl⟩
  · exact ⟨rfl, rfl⟩

theorem candTail_counts (c : Ctx) (L : Loc) (sit : Item) (pp : Nat × Nat) (disp : Nat)
    (x : St × List Nat × Nat × Option Nat) :
    x.1.reuse ≤ (candTail c L sit pp disp x).1.reuse ∧ (candTail c L sit pp disp x).1.origins = x.1.origins ∧
    ((candTail c L sit pp disp x).1.reuse = x.1.reuse → c.oneParse = false →
      ∀ name, (c.rule sit.rule).anode = some name → tableFind x.1.table sit.rule sit.origin L.plInd = none) := by
  unfold candTail
  simp only
  split
  · rename_i name hname
    split
    · rename_i hf
      refine ⟨?_, ?_, ?_⟩
      · split <;> exact Nat.le_refl _
      · split <;> rfl
      · intro _ hall nm _
        rw [hall] at hf
        simpa using hf
    · rename_i node hf
      refine ⟨Nat.le_succ _, rfl, ?_⟩
      intro h
      simp only [St.place] at h
      omega
  · rename_i hno
    split
    · exact ⟨Nat.le_refl _, rfl, fun _ _ nm h => by rw [hno] at h; cases h⟩
    · exact ⟨Nat.le_refl _, rfl, fun _ _ nm h => by rw [hno] at h; cases h⟩

theorem candidate_counts (c : Ctx) (L : Loc) (sit : Item) (n : Nat) (os : List Nat) (s : St) :
    s.reuse ≤ (candidate c L sit n os s).1.reuse ∧ s.origins ≤ (candidate c L sit n os s).1.origins := by
  rw [candidate_eq]
  obtain ⟨a1, a2, _⟩ := candPre_counts L sit n s
  cases L.parentAnode with
  | none => exact ⟨by rw [a1]; exact Nat.le_refl _, a2⟩
  | some pa =>
    cases L.disp with
    | none => exact ⟨by rw [a1]; exact Nat.le_refl _, a2⟩
    | some d =>
      simp only
      obtain ⟨b1, b2⟩ := candHead_counts L sit n os (candPre L sit n s) (pa, L.parentDisp) d
      obtain ⟨c1, c2, _⟩ := candTail_counts c L sit (pa, L.parentDisp) d
        (candHead L sit n os (candPre L sit n s) (pa, L.parentDisp) d)
      exact ⟨by rw [← a1, ← b1]; exact c1, by rw [c2, b2]; exact a2⟩

theorem candLoop_counts (c : Ctx) (L : Loc) (set : Array Item) : ∀ (l : List Nat) (n : Nat) (os : List Nat)
    (s : St), s.reuse ≤ (candLoop c L set l n os s).1.reuse ∧
      s.origins ≤ (candLoop c L set l n os s).1.origins
  | [], _, _, _ => ⟨Nat.le_refl _, Nat.le_refl _⟩
  | i :: l, n, os, s => by
    unfold candLoop
    simp only
    split
    · exact candLoop_counts c L set l n os s
    · split
      · split <;> exact ⟨Nat.le_refl _, Nat.le_refl _⟩
      · have h1 := candidate_counts c L (set.getD i default) n os (if (n != 0) = true then { s with amb := true } else s)
        have h2 := candLoop_counts c L set l (n + 1)
          (candidate c L (set.getD i default) n os (if (n != 0) = true then { s with amb := true } else s)).2
          (candidate c L (set.getD i default) n os (if (n != 0) = true then { s with amb := true } else s)).1
        have e1 : (if (n != 0) = true then { s with amb := true } else s).reuse = s.reuse := by split <;> rfl
        have e2 : (if (n != 0) = true then { s with amb := true } else s).origins = s.origins := by split <;> rfl
        rw [e1, e2] at h1
        exact ⟨Nat.le_trans h1.1 h2.1, Nat.le_trans h1.2 h2.2⟩

/-! ## induction over the candidate loop with the reduces that are still to come -/

theorem candLoop_rem {c : Ctx} {L : Loc} {set : Array Item} (hall : c.oneParse = false)
    (M : List Nat → Nat → List Nat → St → Prop)
    (hamb : ∀ rem n os s, n ≠ 0 → M rem n os s → M rem n os { s with amb := true })
    (hskip : ∀ i rem n os s, checkFound c L (set.getD i default).origin = false →
      M (i :: rem) n os s → M rem n os s)
    (hstep : ∀ i rem n os s, checkFound c L (set.getD i default).origin = true → M (i :: rem) n os s →
      M rem (n + 1) (candidate c L (set.getD i default) n os s).2 (candidate c L (set.getD i default) n os s).1) :
    ∀ (l : List Nat) n os s, M l n os s →
      ∃ os', M [] (candLoop c L set l n os s).2 os' (candLoop c L set l n os s).1
  | [], n, os, s, hm => ⟨os, hm⟩
  | i :: l, n, os, s, hm => by
    unfold candLoop
    by_cases hf : checkFound c L (set.getD i default).origin = true
    · simp only [hf, hall]
      by_cases hn : n = 0
      · subst hn
        simp only [bne_self_eq_false, Bool.false_eq_true, if_false, Bool.false_and, Bool.not_true]
        exact candLoop_rem hall M hamb hskip hstep l _ _ _ (hstep i l 0 os s hf hm)
      · have hn' : (n != 0) = true := by simpa using hn
        simp only [hn', if_true, Bool.and_false, Bool.false_eq_true, if_false, Bool.not_true]
        exact candLoop_rem hall M hamb hskip hstep l _ _ _ (hstep i l n os _ hf (hamb _ n os s hn hm))
    · have hf' : checkFound c L (set.getD i default).origin = false := by simpa using hf
      simp only [hf']
      exact candLoop_rem hall M hamb hskip hstep l n os s (hskip i l n os s hf' hm)

end Yaep.CP
