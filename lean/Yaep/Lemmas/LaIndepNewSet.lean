import Yaep.Lemmas.LaIndepTg
/-!
# Lookahead independence, part 6: the start situations of `build_new_set` at two lookahead levels

`newStarts_iter`: the start pairs are `iterI (step2Pairs …)` run to its end.
`newStarts_rel`: if the two parse lists give the same source lists (`src`) to both loops, the start
pairs of the filtered run are those of the unfiltered run that pass the test, in the same order.
-/
namespace Yaep.LI
open Yaep Yaep.BS

/-- the transition vectors of all the sets of `pl` are exact -/
def TransOK (g : Grammar) (pl : List CSet) : Prop :=
  ∀ k X, (pl.getD k default).core.transOf X =
    vecOf (filt g (pl.getD k default).core.sits (pl.getD k default).core.sits.length X)

theorem transOK_of_PLOK {g : Grammar} {plA : List (List Item)} {pl : List CSet} (h : PLOK g plA pl) :
    TransOK g pl := by
  intro k X
  by_cases hk : k < pl.length
  · exact (h.ok k hk).trans X
  · rw [List.getD_eq_getElem?_getD, List.getElem?_eq_none (by omega)]
    rfl

theorem step2Pairs_eq_src {g : Grammar} {an : Analysis} {ok : Nat → Nat → Bool} {pl : List CSet}
    (hT : TransOK g pl) (plCurr : Nat) (ns : NewStart) (i : Nat) :
    step2Pairs g an ok pl plCurr ns i =
      if emptyTailP g an (ns.getD i default).1 then
        shiftL ok (ns.getD i default).2
          (src g (pl.getD (plCurr + 1 - (ns.getD i default).2) default)
            (Sym.n (lhsOf g (ns.getD i default).1)))
      else [] := by
  unfold step2Pairs
  split
  · simp only
    rw [← shift_trans_eq g ok _ _ _ (hT _ _)]
    split
    · rfl
    · rename_i hf
      have : (pl.getD (plCurr + 1 - (ns.getD i default).2) default).core.transOf
          (Sym.n (lhsOf g (ns.getD i default).1)) = none := by
        unfold Core.find at hf
        simp only [Bool.or_eq_true, not_or, Bool.not_eq_true, Option.isSome_eq_false_iff,
          Option.isNone_iff_eq_none] at hf
        exact hf.1
      rw [this]; rfl
  · rfl

theorem shiftL_filter {ok0 ok1 : Nat → Nat → Bool} (h0 : ∀ r d, ok0 r d = true) (base : Nat)
    (l : List (Sit × Nat)) :
    (shiftL ok0 base l).filter (fun p => ok1 p.1.1 p.1.2) = shiftL ok1 base l := by
  unfold shiftL
  induction l with
  | nil => rfl
  | cons p l ih =>
    rw [List.filterMap_cons, List.filterMap_cons, if_pos (h0 _ _)]
    simp only
    by_cases h : ok1 p.1.1 (p.1.2 + 1) = true
    · rw [if_pos h, List.filter_cons_of_pos (by simpa using h), ih]
    · rw [if_neg h, List.filter_cons_of_neg (by simpa using h), ih]

theorem mem_shiftL {ok : Nat → Nat → Bool} {base : Nat} {l : List (Sit × Nat)} {q : Sit × Nat}
    (h : q ∈ shiftL ok base l) :
    ∃ p ∈ l, ok p.1.1 (p.1.2 + 1) = true ∧ q = ((p.1.1, p.1.2 + 1), p.2 + base) := by
  unfold shiftL at h
  obtain ⟨p, hp, hq⟩ := List.mem_filterMap.mp h
  split at hq
  · rename_i hok
    exact ⟨p, hp, hok, (Option.some.inj hq).symm⟩
  · cases hq

/-! ## the start pairs as an iteration -/

section
variable {g : Grammar} {an : Analysis} {ok : Nat → Nat → Bool} {plA : List (List Item)}
  {pl : List CSet} {a : Nat}

/-- the result of the first loop -/
def loop1Pairs (g : Grammar) (ok : Nat → Nat → Bool) (pl : List CSet) (a : Nat) : NewStart :=
  addNew [] (shiftL ok 1 (src g (pl.getLastD default) (Sym.t a)))

theorem getLastD_eq_getD' {α : Type} (pl : List α) (d : α) : pl.getLastD d = pl.getD (pl.length - 1) d := by
  cases pl with
  | nil => rfl
  | cons x xs => exact getLastD_eq_getD _ _ _ (by simp)

theorem loop1_eq (hT : TransOK g pl) :
    newSetLoop1 ok (pl.getLastD default) (((pl.getLastD default).core.transOf (Sym.t a)).getD []) =
      loop1Pairs g ok pl a := by
  rw [newSetLoop1_eq]
  unfold loop1Pairs
  rw [getLastD_eq_getD', shift_trans_eq g ok _ _ _ (hT _ _)]

theorem newStarts_iter (hnl : an.nl = g.nullable) (h : PLOK g plA pl) (hne : pl ≠ []) :
    ∃ n, (newStarts g an ok pl a).1 =
        iterI (step2Pairs g an ok pl (pl.length - 1)) [] (loop1Pairs g ok pl a) n ∧
      n = (newStarts g an ok pl a).1.length := by
  have hT := transOK_of_PLOK h
  unfold newStarts newSetLoop2
  rw [loop1_eq hT]
  generalize hA : loop1Pairs g ok pl a = A
  let P := PairOK g ok plA a
  have hP := pairOK_step (ok := ok) (a := a) hnl h
  have hU : ∀ p, P p → p ∈ BS.pairUniv g pl.length := fun p hp => hp.in_univ h
  have hA1 : ∀ p ∈ A, P p := by
    rw [← hA, ← loop1_eq (ok := ok) (a := a) hT]
    exact pairOK_loop1 h hne
  have hAnd : A.Nodup := by rw [← hA]; exact addNew_nodup _ List.nodup_nil
  let Inv : Nat → NewStart × Bool → Prop := fun i st =>
    NSInv g an ok pl (pl.length - 1) P A i st.1 ∧
      st.1 = iterI (step2Pairs g an ok pl (pl.length - 1)) [] A i
  have hstep : ∀ i (st : NewStart × Bool), Inv i st → i < st.1.length →
      Inv (i + 1) (newSetStep2 g an ok pl (pl.length - 1) st i) ∧
        i + 1 ≤ (newSetStep2 g an ok pl (pl.length - 1) st i).1.length := by
    rintro i st ⟨hI, hit⟩ hi
    obtain ⟨h1, h2⟩ := NSInv_step hP i st hI hi
    refine ⟨⟨h1, ?_⟩, h2⟩
    rw [newSetStep2_fst, iterI_succ, List.nil_append, ← hit, if_pos hi]
  have hbound : ∀ (i : Nat) (st : NewStart × Bool), Inv i st →
      st.1.length ≤ sitBound g * (pl.length + 1) := by
    rintro i st ⟨hI, _⟩
    have := nodup_subset_length hI.nodup (fun p hp => hU p (hI.all p hp))
    rwa [BS.length_pairUniv] at this
  have h0 : Inv 0 (A, false) :=
    ⟨⟨hAnd, hA1, fun _ h => h, fun k hk => absurd hk (Nat.not_lt_zero _)⟩, rfl⟩
  have := scanLoop_inv (len := fun st : NewStart × Bool => st.1.length) Inv _ hstep hbound
    (newSetFuel g pl) 0 _ h0 (Nat.zero_le _) (by unfold newSetFuel; omega)
  exact ⟨_, this.2, rfl⟩

end

/-! ## two levels -/

theorem iterI_mem_of_terminal {α : Type} [DecidableEq α] (new : List α → Nat → List α) (pre A : List α)
    {n0 : Nat} (h0 : (pre ++ iterI new pre A n0).length ≤ n0) (n : Nat) :
    iterI new pre A n ⊆ iterI new pre A n0 := by
  rcases Nat.le_total n n0 with h | h
  · obtain ⟨e, he⟩ := iterI_prefix new pre A h
    rw [he]; exact List.subset_append_left _ _
  · have := iterI_stable new pre A h0 (n - n0)
    rw [show n0 + (n - n0) = n by omega] at this
    rw [this]; exact fun _ h => h

/-- **the start pairs of the filtered run are those of the unfiltered run that pass the test** -/
theorem newStarts_rel {g : Grammar} {an : Analysis} {ok0 ok1 : Nat → Nat → Bool}
    {plA0 plA1 : List (List Item)} {pl0 pl1 : List CSet} {a : Nat}
    (hnl : an.nl = g.nullable) (h0 : PLOK g plA0 pl0) (h1 : PLOK g plA1 pl1)
    (hne0 : pl0 ≠ []) (hne1 : pl1 ≠ []) (hlen : pl0.length = pl1.length)
    (hok0 : ∀ r d, ok0 r d = true)
    (hsrc1 : src g (pl0.getLastD default) (Sym.t a) = src g (pl1.getLastD default) (Sym.t a))
    (hsrc2 : ∀ p ∈ (newStarts g an ok0 pl0 a).1, emptyTailP g an p.1 = true →
      src g (pl0.getD (pl0.length - 1 + 1 - p.2) default) (Sym.n (lhsOf g p.1)) =
        src g (pl1.getD (pl0.length - 1 + 1 - p.2) default) (Sym.n (lhsOf g p.1)))
    (hfail : ∀ p ∈ (newStarts g an ok0 pl0 a).1, emptyTailP g an p.1 = true → ok1 p.1.1 p.1.2 = false →
      ∀ r d, g.nextSym r d = some (Sym.n (lhsOf g p.1)) → ok1 r (d + 1) = false) :
    (newStarts g an ok1 pl1 a).1 =
      (newStarts g an ok0 pl0 a).1.filter (fun p => ok1 p.1.1 p.1.2) := by
  have hT0 := transOK_of_PLOK h0
  have hT1 := transOK_of_PLOK h1
  obtain ⟨n0, e0, t0⟩ := newStarts_iter (ok := ok0) (a := a) hnl h0 hne0
  obtain ⟨n1, e1, t1⟩ := newStarts_iter (ok := ok1) (a := a) hnl h1 hne1
  generalize hK : (fun p : Sit × Nat => ok1 p.1.1 p.1.2) = K
  -- the first loop
  have hA : loop1Pairs g ok1 pl1 a = (loop1Pairs g ok0 pl0 a).filter K := by
    unfold loop1Pairs
    rw [← hsrc1, ← hK, ← shiftL_filter hok0, addNew_nil_left_filter]
  -- the second loop
  have hterm0 : ([] ++ iterI (step2Pairs g an ok0 pl0 (pl0.length - 1)) [] (loop1Pairs g ok0 pl0 a) n0).length ≤ n0 := by
    rw [List.nil_append, ← e0, ← t0]; exact Nat.le_refl _
  have hc : ∀ n x, ([] ++ iterI (step2Pairs g an ok0 pl0 (pl0.length - 1)) [] (loop1Pairs g ok0 pl0 a) n)[n]? = some x →
      (K x = true → (step2Pairs g an ok0 pl0 (pl0.length - 1)
          ([] ++ iterI (step2Pairs g an ok0 pl0 (pl0.length - 1)) [] (loop1Pairs g ok0 pl0 a) n) n).filter K =
        step2Pairs g an ok1 pl1 (pl1.length - 1)
          (([] ++ iterI (step2Pairs g an ok0 pl0 (pl0.length - 1)) [] (loop1Pairs g ok0 pl0 a) n).filter K)
          ((([] ++ iterI (step2Pairs g an ok0 pl0 (pl0.length - 1)) [] (loop1Pairs g ok0 pl0 a) n).take n).countP K)) ∧
      (K x = false → (step2Pairs g an ok0 pl0 (pl0.length - 1)
          ([] ++ iterI (step2Pairs g an ok0 pl0 (pl0.length - 1)) [] (loop1Pairs g ok0 pl0 a) n) n).filter K = []) := by
    intro n x hx
    have hxmem : x ∈ (newStarts g an ok0 pl0 a).1 := by
      rw [e0]
      apply iterI_mem_of_terminal _ _ _ hterm0 n
      rw [List.nil_append] at hx
      exact List.mem_of_getElem? hx
    generalize [] ++ iterI (step2Pairs g an ok0 pl0 (pl0.length - 1)) [] (loop1Pairs g ok0 pl0 a) n = L at hx
    have hgetD : L.getD n default = x := by rw [List.getD_eq_getElem?_getD, hx]; rfl
    constructor
    · intro hKx
      have hxc : (L.filter K).getD ((L.take n).countP K) default = x := by
        rw [List.getD_eq_getElem?_getD, getElem?_filter_countP K hx hKx]; rfl
      rw [step2Pairs_eq_src hT0, step2Pairs_eq_src hT1, hgetD, hxc]
      by_cases het : emptyTailP g an x.1 = true
      · rw [if_pos het, if_pos het, ← hlen, ← hsrc2 x hxmem het, ← hK]
        exact shiftL_filter hok0 _ _
      · rw [if_neg het, if_neg het]; rfl
    · intro hKx
      rw [step2Pairs_eq_src hT0, hgetD]
      by_cases het : emptyTailP g an x.1 = true
      · rw [if_pos het]
        apply List.filter_eq_nil_iff.mpr
        intro q hq hKq
        obtain ⟨p, hp, _, rfl⟩ := mem_shiftL hq
        have hnx : g.nextSym p.1.1 p.1.2 = some (Sym.n (lhsOf g x.1)) := by
          have := (List.mem_filter.mp hp).2
          simpa [nextIs] using this
        have hx' : ok1 x.1.1 x.1.2 = false := by rw [← hK] at hKx; exact hKx
        have := hfail x hxmem het hx' _ _ hnx
        rw [← hK] at hKq
        simp only at hKq
        rw [this] at hKq
        cases hKq
      · rw [if_neg het]; rfl
  obtain ⟨c, ec, tc⟩ := iterI_restrict_terminal K (step2Pairs g an ok0 pl0 (pl0.length - 1))
    (step2Pairs g an ok1 pl1 (pl1.length - 1)) [] (loop1Pairs g ok0 pl0 a) hc
    (by rw [List.nil_append, ← e0]; exact t0)
  rw [e1]
  conv => rhs; rw [e0, ec]
  rw [List.filter_nil, ← hA] at ec tc ⊢
  apply iterI_terminal_unique
  · rw [List.nil_append, ← e1, ← t1]; exact Nat.le_refl _
  · exact tc

end Yaep.LI
