import Yaep.Lemmas.CompleteStep
import Yaep.Lemmas.CompleteKid
/-!
# Completeness of the all-parses forest, part 5: a terminal before the dot
-/
namespace Yaep.CP
open Yaep Yaep.MP

section
variable {g : Grammar} {ok : Nat → Nat → Nat → Bool} {toks : List Nat} {c : Ctx} {s : St}

/-- the place a state puts the translations of its right-hand-side symbols into is a slot of an
abstract-node cell -/
theorem placeOf_cell {G : Ghost} {hole : Option (Nat × Nat)} (hwf : g.translWF = true)
    (hgood : AGood g ok toks s G hole) {X : Nat} (hX : X ∈ s.stack) {rl : Rule}
    (hr : g.rules[(s.state X).rule]? = some rl) {q d : Nat} (hd : rl.order.getD q none = some d) :
    ∃ nm cc ks, s.heap.getD (placeOf (s.state X) (tgt s (s.state X)).1 d).1 .nil = .anode nm cc ks ∧
      (placeOf (s.state X) (tgt s (s.state X)).1 d).1 < s.heap.size ∧
      (placeOf (s.state X) (tgt s (s.state X)).1 d).2 < ks.size := by
  have hok := Grammar.translWF_rule hwf hr
  cases han : (s.state X).anode with
  | some an =>
    obtain ⟨rl', nm, ks, o1, _, o3, _, o5, o6, _⟩ := own_cell hgood hX han
    rw [hr] at o1; injection o1 with o1; subst o1
    have e : placeOf (s.state X) (tgt s (s.state X)).1 d = (an, d) := by unfold placeOf; rw [han]
    rw [e]
    refine ⟨nm, _, ks, o5, o3, ?_⟩
    have := hok.slot_lt _ _ (order_getD_eq_some.mp hd)
    simp only; omega
  | none =>
    have e : placeOf (s.state X) (tgt s (s.state X)).1 d = tgt s (s.state X) := by
      unfold placeOf; rw [han]; rfl
    rw [e]
    exact tgt_cell hwf hgood hX

/-- **a terminal before the dot** -/
theorem cstep_term (hc : CtxAll g ok toks c) (hg : GrOK g) (hinv : CInv g ok toks s) {X : Nat}
    {rest : List Nat} (hst : s.stack = X :: rest) {rlX : Rule} {a : Nat}
    (hr : g.rules[(s.state X).rule]? = some rlX) (hpos : (s.state X).pos ≠ 0)
    (hsym : rlX.rhs[(s.state X).pos - 1]? = some (.t a)) : CInv g ok toks (step c s) := by
  obtain ⟨G, hgood⟩ := hinv.good
  have hwf := hg.twf
  have hgood' := astep_term hc hwf hgood hst hr hpos hsym
  have hXmem : X ∈ s.stack := by rw [hst]; simp
  obtain ⟨rl0, hX0⟩ := hgood.states X hXmem
  have est : s.states.getD X default = s.state X := rfl
  have hrl : rl0 = rlX := by
    have := hX0.hr; rw [est, hr] at this; injection this with this; exact this.symm
  subst hrl
  have hok := Grammar.translWF_rule hwf hr
  have hpa' := tgt_fst hgood hXmem
  have hrule := hc.rule_eq hr
  have hstep := step_term (c := c) (a := a) hst hpos (by rw [hrule]; exact getD_of_getElem? hsym)
  rw [hpa', hrule] at hstep
  obtain ⟨p1, p2, _, p4⟩ := stepTerm_all (c := c) (sid := X) (st := s.state X)
    (pos := (s.state X).pos - 1) (disp := rl0.order.getD ((s.state X).pos - 1) none) (a := a)
    (pa := (tgt s (s.state X)).1) (s := s) hc.all
  rw [← hstep] at p1 p2 p4
  have hpp : (s.state X).pos - 1 + 1 = (s.state X).pos := by omega
  obtain ⟨hitem, _⟩ := hX0.item (by rw [est]; exact hpos)
  rw [est] at hitem
  have hear := hitem
  rw [← hpp] at hear
  obtain ⟨j0, hj0, hw, hear0⟩ := hear.term_inv hr hsym
  have hjle := hitem.le_length
  have hXlt : X < s.states.size := hX0.lt
  -- the new top state
  have hstX : (step c s).state X = { s.state X with pos := (s.state X).pos - 1, plInd := if (s.state X).pos - 1 != 0 then (s.state X).plInd - 1 else (s.state X).plInd } := by
    show (step c s).states.getD X default = _
    rw [p1, getD_set!, if_pos ⟨rfl, hXlt⟩]
  have hstO : ∀ y, y ≠ X → (step c s).state y = s.state y := by
    intro y hy
    unfold St.state; rw [p1, getD_set!]; simp [Ne.symm hy]
  have hcur' : cur ((step c s).state X) = j0 := by
    rw [hstX]; unfold cur; simp only
    by_cases hp0 : (s.state X).pos - 1 = 0
    · rw [if_pos hp0]
      rw [hp0] at hear0
      exact hear0.dot_zero
    · rw [if_neg hp0]
      have : ((s.state X).pos - 1 != 0) = true := by simpa using hp0
      rw [this, if_pos rfl]; omega
  have hcur : cur (s.state X) = j0 + 1 := by unfold cur; rw [if_neg hpos]; exact hj0
  have hanode : ∀ y, ((step c s).state y).anode = (s.state y).anode := by
    intro y
    by_cases hy : y = X
    · subst hy; rw [hstX]
    · rw [hstO y hy]
  have htgX : tgt (step c s) ((step c s).state X) = tgt s (s.state X) := by
    rw [hstX]; exact tgt_congr (hanode _)
  -- the tree memory
  have hleafv : PT.ValidAt g toks (.leaf a j0) (.t a) j0 (j0 + 1) := .leaf hw
  have h0lt : 2 < s.heap.size := by obtain ⟨_, _, _, k3, _⟩ := hgood.root; exact k3
  have hheap : HMono s.heap (step c s).heap ∧ ∀ d, rl0.order.getD ((s.state X).pos - 1) none = some d →
      DenSlot (step c s).heap (placeOf (s.state X) (tgt s (s.state X)).1 d)
        (translate g (.leaf a j0)) := by
    cases hd : rl0.order.getD ((s.state X).pos - 1) none with
    | none =>
      rw [hd] at p4
      simp only [Prod.mk.injEq] at p4
      rw [p4.1]
      exact ⟨HMono.refl _, fun d h => by cases h⟩
    | some d =>
      rw [hd] at p4
      obtain ⟨nm, cc, ks, q1, q2, q3⟩ := placeOf_cell hwf hgood hXmem hr hd
      by_cases he : (a == c.errT) = true
      · simp only [he, if_true, Prod.mk.injEq] at p4
        have hae : a = g.errT := by rw [← hc.errT]; simpa using he
        obtain ⟨m1, m2, _⟩ := hmono_place (node := errId) q1 q2 q3 (by show 1 < _; omega) (kidLt_of_good hgood)
        rw [← p4.1] at m1 m2
        refine ⟨m1, fun d' hd' => ?_⟩
        injection hd' with hd'; subst hd'
        rw [hae, translate_leaf_error]
        exact m2 _ (.err (by show 1 < _; omega) hgood.h1)
      · have hae : a ≠ g.errT := by rw [← hc.errT]; simpa using he
        have he' : (a == c.errT) = false := by simpa using he
        simp only [he', Bool.false_eq_true, if_false] at p4
        have htok : c.plToks.getD ((s.state X).plInd - 1 + 1) (-1) = (j0 : Int) := by
          rw [hj0]; simp only [Nat.add_sub_cancel]
          rw [hc.ptoks (j0 + 1) (by omega) (by omega)]; omega
        rw [htok] at p4
        simp only [Int.toNat_natCast] at p4
        have hcode : c.termCodes.getD a 0 = g.termCodes.getD a 0 := by
          rw [hc.codes, Array.getD_eq_getD_getElem?, List.getElem?_toArray, List.getD_eq_getElem?_getD]
        cases hkn : s.termNodes.getD j0 none with
        | some node =>
          rw [hkn] at p4
          simp only [Prod.mk.injEq] at p4
          obtain ⟨t1, a', t2, t3⟩ := hgood.terms j0 node hkn
          rw [hw] at t2; injection t2 with t2; subst t2
          obtain ⟨m1, m2, _⟩ := hmono_place (node := node) q1 q2 q3 t1 (kidLt_of_good hgood)
          rw [← p4.1] at m1 m2
          refine ⟨m1, fun d' hd' => ?_⟩
          injection hd' with hd'; subst hd'
          rw [translate_leaf hae]
          exact m2 _ (.term t3)
        | none =>
          rw [hkn] at p4
          simp only [Prod.mk.injEq] at p4
          have mp := hmono_push s.heap (.term (c.termCodes.getD a 0) (j0 : Int)) (fun _ _ h => by cases h)
          have q1' : (s.heap.push (MNode.term (c.termCodes.getD a 0) (j0 : Int))).getD
              (placeOf (s.state X) (tgt s (s.state X)).1 d).1 .nil = .anode nm cc ks := by
            rw [getD_push_lt _ _ _ _ q2]; exact q1
          obtain ⟨m1, m2, _⟩ := hmono_place (node := s.heap.size) q1'
            (by simp; omega) q3 (by simp)
            ((kidLt_of_good hgood).push _ (fun _ _ _ h => by cases h))
          rw [← p4.1] at m1 m2
          refine ⟨mp.trans m1, fun d' hd' => ?_⟩
          injection hd' with hd'; subst hd'
          rw [translate_leaf hae, ← hcode]
          exact m2 _ (.term (getD_push_eq _ _ _))
  obtain ⟨hm, hplaced⟩ := hheap
  -- the right context of the new top state
  have hrcX : RCtx g toks ((step c s).state X) := by
    obtain ⟨rl1, γ, r1, r2, r3⟩ := hinv.rc X hXmem
    rw [hr] at r1; injection r1 with r1; subst r1
    refine ⟨rl0, γ, by rw [hstX]; exact hr, r2, ?_⟩
    rw [hcur']
    rw [hcur] at r3
    have e1 : rl0.rhs.drop ((step c s).state X).pos = .t a :: rl0.rhs.drop (s.state X).pos := by
      rw [hstX]; simp only
      have hlt : (s.state X).pos - 1 < rl0.rhs.length := (List.getElem?_eq_some_iff.mp hsym).1
      have hx : rl0.rhs[(s.state X).pos - 1] = .t a := (List.getElem?_eq_some_iff.mp hsym).2
      rw [List.drop_eq_getElem_cons hlt, hx, hpp]
    have e2 : toks.drop j0 = a :: toks.drop (j0 + 1) := by
      have hlt : j0 < toks.length := (List.getElem?_eq_some_iff.mp hw).1
      have hx : toks[j0] = a := (List.getElem?_eq_some_iff.mp hw).2
      rw [List.drop_eq_getElem_cons hlt, hx]
    rw [e1, e2, List.cons_append]
    exact Der.term r3
  refine hinv.step_of hst hgood' hm (fun y _ => hanode y) ?_ ?_ ?_
  · intro x hx
    have hne : x ≠ X := by
      have := hgood.top_max hst x hx
      omega
    exact ⟨by rw [p2, hst]; exact List.mem_cons_of_mem _ hx, hstO x hne⟩
  · intro x hx
    rw [p2, hst] at hx
    rcases List.mem_cons.mp hx with rfl | hx
    · right
      refine ⟨hrcX, fun a' ha' => ?_⟩
      rw [htgX]
      rw [hanode] at ha'
      exact hm.inslot _ _ (hinv.inpl x hXmem a' ha')
    · exact Or.inl hx
  · -- the debts of the top state
    intro π t ho
    have hXmem' : X ∈ (step c s).stack := by rw [p2]; exact hXmem
    have htake := take_pred_snoc hpos hsym
    have hlen : (rl0.rhs.take ((s.state X).pos - 1)).length = (s.state X).pos - 1 := by
      rw [List.length_take]
      have := (List.getElem?_eq_some_iff.mp hsym).1
      omega
    have hsplit : ∀ kids, PT.ValidListAt g toks kids (rl0.rhs.take (s.state X).pos) (s.state X).orig
        (cur (s.state X)) → ∃ pre, kids = pre ++ [.leaf a j0] ∧ pre.length = (s.state X).pos - 1 ∧
        PT.ValidListAt g toks pre (rl0.rhs.take ((step c s).state X).pos) ((step c s).state X).orig
          (cur ((step c s).state X)) := by
      intro kids hk
      rw [htake, hcur] at hk
      obtain ⟨pre, x, m, rfl, hp, hx⟩ := ValidListAt.snoc_inv hk
      cases hx with
      | leaf hw' =>
        refine ⟨pre, rfl, by rw [hp.length_eq, hlen], ?_⟩
        rw [hcur', hstX]; exact hp
    cases ho with
    | @owner an rl2 kids nm slots h1 h2 h3 h4 h5 h6 h7 h8 h9 =>
      rw [hr] at h3; injection h3 with h3; subst h3
      obtain ⟨pre, rfl, hprelen, hpre⟩ := hsplit kids h5
      refine Ev.owe hXmem' (.owner (a := an) (kids := pre) (by rw [htgX]; exact h1)
        (by rw [hanode]; exact h2) (by rw [hstX]; exact hr) h4 hpre h6 ?_ ?_ h9)
      · intro d q hd ho hq
        have hq' : q < (s.state X).pos - 1 := by rw [hstX] at hq; exact hq
        rw [h7 d q hd ho (by omega)]
        congr 1
        rw [List.getD_eq_getElem?_getD, List.getD_eq_getElem?_getD,
          List.getElem?_append_left (by omega)]
      · intro d q hd ho hq
        have hq' : (s.state X).pos - 1 ≤ q := by rw [hstX] at hq; exact hq
        rcases Nat.eq_or_lt_of_le hq' with e | hlt
        · subst e
          have hsl : slots.getD d .nil = translate g (.leaf a j0) := by
            rw [h7 d _ hd ho (by omega)]
            congr 1
            rw [List.getD_eq_getElem?_getD, List.getElem?_append_right (by omega), hprelen]
            simp
          rw [hsl]
          have := hplaced d ho
          have e2 : placeOf (s.state X) (tgt s (s.state X)).1 d = (an, d) := by
            unfold placeOf; rw [h2]
          rw [e2] at this
          exact .now this
        · exact (h8 d q hd ho (by omega)).2
    | @pass rl2 kids q h1 h2 h3 h4 h5 h6 =>
      rw [hr] at h3; injection h3 with h3; subst h3
      obtain ⟨pre, rfl, hprelen, hpre⟩ := hsplit kids h4
      rcases Nat.lt_or_ge q ((s.state X).pos - 1) with hlt | hge
      · have e : (pre ++ [PT.leaf a j0]).getD q default = pre.getD q default := by
          rw [List.getD_eq_getElem?_getD, List.getD_eq_getElem?_getD,
            List.getElem?_append_left (by omega)]
        rw [e]
        exact Ev.owe hXmem' (.pass (kids := pre) (by rw [htgX]; exact h1) (by rw [hanode]; exact h2)
          (by rw [hstX]; exact hr) hpre (by rw [hstX]; exact hlt) h6)
      · have hq : q = (s.state X).pos - 1 := by omega
        subst hq
        have e : (pre ++ [PT.leaf a j0]).getD ((s.state X).pos - 1) default = .leaf a j0 := by
          rw [List.getD_eq_getElem?_getD, List.getElem?_append_right (by omega), hprelen]
          simp
        rw [e]
        obtain ⟨d, hd⟩ := Option.isSome_iff_exists.mp h6
        have := hplaced d hd
        have e2 : placeOf (s.state X) (tgt s (s.state X)).1 d = tgt s (s.state X) := by
          unfold placeOf; rw [h2]; rfl
        rw [e2, h1] at this
        exact .now this
    | @passNil rl2 h1 h2 h3 h4 =>
      exact Ev.owe hXmem' (.passNil (by rw [htgX]; exact h1) (by rw [hanode]; exact h2)
        (by rw [hstX]; exact h3) h4)

end

end Yaep.CP
