import Yaep.Spec.Translate
import Yaep.Lemmas.Trees
import Yaep.Lemmas.DepthBound
import Yaep.Lemmas.ReadGrammar
/-!
# Helper lemmas for the structural facts about `translate` (C02) and for
`readGrammar_translWF`
-/
namespace Yaep

/-! ## `Rule.translWF` as a proposition -/

structure Rule.TranslOK (rl : Rule) : Prop where
  len : rl.order.length = rl.rhs.length
  slot_lt : ∀ (p s : Nat), rl.order[p]? = some (some s) → s < rl.transLen
  inj : ∀ (p q s : Nat), rl.order[p]? = some (some s) → rl.order[q]? = some (some s) → p = q
  single : rl.anode = none → ∀ (p q s s' : Nat), rl.order[p]? = some (some s) →
    rl.order[q]? = some (some s') → p = q

theorem order_getD_eq_some {order : List (Option Nat)} {p s : Nat} :
    order.getD p none = some s ↔ order[p]? = some (some s) := by
  rw [List.getD_eq_getElem?_getD]
  cases h : order[p]? with
  | none => simp
  | some x => simp

theorem Rule.translWF_iff (rl : Rule) : rl.translWF = true ↔ rl.TranslOK := by
  unfold Rule.translWF
  simp only [Bool.and_eq_true, beq_iff_eq, List.all_eq_true, List.mem_range, Bool.or_eq_true,
    Bool.not_eq_true']
  constructor
  · rintro ⟨⟨h1, h2⟩, h3⟩
    refine ⟨h1, ?_, ?_, ?_⟩
    · intro p s hp
      have hlt := lt_length_of_getElem?_eq_some hp
      have := h2 p hlt
      rw [order_getD_eq_some.mpr hp] at this
      simp only [Bool.and_eq_true, decide_eq_true_eq] at this
      exact this.1
    · intro p q s hp hq
      have hlt := lt_length_of_getElem?_eq_some hp
      have hltq := lt_length_of_getElem?_eq_some hq
      have := h2 p hlt
      rw [order_getD_eq_some.mpr hp] at this
      simp only [Bool.and_eq_true, decide_eq_true_eq, List.all_eq_true, List.mem_range,
        Bool.or_eq_true, beq_iff_eq, bne_iff_ne, ne_eq] at this
      rcases this.2 q hltq with h | h
      · exact h.symm
      · exact absurd (order_getD_eq_some.mpr hq) h
    · intro ha p q s s' hp hq
      rcases h3 with h3 | h3
      · rw [ha] at h3; simp at h3
      · have hlt := lt_length_of_getElem?_eq_some hp
        have hltq := lt_length_of_getElem?_eq_some hq
        rcases h3 p hlt q hltq with (h | h) | h
        · rw [order_getD_eq_some.mpr hp] at h; simp at h
        · rw [order_getD_eq_some.mpr hq] at h; simp at h
        · exact h
  · intro h
    refine ⟨⟨h.len, ?_⟩, ?_⟩
    · intro p _
      cases hp : rl.order.getD p none with
      | none => rfl
      | some s =>
        have hp' := order_getD_eq_some.mp hp
        simp only [Bool.and_eq_true, decide_eq_true_eq, List.all_eq_true, List.mem_range,
          Bool.or_eq_true, beq_iff_eq, bne_iff_ne, ne_eq]
        refine ⟨h.slot_lt p s hp', ?_⟩
        intro q _
        by_cases hq : rl.order.getD q none = some s
        · exact .inl (h.inj q p s (order_getD_eq_some.mp hq) hp')
        · exact .inr hq
    · cases ha : rl.anode with
      | some n => exact .inl rfl
      | none =>
        right
        intro p _ q _
        cases hp : rl.order.getD p none with
        | none => simp
        | some s =>
          cases hq : rl.order.getD q none with
          | none => simp
          | some s' =>
            simp only [Option.isSome_some, Bool.true_eq_false, or_self, false_or]
            exact h.single ha p q s s' (order_getD_eq_some.mp hp) (order_getD_eq_some.mp hq)

theorem Grammar.translWF_rule {g : Grammar} (h : g.translWF = true) {r : Nat} {rl : Rule}
    (hr : g.rules[r]? = some rl) : rl.TranslOK := by
  unfold Grammar.translWF at h
  exact (Rule.translWF_iff rl).mp (List.all_eq_true.mp h rl (List.mem_of_getElem? hr))


/-! ## the terminals of a translation -/

theorem termsList_eq_flatMap (ts : List Tree) : Tree.termsList ts = ts.flatMap Tree.terms := by
  induction ts with
  | nil => rfl
  | cons t ts ih => simp [Tree.termsList, ih]

theorem mem_fillSlots {order : List (Option Nat)} {kids : List Tree} {len : Nat} {t : Tree}
    (h : t ∈ fillSlots order kids len) : t = .nil ∨ t ∈ kids := by
  unfold fillSlots at h
  obtain ⟨s, _, rfl⟩ := List.mem_map.mp h
  split
  · rename_i p _
    rw [List.getD_eq_getElem?_getD]
    cases hk : kids[p]? with
    | none => exact .inl rfl
    | some k => exact .inr (List.mem_of_getElem? hk)
  · exact .inl rfl

theorem getD_nil_cases (kids : List Tree) (p : Nat) :
    kids.getD p .nil = .nil ∨ kids.getD p .nil ∈ kids := by
  rw [List.getD_eq_getElem?_getD]
  cases hk : kids[p]? with
  | none => exact .inl rfl
  | some k => exact .inr (List.mem_of_getElem? hk)

/-- the TERM nodes of the translation of a rule application are TERM nodes of the
translations of its children -/
theorem terms_translateRule {rl : Rule} {kids : List Tree} {x : Int × Int}
    (h : x ∈ (translateRule rl kids).terms) : ∃ k ∈ kids, x ∈ k.terms := by
  unfold translateRule at h
  split at h
  · simp only [Tree.terms, termsList_eq_flatMap, List.mem_flatMap] at h
    obtain ⟨t, ht, hx⟩ := h
    rcases mem_fillSlots ht with rfl | ht
    · simp [Tree.terms] at hx
    · exact ⟨t, ht, hx⟩
  · split at h
    · rename_i p _
      rcases getD_nil_cases kids p with h0 | h0
      · rw [h0] at h; simp [Tree.terms] at h
      · exact ⟨_, h0, h⟩
    · simp [Tree.terms] at h

theorem translate_node_eq {g : Grammar} {r : Nat} {rl : Rule} {kids : List PT}
    (h : g.rules[r]? = some rl) :
    translate g (.node r kids) = translateRule rl (kids.map (translate g)) := by
  simp [translate, h, translateList_eq_map]

/-- every TERM node of the translation of a derivation of `toks[i, j)` carries the code and
the position of a token of that segment -/
theorem terms_of_valid {g : Grammar} {toks : List Nat} : ∀ (pt : PT) {X : Sym} {i j : Nat},
    PT.ValidAt g toks pt X i j → ∀ c a, (c, a) ∈ (translate g pt).terms →
      ∃ k t : Nat, a = (k : Int) ∧ i ≤ k ∧ k < j ∧ toks[k]? = some t ∧ t ≠ g.errT ∧
        g.termCodes.getD t 0 = c := by
  intro pt
  induction pt using PT.ind with
  | hleaf b p =>
    intro X i j h c a hx
    cases h with
    | leaf hb =>
      simp only [translate] at hx
      split at hx
      · simp [Tree.terms] at hx
      · rename_i hne
        simp only [Tree.terms, List.mem_singleton, Prod.mk.injEq] at hx
        exact ⟨p, b, hx.2, Nat.le_refl _, Nat.lt_succ_self _, hb, hne, hx.1.symm⟩
  | hnode r kids ih =>
    intro X i j h c a hx
    cases h with
    | node e _ v =>
      rw [translate_node_eq e] at hx
      obtain ⟨t, ht, hxt⟩ := terms_translateRule hx
      obtain ⟨k, hk, rfl⟩ := List.mem_map.mp ht
      obtain ⟨X', a', b', hv, ha', hb', _⟩ := v.kid_info k hk
      obtain ⟨pos, tok, h1, h2, h3, h4⟩ := ih k hk hv c a hxt
      exact ⟨pos, tok, h1, by omega, by omega, h4⟩


/-! ## no token is translated twice -/

/-- the child at index `p`, its span, and the rest of the list behind it -/
theorem PT.ValidListAt.kid_at {g : Grammar} {toks : List Nat} :
    ∀ {kids : List PT} {Xs : List Sym} {i j : Nat}, PT.ValidListAt g toks kids Xs i j →
      ∀ {p : Nat} {k : PT}, kids[p]? = some k →
        ∃ X a b, PT.ValidAt g toks k X a b ∧ i ≤ a ∧ b ≤ j ∧
          PT.ValidListAt g toks (kids.drop (p + 1)) (Xs.drop (p + 1)) b j
  | [], _, _, _, _, p, k, hk => by simp at hk
  | k0 :: ks, _, i, j, h, p, k, hk => by
    cases h with
    | @cons _ _ X0 Xs' _ m _ h1 h2 =>
      have l1 := h1.le
      have l2 := h2.le
      cases p with
      | zero =>
        simp only [List.getElem?_cons_zero, Option.some.injEq] at hk
        subst hk
        exact ⟨X0, i, m, h1, Nat.le_refl _, l2, by simpa using h2⟩
      | succ p =>
        obtain ⟨X, a, b, hv, ha, hb, hrest⟩ := PT.ValidListAt.kid_at h2 (by simpa using hk)
        exact ⟨X, a, b, hv, by omega, hb, by simpa using hrest⟩

/-- a TERM node cannot belong to the translations of two different children -/
theorem terms_kids_disjoint {g : Grammar} {toks : List Nat} {kids : List PT} {Xs : List Sym}
    {i j : Nat} (v : PT.ValidListAt g toks kids Xs i j) {p1 p2 : Nat} {k1 k2 : PT}
    (h1 : kids[p1]? = some k1) (h2 : kids[p2]? = some k2) {c1 c2 x : Int}
    (hx1 : (c1, x) ∈ (translate g k1).terms) (hx2 : (c2, x) ∈ (translate g k2).terms) :
    p1 = p2 := by
  have key : ∀ {p1 p2 : Nat} {k1 k2 : PT} {c1 c2 : Int}, kids[p1]? = some k1 →
      kids[p2]? = some k2 → (c1, x) ∈ (translate g k1).terms →
      (c2, x) ∈ (translate g k2).terms → ¬ p1 < p2 := by
    intro p1 p2 k1 k2 c1 c2 h1 h2 hx1 hx2 hlt
    obtain ⟨X, a, b, hv, _, _, hrest⟩ := v.kid_at h1
    have hk2 : k2 ∈ kids.drop (p1 + 1) := by
      apply List.mem_of_getElem? (i := p2 - (p1 + 1))
      rw [List.getElem?_drop]
      have : p1 + 1 + (p2 - (p1 + 1)) = p2 := by omega
      rw [this]; exact h2
    obtain ⟨X', a', b', hv', ha', _, _⟩ := hrest.kid_info k2 hk2
    obtain ⟨n1, _, e1, _, hlt1, _⟩ := terms_of_valid k1 hv c1 x hx1
    obtain ⟨n2, _, e2, hge2, _, _⟩ := terms_of_valid k2 hv' c2 x hx2
    have : (n1 : Int) = n2 := by rw [← e1, ← e2]
    have : n1 = n2 := by exact_mod_cast this
    omega
  rcases Nat.lt_trichotomy p1 p2 with h | h | h
  · exact absurd h (key h1 h2 hx1 hx2)
  · exact h
  · exact absurd h (key h2 h1 hx2 hx1)

theorem terms_positions_nodup {g : Grammar} {toks : List Nat} : ∀ (pt : PT) {X : Sym} {i j : Nat},
    PT.ValidAt g toks pt X i j → ((translate g pt).terms.map (·.2)).Nodup := by
  intro pt
  induction pt using PT.ind with
  | hleaf b p =>
    intro X i j _
    simp only [translate]
    split <;> simp [Tree.terms]
  | hnode r kids ih =>
    intro X i j h
    cases h with
    | @node _ rl _ _ _ _ e _ v =>
      rw [translate_node_eq e]
      have hkid : ∀ (p : Nat),
          (((kids.map (translate g)).getD p .nil).terms.map (·.2)).Nodup := by
        intro p
        rw [List.getD_eq_getElem?_getD, List.getElem?_map]
        cases hk : kids[p]? with
        | none => simp [Tree.terms]
        | some k =>
          obtain ⟨X', a', b', hv, _⟩ := v.kid_info k (List.mem_of_getElem? hk)
          simpa using ih k (List.mem_of_getElem? hk) hv
      unfold translateRule
      split
      · -- abstract node
        simp only [Tree.terms, termsList_eq_flatMap, fillSlots, List.flatMap_map,
          List.map_flatMap]
        apply nodup_flatMap_of List.nodup_range
        · intro s _
          split
          · exact hkid _
          · simp [Tree.terms]
        · intro s1 _ s2 _ x hx1 hx2
          split at hx1
          · rename_i p1 hf1
            split at hx2
            · rename_i p2 hf2
              rw [List.getD_eq_getElem?_getD, List.getElem?_map] at hx1 hx2
              cases hk1 : kids[p1]? with
              | none => rw [hk1] at hx1; simp [Tree.terms] at hx1
              | some k1 =>
                cases hk2 : kids[p2]? with
                | none => rw [hk2] at hx2; simp [Tree.terms] at hx2
                | some k2 =>
                  rw [hk1] at hx1; rw [hk2] at hx2
                  simp only [Option.map_some, Option.getD_some, List.mem_map] at hx1 hx2
                  obtain ⟨⟨c1, y1⟩, hy1, rfl⟩ := hx1
                  obtain ⟨⟨c2, y2⟩, hy2, hyy⟩ := hx2
                  simp only at hyy; subst hyy
                  have hp := terms_kids_disjoint v hk1 hk2 hy1 hy2
                  subst hp
                  have e1 := List.find?_some hf1
                  have e2 := List.find?_some hf2
                  simp only [beq_iff_eq] at e1 e2
                  rw [e1] at e2
                  injection e2
            · simp [Tree.terms] at hx2
          · simp [Tree.terms] at hx1
      · split
        · exact hkid _
        · simp [Tree.terms]


/-! ## `readGrammar` builds well-formed translations -/

/-- the `order` array while `readTransl` fills it: entries only at positions `< n`, slots
below the current index `i`, no slot twice -/
structure OrderInv (n i : Nat) (order : List (Option Nat)) : Prop where
  len : order.length = n
  lt : ∀ (p s : Nat), order[p]? = some (some s) → s < i
  inj : ∀ (p q s : Nat), order[p]? = some (some s) → order[q]? = some (some s) → p = q

theorem OrderInv.init (n : Nat) : OrderInv n 0 (List.replicate n none) := by
  refine ⟨List.length_replicate, ?_, ?_⟩
  · intro p s h
    rw [List.getElem?_replicate] at h
    split at h <;> simp at h
  · intro p q s h
    rw [List.getElem?_replicate] at h
    split at h <;> simp at h

theorem OrderInv.mono {n i i' : Nat} {order : List (Option Nat)} (h : OrderInv n i order)
    (hi : i ≤ i') : OrderInv n i' order :=
  ⟨h.len, fun p s hp => Nat.lt_of_lt_of_le (h.lt p s hp) hi, h.inj⟩

theorem OrderInv.set {n i el : Nat} {order : List (Option Nat)} (h : OrderInv n i order) :
    OrderInv n (i + 1) (order.set el (some i)) := by
  refine ⟨by rw [List.length_set]; exact h.len, ?_, ?_⟩
  · intro p s hp
    rw [List.getElem?_set] at hp
    split at hp
    · split at hp
      · simp at hp; omega
      · simp at hp
    · have := h.lt p s hp; omega
  · intro p q s hp hq
    rw [List.getElem?_set] at hp hq
    split at hp
    · rename_i hep
      split at hp
      · simp at hp
        split at hq
        · rename_i heq; omega
        · have := h.lt q s hq; omega
      · simp at hp
    · split at hq
      · split at hq
        · simp at hq
          have := h.lt p s hp; omega
        · simp at hq
      · exact h.inj p q s hp hq

theorem readTransl_order {n : Nat} {b : Bool} (tr : List Nat) :
    ∀ (i : Nat) (order : List (Option Nat)) (tl : Nat) (q : List (Option Nat) × Nat),
      OrderInv n i order → readTransl n b tr i order tl = .ok q →
      OrderInv n (i + tr.length) q.1 ∧ (b = true → q.2 = tl + tr.length) := by
  induction tr with
  | nil =>
    intro i order tl q hinv hq
    unfold readTransl at hq
    injection hq with hq; subst hq
    exact ⟨by simpa using hinv, fun _ => by simp⟩
  | cons el rest ih =>
    intro i order tl q hinv hq
    unfold readTransl at hq
    by_cases hge : el ≥ n
    · rw [if_pos hge] at hq
      by_cases hnil : el ≠ NIL_TRANSL
      · rw [if_pos hnil] at hq; cases hq
      · rw [if_neg hnil] at hq
        obtain ⟨h1, h2⟩ := ih _ _ _ q (hinv.mono (Nat.le_succ i)) hq
        have e : i + (rest.length + 1) = i + 1 + rest.length := by omega
        refine ⟨by rw [List.length_cons, e]; exact h1, ?_⟩
        intro hb
        rw [h2 hb, if_pos hb, List.length_cons]; omega
    · rw [if_neg hge] at hq
      by_cases hseen : (order.getD el none).isSome = true
      · rw [if_pos hseen] at hq; cases hq
      · rw [if_neg hseen] at hq
        obtain ⟨h1, h2⟩ := ih _ _ _ q hinv.set hq
        have e : i + (rest.length + 1) = i + 1 + rest.length := by omega
        refine ⟨by rw [List.length_cons, e]; exact h1, ?_⟩
        intro hb
        rw [h2 hb, List.length_cons]; omega

/-- the rule `readRules` creates from a raw rule has a well-formed translation -/
theorem mkRule_translOK {rr : RawRule} {lhsN : Nat} {rhs : List Sym}
    {q : List (Option Nat) × Nat} (h10 : rr10 rr = false)
    (hq : translPhase rr rhs.length = .ok q) : (mkRule rr lhsN rhs q.1 q.2).TranslOK := by
  unfold translPhase at hq
  cases htr : rr.transl with
  | none =>
    rw [htr] at hq
    injection hq with hq; subst hq
    have h0 := OrderInv.init rhs.length
    exact ⟨h0.len, fun p s hp => absurd (h0.lt p s hp) (Nat.not_lt_zero _), h0.inj,
      fun _ p q s s' hp => absurd (h0.lt p s hp) (Nat.not_lt_zero _)⟩
  | some tr =>
    rw [htr] at hq
    cases ha : rr.anode with
    | some nm =>
      rw [ha] at hq
      obtain ⟨h1, h2⟩ := readTransl_order tr 0 _ 0 q (OrderInv.init _) hq
      have hlen : q.2 = tr.length := by simpa using h2 rfl
      refine ⟨h1.len, ?_, h1.inj, ?_⟩
      · intro p s hp
        have := h1.lt p s hp
        simp only [mkRule]; omega
      · intro hnone; simp [mkRule, ha] at hnone
    | none =>
      rw [ha] at hq
      simp only [Option.isSome_none] at hq
      have hshort : tr = [] ∨ ∃ x, tr = [x] := by
        unfold rr10 at h10
        rw [ha, htr] at h10
        match tr, h10 with
        | [], _ => exact .inl rfl
        | [x], _ => exact .inr ⟨x, rfl⟩
        | _ :: _ :: _, h => simp at h
      have h0 := OrderInv.init rhs.length
      rcases hshort with rfl | ⟨x, rfl⟩
      · unfold readTransl at hq
        injection hq with hq; subst hq
        exact ⟨h0.len, fun p s hp => absurd (h0.lt p s hp) (Nat.not_lt_zero _), h0.inj,
          fun _ p q s s' hp => absurd (h0.lt p s hp) (Nat.not_lt_zero _)⟩
      · unfold readTransl at hq
        by_cases hge : x ≥ rhs.length
        · rw [if_pos hge] at hq
          by_cases hnil : x ≠ NIL_TRANSL
          · rw [if_pos hnil] at hq; cases hq
          · rw [if_neg hnil] at hq
            unfold readTransl at hq
            injection hq with hq; subst hq
            exact ⟨h0.len, fun p s hp => absurd (h0.lt p s hp) (Nat.not_lt_zero _), h0.inj,
              fun _ p q s s' hp => absurd (h0.lt p s hp) (Nat.not_lt_zero _)⟩
        · rw [if_neg hge] at hq
          split at hq
          · cases hq
          · unfold readTransl at hq
            injection hq with hq; subst hq
            have h1 := h0.set (el := x)
            have hpos : ∀ (p s : Nat),
                ((List.replicate rhs.length (none : Option Nat)).set x (some 0))[p]? =
                  some (some s) → p = x := by
              intro p s hp
              rw [List.getElem?_set] at hp
              split at hp
              · rename_i h; exact h.symm
              · exact absurd (h0.lt p s hp) (Nat.not_lt_zero _)
            exact ⟨h1.len, fun p s hp => by have := h1.lt p s hp; simpa [mkRule] using this,
              h1.inj, fun _ p q s s' hp hq => by rw [hpos p s hp, hpos q s' hq]⟩

theorem readRhs_rules (l : List String) : ∀ (s : RG) (acc : List Sym),
    (readRhs l s acc).1.rules = s.rules := by
  induction l with
  | nil => intro s acc; rfl
  | cons nm rest ih =>
    intro s acc
    unfold readRhs
    split
    · exact ih _ _
    · exact ih _ _
    · simp only; rw [ih]; rfl

/-- all rules built so far have well-formed translations -/
def RG.TranslInv (s : RG) : Prop := ∀ rl ∈ s.rules, rl.TranslOK

theorem startRule_translOK (ax lhsN eof : Nat) : (startRule ax lhsN eof).TranslOK :=
  (Rule.translWF_iff _).mp (by rfl)

theorem ruleStep_translInv {rr : RawRule} {s s' : RG} (h : s.TranslInv)
    (hs : ruleStep rr s = .ok s') : s'.TranslInv := by
  unfold ruleStep at hs
  split at hs
  · cases hs
  · cases hl : lhsPhase rr s with
    | error c => rw [hl] at hs; cases hs
    | ok p =>
      rw [hl] at hs
      simp only at hs
      have hp : p.1.rules = s.rules := by
        unfold lhsPhase at hl
        split at hl
        · injection hl with hl; subst hl; rfl
        · cases hl
        · injection hl with hl; subst hl; rfl
      by_cases h10 : rr10 rr = true
      · rw [if_pos h10] at hs; cases hs
      · rw [if_neg h10] at hs
        split at hs
        · cases hs
        · cases hst : startPhase p.1 p.2 with
          | error c => rw [hst] at hs; cases hs
          | ok s2 =>
            rw [hst] at hs
            simp only at hs
            have hs2 : s2.TranslInv := by
              unfold startPhase at hst
              split at hst
              · injection hst with hst; subst hst
                intro rl hrl; exact h rl (hp ▸ hrl)
              · split at hst
                · cases hst
                · split at hst
                  · cases hst
                  · injection hst with hst; subst hst
                    intro rl hrl
                    simp only [RG.addNt, RG.addTerm] at hrl
                    rcases List.mem_append.mp hrl with hrl | hrl
                    · exact h rl (hp ▸ hrl)
                    · simp only [List.mem_singleton] at hrl
                      subst hrl; exact startRule_translOK _ _ _
            cases htp : translPhase rr (readRhs rr.rhs s2 []).2.length with
            | error c => rw [htp] at hs; cases hs
            | ok q =>
              rw [htp] at hs
              simp only at hs
              injection hs with hs; subst hs
              intro rl hrl
              simp only at hrl
              rcases List.mem_append.mp hrl with hrl | hrl
              · rw [readRhs_rules] at hrl; exact hs2 rl hrl
              · simp only [List.mem_singleton] at hrl
                subst hrl
                exact mkRule_translOK (by simpa using h10) htp

theorem readRules_translInv (rules : List RawRule) : ∀ {s s' : RG}, s.TranslInv →
    readRules rules s = .ok s' → s'.TranslInv := by
  induction rules with
  | nil =>
    intro s s' h hs
    rw [readRules_nil] at hs
    injection hs with hs; subst hs; exact h
  | cons rr rest ih =>
    intro s s' h hs
    rw [readRules_cons] at hs
    cases hstep : ruleStep rr s with
    | error c => rw [hstep] at hs; cases hs
    | ok s1 =>
      rw [hstep] at hs
      exact ih (ruleStep_translInv h hstep) hs

theorem readTerms_rules (ts : List (String × Int)) : ∀ {s s' : RG},
    readTerms ts s = .ok s' → s'.rules = s.rules := by
  induction ts with
  | nil => intro s s' h; unfold readTerms at h; injection h with h; subst h; rfl
  | cons t ts ih =>
    intro s s' h
    obtain ⟨nm, code⟩ := t
    unfold readTerms at h
    split at h
    · cases h
    · split at h
      · cases h
      · split at h
        · cases h
        · rw [ih h]; rfl

theorem buildGrammar_translWF {raw : RawGrammar} {g : Grammar} (hb : buildGrammar raw = .ok g) :
    g.translWF = true := by
  unfold buildGrammar at hb
  cases hrg : buildRG raw with
  | error c => rw [hrg] at hb; cases hb
  | ok s =>
    rw [hrg] at hb
    injection hb with hb; subst hb
    have hinv : s.TranslInv := by
      unfold buildRG at hrg
      cases ht : readTerms raw.terms {} with
      | error c => rw [ht] at hrg; cases hrg
      | ok s0 =>
        rw [ht] at hrg
        simp only at hrg
        split at hrg
        · cases hrg
        · cases hr : readRules raw.rules
              { (s0.addTerm TERM_ERROR_NAME (-2)).1 with
                errT := (s0.addTerm TERM_ERROR_NAME (-2)).2 } with
          | error c => rw [hr] at hrg; cases hrg
          | ok s1 =>
            rw [hr] at hrg
            simp only at hrg
            split at hrg
            · cases hrg
            · injection hrg with hrg; subst hrg
              apply readRules_translInv raw.rules _ hr
              intro rl hrl
              have : s0.rules = [] := readTerms_rules raw.terms ht
              simp only [RG.addTerm, this] at hrl
              cases hrl
    unfold Grammar.translWF finishRG RG.toGrammar
    simp only [List.all_eq_true]
    intro rl hrl
    rcases List.mem_append.mp hrl with hrl | hrl
    · exact (Rule.translWF_iff rl).mpr (hinv rl hrl)
    · simp only [List.mem_singleton] at hrl
      subst hrl
      rfl

theorem readGrammar_translWF_aux {raw : RawGrammar} {g : Grammar} (h : readGrammar raw = .ok g) :
    g.translWF = true := by
  rw [readGrammar_eq] at h
  cases hb : buildGrammar raw with
  | error c => rw [hb] at h; cases h
  | ok g' =>
    rw [hb] at h
    simp only at h
    split at h
    · cases h
    · injection h with h; subst h
      exact buildGrammar_translWF hb


theorem PT.ValidListAt.length_eq {g : Grammar} {toks : List Nat} :
    ∀ {kids : List PT} {Xs : List Sym} {i j : Nat}, PT.ValidListAt g toks kids Xs i j →
      kids.length = Xs.length
  | [], _, _, _, h => by cases h; rfl
  | _ :: ks, _, _, _, h => by
    cases h with
    | cons _ h2 => simp [PT.ValidListAt.length_eq h2]

theorem getD_map_translate {g : Grammar} {kids : List PT} {p : Nat} {k : PT}
    (h : kids[p]? = some k) : (kids.map (translate g)).getD p .nil = translate g k := by
  rw [List.getD_eq_getElem?_getD, List.getElem?_map, h]; rfl

end Yaep
