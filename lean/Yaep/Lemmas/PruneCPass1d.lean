import Yaep.Lemmas.PruneCPass1c
/-!
# The first pass: every call of `prune_to_minimal` returns what the specification says
-/
namespace Yaep.PC
open Yaep

theorem somePrefix_split : ∀ l : List (Option Nat),
    ∃ rest, l = (somePrefix l).map some ++ rest ∧ somePrefix rest = []
  | [] => ⟨[], rfl, rfl⟩
  | none :: r => ⟨none :: r, rfl, rfl⟩
  | some k :: r => by
    obtain ⟨rest, h1, h2⟩ := somePrefix_split r
    refine ⟨rest, ?_, h2⟩
    simp only [somePrefix, List.map_cons, List.cons_append]
    rw [← h1]

theorem mapPre_split (f : Nat → Nat) (K : List Nat) (rest : List (Option Nat))
    (hr : somePrefix rest = []) :
    mapPre f (K.map some ++ rest) = K.map (fun k => some (f k)) ++ rest := by
  induction K with
  | nil =>
    cases rest with
    | nil => rfl
    | cons x r =>
      cases x with
      | none => rfl
      | some k => simp [somePrefix] at hr
  | cons k K ih => simp [mapPre, ih]

theorem somePrefix_length_le (l : List (Option Nat)) : (somePrefix l).length ≤ l.length := by
  induction l with
  | nil => simp [somePrefix]
  | cons x r ih =>
    cases x with
    | none => simp [somePrefix]
    | some k => simp [somePrefix]; omega

theorem memoFind_cons (e : AltRes) (m : List AltRes) (a : Nat) :
    memoFind (e :: m) a = if e.alt = a then some e else memoFind m a := by
  unfold memoFind
  rw [List.find?_cons]
  by_cases h : e.alt = a
  · simp [h]
  · have : (e.alt == a) = false := by simpa using h
    simp [this, h]

theorem IsChain.reach {h : Array Cell} {a : Nat} {l : List Nat} (hc : IsChain h a l) :
    ∀ j ∈ l, Reach h a j := by
  induction hc with
  | last e => intro j hj; simp at hj; subst hj; exact .refl _
  | @cons a nd j' l e hl ih =>
    intro j hj
    rcases List.mem_cons.1 hj with rfl | hj
    · exact .refl _
    · exact .step (b := j') (by simp [succs, e]) (ih j hj)

theorem altNode_succ {h : Array Cell} {j : Nat} (hal : isAlt h j = true) : altNode h j ∈ succs h j := by
  unfold isAlt at hal
  unfold altNode succs
  split at hal
  · rename_i nd nx e
    cases nx <;> simp [e]
  · cases hal

section
variable {h0 : Array Cell} {rk hd : Nat → Nat} {one free : Bool}

theorem Inv.weaken {X X' : Nat → Prop} {s : PSt} (hx : ∀ x, X x → X' x)
    (hi : Inv h0 rk hd one free X s) : Inv h0 rk hd one free X' s :=
  ⟨hi.size, fun i h1 h2 => hi.node i h1 (fun h => h2 (hx i h)),
    fun a h1 h2 h3 h4 => hi.chain a h1 h2 h3 (fun h => h4 (hx a h)), hi.memo⟩

theorem Linked.head_cell {h : Array Cell} {j : Nat} {r : List Nat} (hl : Linked h (j :: r)) :
    ∃ nd, cellAt h j = .alt nd r.head? := by
  cases r with
  | nil => exact hl
  | cons j' r' => exact hl.1

theorem pruneToMinimal_spec (wf : WfHeap h0 rk hd) :
    ∀ fuel, RecSpec h0 rk hd one free (pruneToMinimal one free fuel) fuel := by
  intro fuel
  induction fuel with
  | zero => intro X s k hk; omega
  | succ fuel ih =>
    intro X s k hk hks hdk hX hinv
    have hnX : ¬ X k := fun h => by have := hX k h; omega
    have hsz : k < s.heap.size := by rw [hinv.size]; exact hks
    cases hcell : cellAt h0 k with
    | anode nm c ks =>
      obtain ⟨hc0, hkids⟩ := wf.anode k nm c ks hks hcell
      have hnode := hinv.node k hks hnX
      unfold NodeOK at hnode
      rw [hcell] at hnode
      simp only at hnode
      have hnalt : isAlt h0 k = false := by simp [isAlt, hcell]
      rcases hnode with e | ⟨ks', e1, e2, e3, e4⟩
      · -- first visit
        unfold pruneToMinimal
        simp only [e, ge_iff_le, hc0, if_true]
        obtain ⟨rest, hsplit, hrest⟩ := somePrefix_split ks.toList
        have hK : kidsOf ks = somePrefix ks.toList := kidsOf_somePrefix ks
        have hinv0 : Inv h0 rk hd one free (fun x => X x ∨ x = k) (collect free s k) :=
          (hinv.weaken (fun x h => Or.inl h)).collect wf k
        have hloop := kidsLoop_spec wf ih hks hdk hc0 (by omega) hX rest hrest
          (somePrefix ks.toList) [] ks.size (collect free s k)
          (by simpa [← hK] using hkids)
          (by have := somePrefix_length_le ks.toList; simpa using this)
          hinv0
          ⟨ks, by simpa [sumCost] using e, by simpa using hsplit⟩
          (by simp)
        simp only [List.length_nil, List.nil_append] at hloop
        generalize kidsLoop (pruneToMinimal one free fuel) k ks.size 0 (collect free s k) = s' at hloop ⊢
        obtain ⟨l1, ⟨ksF, l2a, l2b⟩, l3, l4, l5⟩ := hloop
        have hcost : costAt s'.heap k = c + (sumCost h0 rk one (somePrefix ks.toList) : Int) := by
          simp [costAt, l2a]
        rw [hcost]
        have hc0eq : (cost0 h0 rk one k : Int) = c + (sumCost h0 rk one (somePrefix ks.toList) : Int) := by
          rw [cost0_anode wf one hks hcell, hK]
          simp only [sumCost]
          omega
        rw [← hc0eq]
        have hks' : k < s'.heap.size := by rw [l1.size]; exact hks
        generalize hs2 : ({ s' with heap := setCost s'.heap k (-(cost0 h0 rk one k : Int) - 1) } : PSt) = s2
        have hheap2 : s2.heap = setCost s'.heap k (-(cost0 h0 rk one k : Int) - 1) := by rw [← hs2]
        have hmemo2 : s2.memo = s'.memo := by rw [← hs2]
        have hcoll2 : s2.coll = s'.coll := by rw [← hs2]
        have hoof2 : s2.oof = s'.oof := by rw [← hs2]
        have hsize2 : s2.heap.size = s'.heap.size := by rw [hheap2]; simp
        have hother : ∀ j, j ≠ k → cellAt s2.heap j = cellAt s'.heap j := by
          intro j hj; rw [hheap2, cellAt_setCost_ne _ _ (Ne.symm hj)]
        have ecell2 : cellAt s2.heap k = .anode nm (-(cost0 h0 rk one k : Int) - 1) ksF := by
          rw [hheap2]; exact cellAt_setCost_eq _ hks' l2a
        have hneg2 : ∀ j, costAt s'.heap j < 0 → costAt s2.heap j < 0 := by
          intro j hj
          by_cases e : j = k
          · subst e; simp only [costAt, ecell2]; omega
          · simpa only [costAt, hother j e] using hj
        have hframe2 : Frame rk hd s' s2 (rk k) := by
          refine ⟨hsize2, ?_, by rw [hmemo2]; exact fun _ _ => rfl,
            by rw [hmemo2]; exact fun _ _ h => h, by rw [hcoll2]; exact fun _ h => h, hneg2, hoof2⟩
          intro j hj
          by_cases e : j = k
          · subst e; rw [hdk] at hj; omega
          · exact hother j e
        have hinv2' : Inv h0 rk hd one free (fun x => X x ∨ x = k) s2 := by
          refine Inv.pres wf hsize2 ?_ hmemo2 (by rw [hcoll2]; exact fun _ h => h) hneg2 l1
          intro j hj hx
          by_cases e : j = k
          · subst e; exact absurd (Or.inr hdk) hx
          · exact hother j e
        have hkcoll : free = true → k ∈ s2.coll := by
          intro hf; subst hf
          rw [hcoll2]
          exact l4.coll _ (collect_coll_mem s k)
        have hfr : Frame rk hd s s2 (rk k) :=
          ((Frame.collect s k (rk k)).trans l4 (Nat.le_refl _)).trans hframe2 (Nat.le_refl _)
        refine ⟨?_, (res0_nonalt hnalt).symm, rfl, ?_, hfr, ?_⟩
        · refine ⟨hinv2'.size, ?_, ?_, hinv2'.memo⟩
          · intro i hi hxi
            by_cases e : i = k
            · subst e
              unfold NodeOK
              rw [hcell]
              simp only
              right
              refine ⟨ksF, ecell2, ?_, ?_, hkcoll⟩
              · rw [l2b]
                conv => rhs; rw [hsplit]
                rw [mapPre_split _ _ _ hrest]
              · intro x hx
                rw [hK] at hx
                exact (l3 x hx).frame hframe2
            · exact hinv2'.node i hi (fun h => h.elim hxi e)
          · intro a ha hal hda hxa
            refine hinv2'.chain a ha hal hda (fun h => h.elim hxa ?_)
            intro e; subst e; rw [hnalt] at hal; cases hal
        · unfold Visited
          rw [hcell]
          simp only
          refine ⟨?_, hkcoll⟩
          simp only [costAt, ecell2]; omega
        · intro i hi
          replace hi : i ∈ s'.coll := hi
          rcases l5 i hi with h | ⟨x, hx, hr⟩
          · rcases collect_coll_cases free s k i h with h | h
            · exact Or.inl h
            · subst h; exact Or.inr (.refl _)
          · refine Or.inr (.step (b := x) ?_ hr)
            simp only [succs, hcell, hK]; exact hx
      · -- already processed
        unfold pruneToMinimal
        have hlt : ¬ (-(cost0 h0 rk one k : Int) - 1 ≥ 0) := by omega
        simp only [e1, hlt, if_false]
        refine ⟨hinv, (res0_nonalt hnalt).symm, by omega, ?_, Frame.refl s _, fun i hi => Or.inl hi⟩
        unfold Visited
        rw [hcell]
        simp only
        refine ⟨?_, e4⟩
        simp only [costAt, e1]; omega
    | alt nd0 nx0 =>
      have hal : isAlt h0 k = true := by simp [isAlt, hcell]
      have hchainOK := hinv.chain k hks hal hdk hnX
      have hchain := chain0_isChain wf hks hal
      obtain ⟨tl, htl⟩ := hchain.head_eq
      have hkmem : k ∈ chain0 h0 k := by rw [htl]; simp
      unfold ChainOK at hchainOK
      cases hmf : memoFind s.memo k with
      | some e =>
        rw [hmf] at hchainOK
        simp only [Option.isSome_some, if_true] at hchainOK
        obtain ⟨⟨nx, ecell⟩, hv, hcl⟩ := hchainOK.1 k hkmem
        unfold pruneToMinimal
        simp only [ecell, hmf]
        obtain ⟨m1, m2, m3, m4, m5⟩ := hinv.memo k e hmf
        refine ⟨hinv, m4, m5, ?_, Frame.refl s _, fun i hi => Or.inl hi⟩
        unfold Visited
        rw [hcell]
        simp only
        refine ⟨by rw [hmf]; rfl, fun hf j hj => (hchainOK.1 j hj).2.2 hf⟩
      | none =>
        rw [hmf] at hchainOK
        simp only [Option.isSome_none, Bool.false_eq_true, if_false] at hchainOK
        have ecell : cellAt s.heap k = .alt nd0 nx0 := by rw [hchainOK k hkmem, hcell]
        unfold pruneToMinimal
        simp only [ecell, hmf]
        have hlen : (chain0 h0 k).length ≤ s.heap.size := by
          have := hchain.length_le wf hks
          have := wf.rk_lt k hks
          rw [hinv.size]; omega
        have hloop := altLoop_spec wf ih hks hal hdk (by omega) hX (chain0 h0 k) [] s.heap.size (0, []) k s
          (by simp) hlen (by simp) (by simp) (by simp) (hinv.weaken (fun x h => Or.inl h))
          hchainOK (by simp) trivial hmf
        obtain ⟨s', res', z1, z2, z3, z4, z5, z6, z7, z8⟩ := hloop
        have hhead : (chain0 h0 k).head? = some k := by rw [htl]; rfl
        rw [hhead] at z1
        simp only [Int.cast_ofNat_Int, Int.natCast_zero] at z1
        have z1' : altLoop (pruneToMinimal one free fuel) one free k s.heap.size (some k) 0 k s =
            (s', ((keepFold one (altCost h0 rk one) (chain0 h0 k) (0, [])).1 : Int), res') := by
          simpa using z1
        rw [z1']
        simp only [List.nil_append] at z2 z4
        have hkept : kept h0 rk one k = (keepFold one (altCost h0 rk one) (chain0 h0 k) (0, [])).2 := rfl
        rw [← hkept] at z2 z5
        have z2 := z2 (by rw [htl]; simp)
        have hcosteq : (keepFold one (altCost h0 rk one) (chain0 h0 k) (0, [])).1 = cost0 h0 rk one k := by
          rw [cost0_alt wf one hks hal, htl, keepFold_first]
        rw [hcosteq]
        -- the returned cell
        have hres : altResult s'.heap res' = res0 h0 rk one k := by
          obtain ⟨r', hr'⟩ : ∃ r', kept h0 rk one k = res' :: r' := by
            cases hx : kept h0 rk one k with
            | nil => rw [hx] at z2; cases z2
            | cons y ys => rw [hx] at z2; simp at z2; exact ⟨ys, by rw [z2]⟩
          have hmem : res' ∈ chain0 h0 k := kept_subset k res' (by rw [hr']; simp)
          obtain ⟨⟨nx, ec⟩, -, -⟩ := z4 res' hmem
          rw [hr'] at z5
          obtain ⟨nd', ec'⟩ := z5.head_cell
          rw [ec] at ec'
          injection ec' with e1 e2
          unfold res0 altResult
          rw [hcell, hr', ec]
          cases r' with
          | nil => simp at e2; simp [e2]
          | cons y ys => simp at e2; simp [e2]
        rw [hres]
        generalize hs2 : ({ s' with memo := ⟨k, res0 h0 rk one k, (cost0 h0 rk one k : Int)⟩ :: s'.memo } : PSt) = s2
        have hheap2 : s2.heap = s'.heap := by rw [← hs2]
        have hmemo2 : s2.memo = ⟨k, res0 h0 rk one k, (cost0 h0 rk one k : Int)⟩ :: s'.memo := by rw [← hs2]
        have hcoll2 : s2.coll = s'.coll := by rw [← hs2]
        have hoof2 : s2.oof = s'.oof := by rw [← hs2]
        have hmf2 : ∀ a, memoFind s2.memo a =
            if k = a then some ⟨k, res0 h0 rk one k, (cost0 h0 rk one k : Int)⟩ else memoFind s'.memo a := by
          intro a; rw [hmemo2, memoFind_cons]
        have hmono2 : ∀ a e, memoFind s'.memo a = some e → memoFind s2.memo a = some e := by
          intro a e he
          rw [hmf2]
          split
          · rename_i h; subst h; rw [z6] at he; cases he
          · exact he
        have hframe2 : Frame rk hd s' s2 (rk k) := by
          refine ⟨by rw [hheap2], fun _ _ => by rw [hheap2], ?_, hmono2,
            by rw [hcoll2]; exact fun _ h => h, by rw [hheap2]; exact fun _ h => h, hoof2⟩
          intro a ha
          rw [hmf2]
          split
          · rename_i h; subst h; omega
          · rfl
        have hvis : Visited h0 free s2 k := by
          unfold Visited
          rw [hcell]
          simp only
          refine ⟨by rw [hmf2]; simp, ?_⟩
          intro hf j hj
          rw [hcoll2]
          exact (z4 j hj).2.2 hf
        refine ⟨?_, rfl, rfl, hvis, z7.trans hframe2 (Nat.le_refl _), ?_⟩
        · refine ⟨by rw [hheap2]; exact z3.size, ?_, ?_, ?_⟩
          · intro i hi hxi
            by_cases e : i = k
            · subst e; unfold NodeOK; rw [hcell]; trivial
            · exact (z3.node i hi (fun h => h.elim hxi e)).pres (by rw [hheap2]) hmono2
                (by rw [hcoll2]; exact fun _ h => h) (by rw [hheap2]; exact fun _ h => h)
          · intro a ha hala hda hxa
            by_cases e : a = k
            · subst e
              unfold ChainOK
              rw [hmf2]
              simp only [if_true, Option.isSome_some]
              refine ⟨fun j hj => ?_, by rw [hheap2]; exact z5⟩
              obtain ⟨⟨nx, ec⟩, v, cl⟩ := z4 j hj
              exact ⟨⟨nx, by rw [hheap2]; exact ec⟩, v.frame hframe2,
                fun hf => by rw [hcoll2]; exact cl hf⟩
            · refine (z3.chain a ha hala hda (fun h => h.elim hxa e)).pres (fun _ _ => by rw [hheap2])
                ?_ hmono2 (by rw [hcoll2]; exact fun _ h => h) (by rw [hheap2]; exact fun _ h => h)
              rw [hmf2, if_neg (Ne.symm e)]
          · intro a e he
            rw [hmf2] at he
            split at he
            · rename_i h; subst h
              injection he with he; subst he
              exact ⟨hks, hal, hdk, rfl, rfl⟩
            · exact z3.memo a e he
        · intro i hi
          replace hi : i ∈ s'.coll := hi
          rcases z8 i hi with h | ⟨j, hj, h⟩
          · exact Or.inl h
          · have hrj := hchain.reach j hj
            rcases h with rfl | h
            · exact Or.inr hrj
            · have := (hchain.props wf hks j hj).2.1
              exact Or.inr (hrj.trans (.step (altNode_succ this) h))
    | nil =>
      have hnode := hinv.node k hks hnX
      unfold NodeOK at hnode
      rw [hcell] at hnode
      simp only at hnode
      have hnalt : isAlt h0 k = false := by simp [isAlt, hcell]
      unfold pruneToMinimal
      simp only [hnode]
      refine ⟨hinv.collect wf k, (res0_nonalt hnalt).symm, ?_, ?_, Frame.collect s k _, ?_⟩
      · rw [cost0_leaf one hnalt (by simp [isAnode, hcell])]; rfl
      · unfold Visited; rw [hcell]; simp only; intro hf; subst hf; exact collect_coll_mem s k
      · intro i hi
        rcases collect_coll_cases free s k i hi with h | h
        · exact Or.inl h
        · subst h; exact Or.inr (.refl _)
    | err =>
      have hnode := hinv.node k hks hnX
      unfold NodeOK at hnode
      rw [hcell] at hnode
      simp only at hnode
      have hnalt : isAlt h0 k = false := by simp [isAlt, hcell]
      unfold pruneToMinimal
      simp only [hnode]
      refine ⟨hinv.collect wf k, (res0_nonalt hnalt).symm, ?_, ?_, Frame.collect s k _, ?_⟩
      · rw [cost0_leaf one hnalt (by simp [isAnode, hcell])]; rfl
      · unfold Visited; rw [hcell]; simp only; intro hf; subst hf; exact collect_coll_mem s k
      · intro i hi
        rcases collect_coll_cases free s k i hi with h | h
        · exact Or.inl h
        · subst h; exact Or.inr (.refl _)
    | term cd att =>
      have hnode := hinv.node k hks hnX
      unfold NodeOK at hnode
      rw [hcell] at hnode
      simp only at hnode
      have hnalt : isAlt h0 k = false := by simp [isAlt, hcell]
      unfold pruneToMinimal
      simp only [hnode]
      refine ⟨hinv.collect wf k, (res0_nonalt hnalt).symm, ?_, ?_, Frame.collect s k _, ?_⟩
      · rw [cost0_leaf one hnalt (by simp [isAnode, hcell])]; rfl
      · unfold Visited; rw [hcell]; simp only; intro hf; subst hf; exact collect_coll_mem s k
      · intro i hi
        rcases collect_coll_cases free s k i hi with h | h
        · exact Or.inl h
        · subst h; exact Or.inr (.refl _)

end

end Yaep.PC
