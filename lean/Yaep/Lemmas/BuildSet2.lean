import Yaep.Lemmas.BuildSet2Items
/-!
# Helper lemmas for `Yaep/Model/BuildSet2.lean`, part 5: the parse list

`build_start_set`, `build_new_set` and the main loop of `build_pl` at level 2 compute, set by
set, the items of `buildPL2` (`Yaep/Model/Earley2.lean`).  The abstract parse list is kept with
its invariant `Yaep.Inv2` (`Yaep/Lemmas/Earley2C.lean`), which is what makes the fuels of the
abstract model sufficient.
-/
namespace Yaep.BS2
open Yaep

/-! ## the invariant of the C parse list -/

/-- the set is `expand_new_start_set` of some start situations (one distance each) -/
def Expanded2 (g : Grammar) (cs : CSet2) : Prop :=
  ∃ (num : Nat) (ns : NewStart2), ExpandSpec2 g num (ns.map (·.1)) cs.core ∧ cs.dists = ns.map (·.2)

structure SetOK2 (g : Grammar) (k : Nat) (s : CSet2) : Prop where
  exp : Expanded2 g s
  dle : ∀ d ∈ s.dists, d ≤ k

theorem SetOK2.shape {g : Grammar} {k : Nat} {s : CSet2} (h : SetOK2 g k s) : BS.Shape s.core.proj := by
  obtain ⟨num, ns, hc, _⟩ := h.exp
  exact hc.spec.shape

theorem SetOK2.transExact {g : Grammar} {k : Nat} {s : CSet2} (h : SetOK2 g k s) :
    TransExact g s.core := by
  obtain ⟨num, ns, hc, _⟩ := h.exp
  exact hc.transExact

theorem SetOK2.dtag_le {g : Grammar} {k : Nat} {s : CSet2} (h : SetOK2 g k s) (t : Option Nat) :
    BS.dtag s.dists t ≤ k := by
  cases t with
  | none => exact Nat.zero_le _
  | some p =>
    show s.dists.getD p 0 ≤ k
    rw [List.getD_eq_getElem?_getD]
    cases hp : s.dists[p]? with
    | none => exact Nat.zero_le _
    | some d => exact h.dle d (List.mem_of_getElem? hp)

structure PLOK2 (g : Grammar) (plA : List (List Item2)) (pl : List CSet2) : Prop where
  len : plA.length = pl.length
  ok : ∀ k, k < pl.length → SetOK2 g k (pl.getD k default)
  items : ∀ k, k < pl.length → ∀ it, it ∈ (pl.getD k default).items k ↔ it ∈ plA.getD k []

/-! ## shifting a situation of a stored set -/

/-- the pair `build_new_set` makes of situation `ind` of the stored set `s` -/
def shiftPair (s : CSet2) (base ind : Nat) : Sit2 × Nat :=
  (⟨(s.core.sitAt ind).rule, (s.core.sitAt ind).dot + 1, (s.core.sitAt ind).ctx⟩,
    s.distOf ind + base)

theorem shiftSit_eq (ok : Nat → Nat → List Nat → Bool) (s : CSet2) (base ind : Nat) :
    shiftSit ok s base ind =
      if ok (s.core.sitAt ind).rule ((s.core.sitAt ind).dot + 1) (s.core.sitAt ind).ctx = true then
        some (shiftPair s base ind) else none := rfl

/-- all the pairs `build_new_set` can make: situation `ind` of the set at `place`, the distance
being counted from the new set -/
def shiftUniv (pl : List CSet2) : List (Sit2 × Nat) :=
  (List.range pl.length).flatMap fun place =>
    (List.range (pl.getD place default).core.sits.length).map fun ind =>
      shiftPair (pl.getD place default) (pl.length - place) ind

theorem map_range_getD {α β : Type} (l : List α) (d : α) (f : α → β) :
    (List.range l.length).map (fun k => f (l.getD k d)) = l.map f := by
  apply List.ext_getElem
  · simp
  · intro k h1 h2
    simp only [List.length_map, List.length_range] at h1
    simp [List.getD_eq_getElem?_getD, List.getElem?_eq_getElem h1]

theorem length_shiftUniv (pl : List CSet2) : (shiftUniv pl).length + 1 = newSetFuel pl := by
  unfold shiftUniv newSetFuel
  rw [List.length_flatMap]
  congr 1
  have : (List.range pl.length).map (fun place =>
      ((List.range (pl.getD place default).core.sits.length).map fun ind =>
        shiftPair (pl.getD place default) (pl.length - place) ind).length) =
      (List.range pl.length).map fun place => (pl.getD place default).core.sits.length := by
    apply List.map_congr_left
    intro a _
    simp
  rw [this, map_range_getD pl default (fun s => s.core.sits.length)]

theorem mem_shiftUniv {pl : List CSet2} {place ind : Nat} (h1 : place < pl.length)
    (h2 : ind < (pl.getD place default).core.sits.length) :
    shiftPair (pl.getD place default) (pl.length - place) ind ∈ shiftUniv pl := by
  unfold shiftUniv
  rw [List.mem_flatMap]
  exact ⟨place, List.mem_range.mpr h1, List.mem_map.mpr ⟨ind, List.mem_range.mpr h2, rfl⟩⟩

theorem find_of_mem_trans {c : Core2} {X : Sym} {ind : Nat}
    (hm : ind ∈ (c.transOf X).getD []) : c.find X = true := by
  unfold Core2.find
  cases ht : c.transOf X with
  | none => rw [ht] at hm; cases hm
  | some l => rfl

section Shift
variable {g : Grammar} {plA : List (List Item2)} {pl : List CSet2}

theorem shift_sound (h : PLOK2 g plA pl) {k : Nat} (hk : k < pl.length)
    {ok : Nat → Nat → List Nat → Bool} {X : Sym} {base ind : Nat} {p : Sit2 × Nat}
    (hind : ind ∈ (((pl.getD k default).core.transOf X).getD []))
    (hp : shiftSit ok (pl.getD k default) base ind = some p) :
    ∃ r d c dist, p = (⟨r, d + 1, c⟩, dist + base) ∧ ok r (d + 1) c = true ∧
      g.nextSym r d = some X ∧ (⟨r, d, k - dist, c⟩ : Item2) ∈ plA.getD k [] ∧ dist ≤ k ∧
      ind < (pl.getD k default).core.sits.length ∧ p = shiftPair (pl.getD k default) base ind := by
  have hok := h.ok k hk
  have hitems := h.items k hk
  generalize pl.getD k default = prev at hok hitems hind hp
  obtain ⟨hlt, hnx⟩ := (hok.transExact _ ind).mp hind
  rw [shiftSit_eq] at hp
  split at hp
  · rename_i hokk
    cases hp
    refine ⟨_, _, _, prev.distOf ind, rfl, hokk, hnx, ?_, ?_, hlt, rfl⟩
    · rw [← hitems, distOf_eq hok.shape]
      exact mem_items.mpr ⟨ind, _, sitAt_get hlt, rfl⟩
    · rw [distOf_eq hok.shape]; exact hok.dtag_le _
  · cases hp

theorem shift_complete (h : PLOK2 g plA pl) {k : Nat} (hk : k < pl.length)
    {ok : Nat → Nat → List Nat → Bool} {X : Sym} (base : Nat) {r d o : Nat} {c : List Nat}
    (hit : (⟨r, d, o, c⟩ : Item2) ∈ plA.getD k [])
    (hnx : g.nextSym r d = some X) (hokk : ok r (d + 1) c = true) :
    o ≤ k ∧ ∃ ind, ind ∈ (((pl.getD k default).core.transOf X).getD []) ∧
      shiftSit ok (pl.getD k default) base ind = some (⟨r, d + 1, c⟩, (k - o) + base) := by
  have hok := h.ok k hk
  have hitems := h.items k hk
  generalize pl.getD k default = prev at hok hitems ⊢
  obtain ⟨i, sit, hs, hit'⟩ := mem_items.mp ((hitems _).mpr hit)
  simp only [Item2.mk.injEq] at hit'
  obtain ⟨h1, h2, h3, h4⟩ := hit'
  have hle := hok.dtag_le (prev.core.proj.tagOf i)
  have hsat := sitAt_of_get hs
  refine ⟨by omega, i, ?_, ?_⟩
  · apply (hok.transExact _ i).mpr
    refine ⟨(List.getElem?_eq_some_iff.mp hs).1, ?_⟩
    rw [hsat, ← h1, ← h2]; exact hnx
  · rw [shiftSit_eq, hsat, ← h1, ← h2, ← h4, if_pos hokk]
    unfold shiftPair
    rw [hsat, ← h1, ← h2, ← h4, distOf_eq hok.shape]
    congr 2
    omega

end Shift

/-! ## the start situations of the new set -/

section NewSet
variable {g : Grammar} {w : List Nat} {plA : List (List Item2)} {pl : List CSet2} {k a : Nat}
  {nxt : Option Nat}

/-- the property of the pairs `(start situation, distance)` of the new set -/
def PairOK2 (g : Grammar) (nxt : Option Nat) (plA : List (List Item2)) (pl : List CSet2) (a : Nat)
    (p : Sit2 × Nat) : Prop :=
  1 ≤ p.2 ∧ p.2 ≤ plA.length ∧ itemOf plA.length p ∈ startOf g nxt plA a ∧ p ∈ shiftUniv pl

/-- the scanned items are in the start list -/
theorem scanned_subset_startOf {x : Item2}
    (hx : x ∈ (plA.getLastD []).filterMap fun p =>
      if g.nextSym p.rule p.dot = some (.t a) ∧
        ok2 g g.analysis nxt p.rule (p.dot + 1) p.ctx = true
      then some ({ p with dot := p.dot + 1 } : Item2) else none) :
    x ∈ startOf g nxt plA a := by
  unfold startOf
  apply (startLoop_spec g g.analysis nxt plA _ _ 0).1.subset
  exact addNew_subset_right _ _ hx

theorem pairOK_loop1 (h : PLOK2 g plA pl) (hlen : plA.length = k + 1) :
    ∀ p ∈ newSetLoop1 (ok2 g g.analysis nxt) (pl.getLastD default)
        (((pl.getLastD default).core.transOf (Sym.t a)).getD []),
      PairOK2 g nxt plA pl a p := by
  intro p hp
  have hpl : pl.length = k + 1 := by rw [← h.len]; exact hlen
  have hk : k < pl.length := by omega
  have hlast : pl.getLastD default = pl.getD k default := getLastD_eq_getD pl _ _ hpl
  have hlastA : plA.getLastD [] = plA.getD k [] := getLastD_eq_getD plA _ _ hlen
  rw [newSetLoop1_eq, hlast] at hp
  rcases mem_addNew hp with hp | hp
  · cases hp
  · obtain ⟨ind, hind, hsh⟩ := List.mem_filterMap.mp hp
    obtain ⟨r, d, c, dist, rfl, hokk, hnx, hmem, hle, hilt, hpair⟩ := shift_sound h hk hind hsh
    refine ⟨by simp only; omega, by simp only; omega, ?_, ?_⟩
    · apply scanned_subset_startOf
      rw [hlastA]
      refine List.mem_filterMap.mpr ⟨_, hmem, ?_⟩
      simp only
      rw [if_pos ⟨hnx, hokk⟩]
      unfold itemOf
      simp only [Option.some.injEq, Item2.mk.injEq, true_and, and_true]
      omega
    · rw [hpair]
      have : (1 : Nat) = pl.length - k := by omega
      rw [this]
      exact mem_shiftUniv hk hilt

theorem pairOK_step (h : PLOK2 g plA pl) (hinv : Yaep.Inv2 g w plA) (hlen : plA.length = k + 1)
    (hw : w[k]? = some a) :
    ∀ ns i, (∀ p ∈ ns, PairOK2 g nxt plA pl a p) → i < ns.length →
      ∀ p ∈ step2Pairs g g.analysis (ok2 g g.analysis nxt) pl (pl.length - 1) ns i,
        PairOK2 g nxt plA pl a p := by
  intro ns i hall hi p hp
  have hpl : pl.length = k + 1 := by rw [← h.len]; exact hlen
  have hmemi : ns.getD i default ∈ ns := by
    rw [List.getD_eq_getElem?_getD, List.getElem?_eq_getElem hi]
    exact List.getElem_mem hi
  obtain ⟨h1, h2, hT, _⟩ := hall _ hmemi
  unfold step2Pairs at hp
  generalize ns.getD i default = p0 at hp h1 h2 hT
  obtain ⟨sit0, nd0⟩ := p0
  simp only at h1 h2 hT hp
  split at hp
  · rename_i het
    split at hp
    · have hplace : pl.length - 1 + 1 - nd0 = plA.length - nd0 := by omega
      rw [hplace] at hp
      have hk : plA.length - nd0 < pl.length := by omega
      obtain ⟨ind, hind, hsh⟩ := List.mem_filterMap.mp hp
      obtain ⟨r, d, c, dist, rfl, hokk, hnx, hmem, hle, hilt, hpair⟩ := shift_sound h hk hind hsh
      refine ⟨by simp only; omega, by simp only; omega, ?_, ?_⟩
      · -- the completion step of `startLoop`
        apply startOf_done hlen hinv.sound hinv.det hw hT
        -- the rule of the completed situation exists: it has an empty tail
        have hrl : ∃ rl, g.rules[sit0.rule]? = some rl := by
          cases hr : g.rules[sit0.rule]? with
          | none =>
            unfold BS.emptyTailP at het
            have : (sit0.proj).1 = sit0.rule := rfl
            rw [this, hr] at het
            cases het
          | some rl => exact ⟨rl, rfl⟩
        obtain ⟨rl, hrl⟩ := hrl
        apply mem_more2.mpr
        refine ⟨rl, hrl, (emptyTailP_iff hrl).mp het, by unfold itemOf; simp only; omega,
          ⟨r, d, plA.length - nd0 - dist, c⟩, ?_, ?_, hokk, ?_⟩
        · unfold itemOf; exact hmem
        · rw [lhsOf_eq, Yaep.lhsOf_eq hrl] at hnx; exact hnx
        · unfold itemOf
          simp only [Item2.mk.injEq, true_and, and_true]
          omega
      · rw [hpair]
        have : nd0 = pl.length - (plA.length - nd0) := by omega
        rw [this]
        have hk' : plA.length - (pl.length - (plA.length - nd0)) = plA.length - nd0 := by omega
        rw [hk'] at *
        exact mem_shiftUniv hk hilt
    · cases hp
  · cases hp

/-- the start situations of the new set, after both loops -/
def newStarts (g : Grammar) (nxt : Option Nat) (pl : List CSet2) (a : Nat) : NewStart2 × Bool :=
  newSetLoop2 g g.analysis (ok2 g g.analysis nxt) pl (pl.length - 1) (newSetFuel pl)
    (newSetLoop1 (ok2 g g.analysis nxt) (pl.getLastD default)
      (((pl.getLastD default).core.transOf (Sym.t a)).getD []), false)

theorem newStarts_inv (h : PLOK2 g plA pl) (hinv : Yaep.Inv2 g w plA) (hlen : plA.length = k + 1)
    (hw : w[k]? = some a) :
    NSInv g g.analysis (ok2 g g.analysis nxt) pl (pl.length - 1) (PairOK2 g nxt plA pl a)
      (newSetLoop1 (ok2 g g.analysis nxt) (pl.getLastD default)
        (((pl.getLastD default).core.transOf (Sym.t a)).getD []))
      (newStarts g nxt pl a).1.length (newStarts g nxt pl a).1 ∧
    ∀ extra, newSetLoop2 g g.analysis (ok2 g g.analysis nxt) pl (pl.length - 1)
        (newSetFuel pl + extra)
        (newSetLoop1 (ok2 g g.analysis nxt) (pl.getLastD default)
          (((pl.getLastD default).core.transOf (Sym.t a)).getD []), false) =
      newStarts g nxt pl a := by
  unfold newStarts
  refine newSetLoop2_spec (pairOK_step h hinv hlen hw) (shiftUniv pl) (fun p hp => hp.2.2.2)
    (newSetFuel pl) (by have := length_shiftUniv pl; omega) ?_ (pairOK_loop1 h hlen) false
  rw [newSetLoop1_eq]
  exact addNew_nodup _ List.nodup_nil

/-- the start situations with their distances are exactly the items of the abstract start
list -/
theorem newStarts_items (h : PLOK2 g plA pl) (hinv : Yaep.Inv2 g w plA) (hlen : plA.length = k + 1)
    (hw : w[k]? = some a) :
    ∀ x, x ∈ startOf g nxt plA a ↔ ∃ p ∈ (newStarts g nxt pl a).1, x = itemOf plA.length p := by
  have hns := (newStarts_inv (nxt := nxt) h hinv hlen hw).1
  have hpl : pl.length = k + 1 := by rw [← h.len]; exact hlen
  have hk : k < pl.length := by omega
  have hlast : pl.getLastD default = pl.getD k default := getLastD_eq_getD pl _ _ hpl
  have hlastA : plA.getLastD [] = plA.getD k [] := getLastD_eq_getD plA _ _ hlen
  generalize (newStarts g nxt pl a).1 = ns at hns
  intro x
  constructor
  · intro hx
    unfold startOf at hx
    refine startLoop_ind (fun s => ∃ p ∈ ns, s = itemOf plA.length p) ?_ _ _ 0 ?_ x hx
    · -- completion of a start item
      rintro s ⟨p0, hp0, rfl⟩ y hy
      obtain ⟨rl, hrl, htail, horig, p', hp', hnx, hokk, rfl⟩ := mem_more2.mp hy
      obtain ⟨i, hi⟩ := List.mem_iff_getElem?.mp hp0
      have hilt := (List.getElem?_eq_some_iff.mp hi).1
      obtain ⟨h1, h2, _, _⟩ := hns.all p0 hp0
      obtain ⟨sit0, nd0⟩ := p0
      unfold itemOf at hrl htail horig hp'
      simp only at hrl htail horig hp' h1 h2
      obtain ⟨r, d, o, c⟩ := p'
      simp only at hnx hokk
      have hkk : plA.length - nd0 < pl.length := by omega
      obtain ⟨hle, ind, hind, hsh⟩ := shift_complete h hkk nd0 hp' hnx hokk
      have hgetD : ns.getD i default = (sit0, nd0) := by
        rw [List.getD_eq_getElem?_getD, hi]; rfl
      have hlhs : lhsOf g sit0 = rl.lhs := by rw [lhsOf_eq, Yaep.lhsOf_eq hrl]
      have hm : ((⟨r, d + 1, c⟩, plA.length - nd0 - o + nd0) : Sit2 × Nat) ∈ ns := by
        apply hns.closed i hilt
        unfold step2Pairs
        rw [hgetD]
        simp only
        have het : BS.emptyTailP g g.analysis sit0.proj = true := (emptyTailP_iff hrl).mpr htail
        rw [if_pos het, show pl.length - 1 + 1 - nd0 = plA.length - nd0 by omega, hlhs,
          if_pos (find_of_mem_trans hind)]
        exact List.mem_filterMap.mpr ⟨ind, hind, hsh⟩
      refine ⟨_, hm, ?_⟩
      unfold itemOf
      simp only [Item2.mk.injEq, true_and, and_true]
      omega
    · -- the scanned items
      intro s hs
      rcases mem_addNew hs with hs | hs
      · cases hs
      · obtain ⟨p', hp', hsome⟩ := List.mem_filterMap.mp hs
        split at hsome
        · rename_i hc
          cases hsome
          obtain ⟨r, d, o, c⟩ := p'
          simp only at hc
          rw [hlastA] at hp'
          obtain ⟨hle, ind, hind, hsh⟩ := shift_complete h hk 1 hp' hc.1 hc.2
          have hm : ((⟨r, d + 1, c⟩, k - o + 1) : Sit2 × Nat) ∈ ns := by
            apply hns.first
            rw [newSetLoop1_eq, hlast]
            exact addNew_subset_right _ _ (List.mem_filterMap.mpr ⟨ind, hind, hsh⟩)
          refine ⟨_, hm, ?_⟩
          unfold itemOf
          simp only [Item2.mk.injEq, true_and, and_true]
          omega
        · cases hsome
  · rintro ⟨p, hp, rfl⟩
    exact (hns.all p hp).2.2.1

end NewSet

end Yaep.BS2
