import Yaep.Lemmas.MakeParseAllSlot
/-!
# All-parses mode: what the body of the candidate loop never undoes
-/
namespace Yaep.MP
open Yaep

/-- from `(s, G)` to `(s', G')` the heap only grows (slots are only filled), the existing parse
states and their ghost data are untouched, the stack only grows -/
structure Grow (s : St) (G : Ghost) (s' : St) (G' : Ghost) : Prop where
  ext : HeapExt s.heap s'.heap
  ty : ∀ m, m < s.heap.size → G'.ty m = G.ty m
  sts : ∀ x, x < s.states.size → s'.states.getD x default = s.states.getD x default
  gh : ∀ x, x < s.states.size → G'.ssp x = G.ssp x ∧ G'.sfin x = G.sfin x
  size : s.states.size ≤ s'.states.size
  stack : ∀ x ∈ s.stack, x ∈ s'.stack
  kid : ∀ pl : Nat × Nat, getKid s.heap pl.1 pl.2 ≠ none → getKid s'.heap pl.1 pl.2 ≠ none

theorem Grow.refl (s : St) (G : Ghost) : Grow s G s G :=
  ⟨HeapExt.refl _, fun _ _ => rfl, fun _ _ => rfl, fun _ _ => ⟨rfl, rfl⟩, Nat.le_refl _,
   fun _ h => h, fun _ h => h⟩

theorem Grow.trans {s1 s2 s3 : St} {G1 G2 G3 : Ghost} (h1 : Grow s1 G1 s2 G2) (h2 : Grow s2 G2 s3 G3) :
    Grow s1 G1 s3 G3 := by
  refine ⟨h1.ext.trans h2.ext, fun m hm => ?_, fun x hx => ?_, fun x hx => ?_,
    Nat.le_trans h1.size h2.size, fun x hx => h2.stack x (h1.stack x hx),
    fun pl hp => h2.kid pl (h1.kid pl hp)⟩
  · rw [h2.ty m (by have := h1.ext.1; omega), h1.ty m hm]
  · rw [h2.sts x (by have := h1.size; omega), h1.sts x hx]
  · have a := h1.gh x hx
    have b := h2.gh x (by have := h1.size; omega)
    exact ⟨by rw [b.1, a.1], by rw [b.2, a.2]⟩

/-- the same machine state up to the fields the invariant does not look at -/
theorem Grow.of_eq {s s' : St} {G : Ghost} (hh : s'.heap = s.heap) (hs : s'.states = s.states)
    (hk : s'.stack = s.stack) : Grow s G s' G :=
  ⟨by rw [hh]; exact HeapExt.refl _, fun _ _ => rfl, fun _ _ => by rw [hs], fun _ _ => ⟨rfl, rfl⟩,
   by rw [hs]; exact Nat.le_refl _, fun _ h => by rw [hk]; exact h, fun _ h => by rw [hh]; exact h⟩

/-- `place_translation`, without types -/
theorem place_res {h : Array MNode} {n i node : Nat} {nm : String} {c : Nat} {ks : Array (Option Nat)}
    (hc : h.getD n .nil = .anode nm c ks) (hn : n < h.size) (hnode : node < h.size) :
    ∃ m', PlaceRes h (placeTranslation h (n, i) node) n i m' := by
  unfold placeTranslation
  rw [getKid_of_cell hc]
  have hset : ∀ (h1 : Array MNode) (v : Nat), h1.getD n .nil = .anode nm c ks → n < h1.size →
      HeapExt h1 (setKid h1 n i (some v)) := by
    intro h1 v hc1 hn1
    refine ⟨by rw [setKid_size]; exact Nat.le_refl _, fun m hm => ?_⟩
    by_cases hmn : m = n
    · subst hmn; right; exact ⟨nm, c, ks, _, hc1, setKid_getD_same hc1 hn1⟩
    · left; exact setKid_getD_ne hmn
  cases hk : ks.getD i none with
  | none =>
    simp only
    exact ⟨node, hset h node hc hn, fun k _ hk' => setKid_getD_ne hk', ⟨nm, c, ks, hc, setKid_getD_same hc hn⟩,
      fun k h1 h2 => by rw [setKid_size] at h2; omega, by rw [setKid_size]; exact hnode⟩
  | some old =>
    simp only
    split
    · have hcp : (h.push (.alt node (some old))).getD n .nil = .anode nm c ks := by
        rw [getD_push_lt _ _ _ _ hn]; exact hc
      have hnp : n < (h.push (MNode.alt node (some old))).size := by simp; omega
      have hext1 : HeapExt h (h.push (.alt node (some old))) :=
        ⟨by simp, fun m hm => Or.inl (getD_push_lt _ _ _ _ hm)⟩
      refine ⟨h.size, hext1.trans (hset _ _ hcp hnp), ?_, ⟨nm, c, ks, hc, setKid_getD_same hcp hnp⟩, ?_, ?_⟩
      · intro k hk1 hk2
        rw [setKid_getD_ne hk2, getD_push_lt _ _ _ _ hk1]
      · intro k hk1 hk2
        rw [setKid_size] at hk2
        simp only [Array.size_push] at hk2
        have : k = h.size := by omega
        subst this
        exact ⟨node, some old, by rw [setKid_getD_ne (by omega), getD_push_eq]⟩
      · rw [setKid_size]; simp
    · have hcp : ((h.push (.alt node (some (h.size + 1)))).push (.alt old none)).getD n .nil =
          .anode nm c ks := by
        rw [getD_push_lt _ _ _ _ (by simp; omega), getD_push_lt _ _ _ _ hn]; exact hc
      have hnp : n < ((h.push (MNode.alt node (some (h.size + 1)))).push (.alt old none)).size := by
        simp; omega
      have hext1 : HeapExt h ((h.push (.alt node (some (h.size + 1)))).push (.alt old none)) :=
        ⟨by simp; omega, fun m hm => Or.inl (by
          rw [getD_push_lt _ _ _ _ (by simp; omega), getD_push_lt _ _ _ _ hm])⟩
      refine ⟨h.size, hext1.trans (hset _ _ hcp hnp), ?_, ⟨nm, c, ks, hc, setKid_getD_same hcp hnp⟩, ?_, ?_⟩
      · intro k hk1 hk2
        rw [setKid_getD_ne hk2, getD_push_lt _ _ _ _ (by simp; omega), getD_push_lt _ _ _ _ hk1]
      · intro k hk1 hk2
        rw [setKid_size] at hk2
        simp only [Array.size_push] at hk2
        rcases Nat.eq_or_lt_of_le hk1 with e | hlt
        · subst e
          exact ⟨_, _, by rw [setKid_getD_ne (by omega), getD_push_lt _ _ _ _ (by simp), getD_push_eq]⟩
        · have : k = h.size + 1 := by omega
          subst this
          refine ⟨old, none, ?_⟩
          rw [setKid_getD_ne (by omega)]
          have := getD_push_eq (h.push (.alt node (some (h.size + 1)))) (.alt old none) MNode.nil
          simpa using this
      · rw [setKid_size]; simp; omega

/-- `place_translation` into a slot of an abstract-node cell -/
theorem Grow.place {s s' : St} {G : Ghost} {n i node : Nat} {nm : String} {c : Nat}
    {ks : Array (Option Nat)} (hc : s.heap.getD n .nil = .anode nm c ks) (hn : n < s.heap.size)
    (hnode : node < s.heap.size)
    (hh : s'.heap = placeTranslation s.heap (n, i) node) (hs : s'.states = s.states)
    (hk : s'.stack = s.stack) : Grow s G s' G := by
  obtain ⟨m', hpr⟩ := place_res (i := i) hc hn hnode
  rw [← hh] at hpr
  exact ⟨hpr.ext, fun _ _ => rfl, fun _ _ => by rw [hs], fun _ _ => ⟨rfl, rfl⟩,
    by rw [hs]; exact Nat.le_refl _, fun _ h => by rw [hk]; exact h,
    fun pl hp => getKid_mono_place hpr hp⟩

theorem Grow.push {s s' : St} {G G' : Ghost} {Y : PState} {y : Nat}
    (hheap : s'.heap = s.heap ∨ ∃ c, s'.heap = s.heap.push c)
    (hs : s'.states = s.states.push Y) (hk : s'.stack = y :: s.stack)
    (hty : ∀ m, m < s.heap.size → G'.ty m = G.ty m)
    (hsp : ∀ x, x < s.states.size → G'.ssp x = G.ssp x ∧ G'.sfin x = G.sfin x) :
    Grow s G s' G' := by
  refine ⟨?_, hty, fun x hx => by rw [hs]; exact getD_push_lt _ _ _ _ hx, hsp, by rw [hs]; simp,
    fun x hx => by rw [hk]; exact List.mem_cons_of_mem _ hx, ?_⟩
  · rcases hheap with e | ⟨c, e⟩
    · rw [e]; exact HeapExt.refl _
    · rw [e]; exact ⟨by simp, fun m hm => Or.inl (getD_push_lt _ _ _ _ hm)⟩
  · intro pl hp
    rcases hheap with e | ⟨c, e⟩
    · rw [e]; exact hp
    · rw [e]; exact getKid_push_ne_none hp

theorem SlotOf.grow {g : Grammar} {toks : List Nat} {s s' : St} {G G' : Ghost} {n i : Nat}
    {T : Tree → Prop} (hg : Grow s G s' G') (hlt : ∀ x ∈ s.stack, x < s.states.size)
    (h : SlotOf g toks G s.states s.stack n i T) : SlotOf g toks G' s'.states s'.stack n i T := by
  rcases h with h | ⟨P, hP, han, rlP, q, X, h1, h2, h3, h4, h5⟩
  · exact Or.inl h
  · have hPlt := hlt P hP
    refine Or.inr ⟨P, hg.stack P hP, by rw [hg.sts P hPlt]; exact han, rlP, q, X,
      by rw [hg.sts P hPlt]; exact h1, by rw [hg.sts P hPlt]; exact h2, h3, h4, ?_⟩
    rw [(hg.gh P hPlt).1]; exact h5

theorem tableFind_mem {t : Array (List (Nat × Nat × Nat))} {r o pl node : Nat}
    (h : tableFind t r o pl = some node) : (r, o, node) ∈ t.getD pl [] := by
  unfold tableFind at h
  cases hf : (t.getD pl []).find? (fun e => e.1 == r && e.2.1 == o) with
  | none => rw [hf] at h; cases h
  | some e =>
    rw [hf] at h
    simp only [Option.map_some, Option.some.injEq] at h
    have hm := List.mem_of_find?_eq_some hf
    have hp := List.find?_some hf
    simp only [Bool.and_eq_true, beq_iff_eq] at hp
    obtain ⟨e1, e2, e3⟩ := e
    simp only at hp h
    rw [← hp.1, ← hp.2, ← h]; exact hm

theorem mem_tableInsert {t : Array (List (Nat × Nat × Nat))} {r o pl node pl' : Nat}
    {x : Nat × Nat × Nat} (h : x ∈ (tableInsert t r o pl node).getD pl' []) :
    x ∈ t.getD pl' [] ∨ (x = (r, o, node) ∧ pl' = pl) := by
  unfold tableInsert at h
  split at h
  · rename_i hlt
    rw [getD_set!] at h
    split at h
    · rename_i hh
      rcases List.mem_cons.mp h with e | hm
      · exact Or.inr ⟨e, hh.1.symm⟩
      · left; rw [← hh.1]
        have e : t.getD pl [] = t[pl] := by simp [Array.getD_eq_getD_getElem?, hlt]
        rw [e]; exact hm
    · exact Or.inl h
  · exact Or.inl h

end Yaep.MP
