import Yaep.Lemmas.LaIndep2NewSet
import Yaep.Lemmas.LaIndepUnroll
/-!
# Lookahead independence at level 2, list part 4: every set of the level-2 parse list is `build_new_set` of its prefix

`expandNewStartSet_proj`: without the contexts, `expand_new_start_set` of level 2 is the one of levels 0/1
(for every list of start situations), hence `ExpandLists` for the projected set (`buildNewSet2_lists`).
`parseLoopC2_unroll`, `buildPLC2_unroll`, `buildPLC2_head`: as `LaIndepUnroll.lean`.
-/
namespace Yaep.LI2
open Yaep Yaep.BS Yaep.LI

theorem expandNewStartSet_proj (g : Grammar) (an : Analysis) (num : Nat) (ss : List BS2.Sit2) :
    (BS2.expandNewStartSet g an (BS2.Core2.fresh num ss)).proj =
      expandNewStartSet g an (Core.fresh num (ss.map BS2.Sit2.proj)) := by
  show (BS2.expandNewStartSetWith BS2.flagOr g an (BS2.Core2.fresh num ss)).proj = _
  rw [BS2.expandNewStartSetWith_eq]
  unfold BS2.ctxLoopWith
  rw [BS2.ctxLoopOn_proj]
  exact (BS2.expand3_sim g an num ss).1

theorem map_projP_fst (ns : BS2.NewStart2) :
    (ns.map projP).map (·.1) = (ns.map (·.1)).map BS2.Sit2.proj := by
  rw [List.map_map, List.map_map]; rfl

theorem map_projP_snd (ns : BS2.NewStart2) : (ns.map projP).map (·.2) = ns.map (·.2) := by
  rw [List.map_map]; rfl

/-- a level-2 set made by `set_insert` + `expand_new_start_set`, without its contexts, as lists -/
theorem lists_of_core {g : Grammar} {an : Analysis} {cs : BS2.CSet2} {num : Nat} {ns : BS2.NewStart2}
    (hc : cs.core = BS2.expandNewStartSet g an (BS2.Core2.fresh num (ns.map (·.1))))
    (hd : cs.dists = ns.map (·.2)) :
    ∃ I, ExpandLists g an ((ns.map projP).map (·.1)) (projSet cs).core I ∧
      (projSet cs).dists = (ns.map projP).map (·.2) := by
  obtain ⟨I, hI⟩ := expandNewStartSet_lists g an num ((ns.map (·.1)).map BS2.Sit2.proj)
  refine ⟨I, ?_, ?_⟩
  · show ExpandLists g an _ cs.core.proj I
    rw [hc, expandNewStartSet_proj, map_projP_fst]
    exact hI
  · show cs.dists = _
    rw [map_projP_snd]; exact hd

section
variable {g : Grammar}

theorem buildNewSet2_lists {tab : BS2.Tab2} {pl : List BS2.CSet2} {a : Nat} {nxt : Option Nat}
    (htab : BS2.TabInv2 g g.analysis tab) :
    ∃ I, ExpandLists g g.analysis (((BS2.newStarts g nxt pl a).1.map projP).map (·.1))
        (projSet (BS2.buildNewSet g g.analysis (ok2 g g.analysis nxt) tab pl (pl.getLastD default)
          (Sym.t a)).2).core I ∧
      (projSet (BS2.buildNewSet g g.analysis (ok2 g g.analysis nxt) tab pl (pl.getLastD default)
          (Sym.t a)).2).dists = ((BS2.newStarts g nxt pl a).1.map projP).map (·.2) := by
  have hspec := BS2.insert_expand_spec htab (BS2.newStarts g nxt pl a).1
  have hunf : BS2.buildNewSet g g.analysis (ok2 g g.analysis nxt) tab pl (pl.getLastD default) (Sym.t a) =
      let st := BS2.newStarts g nxt pl a
      let r := BS2.setInsert tab st.1
      let tab' : BS2.Tab2 := { r.1 with bad := r.1.bad || st.2 }
      if r.2.2 then
        (tab'.storeCore (BS2.expandNewStartSet g g.analysis r.2.1.core),
          { r.2.1 with core := BS2.expandNewStartSet g g.analysis r.2.1.core })
      else (tab', r.2.1) := rfl
  rw [hunf]
  dsimp only at hspec ⊢
  by_cases hnew : (BS2.setInsert tab (BS2.newStarts g nxt pl a).1).2.2 = true
  · rw [if_pos hnew] at hspec ⊢
    obtain ⟨_, hd, num, hc⟩ := hspec
    exact lists_of_core hc hd
  · rw [if_neg hnew] at hspec ⊢
    obtain ⟨_, hd, num, hc⟩ := hspec
    exact lists_of_core hc hd

/-- every element after the given ones is `build_new_set` of the elements before it -/
theorem parseLoopC2_unroll (hsr : g.symsInRange = true) (w' : List Nat) :
    ∀ (toks : List Nat) (tab : BS2.Tab2) (pl : List BS2.CSet2) (plA : List (List Item2)) (k : Nat),
      BS2.TabInv2 g g.analysis tab → BS2.PLOK2 g plA pl → Inv2 g w' plA →
      w'.drop k = toks → plA.length = k + 1 →
      (∃ e, (BS2.parseLoopC2 g g.analysis toks tab pl k).2.2 = pl ++ e) ∧
      ∀ j, pl.length ≤ j → j < (BS2.parseLoopC2 g g.analysis toks tab pl k).2.2.length →
        ∃ (tab' : BS2.Tab2) (plA' : List (List Item2)) (a : Nat), BS2.TabInv2 g g.analysis tab' ∧
          BS2.PLOK2 g plA' ((BS2.parseLoopC2 g g.analysis toks tab pl k).2.2.take j) ∧
          Inv2 g w' plA' ∧ plA'.length = j ∧ w'[j - 1]? = some a ∧
          (BS2.parseLoopC2 g g.analysis toks tab pl k).2.2.getD j default =
            (BS2.buildNewSet g g.analysis (ok2 g g.analysis w'[j]?) tab'
              ((BS2.parseLoopC2 g g.analysis toks tab pl k).2.2.take j)
              (((BS2.parseLoopC2 g g.analysis toks tab pl k).2.2.take j).getLastD default) (Sym.t a)).2 := by
  intro toks
  induction toks with
  | nil =>
    intro tab pl plA k _ _ _ _ _
    rw [BS2.parseLoopC2_nil]
    exact ⟨⟨[], by simp⟩, fun j h1 h2 => absurd h2 (by simp only; omega)⟩
  | cons a rest ih =>
    intro tab pl plA k ht h hinv hdrop hlen
    have hpl : pl.length = k + 1 := by rw [← h.len]; exact hlen
    rw [BS2.parseLoopC2_cons]
    by_cases hT : (pl.getLastD default).core.find (Sym.t a) = true
    · rw [if_pos hT]
      obtain ⟨hw, hrest⟩ := drop_succ_of_drop_cons hdrop
      have hhead : rest.head? = w'[k + 1]? := by rw [← hrest, List.head?_drop]
      rw [hhead]
      obtain ⟨h1, h2, h3⟩ := BS2.buildNewSet_main (nxt := w'[k + 1]?) hsr ht h hinv hlen hw
      generalize hr : BS2.buildNewSet g g.analysis (ok2 g g.analysis w'[k + 1]?) tab pl (pl.getLastD default)
        (Sym.t a) = r at h1 h2 h3
      obtain ⟨⟨e, hfin⟩, hrec⟩ := ih r.1 (pl ++ [r.2]) _ (k + 1) h1 (BS2.PLOK2_snoc h h2 h3)
        (hinv.step hsr hlen hw) hrest (by rw [List.length_append, hlen]; rfl)
      refine ⟨⟨r.2 :: e, by rw [hfin]; simp⟩, ?_⟩
      intro j hj1 hj2
      rcases Nat.eq_or_lt_of_le hj1 with heq | hlt
      · -- the set just built
        subst heq
        refine ⟨tab, plA, a, ht, ?_, hinv, h.len, ?_, ?_⟩
        · rw [hfin, List.append_assoc, List.take_left']; exact h; rfl
        · rw [hpl]; simpa using hw
        · rw [hfin, List.append_assoc, List.take_left' rfl, List.getD_eq_getElem?_getD,
            List.getElem?_append_right (Nat.le_refl _), Nat.sub_self]
          simp only [List.singleton_append, List.getElem?_cons_zero, Option.getD_some]
          rw [← hr, hpl]
      · exact hrec j (by simp; omega) hj2
    · rw [if_neg hT]
      exact ⟨⟨[], by simp⟩, fun j h1 h2 => absurd h2 (by simp only; omega)⟩

end

/-- the invariants of the first set -/
theorem plok2_head {g : Grammar} (hsr : g.symsInRange = true) :
    BS2.PLOK2 g [expand2 g g.analysis (start0 g) 0] [(BS2.buildStartSet g g.analysis).2] := by
  obtain ⟨_, h2, h3⟩ := BS2.buildStartSet_main hsr
  refine ⟨rfl, ?_, ?_⟩
  · intro k hk
    have : k = 0 := by simpa using hk
    subst this; simpa using h2
  · intro k hk it
    have : k = 0 := by simpa using hk
    subst this; simpa using h3 it

/-- the first set of the level-2 parse list -/
theorem buildPLC2_head {g : Grammar} (hwf : g.WF) (hsr : g.symsInRange = true) (w : List Nat) :
    (BS2.buildPLC2 g w).2.2.getD 0 default = (BS2.buildStartSet g g.analysis).2 := by
  rw [BS2.buildPLC2_eq]
  obtain ⟨h1, _, _⟩ := BS2.buildStartSet_main hsr
  obtain ⟨hinv0, _⟩ := Inv2.init hwf hsr (w ++ [g.eofT])
  obtain ⟨⟨e, he⟩, _⟩ := parseLoopC2_unroll hsr (w ++ [g.eofT]) (w ++ [g.eofT])
    (BS2.buildStartSet g g.analysis).1 [(BS2.buildStartSet g g.analysis).2]
    [expand2 g g.analysis (start0 g) 0] 0 h1 (plok2_head hsr) hinv0 rfl rfl
  rw [he]
  rfl

/-- the other sets -/
theorem buildPLC2_unroll {g : Grammar} (hwf : g.WF) (hsr : g.symsInRange = true) (w : List Nat) (j : Nat)
    (hj1 : 1 ≤ j) (hj2 : j < (BS2.buildPLC2 g w).2.2.length) :
    ∃ (tab' : BS2.Tab2) (plA' : List (List Item2)) (a : Nat), BS2.TabInv2 g g.analysis tab' ∧
      BS2.PLOK2 g plA' ((BS2.buildPLC2 g w).2.2.take j) ∧ Inv2 g (w ++ [g.eofT]) plA' ∧
      plA'.length = j ∧ (w ++ [g.eofT])[j - 1]? = some a ∧
      (BS2.buildPLC2 g w).2.2.getD j default =
        (BS2.buildNewSet g g.analysis (ok2 g g.analysis (w ++ [g.eofT])[j]?) tab'
          ((BS2.buildPLC2 g w).2.2.take j)
          (((BS2.buildPLC2 g w).2.2.take j).getLastD default) (Sym.t a)).2 := by
  rw [BS2.buildPLC2_eq] at hj2 ⊢
  obtain ⟨h1, _, _⟩ := BS2.buildStartSet_main hsr
  obtain ⟨hinv0, _⟩ := Inv2.init hwf hsr (w ++ [g.eofT])
  obtain ⟨_, hrec⟩ := parseLoopC2_unroll hsr (w ++ [g.eofT]) (w ++ [g.eofT])
    (BS2.buildStartSet g g.analysis).1 [(BS2.buildStartSet g g.analysis).2]
    [expand2 g g.analysis (start0 g) 0] 0 h1 (plok2_head hsr) hinv0 rfl rfl
  exact hrec j (by simpa using hj1) hj2

/-! ## the first set at levels 0 and 2 -/

/-- the start pairs of the first set -/
def ns00 (g : Grammar) : List (Sit × Nat) := (rulesOf g g.axiomN).map fun r => ((r, 0), 0)

theorem head0_lists (g : Grammar) :
    ∃ I, ExpandLists g g.analysis ((ns00 g).map (·.1)) (buildStartSet g g.analysis).2.core I ∧
      (buildStartSet g g.analysis).2.dists = (ns00 g).map (·.2) := by
  rw [buildStartSet_unfold]
  dsimp only
  rw [foldl_addStartSit]
  simp only [setNewStart, List.nil_append]
  show ∃ I, ExpandLists g g.analysis ((ns00 g).map (·.1))
      (expandNewStartSet g g.analysis (setInsert {} (ns00 g)).2.1.core) I ∧
    (setInsert {} (ns00 g)).2.1.dists = (ns00 g).map (·.2)
  have hspec := insert_expand_spec (TabInv_empty g g.analysis) (ns00 g)
  obtain ⟨hd, _, hcase⟩ := setInsert_spec {} (ns00 g)
  rcases hcase with ⟨_, ⟨i, hi⟩, _⟩ | ⟨hnew, _, _, _⟩
  · simp at hi
  · dsimp only at hspec
    rw [hnew] at hspec
    simp only [if_true] at hspec
    obtain ⟨_, hdists, num, hc⟩ := hspec
    obtain ⟨I, hI⟩ := expandNewStartSet_lists g g.analysis num ((ns00 g).map (·.1))
    exact ⟨I, by rw [hc]; exact hI, hd⟩

theorem head2_lists (g : Grammar) :
    ∃ I, ExpandLists g g.analysis ((ns00 g).map (·.1)) (projSet (BS2.buildStartSet g g.analysis).2).core I ∧
      (projSet (BS2.buildStartSet g g.analysis).2).dists = (ns00 g).map (·.2) := by
  rw [BS2.buildStartSet_unfold]
  dsimp only
  rw [BS2.foldl_addStartSit]
  simp only [BS2.setNewStart, List.nil_append]
  generalize hns : (rulesOf g g.axiomN).map (fun r => (((⟨r, 0, []⟩ : BS2.Sit2), 0) : BS2.Sit2 × Nat)) = ns
  have hproj : ns.map projP = ns00 g := by
    rw [← hns, List.map_map]; rfl
  show ∃ I, ExpandLists g g.analysis ((ns00 g).map (·.1))
      (BS2.expandNewStartSet g g.analysis (BS2.setInsert {} ns).2.1.core).proj I ∧
    (BS2.setInsert {} ns).2.1.dists = (ns00 g).map (·.2)
  have hspec := BS2.insert_expand_spec (BS2.TabInv2_empty g g.analysis) ns
  obtain ⟨hd, _, hcase⟩ := BS2.setInsert_spec {} ns
  rcases hcase with ⟨_, ⟨i, hi⟩, _⟩ | ⟨hnew, _, _, _⟩
  · simp at hi
  · dsimp only at hspec
    rw [hnew] at hspec
    simp only [if_true] at hspec
    obtain ⟨_, hdists, num, hc⟩ := hspec
    obtain ⟨I, hI⟩ := expandNewStartSet_lists g g.analysis num ((ns.map (·.1)).map BS2.Sit2.proj)
    refine ⟨I, ?_, ?_⟩
    · rw [hc, expandNewStartSet_proj, ← hproj, map_projP_fst]
      exact hI
    · rw [← hproj, map_projP_snd]; exact hd

end Yaep.LI2
