import Yaep.Lemmas.EtfSets
import Yaep.Lemmas.ListSets2
/-!
# Lookahead level 2 (`buildPL2`): the sets of `etfGrammar` have at most 8 items

For a grammar without nullable nonterminals (`g.nullable = []`) the sets of the level-2 parse list
have no duplicates (`parseLoop2_nodup_of_no_nullable`).  For `etfGrammar`: an item of a set is
determined by its projection (rule, dot, origin) — the contexts are determined by rule and
origin (`Inv2.det`) —, the projections are items of the unfiltered declarative set, hence at most 8.
-/
namespace Yaep.ETF
open Yaep

/-! ## grammars without nullable nonterminals -/

theorem derived2_nil_of_no_nullable {g : Grammar} (hnl : g.nullable = []) (it : Item2) (fuel : Nat) :
    derived2 g g.analysis it fuel = [] := by
  have hnl' : g.analysis.nl = [] := hnl
  cases fuel with
  | zero => rfl
  | succ fuel =>
    unfold derived2
    split
    · rw [hnl']; simp
    · rfl

theorem items2_of_no_nullable {g : Grammar} (hnl : g.nullable = []) (start : List Item2) :
    items2 g start = start := by
  unfold items2
  have : (start.flatMap fun it => derived2 g g.analysis it (g.maxRhs + 1)) = [] := by
    induction start with
    | nil => rfl
    | cons a l ih => rw [List.flatMap_cons, derived2_nil_of_no_nullable hnl, ih]; rfl
  rw [this, List.append_nil]

/-- a level-2 set built from a duplicate-free start list whose items do not start at `j` has no
duplicates (no nullable nonterminals) -/
theorem expand2_nodup_of_no_nullable {g : Grammar} (hnl : g.nullable = []) {start : List Item2}
    {j : Nat} (hs : start.Nodup) (ho : ∀ s ∈ start, s.origin ≠ j) :
    (expand2 g g.analysis start j).Nodup := by
  rw [expand2_eq, items2_of_no_nullable hnl, List.nodup_append]
  refine ⟨hs, ?_, ?_⟩
  · apply nodup_map_of_inj_on (inits2_nodup _ _)
    intro a _ b _ hab
    obtain ⟨⟨r, d⟩, c⟩ := a
    obtain ⟨⟨r', d'⟩, c'⟩ := b
    simp only [Item2.mk.injEq] at hab
    obtain ⟨h1, h2, _, h4⟩ := hab
    subst h1 h2 h4; rfl
  · intro a ha b hb hab
    obtain ⟨e, _, rfl⟩ := List.mem_map.mp hb
    exact ho a ha (by rw [hab])

/-- the start items of a set (scanned, completed) have the dot after at least one symbol -/
theorem startOf_dot_pos (g : Grammar) (nxt : Option Nat) (pl : List (List Item2)) (a : Nat) :
    ∀ s ∈ startOf g nxt pl a, 0 < s.dot := by
  unfold startOf
  apply startLoop_from (fun s => 0 < s.dot) (fun k p _ => Nat.succ_pos _)
  intro s hs
  rcases mem_addNew hs with hs | hs
  · simp at hs
  · obtain ⟨p, _, hs⟩ := List.mem_filterMap.mp hs
    split at hs
    · injection hs with hs; subst hs; exact Nat.succ_pos _
    · simp at hs

/-- without nullable nonterminals, an item with the dot after a symbol starts before its set -/
theorem EarleyF.origin_lt_of_dot_pos {g : Grammar} (hnl : g.nullable = [])
    {ok : Nat → Nat → Nat → Bool} {w : List Nat} {j : Nat} {it : Item}
    (h : EarleyF g ok w j it) (hd : 0 < it.dot) : it.origin < j := by
  obtain ⟨rl, hr, hdl, hle, hder⟩ := h.sound
  rcases Nat.lt_or_ge it.origin j with hlt | hge
  · exact hlt
  · exfalso
    have e : it.origin = j := Nat.le_antisymm hle hge
    rw [e, slice_self] at hder
    have hlen : 0 < rl.rhs.length := Nat.lt_of_lt_of_le hd hdl
    have hmem : rl.rhs[0] ∈ rl.rhs.take it.dot := by
      rw [List.mem_take_iff_getElem]
      exact ⟨0, by omega, rfl⟩
    have h0 := hder.forall_of_nil _ hmem
    cases hs : rl.rhs[0] with
    | t a => rw [hs] at h0; exact Der.not_t_nil h0
    | n B =>
      rw [hs] at h0
      have := mem_nullable_iff.mpr h0
      rw [hnl] at this
      cases this

theorem nextSet2_nodup_of_no_nullable {g : Grammar} (hnl : g.nullable = []) {w : List Nat}
    {nxt : Option Nat} {pl : List (List Item2)} {k a : Nat}
    (hlen : pl.length = k + 1) (hpl : PL2Sound g w pl) (hw : w[k]? = some a) :
    (nextSet2 g g.analysis nxt pl a).Nodup := by
  rw [nextSet2_eq]
  apply expand2_nodup_of_no_nullable hnl (startOf_nodup _ _ _ _)
  intro s hs
  have h1 : EarleyF g okT w pl.length s.proj := startOf_sound hlen hpl hw s hs
  have h2 := EarleyF.origin_lt_of_dot_pos hnl h1 (startOf_dot_pos g nxt pl a s hs)
  have h3 : s.proj.origin = s.origin := rfl
  omega

theorem parseLoop2_nodup_of_no_nullable {g : Grammar} (hnl : g.nullable = []) (w' : List Nat) :
    ∀ (toks : List Nat) (pl : List (List Item2)) (k : Nat), w'.drop k = toks →
      pl.length = k + 1 → PL2Sound g w' pl → (∀ s ∈ pl, s.Nodup) →
      ∀ s ∈ (parseLoop2 g g.analysis toks pl k).2, s.Nodup := by
  intro toks
  induction toks with
  | nil => intro pl k _ _ _ h; unfold parseLoop2; exact h
  | cons a rest ih =>
    intro pl k hdrop hlen hpl h
    obtain ⟨hw, hrest⟩ := drop_succ_of_drop_cons hdrop
    unfold parseLoop2
    split
    · apply ih _ _ hrest (by rw [List.length_append, hlen]; rfl)
        (PL2Sound_snoc hpl (nextSet2_sound hlen hpl hw))
      intro s hs
      rcases List.mem_append.mp hs with hs | hs
      · exact h s hs
      · rw [List.mem_singleton] at hs; subst hs
        exact nextSet2_nodup_of_no_nullable hnl hlen hpl hw
    · exact h

/-! ## `etfGrammar` -/

theorem etf_nullable : etfGrammar.nullable = [] := by decide

theorem etf_set0_2_nodup :
    (expand2 etfGrammar etfGrammar.analysis (start0 etfGrammar) 0).Nodup := by decide

theorem buildPL2_etf_eq (w : List Nat) :
    buildPL2 etfGrammar w = parseLoop2 etfGrammar etfGrammar.analysis (w ++ [6])
      [expand2 etfGrammar etfGrammar.analysis (start0 etfGrammar) 0] 0 := rfl

theorem PL2Sound_etf_init (w' : List Nat) :
    PL2Sound etfGrammar w' [expand2 etfGrammar etfGrammar.analysis (start0 etfGrammar) 0] := by
  intro k hk it hit
  have : k = 0 := by simpa using hk
  subst this
  have h2 : it ∈ expand2 etfGrammar etfGrammar.analysis (start0 etfGrammar) 0 := by
    simpa using hit
  exact set0_2_sound etfGrammar w' it h2

theorem etf_buildPL2_nodup (w : List Nat) : ∀ s ∈ (buildPL2 etfGrammar w).2, s.Nodup := by
  rw [buildPL2_etf_eq]
  apply parseLoop2_nodup_of_no_nullable etf_nullable (w ++ [6]) _ _ 0 rfl rfl (PL2Sound_etf_init _)
  intro s hs
  rw [List.mem_singleton] at hs; subst hs; exact etf_set0_2_nodup

/-- in one level-2 set of `etfGrammar` an item is determined by rule, dot and origin -/
theorem etf_buildPL2_proj_inj (w : List Nat) (j : Nat) (h : j < (buildPL2 etfGrammar w).2.length) :
    ∀ p ∈ (buildPL2 etfGrammar w).2[j], ∀ q ∈ (buildPL2 etfGrammar w).2[j],
      p.proj = q.proj → p = q := by
  obtain ⟨hinv0, _⟩ := Inv2.init etf_wf.1 etf_wf.2 (w ++ [6])
  have hspec := (parseLoop2_spec etf_wf.2 (w ++ [6]) (w ++ [6])
    [expand2 etfGrammar etfGrammar.analysis (start0 etfGrammar) 0] 0 rfl rfl hinv0).1
  rw [← buildPL2_etf_eq] at hspec
  intro p hp q hq hpq
  have hget : (buildPL2 etfGrammar w).2.getD j [] = (buildPL2 etfGrammar w).2[j] := by
    rw [List.getD_eq_getElem?_getD, List.getElem?_eq_getElem h, Option.getD_some]
  unfold Item2.proj at hpq
  simp only [Item.mk.injEq] at hpq
  have hc := hspec.det j j p q (by rw [hget]; exact hp) (by rw [hget]; exact hq) hpq.1 hpq.2.2
  obtain ⟨r, d, o, c⟩ := p
  obtain ⟨r', d', o', c'⟩ := q
  simp only at hpq hc
  obtain ⟨h1, h2, h3⟩ := hpq
  subst h1 h2 h3 hc
  rfl

/-- the projection of an item of a level-2 set is in the unfiltered declarative set -/
theorem etf_buildPL2_item (w : List Nat) (j : Nat) (h : j < (buildPL2 etfGrammar w).2.length)
    (it : Item2) (hit : it ∈ (buildPL2 etfGrammar w).2[j]) :
    EarleyF etfGrammar okT (w ++ [6]) j it.proj := by
  have h1 := (buildPL2_sound_aux etfGrammar w).1 j h it
  rw [List.getD_eq_getElem?_getD, List.getElem?_eq_getElem h] at h1
  exact h1 hit

/-- every set of the level-2 parse list of `etfGrammar` has at most 8 items (every input) -/
theorem etf_buildPL2_le (w : List Nat) (j : Nat) (h : j < (buildPL2 etfGrammar w).2.length) :
    ((buildPL2 etfGrammar w).2[j]).length ≤ 8 := by
  have hnd : (((buildPL2 etfGrammar w).2[j]).map Item2.proj).Nodup :=
    nodup_map_of_inj_on (etf_buildPL2_nodup w _ (List.getElem_mem h)) (etf_buildPL2_proj_inj w j h)
  have := etf_nodup_le (w := w ++ [6]) (ok := okT) (j := j) hnd (by
    intro x hx
    obtain ⟨it, hit, rfl⟩ := List.mem_map.mp hx
    exact etf_buildPL2_item w j h it hit)
  rwa [List.length_map] at this

end Yaep.ETF
