import Yaep.Lemmas.MakeParseAllStep
import Yaep.Lemmas.MakeParseSoundPres
/-!
# The ambiguity flag, all parses, part 1: what one iteration of the main loop does to the stack of
parse states (heap-free)

The flag and the parse states on the stack evolve without looking at the tree memory.  `CandShape`
describes the parse states while the reduces of one nonterminal occurrence are tried: the states
that were there are unchanged (but `orig_state`, whose list index becomes the origin of the first
candidate), every new state is the *child* for a candidate that passed the check loop or a *copy*
of `orig_state` for the origin of such a candidate.
-/
namespace Yaep.MP
open Yaep

/-! ## the flag is touched by the candidate loop only -/

theorem candPre_amb (L : Loc) (sit : Item) (nCand : Nat) (s : St) :
    (candPre L sit nCand s).amb = s.amb := by
  unfold candPre
  simp only
  split <;> split <;> rfl

theorem candPre_stack (L : Loc) (sit : Item) (nCand : Nat) (s : St) :
    (candPre L sit nCand s).stack = s.stack := by
  unfold candPre
  simp only
  split <;> split <;> rfl

theorem candPre_states (L : Loc) (sit : Item) (nCand : Nat) (s : St) :
    (candPre L sit nCand s).states =
      if nCand = 0 then s.states.set! L.origSid { s.state L.origSid with plInd := sit.origin }
      else s.states := by
  unfold candPre
  simp only
  by_cases h : nCand = 0
  · subst h
    simp [St.setState, St.state]
  · have h1 : (nCand == 0) = false := by simpa using h
    rw [h1, if_neg h]
    simp only [Bool.false_eq_true, if_false]
    split <;> rfl

theorem candHead_amb (L : Loc) (sit : Item) (nCand : Nat) (os : List Nat) (s : St) (pp : Nat × Nat)
    (disp : Nat) : (candHead L sit nCand os s pp disp).1.amb = s.amb := by
  unfold candHead
  simp only
  split
  · split
    · rfl
    · split <;> rfl
  · rfl

theorem candTail_amb (c : Ctx) (L : Loc) (sit : Item) (pp : Nat × Nat) (disp : Nat)
    (x : St × List Nat × Nat × Option Nat) : (candTail c L sit pp disp x).1.amb = x.1.amb := by
  unfold candTail
  simp only
  split
  · split
    · simp [St.place, St.push, apply_ite St.amb]
    · rfl
  · split <;> rfl

theorem candidate_amb_all (c : Ctx) (L : Loc) (sit : Item) (nCand : Nat) (os : List Nat) (s : St) :
    (candidate c L sit nCand os s).1.amb = s.amb := by
  rw [candidate_eq]
  split
  · rw [candTail_amb, candHead_amb, candPre_amb]
  · exact candPre_amb ..

/-! ## the parse states during the candidate loop -/

/-- the new state `p` is the child for situation `sit`, or a copy of `X0` for the origin of `sit` -/
def NewOK (L : Loc) (X0 : PState) (sit : Item) (p : PState) : Prop :=
  L.disp.isSome = true ∧
  ((p.rule = sit.rule ∧ p.pos = sit.dot ∧ p.orig = sit.origin ∧ p.plInd = L.plInd) ∨
   (p.rule = X0.rule ∧ p.pos = X0.pos ∧ p.orig = X0.orig ∧ p.plInd = sit.origin))

/-- the parse states while the reduces of one nonterminal occurrence are tried.  `P i`: entry `i`
of the reduce vector passed the check loop; `X0`: `orig_state` before the loop; `sts0`, `stk0`:
the states and the stack before the loop -/
structure CandShape (L : Loc) (set : Array Item) (P : Nat → Prop) (X0 : PState)
    (sts0 : Array PState) (stk0 : List Nat) (s1 : St) (nCand : Nat) : Prop where
  size : sts0.size ≤ s1.states.size
  old : ∀ i, i < sts0.size → i ≠ L.origSid → s1.states.getD i default = sts0.getD i default
  stk : ∃ ids, s1.stack = ids ++ stk0 ∧ ∀ y ∈ ids, sts0.size ≤ y ∧ y < s1.states.size
  orig : (nCand = 0 ∧ s1.state L.origSid = X0) ∨
    (nCand ≠ 0 ∧ ∃ i, P i ∧ s1.state L.origSid = { X0 with plInd := (set.getD i default).origin })
  news : ∀ y, sts0.size ≤ y → y < s1.states.size →
    ∃ i, P i ∧ NewOK L X0 (set.getD i default) (s1.state y)

theorem CandShape.congr {L : Loc} {set : Array Item} {P : Nat → Prop} {X0 : PState}
    {sts0 : Array PState} {stk0 : List Nat} {s1 s2 : St} {n : Nat}
    (h : CandShape L set P X0 sts0 stk0 s1 n) (h1 : s2.states = s1.states) (h2 : s2.stack = s1.stack) :
    CandShape L set P X0 sts0 stk0 s2 n := by
  obtain ⟨a1, a2, a3, a4, a5⟩ := h
  refine ⟨by rw [h1]; exact a1, by rw [h1]; exact a2, by rw [h1, h2]; exact a3, ?_, ?_⟩
  · unfold St.state at a4 ⊢; rw [h1]; exact a4
  · unfold St.state at a5 ⊢; rw [h1]; exact a5

theorem CandShape.push {L : Loc} {set : Array Item} {P : Nat → Prop} {X0 : PState}
    {sts0 : Array PState} {stk0 : List Nat} {s1 s2 : St} {n : Nat} {p : PState} {i : Nat}
    (h : CandShape L set P X0 sts0 stk0 s1 n) (hsid : L.origSid < sts0.size)
    (h1 : s2.states = s1.states.push p) (h2 : s2.stack = s1.states.size :: s1.stack)
    (hi : P i) (hp : NewOK L X0 (set.getD i default) p) :
    CandShape L set P X0 sts0 stk0 s2 n := by
  obtain ⟨a1, a2, ⟨ids, a3, a3'⟩, a4, a5⟩ := h
  have hst : ∀ y, y < s1.states.size → s2.state y = s1.state y := by
    intro y hy
    unfold St.state
    rw [h1, getD_push_lt _ _ _ _ hy]
  have hnew : s2.state s1.states.size = p := by
    unfold St.state
    rw [h1, getD_push_eq]
  refine ⟨by rw [h1]; simp; omega, ?_, ⟨s1.states.size :: ids, ?_, ?_⟩, ?_, ?_⟩
  · intro k hk hne
    rw [h1, getD_push_lt _ _ _ _ (by omega)]
    exact a2 k hk hne
  · rw [h2, a3]; rfl
  · intro y hy
    rw [h1]
    simp only [Array.size_push]
    rcases List.mem_cons.mp hy with rfl | hy
    · exact ⟨a1, Nat.lt_succ_self _⟩
    · have := a3' y hy; omega
  · rw [hst _ (by omega)]; exact a4
  · intro y hy1 hy2
    rw [h1] at hy2
    simp only [Array.size_push] at hy2
    rcases Nat.lt_or_ge y s1.states.size with hlt | hge
    · rw [hst y hlt]; exact a5 y hy1 hlt
    · have : y = s1.states.size := by omega
      subst this
      rw [hnew]; exact ⟨i, hi, hp⟩

/-- `orig_state->pl_ind = sit_orig` for the first candidate -/
theorem CandShape.pre {L : Loc} {set : Array Item} {P : Nat → Prop} {X0 : PState}
    {sts0 : Array PState} {stk0 : List Nat} {s1 : St} {n i : Nat}
    (h : CandShape L set P X0 sts0 stk0 s1 n) (hsid : L.origSid < sts0.size) (hi : P i) :
    CandShape L set P X0 sts0 stk0 (candPre L (set.getD i default) n s1) (n + 1) := by
  obtain ⟨a1, a2, ⟨ids, a3, a3'⟩, a4, a5⟩ := h
  have hs := candPre_states L (set.getD i default) n s1
  have hk := candPre_stack L (set.getD i default) n s1
  by_cases hn : n = 0
  · rw [if_pos hn] at hs
    rcases a4 with ⟨_, a4⟩ | ⟨a4, _⟩
    · refine ⟨by rw [hs]; simpa using a1, ?_, ⟨ids, by rw [hk]; exact a3, ?_⟩, ?_, ?_⟩
      · intro k hk1 hne
        rw [hs, getD_set!, if_neg (fun hh => hne hh.1.symm)]
        exact a2 k hk1 hne
      · intro y hy; rw [hs]; simpa using a3' y hy
      · right
        refine ⟨by omega, i, hi, ?_⟩
        have e : (candPre L (set.getD i default) n s1).state L.origSid =
            { s1.state L.origSid with plInd := (set.getD i default).origin } := by
          unfold St.state
          rw [hs, getD_set!, if_pos ⟨rfl, by omega⟩]
          rfl
        rw [e, a4]
      · intro y hy1 hy2
        rw [hs] at hy2
        have hy2' : y < s1.states.size := by simpa using hy2
        have : y ≠ L.origSid := by omega
        unfold St.state
        rw [hs, getD_set!, if_neg (fun hh => this hh.1.symm)]
        exact a5 y hy1 hy2'
    · exact absurd hn a4
  · rw [if_neg hn] at hs
    rcases a4 with ⟨a4, _⟩ | ⟨_, a4⟩
    · exact absurd a4 hn
    · exact CandShape.congr ⟨a1, a2, ⟨ids, a3, a3'⟩, Or.inr ⟨by omega, a4⟩, a5⟩ hs hk

theorem flagL15_candHead_shape (L : Loc) (sit : Item) (nCand : Nat) (os : List Nat) (s : St) (pp : Nat × Nat)
    (disp : Nat) :
    ((candHead L sit nCand os s pp disp).1.states = s.states ∧
      (candHead L sit nCand os s pp disp).1.stack = s.stack) ∨
    (∃ an, (candHead L sit nCand os s pp disp).1.states =
        s.states.push { s.state L.origSid with plInd := sit.origin, anode := an } ∧
      (candHead L sit nCand os s pp disp).1.stack = s.states.size :: s.stack) := by
  unfold candHead
  simp only
  split
  · split
    · exact Or.inl ⟨rfl, rfl⟩
    · split
      · exact Or.inr ⟨_, rfl, rfl⟩
      · exact Or.inr ⟨_, rfl, rfl⟩
  · exact Or.inl ⟨rfl, rfl⟩

theorem flagL15_candTail_shape (c : Ctx) (L : Loc) (sit : Item) (pp : Nat × Nat) (disp : Nat)
    (x : St × List Nat × Nat × Option Nat) :
    ((candTail c L sit pp disp x).1.states = x.1.states ∧
      (candTail c L sit pp disp x).1.stack = x.1.stack) ∨
    (∃ p : PState, p.rule = sit.rule ∧ p.pos = sit.dot ∧ p.orig = sit.origin ∧ p.plInd = L.plInd ∧
      (candTail c L sit pp disp x).1.states = x.1.states.push p ∧
      (candTail c L sit pp disp x).1.stack = x.1.states.size :: x.1.stack) := by
  unfold candTail
  simp only
  split
  · split
    · right
      refine ⟨tailChild L sit x.1 x.2.2.1 x.2.2.2 disp (some x.1.heap.size), rfl, rfl, rfl, rfl, ?_, ?_⟩
      · simp [St.place, St.push, apply_ite St.states, tailChild]
      · simp [St.place, St.push, apply_ite St.stack, apply_ite St.states]
    · exact Or.inl ⟨rfl, rfl⟩
  · split
    · exact Or.inr ⟨tailChild L sit x.1 x.2.2.1 x.2.2.2 disp none, rfl, rfl, rfl, rfl, rfl, rfl⟩
    · exact Or.inl ⟨rfl, rfl⟩

/-- one candidate keeps `CandShape` -/
theorem flagL15_candidate_shape {c : Ctx} {L : Loc} {set : Array Item} {P : Nat → Prop} {X0 : PState}
    {sts0 : Array PState} {stk0 : List Nat} {s1 : St} {n i : Nat} (os : List Nat)
    (h : CandShape L set P X0 sts0 stk0 s1 n) (hsid : L.origSid < sts0.size) (hi : P i) :
    CandShape L set P X0 sts0 stk0 (candidate c L (set.getD i default) n os s1).1 (n + 1) := by
  rw [candidate_eq]
  have hpre := h.pre hsid hi
  split
  · rename_i pa disp _ hdisp
    have hds : L.disp.isSome = true := by rw [hdisp]; rfl
    -- the head
    have hX : (candPre L (set.getD i default) n s1).state L.origSid =
        { X0 with plInd := ((candPre L (set.getD i default) n s1).state L.origSid).plInd } := by
      rcases hpre.orig with ⟨h0, _⟩ | ⟨_, i', _, e⟩
      · omega
      · rw [e]
    have hhead : CandShape L set P X0 sts0 stk0
        (candHead L (set.getD i default) n os (candPre L (set.getD i default) n s1) (pa, L.parentDisp) disp).1
        (n + 1) := by
      rcases flagL15_candHead_shape L (set.getD i default) n os (candPre L (set.getD i default) n s1)
        (pa, L.parentDisp) disp with ⟨e1, e2⟩ | ⟨an, e1, e2⟩
      · exact hpre.congr e1 e2
      · refine hpre.push hsid e1 e2 hi ⟨hds, Or.inr ⟨?_, ?_, ?_, rfl⟩⟩
        · show ((candPre L (set.getD i default) n s1).state L.origSid).rule = X0.rule
          rw [hX]
        · show ((candPre L (set.getD i default) n s1).state L.origSid).pos = X0.pos
          rw [hX]
        · show ((candPre L (set.getD i default) n s1).state L.origSid).orig = X0.orig
          rw [hX]
    rcases flagL15_candTail_shape c L (set.getD i default) (pa, L.parentDisp) disp
      (candHead L (set.getD i default) n os (candPre L (set.getD i default) n s1) (pa, L.parentDisp) disp)
      with ⟨e1, e2⟩ | ⟨p, p1, p2, p3, p4, e1, e2⟩
    · exact hhead.congr e1 e2
    · exact hhead.push hsid e1 e2 hi ⟨hds, Or.inl ⟨p1, p2, p3, p4⟩⟩
  · exact hpre

/-! ## the loop -/

theorem candLoop_shape {c : Ctx} {L : Loc} {set : Array Item} {P : Nat → Prop} {X0 : PState}
    {sts0 : Array PState} {stk0 : List Nat} (hsid : L.origSid < sts0.size) :
    ∀ (l : List Nat) (n : Nat) (os : List Nat) (s1 : St),
      (∀ i ∈ l, checkFound c L (set.getD i default).origin = true → P i) →
      CandShape L set P X0 sts0 stk0 s1 n →
      CandShape L set P X0 sts0 stk0 (candLoop c L set l n os s1).1 (candLoop c L set l n os s1).2
  | [], n, os, s1, _, h => h
  | i :: l, n, os, s1, hP, h => by
    unfold candLoop
    by_cases hf : checkFound c L (set.getD i default).origin = true
    · simp only [hf]
      have hi : P i := hP i List.mem_cons_self hf
      have hP' : ∀ k ∈ l, checkFound c L (set.getD k default).origin = true → P k :=
        fun k hk => hP k (List.mem_cons_of_mem _ hk)
      by_cases hbr : (n != 0 && c.oneParse) = true
      · simp only [hbr]
        simp only [Bool.not_true, Bool.false_eq_true, if_false, if_true]
        exact h.congr (by split <;> rfl) (by split <;> rfl)
      · simp only [hbr]
        simp only [Bool.not_true, Bool.false_eq_true, if_false]
        have h' : CandShape L set P X0 sts0 stk0 (if (n != 0) = true then { s1 with amb := true } else s1) n :=
          h.congr (by split <;> rfl) (by split <;> rfl)
        exact candLoop_shape hsid l (n + 1) _ _ hP' (flagL15_candidate_shape _ h' hsid hi)
    · simp only [hf]
      simp only [Bool.not_false, if_true]
      exact candLoop_shape hsid l n os s1 (fun k hk => hP k (List.mem_cons_of_mem _ hk)) h

/-! ## the flag in the loop (any mode) -/

/-- where the flag comes from -/
theorem candLoop_amb_src {c : Ctx} {L : Loc} {set : Array Item} :
    ∀ (l : List Nat) (n : Nat) (os : List Nat) (s : St), l.Nodup →
      (candLoop c L set l n os s).1.amb = true →
      s.amb = true ∨ (n ≠ 0 ∧ ∃ i ∈ l, checkFound c L (set.getD i default).origin = true) ∨
      ∃ i1 ∈ l, ∃ i2 ∈ l, i1 ≠ i2 ∧ checkFound c L (set.getD i1 default).origin = true ∧
        checkFound c L (set.getD i2 default).origin = true
  | [], n, os, s, _, h => Or.inl h
  | i :: l, n, os, s, hnd, h => by
    have hnd' := List.nodup_cons.mp hnd
    unfold candLoop at h
    by_cases hf : checkFound c L (set.getD i default).origin = true
    · simp only [hf] at h
      simp only [Bool.not_true, Bool.false_eq_true, if_false] at h
      by_cases hn : n = 0
      · subst hn
        simp only [bne_self_eq_false, Bool.false_eq_true, if_false, Bool.false_and] at h
        rcases candLoop_amb_src l 1 _ _ hnd'.2 h with h1 | ⟨_, j, hj, hjf⟩ | ⟨i1, m1, i2, m2, hne, f1, f2⟩
        · rw [candidate_amb_all] at h1; exact Or.inl h1
        · exact Or.inr (Or.inr ⟨i, List.mem_cons_self, j, List.mem_cons_of_mem _ hj,
            fun e => hnd'.1 (e ▸ hj), hf, hjf⟩)
        · exact Or.inr (Or.inr ⟨i1, List.mem_cons_of_mem _ m1, i2, List.mem_cons_of_mem _ m2, hne, f1, f2⟩)
      · exact Or.inr (Or.inl ⟨hn, i, List.mem_cons_self, hf⟩)
    · simp only [hf] at h
      simp only [Bool.not_false, if_true] at h
      rcases candLoop_amb_src l n os s hnd'.2 h with h1 | ⟨hn, j, hj, hjf⟩ | ⟨i1, m1, i2, m2, hne, f1, f2⟩
      · exact Or.inl h1
      · exact Or.inr (Or.inl ⟨hn, j, List.mem_cons_of_mem _ hj, hjf⟩)
      · exact Or.inr (Or.inr ⟨i1, List.mem_cons_of_mem _ m1, i2, List.mem_cons_of_mem _ m2, hne, f1, f2⟩)

/-- the flag is never reset by the loop -/
theorem candLoop_amb_mono {c : Ctx} {L : Loc} {set : Array Item} :
    ∀ (l : List Nat) (n : Nat) (os : List Nat) (s : St), s.amb = true →
      (candLoop c L set l n os s).1.amb = true
  | [], n, os, s, h => h
  | i :: l, n, os, s, h => by
    unfold candLoop
    by_cases hf : checkFound c L (set.getD i default).origin = true
    · simp only [hf]
      simp only [Bool.not_true, Bool.false_eq_true, if_false]
      have h' : (if (n != 0) = true then { s with amb := true } else s : St).amb = true := by
        split
        · rfl
        · exact h
      split
      · exact h'
      · exact candLoop_amb_mono l (n + 1) _ _ (by rw [candidate_amb_all]; exact h')
    · simp only [hf]
      simp only [Bool.not_false, if_true]
      exact candLoop_amb_mono l n os s h

/-- a further candidate after the first sets the flag -/
theorem candLoop_amb_next {c : Ctx} {L : Loc} {set : Array Item} :
    ∀ (l : List Nat) (n : Nat) (os : List Nat) (s : St), n ≠ 0 →
      (∃ i ∈ l, checkFound c L (set.getD i default).origin = true) →
      (candLoop c L set l n os s).1.amb = true
  | [], n, os, s, _, h => by obtain ⟨i, hi, _⟩ := h; cases hi
  | i :: l, n, os, s, hn, h => by
    unfold candLoop
    have hn' : (n != 0) = true := by simpa using hn
    by_cases hf : checkFound c L (set.getD i default).origin = true
    · simp only [hf]
      simp only [Bool.not_true, Bool.false_eq_true, if_false, hn', if_true]
      split
      · rfl
      · exact candLoop_amb_mono l (n + 1) _ _ (by rw [candidate_amb_all])
    · simp only [hf]
      simp only [Bool.not_false, if_true]
      obtain ⟨j, hj, hjf⟩ := h
      rcases List.mem_cons.mp hj with rfl | hj
      · exact absurd hjf hf
      · exact candLoop_amb_next l n os s hn ⟨j, hj, hjf⟩

/-- two different entries pass the check loop: the flag is set (any mode) -/
theorem candLoop_amb_two {c : Ctx} {L : Loc} {set : Array Item} :
    ∀ (l : List Nat) (n : Nat) (os : List Nat) (s : St) (i1 i2 : Nat), i1 ∈ l → i2 ∈ l → i1 ≠ i2 →
      checkFound c L (set.getD i1 default).origin = true →
      checkFound c L (set.getD i2 default).origin = true →
      (candLoop c L set l n os s).1.amb = true
  | [], n, os, s, i1, i2, h1, _, _, _, _ => by cases h1
  | i :: l, n, os, s, i1, i2, h1, h2, hne, f1, f2 => by
    by_cases hn : n = 0
    · subst hn
      unfold candLoop
      by_cases hf : checkFound c L (set.getD i default).origin = true
      · simp only [hf]
        simp only [Bool.not_true, Bool.false_eq_true, if_false, bne_self_eq_false, Bool.false_and]
        have hex : ∃ j ∈ l, checkFound c L (set.getD j default).origin = true := by
          rcases List.mem_cons.mp h1 with e1 | m1
          · rcases List.mem_cons.mp h2 with e2 | m2
            · exact absurd (e1.trans e2.symm) hne
            · exact ⟨i2, m2, f2⟩
          · exact ⟨i1, m1, f1⟩
        exact candLoop_amb_next l 1 _ _ (by omega) hex
      · simp only [hf]
        simp only [Bool.not_false, if_true]
        have m1 : i1 ∈ l := by
          rcases List.mem_cons.mp h1 with e | m
          · rw [e] at f1; exact absurd f1 hf
          · exact m
        have m2 : i2 ∈ l := by
          rcases List.mem_cons.mp h2 with e | m
          · rw [e] at f2; exact absurd f2 hf
          · exact m
        exact candLoop_amb_two l 0 os s i1 i2 m1 m2 hne f1 f2
    · exact candLoop_amb_next (i :: l) n os s hn ⟨i1, h1, f1⟩

end Yaep.MP
