import Yaep.Spec.Yacc
import Yaep.Lemmas.DescrParse
import Yaep.Lemmas.DescrTerms
/-!
# The recursive-descent model of the description parser and the yacc grammar `sgramm.y`

Helper lemmas for `Props/C11Yacc.lean`.

* general inversion of `YDer` / `YDerSeq`, and the one-step inversion of every nonterminal of
  `Generated.sgrammProds` (the production list itself is never copied: the membership lemmas
  `mem_*` are proved by unfolding `Generated.sgrammProds`, so any change of `sgramm.y` breaks them);
* soundness: what the parser functions consume is derivable;
* completeness: a derivable token sequence is the token list of an abstract description
  (`DescrAST`), which `parseFile` accepts (`parseFile_items`).
-/
namespace Yaep

local notation "SP" => Generated.sgrammProds
local notation "K" => List.map tokKind

/-! ## general inversion -/

theorem YDerSeq_nil_iff {P : List (String × List String)} {w : List String} :
    YDerSeq P [] w ↔ w = [] := by
  constructor
  · intro h; cases h; rfl
  · rintro rfl; exact YDerSeq.nil

theorem YDerSeq_cons_iff {P : List (String × List String)} {s : String} {ss : List String}
    {w : List String} :
    YDerSeq P (s :: ss) w ↔ ∃ w1 w2, YDer P s w1 ∧ YDerSeq P ss w2 ∧ w = w1 ++ w2 := by
  constructor
  · intro h
    cases h with
    | cons _ _ w1 w2 h1 h2 => exact ⟨w1, w2, h1, h2, rfl⟩
  · rintro ⟨w1, w2, h1, h2, rfl⟩
    exact YDerSeq.cons _ _ _ _ h1 h2

/-- a symbol without productions is a token kind: it derives exactly itself -/
theorem YDer_tok_iff {P : List (String × List String)} {s : String} {w : List String}
    (h : ∀ p ∈ P, p.1 ≠ s) : YDer P s w ↔ w = [s] := by
  constructor
  · intro hd
    cases hd with
    | tok _ _ => rfl
    | prod _ rhs _ hm _ => exact absurd rfl (h _ hm)
  · rintro rfl; exact YDer.tok _ h

/-- a symbol with productions derives what one of its right-hand sides derives -/
theorem YDer_nt_iff {P : List (String × List String)} {s : String} {w : List String}
    (h : ∃ p ∈ P, p.1 = s) : YDer P s w ↔ ∃ rhs, (s, rhs) ∈ P ∧ YDerSeq P rhs w := by
  constructor
  · intro hd
    cases hd with
    | tok _ hn => obtain ⟨p, hp, rfl⟩ := h; exact absurd rfl (hn p hp)
    | prod _ rhs _ hm hs => exact ⟨rhs, hm, hs⟩
  · rintro ⟨rhs, hm, hs⟩; exact YDer.prod _ _ _ hm hs

/-! ## the token kinds of `sgramm.y` -/

@[simp] theorem YDer_IDENT {w : List String} : YDer SP "IDENT" w ↔ w = ["IDENT"] := YDer_tok_iff (by decide)
@[simp] theorem YDer_SEM_IDENT {w : List String} : YDer SP "SEM_IDENT" w ↔ w = ["SEM_IDENT"] := YDer_tok_iff (by decide)
@[simp] theorem YDer_CHAR {w : List String} : YDer SP "CHAR" w ↔ w = ["CHAR"] := YDer_tok_iff (by decide)
@[simp] theorem YDer_NUMBER {w : List String} : YDer SP "NUMBER" w ↔ w = ["NUMBER"] := YDer_tok_iff (by decide)
@[simp] theorem YDer_TERM {w : List String} : YDer SP "TERM" w ↔ w = ["TERM"] := YDer_tok_iff (by decide)
@[simp] theorem YDer_semi {w : List String} : YDer SP "';'" w ↔ w = ["';'"] := YDer_tok_iff (by decide)
@[simp] theorem YDer_eq {w : List String} : YDer SP "'='" w ↔ w = ["'='"] := YDer_tok_iff (by decide)
@[simp] theorem YDer_bar {w : List String} : YDer SP "'|'" w ↔ w = ["'|'"] := YDer_tok_iff (by decide)
@[simp] theorem YDer_hash {w : List String} : YDer SP "'#'" w ↔ w = ["'#'"] := YDer_tok_iff (by decide)
@[simp] theorem YDer_dash {w : List String} : YDer SP "'-'" w ↔ w = ["'-'"] := YDer_tok_iff (by decide)
@[simp] theorem YDer_lpar {w : List String} : YDer SP "'('" w ↔ w = ["'('"] := YDer_tok_iff (by decide)
@[simp] theorem YDer_rpar {w : List String} : YDer SP "')'" w ↔ w = ["')'"] := YDer_tok_iff (by decide)

/-! ## the productions of each nonterminal (this is where `sgramm.y` enters) -/

theorem mem_file {rhs : List String} : ("file", rhs) ∈ SP ↔
    rhs = ["file", "terms", "opt_sem"] ∨ rhs = ["file", "rule"] ∨ rhs = ["terms", "opt_sem"] ∨
      rhs = ["rule"] := by
  simp [Generated.sgrammProds]
theorem mem_opt_sem {rhs : List String} : ("opt_sem", rhs) ∈ SP ↔ rhs = [] ∨ rhs = ["';'"] := by
  simp [Generated.sgrammProds]
theorem mem_terms {rhs : List String} : ("terms", rhs) ∈ SP ↔
    rhs = ["terms", "IDENT", "number"] ∨ rhs = ["TERM"] := by
  simp [Generated.sgrammProds]
theorem mem_number {rhs : List String} : ("number", rhs) ∈ SP ↔ rhs = [] ∨ rhs = ["'='", "NUMBER"] := by
  simp [Generated.sgrammProds]
theorem mem_rule {rhs : List String} : ("rule", rhs) ∈ SP ↔ rhs = ["SEM_IDENT", "rhs", "opt_sem"] := by
  simp [Generated.sgrammProds]
theorem mem_rhs {rhs : List String} : ("rhs", rhs) ∈ SP ↔ rhs = ["rhs", "'|'", "alt"] ∨ rhs = ["alt"] := by
  simp [Generated.sgrammProds]
theorem mem_alt {rhs : List String} : ("alt", rhs) ∈ SP ↔ rhs = ["seq", "trans"] := by
  simp [Generated.sgrammProds]
theorem mem_seq {rhs : List String} : ("seq", rhs) ∈ SP ↔
    rhs = ["seq", "IDENT"] ∨ rhs = ["seq", "CHAR"] ∨ rhs = [] := by
  simp [Generated.sgrammProds]
theorem mem_trans {rhs : List String} : ("trans", rhs) ∈ SP ↔
    rhs = [] ∨ rhs = ["'#'"] ∨ rhs = ["'#'", "NUMBER"] ∨ rhs = ["'#'", "'-'"] ∨
      rhs = ["'#'", "IDENT", "cost", "'('", "numbers", "')'"] ∨ rhs = ["'#'", "IDENT", "cost"] := by
  simp [Generated.sgrammProds]
theorem mem_numbers {rhs : List String} : ("numbers", rhs) ∈ SP ↔
    rhs = [] ∨ rhs = ["numbers", "NUMBER"] ∨ rhs = ["numbers", "'-'"] := by
  simp [Generated.sgrammProds]
theorem mem_cost {rhs : List String} : ("cost", rhs) ∈ SP ↔ rhs = [] ∨ rhs = ["NUMBER"] := by
  simp [Generated.sgrammProds]

/-! ## one-step inversion of every nonterminal -/

set_option linter.unusedSimpArgs false

private theorem ex_flat1 {α β : Type} {p : β → Prop} {f : β → α} {q : α → Prop} :
    (∃ x, (∃ y, p y ∧ x = f y) ∧ q x) ↔ ∃ y, p y ∧ q (f y) := by
  constructor
  · rintro ⟨_, ⟨y, hy, rfl⟩, hq⟩; exact ⟨y, hy, hq⟩
  · rintro ⟨y, hy, hq⟩; exact ⟨_, ⟨y, hy, rfl⟩, hq⟩

private theorem ex_flat2 {α β γ : Type} {p : β → Prop} {r : γ → Prop} {f : β → γ → α}
    {q : α → Prop} :
    (∃ x, (∃ y, p y ∧ ∃ z, r z ∧ x = f y z) ∧ q x) ↔ ∃ y, p y ∧ ∃ z, r z ∧ q (f y z) := by
  constructor
  · rintro ⟨_, ⟨y, hy, z, hz, rfl⟩, hq⟩; exact ⟨y, hy, z, hz, hq⟩
  · rintro ⟨y, hy, z, hz, hq⟩; exact ⟨_, ⟨y, hy, z, hz, rfl⟩, hq⟩

theorem file_inv {w : List String} : YDer SP "file" w ↔
    (∃ x y z, YDer SP "file" x ∧ YDer SP "terms" y ∧ YDer SP "opt_sem" z ∧ w = x ++ (y ++ z)) ∨
    (∃ x y, YDer SP "file" x ∧ YDer SP "rule" y ∧ w = x ++ y) ∨
    (∃ x y, YDer SP "terms" x ∧ YDer SP "opt_sem" y ∧ w = x ++ y) ∨ YDer SP "rule" w := by
  rw [YDer_nt_iff (by decide)]
  simp [mem_file, YDerSeq_cons_iff, YDerSeq_nil_iff, ex_flat1, ex_flat2]

theorem opt_sem_inv {w : List String} : YDer SP "opt_sem" w ↔ w = [] ∨ w = ["';'"] := by
  rw [YDer_nt_iff (by decide)]
  simp [mem_opt_sem, YDerSeq_cons_iff, YDerSeq_nil_iff, ex_flat1, ex_flat2]

theorem terms_inv {w : List String} : YDer SP "terms" w ↔
    (∃ x y, YDer SP "terms" x ∧ YDer SP "number" y ∧ w = x ++ "IDENT" :: y) ∨ w = ["TERM"] := by
  rw [YDer_nt_iff (by decide)]
  simp [mem_terms, YDerSeq_cons_iff, YDerSeq_nil_iff, ex_flat1, ex_flat2]

theorem number_inv {w : List String} : YDer SP "number" w ↔ w = [] ∨ w = ["'='", "NUMBER"] := by
  rw [YDer_nt_iff (by decide)]
  simp [mem_number, YDerSeq_cons_iff, YDerSeq_nil_iff, ex_flat1, ex_flat2]

theorem rule_inv {w : List String} : YDer SP "rule" w ↔
    ∃ x y, YDer SP "rhs" x ∧ YDer SP "opt_sem" y ∧ w = "SEM_IDENT" :: (x ++ y) := by
  rw [YDer_nt_iff (by decide)]
  simp [mem_rule, YDerSeq_cons_iff, YDerSeq_nil_iff, ex_flat1, ex_flat2]

theorem rhs_inv {w : List String} : YDer SP "rhs" w ↔
    (∃ x y, YDer SP "rhs" x ∧ YDer SP "alt" y ∧ w = x ++ "'|'" :: y) ∨ YDer SP "alt" w := by
  rw [YDer_nt_iff (by decide)]
  simp [mem_rhs, YDerSeq_cons_iff, YDerSeq_nil_iff, ex_flat1, ex_flat2]

theorem alt_inv {w : List String} : YDer SP "alt" w ↔
    ∃ x y, YDer SP "seq" x ∧ YDer SP "trans" y ∧ w = x ++ y := by
  rw [YDer_nt_iff (by decide)]
  simp [mem_alt, YDerSeq_cons_iff, YDerSeq_nil_iff, ex_flat1, ex_flat2]

theorem seq_inv {w : List String} : YDer SP "seq" w ↔
    (∃ x, YDer SP "seq" x ∧ w = x ++ ["IDENT"]) ∨ (∃ x, YDer SP "seq" x ∧ w = x ++ ["CHAR"]) ∨
      w = [] := by
  rw [YDer_nt_iff (by decide)]
  simp [mem_seq, YDerSeq_cons_iff, YDerSeq_nil_iff, ex_flat1, ex_flat2]

theorem trans_inv {w : List String} : YDer SP "trans" w ↔
    w = [] ∨ w = ["'#'"] ∨ w = ["'#'", "NUMBER"] ∨ w = ["'#'", "'-'"] ∨
    (∃ c n, YDer SP "cost" c ∧ YDer SP "numbers" n ∧
      w = "'#'" :: "IDENT" :: (c ++ "'('" :: (n ++ ["')'"]))) ∨
    (∃ c, YDer SP "cost" c ∧ w = "'#'" :: "IDENT" :: c) := by
  rw [YDer_nt_iff (by decide)]
  simp [mem_trans, YDerSeq_cons_iff, YDerSeq_nil_iff, ex_flat1, ex_flat2]

theorem numbers_inv {w : List String} : YDer SP "numbers" w ↔
    w = [] ∨ (∃ x, YDer SP "numbers" x ∧ w = x ++ ["NUMBER"]) ∨
      (∃ x, YDer SP "numbers" x ∧ w = x ++ ["'-'"]) := by
  rw [YDer_nt_iff (by decide)]
  simp [mem_numbers, YDerSeq_cons_iff, YDerSeq_nil_iff, ex_flat1, ex_flat2]

theorem cost_inv {w : List String} : YDer SP "cost" w ↔ w = [] ∨ w = ["NUMBER"] := by
  rw [YDer_nt_iff (by decide)]
  simp [mem_cost, YDerSeq_cons_iff, YDerSeq_nil_iff, ex_flat1, ex_flat2]



/-! ## token kinds of model tokens -/

theorem tokKind_sym (c : Char) : (tokKind (.sym c)).toList = ['\'', c, '\''] := by
  simp [tokKind]

theorem tokKind_IDENT {t : DTok} : tokKind t = "IDENT" ↔ ∃ n, t = .ident n := by
  cases t with
  | sym c => simp [tokKind, ← String.toList_inj]
  | _ => simp [tokKind]
theorem tokKind_SEM_IDENT {t : DTok} : tokKind t = "SEM_IDENT" ↔ ∃ n, t = .semIdent n := by
  cases t with
  | sym c => simp [tokKind, ← String.toList_inj]
  | _ => simp [tokKind]
theorem tokKind_CHAR {t : DTok} : tokKind t = "CHAR" ↔ ∃ c, t = .chr c := by
  cases t with
  | sym c => simp [tokKind, ← String.toList_inj]
  | _ => simp [tokKind]
theorem tokKind_NUMBER {t : DTok} : tokKind t = "NUMBER" ↔ ∃ k, t = .num k := by
  cases t with
  | sym c => simp [tokKind, ← String.toList_inj]
  | _ => simp [tokKind]
theorem tokKind_TERM {t : DTok} : tokKind t = "TERM" ↔ t = .term := by
  cases t with
  | sym c => simp [tokKind, ← String.toList_inj]
  | _ => simp [tokKind]
theorem tokKind_semi {t : DTok} : tokKind t = "';'" ↔ t = .sym ';' := by
  cases t with
  | sym c => simp [tokKind, ← String.toList_inj]
  | _ => simp [tokKind]
theorem tokKind_eq {t : DTok} : tokKind t = "'='" ↔ t = .sym '=' := by
  cases t with
  | sym c => simp [tokKind, ← String.toList_inj]
  | _ => simp [tokKind]
theorem tokKind_bar {t : DTok} : tokKind t = "'|'" ↔ t = .sym '|' := by
  cases t with
  | sym c => simp [tokKind, ← String.toList_inj]
  | _ => simp [tokKind]
theorem tokKind_hash {t : DTok} : tokKind t = "'#'" ↔ t = .sym '#' := by
  cases t with
  | sym c => simp [tokKind, ← String.toList_inj]
  | _ => simp [tokKind]
theorem tokKind_dash {t : DTok} : tokKind t = "'-'" ↔ t = .sym '-' := by
  cases t with
  | sym c => simp [tokKind, ← String.toList_inj]
  | _ => simp [tokKind]
theorem tokKind_lpar {t : DTok} : tokKind t = "'('" ↔ t = .sym '(' := by
  cases t with
  | sym c => simp [tokKind, ← String.toList_inj]
  | _ => simp [tokKind]
theorem tokKind_rpar {t : DTok} : tokKind t = "')'" ↔ t = .sym ')' := by
  cases t with
  | sym c => simp [tokKind, ← String.toList_inj]
  | _ => simp [tokKind]

/-! ## from kinds back to tokens -/

theorem K_cons {b : List DTok} {k : String} {w : List String} (h : K b = k :: w) :
    ∃ t b', b = t :: b' ∧ tokKind t = k ∧ K b' = w := List.map_eq_cons_iff.mp h
theorem K_app {b : List DTok} {x y : List String} (h : K b = x ++ y) :
    ∃ b1 b2, b = b1 ++ b2 ∧ K b1 = x ∧ K b2 = y := List.map_eq_append_iff.mp h
theorem K_nil {b : List DTok} (h : K b = []) : b = [] := List.map_eq_nil_iff.mp h

theorem K_cons_IDENT {b : List DTok} {w : List String} (h : K b = "IDENT" :: w) :
    ∃ n b', b = .ident n :: b' ∧ K b' = w := by
  obtain ⟨t, b', rfl, ht, e⟩ := K_cons h
  obtain ⟨n, rfl⟩ := tokKind_IDENT.mp ht
  exact ⟨n, b', rfl, e⟩
theorem K_cons_SEM_IDENT {b : List DTok} {w : List String} (h : K b = "SEM_IDENT" :: w) :
    ∃ n b', b = .semIdent n :: b' ∧ K b' = w := by
  obtain ⟨t, b', rfl, ht, e⟩ := K_cons h
  obtain ⟨n, rfl⟩ := tokKind_SEM_IDENT.mp ht
  exact ⟨n, b', rfl, e⟩
theorem K_cons_CHAR {b : List DTok} {w : List String} (h : K b = "CHAR" :: w) :
    ∃ c b', b = .chr c :: b' ∧ K b' = w := by
  obtain ⟨t, b', rfl, ht, e⟩ := K_cons h
  obtain ⟨c, rfl⟩ := tokKind_CHAR.mp ht
  exact ⟨c, b', rfl, e⟩
theorem K_cons_NUMBER {b : List DTok} {w : List String} (h : K b = "NUMBER" :: w) :
    ∃ k b', b = .num k :: b' ∧ K b' = w := by
  obtain ⟨t, b', rfl, ht, e⟩ := K_cons h
  obtain ⟨k, rfl⟩ := tokKind_NUMBER.mp ht
  exact ⟨k, b', rfl, e⟩
theorem K_cons_TERM {b : List DTok} {w : List String} (h : K b = "TERM" :: w) :
    ∃ b', b = .term :: b' ∧ K b' = w := by
  obtain ⟨t, b', rfl, ht, e⟩ := K_cons h
  have := tokKind_TERM.mp ht; subst this
  exact ⟨b', rfl, e⟩
theorem K_cons_semi {b : List DTok} {w : List String} (h : K b = "';'" :: w) :
    ∃ b', b = .sym ';' :: b' ∧ K b' = w := by
  obtain ⟨t, b', rfl, ht, e⟩ := K_cons h
  have := tokKind_semi.mp ht; subst this
  exact ⟨b', rfl, e⟩
theorem K_cons_eq {b : List DTok} {w : List String} (h : K b = "'='" :: w) :
    ∃ b', b = .sym '=' :: b' ∧ K b' = w := by
  obtain ⟨t, b', rfl, ht, e⟩ := K_cons h
  have := tokKind_eq.mp ht; subst this
  exact ⟨b', rfl, e⟩
theorem K_cons_bar {b : List DTok} {w : List String} (h : K b = "'|'" :: w) :
    ∃ b', b = .sym '|' :: b' ∧ K b' = w := by
  obtain ⟨t, b', rfl, ht, e⟩ := K_cons h
  have := tokKind_bar.mp ht; subst this
  exact ⟨b', rfl, e⟩
theorem K_cons_hash {b : List DTok} {w : List String} (h : K b = "'#'" :: w) :
    ∃ b', b = .sym '#' :: b' ∧ K b' = w := by
  obtain ⟨t, b', rfl, ht, e⟩ := K_cons h
  have := tokKind_hash.mp ht; subst this
  exact ⟨b', rfl, e⟩
theorem K_cons_dash {b : List DTok} {w : List String} (h : K b = "'-'" :: w) :
    ∃ b', b = .sym '-' :: b' ∧ K b' = w := by
  obtain ⟨t, b', rfl, ht, e⟩ := K_cons h
  have := tokKind_dash.mp ht; subst this
  exact ⟨b', rfl, e⟩
theorem K_cons_lpar {b : List DTok} {w : List String} (h : K b = "'('" :: w) :
    ∃ b', b = .sym '(' :: b' ∧ K b' = w := by
  obtain ⟨t, b', rfl, ht, e⟩ := K_cons h
  have := tokKind_lpar.mp ht; subst this
  exact ⟨b', rfl, e⟩
theorem K_cons_rpar {b : List DTok} {w : List String} (h : K b = "')'" :: w) :
    ∃ b', b = .sym ')' :: b' ∧ K b' = w := by
  obtain ⟨t, b', rfl, ht, e⟩ := K_cons h
  have := tokKind_rpar.mp ht; subst this
  exact ⟨b', rfl, e⟩

/-! ## completeness, part 1: a derivable token sequence is the token list of an abstract description -/

theorem numbers_nf (b : List DTok) (h : YDer SP "numbers" (K b)) :
    ∃ l : List (Option Nat), b = l.map argTok := by
  rw [numbers_inv] at h
  rcases h with e | ⟨x, hx, e⟩ | ⟨x, hx, e⟩
  · exact ⟨[], by simp [K_nil e]⟩
  · obtain ⟨b1, b2, rfl, rfl, e2⟩ := K_app e
    obtain ⟨k, b', rfl, e3⟩ := K_cons_NUMBER e2
    have := K_nil e3; subst this
    obtain ⟨l, rfl⟩ := numbers_nf b1 hx
    exact ⟨l ++ [some k], by simp [argTok]⟩
  · obtain ⟨b1, b2, rfl, rfl, e2⟩ := K_app e
    obtain ⟨b', rfl, e3⟩ := K_cons_dash e2
    have := K_nil e3; subst this
    obtain ⟨l, rfl⟩ := numbers_nf b1 hx
    exact ⟨l ++ [none], by simp [argTok]⟩
termination_by b.length
decreasing_by all_goals simp_all

theorem seq_nf (b : List DTok) (h : YDer SP "seq" (K b)) :
    ∃ syms : List RhsSym, b = syms.map rhsSymTok := by
  rw [seq_inv] at h
  rcases h with ⟨x, hx, e⟩ | ⟨x, hx, e⟩ | e
  · obtain ⟨b1, b2, rfl, rfl, e2⟩ := K_app e
    obtain ⟨n, b', rfl, e3⟩ := K_cons_IDENT e2
    have := K_nil e3; subst this
    obtain ⟨l, rfl⟩ := seq_nf b1 hx
    exact ⟨l ++ [.ident n], by simp [rhsSymTok]⟩
  · obtain ⟨b1, b2, rfl, rfl, e2⟩ := K_app e
    obtain ⟨c, b', rfl, e3⟩ := K_cons_CHAR e2
    have := K_nil e3; subst this
    obtain ⟨l, rfl⟩ := seq_nf b1 hx
    exact ⟨l ++ [.chr c], by simp [rhsSymTok]⟩
  · exact ⟨[], by simp [K_nil e]⟩
termination_by b.length
decreasing_by all_goals simp_all

def costToks : Option Nat → List DTok
  | some k => [.num k]
  | none => []

theorem cost_nf (b : List DTok) (h : YDer SP "cost" (K b)) : ∃ c, b = costToks c := by
  rw [cost_inv] at h
  rcases h with e | e
  · exact ⟨none, K_nil e⟩
  · obtain ⟨k, b', rfl, e3⟩ := K_cons_NUMBER e
    have := K_nil e3; subst this
    exact ⟨some k, rfl⟩

theorem trans_nf (b : List DTok) (h : YDer SP "trans" (K b)) : ∃ tr, b = transToks tr := by
  rw [trans_inv] at h
  rcases h with e | e | e | e | ⟨c, n, hc, hn, e⟩ | ⟨c, hc, e⟩
  · exact ⟨.none, K_nil e⟩
  · obtain ⟨b1, rfl, e1⟩ := K_cons_hash e
    have := K_nil e1; subst this
    exact ⟨.hash, rfl⟩
  · obtain ⟨b1, rfl, e1⟩ := K_cons_hash e
    obtain ⟨k, b2, rfl, e2⟩ := K_cons_NUMBER e1
    have := K_nil e2; subst this
    exact ⟨.num k, rfl⟩
  · obtain ⟨b1, rfl, e1⟩ := K_cons_hash e
    obtain ⟨b2, rfl, e2⟩ := K_cons_dash e1
    have := K_nil e2; subst this
    exact ⟨.dash, rfl⟩
  · obtain ⟨b1, rfl, e1⟩ := K_cons_hash e
    obtain ⟨a, b2, rfl, e2⟩ := K_cons_IDENT e1
    obtain ⟨b3, b4, rfl, rfl, e3⟩ := K_app e2
    obtain ⟨b5, rfl, e4⟩ := K_cons_lpar e3
    obtain ⟨b6, b7, rfl, rfl, e5⟩ := K_app e4
    obtain ⟨b8, rfl, e6⟩ := K_cons_rpar e5
    have := K_nil e6; subst this
    obtain ⟨co, rfl⟩ := cost_nf _ hc
    obtain ⟨l, rfl⟩ := numbers_nf _ hn
    refine ⟨.anode a co (some l), ?_⟩
    cases co <;> simp [transToks, costToks]
  · obtain ⟨b1, rfl, e1⟩ := K_cons_hash e
    obtain ⟨a, b2, rfl, rfl⟩ := K_cons_IDENT e1
    obtain ⟨co, rfl⟩ := cost_nf _ hc
    refine ⟨.anode a co none, ?_⟩
    cases co <;> simp [transToks, costToks]

theorem alt_nf (b : List DTok) (h : YDer SP "alt" (K b)) : ∃ al, b = altToks al := by
  rw [alt_inv] at h
  obtain ⟨x, y, hx, hy, e⟩ := h
  obtain ⟨b1, b2, rfl, rfl, rfl⟩ := K_app e
  obtain ⟨syms, rfl⟩ := seq_nf _ hx
  obtain ⟨tr, rfl⟩ := trans_nf _ hy
  exact ⟨⟨syms, tr⟩, rfl⟩

theorem altsToks_snoc (alts : List Alt) (hne : alts ≠ []) (al : Alt) :
    altsToks (alts ++ [al]) = altsToks alts ++ .sym '|' :: altToks al := by
  induction alts with
  | nil => exact absurd rfl hne
  | cons a rest ih =>
    cases rest with
    | nil => simp [altsToks]
    | cons a2 rest2 =>
      have := ih (by simp)
      simp only [List.cons_append] at this ⊢
      simp [altsToks, this]

theorem rhs_nf (b : List DTok) (h : YDer SP "rhs" (K b)) :
    ∃ alts, alts ≠ [] ∧ b = altsToks alts := by
  rw [rhs_inv] at h
  rcases h with ⟨x, y, hx, hy, e⟩ | h
  · obtain ⟨b1, b2, rfl, rfl, e1⟩ := K_app e
    obtain ⟨b3, rfl, rfl⟩ := K_cons_bar e1
    obtain ⟨alts, hne, rfl⟩ := rhs_nf b1 hx
    obtain ⟨al, rfl⟩ := alt_nf _ hy
    exact ⟨alts ++ [al], by simp, (altsToks_snoc alts hne al).symm⟩
  · obtain ⟨al, rfl⟩ := alt_nf _ h
    exact ⟨[al], by simp, rfl⟩
termination_by b.length
decreasing_by all_goals simp_all

def semiToks (fl : Bool) : List DTok := if fl then [.sym ';'] else []

theorem opt_sem_nf (b : List DTok) (h : YDer SP "opt_sem" (K b)) : ∃ fl, b = semiToks fl := by
  rw [opt_sem_inv] at h
  rcases h with e | e
  · exact ⟨false, K_nil e⟩
  · obtain ⟨b1, rfl, e1⟩ := K_cons_semi e
    have := K_nil e1; subst this
    exact ⟨true, rfl⟩

theorem rule_nf (b : List DTok) (h : YDer SP "rule" (K b)) :
    ∃ lhs alts fl, alts ≠ [] ∧ b = itemToks (.rule lhs alts) ++ semiToks fl := by
  rw [rule_inv] at h
  obtain ⟨x, y, hx, hy, e⟩ := h
  obtain ⟨lhs, b0, rfl, e1⟩ := K_cons_SEM_IDENT e
  obtain ⟨b1, b2, rfl, rfl, rfl⟩ := K_app e1
  obtain ⟨alts, hne, rfl⟩ := rhs_nf _ hx
  obtain ⟨fl, rfl⟩ := opt_sem_nf _ hy
  exact ⟨lhs, alts, fl, hne, rfl⟩

theorem declToks_append (d1 d2 : List (String × Option Nat)) :
    declToks (d1 ++ d2) = declToks d1 ++ declToks d2 := by
  induction d1 with
  | nil => rfl
  | cons p ds ih =>
    obtain ⟨n, k⟩ := p
    cases k <;> simp [declToks, ih]

theorem terms_nf (b : List DTok) (h : YDer SP "terms" (K b)) :
    ∃ decls, b = itemToks (.terms decls) := by
  rw [terms_inv] at h
  rcases h with ⟨x, y, hx, hy, e⟩ | e
  · obtain ⟨b1, b2, rfl, rfl, e1⟩ := K_app e
    obtain ⟨n, b3, rfl, rfl⟩ := K_cons_IDENT e1
    obtain ⟨decls, rfl⟩ := terms_nf b1 hx
    rw [number_inv] at hy
    rcases hy with e2 | e2
    · have := K_nil e2; subst this
      exact ⟨decls ++ [(n, none)], by simp [itemToks, declToks_append, declToks]⟩
    · obtain ⟨b4, rfl, e3⟩ := K_cons_eq e2
      obtain ⟨k, b5, rfl, e4⟩ := K_cons_NUMBER e3
      have := K_nil e4; subst this
      exact ⟨decls ++ [(n, some k)], by simp [itemToks, declToks_append, declToks]⟩
  · obtain ⟨b1, rfl, e1⟩ := K_cons_TERM e
    have := K_nil e1; subst this
    exact ⟨[], rfl⟩
termination_by b.length
decreasing_by all_goals simp_all

/-- the tokens of a list of items, each with its own optional `;` -/
def itemsFlat : List (DItem × Bool) → List DTok
  | [] => []
  | (it, fl) :: rest => itemToks it ++ semiToks fl ++ itemsFlat rest

theorem itemsFlat_append (l1 l2 : List (DItem × Bool)) :
    itemsFlat (l1 ++ l2) = itemsFlat l1 ++ itemsFlat l2 := by
  induction l1 with
  | nil => rfl
  | cons p rest ih => obtain ⟨it, fl⟩ := p; simp [itemsFlat, ih]

def AltsNe (items : List (DItem × Bool)) : Prop :=
  ∀ lhs alts fl, (DItem.rule lhs alts, fl) ∈ items → alts ≠ []

theorem file_nf (b : List DTok) (h : YDer SP "file" (K b)) :
    ∃ items, items ≠ [] ∧ AltsNe items ∧ b = itemsFlat items := by
  rw [file_inv] at h
  rcases h with ⟨x, y, z, hx, hy, hz, e⟩ | ⟨x, y, hx, hy, e⟩ | ⟨x, y, hx, hy, e⟩ | h
  · obtain ⟨b1, b2, rfl, rfl, e1⟩ := K_app e
    obtain ⟨b3, b4, rfl, rfl, rfl⟩ := K_app e1
    obtain ⟨decls, rfl⟩ := terms_nf _ hy
    obtain ⟨fl, rfl⟩ := opt_sem_nf _ hz
    obtain ⟨items, hne, hal, rfl⟩ := file_nf b1 hx
    refine ⟨items ++ [(.terms decls, fl)], by simp, ?_, by simp [itemsFlat_append, itemsFlat]⟩
    intro lhs alts fl' hm
    simp at hm
    exact hal lhs alts fl' hm
  · obtain ⟨b1, b2, rfl, rfl, rfl⟩ := K_app e
    obtain ⟨lhs, alts, fl, hne2, rfl⟩ := rule_nf _ hy
    obtain ⟨items, hne, hal, rfl⟩ := file_nf b1 hx
    refine ⟨items ++ [(.rule lhs alts, fl)], by simp, ?_, by simp [itemsFlat_append, itemsFlat]⟩
    intro lhs' alts' fl' hm
    simp at hm
    rcases hm with hm | ⟨⟨rfl, rfl⟩, rfl⟩
    · exact hal lhs' alts' fl' hm
    · exact hne2
  · obtain ⟨b1, b2, rfl, rfl, rfl⟩ := K_app e
    obtain ⟨decls, rfl⟩ := terms_nf _ hx
    obtain ⟨fl, rfl⟩ := opt_sem_nf _ hy
    refine ⟨[(.terms decls, fl)], by simp, ?_, by simp [itemsFlat]⟩
    intro lhs alts fl' hm
    simp at hm
  · obtain ⟨lhs, alts, fl, hne2, rfl⟩ := rule_nf _ h
    refine ⟨[(.rule lhs alts, fl)], by simp, ?_, by simp [itemsFlat]⟩
    intro lhs' alts' fl' hm
    simp at hm
    obtain ⟨⟨rfl, rfl⟩, rfl⟩ := hm
    exact hne2
termination_by b.length
decreasing_by
  all_goals simp_all [itemToks]
  all_goals omega

/-! ## completeness, part 2: `parseFile` accepts the token list of an abstract description -/

theorem itemsToks_congr (s s' : Nat → Bool) (items : DescrAST) :
    ∀ i, (∀ j, i ≤ j → s j = s' j) → itemsToks s i items = itemsToks s' i items := by
  induction items with
  | nil => intro i _; rfl
  | cons it rest ih =>
    intro i h
    simp only [itemsToks]
    rw [h i (Nat.le_refl _), ih (i + 1) (fun j hj => h j (by omega))]

theorem itemsFlat_eq_itemsToks (items : List (DItem × Bool)) :
    ∀ i, ∃ semi, itemsToks semi i (items.map Prod.fst) = itemsFlat items := by
  induction items with
  | nil => intro i; exact ⟨fun _ => false, rfl⟩
  | cons p rest ih =>
    intro i
    obtain ⟨it, fl⟩ := p
    obtain ⟨semi', h'⟩ := ih (i + 1)
    refine ⟨fun j => if j = i then fl else semi' j, ?_⟩
    simp only [List.map_cons, itemsToks, itemsFlat, if_pos, semiToks]
    rw [itemsToks_congr _ semi' _ (i + 1) (fun j hj => by simp; omega), h']

theorem length_le_itemsFlat (items : List (DItem × Bool)) :
    items.length ≤ (itemsFlat items).length := by
  induction items with
  | nil => exact Nat.le_refl _
  | cons p rest ih =>
    obtain ⟨it, fl⟩ := p
    cases it <;> simp [itemsFlat, itemToks] <;> omega

/-- a sentence of `sgramm.y` is accepted -/
theorem parseFile_complete (body : List DTok) (h : YDer SP "file" (K body)) (fuel : Nat)
    (hf : body.length < fuel) :
    ∃ a, parseFile fuel true (body ++ [.eof]) {} = some a := by
  obtain ⟨items, hne, hal, rfl⟩ := file_nf body h
  obtain ⟨semi, hs⟩ := itemsFlat_eq_itemsToks items 0
  rw [← hs]
  refine ⟨_, parseFile_items semi (items.map Prod.fst) 0 fuel true {} ?_ ?_ ?_⟩
  · have := length_le_itemsFlat items
    simp only [List.length_map]; omega
  · intro _; simpa using hne
  · intro lhs alts hm
    obtain ⟨⟨it, fl⟩, hm', rfl⟩ := List.mem_map.mp hm
    exact hal lhs alts fl hm'



/-! ## soundness: what the parser functions consume is derivable -/

theorem kind_num (k : Nat) : tokKind (.num k) = "NUMBER" := rfl
theorem kind_dash : tokKind (.sym '-') = "'-'" := by decide

theorem parseNumbers_sound : ∀ (f : Nat) (ts : List DTok) (acc : List Nat) (rest : List DTok)
    (acc' : List Nat) (pre : List DTok), YDer SP "numbers" (K pre) →
    parseNumbers f ts acc = (rest, acc') →
    ∃ b, ts = b ++ rest ∧ YDer SP "numbers" (K (pre ++ b)) := by
  intro f
  induction f with
  | zero =>
    intro ts acc rest acc' pre hp h
    simp only [parseNumbers, Prod.mk.injEq] at h
    exact ⟨[], by simp [h.1], by simpa using hp⟩
  | succ f ih =>
    intro ts acc rest acc' pre hp h
    unfold parseNumbers at h
    split at h
    next => omega
    next f' k r heq =>
      obtain rfl : f' = f := by omega
      have hp' : YDer SP "numbers" (K (pre ++ [.num k])) := by
        rw [numbers_inv]; exact Or.inr (Or.inl ⟨K pre, hp, by simp [kind_num]⟩)
      obtain ⟨b, rfl, hb⟩ := ih _ _ _ _ _ hp' h
      exact ⟨.num k :: b, rfl, by simpa using hb⟩
    next f' r heq =>
      obtain rfl : f' = f := by omega
      have hp' : YDer SP "numbers" (K (pre ++ [.sym '-'])) := by
        rw [numbers_inv]; exact Or.inr (Or.inr ⟨K pre, hp, by simp [kind_dash]⟩)
      obtain ⟨b, rfl, hb⟩ := ih _ _ _ _ _ hp' h
      exact ⟨.sym '-' :: b, rfl, by simpa using hb⟩
    next =>
      simp only [Prod.mk.injEq] at h
      exact ⟨[], by simp [h.1], by simpa using hp⟩

theorem parseSeq_sound : ∀ (f : Nat) (ts : List DTok) (rhs : List String) (st : List STerm)
    (rest : List DTok) (rhs' : List String) (st' : List STerm) (pre : List DTok),
    YDer SP "seq" (K pre) → parseSeq f ts rhs st = (rest, rhs', st') →
    ∃ b, ts = b ++ rest ∧ YDer SP "seq" (K (pre ++ b)) := by
  intro f
  induction f with
  | zero =>
    intro ts rhs st rest rhs' st' pre hp h
    simp only [parseSeq, Prod.mk.injEq] at h
    exact ⟨[], by simp [h.1], by simpa using hp⟩
  | succ f ih =>
    intro ts rhs st rest rhs' st' pre hp h
    unfold parseSeq at h
    split at h
    next => omega
    next f' n r heq =>
      obtain rfl : f' = f := by omega
      have hp' : YDer SP "seq" (K (pre ++ [.ident n])) := by
        rw [seq_inv]; exact Or.inl ⟨K pre, hp, by simp [tokKind]⟩
      obtain ⟨b, rfl, hb⟩ := ih _ _ _ _ _ _ _ hp' h
      exact ⟨.ident n :: b, rfl, by simpa using hb⟩
    next f' c r heq =>
      obtain rfl : f' = f := by omega
      have hp' : YDer SP "seq" (K (pre ++ [.chr c])) := by
        rw [seq_inv]; exact Or.inr (Or.inl ⟨K pre, hp, by simp [tokKind]⟩)
      obtain ⟨b, rfl, hb⟩ := ih _ _ _ _ _ _ _ hp' h
      exact ⟨.chr c :: b, rfl, by simpa using hb⟩
    next =>
      simp only [Prod.mk.injEq] at h
      exact ⟨[], by simp [h.1], by simpa using hp⟩

theorem parseTermDecls_sound : ∀ (f : Nat) (ts : List DTok) (a : DescrAcc) (rest : List DTok)
    (a' : DescrAcc) (pre : List DTok), YDer SP "terms" (K pre) →
    parseTermDecls f ts a = some (rest, a') →
    ∃ b, ts = b ++ rest ∧ YDer SP "terms" (K (pre ++ b)) := by
  intro f
  induction f with
  | zero =>
    intro ts a rest a' pre hp h
    simp [parseTermDecls] at h
  | succ f ih =>
    intro ts a rest a' pre hp h
    unfold parseTermDecls at h
    split at h
    next => omega
    next f' n k r heq =>
      obtain rfl : f' = f := by omega
      have hp' : YDer SP "terms" (K (pre ++ [.ident n, .sym '=', .num k])) := by
        rw [terms_inv]
        refine Or.inl ⟨K pre, ["'='", "NUMBER"], hp, ?_, ?_⟩
        · rw [number_inv]; exact Or.inr rfl
        · simp only [List.map_append]; rfl
      obtain ⟨b, rfl, hb⟩ := ih _ _ _ _ _ hp' h
      exact ⟨.ident n :: .sym '=' :: .num k :: b, rfl, by simpa using hb⟩
    next => cases h
    next f' n r _ _ heq =>
      obtain rfl : f' = f := by omega
      have hp' : YDer SP "terms" (K (pre ++ [.ident n])) := by
        rw [terms_inv]
        refine Or.inl ⟨K pre, [], hp, ?_, ?_⟩
        · rw [number_inv]; exact Or.inl rfl
        · simp only [List.map_append]; rfl
      obtain ⟨b, rfl, hb⟩ := ih _ _ _ _ _ hp' h
      exact ⟨.ident n :: b, rfl, by simpa using hb⟩
    next =>
      simp only [Option.some.injEq, Prod.mk.injEq] at h
      exact ⟨[], by simp [h.1], by simpa using hp⟩

theorem kind_hash : tokKind (.sym '#') = "'#'" := by decide
theorem kind_lpar : tokKind (.sym '(') = "'('" := by decide
theorem kind_rpar : tokKind (.sym ')') = "')'" := by decide
theorem kind_bar : tokKind (.sym '|') = "'|'" := by decide
theorem kind_semi : tokKind (.sym ';') = "';'" := by decide
theorem kind_eq : tokKind (.sym '=') = "'='" := by decide

theorem parseTrans_sound (f : Nat) (ts rest : List DTok) (an : Option String) (c : Int)
    (tr : List Nat) (h : parseTrans f ts = some (rest, an, c, tr)) :
    ∃ b, ts = b ++ rest ∧ YDer SP "trans" (K b) := by
  unfold parseTrans at h
  split at h
  next k r =>
    simp only [Option.some.injEq, Prod.mk.injEq] at h
    obtain ⟨rfl, -⟩ := h
    exact ⟨[.sym '#', .num k], rfl, trans_inv.mpr (Or.inr (Or.inr (Or.inl rfl)))⟩
  next r =>
    simp only [Option.some.injEq, Prod.mk.injEq] at h
    obtain ⟨rfl, -⟩ := h
    exact ⟨[.sym '#', .sym '-'], rfl, trans_inv.mpr (Or.inr (Or.inr (Or.inr (Or.inl rfl))))⟩
  next a r =>
    split at h
    next r1 cost heq =>
      have hc : ∃ cb, r = cb ++ r1 ∧ YDer SP "cost" (K cb) := by
        split at heq
        next k r' =>
          simp only [Prod.mk.injEq] at heq
          obtain ⟨rfl, -⟩ := heq
          exact ⟨[.num k], rfl, cost_inv.mpr (Or.inr rfl)⟩
        next =>
          simp only [Prod.mk.injEq] at heq
          obtain ⟨rfl, -⟩ := heq
          exact ⟨[], rfl, cost_inv.mpr (Or.inl rfl)⟩
      obtain ⟨cb, rfl, hcb⟩ := hc
      split at h
      next r2 =>
        split at h
        next r3 nums heq2 =>
          split at h
          next r4 =>
            simp only [Option.some.injEq, Prod.mk.injEq] at h
            obtain ⟨rfl, -⟩ := h
            obtain ⟨nb, rfl, hnb⟩ := parseNumbers_sound f r2 [] _ _ []
              (numbers_inv.mpr (Or.inl rfl)) heq2
            refine ⟨.sym '#' :: .ident a :: (cb ++ .sym '(' :: (nb ++ [.sym ')'])), by simp, ?_⟩
            rw [trans_inv]
            refine Or.inr (Or.inr (Or.inr (Or.inr (Or.inl ⟨K cb, K nb, hcb, by simpa using hnb, ?_⟩))))
            simp [tokKind]
          next => cases h
      next =>
        simp only [Option.some.injEq, Prod.mk.injEq] at h
        obtain ⟨rfl, -⟩ := h
        refine ⟨.sym '#' :: .ident a :: cb, by simp, ?_⟩
        rw [trans_inv]
        refine Or.inr (Or.inr (Or.inr (Or.inr (Or.inr ⟨K cb, hcb, ?_⟩))))
        simp [tokKind]
  next r _ _ _ =>
    simp only [Option.some.injEq, Prod.mk.injEq] at h
    obtain ⟨rfl, -⟩ := h
    exact ⟨[.sym '#'], rfl, trans_inv.mpr (Or.inr (Or.inl rfl))⟩
  next =>
    simp only [Option.some.injEq, Prod.mk.injEq] at h
    obtain ⟨rfl, -⟩ := h
    exact ⟨[], rfl, trans_inv.mpr (Or.inl rfl)⟩

/-- what precedes an alternative inside a `rhs`: nothing, or a `rhs` and `|` -/
def RhsPre (pre : List DTok) : Prop :=
  pre = [] ∨ ∃ p, pre = p ++ [.sym '|'] ∧ YDer SP "rhs" (K p)

theorem RhsPre.alt {pre x : List DTok} (hp : RhsPre pre) (hx : YDer SP "alt" (K x)) :
    YDer SP "rhs" (K (pre ++ x)) := by
  rcases hp with rfl | ⟨p, rfl, hp⟩
  · exact rhs_inv.mpr (Or.inr hx)
  · exact rhs_inv.mpr (Or.inl ⟨K p, K x, hp, hx, by simp [tokKind]⟩)

theorem parseAlts_sound : ∀ (f : Nat) (lhs : String) (ts : List DTok) (a : DescrAcc)
    (rest : List DTok) (a' : DescrAcc) (pre : List DTok), RhsPre pre →
    parseAlts f lhs ts a = some (rest, a') →
    ∃ b, ts = b ++ rest ∧ YDer SP "rhs" (K (pre ++ b)) := by
  intro f
  induction f with
  | zero =>
    intro lhs ts a rest a' pre hp h
    simp [parseAlts] at h
  | succ f ih =>
    intro lhs ts a rest a' pre hp h
    unfold parseAlts at h
    split at h
    next ts1 rhs1 st1 hseq =>
      obtain ⟨sb, rfl, hsb⟩ := parseSeq_sound _ _ _ _ _ _ _ [] (seq_inv.mpr (Or.inr (Or.inr rfl))) hseq
      split at h
      next => cases h
      next ts2 anode cost tr htr =>
        obtain ⟨tb, rfl, htb⟩ := parseTrans_sound _ _ _ _ _ _ htr
        have halt : YDer SP "alt" (K (sb ++ tb)) :=
          alt_inv.mpr ⟨K sb, K tb, by simpa using hsb, htb, by simp⟩
        have hrhs := hp.alt halt
        simp only at h
        split at h
        next r =>
          have hp' : RhsPre (pre ++ (sb ++ tb) ++ [.sym '|']) := Or.inr ⟨_, rfl, hrhs⟩
          obtain ⟨b, rfl, hb⟩ := ih _ _ _ _ _ _ hp' h
          exact ⟨sb ++ tb ++ .sym '|' :: b, by simp, by simpa using hb⟩
        next =>
          simp only [Option.some.injEq, Prod.mk.injEq] at h
          obtain ⟨rfl, -⟩ := h
          exact ⟨sb ++ tb, by simp, hrhs⟩

theorem optSem_sound (ts : List DTok) :
    ∃ s, ts = s ++ optSem ts ∧ YDer SP "opt_sem" (K s) := by
  unfold optSem
  split
  next r => exact ⟨[.sym ';'], rfl, opt_sem_inv.mpr (Or.inr rfl)⟩
  next => exact ⟨[], rfl, opt_sem_inv.mpr (Or.inl rfl)⟩

/-- what precedes an item of the file: nothing (only at the beginning), or a `file` -/
def FilePre (first : Bool) (pre : List DTok) : Prop :=
  (first = true ∧ pre = []) ∨ YDer SP "file" (K pre)

theorem FilePre.terms {first : Bool} {pre x s : List DTok} (hp : FilePre first pre)
    (hx : YDer SP "terms" (K x)) (hs : YDer SP "opt_sem" (K s)) :
    YDer SP "file" (K (pre ++ (x ++ s))) := by
  rcases hp with ⟨-, rfl⟩ | hp
  · exact file_inv.mpr (Or.inr (Or.inr (Or.inl ⟨K x, K s, hx, hs, by simp⟩)))
  · exact file_inv.mpr (Or.inl ⟨K pre, K x, K s, hp, hx, hs, by simp⟩)

theorem FilePre.rule {first : Bool} {pre x : List DTok} (hp : FilePre first pre)
    (hx : YDer SP "rule" (K x)) : YDer SP "file" (K (pre ++ x)) := by
  rcases hp with ⟨-, rfl⟩ | hp
  · exact file_inv.mpr (Or.inr (Or.inr (Or.inr hx)))
  · exact file_inv.mpr (Or.inr (Or.inl ⟨K pre, K x, hp, hx, by simp⟩))

theorem parseFile_sound : ∀ (f : Nat) (first : Bool) (ts : List DTok) (a a' : DescrAcc)
    (pre : List DTok), FilePre first pre → parseFile f first ts a = some a' →
    ∃ b, ts = b ++ [.eof] ∧ YDer SP "file" (K (pre ++ b)) := by
  intro f
  induction f with
  | zero =>
    intro first ts a a' pre hp h
    simp [parseFile] at h
  | succ f ih =>
    intro first ts a a' pre hp h
    unfold parseFile at h
    split at h
    next rest0 =>
      split at h
      next r2 a2 hd =>
        obtain ⟨d, rfl, hdd⟩ := parseTermDecls_sound _ _ _ _ _ [.term] (terms_inv.mpr (Or.inr rfl)) hd
        obtain ⟨s, hs, hss⟩ := optSem_sound r2
        have hfile := hp.terms hdd hss
        obtain ⟨b, hb, hbb⟩ := ih _ _ _ _ _ (Or.inr hfile) h
        refine ⟨.term :: d ++ s ++ b, ?_, by simpa using hbb⟩
        rw [hs, hb]; simp
      next => cases h
    next lhs rest0 =>
      split at h
      next r2 a2 hd =>
        obtain ⟨d, rfl, hdd⟩ := parseAlts_sound _ _ _ _ _ _ [] (Or.inl rfl) hd
        obtain ⟨s, hs, hss⟩ := optSem_sound r2
        have hrule : YDer SP "rule" (K (.semIdent lhs :: (d ++ s))) :=
          rule_inv.mpr ⟨K d, K s, by simpa using hdd, hss, by simp [tokKind]⟩
        have hfile := hp.rule hrule
        obtain ⟨b, hb, hbb⟩ := ih _ _ _ _ _ (Or.inr hfile) h
        refine ⟨.semIdent lhs :: d ++ s ++ b, ?_, by simpa using hbb⟩
        rw [hs, hb]; simp
      next => cases h
    next =>
      split at h
      next => cases h
      next hf =>
        rcases hp with ⟨h1, -⟩ | hp
        · exact absurd h1 hf
        · exact ⟨[], rfl, by simpa using hp⟩
    next => cases h

/-- an accepted token sequence is a sentence of `sgramm.y` -/
theorem parseFile_sound' (f : Nat) (body : List DTok) (a : DescrAcc)
    (h : parseFile f true (body ++ [.eof]) {} = some a) : YDer SP "file" (K body) := by
  obtain ⟨b, hb, hbb⟩ := parseFile_sound f true _ _ _ [] (Or.inl ⟨rfl, rfl⟩) h
  have := List.append_cancel_right hb
  subst this
  simpa using hbb



/-! ## the shape of the lexer output -/

theorem lexDescr_shape_acc : ∀ (fuel : Nat) (text : List UInt8) (acc toks : List DTok),
    DTok.eof ∉ acc → lexDescr fuel text acc = some toks →
    ∃ body, toks = body ++ [.eof] ∧ DTok.eof ∉ body := by
  intro fuel
  induction fuel with
  | zero => intro text acc toks _ h; simp [lexDescr] at h
  | succ f ih =>
    intro text acc toks hacc h
    have hstep : ∀ t, t ≠ DTok.eof → DTok.eof ∉ acc ++ [t] := by
      intro t ht hm
      rcases List.mem_append.mp hm with hm | hm
      · exact hacc hm
      · simp at hm; exact ht hm.symm
    cases text with
    | nil =>
      simp only [lexDescr, Option.some.injEq] at h
      exact ⟨acc, h.symm, hacc⟩
    | cons c rest =>
      unfold lexDescr at h
      repeat' split at h
      all_goals first
        | cases h; done
        | exact ⟨acc, (Option.some.inj h).symm, hacc⟩
        | exact ih _ _ _ hacc h
        | exact ih _ _ _ (hstep _ (by simp)) h
        | skip
      all_goals (dsimp only at h; repeat' split at h)
      all_goals first
        | cases h; done
        | exact ih _ _ _ (hstep _ (by simp)) h

end Yaep
