import Yaep.Lemmas.LaIndep2List
import Yaep.Lemmas.LaIndep2Rel
import Yaep.Lemmas.BuildSet2PL
import Yaep.Lemmas.LaIndepNewSet
/-!
# Lookahead independence at level 2, list part 2: a stored level-2 set as a list of pairs

`tg2 cs`: the situations (with contexts) of the stored set `cs` with their distances, in the order of the core;
`projSet cs`: the set without contexts (a `BS.CSet`), `tg (projSet cs) = (tg2 cs).map projP`.

The context of a situation of a set of the parse list is a function `cx` of its rule and its origin
(`CtxDet`), so `tg2 cs = (tg (projSet cs)).map (attach m)` for the set at position `m` (`tg2_eq_attach`),
and what `build_new_set` shifts out of a level-2 set is the filtered, `attach`ed shift of the projected set
(`shiftL2_attach`).
-/
namespace Yaep.LI2
open Yaep Yaep.BS Yaep.LI

/-- the set of levels 0/1 obtained by forgetting the contexts -/
def projSet (cs : BS2.CSet2) : CSet := ⟨cs.core.proj, cs.dists⟩

def projP (p : BS2.Sit2 × Nat) : Sit × Nat := (p.1.proj, p.2)

/-- the context of the items of rule `r` with origin `i` in the parse list -/
def cx (plA : List (List Item2)) (r i : Nat) : List Nat :=
  match plA.flatten.find? (fun it => it.rule == r && it.origin == i) with
  | some it => it.ctx
  | none => []

/-- the pair of the set at position `j` with its context -/
def attach (plA : List (List Item2)) (j : Nat) (p : Sit × Nat) : BS2.Sit2 × Nat :=
  (⟨p.1.1, p.1.2, cx plA p.1.1 (j - p.2)⟩, p.2)

/-- the level-2 test on a pair of the set at position `j` -/
def Kj (g : Grammar) (plA : List (List Item2)) (nxt : Option Nat) (j : Nat) (p : Sit × Nat) : Bool :=
  ok2 g g.analysis nxt p.1.1 p.1.2 (cx plA p.1.1 (j - p.2))

theorem projP_attach (plA : List (List Item2)) (j : Nat) (p : Sit × Nat) : projP (attach plA j p) = p := rfl

theorem attach_inj (plA : List (List Item2)) (j : Nat) (a b : Sit × Nat)
    (h : attach plA j a = attach plA j b) : a = b := by
  have := congrArg projP h
  rwa [projP_attach, projP_attach] at this

theorem cx_eq {plA : List (List Item2)} (hdet : CtxDet plA) {k : Nat} {it : Item2}
    (h : it ∈ plA.getD k []) : cx plA it.rule it.origin = it.ctx := by
  unfold cx
  have hk := mem_getD_lt h
  have hmem : it ∈ plA.flatten := by
    rw [List.mem_flatten]
    refine ⟨plA.getD k [], ?_, h⟩
    rw [List.getD_eq_getElem?_getD, List.getElem?_eq_getElem hk]
    exact List.getElem_mem hk
  cases hf : plA.flatten.find? (fun x => x.rule == it.rule && x.origin == it.origin) with
  | none =>
    have := List.find?_eq_none.mp hf it hmem
    simp at this
  | some x =>
    have hx := List.find?_some hf
    have hxm := List.mem_of_find?_eq_some hf
    simp only [Bool.and_eq_true, beq_iff_eq] at hx
    obtain ⟨l, hl, hxl⟩ := List.mem_flatten.mp hxm
    obtain ⟨k', hk', rfl⟩ := List.mem_iff_getElem.mp hl
    have hx' : x ∈ plA.getD k' [] := by
      rw [List.getD_eq_getElem?_getD, List.getElem?_eq_getElem hk']; exact hxl
    exact hdet k' k x it hx' h hx.1 hx.2

/-! ## the list of a level-2 set -/

/-- the situations of a stored level-2 set with their distances -/
def tg2 (cs : BS2.CSet2) : List (BS2.Sit2 × Nat) :=
  (List.range cs.core.sits.length).map fun i => (cs.core.sits.getD i default, cs.distOf i)

theorem distOf_projSet (cs : BS2.CSet2) (i : Nat) : (projSet cs).distOf i = cs.distOf i := rfl

theorem tg2_map_projP (cs : BS2.CSet2) : (tg2 cs).map projP = tg (projSet cs) := by
  unfold tg2 tg
  rw [List.map_map]
  have hlen : (projSet cs).core.sits.length = cs.core.sits.length := by
    show (cs.core.sits.map BS2.Sit2.proj).length = _
    rw [List.length_map]
  rw [hlen]
  apply List.map_congr_left
  intro i _
  show (_, _) = (_, _)
  congr 1
  exact (BS2.getD_map_proj cs.core.sits i).symm

theorem items_projSet (cs : BS2.CSet2) (j : Nat) :
    (cs.items j).map Item2.proj = (projSet cs).items j := by
  unfold BS2.CSet2.items CSet.items
  rw [List.map_map]
  have hlen : (projSet cs).core.sits.length = cs.core.sits.length := by
    show (cs.core.sits.map BS2.Sit2.proj).length = _
    rw [List.length_map]
  rw [hlen]
  apply List.map_congr_left
  intro i _
  have e : (projSet cs).core.sits.getD i default = (cs.core.sits.getD i default).proj :=
    BS2.getD_map_proj cs.core.sits i
  simp only [Function.comp, Item2.proj, e]
  rfl

/-- in a set of the parse list every situation has the context `cx` of its rule and origin -/
theorem tg2_eq_attach {g : Grammar} {plA : List (List Item2)} {pl : List BS2.CSet2}
    (h : BS2.PLOK2 g plA pl) (hdet : CtxDet plA) {m : Nat} (hm : m < pl.length) :
    tg2 (pl.getD m default) = (tg (projSet (pl.getD m default))).map (attach plA m) := by
  rw [← tg2_map_projP, List.map_map]
  have hok := h.ok m hm
  have hitems := h.items m hm
  generalize pl.getD m default = cs at hok hitems
  unfold tg2
  rw [List.map_map]
  apply List.map_congr_left
  intro i hi
  have hi' := List.mem_range.mp hi
  have hmem : (⟨(cs.core.sits.getD i default).rule, (cs.core.sits.getD i default).dot,
      cs.originOf m i, (cs.core.sits.getD i default).ctx⟩ : Item2) ∈ cs.items m := by
    unfold BS2.CSet2.items
    exact List.mem_map.mpr ⟨i, hi, rfl⟩
  have hA := (hitems _).mp hmem
  have hc := cx_eq hdet hA
  simp only at hc
  rw [BS2.originOf_eq, ← BS2.distOf_eq hok.shape] at hc
  show _ = attach plA m (projP (cs.core.sits.getD i default, cs.distOf i))
  unfold attach projP
  simp only [BS2.Sit2.proj]
  rw [hc]

/-! ## sources and shifts at level 2 -/

def nextIs2 (g : Grammar) (X : Sym) (p : BS2.Sit2 × Nat) : Bool :=
  g.nextSym p.1.rule p.1.dot == some X

/-- the pairs with `X` after the dot, in the order of the set -/
def src2 (g : Grammar) (cs : BS2.CSet2) (X : Sym) : List (BS2.Sit2 × Nat) :=
  (tg2 cs).filter (nextIs2 g X)

/-- move the dot of every pair that passes the test (the context is inherited) -/
def shiftL2 (ok : Nat → Nat → List Nat → Bool) (base : Nat) (l : List (BS2.Sit2 × Nat)) :
    List (BS2.Sit2 × Nat) :=
  l.filterMap fun p =>
    if ok p.1.rule (p.1.dot + 1) p.1.ctx then some (⟨p.1.rule, p.1.dot + 1, p.1.ctx⟩, p.2 + base)
    else none

/-- the transition vector of `X` is exact (as a list) -/
def TransL (g : Grammar) (cs : BS2.CSet2) : Prop :=
  ∀ X, cs.core.transOf X = vecOf (filt g cs.core.proj.sits cs.core.sits.length X)

theorem transL_of_setOK {g : Grammar} {k : Nat} {cs : BS2.CSet2} (h : BS2.SetOK2 g k cs) :
    TransL g cs := by
  obtain ⟨num, ns, hc, _⟩ := h.exp
  intro X
  have := hc.spec.trans X
  have hlen : cs.core.proj.sits.length = cs.core.sits.length := by
    show (cs.core.sits.map BS2.Sit2.proj).length = _
    rw [List.length_map]
  rw [hlen] at this
  exact this

theorem transL_default (g : Grammar) : TransL g (default : BS2.CSet2) := by
  intro X
  rfl

theorem shift_trans_eq2 (g : Grammar) (ok : Nat → Nat → List Nat → Bool) (cs : BS2.CSet2) (base : Nat)
    (X : Sym) (hT : TransL g cs) :
    ((cs.core.transOf X).getD []).filterMap (BS2.shiftSit ok cs base) = shiftL2 ok base (src2 g cs X) := by
  rw [hT X, vecOf_getD]
  unfold src2 tg2 shiftL2 filt
  rw [List.filter_map, List.filterMap_map]
  have e : ∀ k, nextOf g cs.core.proj.sits k =
      g.nextSym (cs.core.sits.getD k default).rule (cs.core.sits.getD k default).dot := by
    intro k
    exact BS2.nextOf_proj g cs.core k
  simp only [e]
  rfl

theorem src2_eq_attach {g : Grammar} {plA : List (List Item2)} {cs : BS2.CSet2} {m : Nat}
    (h : tg2 cs = (tg (projSet cs)).map (attach plA m)) (X : Sym) :
    src2 g cs X = (src g (projSet cs) X).map (attach plA m) := by
  unfold src2 src
  rw [h, List.filter_map]
  rfl

/-- **what `build_new_set` shifts out of a level-2 set**, in terms of the set without contexts -/
theorem shiftL2_attach (g : Grammar) (plA : List (List Item2)) (nxt : Option Nat)
    {ok0 : Nat → Nat → Bool} (hok0 : ∀ r d, ok0 r d = true) (m base : Nat) (l : List (Sit × Nat)) :
    shiftL2 (ok2 g g.analysis nxt) base (l.map (attach plA m)) =
      ((shiftL ok0 base l).filter (Kj g plA nxt (m + base))).map (attach plA (m + base)) := by
  unfold shiftL2 shiftL
  induction l with
  | nil => rfl
  | cons p l ih =>
    have hsub : m + base - (p.2 + base) = m - p.2 := by omega
    have hK : Kj g plA nxt (m + base) ((p.1.1, p.1.2 + 1), p.2 + base) =
        ok2 g g.analysis nxt p.1.1 (p.1.2 + 1) (cx plA p.1.1 (m - p.2)) := by
      unfold Kj
      simp only [hsub]
    have h2 : (if ok0 p.1.1 (p.1.2 + 1) = true then
        some ((p.1.1, p.1.2 + 1), p.2 + base) else none) =
        some ((p.1.1, p.1.2 + 1), p.2 + base) := by
      rw [if_pos (hok0 _ _)]
    rw [List.map_cons, List.filterMap_cons, List.filterMap_cons, h2]
    simp only
    by_cases hk : ok2 g g.analysis nxt p.1.1 (p.1.2 + 1) (cx plA p.1.1 (m - p.2)) = true
    · have h1 : (if ok2 g g.analysis nxt (attach plA m p).1.rule ((attach plA m p).1.dot + 1)
            (attach plA m p).1.ctx = true then
          some ((⟨(attach plA m p).1.rule, (attach plA m p).1.dot + 1, (attach plA m p).1.ctx⟩ : BS2.Sit2),
            (attach plA m p).2 + base) else none) =
          some (attach plA (m + base) ((p.1.1, p.1.2 + 1), p.2 + base)) := by
        show (if ok2 g g.analysis nxt p.1.1 (p.1.2 + 1) (cx plA p.1.1 (m - p.2)) = true then _ else _) = _
        rw [if_pos hk]
        unfold attach
        simp only [hsub]
      rw [h1, List.filter_cons_of_pos (by rw [hK]; exact hk), List.map_cons, ih]
    · have h1 : (if ok2 g g.analysis nxt (attach plA m p).1.rule ((attach plA m p).1.dot + 1)
            (attach plA m p).1.ctx = true then
          some ((⟨(attach plA m p).1.rule, (attach plA m p).1.dot + 1, (attach plA m p).1.ctx⟩ : BS2.Sit2),
            (attach plA m p).2 + base) else none) = none := by
        show (if ok2 g g.analysis nxt p.1.1 (p.1.2 + 1) (cx plA p.1.1 (m - p.2)) = true then _ else _) = _
        rw [if_neg hk]
      rw [h1, List.filter_cons_of_neg (by rw [hK]; exact hk), ih]

/-! ## the start pairs of `build_new_set` at level 2 as an iteration -/

/-- the transition vectors of all the sets of `pl` are exact -/
def TransOK2 (g : Grammar) (pl : List BS2.CSet2) : Prop := ∀ k, TransL g (pl.getD k default)

theorem transOK2_of_PLOK2 {g : Grammar} {plA : List (List Item2)} {pl : List BS2.CSet2}
    (h : BS2.PLOK2 g plA pl) : TransOK2 g pl := by
  intro k
  by_cases hk : k < pl.length
  · exact transL_of_setOK (h.ok k hk)
  · rw [List.getD_eq_getElem?_getD, List.getElem?_eq_none (by omega)]
    exact transL_default g

theorem step2Pairs2_eq_src {g : Grammar} {an : Analysis} {ok : Nat → Nat → List Nat → Bool}
    {pl : List BS2.CSet2} (hT : TransOK2 g pl) (plCurr : Nat) (ns : BS2.NewStart2) (i : Nat) :
    BS2.step2Pairs g an ok pl plCurr ns i =
      if emptyTailP g an (ns.getD i default).1.proj then
        shiftL2 ok (ns.getD i default).2
          (src2 g (pl.getD (plCurr + 1 - (ns.getD i default).2) default)
            (Sym.n (BS2.lhsOf g (ns.getD i default).1)))
      else [] := by
  unfold BS2.step2Pairs
  split
  · simp only
    rw [← shift_trans_eq2 g ok _ _ _ (hT _)]
    split
    · rfl
    · rename_i hf
      have : (pl.getD (plCurr + 1 - (ns.getD i default).2) default).core.transOf
          (Sym.n (BS2.lhsOf g (ns.getD i default).1)) = none := by
        unfold BS2.Core2.find at hf
        simp only [Bool.or_eq_true, not_or, Bool.not_eq_true, Option.isSome_eq_false_iff,
          Option.isNone_iff_eq_none] at hf
        exact hf.1
      rw [this]; rfl
  · rfl

/-- the result of the first loop -/
def loop1Pairs2 (g : Grammar) (ok : Nat → Nat → List Nat → Bool) (pl : List BS2.CSet2) (a : Nat) :
    BS2.NewStart2 :=
  addNew [] (shiftL2 ok 1 (src2 g (pl.getLastD default) (Sym.t a)))

theorem loop1_eq2 {g : Grammar} {ok : Nat → Nat → List Nat → Bool} {pl : List BS2.CSet2} {a : Nat}
    (hT : TransOK2 g pl) :
    BS2.newSetLoop1 ok (pl.getLastD default) (((pl.getLastD default).core.transOf (Sym.t a)).getD []) =
      loop1Pairs2 g ok pl a := by
  rw [BS2.newSetLoop1_eq]
  unfold loop1Pairs2
  rw [LI.getLastD_eq_getD', shift_trans_eq2 g ok _ _ _ (hT _)]

end Yaep.LI2
