import Yaep.Lemmas.CompleteStep
import Yaep.Lemmas.CompleteKid
/-!
# Completeness of the all-parses forest, part 4: a state is popped
-/
namespace Yaep.CP
open Yaep Yaep.MP

section
variable {g : Grammar} {ok : Nat → Nat → Nat → Bool} {toks : List Nat} {c : Ctx} {s : St}

/-- the invariant after a pop: the states are untouched, the tree memory is monotone -/
theorem CInv.pop_of {s' : St} {X : Nat} {rest : List Nat} (hinv : CInv g ok toks s)
    (hst : s.stack = X :: rest) (hgood' : ∃ G, AGood g ok toks s' G none)
    (hs : s'.states = s.states) (hk : s'.stack = rest) (hm : HMono s.heap s'.heap)
    (htop : ∀ π t, OweBy g toks s (fun π t => Ev g toks s π t ∧ Ev g toks s' π t) (s.state X) π t →
      Ev g toks s' π t) : CInv g ok toks s' :=
  hinv.step_of hst hgood' hm (fun y _ => by rw [state_congr hs])
    (fun x hx => ⟨by rw [hk]; exact hx, state_congr hs x⟩)
    (fun x hx => Or.inl (by rw [hk] at hx; exact hx)) htop

/-- **a state is popped** -/
theorem cstep_pop (hc : CtxAll g ok toks c) (hg : GrOK g) (hinv : CInv g ok toks s) {X : Nat}
    {rest : List Nat} (hst : s.stack = X :: rest) (hpos : (s.state X).pos = 0) :
    CInv g ok toks (step c s) := by
  obtain ⟨G, hgood⟩ := hinv.good
  have hgood' := astep_pop hc hg hgood hst hpos
  have hXmem : X ∈ s.stack := by rw [hst]; simp
  obtain ⟨rl, hX⟩ := hgood.states X hXmem
  have hr : g.rules[(s.state X).rule]? = some rl := hX.hr
  have hrule := hc.rule_eq hr
  have hok := Grammar.translWF_rule hg.twf hr
  have h0lt : 0 < s.heap.size := by
    obtain ⟨_, _, _, k3, _⟩ := hgood.root
    exact Nat.lt_trans (by decide) k3
  cases han : (s.state X).anode with
  | some an =>
    obtain ⟨rl', nm, ks, o1, o2, o3, o4, o5, o6, o7⟩ := own_cell hgood hXmem han
    rw [hr] at o1; injection o1 with o1; subst o1
    have hstep := step_pop_some (c := c) hst hpos han
    obtain ⟨p1, p2, p3, _⟩ := popFold_proj an (List.range (c.rule (s.state X).rule).transLen)
      { s with stack := rest }
    simp only at p1 p2 p3
    rw [← hstep] at p1 p2 p3
    rw [hrule] at p1
    have p1' : (step c s).heap = fillNil s.heap an rl.transLen := p1
    obtain ⟨f1, f2, ks', f3, f4⟩ := hmono_fillNil o5 o3 h0lt hgood.h0 rl.transLen
    rw [← p1'] at f1 f2 f3
    refine hinv.pop_of hst hgood' p2 p3 f1 ?_
    intro π t ho
    cases ho with
    | @owner a rl2 kids nm2 slots h1 h2 h3 h4 h5 h6 h7 h8 h9 =>
      rw [han] at h2; injection h2 with h2; subst h2
      rw [hr] at h3; injection h3 with h3; subst h3
      rw [o2] at h4; injection h4 with h4; subst h4
      refine .now (InSlot.den (a := an) (f1.inslot _ _ ?_) ?_)
      · rw [← h1]; exact hinv.inpl X hXmem an han
      · refine DenP.of_slots o4 f3 (by rw [f4, o6, h6]) ?_
        intro d hd
        rw [h6] at hd
        by_cases hq : ∃ q, rl.order.getD q none = some d
        · obtain ⟨q, hq⟩ := hq
          have := (h8 d q hd hq (by rw [hpos]; exact Nat.zero_le _)).1
          exact f1.slot _ _ (ev_top_now hgood hst han this)
        · have hq' : ∀ q, rl.order.getD q none ≠ some d := fun q h => hq ⟨q, h⟩
          rw [h9 d hd hq']
          apply f2 d hd (by rw [o6]; omega)
          cases hk : ks.getD d none with
          | none => rfl
          | some m =>
            obtain ⟨q, _, hq2⟩ := o7 d m hk
            exact absurd hq2 (hq' q)
    | pass h1 h2 _ _ _ _ => rw [han] at h2; cases h2
    | passNil h1 h2 _ _ => rw [han] at h2; cases h2
  | none =>
    have hpa := tgt_fst hgood hXmem
    have hstep := step_pop_none (c := c) hst hpos han hpa
    rw [hrule] at hstep
    obtain ⟨nmP, cP, ksP, q1, q2, q3⟩ := tgt_cell hg.twf hgood hXmem
    by_cases htl : rl.transLen = 0
    · have e : step c s = ({ s with stack := rest } : St).place
          ((tgt s (s.state X)).1, (s.state X).parentDisp) nilId := by
        rw [hstep]; simp [htl]
      have ehp : (step c s).heap = placeTranslation s.heap (tgt s (s.state X)) nilId := by rw [e]; rfl
      obtain ⟨m1, m2, _⟩ := hmono_place (node := nilId) q1 q2 q3 h0lt (kidLt_of_good hgood)
      rw [← ehp] at m1 m2
      refine hinv.pop_of hst hgood' (by rw [e]; rfl) (by rw [e]; rfl) m1 ?_
      intro π t ho
      cases ho with
      | owner _ h2 _ _ _ _ _ _ _ => rw [han] at h2; cases h2
      | pass _ _ _ _ h5 _ => rw [hpos] at h5; exact absurd h5 (Nat.not_lt_zero _)
      | passNil h1 _ _ _ =>
        rw [← h1]
        exact .now (m2 _ (.nil h0lt hgood.h0))
    · have e : step c s = { s with stack := rest } := by
        rw [hstep]; simp [htl]
      refine hinv.pop_of hst hgood' (by rw [e]) (by rw [e]) (by rw [e]; exact HMono.refl _) ?_
      intro π t ho
      cases ho with
      | owner _ h2 _ _ _ _ _ _ _ => rw [han] at h2; cases h2
      | pass _ _ _ _ h5 _ => rw [hpos] at h5; exact absurd h5 (Nat.not_lt_zero _)
      | passNil _ _ h3 h4 =>
        rw [hr] at h3; injection h3 with h3; subst h3
        have hnone : rl.anode = none := by
          have := hX.cell
          have est : s.states.getD X default = s.state X := rfl
          rw [est, han] at this
          exact this
        exact absurd (hg.pass _ _ hr hnone h4) htl

end

end Yaep.CP
