import Yaep.Lemmas.NoGarbageCand
import Yaep.Lemmas.HeapWfBase
import Yaep.Lemmas.PruneCSpec
import Yaep.Lemmas.Translate
/-!
# No garbage, part 5: the finished run — every cell is reachable from the result cell

The invariant at the end of the run (empty stack): every abstract node is completely filled, so the
references `free_tree` / the exporter follow (`PC.succs`: children up to the first NULL) are all
references.
-/
namespace Yaep.NG
open Yaep MP

theorem mem_takeWhile_filterMap : ∀ (l : List (Option Nat)) (i v : Nat), l[i]? = some (some v) →
    (∀ j, j < i → ∃ w, l[j]? = some (some w)) → v ∈ (l.takeWhile Option.isSome).filterMap id
  | [], i, v, h, _ => by simp at h
  | x :: l, 0, v, h, _ => by
    simp at h
    subst h
    simp [List.takeWhile]
  | x :: l, i + 1, v, h, hall => by
    obtain ⟨w, hw⟩ := hall 0 (Nat.succ_pos _)
    simp at hw
    subst hw
    simp only [List.takeWhile, Option.isSome_some, List.filterMap_cons, id_eq]
    apply List.mem_cons_of_mem
    apply mem_takeWhile_filterMap l i v (by simpa using h)
    intro j hj
    have := hall (j + 1) (by omega)
    simpa using this

theorem getD_toList (ks : Array (Option Nat)) (i : Nat) {v : Nat} (h : ks.getD i none = some v) :
    ks.toList[i]? = some (some v) := by
  rw [Array.getD_eq_getD_getElem?] at h
  rw [Array.getElem?_toList]
  cases hk : ks[i]? with
  | none => rw [hk] at h; cases h
  | some x => rw [hk] at h; simp at h; rw [h]

theorem mem_kidsOf_of {ks : Array (Option Nat)} {i v : Nat} (h : ks.getD i none = some v)
    (hall : ∀ j, j < i → (ks.getD j none).isSome = true) : v ∈ PC.kidsOf ks := by
  unfold PC.kidsOf
  apply mem_takeWhile_filterMap ks.toList i v (getD_toList ks i h)
  intro j hj
  have := hall j hj
  cases hk : ks.getD j none with
  | none => rw [hk] at this; cases this
  | some w => exact ⟨w, getD_toList ks j hk⟩

/-- all the abstract nodes of the heap are completely filled -/
def AllFull (h : Array MNode) : Prop :=
  ∀ i nm cst ks, h.getD i .nil = .anode nm cst ks → ∀ d v, ks.getD d none = some v →
    ∀ j, j < d → (ks.getD j none).isSome = true

theorem succs_of_edge {h : Array MNode} (hf : AllFull h) {u v : Nat} (e : Edge h u v) :
    v ∈ PC.succs (PC.ofHeap h) u := by
  unfold PC.succs
  rw [cellAt_ofHeap]
  unfold Edge at e
  cases hc : h.getD u .nil with
  | nil => rw [hc] at e; exact e.elim
  | err => rw [hc] at e; exact e.elim
  | term _ _ => rw [hc] at e; exact e.elim
  | anode nm cst ks =>
    rw [hc] at e
    obtain ⟨i, hi⟩ := e
    exact mem_kidsOf_of hi (hf u nm cst ks hc i v hi)
  | alt nd nx =>
    rw [hc] at e
    cases nx with
    | none =>
      rcases e with e | e
      · subst e; simp [PC.ofMNode]
      · cases e
    | some x =>
      rcases e with e | e
      · subst e; simp [PC.ofMNode]
      · injection e with e; subst e; simp [PC.ofMNode]

theorem edge_of_succs {h : Array MNode} {u v : Nat} (e : v ∈ PC.succs (PC.ofHeap h) u) : Edge h u v := by
  unfold PC.succs at e
  rw [cellAt_ofHeap] at e
  unfold Edge
  cases hc : h.getD u .nil with
  | nil => rw [hc] at e; simp [PC.ofMNode] at e
  | err => rw [hc] at e; simp [PC.ofMNode] at e
  | term _ _ => rw [hc] at e; simp [PC.ofMNode] at e
  | anode nm cst ks =>
    rw [hc] at e
    exact mem_kidsOf e
  | alt nd nx =>
    rw [hc] at e
    cases nx with
    | none => simp [PC.ofMNode] at e; exact Or.inl e
    | some x =>
      simp [PC.ofMNode] at e
      rcases e with e | e
      · exact Or.inl e
      · exact Or.inr (by rw [e])

theorem pc_reach_of_reach {h : Array MNode} (hf : AllFull h) {a b : Nat} (hr : Reach h a b) :
    PC.Reach (PC.ofHeap h) a b := by
  induction hr with
  | refl _ => exact .refl _
  | step e _ ih => exact .step (succs_of_edge hf e) ih

theorem reach_of_pc_reach {h : Array MNode} {a b : Nat} (hr : PC.Reach (PC.ofHeap h) a b) :
    Reach h a b := by
  induction hr with
  | refl _ => exact .refl _
  | step e _ ih => exact .step (edge_of_succs e) ih

/-- at the end of the run every abstract node is completely filled -/
theorem allFull_of_inv {c : Ctx} {h : Array MNode} {sts : Array PState} {nu eu : Bool}
    {nr na : List Nat} (hi : Inv c h sts [] nu eu nr na) : AllFull h := by
  intro i nm cst ks hc d v hd j hj
  have hdlt : d < ks.size := by
    rcases Nat.lt_or_ge d ks.size with h1 | h1
    · exact h1
    · simp [Array.getD_eq_getD_getElem?, Array.getElem?_eq_none h1] at hd
  have hilt := lt_of_anode hc
  by_cases h3 : 3 ≤ i
  · rcases hi.full i nm cst ks h3 hc with hf | ⟨sid, hs, _⟩
    · have hl := (hi.hok.last i nm cst ks h3 hc).2
      have : d ≠ ks.size - 1 := by
        intro e; rw [e] at hd; rw [hl] at hd; cases hd
      exact hf j (by omega)
    · cases hs
  · -- cells 0, 1 are leaves, cell 2 has one slot
    obtain ⟨nm', cst', ks', c1, c2⟩ := hi.hok.croot
    rcases (by omega : i = 0 ∨ i = 1 ∨ i = 2) with e | e | e
    · subst e; have := hi.hok.cnil; unfold nilId at this; rw [this] at hc; cases hc
    · subst e; have := hi.hok.cerr; unfold errId at this; rw [this] at hc; cases hc
    · subst e
      unfold rootId at c1
      rw [c1] at hc
      injection hc with _ _ e3
      subst e3
      omega

/-- from the `result` slot: what is reachable from cell `rootId` other than itself is reachable from
the result cell -/
theorem reach_from_result {h : Array MNode} (hk : HOK h) {r : Nat} (hres : getKid h rootId 0 = some r)
    {i : Nat} (hr : Reach h rootId i) (hne : i ≠ rootId) : Reach h r i := by
  cases hr with
  | refl _ => exact absurd rfl hne
  | step e hr' =>
    obtain ⟨nm, cst, ks, c1, c2⟩ := hk.croot
    unfold Edge at e
    rw [c1] at e
    obtain ⟨j, hj⟩ := e
    have hj0 : j = 0 := by
      rcases Nat.lt_or_ge j ks.size with h1 | h1
      · omega
      · simp [Array.getD_eq_getD_getElem?, Array.getElem?_eq_none h1] at hj
    subst hj0
    rw [getKid_cell c1, hj] at hres
    injection hres with hres
    subst hres
    exact hr'

/-- **no garbage, for any parse list** (structural part): at the end of a run every cell other than
the C-stack cell `rootId`, an unused NIL and an unused ERROR node is reachable from the result cell
along the references `free_tree` follows; an unused NIL / ERROR node is not referred to at all -/
theorem no_garbage_of_inv {c : Ctx} {s : St} {r : Nat} (hi : NGInv c s) (hst : s.stack = [])
    (hres : s.result = some r) :
    (∀ i, i < s.heap.size → i ≠ rootId → (i = nilId → s.nilUsed = true) →
      (i = errId → s.errUsed = true) → PC.Reach (PC.ofHeap s.heap) r i) ∧
    (s.nilUsed = false → ¬ PC.Reach (PC.ofHeap s.heap) r nilId) ∧
    (s.errUsed = false → ¬ PC.Reach (PC.ofHeap s.heap) r errId) := by
  have hi' : Inv c s.heap s.states [] s.nilUsed s.errUsed s.namedRules s.nameAfter := by
    have := hi; unfold NGInv at this; rw [hst] at this; exact this
  have hfull := allFull_of_inv hi'
  have hres' : getKid s.heap rootId 0 = some r := hres
  have hroot_edge : Edge s.heap rootId r := by
    obtain ⟨nm, cst, ks, c1, c2⟩ := hi'.hok.croot
    unfold Edge; rw [c1]
    rw [getKid_cell c1] at hres'
    exact ⟨0, hres'⟩
  refine ⟨?_, ?_, ?_⟩
  · intro i hlt hne hn he
    apply pc_reach_of_reach hfull
    apply reach_from_result hi'.hok hres' _ hne
    by_cases h3 : 3 ≤ i
    · exact hi'.hok.reach i h3 hlt
    · rcases (by omega : i = 0 ∨ i = 1 ∨ i = 2) with e | e | e
      · subst e; exact hi'.flags.nilR (hn rfl)
      · subst e; exact hi'.flags.errR (he rfl)
      · exact absurd e hne
  · intro hn hr
    have hr' := reach_of_pc_reach hr
    have : ∀ a b, Reach s.heap a b → b = nilId → (∃ u, Edge s.heap u nilId) ∨ a = nilId := by
      intro a b hab
      induction hab with
      | refl _ => intro e; exact Or.inr e
      | step e _ ih =>
        intro hb
        rcases ih hb with h1 | h1
        · exact Or.inl h1
        · subst h1; exact Or.inl ⟨_, e⟩
    rcases this r nilId hr' rfl with ⟨u, e⟩ | e
    · exact hi'.flags.nilE hn u e
    · rw [e] at hroot_edge; exact hi'.flags.nilE hn _ hroot_edge
  · intro hn hr
    have hr' := reach_of_pc_reach hr
    have : ∀ a b, Reach s.heap a b → b = errId → (∃ u, Edge s.heap u errId) ∨ a = errId := by
      intro a b hab
      induction hab with
      | refl _ => intro e; exact Or.inr e
      | step e _ ih =>
        intro hb
        rcases ih hb with h1 | h1
        · exact Or.inl h1
        · subst h1; exact Or.inl ⟨_, e⟩
    rcases this r errId hr' rfl with ⟨u, e⟩ | e
    · exact hi'.flags.errE hn u e
    · rw [e] at hroot_edge; exact hi'.flags.errE hn _ hroot_edge

/-- the invariant holds at the end of every run of the model (any parse list, both modes) -/
theorem makeParseSt_inv {c : Ctx} (hc : COK c) {fuel : Nat} {s : St}
    (hm : makeParseSt c fuel = some s) : NGInv c s ∧ s.stack = [] := by
  unfold makeParseSt at hm
  split at hm
  · cases hm
  · rename_i s0 h0
    exact ⟨run_inv hc fuel s0 s (init_inv h0) hm, run_stack_empty c fuel s0 s hm⟩

/-! ## the grammar condition; acyclicity -/

theorem cok_mkCtx {g : Grammar} (h : g.translWF = true) (sets : Array (Array Item))
    (plToks : Array Int) (one : Bool) : COK (mkCtx g sets plToks one) := by
  intro r p d hd
  have hrule : (mkCtx g sets plToks one).rule r = (g.rules[r]?).getD default := by
    unfold Ctx.rule mkCtx
    simp [Array.getD_eq_getD_getElem?]
  rw [hrule] at hd ⊢
  cases hr : g.rules[r]? with
  | none =>
    simp only [hr, Option.getD_none] at hd
    have : (default : Rule).order = [] := rfl
    rw [this] at hd
    simp at hd
  | some rl =>
    simp only [hr, Option.getD_some] at hd ⊢
    exact (Grammar.translWF_rule h hr).slot_lt p d (order_getD_eq_some.mp hd)

theorem wf_succ {h : Array PC.Cell} {rk hd : Nat → Nat} (wf : PC.WfHeap h rk hd) {u v : Nat}
    (hu : u < h.size) (e : v ∈ PC.succs h u) : v < h.size ∧ rk v < rk u := by
  unfold PC.succs at e
  cases hc : PC.cellAt h u with
  | nil => rw [hc] at e; simp at e
  | err => rw [hc] at e; simp at e
  | term _ _ => rw [hc] at e; simp at e
  | anode nm cst ks =>
    rw [hc] at e
    have := (wf.anode u nm cst ks hu hc).2 v e
    exact ⟨this.1, this.2.1⟩
  | alt nd nx =>
    rw [hc] at e
    obtain ⟨a1, _, a3, a4⟩ := wf.alt u nd nx hu hc
    cases nx with
    | none =>
      simp at e; subst e; exact ⟨a1, a3⟩
    | some x =>
      simp at e
      rcases e with e | e
      · subst e; exact ⟨a1, a3⟩
      · subst e
        have := a4 v rfl
        exact ⟨this.1, this.2.2.1⟩

theorem wf_reach {h : Array PC.Cell} {rk hd : Nat → Nat} (wf : PC.WfHeap h rk hd) {a b : Nat}
    (hr : PC.Reach h a b) : a < h.size → b < h.size ∧ rk b ≤ rk a := by
  induction hr with
  | refl _ => intro ha; exact ⟨ha, Nat.le_refl _⟩
  | step e _ ih =>
    intro ha
    obtain ⟨h1, h2⟩ := wf_succ wf ha e
    obtain ⟨h3, h4⟩ := ih h1
    exact ⟨h3, by omega⟩

/-- the C-stack cell that holds `result` is not reachable from the result cell -/
theorem root_not_reachable {h : Array MNode} {rk hd : Nat → Nat} (wf : PC.WfHeap (PC.ofHeap h) rk hd)
    (hk : HOK h) (hf : AllFull h) {r : Nat} (hres : getKid h rootId 0 = some r) :
    ¬ PC.Reach (PC.ofHeap h) r rootId := by
  intro hr
  have hsz := hk.size
  have h2 : rootId < (PC.ofHeap h).size := by rw [size_ofHeap]; unfold rootId; omega
  have e : r ∈ PC.succs (PC.ofHeap h) rootId := by
    apply succs_of_edge hf
    obtain ⟨nm, cst, ks, c1, c2⟩ := hk.croot
    unfold Edge; rw [c1]
    rw [getKid_cell c1] at hres
    exact ⟨0, hres⟩
  obtain ⟨a1, a2⟩ := wf_succ wf h2 e
  obtain ⟨_, a4⟩ := wf_reach wf hr a1
  omega

end Yaep.NG
