import Yaep.Lemmas.BuildSetExpand
/-!
# Lookahead independence, part 2: generic list lemmas

* `addNew` and `filter`;
* `iterI`: the scanning loops of `expand_new_start_set` (second loop) and `build_new_set` (second
  loop) as an iteration on lists — a fixed prefix `pre`, a growing duplicate-free part `I`, round
  `n` looks at element `n` of `pre ++ I` and appends what it generates and `I` does not have yet;
* `iterI_restrict`: if the elements with property `K` are generated only by elements with property
  `K`, the `K`-elements of the result are the result of the iteration restricted to `K`;
* two duplicate-free lists sorted by the same strict order, one contained in the other.
-/
namespace Yaep.LI
open Yaep Yaep.BS

section
variable {α : Type} [DecidableEq α]

theorem addNew_cons (s : List α) (x : α) (xs : List α) :
    addNew s (x :: xs) = if x ∈ s then addNew s xs else addNew (s ++ [x]) xs := rfl

theorem addNew_filter (K : α → Bool) (s xs : List α) :
    (addNew s xs).filter K = addNew (s.filter K) (xs.filter K) := by
  induction xs generalizing s with
  | nil => rfl
  | cons x xs ih =>
    rw [addNew_cons]
    by_cases hK : K x = true
    · rw [List.filter_cons_of_pos hK, addNew_cons]
      have hmem : x ∈ s.filter K ↔ x ∈ s := by
        rw [List.mem_filter]; exact ⟨fun h => h.1, fun h => ⟨h, hK⟩⟩
      by_cases hx : x ∈ s
      · rw [if_pos hx, if_pos (hmem.mpr hx)]; exact ih s
      · rw [if_neg hx, if_neg (fun h => hx (hmem.mp h)), ih]
        rw [List.filter_append, List.filter_cons_of_pos hK, List.filter_nil]
    · rw [List.filter_cons_of_neg hK]
      by_cases hx : x ∈ s
      · rw [if_pos hx]; exact ih s
      · rw [if_neg hx, ih, List.filter_append, List.filter_cons_of_neg hK, List.filter_nil,
          List.append_nil]

theorem addNew_nil_left_filter (K : α → Bool) (xs : List α) :
    addNew [] (xs.filter K) = (addNew [] xs).filter K := by
  rw [addNew_filter]; rfl

theorem addNew_eq_self {s xs : List α} (h : xs ⊆ s) : addNew s xs = s := by
  induction xs with
  | nil => rfl
  | cons x xs ih =>
    rw [addNew_cons, if_pos (h List.mem_cons_self)]
    exact ih (fun y hy => h (List.mem_cons_of_mem _ hy))

/-- appending a duplicate-free list that is disjoint from `s` -/
theorem addNew_eq_append {s xs : List α} (hnd : xs.Nodup) (hdis : ∀ x ∈ xs, x ∉ s) :
    addNew s xs = s ++ xs := by
  induction xs generalizing s with
  | nil => simp [addNew]
  | cons x xs ih =>
    rw [addNew_cons, if_neg (hdis x List.mem_cons_self)]
    have hnd' := List.nodup_cons.mp hnd
    rw [ih hnd'.2]
    · simp
    · intro y hy hmem
      rcases List.mem_append.mp hmem with h | h
      · exact hdis y (List.mem_cons_of_mem _ hy) h
      · have : y = x := by simpa using h
        subst this
        exact hnd'.1 hy

/-! ## the iteration -/

/-- the growing part after `n` rounds -/
def iterI (new : List α → Nat → List α) (pre A : List α) : Nat → List α
  | 0 => A
  | n + 1 =>
    if n < (pre ++ iterI new pre A n).length then
      addNew (iterI new pre A n) (new (pre ++ iterI new pre A n) n)
    else iterI new pre A n

theorem iterI_succ (new : List α → Nat → List α) (pre A : List α) (n : Nat) :
    iterI new pre A (n + 1) =
      if n < (pre ++ iterI new pre A n).length then
        addNew (iterI new pre A n) (new (pre ++ iterI new pre A n) n)
      else iterI new pre A n := rfl

theorem iterI_succ_prefix (new : List α → Nat → List α) (pre A : List α) (n : Nat) :
    ∃ e, iterI new pre A (n + 1) = iterI new pre A n ++ e := by
  rw [iterI_succ]
  split
  · exact addNew_prefix _ _
  · exact ⟨[], by simp⟩

theorem iterI_prefix (new : List α → Nat → List α) (pre A : List α) {n m : Nat} (h : n ≤ m) :
    ∃ e, iterI new pre A m = iterI new pre A n ++ e := by
  induction m with
  | zero =>
    have : n = 0 := by omega
    subst this; exact ⟨[], by simp⟩
  | succ m ih =>
    rcases Nat.lt_or_ge n (m + 1) with hlt | hge
    · obtain ⟨e1, he1⟩ := ih (by omega)
      obtain ⟨e2, he2⟩ := iterI_succ_prefix new pre A m
      exact ⟨e1 ++ e2, by rw [he2, he1, List.append_assoc]⟩
    · have : n = m + 1 := by omega
      subst this; exact ⟨[], by simp⟩

theorem iterI_init_prefix (new : List α → Nat → List α) (pre A : List α) (n : Nat) :
    ∃ e, iterI new pre A n = A ++ e := iterI_prefix new pre A (Nat.zero_le n)

theorem iterI_nodup (new : List α → Nat → List α) (pre : List α) {A : List α} (hA : A.Nodup)
    (n : Nat) : (iterI new pre A n).Nodup := by
  induction n with
  | zero => exact hA
  | succ n ih =>
    rw [iterI_succ]
    split
    · exact addNew_nodup _ ih
    · exact ih

/-- once the scan index has reached the end of the list nothing changes any more -/
theorem iterI_stable (new : List α → Nat → List α) (pre A : List α) {n : Nat}
    (h : (pre ++ iterI new pre A n).length ≤ n) (k : Nat) :
    iterI new pre A (n + k) = iterI new pre A n := by
  induction k with
  | zero => rfl
  | succ k ih =>
    rw [← Nat.add_assoc, iterI_succ, ih, if_neg (by omega)]

/-- the final state is unique -/
theorem iterI_terminal_unique (new : List α → Nat → List α) (pre A : List α) {n m : Nat}
    (hn : (pre ++ iterI new pre A n).length ≤ n) (hm : (pre ++ iterI new pre A m).length ≤ m) :
    iterI new pre A n = iterI new pre A m := by
  rcases Nat.le_total n m with h | h
  · have := iterI_stable new pre A hn (m - n)
    rw [show n + (m - n) = m by omega] at this
    exact this.symm
  · have := iterI_stable new pre A hm (n - m)
    rw [show m + (n - m) = n by omega] at this
    exact this

omit [DecidableEq α] in
theorem countP_take_succ (K : α → Bool) {L : List α} {n : Nat} {x : α} (hx : L[n]? = some x) :
    (L.take (n + 1)).countP K = (L.take n).countP K + (if K x then 1 else 0) := by
  rw [take_succ_of_getElem? L hx, List.countP_append]
  by_cases h : K x = true <;> simp [h]

omit [DecidableEq α] in
theorem countP_take_lt (K : α → Bool) {L : List α} {n : Nat} {x : α} (hx : L[n]? = some x)
    (hK : K x = true) : (L.take n).countP K < (L.filter K).length := by
  have h1 := countP_take_succ K hx
  rw [if_pos hK] at h1
  have h2 : (L.take (n + 1)).countP K ≤ L.countP K := by
    have := List.take_append_drop (n + 1) L
    conv => rhs; rw [← this, List.countP_append]
    omega
  rw [← List.countP_eq_length_filter]
  omega

/-- **restriction of an iteration to a property that is closed under "generated by"** -/
theorem iterI_restrict (K : α → Bool) (new0 new1 : List α → Nat → List α) (pre A : List α)
    (hc : ∀ n x, (pre ++ iterI new0 pre A n)[n]? = some x →
      (K x = true → (new0 (pre ++ iterI new0 pre A n) n).filter K =
        new1 ((pre ++ iterI new0 pre A n).filter K)
          (((pre ++ iterI new0 pre A n).take n).countP K)) ∧
      (K x = false → (new0 (pre ++ iterI new0 pre A n) n).filter K = [])) :
    ∀ n, n ≤ (pre ++ iterI new0 pre A n).length →
      (iterI new0 pre A n).filter K =
        iterI new1 (pre.filter K) (A.filter K)
          (((pre ++ iterI new0 pre A n).take n).countP K) := by
  intro n
  induction n with
  | zero => intro _; simp [iterI]
  | succ n ih =>
    intro hle
    have hlt : n < (pre ++ iterI new0 pre A n).length := by
      refine Decidable.byContradiction fun hnot => ?_
      rw [iterI_succ, if_neg hnot] at hle
      omega
    have ih' := ih (Nat.le_of_lt hlt)
    obtain ⟨x, hx⟩ : ∃ x, (pre ++ iterI new0 pre A n)[n]? = some x :=
      ⟨_, List.getElem?_eq_getElem hlt⟩
    obtain ⟨hc1, hc2⟩ := hc n x hx
    obtain ⟨e, he⟩ := iterI_succ_prefix new0 pre A n
    -- the scanned part does not change
    have htake : (pre ++ iterI new0 pre A (n + 1)).take (n + 1) =
        (pre ++ iterI new0 pre A n).take (n + 1) := by
      rw [he, ← List.append_assoc, List.take_append_of_le_length (by omega)]
    rw [htake, countP_take_succ K hx]
    generalize hcnt : ((pre ++ iterI new0 pre A n).take n).countP K = c at ih' hc1 ⊢
    rw [iterI_succ, if_pos hlt, addNew_filter, ih']
    by_cases hK : K x = true
    · rw [if_pos hK, hc1 hK, iterI_succ]
      have hfil : (pre ++ iterI new0 pre A n).filter K =
          pre.filter K ++ iterI new1 (pre.filter K) (A.filter K) c := by
        rw [List.filter_append, ih']
      have hclt : c < (pre.filter K ++ iterI new1 (pre.filter K) (A.filter K) c).length := by
        rw [← hfil, ← hcnt]; exact countP_take_lt K hx hK
      rw [if_pos hclt, hfil]
    · have hK' : K x = false := by simpa using hK
      rw [if_neg hK, hc2 hK', Nat.add_zero]
      rfl

/-- at the end of the unrestricted iteration the restricted one is at its end too -/
theorem iterI_restrict_terminal (K : α → Bool) (new0 new1 : List α → Nat → List α) (pre A : List α)
    (hc : ∀ n x, (pre ++ iterI new0 pre A n)[n]? = some x →
      (K x = true → (new0 (pre ++ iterI new0 pre A n) n).filter K =
        new1 ((pre ++ iterI new0 pre A n).filter K)
          (((pre ++ iterI new0 pre A n).take n).countP K)) ∧
      (K x = false → (new0 (pre ++ iterI new0 pre A n) n).filter K = []))
    {n : Nat} (hn : n = (pre ++ iterI new0 pre A n).length) :
    ∃ c, (iterI new0 pre A n).filter K = iterI new1 (pre.filter K) (A.filter K) c ∧
      (pre.filter K ++ iterI new1 (pre.filter K) (A.filter K) c).length ≤ c := by
  have h := iterI_restrict K new0 new1 pre A hc n (Nat.le_of_eq hn)
  refine ⟨_, h, ?_⟩
  rw [← h, ← List.filter_append]
  have : (pre ++ iterI new0 pre A n).take n = pre ++ iterI new0 pre A n := by
    rw [List.take_of_length_le (Nat.le_of_eq hn.symm)]
  rw [this, List.countP_eq_length_filter]
  exact Nat.le_refl _

/-! ## sorted duplicate-free lists -/

theorem eq_filter_of_pairwise {R : α → α → Prop} (hasym : ∀ a b, R a b → R b a → False) :
    ∀ {l0 l1 : List α}, l1.Pairwise R → l0.Pairwise R → l1 ⊆ l0 →
      l1 = l0.filter (fun x => decide (x ∈ l1)) := by
  intro l0
  induction l0 with
  | nil =>
    intro l1 _ _ hsub
    cases l1 with
    | nil => rfl
    | cons b l1' => exact absurd (hsub List.mem_cons_self) (by simp)
  | cons a l0' ih =>
    intro l1 h1 h0 hsub
    obtain ⟨ha0, h0'⟩ := List.pairwise_cons.mp h0
    have hairr : ∀ x, ¬ R x x := fun x h => hasym x x h h
    have ha_notin : a ∉ l0' := fun h => hairr a (ha0 a h)
    by_cases ha : a ∈ l1
    · cases l1 with
      | nil => cases ha
      | cons b l1' =>
        obtain ⟨hb1, h1'⟩ := List.pairwise_cons.mp h1
        have hba : b = a := by
          refine Decidable.byContradiction fun hne => ?_
          have ha' : a ∈ l1' := by
            rcases List.mem_cons.mp ha with h | h
            · exact absurd h.symm hne
            · exact h
          have hb0 : b ∈ l0' := by
            rcases List.mem_cons.mp (hsub List.mem_cons_self) with h | h
            · exact absurd h hne
            · exact h
          exact hasym _ _ (hb1 a ha') (ha0 b hb0)
        subst hba
        have hsub' : l1' ⊆ l0' := by
          intro c hc
          rcases List.mem_cons.mp (hsub (List.mem_cons_of_mem _ hc)) with h | h
          · subst h; exact absurd (hb1 c hc) (hairr c)
          · exact h
        rw [List.filter_cons_of_pos (by simp)]
        congr 1
        have := ih h1' h0' hsub'
        refine this.trans ?_
        apply List.filter_congr
        intro x hx
        have hxb : x ≠ b := fun h => ha_notin (h ▸ hx)
        simp [hxb]
    · rw [List.filter_cons_of_neg (by simpa using ha)]
      apply ih h1 h0'
      intro c hc
      rcases List.mem_cons.mp (hsub hc) with h | h
      · subst h; exact absurd hc ha
      · exact h

end

/-! ## `filter`, `flatMap`, `take` -/

theorem filter_flatMap_of_nil {α β : Type} (q : α → Bool) (f : α → List β) (l : List α)
    (h : ∀ x ∈ l, q x = false → f x = []) : (l.filter q).flatMap f = l.flatMap f := by
  induction l with
  | nil => rfl
  | cons a l ih =>
    have ih' := ih (fun x hx => h x (List.mem_cons_of_mem _ hx))
    by_cases hq : q a = true
    · rw [List.filter_cons_of_pos hq, List.flatMap_cons, List.flatMap_cons, ih']
    · rw [List.filter_cons_of_neg hq, List.flatMap_cons, ih',
        h a List.mem_cons_self (by simpa using hq), List.nil_append]

theorem filter_flatMap {α β : Type} (p : β → Bool) (f : α → List β) (l : List α) :
    (l.flatMap f).filter p = l.flatMap fun x => (f x).filter p := by
  induction l with
  | nil => rfl
  | cons a l ih => rw [List.flatMap_cons, List.flatMap_cons, List.filter_append, ih]

/-- the first `countP` elements of the filtered list are the filtered prefix -/
theorem filter_take_countP {α : Type} (K : α → Bool) (L : List α) (n : Nat) :
    (L.filter K).take ((L.take n).countP K) = (L.take n).filter K := by
  have h := List.take_append_drop n L
  have e : L.filter K = (L.take n).filter K ++ (L.drop n).filter K := by
    conv => lhs; rw [← h, List.filter_append]
  rw [e, List.countP_eq_length_filter, List.take_left']
  rfl

end Yaep.LI
