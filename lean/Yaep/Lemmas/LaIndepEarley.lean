import Yaep.Lemmas.MakeParseFlagEarley
/-!
# Lookahead independence, part 1: the level-1 sets are closed "downwards"

`hered`: if the item `(r, d, i)` is in the level-1 set `k`, the symbols `β` after its dot derive
the tokens `w[k, k + |u|)` and the item with the dot after `β` passes the level-1 test at the end
of that segment, then this item is in the level-1 set `k + |u|` — every intermediate item of the
derivation passes its own test (`ok_of_der`: its tail starts with the next token, or is nullable
and inherits the test of the final item; a completed item below inherits it through FOLLOW,
`laSub_follow`).

So a level-1 set lacks, compared with the unfiltered set, only items that fail the test themselves
or hang below such an item.
-/
namespace Yaep.LI
open Yaep

/-- the level-1 filter of `build_pl` for the token string `w'` (end marker included) -/
abbrev ok1 (g : Grammar) (w' : List Nat) : Nat → Nat → Nat → Bool := laFilter g g.analysis 1 w'

/-- the level-1 declarative sets -/
abbrev F1 (g : Grammar) (w' : List Nat) : Nat → Item → Prop := EarleyF g (ok1 g w') w'

/-- the level-0 (unfiltered) declarative sets -/
abbrev F0 (g : Grammar) (w' : List Nat) : Nat → Item → Prop :=
  EarleyF g (laFilter g g.analysis 0 w') w'

/-- the lookahead set of `(r, d)` is contained in the one of `(r', d')` -/
def LaSub (g : Grammar) (r d r' d' : Nat) : Prop :=
  ∀ c, c ∈ laSet g g.analysis r d → c ∈ laSet g g.analysis r' d'

theorem ok1_eq (g : Grammar) (w' : List Nat) (j r d : Nat) :
    ok1 g w' j r d = match w'[j]? with
      | none => true
      | some a => (laSet g g.analysis r d).contains a || (laSet g g.analysis r d).contains g.errT := by
  unfold ok1 laFilter okItem
  cases w'[j]? <;> rfl

theorem ok1_none {g : Grammar} {w' : List Nat} {j : Nat} (h : w'[j]? = none) (r d : Nat) :
    ok1 g w' j r d = true := by
  rw [ok1_eq, h]

theorem ok1_mono {g : Grammar} {w' : List Nat} {j r d r' d' : Nat} (hs : LaSub g r d r' d')
    (h : ok1 g w' j r d = true) : ok1 g w' j r' d' = true := by
  rw [ok1_eq] at h ⊢
  cases hw : w'[j]? with
  | none => rfl
  | some a =>
    rw [hw] at h
    simp only [Bool.or_eq_true, List.contains_iff_mem] at h ⊢
    rcases h with h | h
    · exact Or.inl (hs _ h)
    · exact Or.inr (hs _ h)

theorem mem_laSet_iff' {g : Grammar} {an : Analysis} {r d c : Nat} {rl : Rule}
    (hr : g.rules[r]? = some rl) :
    c ∈ laSet g an r d ↔
      c ∈ (firstOfStr an.nl an.fs (rl.rhs.drop d)).1 ∨
      ((firstOfStr an.nl an.fs (rl.rhs.drop d)).2 = true ∧ (rl.lhs, c) ∈ an.fl) := by
  constructor
  · intro h
    unfold laSet at h
    rw [hr] at h
    by_cases he : (firstOfStr an.nl an.fs (rl.rhs.drop d)).2 = true
    · simp only [he, if_true] at h
      rcases List.mem_append.mp h with h | h
      · exact Or.inl h
      · exact Or.inr ⟨he, mem_filterMap_fst.mp h⟩
    · simp only [he] at h
      exact Or.inl (by simpa using h)
  · exact mem_laSet_of' hr

theorem mem_laSet_iff {g : Grammar} {r d c : Nat} {rl : Rule} (hr : g.rules[r]? = some rl) :
    c ∈ laSet g g.analysis r d ↔
      c ∈ (firstOfStr g.nullable g.firstTab (rl.rhs.drop d)).1 ∨
      ((firstOfStr g.nullable g.firstTab (rl.rhs.drop d)).2 = true ∧ (rl.lhs, c) ∈ g.followTab) :=
  mem_laSet_iff' (an := g.analysis) hr

/-- the dot moves back over a nullable nonterminal: the lookahead set grows -/
theorem laSub_nullable {g : Grammar} {r d B : Nat} {rl : Rule} (hr : g.rules[r]? = some rl)
    (hs : rl.rhs[d]? = some (Sym.n B)) (hn : B ∈ g.nullable) : LaSub g r (d + 1) r d := by
  intro c hc
  rw [mem_laSet_iff hr] at hc ⊢
  have hsplit : rl.rhs.drop d = Sym.n B :: rl.rhs.drop (d + 1) := by
    obtain ⟨hlt, he⟩ := List.getElem?_eq_some_iff.mp hs
    rw [List.drop_eq_getElem_cons hlt, he]
  rw [hsplit]
  rcases hc with hc | ⟨he, hc⟩
  · exact Or.inl (mem_firstOfStr_n.mpr (Or.inr ⟨hn, hc⟩))
  · exact Or.inr ⟨firstOfStr_n_snd.mpr ⟨hn, he⟩, hc⟩

/-- … over a nullable string -/
theorem laSub_nullable_str {g : Grammar} {r : Nat} {rl : Rule} (hr : g.rules[r]? = some rl) :
    ∀ (ss : List Sym) (d : Nat) (rest : List Sym), rl.rhs.drop d = ss ++ rest → Der g ss [] →
      LaSub g r (d + ss.length) r d := by
  intro ss
  induction ss with
  | nil => intro d rest _ _ c hc; simpa using hc
  | cons s ss ih =>
    intro d rest hdrop hd
    obtain ⟨hsym, hdrop'⟩ := drop_succ_of_drop_cons (by simpa using hdrop)
    have hall := hd.forall_of_nil
    have hs1 : Der g [s] [] := hall s List.mem_cons_self
    have hrest : Der g ss [] := Der.nil_of_forall fun x hx => hall x (List.mem_cons_of_mem _ hx)
    cases s with
    | t a => exact absurd hs1 Der.not_t_nil
    | n B =>
      have hn : B ∈ g.nullable := by
        have := symNullable_iff.mpr hs1
        simpa [symNullable] using this
      have h1 := ih (d + 1) rest hdrop' hrest
      have h2 := laSub_nullable hr hsym hn
      intro c hc
      apply h2
      apply h1
      have e : d + (Sym.n B :: ss).length = d + 1 + ss.length := by
        simp only [List.length_cons]; omega
      rw [e] at hc
      exact hc

/-- a completed item of `B` inherits the test of the item whose dot moved over `B` (FOLLOW) -/
theorem laSub_follow {g : Grammar} (hsr : g.symsInRange = true) {r d r' : Nat} {rl rl' : Rule}
    (hr : g.rules[r]? = some rl) (hs : rl.rhs[d]? = some (Sym.n rl'.lhs))
    (hr' : g.rules[r']? = some rl') : LaSub g r (d + 1) r' rl'.rhs.length := by
  intro c hc
  rw [mem_laSet_iff hr] at hc
  rw [mem_laSet_iff hr', List.drop_length]
  right
  refine ⟨rfl, ?_⟩
  have hsuf : (rl'.lhs, rl.rhs.drop (d + 1)) ∈ ntSuffixes rl.rhs :=
    mem_ntSuffixes.mpr ⟨rl.rhs.take d, rhs_split_of_getElem? hs⟩
  apply followTab_closed hsr
  exact mem_followStep.mpr ⟨rl, List.mem_of_getElem? hr, _, hsuf, hc⟩

theorem mem_firstOfStr_append_left {nl : List Nat} {fs : List (Nat × Nat)} {c : Nat} :
    ∀ (ss rest : List Sym), c ∈ (firstOfStr nl fs ss).1 → c ∈ (firstOfStr nl fs (ss ++ rest)).1 := by
  intro ss
  induction ss with
  | nil => intro rest h; simp at h
  | cons s ss ih =>
    intro rest h
    cases s with
    | t a => simpa using h
    | n B =>
      rw [List.cons_append]
      rw [mem_firstOfStr_n] at h ⊢
      rcases h with h | ⟨hn, h⟩
      · exact Or.inl h
      · exact Or.inr ⟨hn, ih rest h⟩

/-- the tail of the item starts with the next token: the test passes -/
theorem ok1_of_first {g : Grammar} {w' : List Nat} {m r d c : Nat} {rl : Rule}
    (hr : g.rules[r]? = some rl) (hw : w'[m]? = some c)
    (hc : c ∈ (firstOfStr g.nullable g.firstTab (rl.rhs.drop d)).1) : ok1 g w' m r d = true := by
  rw [ok1_eq, hw]
  simp only [Bool.or_eq_true, List.contains_iff_mem]
  exact Or.inl ((mem_laSet_iff hr).mpr (Or.inl hc))

/-- the test of an item whose tail starts with `ss`, where `ss` derives the tokens from `m` on and the
item with the dot after `ss` passes the test at the end of these tokens -/
theorem ok_of_der {g : Grammar} (hsr : g.symsInRange = true) {w' : List Nat} {r : Nat} {rl : Rule}
    (hr : g.rules[r]? = some rl) {ss rest : List Sym} {u : List Nat} {d m : Nat}
    (hdrop : rl.rhs.drop d = ss ++ rest) (hd : Der g ss u) (hsl : slice w' m (m + u.length) = u)
    (hfin : ok1 g w' (m + u.length) r (d + ss.length) = true) : ok1 g w' m r d = true := by
  cases u with
  | nil =>
    have := laSub_nullable_str hr ss d rest hdrop hd
    simp only [List.length_nil, Nat.add_zero] at hfin
    exact ok1_mono this hfin
  | cons c u' =>
    obtain ⟨hw, _, _⟩ := slice_cons hsl
    apply ok1_of_first hr hw
    rw [hdrop]
    exact mem_firstOfStr_append_left ss rest (first_closed_aux hsr hd c u' rfl)

/-- **the level-1 sets are closed along derivations whose last item passes the test** -/
theorem hered {g : Grammar} (hsr : g.symsInRange = true) {w' : List Nat} {β : List Sym}
    {u : List Nat} (hd : Der g β u) :
    ∀ (r d i k : Nat) (rest : List Sym) (rl : Rule), F1 g w' k ⟨r, d, i⟩ →
      g.rules[r]? = some rl → rl.rhs.drop d = β ++ rest → slice w' k (k + u.length) = u →
      (0 < u.length → ok1 g w' (k + u.length) r (d + β.length) = true) →
      F1 g w' (k + u.length) ⟨r, d + β.length, i⟩ := by
  induction hd with
  | nil => intro r d i k rest rl h _ _ _ _; simpa using h
  | @term a ss w1 hss ih =>
    intro r d i k rest rl h hr hrest hs hfin
    obtain ⟨hsym, hdrop⟩ := drop_succ_of_drop_cons (by simpa using hrest)
    obtain ⟨hw, hs', _⟩ := slice_cons hs
    have hns : g.nextSym r d = some (Sym.t a) := nextSym_eq_some.mpr ⟨rl, hr, hsym⟩
    have e1 : k + 1 + w1.length = k + (a :: w1).length := by simp only [List.length_cons]; omega
    have e2 : d + 1 + ss.length = d + (Sym.t a :: ss).length := by
      simp only [List.length_cons]; omega
    rw [← e1] at hs'
    have hfin' : ok1 g w' (k + 1 + w1.length) r (d + 1 + ss.length) = true := by
      rw [e1, e2]; exact hfin (by simp)
    have hok : ok1 g w' (k + 1) r (d + 1) = true := ok_of_der hsr hr hdrop hss hs' hfin'
    have h1 : F1 g w' (k + 1) ⟨r, d + 1, i⟩ := EarleyF.scan h hns hw hok
    have := ih r (d + 1) i (k + 1) rest rl h1 hr hdrop hs' (fun _ => hfin')
    rw [e1, e2] at this
    exact this
  | @nt r' rl' ss u' v' hr' _ hss ih1 ih2 =>
    intro r d i k rest rl h hr hrest hs hfin
    obtain ⟨hsym, hdrop⟩ := drop_succ_of_drop_cons (by simpa using hrest)
    have hns : g.nextSym r d = some (Sym.n rl'.lhs) := nextSym_eq_some.mpr ⟨rl, hr, hsym⟩
    have hlen : k + (u' ++ v').length = (k + u'.length) + v'.length := by
      simp only [List.length_append]; omega
    have e2 : d + 1 + ss.length = d + (Sym.n rl'.lhs :: ss).length := by
      simp only [List.length_cons]; omega
    rw [hlen] at hs
    obtain ⟨hs1, hs2⟩ := slice_split hs
    -- the test of the item with the dot after the nonterminal, when the segment is not empty
    have hmid : 0 < (u' ++ v').length → ok1 g w' (k + u'.length) r (d + 1) = true := by
      intro hpos
      have hf := hfin hpos
      rw [hlen, ← e2] at hf
      exact ok_of_der hsr hr hdrop hss hs2 hf
    have hp : F1 g w' k ⟨r', 0, k⟩ := EarleyF.predict h hns hr' rfl
    have hc := ih1 r' 0 k k [] rl' hp hr' (by simp) hs1 (by
      intro hpos
      rw [Nat.zero_add]
      exact ok1_mono (laSub_follow hsr hr hsym hr') (hmid (by simp only [List.length_append]; omega)))
    rw [Nat.zero_add] at hc
    have hcomp : F1 g w' (k + u'.length) ⟨r, d + 1, i⟩ :=
      EarleyF.complete hr' hc h hns (fun hlt => hmid (by simp only [List.length_append]; omega))
    have := ih2 r (d + 1) i (k + u'.length) rest rl hcomp hr hdrop hs2 (by
      intro hpos
      have hf := hfin (by simp only [List.length_append]; omega)
      rw [hlen, ← e2] at hf
      exact hf)
    rw [← hlen, e2] at this
    exact this

/-- the form used by the simulation: from the predicted item of the rule to any item of the
unfiltered set that passes the test -/
theorem hered_item {g : Grammar} (hsr : g.symsInRange = true) {w' : List Nat} {r d k j : Nat}
    {rl : Rule} (hr : g.rules[r]? = some rl) (hd : d ≤ rl.rhs.length)
    (hp : F1 g w' k ⟨r, 0, k⟩) (hkj : k ≤ j) (hj : j ≤ w'.length)
    (hder : Der g (rl.rhs.take d) (slice w' k j))
    (hok : k < j → ok1 g w' j r d = true) : F1 g w' j ⟨r, d, k⟩ := by
  have hlen : (slice w' k j).length = j - k := by
    unfold slice
    rw [List.length_take, List.length_drop]; omega
  have hkj' : k + (slice w' k j).length = j := by rw [hlen]; omega
  have hdl : (rl.rhs.take d).length = d := by rw [List.length_take]; omega
  have := hered hsr hder r 0 k k (rl.rhs.drop d) rl hp hr (by simp) (by rw [hkj']) (by
    intro hpos
    rw [hkj', Nat.zero_add, hdl]
    exact hok (by rw [hlen] at hpos; omega))
  rw [hkj', Nat.zero_add, hdl] at this
  exact this

/-- every item of a level-1 set is in the unfiltered set -/
theorem F1_sub_F0 {g : Grammar} {w' : List Nat} {j : Nat} {it : Item} (h : F1 g w' j it) :
    F0 g w' j it :=
  h.congr_mono (fun _ _ => rfl) (fun _ _ _ _ _ => laFilter_zero _ _ _ _ _ _)

end Yaep.LI
