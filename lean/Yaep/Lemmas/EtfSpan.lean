import Yaep.Lemmas.Earley
import Yaep.Lemmas.EarleyLA
import Yaep.Lemmas.ListSets
/-!
# Span models of a grammar: a semantic invariant of the Earley sets (any grammar)

A *span model* gives, for every nonterminal `A`, a predicate `NS A i j` ("the tokens `[i, j)` may
be a phrase of `A`") and a predicate `LC A i` ("a phrase of `A` may start at `i`").  If the model
is *sound* for the grammar and the token string (`SpanModel.Sound`: the spans compose along the
right-hand sides, the axiom may start at 0, and the left contexts follow the predictions) then
every item `(r, d, i)` of every declarative Earley set `j` (every lookahead filter) satisfies:
`i` is a possible start of the left-hand side and the part of the right-hand side before the dot
spans `[i, j)` (`EarleyF.itemSpan`).

If moreover the model is *backward deterministic* (`SpanModel.Det`: a phrase of `A` that ends at
`j` and starts at a possible start of `A` has only one possible start) then an item of a set is
determined by its rule and dot (`EarleyF.origin_unique`): every set of the parse list has at most
as many items as there are dotted rules — a bound that does not depend on the input
(`buildPL_length_le_of_det`).

Also here: the conditional bound "few origins per set ⇒ few items per set ⇒ linear total"
(`buildPL_set_le_of_origins`, `buildPL_total_le_of_origins`).
-/
namespace Yaep.ETF
open Yaep

/-! ## span models -/

structure SpanModel where
  /-- `NS A i j`: the tokens `[i, j)` may be a phrase of the nonterminal `A` -/
  NS : Nat → Nat → Nat → Prop
  /-- `LC A i`: a phrase of the nonterminal `A` may start at position `i` -/
  LC : Nat → Nat → Prop

def SymSpan (w : List Nat) (M : SpanModel) : Sym → Nat → Nat → Prop
  | .t a, i, j => j = i + 1 ∧ w[i]? = some a
  | .n A, i, j => M.NS A i j

def SeqSpan (w : List Nat) (M : SpanModel) : List Sym → Nat → Nat → Prop
  | [], i, j => i = j
  | X :: α, i, j => ∃ k, SymSpan w M X i k ∧ SeqSpan w M α k j

theorem SeqSpan_append {w : List Nat} {M : SpanModel} {α β : List Sym} {i j : Nat} :
    SeqSpan w M (α ++ β) i j ↔ ∃ k, SeqSpan w M α i k ∧ SeqSpan w M β k j := by
  induction α generalizing i with
  | nil =>
    constructor
    · intro h; exact ⟨i, rfl, h⟩
    · rintro ⟨k, hk, h⟩
      have : i = k := hk
      subst this; exact h
  | cons X α ih =>
    constructor
    · rintro ⟨k, h1, h2⟩
      obtain ⟨m, h3, h4⟩ := ih.mp h2
      exact ⟨m, ⟨k, h1, h3⟩, h4⟩
    · rintro ⟨m, ⟨k, h1, h3⟩, h4⟩
      exact ⟨k, h1, ih.mpr ⟨m, h3, h4⟩⟩

theorem SeqSpan_single {w : List Nat} {M : SpanModel} {X : Sym} {i j : Nat} :
    SeqSpan w M [X] i j ↔ SymSpan w M X i j := by
  constructor
  · rintro ⟨k, h1, h2⟩
    have : k = j := h2
    subst this; exact h1
  · intro h; exact ⟨j, h, rfl⟩

theorem SeqSpan_snoc {w : List Nat} {M : SpanModel} {α : List Sym} {X : Sym} {i j : Nat} :
    SeqSpan w M (α ++ [X]) i j ↔ ∃ k, SeqSpan w M α i k ∧ SymSpan w M X k j := by
  rw [SeqSpan_append]
  constructor
  · rintro ⟨k, h1, h2⟩; exact ⟨k, h1, SeqSpan_single.mp h2⟩
  · rintro ⟨k, h1, h2⟩; exact ⟨k, h1, SeqSpan_single.mpr h2⟩

/-- the model is sound for the grammar `g` and the tokens `w` -/
structure SpanModel.Sound (M : SpanModel) (g : Grammar) (w : List Nat) : Prop where
  /-- a right-hand side that spans `[k, j)` makes `[k, j)` a phrase of the left-hand side -/
  rule : ∀ (r : Nat) (rl : Rule) (k j : Nat), g.rules[r]? = some rl → M.LC rl.lhs k → SeqSpan w M rl.rhs k j →
    M.NS rl.lhs k j
  /-- the axiom may start at 0 -/
  init : M.LC g.axiomN 0
  /-- the left context of a predicted nonterminal -/
  pred : ∀ (r : Nat) (rl : Rule) (d B i j : Nat), g.rules[r]? = some rl → rl.rhs[d]? = some (Sym.n B) → M.LC rl.lhs i →
    SeqSpan w M (rl.rhs.take d) i j → M.LC B j

/-- what the model says about the item `it` of set `j` -/
def ItemSpan (M : SpanModel) (g : Grammar) (w : List Nat) (j : Nat) (it : Item) : Prop :=
  ∃ rl, g.rules[it.rule]? = some rl ∧ it.dot ≤ rl.rhs.length ∧ M.LC rl.lhs it.origin ∧
    SeqSpan w M (rl.rhs.take it.dot) it.origin j

/-- **every item of every Earley set satisfies a sound span model** (any lookahead filter) -/
theorem EarleyF.itemSpan {M : SpanModel} {g : Grammar} {w : List Nat} (hM : M.Sound g w)
    {ok : Nat → Nat → Nat → Bool} {j : Nat} {it : Item} (h : EarleyF g ok w j it) :
    ItemSpan M g w j it := by
  induction h with
  | @init r rl hr hl =>
    refine ⟨rl, hr, Nat.zero_le _, ?_, ?_⟩
    · show M.LC rl.lhs 0
      rw [hl]; exact hM.init
    · show SeqSpan w M (rl.rhs.take 0) 0 0
      rw [List.take_zero]; rfl
  | @scan j r d i a _ hs hw _ ih =>
    obtain ⟨rl, hr, _, hlc, hsp⟩ := ih
    simp only at hr hlc hsp
    obtain ⟨rl', hr', hs'⟩ := nextSym_eq_some.mp hs
    rw [hr] at hr'; injection hr' with hr'; subst hr'
    have hlt := (List.getElem?_eq_some_iff.mp hs').1
    refine ⟨rl, hr, hlt, hlc, ?_⟩
    show SeqSpan w M (rl.rhs.take (d + 1)) i (j + 1)
    rw [take_succ_of_getElem? _ hs', SeqSpan_snoc]
    exact ⟨j, hsp, rfl, hw⟩
  | @predict j r d i B r' rl' _ hs hr' hl ih =>
    obtain ⟨rl, hr, _, hlc, hsp⟩ := ih
    simp only at hr hlc hsp
    obtain ⟨rl2, hr2, hs'⟩ := nextSym_eq_some.mp hs
    rw [hr] at hr2; injection hr2 with hr2; subst hr2
    refine ⟨rl', hr', Nat.zero_le _, ?_, ?_⟩
    · show M.LC rl'.lhs j
      rw [hl]; exact hM.pred r rl d B i j hr hs' hlc hsp
    · show SeqSpan w M (rl'.rhs.take 0) j j
      rw [List.take_zero]; rfl
  | @complete j k r d i r' rl' hr' _ _ hs _ ih1 ih2 =>
    obtain ⟨rl1, hr1, _, hlc1, hsp1⟩ := ih1
    obtain ⟨rl, hr, _, hlc, hsp⟩ := ih2
    simp only at hr1 hlc1 hsp1 hr hlc hsp
    rw [hr'] at hr1; injection hr1 with hr1; subst hr1
    obtain ⟨rl2, hr2, hs'⟩ := nextSym_eq_some.mp hs
    rw [hr] at hr2; injection hr2 with hr2; subst hr2
    have hlt := (List.getElem?_eq_some_iff.mp hs').1
    rw [List.take_length] at hsp1
    refine ⟨rl, hr, hlt, hlc, ?_⟩
    show SeqSpan w M (rl.rhs.take (d + 1)) i j
    rw [take_succ_of_getElem? _ hs', SeqSpan_snoc]
    exact ⟨k, hsp, hM.rule r' rl' k j hr' hlc1 hsp1⟩

/-! ## backward-deterministic models -/

/-- a phrase of `A` that ends at `j` and starts at a possible start of `A` has one start -/
structure SpanModel.Det (M : SpanModel) : Prop where
  uniq : ∀ A i i' j, M.LC A i → M.LC A i' → M.NS A i j → M.NS A i' j → i = i'

theorem SeqSpan_take_det {M : SpanModel} {g : Grammar} {w : List Nat} (hM : M.Sound g w)
    (hD : M.Det) {r : Nat} {rl : Rule} (hr : g.rules[r]? = some rl) :
    ∀ d, d ≤ rl.rhs.length → ∀ i i' j, M.LC rl.lhs i → M.LC rl.lhs i' →
      SeqSpan w M (rl.rhs.take d) i j → SeqSpan w M (rl.rhs.take d) i' j → i = i' := by
  intro d
  induction d with
  | zero =>
    intro _ i i' j _ _ h1 h2
    rw [List.take_zero] at h1 h2
    have e1 : i = j := h1
    have e2 : i' = j := h2
    rw [e1, e2]
  | succ d ih =>
    intro hd i i' j hl hl' h1 h2
    have hlt : d < rl.rhs.length := hd
    have hX : rl.rhs[d]? = some rl.rhs[d] := List.getElem?_eq_getElem hlt
    rw [take_succ_of_getElem? _ hX, SeqSpan_snoc] at h1 h2
    obtain ⟨k, h1a, h1b⟩ := h1
    obtain ⟨k', h2a, h2b⟩ := h2
    have hk : k = k' := by
      cases hsym : rl.rhs[d] with
      | t a =>
        rw [hsym] at h1b h2b
        have e1 : j = k + 1 := h1b.1
        have e2 : j = k' + 1 := h2b.1
        omega
      | n B =>
        rw [hsym] at h1b h2b hX
        exact hD.uniq B k k' j (hM.pred r rl d B i k hr hX hl h1a)
          (hM.pred r rl d B i' k' hr hX hl' h2a) h1b h2b
    subst hk
    exact ih (Nat.le_of_lt hlt) i i' k hl hl' h1a h2a

/-- **in a sound, backward-deterministic model an item of an Earley set is determined by its
rule and its dot** -/
theorem EarleyF.origin_unique {M : SpanModel} {g : Grammar} {w : List Nat} (hM : M.Sound g w)
    (hD : M.Det) {ok : Nat → Nat → Nat → Bool} {j r d i i' : Nat}
    (h : EarleyF g ok w j ⟨r, d, i⟩) (h' : EarleyF g ok w j ⟨r, d, i'⟩) : i = i' := by
  obtain ⟨rl, hr, hd, hlc, hsp⟩ := EarleyF.itemSpan hM h
  obtain ⟨rl', hr', _, hlc', hsp'⟩ := EarleyF.itemSpan hM h'
  simp only at hr hd hlc hsp hr' hlc' hsp'
  rw [hr] at hr'; injection hr' with hr'; subst hr'
  exact SeqSpan_take_det hM hD hr d hd i i' j hlc hlc' hsp hsp'

/-! ## counting -/

theorem etf_nodup_map_of_inj_on {α β : Type} {l : List α} {f : α → β} (hl : l.Nodup)
    (hinj : ∀ a ∈ l, ∀ b ∈ l, f a = f b → a = b) : (l.map f).Nodup := by
  induction l with
  | nil => simp
  | cons x l ih =>
    have hx := List.nodup_cons.1 hl
    simp only [List.map_cons]
    refine List.nodup_cons.2 ⟨?_, ih hx.2 fun a ha b hb => hinj a (by simp [ha]) b (by simp [hb])⟩
    intro hmem
    obtain ⟨y, hy, hfy⟩ := List.mem_map.1 hmem
    have := hinj y (by simp [hy]) x (by simp) hfy
    subst this
    exact hx.1 hy

/-- the dotted rules `(r, d)`, `r < n`, `d ≤ m` -/
def dottedUniv (n m : Nat) : List (Nat × Nat) :=
  (List.range n).flatMap fun r => (List.range (m + 1)).map fun d => (r, d)

theorem mem_dottedUniv {n m : Nat} {p : Nat × Nat} :
    p ∈ dottedUniv n m ↔ p.1 < n ∧ p.2 ≤ m := by
  unfold dottedUniv
  simp only [List.mem_flatMap, List.mem_map, List.mem_range]
  constructor
  · rintro ⟨r, hr, d, hd, rfl⟩; exact ⟨hr, Nat.le_of_lt_succ hd⟩
  · rintro ⟨h1, h2⟩; exact ⟨p.1, h1, p.2, Nat.lt_succ_of_le h2, rfl⟩

theorem length_dottedUniv (n m : Nat) : (dottedUniv n m).length = n * (m + 1) := by
  unfold dottedUniv
  rw [length_flatMap_const _ _ (m + 1), List.length_range]
  intro r _
  rw [List.length_map, List.length_range]

/-- the items `(r, d, o)`, `r < n`, `d ≤ m`, `o ∈ O` -/
def originUniv (n m : Nat) (O : List Nat) : List Item :=
  O.flatMap fun o => (dottedUniv n m).map fun p => ⟨p.1, p.2, o⟩

theorem mem_originUniv {n m : Nat} {O : List Nat} {x : Item} :
    x ∈ originUniv n m O ↔ x.rule < n ∧ x.dot ≤ m ∧ x.origin ∈ O := by
  unfold originUniv
  simp only [List.mem_flatMap, List.mem_map]
  constructor
  · rintro ⟨o, ho, p, hp, rfl⟩
    obtain ⟨h1, h2⟩ := mem_dottedUniv.mp hp
    exact ⟨h1, h2, ho⟩
  · rintro ⟨h1, h2, h3⟩
    exact ⟨x.origin, h3, (x.rule, x.dot), mem_dottedUniv.mpr ⟨h1, h2⟩, rfl⟩

theorem length_originUniv (n m : Nat) (O : List Nat) :
    (originUniv n m O).length = O.length * (n * (m + 1)) := by
  unfold originUniv
  rw [length_flatMap_const _ _ (n * (m + 1))]
  intro o _
  rw [List.length_map, length_dottedUniv]

/-- the executable set `j` of any grammar: its items, declaratively -/
theorem buildPL_item {g : Grammar} {la : Nat} {w : List Nat} {j : Nat}
    (h : j < (buildPL g la w).2.length) {it : Item} (hit : it ∈ (buildPL g la w).2[j]) :
    EarleyF g (laFilter g g.analysis la (w ++ [g.eofT])) (w ++ [g.eofT]) j it :=
  (buildPL_mem_iff g la w j h it).mp hit

theorem buildPL_item_in_range {g : Grammar} {la : Nat} {w : List Nat} {j : Nat}
    (h : j < (buildPL g la w).2.length) {it : Item} (hit : it ∈ (buildPL g la w).2[j]) :
    it.rule < g.rules.length ∧ it.dot ≤ g.maxRhs ∧ it.origin ≤ j :=
  mem_itemUniv.mp (buildPL_item h hit).sound.in_univ

/-- **bounded origins ⇒ bounded set** (any grammar, any input, any lookahead level of the
model): a set all of whose origins are among the `c` elements of `O` has at most
`c * |rules| * (maxRhs + 1)` items -/
theorem buildPL_set_le_of_origins (g : Grammar) (la : Nat) (w : List Nat) (j : Nat)
    (h : j < (buildPL g la w).2.length) (O : List Nat)
    (hO : ∀ it ∈ (buildPL g la w).2[j], it.origin ∈ O) :
    ((buildPL g la w).2[j]).length ≤ O.length * (g.rules.length * (g.maxRhs + 1)) := by
  rw [← length_originUniv]
  apply nodup_subset_length (buildPL_nodup _ _ _ _ (List.getElem_mem h))
  intro it hit
  obtain ⟨h1, h2, _⟩ := buildPL_item_in_range h hit
  exact mem_originUniv.mpr ⟨h1, h2, hO it hit⟩

theorem sum_map_le_mul {α : Type} (l : List α) (f : α → Nat) (c : Nat) (h : ∀ x ∈ l, f x ≤ c) :
    (l.map f).sum ≤ c * l.length := by
  induction l with
  | nil => simp
  | cons a l ih =>
    have h1 := h a (List.mem_cons_self ..)
    have h2 := ih (fun x hx => h x (List.mem_cons_of_mem _ hx))
    rw [List.map_cons, List.sum_cons, List.length_cons, Nat.mul_succ]
    omega

/-- a bound on every set bounds the total number of items of the parse list: linear in the
number of tokens -/
theorem buildPL_total_le (g : Grammar) (la : Nat) (w : List Nat) (C : Nat)
    (hC : ∀ s ∈ (buildPL g la w).2, s.length ≤ C) :
    ((buildPL g la w).2.map List.length).sum ≤ C * (w.length + 2) := by
  have h1 := sum_map_le_mul (buildPL g la w).2 List.length C hC
  have h2 := buildPL_length_le g la w
  rw [List.length_append, List.length_singleton] at h2
  exact Nat.le_trans h1 (Nat.mul_le_mul_left C h2)

/-- **bounded origins per set ⇒ linear total work**: if every set of the parse list mentions at
most `c` different origins then the parse list has at most `c * |rules| * (maxRhs + 1) * (|w| + 2)`
items altogether -/
theorem buildPL_total_le_of_origins (g : Grammar) (la : Nat) (w : List Nat) (c : Nat)
    (hO : ∀ s ∈ (buildPL g la w).2, ∃ O : List Nat, O.length ≤ c ∧ ∀ it ∈ s, it.origin ∈ O) :
    ((buildPL g la w).2.map List.length).sum ≤
      c * (g.rules.length * (g.maxRhs + 1)) * (w.length + 2) := by
  apply buildPL_total_le
  intro s hs
  obtain ⟨j, hj, rfl⟩ := List.getElem_of_mem hs
  obtain ⟨O, hOc, hO'⟩ := hO _ (List.getElem_mem hj)
  exact Nat.le_trans (buildPL_set_le_of_origins g la w j hj O hO')
    (Nat.mul_le_mul_right _ hOc)

/-- **a sound backward-deterministic span model bounds every set by the number of dotted
rules**, whatever the input -/
theorem buildPL_length_le_of_det {M : SpanModel} (g : Grammar) (la : Nat) (w : List Nat)
    (hM : M.Sound g (w ++ [g.eofT])) (hD : M.Det) (j : Nat) (h : j < (buildPL g la w).2.length) :
    ((buildPL g la w).2[j]).length ≤ g.rules.length * (g.maxRhs + 1) := by
  have hnd := buildPL_nodup _ _ _ _ (List.getElem_mem h)
  have hinj : ∀ a ∈ (buildPL g la w).2[j], ∀ b ∈ (buildPL g la w).2[j],
      (a.rule, a.dot) = (b.rule, b.dot) → a = b := by
    intro a ha b hb hab
    obtain ⟨r, d, i⟩ := a
    obtain ⟨r', d', i'⟩ := b
    simp only [Prod.mk.injEq] at hab
    obtain ⟨h1, h2⟩ := hab
    subst h1; subst h2
    have := EarleyF.origin_unique hM hD (buildPL_item h ha) (buildPL_item h hb)
    subst this; rfl
  have hnd2 := etf_nodup_map_of_inj_on hnd hinj
  have hsub : ((buildPL g la w).2[j]).map (fun a => (a.rule, a.dot)) ⊆
      dottedUniv g.rules.length g.maxRhs := by
    intro p hp
    obtain ⟨it, hit, rfl⟩ := List.mem_map.mp hp
    obtain ⟨h1, h2, _⟩ := buildPL_item_in_range h hit
    exact mem_dottedUniv.mpr ⟨h1, h2⟩
  have := nodup_subset_length hnd2 hsub
  rwa [List.length_map, length_dottedUniv] at this

end Yaep.ETF
