import Yaep.Lemmas.ReadGrammarPhases
import Yaep.Spec.WF
/-!
# Invariants of `readTerms` / `readRules` / `readRhs` / `readTransl`

`RG.Inv T s` is the invariant of the builder state (`T` = the terminal names a rule may refer
to, i.e. the declared ones and `error`).  For every phase there is an `_ok` lemma (what a
successful run establishes: the invariant for the new state and the absence of the defects
the phase checks) and an `_err` lemma (the defect documented for the code is present).
-/
namespace Yaep

/-! ## lookup in the symbol table -/

def RG.names (s : RG) : List String := s.syms.map (·.1)

theorem find?_fst_eq_none {l : List (String × SymKind)} {nm : String} :
    l.find? (·.1 == nm) = none ↔ nm ∉ l.map (·.1) := by
  rw [List.find?_eq_none]
  simp only [beq_iff_eq, List.mem_map, not_exists, not_and]

theorem find?_fst_of_mem {l : List (String × SymKind)} {nm : String} {k : SymKind}
    (hnd : (l.map (·.1)).Nodup) (h : (nm, k) ∈ l) : l.find? (·.1 == nm) = some (nm, k) := by
  induction l with
  | nil => cases h
  | cons x xs ih =>
    simp only [List.map_cons, List.nodup_cons] at hnd
    rcases List.mem_cons.mp h with rfl | h
    · simp
    · have hne : (x.1 == nm) = false := by
        apply beq_false_of_ne
        intro hx
        apply hnd.1
        rw [hx]
        exact List.mem_map.mpr ⟨(nm, k), h, rfl⟩
      rw [List.find?_cons, hne]
      exact ih hnd.2 h

theorem RG.find_eq_none_iff {s : RG} {nm : String} : s.find nm = none ↔ nm ∉ s.names := by
  unfold RG.find RG.names
  rw [Option.map_eq_none_iff]
  exact find?_fst_eq_none

theorem RG.find_isSome_iff {s : RG} {nm : String} : (s.find nm).isSome = true ↔ nm ∈ s.names := by
  cases h : s.find nm with
  | none =>
    have := RG.find_eq_none_iff.mp h
    simp [this]
  | some k =>
    have : nm ∈ s.names := by
      apply Classical.byContradiction
      intro hn
      rw [RG.find_eq_none_iff.mpr hn] at h
      cases h
    simp [this]

theorem RG.mem_of_find {s : RG} {nm : String} {k : SymKind} (h : s.find nm = some k) :
    (nm, k) ∈ s.syms := by
  unfold RG.find at h
  rw [Option.map_eq_some_iff] at h
  obtain ⟨⟨nm', k'⟩, hf, hk⟩ := h
  have h1 := List.find?_some hf
  have h2 := List.mem_of_find?_eq_some hf
  simp only [beq_iff_eq] at h1
  simp only at hk
  subst h1 hk
  exact h2

theorem RG.find_of_mem {s : RG} {nm : String} {k : SymKind} (hnd : s.names.Nodup)
    (h : (nm, k) ∈ s.syms) : s.find nm = some k := by
  unfold RG.find
  rw [find?_fst_of_mem hnd h]
  rfl

theorem RG.mem_names_of_mem {s : RG} {nm : String} {k : SymKind} (h : (nm, k) ∈ s.syms) :
    nm ∈ s.names := List.mem_map.mpr ⟨(nm, k), h, rfl⟩

theorem RG.exists_of_mem_names {s : RG} {nm : String} (h : nm ∈ s.names) :
    ∃ k, (nm, k) ∈ s.syms := by
  obtain ⟨⟨nm', k⟩, hm, rfl⟩ := List.mem_map.mp h
  exact ⟨k, hm⟩

/-! ## the invariant -/

def termOf (p : String × SymKind) : Option (String × Int) :=
  match p.2 with | .term c _ => some (p.1, c) | _ => none

def ntOf (p : String × SymKind) : Option String :=
  match p.2 with | .nonterm _ => some p.1 | _ => none

def RG.symLt (s : RG) : Sym → Prop
  | .t k => k < s.nTerm
  | .n k => k < s.nNt

/-- what holds once the first rule has been seen (`startN = some st`) -/
structure RG.Started (s : RG) (st : Nat) : Prop where
  stLt : st < s.nNt
  axLt : s.axiomN < s.nNt
  stNe : st ≠ s.axiomN
  eofLt : s.eofT < s.nTerm
  errNe : s.errT ≠ s.eofT
  axName : ∀ nm, (nm, SymKind.nonterm s.axiomN) ∈ s.syms → nm = AXIOM_NAME
  eofName : ∀ nm c, (nm, SymKind.term c s.eofT) ∈ s.syms → nm = END_MARKER_NAME
  rules : ∃ r0 rest, s.rules = r0 :: rest ∧ r0.lhs = s.axiomN ∧
    r0.rhs = [Sym.n st, Sym.t s.eofT] ∧
    ∀ rl ∈ rest, rl.lhs ≠ s.axiomN ∧ Sym.n s.axiomN ∉ rl.rhs ∧ Sym.t s.eofT ∉ rl.rhs

structure RG.Inv (T : List String) (s : RG) : Prop where
  nodup : s.names.Nodup
  termLt : ∀ nm c k, (nm, SymKind.term c k) ∈ s.syms → k < s.nTerm
  ntLt : ∀ nm k, (nm, SymKind.nonterm k) ∈ s.syms → k < s.nNt
  nT : (s.syms.filterMap termOf).length = s.nTerm
  nN : (s.syms.filterMap ntOf).length = s.nNt
  termNames : ∀ nm, (∃ c k, (nm, SymKind.term c k) ∈ s.syms) ↔
    (nm ∈ T ∨ (nm = END_MARKER_NAME ∧ s.startN.isSome = true))
  errLt : s.errT < s.nTerm
  rulesRange : ∀ rl ∈ s.rules, rl.lhs < s.nNt ∧ ∀ sym ∈ rl.rhs, s.symLt sym
  started : ∀ st, s.startN = some st → s.Started st
  notStarted : s.startN = none → s.rules = []

theorem RG.symLt_mono {s s' : RG} (h1 : s.nTerm ≤ s'.nTerm) (h2 : s.nNt ≤ s'.nNt) {sym : Sym}
    (h : s.symLt sym) : s'.symLt sym := by
  cases sym with
  | t k => exact Nat.lt_of_lt_of_le h h1
  | n k => exact Nat.lt_of_lt_of_le h h2

theorem axiom_ne_end : AXIOM_NAME ≠ END_MARKER_NAME := by decide

/-- adding a fresh nonterminal keeps the invariant -/
theorem RG.Inv.addNt {T : List String} {s : RG} (h : s.Inv T) {nm : String}
    (hf : s.find nm = none) : (s.addNt nm).1.Inv T := by
  have hnm : nm ∉ s.names := RG.find_eq_none_iff.mp hf
  unfold RG.addNt
  constructor
  · show ((s.syms ++ [(nm, SymKind.nonterm s.nNt)]).map (·.1)).Nodup
    rw [List.map_append, List.nodup_append]
    refine ⟨h.nodup, by simp, ?_⟩
    intro a ha b hb
    simp only [List.map_cons, List.map_nil, List.mem_singleton] at hb
    subst hb
    intro hab; subst hab; exact hnm ha
  · intro nm' c k hm
    simp only [List.mem_append, List.mem_singleton, Prod.mk.injEq, reduceCtorEq, and_false,
      or_false] at hm
    exact h.termLt nm' c k hm
  · intro nm' k hm
    simp only [List.mem_append, List.mem_singleton, Prod.mk.injEq, SymKind.nonterm.injEq] at hm
    rcases hm with hm | ⟨_, hk⟩
    · exact Nat.lt_succ_of_lt (h.ntLt nm' k hm)
    · subst hk; exact Nat.lt_succ_self _
  · show ((s.syms ++ [(nm, SymKind.nonterm s.nNt)]).filterMap termOf).length = s.nTerm
    rw [List.filterMap_append, List.length_append, h.nT]
    simp [termOf]
  · show ((s.syms ++ [(nm, SymKind.nonterm s.nNt)]).filterMap ntOf).length = s.nNt + 1
    rw [List.filterMap_append, List.length_append, h.nN]
    simp [ntOf]
  · intro nm'
    rw [← h.termNames nm']
    simp only [List.mem_append, List.mem_singleton, Prod.mk.injEq, reduceCtorEq, and_false,
      or_false]
  · exact h.errLt
  · intro rl hrl
    obtain ⟨h1, h2⟩ := h.rulesRange rl hrl
    refine ⟨Nat.lt_succ_of_lt h1, fun sym hs => ?_⟩
    refine RG.symLt_mono (s := s) ?_ ?_ (h2 sym hs)
    · exact Nat.le_refl _
    · exact Nat.le_succ _
  · intro st hst
    have hs := h.started st hst
    constructor
    · exact Nat.lt_succ_of_lt hs.stLt
    · exact Nat.lt_succ_of_lt hs.axLt
    · exact hs.stNe
    · exact hs.eofLt
    · exact hs.errNe
    · intro nm' hm
      simp only [List.mem_append, List.mem_singleton, Prod.mk.injEq, SymKind.nonterm.injEq] at hm
      rcases hm with hm | ⟨_, hk⟩
      · exact hs.axName nm' hm
      · exact absurd hk (Nat.ne_of_lt hs.axLt)
    · intro nm' c hm
      simp only [List.mem_append, List.mem_singleton, Prod.mk.injEq, reduceCtorEq, and_false,
        or_false] at hm
      exact hs.eofName nm' c hm
    · exact hs.rules
  · exact h.notStarted

/-- the parts of the state that symbol creation does not touch -/
structure RG.Same (s s' : RG) : Prop where
  rules : s'.rules = s.rules
  startN : s'.startN = s.startN
  axiomN : s'.axiomN = s.axiomN
  eofT : s'.eofT = s.eofT
  errT : s'.errT = s.errT
  nTerm : s'.nTerm = s.nTerm
  nNt : s.nNt ≤ s'.nNt
  syms : ∀ e ∈ s.syms, e ∈ s'.syms

theorem RG.Same.refl (s : RG) : s.Same s :=
  ⟨rfl, rfl, rfl, rfl, rfl, rfl, Nat.le_refl _, fun _ h => h⟩

theorem RG.Same.trans {s s' s'' : RG} (h1 : s.Same s') (h2 : s'.Same s'') : s.Same s'' :=
  ⟨h2.rules.trans h1.rules, h2.startN.trans h1.startN, h2.axiomN.trans h1.axiomN,
    h2.eofT.trans h1.eofT, h2.errT.trans h1.errT, h2.nTerm.trans h1.nTerm,
    Nat.le_trans h1.nNt h2.nNt, fun e he => h2.syms e (h1.syms e he)⟩

theorem RG.Same.addNt (s : RG) (nm : String) : s.Same (s.addNt nm).1 :=
  ⟨rfl, rfl, rfl, rfl, rfl, rfl, Nat.le_succ _, fun _ h => List.mem_append_left _ h⟩

theorem RG.Same.symLt {s s' : RG} (h : s.Same s') {sym : Sym} (hs : s.symLt sym) :
    s'.symLt sym :=
  RG.symLt_mono (Nat.le_of_eq h.nTerm.symm) h.nNt hs

theorem RG.mem_addNt {s : RG} {nm : String} {e : String × SymKind}
    (h : e ∈ (s.addNt nm).1.syms) : e ∈ s.syms ∨ e = (nm, SymKind.nonterm s.nNt) := by
  unfold RG.addNt at h
  simpa only [List.mem_append, List.mem_singleton] using h

theorem RG.self_mem_addNt (s : RG) (nm : String) :
    (nm, SymKind.nonterm s.nNt) ∈ (s.addNt nm).1.syms := by
  unfold RG.addNt
  exact List.mem_append_right _ (List.mem_singleton.mpr rfl)

/-- a terminal entry named other than `$eof` has a declared name -/
theorem RG.Inv.term_mem_T {T : List String} {s : RG} (h : s.Inv T) {nm : String} {c : Int}
    {k : Nat} (hm : (nm, SymKind.term c k) ∈ s.syms) (hne : nm ≠ END_MARKER_NAME) : nm ∈ T := by
  rcases (h.termNames nm).mp ⟨c, k, hm⟩ with h1 | ⟨h1, _⟩
  · exact h1
  · exact absurd h1 hne

/-- a declared terminal name is found as a terminal -/
theorem RG.Inv.find_of_mem_T {T : List String} {s : RG} (h : s.Inv T) {nm : String}
    (hm : nm ∈ T) : ∃ c k, s.find nm = some (SymKind.term c k) := by
  obtain ⟨c, k, hmem⟩ := (h.termNames nm).mpr (Or.inl hm)
  exact ⟨c, k, RG.find_of_mem h.nodup hmem⟩

/-! ## the left-hand side -/

theorem lhsPhase_ok {T : List String} {s : RG} {rr : RawRule} {p : RG × Nat} (h : s.Inv T)
    (hp : lhsPhase rr s = .ok p) :
    p.1.Inv T ∧ s.Same p.1 ∧ (rr.lhs, SymKind.nonterm p.2) ∈ p.1.syms ∧ rr.lhs ∉ T ∧
      (∀ nm k, (nm, SymKind.nonterm k) ∈ p.1.syms →
        (nm, SymKind.nonterm k) ∈ s.syms ∨ nm = rr.lhs) := by
  have hT : rr.lhs ∉ T := by
    intro hm
    obtain ⟨c, k, hf⟩ := h.find_of_mem_T hm
    unfold lhsPhase at hp
    rw [hf] at hp
    cases hp
  unfold lhsPhase at hp
  cases hf : s.find rr.lhs with
  | none =>
    rw [hf] at hp
    simp only [Except.ok.injEq] at hp
    subst hp
    refine ⟨h.addNt hf, RG.Same.addNt _ _, RG.self_mem_addNt _ _, hT, ?_⟩
    intro nm k hm
    rcases RG.mem_addNt hm with hm | hm
    · exact Or.inl hm
    · simp only [Prod.mk.injEq] at hm
      exact Or.inr hm.1
  | some e =>
    rw [hf] at hp
    cases e with
    | term c k => cases hp
    | nonterm k =>
      simp only [Except.ok.injEq] at hp
      subst hp
      exact ⟨h, RG.Same.refl _, RG.mem_of_find hf, hT, fun nm k hm => Or.inl hm⟩

theorem lhsPhase_err {T : List String} {s : RG} {rr : RawRule} {c : ErrCode} (h : s.Inv T)
    (hp : lhsPhase rr s = .error c) (hne : rr.lhs ≠ END_MARKER_NAME) : c = 9 ∧ rr.lhs ∈ T := by
  unfold lhsPhase at hp
  cases hf : s.find rr.lhs with
  | none => rw [hf] at hp; cases hp
  | some e =>
    rw [hf] at hp
    cases e with
    | term c' k =>
      simp only [Except.error.injEq] at hp
      exact ⟨hp.symm, h.term_mem_T (RG.mem_of_find hf) hne⟩
    | nonterm k => cases hp

/-! ## the right-hand side -/

theorem readRhs_spec {T : List String} (l : List String) :
    ∀ (s : RG) (acc : List Sym), s.Inv T →
      (∀ x ∈ l, x ≠ AXIOM_NAME ∧ x ≠ END_MARKER_NAME) →
      (readRhs l s acc).1.Inv T ∧ s.Same (readRhs l s acc).1 ∧
      ∃ new, (readRhs l s acc).2 = acc ++ new ∧ new.length = l.length ∧
        ∀ sym ∈ new, (readRhs l s acc).1.symLt sym ∧
          ∀ st, s.startN = some st → sym ≠ Sym.n s.axiomN ∧ sym ≠ Sym.t s.eofT := by
  induction l with
  | nil =>
    intro s acc h _
    exact ⟨h, RG.Same.refl _, [], by simp [readRhs], rfl, fun _ hs => by cases hs⟩
  | cons nm rest ih =>
    intro s acc h hres
    have hnm := hres nm List.mem_cons_self
    have hres' : ∀ x ∈ rest, x ≠ AXIOM_NAME ∧ x ≠ END_MARKER_NAME :=
      fun x hx => hres x (List.mem_cons_of_mem _ hx)
    -- one step: the new state `s1` and the symbol `sym` appended
    have step : ∃ s1 sym, readRhs (nm :: rest) s acc = readRhs rest s1 (acc ++ [sym]) ∧
        s1.Inv T ∧ s.Same s1 ∧ s1.symLt sym ∧
        ∀ st, s.startN = some st → sym ≠ Sym.n s.axiomN ∧ sym ≠ Sym.t s.eofT := by
      cases hf : s.find nm with
      | none =>
        refine ⟨(s.addNt nm).1, Sym.n s.nNt, ?_, h.addNt hf, RG.Same.addNt _ _, ?_, ?_⟩
        · rw [readRhs, hf]; rfl
        · exact Nat.lt_succ_self _
        · intro st hst
          refine ⟨?_, by simp⟩
          intro heq
          simp only [Sym.n.injEq] at heq
          exact absurd heq.symm (Nat.ne_of_lt (h.started st hst).axLt)
      | some e =>
        have hmem := RG.mem_of_find hf
        cases e with
        | term c k =>
          refine ⟨s, Sym.t k, ?_, h, RG.Same.refl _, h.termLt nm c k hmem, ?_⟩
          · rw [readRhs, hf]
          · intro st hst
            refine ⟨by simp, ?_⟩
            intro heq
            simp only [Sym.t.injEq] at heq
            subst heq
            exact hnm.2 ((h.started st hst).eofName nm c hmem)
        | nonterm k =>
          refine ⟨s, Sym.n k, ?_, h, RG.Same.refl _, h.ntLt nm k hmem, ?_⟩
          · rw [readRhs, hf]
          · intro st hst
            refine ⟨?_, by simp⟩
            intro heq
            simp only [Sym.n.injEq] at heq
            subst heq
            exact hnm.1 ((h.started st hst).axName nm hmem)
    obtain ⟨s1, sym, heq, h1, hsame, hlt, hne⟩ := step
    obtain ⟨hinv, hsame', new, hnew, hlen, hall⟩ := ih s1 (acc ++ [sym]) h1 hres'
    rw [heq]
    refine ⟨hinv, hsame.trans hsame', sym :: new, ?_, ?_, ?_⟩
    · rw [hnew, List.append_assoc]; rfl
    · simp [hlen]
    · intro x hx
      rcases List.mem_cons.mp hx with rfl | hx
      · exact ⟨hsame'.symLt hlt, hne⟩
      · refine ⟨(hall x hx).1, ?_⟩
        intro st hst
        have := (hall x hx).2 st (hsame.startN.trans hst)
        rw [hsame.axiomN, hsame.eofT] at this
        exact this

/-! ## creation of `$S`, `$eof` and rule 0 at the first rule -/

/-- the state after the first rule's left-hand side: `$S`, `$eof`, rule 0 are created -/
theorem startFresh_inv {T : List String} {s : RG} {lhsN : Nat} (h : s.Inv T)
    (hst : s.startN = none) (hl : lhsN < s.nNt) (hax : s.find AXIOM_NAME = none)
    (heof : (s.addNt AXIOM_NAME).1.find END_MARKER_NAME = none) :
    RG.Inv T { ((s.addNt AXIOM_NAME).1.addTerm END_MARKER_NAME (-1)).1 with
      startN := some lhsN, axiomN := (s.addNt AXIOM_NAME).2,
      eofT := ((s.addNt AXIOM_NAME).1.addTerm END_MARKER_NAME (-1)).2,
      rules := ((s.addNt AXIOM_NAME).1.addTerm END_MARKER_NAME (-1)).1.rules ++
        [startRule (s.addNt AXIOM_NAME).2 lhsN
          ((s.addNt AXIOM_NAME).1.addTerm END_MARKER_NAME (-1)).2] } := by
  have h1 : (s.addNt AXIOM_NAME).1.Inv T := h.addNt hax
  have hsame := RG.Same.addNt s AXIOM_NAME
  have hst1 : (s.addNt AXIOM_NAME).1.startN = none := hsame.startN.trans hst
  have hr1 : (s.addNt AXIOM_NAME).1.rules = [] := h1.notStarted hst1
  have hn1 : (s.addNt AXIOM_NAME).1.nNt = s.nNt + 1 := rfl
  have hax2 : (s.addNt AXIOM_NAME).2 = s.nNt := rfl
  have heofN : END_MARKER_NAME ∉ (s.addNt AXIOM_NAME).1.names := RG.find_eq_none_iff.mp heof
  have hs1mem : ∀ e ∈ (s.addNt AXIOM_NAME).1.syms,
      e ∈ s.syms ∨ e = (AXIOM_NAME, SymKind.nonterm s.nNt) := fun e he => RG.mem_addNt he
  generalize (s.addNt AXIOM_NAME).1 = s1 at *
  unfold RG.addTerm
  simp only [hr1, List.nil_append, hax2]
  constructor
  · show ((s1.syms ++ [(END_MARKER_NAME, SymKind.term (-1) s1.nTerm)]).map (·.1)).Nodup
    rw [List.map_append, List.nodup_append]
    refine ⟨h1.nodup, by simp, ?_⟩
    intro a ha b hb
    simp only [List.map_cons, List.map_nil, List.mem_singleton] at hb
    subst hb
    intro hab; subst hab; exact heofN ha
  · intro nm c k hm
    simp only [List.mem_append, List.mem_singleton, Prod.mk.injEq, SymKind.term.injEq] at hm
    rcases hm with hm | ⟨_, _, hk⟩
    · exact Nat.lt_succ_of_lt (h1.termLt nm c k hm)
    · subst hk; exact Nat.lt_succ_self _
  · intro nm k hm
    simp only [List.mem_append, List.mem_singleton, Prod.mk.injEq, reduceCtorEq, and_false,
      or_false] at hm
    exact h1.ntLt nm k hm
  · show ((s1.syms ++ [(END_MARKER_NAME, SymKind.term (-1) s1.nTerm)]).filterMap termOf).length
      = s1.nTerm + 1
    rw [List.filterMap_append, List.length_append, h1.nT]
    simp [termOf]
  · show ((s1.syms ++ [(END_MARKER_NAME, SymKind.term (-1) s1.nTerm)]).filterMap ntOf).length
      = s1.nNt
    rw [List.filterMap_append, List.length_append, h1.nN]
    simp [ntOf]
  · intro nm
    have := h1.termNames nm
    simp only [hst1, Option.isSome_none, Bool.false_eq_true, and_false, or_false] at this
    simp only [List.mem_append, List.mem_singleton, Prod.mk.injEq, SymKind.term.injEq,
      Option.isSome_some, and_true]
    constructor
    · rintro ⟨c, k, hm | ⟨hnm, _, _⟩⟩
      · exact Or.inl (this.mp ⟨c, k, hm⟩)
      · exact Or.inr hnm
    · rintro (hm | hnm)
      · obtain ⟨c, k, hm⟩ := this.mpr hm
        exact ⟨c, k, Or.inl hm⟩
      · exact ⟨-1, s1.nTerm, Or.inr ⟨hnm, rfl, rfl⟩⟩
  · exact Nat.lt_succ_of_lt h1.errLt
  · intro rl hrl
    simp only [List.mem_singleton] at hrl
    subst hrl
    refine ⟨by simp only [startRule, hn1]; exact Nat.lt_succ_self _, ?_⟩
    intro sym hs
    simp only [startRule, List.mem_cons, List.not_mem_nil, or_false] at hs
    rcases hs with rfl | rfl
    · show lhsN < s1.nNt
      rw [hn1]; exact Nat.lt_succ_of_lt hl
    · exact Nat.lt_succ_self _
  · intro st hst'
    simp only [Option.some.injEq] at hst'
    subst hst'
    constructor
    · show lhsN < s1.nNt
      rw [hn1]; exact Nat.lt_succ_of_lt hl
    · show s.nNt < s1.nNt
      rw [hn1]; exact Nat.lt_succ_self _
    · exact Nat.ne_of_lt hl
    · exact Nat.lt_succ_self _
    · exact Nat.ne_of_lt h1.errLt
    · intro nm hm
      simp only [List.mem_append, List.mem_singleton, Prod.mk.injEq, reduceCtorEq, and_false,
        or_false] at hm
      rcases hs1mem _ hm with hm | hm
      · exact absurd (h.ntLt nm _ hm) (Nat.lt_irrefl _)
      · simp only [Prod.mk.injEq] at hm
        exact hm.1
    · intro nm c hm
      simp only [List.mem_append, List.mem_singleton, Prod.mk.injEq, SymKind.term.injEq] at hm
      rcases hm with hm | ⟨hnm, _, _⟩
      · exact absurd (h1.termLt nm c _ hm) (Nat.lt_irrefl _)
      · exact hnm
    · exact ⟨_, [], rfl, rfl, rfl, fun _ hx => by cases hx⟩
  · intro hn; cases hn

theorem startPhase_ok {T : List String} {s s2 : RG} {lhsN : Nat} {nm : String} (h : s.Inv T)
    (hs : startPhase s lhsN = .ok s2) (hmem : (nm, SymKind.nonterm lhsN) ∈ s.syms)
    (hnm : nm ≠ AXIOM_NAME) :
    s2.Inv T ∧ (∃ st, s2.startN = some st) ∧ lhsN < s2.nNt ∧ lhsN ≠ s2.axiomN ∧
      (s.startN = none → AXIOM_NAME ∉ T ∧ END_MARKER_NAME ∉ T) := by
  have hl : lhsN < s.nNt := h.ntLt nm lhsN hmem
  unfold startPhase at hs
  cases hst : s.startN with
  | some st =>
    rw [hst] at hs
    simp only [Except.ok.injEq] at hs
    subst hs
    refine ⟨h, ⟨st, hst⟩, hl, ?_, fun hn => by cases hn⟩
    intro heq
    subst heq
    exact hnm ((h.started st hst).axName nm hmem)
  | none =>
    rw [hst] at hs
    simp only [] at hs
    split at hs
    · cases hs
    · rename_i hax
      split at hs
      · cases hs
      · rename_i heof
        simp only [Except.ok.injEq] at hs
        have hax' : s.find AXIOM_NAME = none := by
          cases hf : s.find AXIOM_NAME with
          | none => rfl
          | some e => rw [hf] at hax; exact absurd rfl hax
        have heof' : (s.addNt AXIOM_NAME).1.find END_MARKER_NAME = none := by
          cases hf : (s.addNt AXIOM_NAME).1.find END_MARKER_NAME with
          | none => rfl
          | some e => rw [hf] at heof; exact absurd rfl heof
        have hinv := startFresh_inv (lhsN := lhsN) h hst hl hax' heof'
        rw [hs] at hinv
        subst hs
        refine ⟨hinv, ⟨lhsN, rfl⟩, ?_, ?_, fun _ => ⟨?_, ?_⟩⟩
        · show lhsN < s.nNt + 1
          exact Nat.lt_succ_of_lt hl
        · show lhsN ≠ s.nNt
          exact Nat.ne_of_lt hl
        · intro hm
          obtain ⟨c, k, hf⟩ := h.find_of_mem_T hm
          rw [hf] at hax'
          cases hax'
        · intro hm
          obtain ⟨c, k, hf⟩ := (h.addNt hax').find_of_mem_T hm
          rw [hf] at heof'
          cases heof'

theorem startPhase_err {T : List String} {s : RG} {lhsN : Nat} {c : ErrCode} (h : s.Inv T)
    (hnt : s.startN = none → ∀ nm k, (nm, SymKind.nonterm k) ∈ s.syms →
      nm ≠ AXIOM_NAME ∧ nm ≠ END_MARKER_NAME)
    (hs : startPhase s lhsN = .error c) :
    c = 4 ∧ s.startN = none ∧ (AXIOM_NAME ∈ T ∨ END_MARKER_NAME ∈ T) := by
  unfold startPhase at hs
  cases hst : s.startN with
  | some st => rw [hst] at hs; cases hs
  | none =>
    rw [hst] at hs
    simp only [] at hs
    have hnt' := hnt hst
    split at hs
    · rename_i hax
      simp only [Except.error.injEq] at hs
      refine ⟨hs.symm, rfl, Or.inl ?_⟩
      obtain ⟨e, hm⟩ := RG.exists_of_mem_names (RG.find_isSome_iff.mp hax)
      cases e with
      | term c' k => exact h.term_mem_T hm axiom_ne_end
      | nonterm k => exact absurd rfl (hnt' _ k hm).1
    · split at hs
      · rename_i heof
        simp only [Except.error.injEq] at hs
        refine ⟨hs.symm, rfl, Or.inr ?_⟩
        obtain ⟨e, hm⟩ := RG.exists_of_mem_names (RG.find_isSome_iff.mp heof)
        rcases RG.mem_addNt hm with hm | hm
        · cases e with
          | term c' k =>
            rcases (h.termNames _).mp ⟨c', k, hm⟩ with h1 | ⟨_, h2⟩
            · exact h1
            · rw [hst] at h2; cases h2
          | nonterm k => exact absurd rfl (hnt' _ k hm).2
        · simp only [Prod.mk.injEq] at hm
          exact absurd hm.1.symm axiom_ne_end
      · cases hs

/-! ## the translation array -/

/-- `order` has an entry exactly at the positions in `seen` -/
def SeenInv (n : Nat) (order : List (Option Nat)) (seen : List Nat) : Prop :=
  order.length = n ∧ ∀ j, (order.getD j none).isSome = true ↔ j ∈ seen

theorem SeenInv.init (n : Nat) : SeenInv n (List.replicate n none) [] := by
  refine ⟨List.length_replicate, fun j => ?_⟩
  rw [List.getD_eq_getElem?_getD, List.getElem?_replicate]
  by_cases hj : j < n <;> simp [hj]

theorem SeenInv.set {n : Nat} {order : List (Option Nat)} {seen : List Nat}
    (h : SeenInv n order seen) {el : Nat} (hel : el < n) (i : Nat) :
    SeenInv n (order.set el (some i)) (el :: seen) := by
  refine ⟨by rw [List.length_set]; exact h.1, fun j => ?_⟩
  rw [List.getD_eq_getElem?_getD, List.getElem?_set, List.mem_cons]
  by_cases hj : el = j
  · subst hj
    have : el < order.length := by rw [h.1]; exact hel
    simp [this]
  · have := h.2 j
    rw [List.getD_eq_getElem?_getD] at this
    rw [if_neg hj, this]
    constructor
    · exact Or.inr
    · rintro (h1 | h1)
      · exact absurd h1.symm hj
      · exact h1

theorem readTransl_ok {n : Nat} {b : Bool} (tr : List Nat) :
    ∀ (i : Nat) (order : List (Option Nat)) (tl : Nat) (seen : List Nat)
      (q : List (Option Nat) × Nat), SeenInv n order seen →
      readTransl n b tr i order tl = .ok q →
      (∀ el ∈ tr, el < n ∨ el = NIL_TRANSL) ∧ (∀ el ∈ tr.filter (· < n), el ∉ seen) ∧
        (tr.filter (· < n)).Nodup := by
  induction tr with
  | nil =>
    intro i order tl seen q _ _
    exact ⟨fun _ h => (by cases h), fun _ h => (by cases h), List.nodup_nil⟩
  | cons el rest ih =>
    intro i order tl seen q hinv hq
    unfold readTransl at hq
    by_cases hge : el ≥ n
    · rw [if_pos hge] at hq
      by_cases hnil : el ≠ NIL_TRANSL
      · rw [if_pos hnil] at hq; cases hq
      · rw [if_neg hnil] at hq
        have hnil' : el = NIL_TRANSL := Classical.not_not.mp hnil
        obtain ⟨h1, h2, h3⟩ := ih _ _ _ seen q hinv hq
        have hf : (el :: rest).filter (· < n) = rest.filter (· < n) := by
          rw [List.filter_cons, if_neg]
          simp only [decide_eq_true_eq]
          exact Nat.not_lt.mpr hge
        rw [hf]
        refine ⟨?_, h2, h3⟩
        intro x hx
        rcases List.mem_cons.mp hx with rfl | hx
        · exact Or.inr hnil'
        · exact h1 x hx
    · rw [if_neg hge] at hq
      have hlt : el < n := Nat.not_le.mp hge
      by_cases hseen : (order.getD el none).isSome = true
      · rw [if_pos hseen] at hq; cases hq
      · rw [if_neg hseen] at hq
        have hns : el ∉ seen := fun hm => hseen ((hinv.2 el).mpr hm)
        obtain ⟨h1, h2, h3⟩ := ih _ _ _ (el :: seen) q (hinv.set hlt i) hq
        have hf : (el :: rest).filter (· < n) = el :: rest.filter (· < n) := by
          rw [List.filter_cons, if_pos]
          simp only [decide_eq_true_eq]
          exact hlt
        rw [hf]
        refine ⟨?_, ?_, ?_⟩
        · intro x hx
          rcases List.mem_cons.mp hx with rfl | hx
          · exact Or.inl hlt
          · exact h1 x hx
        · intro x hx
          rcases List.mem_cons.mp hx with rfl | hx
          · exact hns
          · exact fun hm => h2 x hx (List.mem_cons_of_mem _ hm)
        · rw [List.nodup_cons]
          exact ⟨fun hm => h2 el hm List.mem_cons_self, h3⟩

theorem readTransl_err {n : Nat} {b : Bool} (tr : List Nat) :
    ∀ (i : Nat) (order : List (Option Nat)) (tl : Nat) (seen : List Nat) (c : ErrCode),
      SeenInv n order seen → readTransl n b tr i order tl = .error c →
      (c = 12 ∧ ∃ el ∈ tr, n ≤ el ∧ el ≠ NIL_TRANSL) ∨
      (c = 13 ∧ ((∃ el ∈ tr.filter (· < n), el ∈ seen) ∨ ¬ (tr.filter (· < n)).Nodup)) := by
  induction tr with
  | nil =>
    intro i order tl seen c _ hc
    cases hc
  | cons el rest ih =>
    intro i order tl seen c hinv hc
    unfold readTransl at hc
    by_cases hge : el ≥ n
    · rw [if_pos hge] at hc
      by_cases hnil : el ≠ NIL_TRANSL
      · rw [if_pos hnil] at hc
        simp only [Except.error.injEq] at hc
        exact Or.inl ⟨hc.symm, el, List.mem_cons_self, hge, hnil⟩
      · rw [if_neg hnil] at hc
        have hf : (el :: rest).filter (· < n) = rest.filter (· < n) := by
          rw [List.filter_cons, if_neg]
          simp only [decide_eq_true_eq]
          exact Nat.not_lt.mpr hge
        rw [hf]
        rcases ih _ _ _ seen c hinv hc with ⟨h1, x, hx, h2⟩ | h
        · exact Or.inl ⟨h1, x, List.mem_cons_of_mem _ hx, h2⟩
        · exact Or.inr h
    · rw [if_neg hge] at hc
      have hlt : el < n := Nat.not_le.mp hge
      have hf : (el :: rest).filter (· < n) = el :: rest.filter (· < n) := by
        rw [List.filter_cons, if_pos]
        simp only [decide_eq_true_eq]
        exact hlt
      rw [hf]
      by_cases hseen : (order.getD el none).isSome = true
      · rw [if_pos hseen] at hc
        simp only [Except.error.injEq] at hc
        exact Or.inr ⟨hc.symm, Or.inl ⟨el, List.mem_cons_self, (hinv.2 el).mp hseen⟩⟩
      · rw [if_neg hseen] at hc
        rcases ih _ _ _ (el :: seen) c (hinv.set hlt i) hc with ⟨h1, x, hx, h2⟩ | ⟨h1, h2⟩
        · exact Or.inl ⟨h1, x, List.mem_cons_of_mem _ hx, h2⟩
        · refine Or.inr ⟨h1, ?_⟩
          rcases h2 with ⟨x, hx, hxs⟩ | h2
          · rcases List.mem_cons.mp hxs with rfl | hxs
            · exact Or.inr (fun hnd => (List.nodup_cons.mp hnd).1 hx)
            · exact Or.inl ⟨x, List.mem_cons_of_mem _ hx, hxs⟩
          · exact Or.inr (fun hnd => h2 (List.nodup_cons.mp hnd).2)

theorem translPhase_ok {rr : RawRule} {n : Nat} {q : List (Option Nat) × Nat}
    (h : translPhase rr n = .ok q) :
    ∀ tr, rr.transl = some tr →
      (∀ el ∈ tr, el < n ∨ el = NIL_TRANSL) ∧ (tr.filter (· < n)).Nodup := by
  intro tr htr
  unfold translPhase at h
  rw [htr] at h
  obtain ⟨h1, _, h3⟩ := readTransl_ok tr _ _ _ [] q (SeenInv.init n) h
  exact ⟨h1, h3⟩

theorem translPhase_err {rr : RawRule} {n : Nat} {c : ErrCode}
    (h : translPhase rr n = .error c) :
    ∃ tr, rr.transl = some tr ∧
      ((c = 12 ∧ ∃ el ∈ tr, n ≤ el ∧ el ≠ NIL_TRANSL) ∨
       (c = 13 ∧ ¬ (tr.filter (· < n)).Nodup)) := by
  unfold translPhase at h
  cases htr : rr.transl with
  | none => rw [htr] at h; cases h
  | some tr =>
    rw [htr] at h
    refine ⟨tr, rfl, ?_⟩
    rcases readTransl_err tr _ _ _ [] c (SeenInv.init n) h with h1 | ⟨h1, h2⟩
    · exact Or.inl h1
    · refine Or.inr ⟨h1, ?_⟩
      rcases h2 with ⟨x, _, hx⟩ | h2
      · cases hx
      · exact h2

/-! ## one rule -/

theorem rrReserved_iff {rr : RawRule} :
    rrReserved rr = true ↔ (ReservedName rr.lhs ∨ ∃ x ∈ rr.rhs, ReservedName x) := by
  unfold rrReserved ReservedName
  simp only [Bool.or_eq_true, beq_iff_eq, List.any_eq_true]

theorem rr10_iff {rr : RawRule} :
    rr10 rr = true ↔ (rr.anode = none ∧ ∃ tr, rr.transl = some tr ∧ 2 ≤ tr.length) := by
  unfold rr10
  cases ha : rr.anode with
  | some a => simp
  | none =>
    cases htr : rr.transl with
    | none => simp
    | some tr =>
      match tr with
      | [] => simp
      | [_] => simp
      | _ :: _ :: _ => simp

theorem rr11_iff {rr : RawRule} :
    rr11 rr = true ↔ (rr.anode.isSome = true ∧ rr.cost < 0) := by
  unfold rr11
  simp only [Bool.and_eq_true, decide_eq_true_eq]

/-- appending an ordinary rule keeps the invariant -/
theorem RG.Inv.addRule {T : List String} {s : RG} (h : s.Inv T) {st : Nat}
    (hst : s.startN = some st) {r : Rule} (hl : r.lhs < s.nNt) (hne : r.lhs ≠ s.axiomN)
    (hrhs : ∀ sym ∈ r.rhs, s.symLt sym ∧ sym ≠ Sym.n s.axiomN ∧ sym ≠ Sym.t s.eofT) :
    RG.Inv T { s with rules := s.rules ++ [r] } := by
  constructor
  · exact h.nodup
  · exact h.termLt
  · exact h.ntLt
  · exact h.nT
  · exact h.nN
  · exact h.termNames
  · exact h.errLt
  · intro rl hrl
    rcases List.mem_append.mp hrl with hrl | hrl
    · exact h.rulesRange rl hrl
    · rw [List.mem_singleton] at hrl
      subst hrl
      exact ⟨hl, fun sym hs => (hrhs sym hs).1⟩
  · intro st' hst'
    have hs := h.started st' hst'
    refine ⟨hs.stLt, hs.axLt, hs.stNe, hs.eofLt, hs.errNe, hs.axName, hs.eofName, ?_⟩
    obtain ⟨r0, rest, h1, h2, h3, h4⟩ := hs.rules
    refine ⟨r0, rest ++ [r], ?_, h2, h3, ?_⟩
    · show s.rules ++ [r] = r0 :: (rest ++ [r])
      rw [h1]; rfl
    · intro rl hrl
      rcases List.mem_append.mp hrl with hrl | hrl
      · exact h4 rl hrl
      · rw [List.mem_singleton] at hrl
        subst hrl
        exact ⟨hne, fun hm => (hrhs _ hm).2.1 rfl, fun hm => (hrhs _ hm).2.2 rfl⟩
  · intro hn
    rw [hst] at hn
    cases hn

theorem readRhs_length (l : List String) (s : RG) :
    (readRhs l s []).2.length = l.length := by
  induction l generalizing s with
  | nil => rfl
  | cons nm rest ih =>
    suffices h : ∀ (l : List String) (s : RG) (acc : List Sym),
        (readRhs l s acc).2.length = acc.length + l.length by
      simpa using h (nm :: rest) s []
    intro l
    induction l with
    | nil => intro s acc; rfl
    | cons nm rest ih =>
      intro s acc
      rw [readRhs]
      split
      · rw [ih]; simp; omega
      · rw [ih]; simp; omega
      · simp only []
        rw [ih]; simp; omega

/-- a successful rule step -/
theorem ruleStep_ok {T : List String} {s s' : RG} {rr : RawRule} (h : s.Inv T)
    (hs : ruleStep rr s = .ok s') :
    s'.Inv T ∧ (∃ st, s'.startN = some st) ∧ RuleOK T rr ∧
      (s.startN = none → AXIOM_NAME ∉ T ∧ END_MARKER_NAME ∉ T) := by
  unfold ruleStep at hs
  split at hs
  · cases hs
  · rename_i hres
    have hres' : ¬ (ReservedName rr.lhs ∨ ∃ x ∈ rr.rhs, ReservedName x) :=
      fun hx => hres (rrReserved_iff.mpr hx)
    cases hl : lhsPhase rr s with
    | error c => rw [hl] at hs; cases hs
    | ok p =>
      rw [hl] at hs
      simp only [] at hs
      split at hs
      · cases hs
      · rename_i h10
        split at hs
        · cases hs
        · rename_i h11
          obtain ⟨hp, hsame, hmem, hT, _⟩ := lhsPhase_ok h hl
          have hlhsA : rr.lhs ≠ AXIOM_NAME := fun hx => hres' (Or.inl (Or.inl hx))
          cases hst : startPhase p.1 p.2 with
          | error c => rw [hst] at hs; cases hs
          | ok s2 =>
            rw [hst] at hs
            simp only [] at hs
            obtain ⟨h2, ⟨st, hst2⟩, hlt, hne, hfirst⟩ := startPhase_ok hp hst hmem hlhsA
            have hrhsRes : ∀ x ∈ rr.rhs, x ≠ AXIOM_NAME ∧ x ≠ END_MARKER_NAME := by
              intro x hx
              exact ⟨fun he => hres' (Or.inr ⟨x, hx, Or.inl he⟩),
                fun he => hres' (Or.inr ⟨x, hx, Or.inr he⟩)⟩
            obtain ⟨h3, hsame3, new, hnew, hlen, hall⟩ := readRhs_spec rr.rhs s2 [] h2 hrhsRes
            cases htr : translPhase rr (readRhs rr.rhs s2 []).2.length with
            | error c => rw [htr] at hs; cases hs
            | ok q =>
              rw [htr] at hs
              simp only [Except.ok.injEq] at hs
              subst hs
              have hst3 : (readRhs rr.rhs s2 []).1.startN = some st := hsame3.startN.trans hst2
              refine ⟨?_, ⟨st, hst3⟩, ?_, ?_⟩
              · apply h3.addRule hst3
                · exact Nat.lt_of_lt_of_le hlt hsame3.nNt
                · show p.2 ≠ _
                  rw [hsame3.axiomN]; exact hne
                · intro sym hsym
                  have hsym' : sym ∈ new := by
                    have : (mkRule rr p.2 (readRhs rr.rhs s2 []).2 q.1 q.2).rhs
                        = (readRhs rr.rhs s2 []).2 := rfl
                    rw [this, hnew, List.nil_append] at hsym
                    exact hsym
                  obtain ⟨h5, h6⟩ := hall sym hsym'
                  rw [hsame3.axiomN, hsame3.eofT]
                  exact ⟨h5, h6 st hst2⟩
              · have hlen' := readRhs_length rr.rhs s2
                rw [hlen'] at htr
                have htrOK := translPhase_ok htr
                constructor
                · exact fun hx => hres' (Or.inl hx)
                · exact fun x hx hr => hres' (Or.inr ⟨x, hx, hr⟩)
                · exact hT
                · intro ha tr htr'
                  apply Nat.le_of_not_lt
                  intro hlt2
                  exact h10 (rr10_iff.mpr ⟨ha, tr, htr', hlt2⟩)
                · intro ha
                  apply Int.not_lt.mp
                  intro hlt2
                  exact h11 (rr11_iff.mpr ⟨ha, hlt2⟩)
                · exact fun tr htr' => (htrOK tr htr').1
                · exact fun tr htr' => (htrOK tr htr').2
              · intro hn
                exact hfirst (hsame.startN.trans hn)

/-- the defect a failing rule step reports; `first`: no rule has been processed yet -/
def StepDefect (T : List String) (rr : RawRule) (first : Prop) (c : Nat) : Prop :=
  (c = 4 ∧ ((ReservedName rr.lhs ∨ ∃ x ∈ rr.rhs, ReservedName x) ∨
    (first ∧ ∃ x ∈ T, ReservedName x))) ∨
  (c = 9 ∧ rr.lhs ∈ T) ∨
  (c = 10 ∧ rr.anode = none ∧ ∃ tr, rr.transl = some tr ∧ 2 ≤ tr.length) ∨
  (c = 11 ∧ rr.anode.isSome = true ∧ rr.cost < 0) ∨
  (c = 12 ∧ ∃ tr, rr.transl = some tr ∧ ∃ el ∈ tr, rr.rhs.length ≤ el ∧ el ≠ NIL_TRANSL) ∨
  (c = 13 ∧ ∃ tr, rr.transl = some tr ∧ ¬ (tr.filter (· < rr.rhs.length)).Nodup)

theorem StepDefect.mono {T : List String} {rr : RawRule} {first first' : Prop} {c : Nat}
    (hf : first → first') (h : StepDefect T rr first c) : StepDefect T rr first' c := by
  rcases h with ⟨h1, h2 | ⟨h2, h3⟩⟩ | h
  · exact Or.inl ⟨h1, Or.inl h2⟩
  · exact Or.inl ⟨h1, Or.inr ⟨hf h2, h3⟩⟩
  · exact Or.inr h

/-- a failing rule step -/
theorem ruleStep_err {T : List String} {s : RG} {rr : RawRule} {c : ErrCode} (h : s.Inv T)
    (hloop : s.startN = none → ∀ nm k, (nm, SymKind.nonterm k) ∉ s.syms)
    (hs : ruleStep rr s = .error c) : StepDefect T rr (s.startN = none) c := by
  unfold ruleStep at hs
  split at hs
  · rename_i hres
    simp only [Except.error.injEq] at hs
    exact Or.inl ⟨hs.symm, Or.inl (rrReserved_iff.mp hres)⟩
  · rename_i hres
    have hres' : ¬ (ReservedName rr.lhs ∨ ∃ x ∈ rr.rhs, ReservedName x) :=
      fun hx => hres (rrReserved_iff.mpr hx)
    have hlhsA : rr.lhs ≠ AXIOM_NAME := fun hx => hres' (Or.inl (Or.inl hx))
    have hlhsE : rr.lhs ≠ END_MARKER_NAME := fun hx => hres' (Or.inl (Or.inr hx))
    cases hl : lhsPhase rr s with
    | error c' =>
      rw [hl] at hs
      simp only [Except.error.injEq] at hs
      subst hs
      exact Or.inr (Or.inl (lhsPhase_err h hl hlhsE))
    | ok p =>
      rw [hl] at hs
      simp only [] at hs
      split at hs
      · rename_i h10
        simp only [Except.error.injEq] at hs
        exact Or.inr (Or.inr (Or.inl ⟨hs.symm, rr10_iff.mp h10⟩))
      · split at hs
        · rename_i h11
          simp only [Except.error.injEq] at hs
          exact Or.inr (Or.inr (Or.inr (Or.inl ⟨hs.symm, rr11_iff.mp h11⟩)))
        · obtain ⟨hp, hsame, hmem, hT, hnts⟩ := lhsPhase_ok h hl
          cases hst : startPhase p.1 p.2 with
          | error c' =>
            rw [hst] at hs
            simp only [Except.error.injEq] at hs
            subst hs
            have hnt : p.1.startN = none → ∀ nm k, (nm, SymKind.nonterm k) ∈ p.1.syms →
                nm ≠ AXIOM_NAME ∧ nm ≠ END_MARKER_NAME := by
              intro hn nm k hm
              rcases hnts nm k hm with hm' | hm'
              · exact absurd hm' (hloop (hsame.startN.symm.trans hn) nm k)
              · rw [hm']; exact ⟨hlhsA, hlhsE⟩
            obtain ⟨h1, h2, h3⟩ := startPhase_err hp hnt hst
            refine Or.inl ⟨h1, Or.inr ⟨hsame.startN.symm.trans h2, ?_⟩⟩
            rcases h3 with h3 | h3
            · exact ⟨_, h3, Or.inl rfl⟩
            · exact ⟨_, h3, Or.inr rfl⟩
          | ok s2 =>
            rw [hst] at hs
            simp only [] at hs
            cases htr : translPhase rr (readRhs rr.rhs s2 []).2.length with
            | ok q => rw [htr] at hs; cases hs
            | error c' =>
              rw [htr] at hs
              simp only [Except.error.injEq] at hs
              subst hs
              rw [readRhs_length] at htr
              obtain ⟨tr, htr', h12 | h13⟩ := translPhase_err htr
              · exact Or.inr (Or.inr (Or.inr (Or.inr (Or.inl ⟨h12.1, tr, htr', h12.2⟩))))
              · exact Or.inr (Or.inr (Or.inr (Or.inr (Or.inr ⟨h13.1, tr, htr', h13.2⟩))))

/-! ## all rules -/

theorem readRules_ok {T : List String} (rules : List RawRule) :
    ∀ (s s' : RG), s.Inv T → readRules rules s = .ok s' →
      s'.Inv T ∧ (∀ rr ∈ rules, RuleOK T rr) ∧
      ((∃ st, s.startN = some st) → ∃ st, s'.startN = some st) ∧
      (rules ≠ [] → (∃ st, s'.startN = some st) ∧
        (s.startN = none → AXIOM_NAME ∉ T ∧ END_MARKER_NAME ∉ T)) ∧
      (rules = [] → s' = s) := by
  induction rules with
  | nil =>
    intro s s' h hs
    rw [readRules_nil] at hs
    simp only [Except.ok.injEq] at hs
    subst hs
    exact ⟨h, fun _ hr => (by cases hr), id, fun hn => absurd rfl hn, fun _ => rfl⟩
  | cons rr rest ih =>
    intro s s' h hs
    rw [readRules_cons] at hs
    cases hstep : ruleStep rr s with
    | error c => rw [hstep] at hs; cases hs
    | ok s1 =>
      rw [hstep] at hs
      simp only [] at hs
      obtain ⟨h1, hst1, hok, hfirst⟩ := ruleStep_ok h hstep
      obtain ⟨h', hall, hmono, _, _⟩ := ih s1 s' h1 hs
      refine ⟨h', ?_, fun _ => hmono hst1, fun _ => ⟨hmono hst1, hfirst⟩, fun hn => (by cases hn)⟩
      intro x hx
      rcases List.mem_cons.mp hx with rfl | hx
      · exact hok
      · exact hall x hx

theorem readRules_err {T : List String} (rules : List RawRule) :
    ∀ (s : RG) (c : ErrCode), s.Inv T →
      (s.startN = none → ∀ nm k, (nm, SymKind.nonterm k) ∉ s.syms) →
      readRules rules s = .error c → ∃ rr ∈ rules, StepDefect T rr (s.startN = none) c := by
  induction rules with
  | nil =>
    intro s c _ _ hs
    rw [readRules_nil] at hs
    cases hs
  | cons rr rest ih =>
    intro s c h hloop hs
    rw [readRules_cons] at hs
    cases hstep : ruleStep rr s with
    | error c' =>
      rw [hstep] at hs
      simp only [Except.error.injEq] at hs
      subst hs
      exact ⟨rr, List.mem_cons_self, ruleStep_err h hloop hstep⟩
    | ok s1 =>
      rw [hstep] at hs
      simp only [] at hs
      obtain ⟨h1, ⟨st, hst1⟩, _, _⟩ := ruleStep_ok h hstep
      have hloop1 : s1.startN = none → ∀ nm k, (nm, SymKind.nonterm k) ∉ s1.syms := by
        intro hn; rw [hst1] at hn; cases hn
      obtain ⟨x, hx, hd⟩ := ih s1 c h1 hloop1 hs
      refine ⟨x, List.mem_cons_of_mem _ hx, hd.mono ?_⟩
      intro hn; rw [hst1] at hn; cases hn

/-! ## the terminals -/

/-- the symbol table entries of the declared terminals, numbered from `k` -/
def termEntries (k : Nat) : List (String × Int) → List (String × SymKind)
  | [] => []
  | t :: r => (t.1, SymKind.term t.2 k) :: termEntries (k + 1) r

def codeOf (p : String × SymKind) : Option Int :=
  match p.2 with | .term c _ => some c | _ => none

def RG.codes (s : RG) : List Int := s.syms.filterMap codeOf

theorem RG.findCode_iff {s : RG} {c : Int} : s.findCode c = true ↔ c ∈ s.codes := by
  unfold RG.findCode RG.codes
  rw [List.any_eq_true, List.mem_filterMap]
  constructor
  · rintro ⟨⟨nm, e⟩, hm, h⟩
    refine ⟨(nm, e), hm, ?_⟩
    cases e with
    | term c' k => simp only [beq_iff_eq] at h; subst h; rfl
    | nonterm k => simp at h
  · rintro ⟨⟨nm, e⟩, hm, h⟩
    refine ⟨(nm, e), hm, ?_⟩
    cases e with
    | term c' k => simp only [codeOf, Option.some.injEq] at h; subst h; simp
    | nonterm k => simp [codeOf] at h

theorem RG.names_addTerm (s : RG) (nm : String) (c : Int) :
    (s.addTerm nm c).1.names = s.names ++ [nm] := by
  unfold RG.addTerm RG.names
  simp

theorem RG.codes_addTerm (s : RG) (nm : String) (c : Int) :
    (s.addTerm nm c).1.codes = s.codes ++ [c] := by
  unfold RG.addTerm RG.codes
  simp [List.filterMap_append, codeOf]

theorem readTerms_ok (ts : List (String × Int)) :
    ∀ (s s' : RG), readTerms ts s = .ok s' →
      s' = { s with syms := s.syms ++ termEntries s.nTerm ts, nTerm := s.nTerm + ts.length } ∧
      (∀ t ∈ ts, 0 ≤ t.2) ∧ (∀ t ∈ ts, t.1 ∉ s.names) ∧ (ts.map (·.1)).Nodup ∧
      (∀ t ∈ ts, t.2 ∉ s.codes) ∧ (ts.map (·.2)).Nodup := by
  induction ts with
  | nil =>
    intro s s' hs
    simp only [readTerms, Except.ok.injEq] at hs
    subst hs
    refine ⟨by simp [termEntries], ?_, ?_, List.nodup_nil, ?_, List.nodup_nil⟩ <;>
      intro _ h <;> cases h
  | cons t rest ih =>
    obtain ⟨name, code⟩ := t
    intro s s' hs
    unfold readTerms at hs
    split at hs
    · cases hs
    · rename_i hneg
      split at hs
      · cases hs
      · rename_i hname
        split at hs
        · cases hs
        · rename_i hcode
          have hname' : name ∉ s.names := fun hm => hname (RG.find_isSome_iff.mpr hm)
          have hcode' : code ∉ s.codes := fun hm => hcode (RG.findCode_iff.mpr hm)
          obtain ⟨h1, h2, h3, h4, h5, h6⟩ := ih _ s' hs
          rw [RG.names_addTerm] at h3
          rw [RG.codes_addTerm] at h5
          refine ⟨?_, ?_, ?_, ?_, ?_, ?_⟩
          · rw [h1]
            unfold RG.addTerm
            simp only [termEntries, List.length_cons, List.append_assoc, List.cons_append,
              List.nil_append, RG.mk.injEq, true_and, and_true]
            omega
          · intro x hx
            rcases List.mem_cons.mp hx with rfl | hx
            · exact Int.not_lt.mp hneg
            · exact h2 x hx
          · intro x hx
            rcases List.mem_cons.mp hx with rfl | hx
            · exact hname'
            · exact fun hm => h3 x hx (List.mem_append_left _ hm)
          · rw [List.map_cons, List.nodup_cons]
            refine ⟨?_, h4⟩
            intro hm
            obtain ⟨x, hx, hxn⟩ := List.mem_map.mp hm
            exact h3 x hx (List.mem_append_right _ (List.mem_singleton.mpr hxn))
          · intro x hx
            rcases List.mem_cons.mp hx with rfl | hx
            · exact hcode'
            · exact fun hm => h5 x hx (List.mem_append_left _ hm)
          · rw [List.map_cons, List.nodup_cons]
            refine ⟨?_, h6⟩
            intro hm
            obtain ⟨x, hx, hxn⟩ := List.mem_map.mp hm
            exact h5 x hx (List.mem_append_right _ (List.mem_singleton.mpr hxn))

theorem readTerms_err (ts : List (String × Int)) :
    ∀ (s : RG) (c : ErrCode), readTerms ts s = .error c →
      (c = 6 ∧ ∃ t ∈ ts, t.2 < 0) ∨
      (c = 5 ∧ ((∃ t ∈ ts, t.1 ∈ s.names) ∨ ¬ (ts.map (·.1)).Nodup)) ∨
      (c = 7 ∧ ((∃ t ∈ ts, t.2 ∈ s.codes) ∨ ¬ (ts.map (·.2)).Nodup)) := by
  induction ts with
  | nil => intro s c hs; cases hs
  | cons t rest ih =>
    obtain ⟨name, code⟩ := t
    intro s c hs
    unfold readTerms at hs
    split at hs
    · rename_i hneg
      simp only [Except.error.injEq] at hs
      exact Or.inl ⟨hs.symm, (name, code), List.mem_cons_self, hneg⟩
    · split at hs
      · rename_i hname
        simp only [Except.error.injEq] at hs
        exact Or.inr (Or.inl ⟨hs.symm, Or.inl
          ⟨(name, code), List.mem_cons_self, RG.find_isSome_iff.mp hname⟩⟩)
      · split at hs
        · rename_i hcode
          simp only [Except.error.injEq] at hs
          exact Or.inr (Or.inr ⟨hs.symm, Or.inl
            ⟨(name, code), List.mem_cons_self, RG.findCode_iff.mp hcode⟩⟩)
        · rcases ih _ c hs with ⟨h1, x, hx, h2⟩ | ⟨h1, h2⟩ | ⟨h1, h2⟩
          · exact Or.inl ⟨h1, x, List.mem_cons_of_mem _ hx, h2⟩
          · refine Or.inr (Or.inl ⟨h1, ?_⟩)
            rcases h2 with ⟨x, hx, hm⟩ | h2
            · rw [RG.names_addTerm] at hm
              rcases List.mem_append.mp hm with hm | hm
              · exact Or.inl ⟨x, List.mem_cons_of_mem _ hx, hm⟩
              · right
                rw [List.mem_singleton] at hm
                rw [List.map_cons, List.nodup_cons]
                exact fun hnd => hnd.1 (List.mem_map.mpr ⟨x, hx, hm⟩)
            · right
              rw [List.map_cons, List.nodup_cons]
              exact fun hnd => h2 hnd.2
          · refine Or.inr (Or.inr ⟨h1, ?_⟩)
            rcases h2 with ⟨x, hx, hm⟩ | h2
            · rw [RG.codes_addTerm] at hm
              rcases List.mem_append.mp hm with hm | hm
              · exact Or.inl ⟨x, List.mem_cons_of_mem _ hx, hm⟩
              · right
                rw [List.mem_singleton] at hm
                rw [List.map_cons, List.nodup_cons]
                exact fun hnd => hnd.1 (List.mem_map.mpr ⟨x, hx, hm⟩)
            · right
              rw [List.map_cons, List.nodup_cons]
              exact fun hnd => h2 hnd.2

theorem termEntries_map_fst (k : Nat) (ts : List (String × Int)) :
    (termEntries k ts).map (·.1) = ts.map (·.1) := by
  induction ts generalizing k with
  | nil => rfl
  | cons t r ih => simp only [termEntries, List.map_cons, ih]

theorem mem_termEntries {k : Nat} {ts : List (String × Int)} {e : String × SymKind}
    (h : e ∈ termEntries k ts) :
    ∃ nm c j, e = (nm, SymKind.term c j) ∧ j < k + ts.length ∧ (nm, c) ∈ ts := by
  induction ts generalizing k with
  | nil => cases h
  | cons t r ih =>
    simp only [termEntries, List.mem_cons] at h
    rcases h with rfl | h
    · exact ⟨t.1, t.2, k, rfl, by simp, List.mem_cons_self⟩
    · obtain ⟨nm, c, j, h1, h2, h3⟩ := ih h
      refine ⟨nm, c, j, h1, ?_, List.mem_cons_of_mem _ h3⟩
      simp only [List.length_cons]; omega

theorem termEntries_of_mem {k : Nat} {ts : List (String × Int)} {nm : String} {c : Int}
    (h : (nm, c) ∈ ts) : ∃ j, (nm, SymKind.term c j) ∈ termEntries k ts := by
  induction ts generalizing k with
  | nil => cases h
  | cons t r ih =>
    rcases List.mem_cons.mp h with rfl | h
    · exact ⟨k, List.mem_cons_self⟩
    · obtain ⟨j, hj⟩ := ih (k := k + 1) h
      exact ⟨j, List.mem_cons_of_mem _ hj⟩

theorem termEntries_termOf (k : Nat) (ts : List (String × Int)) :
    ((termEntries k ts).filterMap termOf).length = ts.length := by
  induction ts generalizing k with
  | nil => rfl
  | cons t r ih => simp [termEntries, termOf, ih]

theorem termEntries_ntOf (k : Nat) (ts : List (String × Int)) :
    (termEntries k ts).filterMap ntOf = [] := by
  induction ts generalizing k with
  | nil => rfl
  | cons t r ih =>
    rw [termEntries, List.filterMap_cons, ih]
    rfl

/-- the state in which `readRules` starts -/
def initRG (ts : List (String × Int)) : RG :=
  { syms := termEntries 0 ts ++ [(TERM_ERROR_NAME, SymKind.term (-2) ts.length)],
    nTerm := ts.length + 1, errT := ts.length }

theorem initRG_inv {ts : List (String × Int)} (hnd : (ts.map (·.1)).Nodup)
    (herr : TERM_ERROR_NAME ∉ ts.map (·.1)) :
    (initRG ts).Inv (ts.map (·.1) ++ [TERM_ERROR_NAME]) ∧ (initRG ts).startN = none ∧
      ∀ nm k, (nm, SymKind.nonterm k) ∉ (initRG ts).syms := by
  have hmem : ∀ e ∈ (initRG ts).syms,
      (∃ nm c j, e = (nm, SymKind.term c j) ∧ j < ts.length ∧ (nm, c) ∈ ts) ∨
      e = (TERM_ERROR_NAME, SymKind.term (-2) ts.length) := by
    intro e he
    unfold initRG at he
    simp only [List.mem_append, List.mem_singleton] at he
    rcases he with he | he
    · obtain ⟨nm, c, j, h1, h2, h3⟩ := mem_termEntries he
      exact Or.inl ⟨nm, c, j, h1, by simpa using h2, h3⟩
    · exact Or.inr he
  have hnont : ∀ nm k, (nm, SymKind.nonterm k) ∉ (initRG ts).syms := by
    intro nm k hm
    rcases hmem _ hm with ⟨_, _, _, h1, _⟩ | h1 <;> simp at h1
  refine ⟨?_, rfl, hnont⟩
  constructor
  · show ((termEntries 0 ts ++ [(TERM_ERROR_NAME, SymKind.term (-2) ts.length)]).map (·.1)).Nodup
    rw [List.map_append, termEntries_map_fst, List.nodup_append]
    refine ⟨hnd, by simp, ?_⟩
    intro a ha b hb
    simp only [List.map_cons, List.map_nil, List.mem_singleton] at hb
    subst hb
    intro hab; subst hab; exact herr ha
  · intro nm c k hm
    show k < ts.length + 1
    rcases hmem _ hm with ⟨nm', c', j, h1, h2, _⟩ | h1
    · simp only [Prod.mk.injEq, SymKind.term.injEq] at h1
      omega
    · simp only [Prod.mk.injEq, SymKind.term.injEq] at h1
      omega
  · intro nm k hm
    exact absurd hm (hnont nm k)
  · show ((termEntries 0 ts ++ [(TERM_ERROR_NAME, SymKind.term (-2) ts.length)]).filterMap
      termOf).length = ts.length + 1
    rw [List.filterMap_append, List.length_append, termEntries_termOf]
    simp [termOf]
  · show ((termEntries 0 ts ++ [(TERM_ERROR_NAME, SymKind.term (-2) ts.length)]).filterMap
      ntOf).length = 0
    rw [List.filterMap_append, termEntries_ntOf]
    simp [ntOf]
  · intro nm
    have hst : (initRG ts).startN = none := rfl
    simp only [hst, Option.isSome_none, Bool.false_eq_true, and_false, or_false,
      List.mem_append, List.mem_singleton, List.mem_map]
    constructor
    · rintro ⟨c, k, hm⟩
      rcases hmem _ hm with ⟨nm', c', j, h1, _, h3⟩ | h1
      · simp only [Prod.mk.injEq] at h1
        exact Or.inl ⟨(nm', c'), h3, h1.1.symm⟩
      · simp only [Prod.mk.injEq] at h1
        exact Or.inr h1.1
    · rintro (⟨⟨nm', c⟩, ht, rfl⟩ | rfl)
      · obtain ⟨j, hj⟩ := termEntries_of_mem (k := 0) ht
        exact ⟨c, j, List.mem_append_left _ hj⟩
      · exact ⟨-2, ts.length, List.mem_append_right _ (List.mem_singleton.mpr rfl)⟩
  · exact Nat.lt_succ_self _
  · intro rl hrl; cases hrl
  · intro st hst; cases hst
  · intro _; rfl

/-! ## the whole builder -/

theorem readTerms_init {ts : List (String × Int)} {s : RG} (hs : readTerms ts {} = .ok s) :
    ({ (s.addTerm TERM_ERROR_NAME (-2)).1 with errT := (s.addTerm TERM_ERROR_NAME (-2)).2 } : RG)
      = initRG ts ∧ s.names = ts.map (·.1) := by
  obtain ⟨h1, _⟩ := readTerms_ok ts {} s hs
  subst h1
  constructor
  · unfold RG.addTerm initRG
    simp
  · unfold RG.names
    simp [termEntries_map_fst]

theorem error_not_reserved : ¬ ReservedName TERM_ERROR_NAME := by
  unfold ReservedName; decide

theorem buildRG_ok {raw : RawGrammar} {s : RG} (hb : buildRG raw = .ok s) :
    StructOK raw ∧ s.Inv raw.allTermNames ∧ ∃ st, s.startN = some st := by
  unfold buildRG at hb
  cases ht : readTerms raw.terms {} with
  | error c => rw [ht] at hb; cases hb
  | ok s0 =>
    rw [ht] at hb
    simp only [] at hb
    obtain ⟨hinit, hnames⟩ := readTerms_init ht
    obtain ⟨_, hnonneg, _, hnd, _, hcd⟩ := readTerms_ok raw.terms {} s0 ht
    split at hb
    · cases hb
    · rename_i herr
      have herr' : TERM_ERROR_NAME ∉ raw.terms.map (·.1) := by
        rw [← hnames]
        exact fun hm => herr (RG.find_isSome_iff.mpr hm)
      rw [hinit] at hb
      obtain ⟨hinv0, hst0, _⟩ := initRG_inv hnd herr'
      cases hr : readRules raw.rules (initRG raw.terms) with
      | error c => rw [hr] at hb; cases hb
      | ok s' =>
        rw [hr] at hb
        simp only [] at hb
        split at hb
        · cases hb
        · rename_i hsome
          simp only [Except.ok.injEq] at hb
          subst hb
          obtain ⟨hinv, hall, _, hne, hnil⟩ := readRules_ok raw.rules _ _ hinv0 hr
          have hrules : raw.rules ≠ [] := by
            intro hn
            rw [hnil hn, hst0] at hsome
            exact hsome rfl
          obtain ⟨hstarted, hres⟩ := hne hrules
          refine ⟨?_, hinv, hstarted⟩
          constructor
          · exact hnonneg
          · exact hnd
          · exact hcd
          · exact herr'
          · intro x hx hr'
            have hxT : x ∈ raw.terms.map (·.1) ++ [TERM_ERROR_NAME] := List.mem_append_left _ hx
            rcases hr' with rfl | rfl
            · exact (hres hst0).1 hxT
            · exact (hres hst0).2 hxT
          · exact hrules
          · exact hall

theorem buildRG_err {raw : RawGrammar} {c : ErrCode} (hb : buildRG raw = .error c) :
    DefectOfCode raw c := by
  unfold buildRG at hb
  cases ht : readTerms raw.terms {} with
  | error c' =>
    rw [ht] at hb
    simp only [Except.error.injEq] at hb
    subst hb
    have hnm : ∀ t ∈ raw.terms, t.1 ∉ ({} : RG).names := fun _ _ h => by cases h
    have hcd : ∀ t ∈ raw.terms, t.2 ∉ ({} : RG).codes := fun _ _ h => by cases h
    rcases readTerms_err raw.terms {} c' ht with ⟨rfl, h⟩ | ⟨rfl, h⟩ | ⟨rfl, h⟩
    · exact h
    · rcases h with ⟨t, ht', hm⟩ | h
      · exact absurd hm (hnm t ht')
      · exact h
    · rcases h with ⟨t, ht', hm⟩ | h
      · exact absurd hm (hcd t ht')
      · exact h
  | ok s0 =>
    rw [ht] at hb
    simp only [] at hb
    obtain ⟨hinit, hnames⟩ := readTerms_init ht
    obtain ⟨_, _, _, hnd, _, _⟩ := readTerms_ok raw.terms {} s0 ht
    split at hb
    · rename_i herr
      simp only [Except.error.injEq] at hb
      subst hb
      left
      show TERM_ERROR_NAME ∈ raw.terms.map (·.1)
      rw [← hnames]
      exact RG.find_isSome_iff.mp herr
    · rename_i herr
      have herr' : TERM_ERROR_NAME ∉ raw.terms.map (·.1) := by
        rw [← hnames]
        exact fun hm => herr (RG.find_isSome_iff.mpr hm)
      rw [hinit] at hb
      obtain ⟨hinv0, hst0, hnont⟩ := initRG_inv hnd herr'
      cases hr : readRules raw.rules (initRG raw.terms) with
      | error c' =>
        rw [hr] at hb
        simp only [Except.error.injEq] at hb
        subst hb
        obtain ⟨rr, hrr, hd⟩ := readRules_err raw.rules _ c' hinv0 (fun _ => hnont) hr
        rcases hd with ⟨rfl, h⟩ | ⟨rfl, h⟩ | ⟨rfl, h⟩ | ⟨rfl, h⟩ | ⟨rfl, h⟩ | ⟨rfl, h⟩
        · rcases h with h | ⟨_, x, hx, hres⟩
          · exact Or.inr (Or.inr ⟨rr, hrr, h⟩)
          · refine Or.inr (Or.inl ⟨fun hn => (by rw [hn] at hrr; cases hrr), x, ?_, hres⟩)
            rcases List.mem_append.mp hx with hx | hx
            · exact hx
            · rw [List.mem_singleton] at hx
              subst hx
              exact absurd hres error_not_reserved
        · exact ⟨rr, hrr, h⟩
        · exact ⟨rr, hrr, h⟩
        · exact ⟨rr, hrr, h⟩
        · exact ⟨rr, hrr, h⟩
        · exact ⟨rr, hrr, h⟩
      | ok s' =>
        rw [hr] at hb
        simp only [] at hb
        split at hb
        · rename_i hnone
          simp only [Except.error.injEq] at hb
          subst hb
          show raw.rules = []
          apply Classical.byContradiction
          intro hne
          obtain ⟨_, _, _, hne', _⟩ := readRules_ok raw.rules _ _ hinv0 hr
          obtain ⟨⟨st, hst⟩, _⟩ := hne' hne
          rw [hst] at hnone
          cases hnone
        · cases hb

/-! ## the finished grammar -/

theorem finishRG_nT {T : List String} {s : RG} (h : s.Inv T) : (finishRG s).nT = s.nTerm := by
  unfold finishRG RG.toGrammar Grammar.nT
  simp only [List.length_map]
  exact h.nT

theorem finishRG_nN {T : List String} {s : RG} (h : s.Inv T) : (finishRG s).nN = s.nNt := by
  unfold finishRG RG.toGrammar Grammar.nN
  exact h.nN

theorem finishRG_rules (s : RG) :
    (finishRG s).rules = s.rules ++
      [{ lhs := s.axiomN, rhs := [.t s.errT, .t s.eofT], transLen := 0, order := [none, none] }] :=
  rfl

theorem finishRG_symsInRange {T : List String} {s : RG} {st : Nat} (h : s.Inv T)
    (hst : s.startN = some st) : (finishRG s).symsInRange = true := by
  have hs := h.started st hst
  unfold Grammar.symsInRange
  rw [List.all_eq_true]
  intro rl hrl
  rw [finishRG_rules] at hrl
  have hsym : ∀ sym, s.symLt sym → Sym.inRange (finishRG s) sym = true := by
    intro sym hlt
    cases sym with
    | t k => simp only [Sym.inRange, finishRG_nT h, decide_eq_true_eq]; exact hlt
    | n k => simp only [Sym.inRange, finishRG_nN h, decide_eq_true_eq]; exact hlt
  rw [Bool.and_eq_true, decide_eq_true_eq, finishRG_nN h, List.all_eq_true]
  rcases List.mem_append.mp hrl with hrl | hrl
  · obtain ⟨h1, h2⟩ := h.rulesRange rl hrl
    exact ⟨h1, fun sym hsm => hsym sym (h2 sym hsm)⟩
  · rw [List.mem_singleton] at hrl
    subst hrl
    refine ⟨hs.axLt, ?_⟩
    intro sym hsm
    simp only [List.mem_cons, List.not_mem_nil, or_false] at hsm
    rcases hsm with rfl | rfl
    · exact hsym _ h.errLt
    · exact hsym _ hs.eofLt

theorem finishRG_wf {T : List String} {s : RG} {st : Nat} (h : s.Inv T)
    (hst : s.startN = some st) : (finishRG s).WF := by
  have hs := h.started st hst
  obtain ⟨r0, rest, hrules, hr0l, hr0r, hrest⟩ := hs.rules
  have hg : (finishRG s).rules = r0 :: (rest ++
      [{ lhs := s.axiomN, rhs := [.t s.errT, .t s.eofT], transLen := 0, order := [none, none] }]) := by
    rw [finishRG_rules, hrules]; rfl
  have hax : (finishRG s).axiomN = s.axiomN := rfl
  have heof : (finishRG s).eofT = s.eofT := rfl
  have herr : (finishRG s).errT = s.errT := rfl
  have hstart : (finishRG s).startN = st := by
    show s.startN.getD 0 = st
    rw [hst]; rfl
  have hmem : ∀ rl ∈ (finishRG s).rules, rl = r0 ∨ rl ∈ rest ∨
      (rl.lhs = s.axiomN ∧ rl.rhs = [Sym.t s.errT, Sym.t s.eofT]) := by
    intro rl hrl
    rw [hg] at hrl
    rcases List.mem_cons.mp hrl with h1 | h1
    · exact Or.inl h1
    · rcases List.mem_append.mp h1 with h1 | h1
      · exact Or.inr (Or.inl h1)
      · rw [List.mem_singleton] at h1
        subst h1
        exact Or.inr (Or.inr ⟨rfl, rfl⟩)
  unfold Grammar.WF
  rw [hax, heof, herr, hstart]
  refine ⟨?_, ?_, ?_, ?_, hs.errNe, hs.stNe⟩
  · rw [hg]
    simp only [List.getElem?_cons_zero, Option.map_some, hr0l, hr0r]
  · intro i hi hl
    cases i with
    | zero => exact Or.inl rfl
    | succ j =>
      right
      have hm : (finishRG s).rules[j + 1] ∈ rest ++
          [{ lhs := s.axiomN, rhs := [.t s.errT, .t s.eofT], transLen := 0,
             order := [none, none] }] := by
        have : ∀ (l : List Rule) (hl : j + 1 < l.length), l = r0 :: (rest ++
            [{ lhs := s.axiomN, rhs := [.t s.errT, .t s.eofT], transLen := 0,
               order := [none, none] }]) → l[j + 1] ∈ rest ++
            [{ lhs := s.axiomN, rhs := [.t s.errT, .t s.eofT], transLen := 0,
               order := [none, none] }] := by
          intro l hl heq
          subst heq
          rw [List.getElem_cons_succ]
          exact List.getElem_mem _
        exact this _ hi hg
      rcases List.mem_append.mp hm with h1 | h1
      · exact absurd hl (hrest _ h1).1
      · rw [List.mem_singleton] at h1
        rw [h1]
  · intro rl hrl
    rcases hmem rl hrl with rfl | h1 | ⟨_, h1⟩
    · rw [hr0r]
      simp only [List.mem_cons, Sym.n.injEq, List.not_mem_nil, or_false, reduceCtorEq]
      exact fun hx => hs.stNe hx.symm
    · exact (hrest rl h1).2.1
    · rw [h1]; simp
  · intro rl hrl hin
    rcases hmem rl hrl with rfl | h1 | ⟨h1, _⟩
    · exact hr0l
    · exact absurd hin (hrest rl h1).2.2
    · exact h1

/-! ## `buildGrammar` -/

theorem buildGrammar_ok {raw : RawGrammar} {g : Grammar} (hb : buildGrammar raw = .ok g) :
    StructOK raw ∧ g.WF ∧ g.symsInRange = true := by
  unfold buildGrammar at hb
  cases hr : buildRG raw with
  | error c => rw [hr] at hb; cases hb
  | ok s =>
    rw [hr] at hb
    simp only [Except.ok.injEq] at hb
    subst hb
    obtain ⟨hok, hinv, st, hst⟩ := buildRG_ok hr
    exact ⟨hok, finishRG_wf hinv hst, finishRG_symsInRange hinv hst⟩

theorem buildGrammar_err {raw : RawGrammar} {c : ErrCode} (hb : buildGrammar raw = .error c) :
    DefectOfCode raw c := by
  unfold buildGrammar at hb
  cases hr : buildRG raw with
  | error c' =>
    rw [hr] at hb
    simp only [Except.error.injEq] at hb
    subst hb
    exact buildRG_err hr
  | ok s => rw [hr] at hb; cases hb

/-- a structurally correct description has none of the defects, and the semantic defects
presuppose that the internal grammar exists -/
theorem StructOK.no_defect {raw : RawGrammar} (h : StructOK raw) {c' : ErrCode}
    (hb : buildGrammar raw = .error c') : ∀ c, ¬ DefectOfCode raw c
  | 0, hd | 1, hd | 2, hd | 3, hd => hd
  | 4, hd => by
    rcases hd with hd | ⟨_, x, hx, hr⟩ | ⟨rr, hrr, hd | ⟨x, hx, hr⟩⟩
    · exact h.noErrorTerm hd
    · exact h.noReservedTerm x hx hr
    · exact (h.rulesOK rr hrr).lhsNotReserved hd
    · exact (h.rulesOK rr hrr).rhsNotReserved x hx hr
  | 5, hd => hd h.namesNodup
  | 6, hd => by
    obtain ⟨t, ht, hlt⟩ := hd
    exact absurd (h.codesNonneg t ht) (Int.not_le.mpr hlt)
  | 7, hd => hd h.codesNodup
  | 8, hd => h.hasRules hd
  | 9, hd => by
    obtain ⟨rr, hrr, hm⟩ := hd
    exact (h.rulesOK rr hrr).lhsNotTerm hm
  | 10, hd => by
    obtain ⟨rr, hrr, ha, tr, htr, hlen⟩ := hd
    have := (h.rulesOK rr hrr).fewTransl ha tr htr
    omega
  | 11, hd => by
    obtain ⟨rr, hrr, ha, hlt⟩ := hd
    exact absurd ((h.rulesOK rr hrr).costNonneg ha) (Int.not_le.mpr hlt)
  | 12, hd => by
    obtain ⟨rr, hrr, tr, htr, el, hel, hge, hne⟩ := hd
    rcases (h.rulesOK rr hrr).translInRange tr htr el hel with h1 | h1
    · omega
    · exact hne h1
  | 13, hd => by
    obtain ⟨rr, hrr, tr, htr, hnd⟩ := hd
    exact hnd ((h.rulesOK rr hrr).translNodup tr htr)
  | 14, hd => by
    obtain ⟨_, g, hg, _⟩ := hd
    rw [hb] at hg; cases hg
  | 15, hd => by
    obtain ⟨g, hg, _⟩ := hd
    rw [hb] at hg; cases hg
  | 16, hd => by
    obtain ⟨g, hg, _⟩ := hd
    rw [hb] at hg; cases hg
  | (_ + 17), hd => hd

/-- structural correctness is exactly what the builder needs -/
theorem buildGrammar_ok_iff (raw : RawGrammar) :
    (∃ g, buildGrammar raw = .ok g) ↔ StructOK raw := by
  constructor
  · rintro ⟨g, hg⟩
    exact (buildGrammar_ok hg).1
  · intro h
    cases hb : buildGrammar raw with
    | ok g => exact ⟨g, rfl⟩
    | error c => exact absurd (buildGrammar_err hb) (h.no_defect hb c)

end Yaep
