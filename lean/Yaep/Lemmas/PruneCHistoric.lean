import Yaep.Model.PruneC
/-!
# Variants of the model with the three historic defects of `find_minimal_translation`

Used only by the tests at the end of `Props/PruneC.lean`.

* `V1`: `prune_to_minimal` without the branch "the node has been already processed: its cost is
  known" — a visited shared node leaves `*cost` as the previous call left it.  In C all calls
  share the one variable `cost` of `find_minimal_translation`; the variant threads its value.
* `V2`: `traverse_pruned_translation` without the test "the node is shared and has been already
  traversed" — a shared node is negated again.
* `V3`: the freeing loop without recording what it has freed — a reference that is in
  `tnodes_vlo` twice, or a name shared by two abstract nodes, is freed twice.
-/
namespace Yaep.PC.Historic
open Yaep Yaep.PC

/-! ## V1: stale `*cost` -/

def kidsLoopV (rec : PSt → Int → Nat → PSt × Nat × Int) (node : Nat) : Nat → Nat → Int → PSt → PSt × Int
  | 0, _, cur, s => (s, cur)
  | m + 1, i, cur, s =>
    match kidAt s.heap node i with
    | none => (s, cur)
    | some child =>
      let p := rec s cur child
      let h := setKid p.1.heap node i p.2.1
      let h := setCost h node (costAt h node + p.2.2)
      kidsLoopV rec node m (i + 1) p.2.2 { p.1 with heap := h }

def altLoopV (rec : PSt → Int → Nat → PSt × Nat × Int) (one free : Bool) (head : Nat) :
    Nat → Option Nat → Int → Int → Nat → PSt → PSt × Int × Nat × Int
  | _, none, cur, mn, res, s => (s, mn, res, cur)
  | 0, some _, cur, mn, res, s => ({ s with oof := true }, mn, res, cur)
  | m + 1, some alt, cur, mn, res, s =>
    let s := collect free s alt
    match cellAt s.heap alt with
    | .alt nd nextAlt =>
      let p := rec s cur nd
      let h := setAltNode p.1.heap alt p.2.1
      let c := p.2.2
      if alt == head || mn > c then
        altLoopV rec one free head m nextAlt c c alt { p.1 with heap := setAltNext h alt none }
      else if mn == c && !one then
        altLoopV rec one free head m nextAlt c mn alt { p.1 with heap := setAltNext h alt (some res) }
      else
        altLoopV rec one free head m nextAlt c mn res { p.1 with heap := h }
    | _ => (s, mn, res, cur)

/-- `prune_to_minimal` without the `else` branch of `case YAEP_ANODE`; the third argument and
the third result are the value of `*cost` before and after the call -/
def pruneV1 (one free : Bool) : Nat → PSt → Int → Nat → PSt × Nat × Int
  | 0, s, cur, n => ({ s with oof := true }, n, cur)
  | fuel + 1, s, cur, n =>
    match cellAt s.heap n with
    | .anode _ c ks =>
      if c ≥ 0 then
        let s := collect free s n
        let q := kidsLoopV (pruneV1 one free fuel) n ks.size 0 cur s
        let c' := costAt q.1.heap n
        ({ q.1 with heap := setCost q.1.heap n (-c' - 1) }, n, c')
      else
        (s, n, cur)         -- the defect: `*cost` is not set
    | .alt _ _ =>
      match memoFind s.memo n with
      | some e => (s, e.result, e.cost)
      | none =>
        let q := altLoopV (pruneV1 one free fuel) one free n s.heap.size (some n) cur 0 n s
        let result := altResult q.1.heap q.2.2.1
        ({ q.1 with memo := ⟨n, result, q.2.1⟩ :: q.1.memo }, result, q.2.1)
    | _ => (collect free s n, n, 0)

/-! ## V2: the restore pass negates a shared node again -/

def traverseV2 (free : Bool) (nameBlk : Nat → Nat) : Nat → TSt → Nat → TSt
  | 0, t, _ => { t with oof := true }
  | fuel + 1, t, n =>
    let t := reserve free t (.cell n)
    match cellAt t.heap n with
    | .anode _ c ks =>
      let t := reserve free t (.name (nameBlk n))
      -- the defect: no `if (node->val.anode.cost >= 0) break;`
      let t := { t with heap := setCost t.heap n (-c - 1) }
      travKids (traverseV2 free nameBlk fuel) n ks.size 0 t
    | .alt _ _ => travAlt (traverseV2 free nameBlk fuel) free t.heap.size n t
    | _ => t

/-! ## V3: the freeing loop does not record what it frees -/

def freeLoopV3 (h : Array Cell) (nameBlk : Nat → Nat) : List Nat → FSt → FSt
  | [], f => f
  | p :: ps, f =>
    if f.resv.contains (.cell p) then freeLoopV3 h nameBlk ps f
    else
      match cellAt h p with
      | .nil => freeLoopV3 h nameBlk ps { f with cleared := p :: f.cleared }
      | .err => freeLoopV3 h nameBlk ps { f with cleared := p :: f.cleared }
      | .anode _ _ _ =>
        let b := nameBlk p
        if f.resv.contains (.name b) then
          freeLoopV3 h nameBlk ps { f with frees := .cell p :: f.frees }
        else
          freeLoopV3 h nameBlk ps { f with frees := .cell p :: .name b :: f.frees }
      | _ => freeLoopV3 h nameBlk ps { f with frees := .cell p :: f.frees }

/-- `find_minimal_translation` with the chosen defects -/
def fmtV (v1 v2 v3 : Bool) (fuel : Nat) (heap : Array Cell) (root : Nat) (one : Bool)
    (nameBlk : Nat → Nat) : Result :=
  let p := if v1 then pruneV1 one true fuel { heap := heap } 0 root
           else pruneToMinimal one true fuel { heap := heap } root
  let root' := p.2.1
  let t := if v2 then traverseV2 true nameBlk fuel { heap := p.1.heap } root'
           else traversePruned true nameBlk fuel { heap := p.1.heap } root'
  let f := if v3 then freeLoopV3 t.heap nameBlk p.1.coll.toList { resv := t.resv }
           else freeLoop t.heap nameBlk p.1.coll.toList { resv := t.resv }
  { heap := t.heap, root := root', cost := p.2.2,
    frees := f.frees.reverse, cleared := f.cleared.reverse,
    nilUsed := true, errUsed := true,
    memo := p.1.memo, coll := p.1.coll.toList, resv := t.resv, oof := p.1.oof || t.oof }

end Yaep.PC.Historic
