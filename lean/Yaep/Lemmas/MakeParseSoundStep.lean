import Yaep.Lemmas.MakeParseSoundDen
/-!
# Soundness of the model of `make_parse`, part 3: the main loop in one-parse mode, case by case

Closed forms of `step`, `stepTerm`, `candidate`, `candLoop` restricted to what the invariant looks
at: the tree memory, the parse states, the stack and the flag `bad`.  Nothing here mentions the
grammar or the Earley sets.
-/
namespace Yaep.MP
open Yaep

@[simp] theorem setState_heap (s : St) (sid : Nat) (p : PState) : (s.setState sid p).heap = s.heap := rfl
@[simp] theorem setState_stack (s : St) (sid : Nat) (p : PState) : (s.setState sid p).stack = s.stack := rfl
@[simp] theorem setState_bad (s : St) (sid : Nat) (p : PState) : (s.setState sid p).bad = s.bad := rfl
@[simp] theorem setState_states (s : St) (sid : Nat) (p : PState) :
    (s.setState sid p).states = s.states.set! sid p := rfl
@[simp] theorem place_heap (s : St) (pl : Nat × Nat) (n : Nat) :
    (s.place pl n).heap = placeTranslation s.heap pl n := rfl
@[simp] theorem place_stack (s : St) (pl : Nat × Nat) (n : Nat) : (s.place pl n).stack = s.stack := rfl
@[simp] theorem place_bad (s : St) (pl : Nat × Nat) (n : Nat) : (s.place pl n).bad = s.bad := rfl
@[simp] theorem place_states (s : St) (pl : Nat × Nat) (n : Nat) : (s.place pl n).states = s.states := rfl
@[simp] theorem push_heap (s : St) (p : PState) : (s.push p).1.heap = s.heap := rfl
@[simp] theorem push_stack (s : St) (p : PState) : (s.push p).1.stack = s.states.size :: s.stack := rfl
@[simp] theorem push_bad (s : St) (p : PState) : (s.push p).1.bad = s.bad := rfl
@[simp] theorem push_states (s : St) (p : PState) : (s.push p).1.states = s.states.push p := rfl

theorem state_setState_same {s : St} {sid : Nat} (p : PState) (h : sid < s.states.size) :
    (s.setState sid p).state sid = p := by
  simp [St.state, h]

theorem state_setState_ne {s : St} {sid i : Nat} (p : PState) (h : sid ≠ i) :
    (s.setState sid p).state i = s.state i := by
  simp [St.state, h]

/-! ## the four cases of `step` -/

theorem step_pop_none {c : Ctx} {s : St} {sid : Nat} {rest : List Nat} {pa : Nat}
    (hst : s.stack = sid :: rest) (hpos : (s.state sid).pos = 0) (han : (s.state sid).anode = none)
    (hpa : (s.state (s.state sid).parent).anode = some pa) :
    step c s = if (c.rule (s.state sid).rule).transLen == 0
      then ({ s with stack := rest } : St).place (pa, (s.state sid).parentDisp) nilId
      else { s with stack := rest } := by
  unfold step
  simp only [hst, hpos, han, hpa]
  simp

/-- the final pass over the children of a finished abstract node: NULL becomes the empty node -/
def fillNil (h : Array MNode) (an : Nat) (n : Nat) : Array MNode :=
  (List.range n).foldl (fun h i => if (getKid h an i).isNone then setKid h an i (some nilId) else h) h

theorem step_pop_some {c : Ctx} {s : St} {sid : Nat} {rest : List Nat} {an : Nat}
    (hst : s.stack = sid :: rest) (hpos : (s.state sid).pos = 0) (han : (s.state sid).anode = some an) :
    step c s = (List.range (c.rule (s.state sid).rule).transLen).foldl (fun s i =>
          if (getKid s.heap an i).isNone then
            { s with heap := setKid s.heap an i (some nilId), nilUsed := true }
          else s) { s with stack := rest } := by
  unfold step
  simp only [hst, hpos, han]
  simp

theorem popFold_proj (an : Nat) : ∀ (l : List Nat) (s : St),
    let r := l.foldl (fun (s : St) i =>
          if (getKid s.heap an i).isNone then
            { s with heap := setKid s.heap an i (some nilId), nilUsed := true }
          else s) s
    r.heap = l.foldl (fun h i => if (getKid h an i).isNone then setKid h an i (some nilId) else h) s.heap ∧
    r.states = s.states ∧ r.stack = s.stack ∧ r.bad = s.bad
  | [], s => ⟨rfl, rfl, rfl, rfl⟩
  | i :: l, s => by
    simp only [List.foldl_cons]
    have ih := popFold_proj an l (if (getKid s.heap an i).isNone then
            { s with heap := setKid s.heap an i (some nilId), nilUsed := true } else s)
    simp only at ih
    obtain ⟨i1, i2, i3, i4⟩ := ih
    refine ⟨?_, ?_, ?_, ?_⟩
    · rw [i1]; congr 1; split <;> rfl
    · rw [i2]; split <;> rfl
    · rw [i3]; split <;> rfl
    · rw [i4]; split <;> rfl

theorem fillNil_spec {h : Array MNode} {an : Nat} {nm : String} {c : Nat} {ks : Array (Option Nat)}
    (hc : h.getD an .nil = .anode nm c ks) (han : an < h.size) : ∀ n,
    (fillNil h an n).size = h.size ∧
    (∀ m, m ≠ an → (fillNil h an n).getD m .nil = h.getD m .nil) ∧
    ∃ ks', (fillNil h an n).getD an .nil = .anode nm c ks' ∧ ks'.size = ks.size ∧
      ∀ i, ks'.getD i none =
        if i < n ∧ i < ks.size ∧ ks.getD i none = none then some nilId else ks.getD i none
  | 0 => by
    refine ⟨rfl, fun _ _ => rfl, ks, hc, rfl, fun i => by simp⟩
  | n + 1 => by
    obtain ⟨i1, i2, ks1, i3, i4, i5⟩ := fillNil_spec hc han n
    have e : fillNil h an (n + 1) =
        if (getKid (fillNil h an n) an n).isNone then setKid (fillNil h an n) an n (some nilId)
        else fillNil h an n := by
      unfold fillNil
      rw [List.range_succ, List.foldl_append]; rfl
    rw [e]
    rw [getKid_of_cell i3]
    have hkn : ks1.getD n none = ks.getD n none := by
      rw [i5 n]; exact if_neg (fun hh => absurd hh.1 (Nat.lt_irrefl n))
    have hother : ∀ i, i ≠ n → ks1.getD i none =
        if i < n + 1 ∧ i < ks.size ∧ ks.getD i none = none then some nilId else ks.getD i none := by
      intro i hin
      rw [i5 i]
      by_cases hc1 : i < n ∧ i < ks.size ∧ ks.getD i none = none
      · rw [if_pos hc1, if_pos ⟨by omega, hc1.2⟩]
      · rw [if_neg hc1, if_neg (fun hh => hc1 ⟨by omega, hh.2⟩)]
    split
    · rename_i hnone
      have hk : ks.getD n none = none := by rw [← hkn]; simpa using hnone
      refine ⟨by rw [setKid_size, i1], fun m hm => by rw [setKid_getD_ne hm, i2 m hm], ?_⟩
      refine ⟨ks1.set! n (some nilId), setKid_getD_same i3 (by rw [i1]; exact han), by simp [i4], ?_⟩
      intro i
      rw [getD_set!, i4]
      by_cases hin : n = i
      · subst hin
        by_cases hlt : n < ks.size
        · rw [if_pos ⟨rfl, hlt⟩, if_pos ⟨by omega, hlt, hk⟩]
        · rw [if_neg (fun hh => hlt hh.2), if_neg (fun hh => hlt hh.2.1), hkn]
      · rw [if_neg (fun hh => hin hh.1)]
        exact hother i (Ne.symm hin)
    · rename_i hsome
      have hk : ks.getD n none ≠ none := by rw [← hkn]; simpa using hsome
      refine ⟨i1, i2, ks1, i3, i4, ?_⟩
      intro i
      by_cases hin : i = n
      · subst hin
        rw [hkn, if_neg (fun hh => hk hh.2.2)]
      · exact hother i hin

/-! ## terminal before the dot -/

theorem step_term {c : Ctx} {s : St} {sid : Nat} {rest : List Nat} {a : Nat}
    (hst : s.stack = sid :: rest) (hpos : (s.state sid).pos ≠ 0)
    (hsym : (c.rule (s.state sid).rule).rhs.getD ((s.state sid).pos - 1) (.t 0) = .t a) :
    step c s = stepTerm c sid (s.state sid) ((s.state sid).pos - 1)
      ((c.rule (s.state sid).rule).order.getD ((s.state sid).pos - 1) none) a
      (s.state (s.state sid).parent).anode s := by
  unfold step
  simp only [hst, hsym]
  simp [hpos]

/-- the place a state puts the translation of a right-hand-side symbol into -/
def placeOf (st : PState) (pa d : Nat) : Nat × Nat :=
  match st.anode with
  | some an => (an, d)
  | none => (pa, st.parentDisp)

theorem stepTerm_proj {c : Ctx} {sid : Nat} {st : PState} {pos : Nat} {disp : Option Nat} {a : Nat}
    {pa : Nat} {s : St} (hone : c.oneParse = true) :
    let r := stepTerm c sid st pos disp a (some pa) s
    r.states = s.states.set! sid { st with pos := pos, plInd := if pos != 0 then st.plInd - 1 else st.plInd } ∧
    r.stack = s.stack ∧
    (s.bad = true → r.bad = true) ∧
    r.heap = match disp with
      | none => s.heap
      | some d =>
        if a == c.errT then placeTranslation s.heap (placeOf st pa d) errId
        else placeTranslation (s.heap.push (.term (c.termCodes.getD a 0) (c.plToks.getD (st.plInd - 1 + 1) (-1))))
          (placeOf st pa d) s.heap.size := by
  unfold stepTerm
  cases disp with
  | none =>
    refine ⟨rfl, rfl, ?_, rfl⟩
    intro hb; simp [hb]
  | some d =>
    simp only [hone]
    by_cases he : (a == c.errT) = true
    · simp only [he, if_true]
      refine ⟨rfl, rfl, ?_, ?_⟩
      · intro hb; simp [hb]
      · simp [placeOf]; rfl
    · simp only [he]
      refine ⟨rfl, rfl, ?_, ?_⟩
      · intro hb; simp [hb]
      · simp [placeOf]; rfl

/-! ## nonterminal before the dot -/

theorem step_nt {c : Ctx} {s : St} {sid : Nat} {rest : List Nat} {A : Nat}
    (hst : s.stack = sid :: rest) (hpos : (s.state sid).pos ≠ 0)
    (hsym : (c.rule (s.state sid).rule).rhs.getD ((s.state sid).pos - 1) (.t 0) = .n A) :
    step c s =
      let st := s.state sid
      let pos := st.pos - 1
      let s0 := s.setState sid { st with pos := pos }
      let L : Loc := { origSid := sid, rule := st.rule, pos := pos,
                       disp := (c.rule st.rule).order.getD pos none, plInd := st.plInd,
                       orig := st.orig, parentAnode := (s.state st.parent).anode,
                       parentDisp := st.parentDisp, A := A }
      let set := c.sets.getD st.plInd #[]
      let r := candLoop c L set (reduces c set A) 0 [] s0
      if r.2 == 0 then { r.1 with bad := true } else r.1 := by
  unfold step
  simp only [hst, hsym]
  simp [hpos]

/-- after the first candidate: nothing but the ambiguity flag changes -/
theorem candLoop_after {c : Ctx} {L : Loc} {set : Array Item} (hone : c.oneParse = true) :
    ∀ (l : List Nat) (os : List Nat) (s : St),
      ∃ b, candLoop c L set l 1 os s = ({ s with amb := b }, 1)
  | [], os, s => ⟨s.amb, rfl⟩
  | i :: l, os, s => by
    unfold candLoop
    by_cases hf : checkFound c L (set.getD i default).origin = true
    · simp only [hf, hone]
      exact ⟨true, by simp⟩
    · simp only [hf]
      simpa using candLoop_after hone l os s

theorem candLoop_zero {c : Ctx} {L : Loc} {set : Array Item} (hone : c.oneParse = true) :
    ∀ (l : List Nat) (s : St),
      (candLoop c L set l 0 [] s = (s, 0) ∧
        ∀ i ∈ l, checkFound c L (set.getD i default).origin = false) ∨
      ∃ i ∈ l, checkFound c L (set.getD i default).origin = true ∧
        ∃ b, candLoop c L set l 0 [] s =
          ({ (candidate c L (set.getD i default) 0 [] s).1 with amb := b }, 1)
  | [], s => Or.inl ⟨rfl, fun _ h => by cases h⟩
  | i :: l, s => by
    by_cases hf : checkFound c L (set.getD i default).origin = true
    · right
      refine ⟨i, List.mem_cons_self, hf, ?_⟩
      unfold candLoop
      simp only [hf]
      obtain ⟨b, hb⟩ := candLoop_after (L := L) (set := set) hone l
        (candidate c L (set.getD i default) 0 [] s).2 (candidate c L (set.getD i default) 0 [] s).1
      exact ⟨b, by simpa using hb⟩
    · have hf' : checkFound c L (set.getD i default).origin = false := by simpa using hf
      rcases candLoop_zero hone l s with ⟨h1, h2⟩ | ⟨j, hj, h1, b, h2⟩
      · left
        refine ⟨?_, ?_⟩
        · unfold candLoop; simp only [hf']; simpa using h1
        · intro k hk
          rcases List.mem_cons.mp hk with rfl | hk
          · exact hf'
          · exact h2 k hk
      · right
        refine ⟨j, List.mem_cons_of_mem _ hj, h1, b, ?_⟩
        unfold candLoop; simp only [hf']; simpa using h2

/-- `orig_state->pl_ind = sit_orig` -/
def setPl (s : St) (sid : Nat) (pl : Nat) : St :=
  s.setState sid { s.state sid with plInd := pl }

/-- the symbol is not translated: only the list index of the state is set -/
theorem candidate_skip {c : Ctx} {L : Loc} {sit : Item} {s : St}
    (h : L.parentAnode = none ∨ L.disp = none) :
    (candidate c L sit 0 [] s).1 = setPl s L.origSid sit.origin := by
  unfold candidate setPl
  rcases h with h | h
  · simp [h]
  · simp [h]

/-- the place the translation of the candidate goes to -/
def childPlace (s : St) (L : Loc) (pa d : Nat) : Nat × Nat :=
  match (s.state L.origSid).anode with
  | none => (pa, L.parentDisp)
  | some a => (a, d)

/-- the state pushed for the chosen candidate -/
def childState (s : St) (L : Loc) (sit : Item) (d : Nat) (an : Option Nat) : PState :=
  { rule := sit.rule, pos := sit.dot, orig := sit.origin, plInd := L.plInd,
    parent := match (s.state L.origSid).anode with
      | none => (s.state L.origSid).parent
      | some _ => L.origSid,
    parentDisp := match (s.state L.origSid).anode with
      | none => L.parentDisp
      | some _ => d,
    anode := an }

/-- the rule of the candidate has an abstract node: a new cell and a new state -/
theorem candidate_anode {c : Ctx} {L : Loc} {sit : Item} {s : St} {pa d : Nat} {name : String}
    (hone : c.oneParse = true) (hpa : L.parentAnode = some pa) (hd : L.disp = some d)
    (hn : (c.rule sit.rule).anode = some name) (hsid : L.origSid < s.states.size) :
    let r := (candidate c L sit 0 [] s).1
    r.heap = placeTranslation (s.heap.push (.anode name (c.rule sit.rule).cost
        (Array.replicate ((c.rule sit.rule).transLen + 1) none)))
        (childPlace s L pa d) s.heap.size ∧
    r.states = (s.states.set! L.origSid { s.state L.origSid with plInd := sit.origin }).push
      (childState s L sit d (some s.heap.size)) ∧
    r.stack = s.states.size :: s.stack ∧ r.bad = s.bad := by
  unfold candidate
  simp only [hone, hpa, hd, hn]
  have e := state_setState_same (s := s) { s.state L.origSid with plInd := sit.origin } hsid
  refine ⟨?_, ?_, ?_, ?_⟩
  · simp [apply_ite St.heap, childPlace, e]
    rfl
  · simp [apply_ite St.states, childState, e]
    rfl
  · simp [apply_ite St.stack, apply_ite St.states]
  · simp [apply_ite St.bad]

/-- a rule without abstract node and a nonempty right-hand side: a new state -/
theorem candidate_pass {c : Ctx} {L : Loc} {sit : Item} {s : St} {pa d : Nat}
    (hpa : L.parentAnode = some pa) (hd : L.disp = some d)
    (hn : (c.rule sit.rule).anode = none) (hdot : sit.dot ≠ 0) (hsid : L.origSid < s.states.size) :
    let r := (candidate c L sit 0 [] s).1
    r.heap = s.heap ∧
    r.states = (s.states.set! L.origSid { s.state L.origSid with plInd := sit.origin }).push
      (childState s L sit d none) ∧
    r.stack = s.states.size :: s.stack ∧ r.bad = s.bad := by
  unfold candidate
  simp only [hpa, hd, hn]
  have e := state_setState_same (s := s) { s.state L.origSid with plInd := sit.origin } hsid
  refine ⟨?_, ?_, ?_, ?_⟩
  · simp [hdot]
  · simp [hdot, childState, e]
    rfl
  · simp [hdot]
  · simp [hdot]

/-- an empty rule without abstract node: the empty node -/
theorem candidate_nil {c : Ctx} {L : Loc} {sit : Item} {s : St} {pa d : Nat}
    (hpa : L.parentAnode = some pa) (hd : L.disp = some d)
    (hn : (c.rule sit.rule).anode = none) (hdot : sit.dot = 0) (hsid : L.origSid < s.states.size) :
    let r := (candidate c L sit 0 [] s).1
    r.heap = placeTranslation s.heap (childPlace s L pa d) nilId ∧
    r.states = s.states.set! L.origSid { s.state L.origSid with plInd := sit.origin } ∧
    r.stack = s.stack ∧ r.bad = s.bad := by
  unfold candidate
  simp only [hpa, hd, hn]
  have e := state_setState_same (s := s) { s.state L.origSid with plInd := sit.origin } hsid
  refine ⟨?_, ?_, ?_, ?_⟩
  · simp [hdot, childPlace, e]
    rfl
  · simp [hdot]
  · simp [hdot]
  · simp [hdot]

/-! ## the flag `bad` is never reset -/

theorem stepTerm_bad {c : Ctx} {sid : Nat} {st : PState} {pos : Nat} {disp : Option Nat} {a : Nat}
    {pa : Option Nat} {s : St} (hone : c.oneParse = true) (hb : s.bad = true) :
    (stepTerm c sid st pos disp a pa s).bad = true := by
  unfold stepTerm
  cases pa <;> cases disp <;> simp [hone, hb]
  split <;> simp

theorem candidate_bad {c : Ctx} {L : Loc} {sit : Item} {s : St} (hone : c.oneParse = true) :
    (candidate c L sit 0 [] s).1.bad = s.bad := by
  unfold candidate
  cases hpa : L.parentAnode <;> cases hd : L.disp <;> simp only [hone]
  all_goals try rfl
  cases hn : (c.rule sit.rule).anode
  · by_cases hdot : sit.dot = 0 <;> simp [hdot]
  · simp [apply_ite St.bad]

theorem step_bad {c : Ctx} {s : St} (hone : c.oneParse = true) (hb : s.bad = true) :
    (step c s).bad = true := by
  unfold step
  split
  · exact hb
  · rename_i sid rest hst
    simp only
    split
    · split
      · split
        · split
          · exact hb
          · exact hb
        · exact hb
      · rename_i an han
        exact ((popFold_proj an _ _).2.2.2).trans hb
    · split
      · exact stepTerm_bad hone hb
      · rename_i A hA
        split
        · rfl
        · rcases candLoop_zero (c := c) (L := _) (set := _) hone _ _ with ⟨h1, _⟩ | ⟨i, _, _, b, h1⟩
          · rw [h1]; exact hb
          · rw [h1]; show (candidate _ _ _ 0 [] _).1.bad = true
            rw [candidate_bad hone]; exact hb

theorem stepTerm_bad_false {c : Ctx} {sid : Nat} {st : PState} {pos : Nat} {disp : Option Nat} {a : Nat}
    {pa : Option Nat} {s : St} (hone : c.oneParse = true) (hb : s.bad = false) (hpl : st.plInd ≠ 0)
    (htok : 0 ≤ c.plToks.getD (st.plInd - 1 + 1) (-1)) :
    (stepTerm c sid st pos disp a pa s).bad = false := by
  unfold stepTerm
  have h1 : (st.plInd == 0) = false := by simpa using hpl
  have h2 : 0 ≤ c.plToks[st.plInd - 1 + 1]?.getD (-1) := by
    rw [← Array.getD_eq_getD_getElem?]; exact htok
  cases pa <;> cases disp <;> simp [hone, hb, h1]
  split
  · simp
  · simp; exact h2

end Yaep.MP
