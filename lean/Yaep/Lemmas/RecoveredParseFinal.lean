import Yaep.Lemmas.RecoveredParseMain
import Yaep.Props.C07
/-!
# The final list of `parseWithRecovery` satisfies the hypotheses of `RecoveredParseMain`; the
TERM nodes of a translation of the repaired input
-/
namespace Yaep.RP
open Yaep Yaep.MP

section
variable {g : Grammar} {la rmatch : Nat} {w : List Nat} {sfuel : Nat}

theorem final_of_ok (hok : (parseWithRecovery g la rmatch w sfuel).ok = true) :
    Final g la (w ++ [g.eofT]) (parseWithRecovery g la rmatch w sfuel).pl :=
  ⟨(parseWithRecovery_inv hok).run, (parseWithRecovery_inv hok).pl_ok⟩

/-- the repaired input ends with the end marker -/
theorem word_ends (hwf : g.WF) (hok : (parseWithRecovery g la rmatch w sfuel).ok = true) :
    ∃ u, word (parseWithRecovery g la rmatch w sfuel).pl = u ++ [g.eofT] := by
  obtain ⟨s, _, _, hlast, hterm, htok, _⟩ := final_accepts hwf hok
  obtain ⟨s0, rest, hpl, _, h0, _⟩ := (parseWithRecovery_inv hok).pl_ok
  rw [hpl] at hlast ⊢
  have hne : rest ≠ [] := by
    intro hr; subst hr
    simp only [List.getLast?_singleton, Option.some.injEq] at hlast
    subst hlast; rw [h0] at htok; cases htok
  have hlast' : rest.getLast? = some s := by
    rw [List.getLast?_cons_of_ne_nil hne] at hlast; exact hlast
  obtain ⟨init, rfl⟩ : ∃ init, rest = init ++ [s] := List.getLast?_eq_some_iff.mp hlast'
  refine ⟨init.map fun s => s.term.getD 0, ?_⟩
  unfold word
  simp [hterm]

/-- the last set of the final list is not empty -/
theorem last_nonempty (hwf : g.WF) (hok : (parseWithRecovery g la rmatch w sfuel).ok = true)
    {u : List Nat} (hw : word (parseWithRecovery g la rmatch w sfuel).pl = u ++ [g.eofT]) :
    ∃ it, EarleyF g (okF g g.analysis la (w ++ [g.eofT]) (parseWithRecovery g la rmatch w sfuel).pl)
      (word (parseWithRecovery g la rmatch w sfuel).pl) (u.length + 1) it := by
  obtain ⟨s, it, _, hlast, _, _, hit, _⟩ := final_accepts hwf hok
  have hF := final_of_ok hok
  have hlen := hF.length
  rw [hw] at hlen
  simp only [List.length_append, List.length_singleton] at hlen
  refine ⟨it, ?_⟩
  have hinv := hF.plInv
  have hk : u.length + 1 < (psItems (parseWithRecovery g la rmatch w sfuel).pl).length := by
    rw [psItems_length]; omega
  apply (hinv (u.length + 1) hk it).mp
  have : (psItems (parseWithRecovery g la rmatch w sfuel).pl).getD (u.length + 1) [] = s.items := by
    unfold psItems
    rw [List.getD_eq_getElem?_getD, List.getElem?_map]
    have : (parseWithRecovery g la rmatch w sfuel).pl[u.length + 1]? = some s := by
      rw [List.getLast?_eq_getElem?] at hlast
      have e : (parseWithRecovery g la rmatch w sfuel).pl.length - 1 = u.length + 1 := by omega
      rw [e] at hlast; exact hlast
    rw [this]; rfl
  rw [this]; exact hit

end

/-! ## TERM nodes -/

mutual
  theorem terms_mapAttr (f : Int → Int) : ∀ (t : Tree),
      (t.mapAttr f).terms = t.terms.map fun p => (p.1, f p.2)
    | .nil => rfl
    | .error => rfl
    | .term _ _ => rfl
    | .anode _ _ ks => by
      simp only [Tree.mapAttr, Tree.terms]
      exact termsList_mapAttr f ks
  theorem termsList_mapAttr (f : Int → Int) : ∀ (ts : List Tree),
      Tree.termsList (Tree.mapAttrList f ts) = (Tree.termsList ts).map fun p => (p.1, f p.2)
    | [] => rfl
    | t :: ts => by
      simp only [Tree.mapAttrList, Tree.termsList, List.map_append]
      rw [terms_mapAttr f t, termsList_mapAttr f ts]
end

/-- **every TERM node of a translation of the repaired input carries the code and the token number
(in the original input) of the token it derives** — not the index of the list element (the
repaired defect D8 was exactly this confusion) -/
theorem fixed_terms {g : Grammar} {la : Nat} {full : List Nat} {pl : List PSet}
    (h : Final g la full pl) {pt : PT} (hpt : PT.IsDerivation g (word pl) pt) {cd a : Int}
    (hx : (cd, a) ∈ ((translate g pt).mapAttr (fix pl)).terms) :
    ∃ (j : Nat) (s : PSet) (k tk : Nat), pl[j + 1]? = some s ∧ (word pl)[j]? = some tk ∧
      s.term = some tk ∧ s.tok = some k ∧ a = (k : Int) ∧ full[k]? = some tk ∧ tk ≠ g.errT ∧
      g.termCodes.getD tk 0 = cd := by
  rw [terms_mapAttr, List.mem_map] at hx
  obtain ⟨⟨cd0, a0⟩, hmem, heq⟩ := hx
  simp only [Prod.mk.injEq] at heq
  obtain ⟨rfl, rfl⟩ := heq
  obtain ⟨j, tk, rfl, hw, hne, hcd⟩ := translate_term_attr hpt hmem
  have hw' := hw
  rw [word_getElem?] at hw'
  cases hs : pl[j + 1]? with
  | none => rw [hs] at hw'; cases hw'
  | some s =>
    rw [hs] at hw'
    simp only [Option.map_some, Option.some.injEq] at hw'
    have hmem' : s ∈ pl.drop 1 := by
      apply List.mem_of_getElem? (i := j)
      rw [List.getElem?_drop, Nat.add_comm]; exact hs
    rcases h.ok_drop s hmem' with ⟨_, h2⟩ | ⟨k, t, h1, h2, h3⟩
    · rw [h2] at hw'; exact absurd hw'.symm hne
    · rw [h2] at hw'
      simp only [Option.getD_some] at hw'
      subst hw'
      refine ⟨j, s, k, t, hs, hw, h2, h1, ?_, h3, hne, hcd⟩
      unfold fix
      have h0 : (j : Int) ≥ 0 := by omega
      rw [if_pos h0]
      have hn : ((j : Int)).toNat = j := by omega
      rw [hn, List.getD_eq_getElem?_getD, List.getElem?_map, List.getElem?_drop, Nat.add_comm, hs]
      simp [tokInt, h1]

end Yaep.RP
