import Yaep.Lemmas.MakeParseAllMain
import Yaep.Lemmas.PruneCBasic
/-!
# The heaps of the model of `make_parse` are well formed, part 1: ranks

* `filter_length_lt`: the counting argument behind both ranks;
* `ntRank`: a rank of the nonterminals that decreases along unit steps (grammar without cycles);
* `rhoI`, `Below`: the rank of a rule instance `(lhs, orig, fin)` — span length first, `ntRank`
  second — and the relation "strictly below" between instances;
* `Gh`, `HW`: the ghost data of a heap (rank of the non-ALT cells, rank / position / head of the
  ALT cells) and the cell-wise well-formedness they witness;
* `HW.wfHeap`: `HW` gives `PC.WfHeap` of the converted heap (the rank is compressed below the
  heap size by counting).
-/
namespace Yaep.MP
open Yaep

/-! ## counting -/

theorem filter_length_le {l : List Nat} {p q : Nat → Bool}
    (hpq : ∀ x ∈ l, p x = true → q x = true) : (l.filter p).length ≤ (l.filter q).length := by
  induction l with
  | nil => simp
  | cons x l ih =>
    have ih' := ih (fun y hy => hpq y (List.mem_cons_of_mem _ hy))
    have hx := hpq x List.mem_cons_self
    cases hp : p x <;> cases hq : q x <;> simp [hp, hq] <;> simp [hp, hq] at hx <;> omega

theorem filter_length_lt {l : List Nat} {p q : Nat → Bool}
    (hpq : ∀ x ∈ l, p x = true → q x = true) {y : Nat} (hy : y ∈ l) (hqy : q y = true)
    (hpy : p y = false) : (l.filter p).length < (l.filter q).length := by
  induction l with
  | nil => cases hy
  | cons x l ih =>
    have hle := filter_length_le (fun z hz => hpq z (List.mem_cons_of_mem _ hz))
    have hx := hpq x List.mem_cons_self
    rcases List.mem_cons.mp hy with rfl | hy'
    · simp [hqy, hpy]; omega
    · have ih' := ih (fun z hz => hpq z (List.mem_cons_of_mem _ hz)) hy'
      cases hp : p x <;> cases hq : q x <;> simp [hp, hq] <;> simp [hp, hq] at hx <;> omega

/-! ## a rank of the nonterminals -/

theorem Plus.trans' {α : Type} {R : α → α → Prop} {a b c : α} (h1 : Plus R a b) (h2 : Plus R b c) :
    Plus R a c := by
  induction h1 with
  | single h => exact .cons h h2
  | cons h _ ih => exact .cons h (ih h2)

theorem unitStep_range {g : Grammar} (hr : g.symsInRange = true) {A B : Nat} (h : UnitStep g A B) :
    B < g.nN := by
  obtain ⟨r, rl, i, e, _, hi, _⟩ := h
  simp only [Grammar.symsInRange, List.all_eq_true, Bool.and_eq_true, decide_eq_true_eq] at hr
  have := (hr rl (List.mem_of_getElem? e)).2 (.n B) (List.mem_of_getElem? hi)
  simpa [Sym.inRange] using this

theorem plus_unitStep_range {g : Grammar} (hr : g.symsInRange = true) {A B : Nat}
    (h : Plus (UnitStep g) A B) : B < g.nN := by
  induction h with
  | single h => exact unitStep_range hr h
  | cons _ _ ih => exact ih

/-- the number of nonterminals reachable by one or more unit steps -/
noncomputable def ntRank (g : Grammar) (A : Nat) : Nat :=
  ((List.range g.nN).filter fun B => @decide (Plus (UnitStep g) A B) (Classical.propDecidable _)).length

theorem ntRank_le (g : Grammar) (A : Nat) : ntRank g A ≤ g.nN := by
  unfold ntRank
  have := List.length_filter_le
    (fun B => @decide (Plus (UnitStep g) A B) (Classical.propDecidable _)) (List.range g.nN)
  simpa using this

theorem ntRank_lt {g : Grammar} (hc : ¬ Cyclic g) (hr : g.symsInRange = true) {A B : Nat}
    (h : Plus (UnitStep g) A B) : ntRank g B < ntRank g A := by
  unfold ntRank
  apply filter_length_lt (y := B)
  · intro C _ hC
    simp only [decide_eq_true_eq] at hC ⊢
    exact Plus.trans' h hC
  · exact List.mem_range.mpr (plus_unitStep_range hr h)
  · simpa using h
  · simp only [decide_eq_false_iff_not]
    exact fun hB => hc ⟨B, hB⟩

/-! ## the rank of a rule instance -/

/-- rank of the instance `(A, lo, hi)`: the length of the span, then the rank of the nonterminal -/
noncomputable def rhoI (g : Grammar) (A lo hi : Nat) : Nat := (hi - lo) * (g.nN + 1) + ntRank g A

/-- `(A', lo', hi')` is strictly below `(A, lo, hi)`: a sub-span, and on the same span `A ⇒⁺ A'` by
unit steps -/
def Below (g : Grammar) (A' lo' hi' A lo hi : Nat) : Prop :=
  lo ≤ lo' ∧ lo' ≤ hi' ∧ hi' ≤ hi ∧ (lo' = lo → hi' = hi → Plus (UnitStep g) A A')

theorem Below.rho_lt {g : Grammar} (hc : ¬ Cyclic g) (hr : g.symsInRange = true)
    {A' lo' hi' A lo hi : Nat} (h : Below g A' lo' hi' A lo hi) :
    rhoI g A' lo' hi' < rhoI g A lo hi := by
  obtain ⟨h1, h2, h3, h4⟩ := h
  unfold rhoI
  by_cases he : lo' = lo ∧ hi' = hi
  · obtain ⟨e1, e2⟩ := he
    subst e1; subst e2
    have := ntRank_lt hc hr (h4 rfl rfl)
    omega
  · have hlt : hi' - lo' + 1 ≤ hi - lo := by omega
    have hm := Nat.mul_le_mul_right (g.nN + 1) hlt
    rw [Nat.add_mul] at hm
    have := ntRank_le g A'
    omega

theorem Below.trans {g : Grammar} {A'' lo'' hi'' A' lo' hi' A lo hi : Nat}
    (h1 : Below g A'' lo'' hi'' A' lo' hi') (h2 : Below g A' lo' hi' A lo hi) :
    Below g A'' lo'' hi'' A lo hi := by
  obtain ⟨a1, a2, a3, a4⟩ := h1
  obtain ⟨b1, b2, b3, b4⟩ := h2
  refine ⟨by omega, a2, by omega, ?_⟩
  intro e1 e2
  have e3 : lo' = lo := by omega
  have e4 : hi' = hi := by omega
  exact Plus.trans' (b4 e3 e4) (a4 (by omega) (by omega))

/-- every instance inside `[0, n]` has a rank below `rootRho g n` -/
noncomputable def rootRho (g : Grammar) (n : Nat) : Nat := (n + 1) * (g.nN + 1) + 2

theorem rhoI_lt_root (g : Grammar) {n A lo hi : Nat} (h : hi ≤ n) : rhoI g A lo hi + 1 < rootRho g n := by
  unfold rhoI rootRho
  have h1 : hi - lo ≤ n := by omega
  have hm := Nat.mul_le_mul_right (g.nN + 1) h1
  have := ntRank_le g A
  rw [Nat.add_mul]
  omega

/-! ## ghost data and the well-formedness they witness -/

/-- ghost data: `rho` the rank of a cell that is not an ALT cell, `am` the rank of the abstract
nodes whose slot holds the chain of an ALT cell, `ap` the position of an ALT cell in its chain
(counted from the end), `hd` the head of the chain; `shi` the end of the span of a parse state -/
structure Gh where
  rho : Nat → Nat
  am : Nat → Nat
  ap : Nat → Nat
  hd : Nat → Nat
  shi : Nat → Nat

/-- the condition on one cell: `sz` the size of the heap, `isA` tells the ALT cells -/
def CellOK (sz : Nat) (isA : Nat → Bool) (Γ : Gh) (i : Nat) : MNode → Prop
  | .anode _ _ ks => 0 < Γ.rho i ∧ Γ.hd i = i ∧ ∀ d k, ks.getD d none = some k →
      k < sz ∧ Γ.hd k = k ∧ (isA k = false → Γ.rho k < Γ.rho i) ∧ (isA k = true → Γ.am k = Γ.rho i)
  | .alt nd nx => nd < sz ∧ isA nd = false ∧ Γ.rho nd < Γ.am i ∧
      ∀ j, nx = some j → j < sz ∧ isA j = true ∧ Γ.am j = Γ.am i ∧ Γ.ap j < Γ.ap i ∧ Γ.hd j = Γ.hd i
  | _ => Γ.rho i = 0 ∧ Γ.hd i = i

/-- every cell of the heap is well formed w.r.t. the ghost data -/
def HW (h : Array MNode) (Γ : Gh) : Prop :=
  ∀ i, i < h.size → CellOK h.size (isAlt h) Γ i (h.getD i .nil)

theorem isAlt_of_cell {h : Array MNode} {i : Nat} {nd : Nat} {nx : Option Nat}
    (hc : h.getD i .nil = .alt nd nx) : isAlt h i = true := by
  unfold isAlt; rw [hc]

theorem isAlt_false_of_anode {h : Array MNode} {i : Nat} {nm : String} {c : Nat} {ks : Array (Option Nat)}
    (hc : h.getD i .nil = .anode nm c ks) : isAlt h i = false := by
  unfold isAlt; rw [hc]

theorem getD_lt_of_ne_nil {h : Array MNode} {i : Nat} (hc : h.getD i .nil ≠ .nil) : i < h.size := by
  rcases Nat.lt_or_ge i h.size with h1 | h1
  · exact h1
  · exfalso; apply hc
    simp [Array.getD_eq_getD_getElem?, Array.getElem?_eq_none h1]

theorem isAlt_lt {h : Array MNode} {i : Nat} (hc : isAlt h i = true) : i < h.size := by
  apply getD_lt_of_ne_nil
  intro e
  unfold isAlt at hc
  rw [e] at hc
  cases hc

/-! ## from `HW` to `PC.WfHeap` -/

/-- the rank of a cell as a pair (lexicographic) -/
def Gh.key (Γ : Gh) (h : Array MNode) (i : Nat) : Nat × Nat :=
  if isAlt h i then (2 * Γ.am i - 1, Γ.ap i) else (2 * Γ.rho i, 0)

def keyLt (a b : Nat × Nat) : Bool := decide (a.1 < b.1) || (decide (a.1 = b.1) && decide (a.2 < b.2))

theorem keyLt_irrefl (a : Nat × Nat) : keyLt a a = false := by
  simp [keyLt]

theorem keyLt_trans {a b c : Nat × Nat} (h1 : keyLt a b = true) (h2 : keyLt b c = true) :
    keyLt a c = true := by
  simp only [keyLt, Bool.or_eq_true, Bool.and_eq_true, decide_eq_true_eq] at *
  omega

/-- the compressed rank: the number of cells with a smaller key -/
def Gh.rk (Γ : Gh) (h : Array MNode) (i : Nat) : Nat :=
  ((List.range h.size).filter fun u => keyLt (Γ.key h u) (Γ.key h i)).length

theorem Gh.rk_lt_size (Γ : Gh) (h : Array MNode) {i : Nat} (hi : i < h.size) : Γ.rk h i < h.size := by
  have := filter_length_lt (l := List.range h.size)
    (p := fun u => keyLt (Γ.key h u) (Γ.key h i)) (q := fun _ => true)
    (fun _ _ _ => rfl) (List.mem_range.mpr hi) rfl (keyLt_irrefl _)
  have e : (List.range h.size).filter (fun _ => true) = List.range h.size :=
    List.filter_eq_self.mpr (fun _ _ => rfl)
  rw [e, List.length_range] at this
  exact this

theorem Gh.rk_lt (Γ : Gh) (h : Array MNode) {u v : Nat} (hu : u < h.size)
    (hlt : keyLt (Γ.key h u) (Γ.key h v) = true) : Γ.rk h u < Γ.rk h v := by
  unfold Gh.rk
  apply filter_length_lt (y := u)
  · intro x _ hx
    exact keyLt_trans hx hlt
  · exact List.mem_range.mpr hu
  · exact hlt
  · exact keyLt_irrefl _

theorem cellAt_ofHeap (h : Array MNode) (i : Nat) :
    PC.cellAt (PC.ofHeap h) i = PC.ofMNode (h.getD i .nil) := by
  unfold PC.cellAt PC.ofHeap
  simp only [Array.getD_eq_getD_getElem?, Array.getElem?_map]
  cases h[i]? <;> rfl

theorem isAlt_ofHeap (h : Array MNode) (i : Nat) : PC.isAlt (PC.ofHeap h) i = isAlt h i := by
  unfold PC.isAlt isAlt
  rw [cellAt_ofHeap]
  cases h.getD i .nil <;> rfl

theorem size_ofHeap (h : Array MNode) : (PC.ofHeap h).size = h.size := by
  simp [PC.ofHeap]

theorem mem_kidsOf {ks : Array (Option Nat)} {k : Nat} (hk : k ∈ PC.kidsOf ks) :
    ∃ d, ks.getD d none = some k := by
  unfold PC.kidsOf at hk
  rw [List.mem_filterMap] at hk
  obtain ⟨x, hx, hxk⟩ := hk
  have hx' : x ∈ ks.toList := (List.takeWhile_sublist _).subset hx
  obtain ⟨d, hd, hget⟩ := List.getElem_of_mem hx'
  refine ⟨d, ?_⟩
  have hd' : d < ks.size := by simpa using hd
  rw [Array.getD_eq_getD_getElem?, Array.getElem?_eq_getElem hd']
  simp only [Option.getD_some]
  have : ks[d] = x := by simpa using hget
  rw [this]
  exact hxk

/-- **`HW` gives `WfHeap`** for the converted heap, with the compressed rank and the ghost heads -/
theorem HW.wfHeap {h : Array MNode} {Γ : Gh} (hw : HW h Γ) :
    PC.WfHeap (PC.ofHeap h) (Γ.rk h) Γ.hd := by
  constructor
  · intro i hi
    rw [size_ofHeap] at hi ⊢
    exact Γ.rk_lt_size h hi
  · intro i hi ha
    rw [size_ofHeap] at hi
    rw [isAlt_ofHeap] at ha
    have := hw i hi
    unfold isAlt at ha
    cases hc : h.getD i .nil with
    | nil => rw [hc] at this; exact this.2
    | err => rw [hc] at this; exact this.2
    | term _ _ => rw [hc] at this; exact this.2
    | anode _ _ _ => rw [hc] at this; exact this.2.1
    | alt _ _ => rw [hc] at ha; cases ha
  · intro i nm c ks hi hc
    rw [size_ofHeap] at hi
    rw [cellAt_ofHeap] at hc
    have hcell := hw i hi
    cases hm : h.getD i .nil with
    | anode nm' c' ks' =>
      rw [hm] at hc hcell
      simp only [PC.ofMNode] at hc
      injection hc with e1 e2 e3
      subst e3
      obtain ⟨c1, c2, c3⟩ := hcell
      refine ⟨by rw [← e2]; exact Int.natCast_nonneg _, ?_⟩
      intro k hk
      obtain ⟨d, hd⟩ := mem_kidsOf hk
      obtain ⟨k1, k2, k3, k4⟩ := c3 d k hd
      rw [size_ofHeap]
      refine ⟨k1, ?_, k2⟩
      apply Γ.rk_lt h k1
      have hia : isAlt h i = false := isAlt_false_of_anode hm
      unfold Gh.key
      rw [hia]
      cases hka : isAlt h k with
      | false =>
        have := k3 hka
        simp [keyLt]; omega
      | true =>
        have := k4 hka
        simp [keyLt]; omega
    | nil => rw [hm] at hc; cases hc
    | err => rw [hm] at hc; cases hc
    | term _ _ => rw [hm] at hc; cases hc
    | alt _ _ => rw [hm] at hc; cases hc
  · intro i nd nx hi hc
    rw [size_ofHeap] at hi
    rw [cellAt_ofHeap] at hc
    have hcell := hw i hi
    cases hm : h.getD i .nil with
    | alt nd' nx' =>
      rw [hm] at hc hcell
      simp only [PC.ofMNode] at hc
      injection hc with e1 e2
      subst e1; subst e2
      obtain ⟨c1, c2, c3, c4⟩ := hcell
      have hia : isAlt h i = true := isAlt_of_cell hm
      rw [size_ofHeap, isAlt_ofHeap]
      refine ⟨c1, c2, ?_, ?_⟩
      · apply Γ.rk_lt h c1
        unfold Gh.key
        rw [hia, c2]
        simp [keyLt]; omega
      · intro j hj
        obtain ⟨j1, j2, j3, j4, j5⟩ := c4 j hj
        rw [isAlt_ofHeap]
        refine ⟨j1, j2, ?_, j5⟩
        apply Γ.rk_lt h j1
        unfold Gh.key
        rw [hia, j2]
        simp [keyLt]; omega
    | nil => rw [hm] at hc; cases hc
    | err => rw [hm] at hc; cases hc
    | term _ _ => rw [hm] at hc; cases hc
    | anode _ _ _ => rw [hm] at hc; cases hc

end Yaep.MP
