import Yaep.Lemmas.MakeParseAmb
/-!
# The ambiguity flag of `make_parse`, part 2: where the flag is *not* set (one parse)

The converse of `step_amb`: the flag is never reset, and when two different entries of a reduce
vector pass the check loop the flag is set.  So a run that ends with the flag off has seen exactly
one candidate at every nonterminal it looked at.
-/
namespace Yaep.MP
open Yaep

theorem candLoop_after_mono {c : Ctx} {L : Loc} {set : Array Item} (hone : c.oneParse = true) :
    ∀ (l : List Nat) (os : List Nat) (s : St), s.amb = true →
      (candLoop c L set l 1 os s).1.amb = true
  | [], os, s, h => h
  | i :: l, os, s, h => by
    unfold candLoop
    by_cases hf : checkFound c L (set.getD i default).origin = true
    · simp only [hf, hone]
      simp
    · simp only [hf]
      simpa using candLoop_after_mono hone l os s h

theorem candLoop_after_true {c : Ctx} {L : Loc} {set : Array Item} (hone : c.oneParse = true) :
    ∀ (l : List Nat) (os : List Nat) (s : St),
      (∃ i ∈ l, checkFound c L (set.getD i default).origin = true) →
      (candLoop c L set l 1 os s).1.amb = true
  | [], os, s, h => by obtain ⟨i, hi, _⟩ := h; cases hi
  | i :: l, os, s, h => by
    unfold candLoop
    by_cases hf : checkFound c L (set.getD i default).origin = true
    · simp only [hf, hone]
      simp
    · simp only [hf]
      obtain ⟨j, hj, hjf⟩ := h
      rcases List.mem_cons.mp hj with rfl | hj
      · exact absurd hjf hf
      · simpa using candLoop_after_true hone l os s ⟨j, hj, hjf⟩

theorem candLoop_zero_mono {c : Ctx} {L : Loc} {set : Array Item} (hone : c.oneParse = true) :
    ∀ (l : List Nat) (s : St), s.amb = true → (candLoop c L set l 0 [] s).1.amb = true
  | [], s, h => h
  | i :: l, s, h => by
    unfold candLoop
    by_cases hf : checkFound c L (set.getD i default).origin = true
    · simp only [hf]
      have h' : (candidate c L (set.getD i default) 0 [] s).1.amb = true := by
        rw [candidate_amb hone]; exact h
      simpa using candLoop_after_mono hone l (candidate c L (set.getD i default) 0 [] s).2 _ h'
    · simp only [hf]
      simpa using candLoop_zero_mono hone l s h

/-- two different entries pass the check loop: the flag is set -/
theorem candLoop_zero_two {c : Ctx} {L : Loc} {set : Array Item} (hone : c.oneParse = true) :
    ∀ (l : List Nat) (s : St) (i1 i2 : Nat), i1 ∈ l → i2 ∈ l → i1 ≠ i2 →
      checkFound c L (set.getD i1 default).origin = true →
      checkFound c L (set.getD i2 default).origin = true →
      (candLoop c L set l 0 [] s).1.amb = true
  | [], s, i1, i2, h1, _, _, _, _ => by cases h1
  | i :: l, s, i1, i2, h1, h2, hne, f1, f2 => by
    unfold candLoop
    by_cases hf : checkFound c L (set.getD i default).origin = true
    · simp only [hf]
      have hex : ∃ j ∈ l, checkFound c L (set.getD j default).origin = true := by
        rcases List.mem_cons.mp h1 with e1 | m1
        · rcases List.mem_cons.mp h2 with e2 | m2
          · exact absurd (e1.trans e2.symm) hne
          · exact ⟨i2, m2, f2⟩
        · exact ⟨i1, m1, f1⟩
      simpa using candLoop_after_true hone l (candidate c L (set.getD i default) 0 [] s).2
        (candidate c L (set.getD i default) 0 [] s).1 hex
    · simp only [hf]
      have m1 : i1 ∈ l := by
        rcases List.mem_cons.mp h1 with e | m
        · rw [e] at f1; exact absurd f1 hf
        · exact m
      have m2 : i2 ∈ l := by
        rcases List.mem_cons.mp h2 with e | m
        · rw [e] at f2; exact absurd f2 hf
        · exact m
      simpa using candLoop_zero_two hone l s i1 i2 m1 m2 hne f1 f2

/-- the flag is never reset -/
theorem step_amb_mono {c : Ctx} {s : St} (hone : c.oneParse = true) (h : s.amb = true) :
    (step c s).amb = true := by
  cases hst : s.stack with
  | nil =>
    have : step c s = s := by unfold step; rw [hst]
    rw [this]; exact h
  | cons sid rest =>
    by_cases hpos : (s.state sid).pos = 0
    · cases han : (s.state sid).anode with
      | none =>
        unfold step
        simp only [hst, hpos, han]
        simp only [beq_self_eq_true, if_true]
        split
        · split <;> exact h
        · exact h
      | some an =>
        rw [step_pop_some hst hpos han, popFold_amb]
        exact h
    · cases hsym : (c.rule (s.state sid).rule).rhs.getD ((s.state sid).pos - 1) (.t 0) with
      | t a =>
        rw [step_term hst hpos hsym, stepTerm_amb hone]
        exact h
      | n A =>
        rw [step_nt' hst hpos hsym]
        have h' := candLoop_zero_mono (L := ntLoc c s sid A)
          (set := c.sets.getD (s.state sid).plInd #[]) hone
          (reduces c (c.sets.getD (s.state sid).plInd #[]) A) (ntS0 s sid) h
        split <;> exact h'

/-- a step over a nonterminal that leaves the flag off has seen at most one candidate -/
theorem step_nt_unique {c : Ctx} {s : St} (hone : c.oneParse = true) {sid : Nat} {rest : List Nat}
    {A : Nat} (hst : s.stack = sid :: rest) (hpos : (s.state sid).pos ≠ 0)
    (hsym : (c.rule (s.state sid).rule).rhs.getD ((s.state sid).pos - 1) (.t 0) = .n A)
    (hamb : (step c s).amb = false) {i1 i2 : Nat}
    (m1 : i1 ∈ reduces c (c.sets.getD (s.state sid).plInd #[]) A)
    (m2 : i2 ∈ reduces c (c.sets.getD (s.state sid).plInd #[]) A)
    (f1 : checkFound c (ntLoc c s sid A)
      ((c.sets.getD (s.state sid).plInd #[]).getD i1 default).origin = true)
    (f2 : checkFound c (ntLoc c s sid A)
      ((c.sets.getD (s.state sid).plInd #[]).getD i2 default).origin = true) : i1 = i2 := by
  apply Classical.byContradiction
  intro hne
  have h' := candLoop_zero_two (L := ntLoc c s sid A)
    (set := c.sets.getD (s.state sid).plInd #[]) hone
    (reduces c (c.sets.getD (s.state sid).plInd #[]) A) (ntS0 s sid) i1 i2 m1 m2 hne f1 f2
  rw [step_nt' hst hpos hsym] at hamb
  have : (step c s).amb = true → False := by
    intro ht; rw [step_nt' hst hpos hsym] at ht; rw [hamb] at ht; cases ht
  apply this
  rw [step_nt' hst hpos hsym]
  split <;> exact h'

end Yaep.MP
