import Yaep.Lemmas.BuildSet2Inv
/-!
# Helper lemmas for `Yaep/Model/BuildSet2.lean`, part 8: proofs of three statements of
`Yaep/Props/BuildSet2.lean` (the entry state of the context loop, the contexts against `ctxFix`,
the items of an expanded set)
-/
namespace Yaep.BS2
open Yaep

theorem ctxLoop_entry_state_aux (g : Grammar) (num : Nat) (ss : List Sit2)
    (hb : ∀ s ∈ ss, ∀ a ∈ s.ctx, a < g.nT) :
    TransExact g (expand3 g g.analysis (Core2.fresh num ss)) ∧
    InitNil (expand3 g g.analysis (Core2.fresh num ss)) ∧
    ∀ k, k < (expand3 g g.analysis (Core2.fresh num ss)).nAllDists →
      ∀ a ∈ (expand3 g g.analysis (Core2.fresh num ss)).ctxAt k, a < g.nT := by
  obtain ⟨hp, _, _, hnil⟩ := expand3_sim g g.analysis num ss
  obtain ⟨hstart, hdctx⟩ := expand3_index g g.analysis num ss
  have hsp : BS.ExpandSpec g g.analysis num (ss.map Sit2.proj)
      (expand3 g g.analysis (Core2.fresh num ss)).proj := by
    rw [hp]; exact BS.expandNewStartSet_spec g g.analysis num _
  refine ⟨transExact_of_proj hsp, hnil, ?_⟩
  generalize expand3 g g.analysis (Core2.fresh num ss) = c0 at hstart hdctx hsp
  have hns : c0.nStart = ss.length := by
    have := hsp.nStart
    simpa [Core2.proj] using this
  have hplen : c0.parents.length = c0.nAllDists - c0.nStart := hsp.shape.plen
  have hbss : ∀ p, ∀ a ∈ (ss.getD p default).ctx, a < g.nT := by
    intro p a ha
    rw [List.getD_eq_getElem?_getD] at ha
    cases hg : ss[p]? with
    | none => rw [hg] at ha; cases ha
    | some s => rw [hg] at ha; exact hb s (List.mem_of_getElem? hg) a ha
  intro k hk a ha
  rcases Nat.lt_or_ge k c0.nStart with hs | hs
  · have := hstart k (by omega)
    unfold Core2.ctxAt at ha
    unfold Core2.sitAt at this
    rw [this] at ha
    exact hbss k a ha
  · have hpl : k - c0.nStart < c0.parents.length := by omega
    rw [hdctx k _ hs hk (List.getElem?_eq_getElem hpl)] at ha
    exact hbss _ a ha

theorem ctxLoop_eq_ctxFix_aux {g : Grammar} (hsr : g.symsInRange = true) (num : Nat) (ns : NewStart2)
    (j : Nat) (hb : ∀ p ∈ ns, ∀ a ∈ p.1.ctx, a < g.nT) :
    ∀ i, (expandNewStartSet g g.analysis (Core2.fresh num (ns.map (·.1)))).nAllDists ≤ i →
      i < (expandNewStartSet g g.analysis (Core2.fresh num (ns.map (·.1)))).sits.length →
      (((expandNewStartSet g g.analysis (Core2.fresh num (ns.map (·.1)))).sitAt i).proj,
        (expandNewStartSet g g.analysis (Core2.fresh num (ns.map (·.1)))).ctxAt i) ∈
      ctxFix g g.analysis (items2 g (ns.map (itemOf j)))
        ((pairs2 g (ns.map (itemOf j))).length * (g.nT + 1) + 2)
        ((pairs2 g (ns.map (itemOf j))).map fun p => (p, [])) := by
  have hb' : ∀ s ∈ ns.map (·.1), ∀ a ∈ s.ctx, a < g.nT := by
    intro s hs a ha
    obtain ⟨p, hp, rfl⟩ := List.mem_map.mp hs
    exact hb p hp a ha
  have hcore := (expandNewStartSet_spec2 hsr num (ns.map (·.1)) hb').1
  generalize expandNewStartSet g g.analysis (Core2.fresh num (ns.map (·.1))) = c at hcore
  have hstart : ∀ x, x ∈ ns.map (itemOf j) ↔ ∃ p ∈ ns, x = itemOf j p := by
    intro x
    rw [List.mem_map]
    constructor
    · rintro ⟨p, hp, rfl⟩; exact ⟨p, hp, rfl⟩
    · rintro ⟨p, hp, rfl⟩; exact ⟨p, hp, rfl⟩
  have hbnd : ∀ s ∈ ns.map (itemOf j), ∀ a ∈ s.ctx, a < g.nT := by
    intro s hs a ha
    obtain ⟨p, hp, rfl⟩ := List.mem_map.mp hs
    exact hb p hp a ha
  intro i hi1 hi2
  have hcs : ExpandSpec2 g num (ns.map (·.1)) (⟨c, ns.map (·.2)⟩ : CSet2).core := hcore
  have hk : (c.sitAt i).proj ∈ pairs2 g (ns.map (itemOf j)) :=
    (initPart_iff_pairs2 hcs rfl hstart _).mp (initPart_iff_index.mpr ⟨i, hi1, hi2, rfl⟩)
  rw [← (inits2_spec hsr hbnd).2.1] at hk
  obtain ⟨e, he, hke⟩ := List.mem_map.mp hk
  have hctx := init_ctx_eq hsr hcs rfl hstart hbnd hi1 hi2 he hke
  have : ((c.sitAt i).proj, c.ctxAt i) = e := by
    have h2 : c.ctxAt i = e.2 := hctx
    rw [← hke, h2]
  rw [this]
  exact he

theorem expandedSet_items_aux {g : Grammar} (hsr : g.symsInRange = true) (num : Nat) (ns : NewStart2)
    (j : Nat) (hb : ∀ p ∈ ns, ∀ a ∈ p.1.ctx, a < g.nT) :
    ∀ it, it ∈ (⟨expandNewStartSet g g.analysis (Core2.fresh num (ns.map (·.1))),
        ns.map (·.2)⟩ : CSet2).items j ↔
      it ∈ expand2 g g.analysis (ns.map (itemOf j)) j := by
  have hb' : ∀ s ∈ ns.map (·.1), ∀ a ∈ s.ctx, a < g.nT := by
    intro s hs a ha
    obtain ⟨p, hp, rfl⟩ := List.mem_map.mp hs
    exact hb p hp a ha
  have hcore := (expandNewStartSet_spec2 hsr num (ns.map (·.1)) hb').1
  apply items_iff_expand2 hsr (cs := ⟨_, ns.map (·.2)⟩) hcore rfl
  · intro x
    rw [List.mem_map]
    constructor
    · rintro ⟨p, hp, rfl⟩; exact ⟨p, hp, rfl⟩
    · rintro ⟨p, hp, rfl⟩; exact ⟨p, hp, rfl⟩
  · intro s hs a ha
    obtain ⟨p, hp, rfl⟩ := List.mem_map.mp hs
    exact hb p hp a ha

end Yaep.BS2
