import Yaep.Lemmas.PruneCPass1d
/-!
# The pruned heap denotes what `prune` says
-/
namespace Yaep.PC
open Yaep

/-! ## the kept cells of a chain, declaratively -/

theorem keepFold_all (cost : Nat → Nat) : ∀ (l : List Nat) (m0 : Nat) (K0 : List Nat), K0 ≠ [] →
    (keepFold false cost l (m0, K0)).2 =
      (l.filter fun j => cost j == (l.map cost).foldl min m0).reverse ++
        (if (l.map cost).foldl min m0 = m0 then K0 else [])
  | [], m0, K0, _ => by simp [keepFold]
  | j :: t, m0, K0, hK => by
    have hle : ∀ x : Nat, (t.map cost).foldl min x ≤ x := fun x => foldl_min_le_init _ _
    show (keepFold false cost t (keepStep false (m0, K0) j (cost j))).2 = _
    simp only [List.map_cons, List.foldl_cons]
    unfold keepStep
    by_cases h1 : cost j < m0
    · have hm : min m0 (cost j) = cost j := by omega
      rw [if_pos (Or.inr h1), keepFold_all cost t _ _ (by simp), hm]
      have := hle (cost j)
      have hne : ¬ (t.map cost).foldl min (cost j) = m0 := by omega
      rw [if_neg hne]
      by_cases h2 : (t.map cost).foldl min (cost j) = cost j
      · simp [List.filter_cons, h2]
      · have : ¬ (cost j = (t.map cost).foldl min (cost j)) := fun e => h2 e.symm
        simp [List.filter_cons, h2, this]
    · have hm : min m0 (cost j) = m0 := by omega
      rw [if_neg (by simp only [not_or]; exact ⟨hK, h1⟩)]
      by_cases h2 : m0 = cost j
      · simp only [h2, and_self, if_true]
        rw [keepFold_all cost t _ _ (by simp)]
        simp only [Nat.min_self]
        by_cases h3 : (t.map cost).foldl min (cost j) = cost j
        · simp [List.filter_cons, h3]
        · have : ¬ (cost j = (t.map cost).foldl min (cost j)) := fun e => h3 e.symm
          simp [List.filter_cons, h3, this]
      · rw [if_neg (by simp [h2]), keepFold_all cost t _ _ hK, hm]
        have := hle m0
        have : ¬ (cost j = (t.map cost).foldl min m0) := by omega
        simp [List.filter_cons, this]

theorem keepFold_one (cost : Nat → Nat) : ∀ (l : List Nat) (m0 : Nat) (K0 : List Nat), K0 ≠ [] →
    (keepFold true cost l (m0, K0)).2 =
      if (l.map cost).foldl min m0 = m0 then K0
      else (l.filter fun j => cost j == (l.map cost).foldl min m0).take 1
  | [], m0, K0, _ => by simp [keepFold]
  | j :: t, m0, K0, hK => by
    have hle : ∀ x : Nat, (t.map cost).foldl min x ≤ x := fun x => foldl_min_le_init _ _
    show (keepFold true cost t (keepStep true (m0, K0) j (cost j))).2 = _
    simp only [List.map_cons, List.foldl_cons]
    unfold keepStep
    by_cases h1 : cost j < m0
    · have hm : min m0 (cost j) = cost j := by omega
      rw [if_pos (Or.inr h1), keepFold_one cost t _ _ (by simp), hm]
      have := hle (cost j)
      have hne : ¬ (t.map cost).foldl min (cost j) = m0 := by omega
      rw [if_neg hne]
      by_cases h2 : (t.map cost).foldl min (cost j) = cost j
      · simp [List.filter_cons, h2]
      · have : ¬ (cost j = (t.map cost).foldl min (cost j)) := fun e => h2 e.symm
        simp [List.filter_cons, h2, this]
    · have hm : min m0 (cost j) = m0 := by omega
      rw [if_neg (by simp only [not_or]; exact ⟨hK, h1⟩), if_neg (by simp),
        keepFold_one cost t _ _ hK, hm]
      by_cases h3 : (t.map cost).foldl min m0 = m0
      · simp [h3]
      · have := hle m0
        have : ¬ (cost j = (t.map cost).foldl min m0) := by omega
        simp [h3, List.filter_cons, this]

/-- the cells of minimal cost of a chain -/
def minCells (cost : Nat → Nat) (l : List Nat) : List Nat :=
  l.filter fun j => cost j == minNat (l.map cost)

theorem keepFold_start_all (cost : Nat → Nat) (j : Nat) (t : List Nat) (x : Nat) :
    (keepFold false cost (j :: t) (x, [])).2 = (minCells cost (j :: t)).reverse := by
  show (keepFold false cost t (keepStep false (x, []) j (cost j))).2 = _
  have : keepStep false (x, []) j (cost j) = (cost j, [j]) := by simp [keepStep]
  rw [this, keepFold_all cost t _ _ (by simp)]
  unfold minCells
  simp only [minNat, List.map_cons]
  by_cases h : (t.map cost).foldl min (cost j) = cost j
  · simp [List.filter_cons, h]
  · have : ¬ (cost j = (t.map cost).foldl min (cost j)) := fun e => h e.symm
    simp [List.filter_cons, h, this]

theorem keepFold_start_one (cost : Nat → Nat) (j : Nat) (t : List Nat) (x : Nat) :
    (keepFold true cost (j :: t) (x, [])).2 = (minCells cost (j :: t)).take 1 := by
  show (keepFold true cost t (keepStep true (x, []) j (cost j))).2 = _
  have : keepStep true (x, []) j (cost j) = (cost j, [j]) := by simp [keepStep]
  rw [this, keepFold_one cost t _ _ (by simp)]
  unfold minCells
  simp only [minNat, List.map_cons]
  by_cases h : (t.map cost).foldl min (cost j) = cost j
  · simp [List.filter_cons, h]
  · have : ¬ (cost j = (t.map cost).foldl min (cost j)) := fun e => h e.symm
    simp [List.filter_cons, h, this]

/-! ## equality of denotations -/

/-- `A` and `B` denote the same set of trees; the same list when only one parse is kept -/
def DenRel (all : Bool) (A B : Node) : Prop :=
  (∀ t, t ∈ denote A ↔ t ∈ denote B) ∧ (all = false → denote A = denote B)

theorem DenRel.refl (all : Bool) (A : Node) : DenRel all A A := ⟨fun _ => Iff.rfl, fun _ => rfl⟩

theorem Pointwise.imp_right {α β : Type} {R R' : α → β → Prop} : ∀ {l : List α} {m : List β},
    (∀ b ∈ m, ∀ a, R a b → R' a b) → Pointwise R l m → Pointwise R' l m
  | _, _, _, .nil => .nil
  | _ :: _, b :: m, h, .cons h1 h2 =>
    .cons (h b (by simp) _ h1) (Pointwise.imp_right (fun b' hb' => h b' (by simp [hb'])) h2)

theorem DenRel.anode {all : Bool} {γ : Type} (nm : String) (c : Nat) {L : List γ} (fA fB : γ → Node)
    (h : ∀ x ∈ L, DenRel all (fA x) (fB x)) :
    DenRel all (.anode nm c (L.map fA)) (.anode nm c (L.map fB)) := by
  constructor
  · intro t
    rw [mem_denote_anode_iff, mem_denote_anode_iff]
    constructor
    · rintro ⟨l, rfl, hl⟩
      refine ⟨l, rfl, pointwise_map_right.2 (Pointwise.imp_right ?_ (pointwise_map_right.1 hl))⟩
      intro b hb a ha; exact ((h b hb).1 a).1 ha
    · rintro ⟨l, rfl, hl⟩
      refine ⟨l, rfl, pointwise_map_right.2 (Pointwise.imp_right ?_ (pointwise_map_right.1 hl))⟩
      intro b hb a ha; exact ((h b hb).1 a).2 ha
  · intro ha
    simp only [denote, denoteList_map]
    congr 2
    exact List.map_congr_left fun x hx => (h x hx).2 ha

theorem DenRel.alt {all : Bool} {γ : Type} {L1 L2 : List γ} (fA fB : γ → Node)
    (hmem : ∀ x, x ∈ L1 ↔ x ∈ L2) (h : ∀ x ∈ L1, DenRel all (fA x) (fB x))
    (heq : all = false → L1 = L2) : DenRel all (.alt (L1.map fA)) (.alt (L2.map fB)) := by
  constructor
  · intro t
    rw [mem_denote_alt_iff, mem_denote_alt_iff]
    constructor
    · rintro ⟨a, ha, ht⟩
      obtain ⟨x, hx, rfl⟩ := List.mem_map.1 ha
      exact ⟨fB x, List.mem_map.2 ⟨x, (hmem x).1 hx, rfl⟩, ((h x hx).1 t).1 ht⟩
    · rintro ⟨a, ha, ht⟩
      obtain ⟨x, hx, rfl⟩ := List.mem_map.1 ha
      have hx1 := (hmem x).2 hx
      exact ⟨fA x, List.mem_map.2 ⟨x, hx1, rfl⟩, ((h x hx1).1 t).2 ht⟩
  · intro ha
    have e := heq ha
    subst e
    simp only [denote, denoteList_map]
    congr 1
    exact List.map_congr_left fun x hx => (h x hx).2 ha

theorem DenRel.alt_single {all : Bool} {A B : Node} (h : DenRel all A B) : DenRel all A (.alt [B]) := by
  have e : denote (.alt [B]) = denote B := by simp [denote, denoteList]
  exact ⟨fun t => by rw [e]; exact h.1 t, fun ha => by rw [e]; exact h.2 ha⟩

/-! ## the chain of a relinked list -/

theorem chainCells_linked {h : Array Cell} : ∀ (t : List Nat) (j m : Nat), Linked h (j :: t) →
    (j :: t).length ≤ m → chainCells h m j = j :: t
  | [], j, m, hl, hm => by
    obtain ⟨m, rfl⟩ : ∃ m', m = m' + 1 := ⟨m - 1, by simp at hm; omega⟩
    obtain ⟨nd, e⟩ := hl
    simp [chainCells, e]
  | j' :: t, j, m, hl, hm => by
    obtain ⟨m, rfl⟩ : ∃ m', m = m' + 1 := ⟨m - 1, by simp at hm; omega⟩
    obtain ⟨⟨nd, e⟩, hl'⟩ := hl
    simp only [chainCells, e]
    rw [chainCells_linked t j' m hl' (by simp at hm ⊢; omega)]

theorem decode_flag (n : Nat) : decode (-(n : Int) - 1) = n := by
  unfold decode
  have : -(n : Int) - 1 < 0 := by omega
  rw [if_pos this]
  omega

theorem keepMin_map {γ : Type} (all : Bool) (L : List γ) (g : γ → Node × Nat) :
    keepMin all (L.map g) =
      ((if all then L.filter fun j => (g j).2 == minNat (L.map fun j => (g j).2)
        else (L.filter fun j => (g j).2 == minNat (L.map fun j => (g j).2)).take 1).map
          fun j => (g j).1) := by
  unfold keepMin
  simp only [List.map_map, Function.comp_def, List.filter_map]
  cases all
  · simp [List.map_take, Function.comp_def]
  · simp [Function.comp_def]

theorem prune_fst_anode (all : Bool) (nm : String) (c : Nat) (ks : List Node) :
    (prune all (.anode nm c ks)).1 =
      .anode nm (prune all (.anode nm c ks)).2 (ks.map fun k => (prune all k).1) := by
  rw [prune_anode]; rfl

section
variable {h0 : Array Cell} {rk hd : Nat → Nat} {one free : Bool}

theorem kept_eq (wf : WfHeap h0 rk hd) {k : Nat} (hk : k < h0.size) (hal : isAlt h0 k = true) :
    kept h0 rk one k =
      if one then (minCells (altCost h0 rk one) (chain0 h0 k)).take 1
      else (minCells (altCost h0 rk one) (chain0 h0 k)).reverse := by
  obtain ⟨tl, htl⟩ := (chain0_isChain wf hk hal).head_eq
  unfold kept
  rw [htl]
  cases one
  · simp [keepFold_start_all]
  · simp [keepFold_start_one]

theorem kept_ne_nil (wf : WfHeap h0 rk hd) {k : Nat} (hk : k < h0.size) (hal : isAlt h0 k = true) :
    kept h0 rk one k ≠ [] := by
  obtain ⟨tl, htl⟩ := (chain0_isChain wf hk hal).head_eq
  unfold kept
  rw [htl]
  show (keepFold one _ tl (keepStep one (0, []) k _)).2 ≠ []
  apply keepFold_ne_nil
  simp [keepStep]

/-- the forest of the pruned heap at the cell returned for `k` denotes what `prune` says -/
theorem pruned_denote (wf : WfHeap h0 rk hd) {s : PSt}
    (hinv : Inv h0 rk hd one free (fun _ => False) s) :
    ∀ (b k : Nat), rk k ≤ b → k < h0.size → hd k = k → Visited h0 free s k →
      ∀ f, rk k < f →
        DenRel (!one) (unfoldD s.heap f (res0 h0 rk one k)) (prune (!one) (U h0 rk k)).1 := by
  intro b
  induction b using Nat.strongRecOn with
  | _ b ih =>
    intro k hb hk hdk hvis f hf
    obtain ⟨f, rfl⟩ : ∃ f', f = f' + 1 := ⟨f - 1, by omega⟩
    cases hcell : cellAt h0 k with
    | anode nm c ks =>
      obtain ⟨hc0, hkids⟩ := wf.anode k nm c ks hk hcell
      have hnalt : isAlt h0 k = false := by simp [isAlt, hcell]
      have hnode := hinv.node k hk (fun h => h)
      unfold NodeOK at hnode
      unfold Visited at hvis
      rw [hcell] at hnode hvis
      simp only at hnode hvis
      rcases hnode with e | ⟨ks', e1, e2, e3, e4⟩
      · simp only [costAt, e] at hvis; omega
      · rw [res0_nonalt hnalt]
        have hkids' : kidsOf ks' = (kidsOf ks).map (res0 h0 rk one) := by
          rw [kidsOf_somePrefix, e2, somePrefix_mapPre, ← kidsOf_somePrefix]
        have hA : unfoldD s.heap (f + 1) k =
            .anode nm (cost0 h0 rk one k)
              ((kidsOf ks).map fun x => unfoldD s.heap f (res0 h0 rk one x)) := by
          unfold unfoldD
          conv => lhs; unfold unfoldWith
          simp only [e1, hkids', decode_flag, List.map_map, Function.comp_def]
        have hB : (prune (!one) (U h0 rk k)).1 =
            .anode nm (cost0 h0 rk one k) ((kidsOf ks).map fun x => (prune (!one) (U h0 rk x)).1) := by
          unfold cost0
          rw [U_anode wf hk hcell, prune_fst_anode]
          simp only [List.map_map, Function.comp_def]
        rw [hA, hB]
        apply DenRel.anode
        intro x hx
        obtain ⟨p1, p2, p3⟩ := hkids x hx
        exact ih (rk x) (by omega) x (Nat.le_refl _) p1 p3 (e3 x hx) f (by omega)
    | alt nd0 nx0 =>
      have hal : isAlt h0 k = true := by simp [isAlt, hcell]
      have hchain := chain0_isChain wf hk hal
      have hprops := hchain.props wf hk
      have hch := hinv.chain k hk hal hdk (fun h => h)
      unfold ChainOK at hch
      unfold Visited at hvis
      rw [hcell] at hvis
      simp only at hvis
      rw [if_pos hvis.1] at hch
      obtain ⟨hcells, hlinked⟩ := hch
      -- the declarative side
      have hB : (prune (!one) (U h0 rk k)).1 =
          .alt ((if one then (minCells (altCost h0 rk one) (chain0 h0 k)).take 1
                 else minCells (altCost h0 rk one) (chain0 h0 k)).map
            fun j => (prune (!one) (U h0 rk (altNode h0 j))).1) := by
        rw [U_alt wf hk hal, prune_alt, List.map_map, keepMin_map]
        cases one <;> rfl
      have hkept := kept_eq (one := one) wf hk hal
      have hkne := kept_ne_nil (one := one) wf hk hal
      -- facts about a kept cell
      have hcellfacts : ∀ x ∈ kept h0 rk one k, altNode h0 x < h0.size ∧
          hd (altNode h0 x) = altNode h0 x ∧ Visited h0 free s (altNode h0 x) ∧
          rk (altNode h0 x) < rk k ∧ isAlt h0 (altNode h0 x) = false := by
        intro x hx
        have hxc := kept_subset k x hx
        obtain ⟨q1, q2, q3, q4⟩ := hprops x hxc
        obtain ⟨r1, r2, r3⟩ := altNode_props wf q1 q2
        exact ⟨r1, wf.hd_self _ r1 r2, (hcells x hxc).2.1, by omega, r2⟩
      rw [hB]
      cases hk' : kept h0 rk one k with
      | nil => exact absurd hk' hkne
      | cons j r =>
        cases r with
        | nil =>
          -- a single alternative remains: the chain is replaced by it
          have hres : res0 h0 rk one k = altNode h0 j := by
            unfold res0; rw [hcell, hk']
          have hL2 : (if one then (minCells (altCost h0 rk one) (chain0 h0 k)).take 1
                 else minCells (altCost h0 rk one) (chain0 h0 k)) = [j] := by
            rw [hk'] at hkept
            cases one
            · simp only [Bool.false_eq_true, if_false] at hkept ⊢
              have := congrArg List.reverse hkept
              simpa using this.symm
            · simp only [if_true] at hkept ⊢
              exact hkept.symm
          rw [hres, hL2]
          simp only [List.map_cons, List.map_nil]
          apply DenRel.alt_single
          obtain ⟨c1, c2, c3, c4, c5⟩ := hcellfacts j (by rw [hk']; simp)
          have := ih (rk (altNode h0 j)) (by omega) _ (Nat.le_refl _) c1 c2 c3 (f + 1) (by omega)
          rwa [res0_nonalt c5] at this
        | cons j' r' =>
          have hres : res0 h0 rk one k = j := by
            unfold res0; rw [hcell, hk']
          rw [hres]
          have hjc : j ∈ chain0 h0 k := kept_subset k j (by rw [hk']; simp)
          obtain ⟨⟨nx, ej⟩, -, -⟩ := hcells j hjc
          rw [hk'] at hlinked
          have hlen : (j :: j' :: r').length ≤ s.heap.size := by
            have h1 : (kept h0 rk one k).length ≤ (chain0 h0 k).length := by
              rw [hkept]
              unfold minCells
              cases one
              · simp only [Bool.false_eq_true, if_false, List.length_reverse]
                exact List.length_filter_le _ _
              · simp only [if_true]
                exact Nat.le_trans (List.length_take_le' _ _) (List.length_filter_le _ _)
            have h2 := hchain.length_le wf hk
            have h3 := wf.rk_lt k hk
            rw [hk'] at h1
            rw [hinv.size]; omega
          have hcc := chainCells_linked _ j s.heap.size hlinked hlen
          have hA : unfoldD s.heap (f + 1) j =
              .alt ((kept h0 rk one k).map fun x => unfoldD s.heap f (altNode h0 x)) := by
            unfold unfoldD
            conv => lhs; unfold unfoldWith
            simp only [ej, hcc, List.map_map]
            rw [hk']
            congr 1
            apply List.map_congr_left
            intro x hx
            have hxc := kept_subset k x (by rw [hk']; exact hx)
            obtain ⟨⟨nx', ex⟩, -, -⟩ := hcells x hxc
            simp [altNode, ex]
          rw [hA]
          apply DenRel.alt
          · intro x
            rw [hkept]
            cases one
            · simp
            · simp
          · intro x hx
            obtain ⟨c1, c2, c3, c4, c5⟩ := hcellfacts x hx
            have := ih (rk (altNode h0 x)) (by omega) _ (Nat.le_refl _) c1 c2 c3 f (by omega)
            rwa [res0_nonalt c5] at this
          · intro ha
            have : one = true := by simpa using ha
            subst this
            simpa using hkept
    | nil =>
      have hnalt : isAlt h0 k = false := by simp [isAlt, hcell]
      have hnode := hinv.node k hk (fun h => h)
      unfold NodeOK at hnode
      rw [hcell] at hnode
      simp only at hnode
      rw [res0_nonalt hnalt, U_leaf hnalt (by simp [isAnode, hcell]), hcell]
      unfold unfoldD unfoldWith
      simp only [hnode, prune]
      exact DenRel.refl _ _
    | err =>
      have hnalt : isAlt h0 k = false := by simp [isAlt, hcell]
      have hnode := hinv.node k hk (fun h => h)
      unfold NodeOK at hnode
      rw [hcell] at hnode
      simp only at hnode
      rw [res0_nonalt hnalt, U_leaf hnalt (by simp [isAnode, hcell]), hcell]
      unfold unfoldD unfoldWith
      simp only [hnode, prune]
      exact DenRel.refl _ _
    | term cd att =>
      have hnalt : isAlt h0 k = false := by simp [isAlt, hcell]
      have hnode := hinv.node k hk (fun h => h)
      unfold NodeOK at hnode
      rw [hcell] at hnode
      simp only at hnode
      rw [res0_nonalt hnalt, U_leaf hnalt (by simp [isAnode, hcell]), hcell]
      unfold unfoldD unfoldWith
      simp only [hnode, prune]
      exact DenRel.refl _ _

end

end Yaep.PC
