import Yaep.Lemmas.MakeParse
/-!
# No garbage, part 1: references and reachability in the tree memory of `make_parse`

`Edge h u v`: cell `u` refers to cell `v` (any child slot of an abstract node, the alternative or
the `next` of an ALT cell).  `Reach` is its reflexive transitive closure.  The effect of the heap
operations of `make_parse` (`place_translation`, allocation of a cell, the final NULL → NIL pass)
on edges.
-/
namespace Yaep.NG
open Yaep MP

/-- the references of one cell -/
def CellEdge : MNode → Nat → Prop
  | .anode _ _ ks, v => ∃ i, ks.getD i none = some v
  | .alt nd nx, v => v = nd ∨ nx = some v
  | _, _ => False

/-- cell `u` refers to cell `v` -/
def Edge (h : Array MNode) (u v : Nat) : Prop := CellEdge (h.getD u .nil) v

/-- reachability along the references -/
inductive Reach (h : Array MNode) : Nat → Nat → Prop where
  | refl (a : Nat) : Reach h a a
  | step {a b c : Nat} : Edge h a b → Reach h b c → Reach h a c

theorem Reach.trans {h : Array MNode} {a b c : Nat} (h1 : Reach h a b) (h2 : Reach h b c) :
    Reach h a c := by
  induction h1 with
  | refl _ => exact h2
  | step e _ ih => exact .step e (ih h2)

theorem Reach.single {h : Array MNode} {a b : Nat} (e : Edge h a b) : Reach h a b :=
  .step e (.refl b)

theorem Reach.tail {h : Array MNode} {a b c : Nat} (h1 : Reach h a b) (e : Edge h b c) :
    Reach h a c := h1.trans (.single e)

/-- if every edge of `h` is a path of `h'`, reachability is inherited -/
theorem Reach.mono {h h' : Array MNode} (he : ∀ u v, Edge h u v → Reach h' u v) {a b : Nat}
    (hr : Reach h a b) : Reach h' a b := by
  induction hr with
  | refl _ => exact .refl _
  | step e _ ih => exact (he _ _ e).trans ih

theorem getD_ge {h : Array MNode} {u : Nat} (hu : h.size ≤ u) : h.getD u .nil = .nil := by
  simp [Array.getD_eq_getD_getElem?, Array.getElem?_eq_none hu]

theorem lt_of_getD_ne_nil {h : Array MNode} {u : Nat} (hc : h.getD u .nil ≠ .nil) : u < h.size := by
  rcases Nat.lt_or_ge u h.size with h1 | h1
  · exact h1
  · exact absurd (getD_ge h1) hc

theorem lt_of_anode {h : Array MNode} {u : Nat} {nm : String} {c : Nat} {ks : Array (Option Nat)}
    (hc : h.getD u .nil = .anode nm c ks) : u < h.size :=
  lt_of_getD_ne_nil (by rw [hc]; intro e; cases e)

theorem Edge.lt {h : Array MNode} {u v : Nat} (e : Edge h u v) : u < h.size := by
  apply lt_of_getD_ne_nil
  intro hn
  unfold Edge at e
  rw [hn] at e
  exact e

theorem edge_congr {h h' : Array MNode} {u : Nat} (he : h'.getD u .nil = h.getD u .nil) (v : Nat) :
    Edge h' u v ↔ Edge h u v := by
  unfold Edge; rw [he]

theorem getKid_cell {h : Array MNode} {a : Nat} {nm : String} {c : Nat} {ks : Array (Option Nat)}
    (hc : h.getD a .nil = .anode nm c ks) (d : Nat) : getKid h a d = ks.getD d none := by
  unfold getKid; rw [hc]

theorem setKid_cell {h : Array MNode} {a : Nat} {nm : String} {c : Nat} {ks : Array (Option Nat)}
    (hc : h.getD a .nil = .anode nm c ks) (d : Nat) (v : Option Nat) :
    setKid h a d v = h.set! a (.anode nm c (ks.set! d v)) := by
  unfold setKid; rw [hc]

theorem kids_getD_set! (ks : Array (Option Nat)) (d i : Nat) (v : Option Nat) :
    (ks.set! d v).getD i none = if d = i ∧ d < ks.size then v else ks.getD i none := by
  simp only [Array.set!_eq_setIfInBounds, Array.getD_eq_getD_getElem?, Array.getElem?_setIfInBounds]
  by_cases hij : d = i
  · subst hij
    by_cases hi : d < ks.size <;> simp [hi]
  · simp [hij]

/-! ## allocation of a cell -/

theorem push_old {h : Array MNode} (m : MNode) {u : Nat} (hu : u < h.size) :
    (h.push m).getD u .nil = h.getD u .nil := getD_push_lt _ _ _ _ hu

theorem push_new (h : Array MNode) (m : MNode) : (h.push m).getD h.size .nil = m := getD_push_eq _ _ _

theorem edge_push {h : Array MNode} (m : MNode) {u v : Nat} (e : Edge h u v) : Edge (h.push m) u v := by
  have hu := e.lt
  exact (edge_congr (push_old m hu) v).2 e

theorem edge_of_push {h : Array MNode} {m : MNode} {u v : Nat} (e : Edge (h.push m) u v) :
    Edge h u v ∨ (u = h.size ∧ CellEdge m v) := by
  have hu := e.lt
  simp only [Array.size_push] at hu
  by_cases hlt : u < h.size
  · exact Or.inl ((edge_congr (push_old m hlt) v).1 e)
  · have : u = h.size := by omega
    subst this
    right
    unfold Edge at e
    rw [push_new] at e
    exact ⟨rfl, e⟩

theorem reach_push {h : Array MNode} (m : MNode) {a b : Nat} (hr : Reach h a b) :
    Reach (h.push m) a b :=
  hr.mono fun _ _ e => .single (edge_push m e)

/-! ## `place_translation` -/

/-- what `place_translation (a, d) node` does to a heap whose cell `a` is an abstract node with a
slot `d` -/
structure Placed (h h' : Array MNode) (a d node : Nat) (nm : String) (c : Nat)
    (ks : Array (Option Nat)) : Prop where
  size_le : h.size ≤ h'.size
  other : ∀ u, u ≠ a → u < h.size → h'.getD u .nil = h.getD u .nil
  cell : ∃ x, h'.getD a .nil = .anode nm c (ks.set! d (some x)) ∧ Reach h' x node ∧
    (∀ old, ks.getD d none = some old → Reach h' x old) ∧ (x = node ∨ (h.size ≤ x ∧ x < h'.size))
  fresh : ∀ u, h.size ≤ u → u < h'.size →
    (∃ nd nx, h'.getD u .nil = .alt nd nx ∧ (nd = node ∨ ks.getD d none = some nd) ∧
      ∀ j, nx = some j → (ks.getD d none = some j ∨ (h.size ≤ j ∧ j < h'.size))) ∧ Reach h' a u

theorem set!_other {h : Array MNode} {a u : Nat} (m : MNode) (hne : u ≠ a) :
    (h.set! a m).getD u .nil = h.getD u .nil := by
  rw [getD_set!]; simp [Ne.symm hne]

theorem set!_same {h : Array MNode} {a : Nat} (m : MNode) (ha : a < h.size) :
    (h.set! a m).getD a .nil = m := by
  rw [getD_set!]; simp [ha]

theorem place_placed {h : Array MNode} {a d node : Nat} {nm : String} {c : Nat}
    {ks : Array (Option Nat)} (hc : h.getD a .nil = .anode nm c ks) (hd : d < ks.size) :
    Placed h (placeTranslation h (a, d) node) a d node nm c ks := by
  have ha : a < h.size := lt_of_anode hc
  have hks : ∀ v, (ks.set! d (some v)).getD d none = some v := by
    intro v; rw [kids_getD_set!]; simp [hd]
  unfold placeTranslation
  simp only
  rw [getKid_cell hc]
  cases hk : ks.getD d none with
  | none =>
    simp only
    rw [setKid_cell hc]
    refine ⟨by simp, fun u hu _ => set!_other _ hu, ⟨node, set!_same _ ha, .refl _, ?_, Or.inl rfl⟩, ?_⟩
    · intro old ho; rw [hk] at ho; cases ho
    · intro u h1 h2; simp at h2; omega
  | some old =>
    simp only
    by_cases hal : isAlt h old = true
    · simp only [hal, if_true]
      have hc1 : (h.push (.alt node (some old))).getD a .nil = .anode nm c ks := by
        rw [push_old _ ha]; exact hc
      rw [setKid_cell hc1]
      have hnew : ((h.push (.alt node (some old))).set! a (.anode nm c (ks.set! d (some h.size)))).getD
          h.size .nil = .alt node (some old) := by
        rw [set!_other _ (by omega), push_new]
      have hcell : ((h.push (.alt node (some old))).set! a (.anode nm c (ks.set! d (some h.size)))).getD
          a .nil = .anode nm c (ks.set! d (some h.size)) := set!_same _ (by simp; omega)
      have e1 : Edge ((h.push (.alt node (some old))).set! a (.anode nm c (ks.set! d (some h.size))))
          h.size node := by unfold Edge; rw [hnew]; exact Or.inl rfl
      have e2 : Edge ((h.push (.alt node (some old))).set! a (.anode nm c (ks.set! d (some h.size))))
          h.size old := by unfold Edge; rw [hnew]; exact Or.inr rfl
      have e3 : Edge ((h.push (.alt node (some old))).set! a (.anode nm c (ks.set! d (some h.size))))
          a h.size := by unfold Edge; rw [hcell]; exact ⟨d, hks _⟩
      refine ⟨by simp, ?_, ⟨h.size, hcell, .single e1, ?_, Or.inr ⟨Nat.le_refl _, by simp⟩⟩, ?_⟩
      · intro u hu hlt
        rw [set!_other _ hu, push_old _ hlt]
      · intro o ho; rw [hk] at ho; injection ho with ho; subst ho; exact .single e2
      · intro u h1 h2
        simp at h2
        have : u = h.size := by omega
        subst this
        exact ⟨⟨node, some old, hnew, Or.inl rfl, fun j hj => by
          injection hj with hj; subst hj; exact Or.inl hk⟩, .single e3⟩
    · simp only [hal]
      simp only [Bool.false_eq_true, if_false]
      have hc1 : ((h.push (.alt node (some (h.size + 1)))).push (.alt old none)).getD a .nil =
          .anode nm c ks := by
        rw [push_old _ (by simp; omega), push_old _ ha]; exact hc
      rw [setKid_cell hc1]
      generalize hH : (((h.push (.alt node (some (h.size + 1)))).push (.alt old none)).set! a
        (.anode nm c (ks.set! d (some h.size)))) = H
      have hsz : H.size = h.size + 2 := by rw [← hH]; simp
      have hnew1 : H.getD h.size .nil = .alt node (some (h.size + 1)) := by
        rw [← hH, set!_other _ (by omega), push_old _ (by simp), push_new]
      have hnew2 : H.getD (h.size + 1) .nil = .alt old none := by
        rw [← hH, set!_other _ (by omega)]
        have := push_new (h.push (.alt node (some (h.size + 1)))) (.alt old none)
        simp only [Array.size_push] at this
        exact this
      have hcell : H.getD a .nil = .anode nm c (ks.set! d (some h.size)) := by
        rw [← hH]; exact set!_same _ (by simp; omega)
      have e1 : Edge H h.size node := by unfold Edge; rw [hnew1]; exact Or.inl rfl
      have e2 : Edge H h.size (h.size + 1) := by unfold Edge; rw [hnew1]; exact Or.inr rfl
      have e3 : Edge H (h.size + 1) old := by unfold Edge; rw [hnew2]; exact Or.inl rfl
      have e4 : Edge H a h.size := by unfold Edge; rw [hcell]; exact ⟨d, hks _⟩
      refine ⟨by omega, ?_, ⟨h.size, hcell, .single e1, ?_, Or.inr ⟨Nat.le_refl _, by omega⟩⟩, ?_⟩
      · intro u hu hlt
        rw [← hH, set!_other _ hu, push_old _ (by simp; omega), push_old _ hlt]
      · intro o ho; rw [hk] at ho; injection ho with ho; subst ho; exact .step e2 (.single e3)
      · intro u h1 h2
        by_cases hu : u = h.size
        · subst hu
          exact ⟨⟨node, some (h.size + 1), hnew1, Or.inl rfl, fun j hj => by
            injection hj with hj; subst hj; exact Or.inr ⟨by omega, by omega⟩⟩, .single e4⟩
        · have : u = h.size + 1 := by omega
          subst this
          exact ⟨⟨old, none, hnew2, Or.inr hk, fun j hj => by cases hj⟩, .step e4 (.single e2)⟩

section
variable {h h' : Array MNode} {a d node : Nat} {nm : String} {c : Nat} {ks : Array (Option Nat)}

/-- every old reference is still a path -/
theorem Placed.edge (hp : Placed h h' a d node nm c ks) (hc : h.getD a .nil = .anode nm c ks)
    {u v : Nat} (e : Edge h u v) : Reach h' u v := by
  by_cases hu : u = a
  · subst hu
    obtain ⟨x, hx, _, hold, _⟩ := hp.cell
    unfold Edge at e
    rw [hc] at e
    obtain ⟨i, hi⟩ := e
    by_cases hid : i = d
    · subst hid
      have e1 : Edge h' u x := by
        unfold Edge; rw [hx]
        refine ⟨i, ?_⟩
        rw [kids_getD_set!]
        have : i < ks.size := by
          rcases Nat.lt_or_ge i ks.size with h1 | h1
          · exact h1
          · simp [Array.getD_eq_getD_getElem?, Array.getElem?_eq_none h1] at hi
        simp [this]
      exact .step e1 (hold v hi)
    · apply Reach.single
      unfold Edge; rw [hx]
      refine ⟨i, ?_⟩
      rw [kids_getD_set!, if_neg (fun hh => hid hh.1.symm)]
      exact hi
  · exact .single ((edge_congr (hp.other u hu e.lt) v).2 e)

theorem Placed.reach (hp : Placed h h' a d node nm c ks) (hc : h.getD a .nil = .anode nm c ks)
    {x y : Nat} (hr : Reach h x y) : Reach h' x y :=
  hr.mono fun _ _ e => hp.edge hc e

/-- the node placed is reachable from the abstract node -/
theorem Placed.reach_node (hp : Placed h h' a d node nm c ks) (hd : d < ks.size) : Reach h' a node := by
  obtain ⟨x, hx, hn, _, _⟩ := hp.cell
  have e1 : Edge h' a x := by
    unfold Edge; rw [hx]
    exact ⟨d, by rw [kids_getD_set!]; simp [hd]⟩
  exact .step e1 hn

/-- where the references of the new heap point to -/
theorem Placed.edge_inv (hp : Placed h h' a d node nm c ks) (hc : h.getD a .nil = .anode nm c ks)
    {u v : Nat} (e : Edge h' u v) : (∃ u', Edge h u' v) ∨ v = node ∨ (h.size ≤ v ∧ v < h'.size) := by
  have hu' := e.lt
  by_cases hu : u = a
  · subst hu
    obtain ⟨x, hx, _, _, hxx⟩ := hp.cell
    unfold Edge at e
    rw [hx] at e
    obtain ⟨i, hi⟩ := e
    rw [kids_getD_set!] at hi
    split at hi
    · injection hi with hi; subst hi
      rcases hxx with h1 | h1
      · exact Or.inr (Or.inl h1)
      · exact Or.inr (Or.inr h1)
    · left
      refine ⟨u, ?_⟩
      unfold Edge; rw [hc]; exact ⟨i, hi⟩
  · by_cases hlt : u < h.size
    · exact Or.inl ⟨u, (edge_congr (hp.other u hu hlt) v).1 e⟩
    · obtain ⟨⟨nd, nx, hcell, hnd, hnx⟩, _⟩ := hp.fresh u (by omega) hu'
      unfold Edge at e
      rw [hcell] at e
      rcases e with e | e
      · subst e
        rcases hnd with h1 | h1
        · exact Or.inr (Or.inl h1)
        · left; refine ⟨a, ?_⟩; unfold Edge; rw [hc]; exact ⟨d, h1⟩
      · rcases hnx v e with h1 | h1
        · left; refine ⟨a, ?_⟩; unfold Edge; rw [hc]; exact ⟨d, h1⟩
        · exact Or.inr (Or.inr h1)

end

end Yaep.NG
