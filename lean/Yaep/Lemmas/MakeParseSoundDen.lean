import Yaep.Lemmas.MakeParse
import Yaep.Props.C02
/-!
# Soundness of the model of `make_parse`, part 1: what a cell of the tree memory denotes

`Den h hi t lo n`: cell `n` of the heap `h` is the root of a finished translation `t` all of
whose cells other than the shared `nilId` / `errId` lie in the address window `[lo, hi)`; the
children of an abstract node have larger addresses than the node (`make_parse` in one-parse mode
allocates a node before its children).  Frame lemmas: a heap that agrees on the window denotes the
same tree.
-/
namespace Yaep.MP
open Yaep

mutual
  def Den (h : Array MNode) (hi : Nat) : Tree → Nat → Nat → Prop
    | .nil, _, n => n = nilId
    | .error, _, n => n = errId
    | .term c a, lo, n => lo ≤ n ∧ n < hi ∧ h.getD n .nil = .term c a
    | .anode nm c ts, lo, n => lo ≤ n ∧ n < hi ∧
        ∃ (ks : Array (Option Nat)) (kids : List Nat), h.getD n .nil = .anode nm c ks ∧
          ks.toList = kids.map some ++ [none] ∧ DenList h hi ts (n + 1) kids
  def DenList (h : Array MNode) (hi : Nat) : List Tree → Nat → List Nat → Prop
    | [], _, ks => ks = []
    | t :: ts, lo, ks => ∃ k ks', ks = k :: ks' ∧ Den h hi t lo k ∧ DenList h hi ts lo ks'
end

/-- the two heaps agree on the cells of the window `[lo, hi)` -/
def AgreeOn (h h' : Array MNode) (lo hi : Nat) : Prop :=
  ∀ n, lo ≤ n → n < hi → h'.getD n .nil = h.getD n .nil

theorem AgreeOn.refl (h : Array MNode) (lo hi : Nat) : AgreeOn h h lo hi := fun _ _ _ => rfl

theorem AgreeOn.mono {h h' : Array MNode} {lo hi lo' hi' : Nat} (ha : AgreeOn h h' lo hi)
    (h1 : lo ≤ lo') (h2 : hi' ≤ hi) : AgreeOn h h' lo' hi' :=
  fun n hn1 hn2 => ha n (by omega) (by omega)

theorem AgreeOn.trans {h h' h'' : Array MNode} {lo hi : Nat} (h1 : AgreeOn h h' lo hi)
    (h2 : AgreeOn h' h'' lo hi) : AgreeOn h h'' lo hi :=
  fun n hn1 hn2 => by rw [h2 n hn1 hn2, h1 n hn1 hn2]

mutual
  theorem Den.frame {h h' : Array MNode} {hi hi' : Nat} (hhi : hi ≤ hi') :
      ∀ (t : Tree) (lo lo' n : Nat), lo' ≤ lo → AgreeOn h h' lo hi → Den h hi t lo n →
        Den h' hi' t lo' n
    | .nil, _, _, _, _, _, hd => hd
    | .error, _, _, _, _, _, hd => hd
    | .term c a, lo, lo', n, hlo, hag, hd => by
      simp only [Den] at hd ⊢
      exact ⟨by omega, by omega, by rw [hag n hd.1 hd.2.1]; exact hd.2.2⟩
    | .anode nm c ts, lo, lo', n, hlo, hag, hd => by
      simp only [Den] at hd ⊢
      obtain ⟨h1, h2, ks, kids, h3, h4, h5⟩ := hd
      refine ⟨by omega, by omega, ks, kids, by rw [hag n h1 h2]; exact h3, h4, ?_⟩
      exact DenList.frame hhi ts (n + 1) (n + 1) kids (Nat.le_refl _)
        (fun m hm1 hm2 => hag m (by omega) hm2) h5
  theorem DenList.frame {h h' : Array MNode} {hi hi' : Nat} (hhi : hi ≤ hi') :
      ∀ (ts : List Tree) (lo lo' : Nat) (ks : List Nat), lo' ≤ lo → AgreeOn h h' lo hi →
        DenList h hi ts lo ks → DenList h' hi' ts lo' ks
    | [], _, _, _, _, _, hd => hd
    | t :: ts, lo, lo', ks, hlo, hag, hd => by
      simp only [DenList] at hd ⊢
      obtain ⟨k, ks', h1, h2, h3⟩ := hd
      exact ⟨k, ks', h1, Den.frame hhi t lo lo' k hlo hag h2,
        DenList.frame hhi ts lo lo' ks' hlo hag h3⟩
end

theorem denList_iff {h : Array MNode} {hi : Nat} : ∀ (ts : List Tree) (lo : Nat) (ks : List Nat),
    DenList h hi ts lo ks ↔ ts.length = ks.length ∧
      ∀ i, i < ts.length → Den h hi (ts.getD i .nil) lo (ks.getD i 0)
  | [], lo, ks => by
    simp only [DenList]
    constructor
    · rintro rfl; simp
    · rintro ⟨h1, _⟩; exact List.length_eq_zero_iff.mp h1.symm
  | t :: ts, lo, ks => by
    simp only [DenList]
    constructor
    · rintro ⟨k, ks', rfl, h2, h3⟩
      obtain ⟨h4, h5⟩ := (denList_iff ts lo ks').mp h3
      refine ⟨by simp [h4], ?_⟩
      intro i hi'
      cases i with
      | zero => simpa using h2
      | succ i => simpa using h5 i (by simpa using hi')
    · rintro ⟨h1, h2⟩
      cases ks with
      | nil => simp at h1
      | cons k ks' =>
        refine ⟨k, ks', rfl, by simpa using h2 0 (by simp),
          (denList_iff ts lo ks').mpr ⟨by simpa using h1, ?_⟩⟩
        intro i hi'
        simpa using h2 (i + 1) (by simpa using hi')

/-! ## reading and writing child slots -/

theorem getKid_of_cell {h : Array MNode} {n : Nat} {nm : String} {c : Nat} {ks : Array (Option Nat)}
    (hc : h.getD n .nil = .anode nm c ks) (i : Nat) : getKid h n i = ks.getD i none := by
  unfold getKid; rw [hc]

theorem setKid_size (h : Array MNode) (n i : Nat) (v : Option Nat) : (setKid h n i v).size = h.size := by
  unfold setKid; split <;> simp

theorem setKid_getD_ne {h : Array MNode} {n i m : Nat} {v : Option Nat} (hne : m ≠ n) :
    (setKid h n i v).getD m .nil = h.getD m .nil := by
  unfold setKid
  split
  · rw [getD_set!]; simp [Ne.symm hne]
  · rfl

theorem setKid_getD_same {h : Array MNode} {n i : Nat} {v : Option Nat} {nm : String} {c : Nat}
    {ks : Array (Option Nat)} (hc : h.getD n .nil = .anode nm c ks) (hn : n < h.size) :
    (setKid h n i v).getD n .nil = .anode nm c (ks.set! i v) := by
  unfold setKid
  rw [hc]
  simp only
  rw [getD_set!]; simp [hn]

theorem setKid_agreeOn {h : Array MNode} {n i : Nat} {v : Option Nat} {lo hi : Nat}
    (hout : n < lo ∨ hi ≤ n) : AgreeOn h (setKid h n i v) lo hi := by
  intro m h1 h2
  exact setKid_getD_ne (by omega)

theorem push_agreeOn {h : Array MNode} {x : MNode} {lo hi : Nat} (hhi : hi ≤ h.size) :
    AgreeOn h (h.push x) lo hi := by
  intro m _ h2
  exact getD_push_lt _ _ _ _ (by omega)

theorem placeTranslation_none {h : Array MNode} {p : Nat × Nat} {node : Nat}
    (hk : getKid h p.1 p.2 = none) : placeTranslation h p node = setKid h p.1 p.2 (some node) := by
  unfold placeTranslation; rw [hk]

end Yaep.MP
