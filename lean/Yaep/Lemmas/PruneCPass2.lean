import Yaep.Lemmas.PruneCSem
/-!
# The second pass (`traverse_pruned_translation`) on an abstractly described pruned heap
-/
namespace Yaep.PC
open Yaep

@[simp] theorem reserve_heap (free : Bool) (t : TSt) (m : Mem) : (reserve free t m).heap = t.heap := by
  unfold reserve; split <;> rfl
@[simp] theorem reserve_oof (free : Bool) (t : TSt) (m : Mem) : (reserve free t m).oof = t.oof := by
  unfold reserve; split <;> rfl
theorem reserve_mono (free : Bool) (t : TSt) (m : Mem) : ∀ x, x ∈ t.resv → x ∈ (reserve free t m).resv := by
  intro x hx; unfold reserve; split
  · exact List.mem_cons_of_mem _ hx
  · exact hx
theorem reserve_mem (t : TSt) (m : Mem) : m ∈ (reserve true t m).resv := by
  unfold reserve
  by_cases h : m ∈ t.resv
  · simp [h]
  · simp [h]
theorem reserve_cases (free : Bool) (t : TSt) (m : Mem) :
    ∀ x, x ∈ (reserve free t m).resv → x ∈ t.resv ∨ (free = true ∧ x = m) := by
  intro x hx; unfold reserve at hx; split at hx
  · rename_i h
    simp only [Bool.and_eq_true] at h
    rcases List.mem_cons.1 hx with rfl | hx
    · exact Or.inr ⟨h.1, rfl⟩
    · exact Or.inl hx
  · exact Or.inl hx

theorem reach_no_succ {h : Array Cell} {x z : Nat} (hs : succs h x = []) (hr : Reach h x z) : z = x := by
  cases hr with
  | refl => rfl
  | step e _ => rw [hs] at e; cases e

theorem reach_linked {h : Array Cell} : ∀ (r : List Nat) (j z : Nat), Linked h (j :: r) → Reach h j z →
    ∃ i ∈ j :: r, z = i ∨ Reach h (altNode h i) z
  | [], j, z, hl, hr => by
    obtain ⟨nd, e⟩ := hl
    cases hr with
    | refl => exact ⟨j, by simp, Or.inl rfl⟩
    | step hb hr' =>
      simp only [succs, e, List.mem_singleton] at hb
      subst hb
      exact ⟨j, by simp, Or.inr (by simpa [altNode, e] using hr')⟩
  | j' :: r, j, z, hl, hr => by
    obtain ⟨⟨nd, e⟩, hl'⟩ := hl
    cases hr with
    | refl => exact ⟨j, by simp, Or.inl rfl⟩
    | step hb hr' =>
      simp only [succs, e, List.mem_cons, List.not_mem_nil, or_false] at hb
      rcases hb with rfl | rfl
      · exact ⟨j, by simp, Or.inr (by simpa [altNode, e] using hr')⟩
      · obtain ⟨i, hi, h⟩ := reach_linked r _ z hl' hr'
        exact ⟨i, List.mem_cons_of_mem _ hi, h⟩

theorem linked_reach {h : Array Cell} : ∀ (r : List Nat) (j : Nat), Linked h (j :: r) →
    ∀ i ∈ j :: r, Reach h j i ∧ isAlt h i = true
  | [], j, hl, i, hi => by
    obtain ⟨nd, e⟩ := hl
    simp only [List.mem_singleton] at hi
    subst hi
    exact ⟨.refl _, by simp [isAlt, e]⟩
  | j' :: r, j, hl, i, hi => by
    obtain ⟨⟨nd, e⟩, hl'⟩ := hl
    rcases List.mem_cons.1 hi with rfl | hi
    · exact ⟨.refl _, by simp [isAlt, e]⟩
    · obtain ⟨h1, h2⟩ := linked_reach r j' hl' i hi
      exact ⟨.step (b := j') (by simp [succs, e]) h1, h2⟩

section
variable (F : Array Cell) (E : Nat → Prop) (rnk : Nat → Nat) (free : Bool) (nameBlk : Nat → Nat)

/-- what the first pass leaves behind, as far as the second pass needs it: `E` holds of the
cells a reference of the pruned translation can point to -/
structure Pruned : Prop where
  lt : ∀ x, E x → x < F.size
  anode : ∀ x nm c ks, E x → cellAt F x = .anode nm c ks →
    c < 0 ∧ ∀ y ∈ kidsOf ks, E y ∧ rnk y < rnk x
  alt : ∀ x, E x → isAlt F x = true →
    ∃ L, L.head? = some x ∧ Linked F L ∧ L.length ≤ F.size ∧
      ∀ j ∈ L, j < F.size ∧ E (altNode F j) ∧ isAlt F (altNode F j) = false ∧
        rnk (altNode F j) < rnk x

/-- cell `z` has been dealt with: its cost is restored, it and its name are reserved -/
def DoneZ (t : TSt) (z : Nat) : Prop :=
  (∀ nm c ks, cellAt F z = .anode nm c ks → c < 0 ∧ cellAt t.heap z = .anode nm (-c - 1) ks) ∧
  (free = true → .cell z ∈ t.resv ∧ (isAnode F z = true → .name (nameBlk z) ∈ t.resv))

def Done (t : TSt) (x : Nat) : Prop := ∀ z, Reach F x z → DoneZ F free nameBlk t z

/-- cell `i` has been restored -/
def Flipped (t : TSt) (i : Nat) : Prop :=
  ∃ nm c ks, c < 0 ∧ cellAt F i = .anode nm c ks ∧ cellAt t.heap i = .anode nm (-c - 1) ks

structure TInv (Y : Nat → Prop) (t : TSt) : Prop where
  size : t.heap.size = F.size
  cells : ∀ i, cellAt t.heap i = cellAt F i ∨ Flipped F t i
  closed : ∀ i, ¬ Y i → Flipped F t i → Done F free nameBlk t i

structure TFrame (t t' : TSt) : Prop where
  size : t'.heap.size = t.heap.size
  stable : ∀ i, 0 ≤ costAt t.heap i → cellAt t'.heap i = cellAt t.heap i
  resv : ∀ m, m ∈ t.resv → m ∈ t'.resv
  oof : t'.oof = t.oof

/-- what the references reachable from `x` may add to the table -/
def ResvFrom (x : Nat) (m : Mem) : Prop :=
  ∃ z, Reach F x z ∧ (m = .cell z ∨ (isAnode F z = true ∧ m = .name (nameBlk z)))

def TRec (rec : TSt → Nat → TSt) (B : Nat) : Prop :=
  ∀ (Y : Nat → Prop) (t : TSt) (x : Nat), rnk x < B → E x → (∀ y, Y y → rnk x < rnk y) →
    TInv F free nameBlk Y t →
    TInv F free nameBlk Y (rec t x) ∧ Done F free nameBlk (rec t x) x ∧ TFrame t (rec t x) ∧
    (∀ m, m ∈ (rec t x).resv → m ∈ t.resv ∨ (free = true ∧ ResvFrom F nameBlk x m))

end

section
variable {F : Array Cell} {E : Nat → Prop} {rnk : Nat → Nat} {free : Bool} {nameBlk : Nat → Nat}

theorem TFrame.refl (t : TSt) : TFrame t t := ⟨rfl, fun _ _ => rfl, fun _ h => h, rfl⟩

theorem TFrame.trans {t t' t'' : TSt} (h1 : TFrame t t') (h2 : TFrame t' t'') : TFrame t t'' := by
  refine ⟨by rw [h2.size, h1.size], ?_, fun m hm => h2.resv m (h1.resv m hm), by rw [h2.oof, h1.oof]⟩
  intro i hi
  have e1 := h1.stable i hi
  rw [h2.stable i (by simpa only [costAt, e1] using hi), e1]

theorem TFrame.reserve (t : TSt) (m : Mem) : TFrame t (reserve free t m) :=
  ⟨by simp, fun _ _ => by simp, reserve_mono free t m, by simp⟩

theorem DoneZ.mono {t t' : TSt} {z : Nat} (hf : TFrame t t') (h : DoneZ F free nameBlk t z) :
    DoneZ F free nameBlk t' z := by
  refine ⟨fun nm c ks e => ?_, fun hfr => ⟨hf.resv _ (h.2 hfr).1, fun ha => hf.resv _ ((h.2 hfr).2 ha)⟩⟩
  obtain ⟨hc, ec⟩ := h.1 nm c ks e
  refine ⟨hc, ?_⟩
  rw [hf.stable z (by simp only [costAt, ec]; omega), ec]

theorem Done.mono {t t' : TSt} {x : Nat} (hf : TFrame t t') (h : Done F free nameBlk t x) :
    Done F free nameBlk t' x := fun z hz => (h z hz).mono hf

theorem Flipped.mono {t t' : TSt} {i : Nat} (hf : TFrame t t') (h : Flipped F t i) : Flipped F t' i := by
  obtain ⟨nm, c, ks, hc, e1, e2⟩ := h
  exact ⟨nm, c, ks, hc, e1, by rw [hf.stable i (by simp only [costAt, e2]; omega), e2]⟩

/-- a write-free step (only the table grows) keeps the invariant -/
theorem TInv.reserve {Y : Nat → Prop} {t : TSt} (m : Mem) (h : TInv F free nameBlk Y t) :
    TInv F free nameBlk Y (reserve free t m) := by
  refine ⟨by simpa using h.size, fun i => ?_, fun i hy hfl => ?_⟩
  · rcases h.cells i with e | e
    · left; simpa using e
    · right; exact e.mono (TFrame.reserve t m)
  · have : Flipped F t i := by
      obtain ⟨nm, c, ks, hc, e1, e2⟩ := hfl
      exact ⟨nm, c, ks, hc, e1, by simpa using e2⟩
    exact (h.closed i hy this).mono (TFrame.reserve t m)

end

end Yaep.PC
