import Yaep.Lemmas.DescrLex
/-!
# The description parser on the token list of a description
-/
namespace Yaep

/-- what can follow an item: `;`, `TERM`, the left-hand side of a rule, the end -/
inductive Follow : List DTok → Prop where
  | semi (r : List DTok) : Follow (.sym ';' :: r)
  | term (r : List DTok) : Follow (.term :: r)
  | semIdent (s : String) (r : List DTok) : Follow (.semIdent s :: r)
  | eof (r : List DTok) : Follow (.eof :: r)

/-- what can follow an alternative: the above or `|` -/
inductive AltFollow : List DTok → Prop where
  | follow {ts : List DTok} : Follow ts → AltFollow ts
  | bar (r : List DTok) : AltFollow (.sym '|' :: r)

/-! ## TERM declarations -/

theorem parseTermDecls_code (f : Nat) (n : String) (k : Nat) (rest : List DTok) (a : DescrAcc) :
    parseTermDecls (f + 1) (.ident n :: .sym '=' :: .num k :: rest) a =
      parseTermDecls f rest { a with sterms := a.sterms ++ [⟨n, k⟩] } := by
  rw [parseTermDecls]

theorem parseTermDecls_nocode (f : Nat) (n : String) {rest : List DTok} (a : DescrAcc)
    (h : ∀ r, rest ≠ .sym '=' :: r) :
    parseTermDecls (f + 1) (.ident n :: rest) a =
      parseTermDecls f rest { a with sterms := a.sterms ++ [⟨n, -1⟩] } := by
  rw [parseTermDecls]
  · intro k r hr
    exact h _ hr
  · intro r hr
    exact h _ hr

theorem parseTermDecls_stop (f : Nat) {ts : List DTok} (a : DescrAcc)
    (h : ∀ n r, ts ≠ .ident n :: r) : parseTermDecls (f + 1) ts a = some (ts, a) := by
  rw [parseTermDecls]
  all_goals intros; simp_all

def declSTerm (p : String × Option Nat) : STerm :=
  ⟨p.1, match p.2 with | some k => (k : Int) | Option.none => -1⟩

theorem Follow.not_ident {ts : List DTok} (h : Follow ts) : ∀ n r, ts ≠ .ident n :: r := by
  intro n r heq
  cases h <;> cases heq

theorem Follow.not_eq {ts : List DTok} (h : Follow ts) : ∀ r, ts ≠ .sym '=' :: r := by
  intro r heq
  cases h <;> simp at heq

theorem declToks_head (decls : List (String × Option Nat)) {rest : List DTok} (hr : Follow rest) :
    ∀ r, declToks decls ++ rest ≠ .sym '=' :: r := by
  intro r heq
  cases decls with
  | nil => exact hr.not_eq r heq
  | cons p ds =>
    obtain ⟨n, k⟩ := p
    cases k <;> simp [declToks] at heq

theorem parseTermDecls_decls (decls : List (String × Option Nat)) :
    ∀ (fuel : Nat) (a : DescrAcc) (rest : List DTok), decls.length < fuel → Follow rest →
      parseTermDecls fuel (declToks decls ++ rest) a =
        some (rest, { a with sterms := a.sterms ++ decls.map declSTerm }) := by
  induction decls with
  | nil =>
    intro fuel a rest hf hr
    obtain ⟨f, rfl⟩ : ∃ f, fuel = f + 1 := ⟨fuel - 1, by omega⟩
    simp only [declToks, List.nil_append, List.map_nil, List.append_nil]
    exact parseTermDecls_stop f a hr.not_ident
  | cons p ds ih =>
    intro fuel a rest hf hr
    obtain ⟨f, rfl⟩ : ∃ f, fuel = f + 1 := ⟨fuel - 1, by omega⟩
    have hf' : ds.length < f := by simp only [List.length_cons] at hf; omega
    obtain ⟨n, k⟩ := p
    cases k with
    | some k =>
      show parseTermDecls (f + 1) (.ident n :: .sym '=' :: .num k :: (declToks ds ++ rest)) a = _
      rw [parseTermDecls_code, ih f _ rest hf' hr]
      simp [declSTerm]
    | none =>
      show parseTermDecls (f + 1) (.ident n :: (declToks ds ++ rest)) a = _
      rw [parseTermDecls_nocode f n a (declToks_head ds hr), ih f _ rest hf' hr]
      simp [declSTerm]

/-! ## right-hand sides -/

theorem parseSeq_ident (f : Nat) (n : String) (rest : List DTok) (rhs : List String)
    (st : List STerm) :
    parseSeq (f + 1) (.ident n :: rest) rhs st = parseSeq f rest (rhs ++ [n]) st := by
  rw [parseSeq]

theorem parseSeq_chr (f : Nat) (c : UInt8) (rest : List DTok) (rhs : List String)
    (st : List STerm) :
    parseSeq (f + 1) (.chr c :: rest) rhs st =
      parseSeq f rest (rhs ++ [charName c]) (st ++ [⟨charName c, charCode c⟩]) := by
  rw [parseSeq]

theorem parseSeq_stop (f : Nat) {ts : List DTok} (rhs : List String) (st : List STerm)
    (h1 : ∀ n r, ts ≠ .ident n :: r) (h2 : ∀ c r, ts ≠ .chr c :: r) :
    parseSeq (f + 1) ts rhs st = (ts, rhs, st) := by
  rw [parseSeq]
  all_goals intros; simp_all

theorem charName_eq (c : UInt8) : charName c = RhsSym.name (.chr c) := by
  unfold charName bytesToString RhsSym.name
  rfl

theorem parseSeq_syms (syms : List RhsSym) :
    ∀ (fuel : Nat) (rest : List DTok) (rhs : List String) (st : List STerm),
      syms.length < fuel → (∀ n r, rest ≠ .ident n :: r) → (∀ c r, rest ≠ .chr c :: r) →
      parseSeq fuel (syms.map rhsSymTok ++ rest) rhs st =
        (rest, rhs ++ syms.map RhsSym.name, st ++ syms.filterMap RhsSym.sterm) := by
  induction syms with
  | nil =>
    intro fuel rest rhs st hf h1 h2
    obtain ⟨f, rfl⟩ : ∃ f, fuel = f + 1 := ⟨fuel - 1, by omega⟩
    simp only [List.map_nil, List.nil_append, List.append_nil, List.filterMap_nil]
    exact parseSeq_stop f rhs st h1 h2
  | cons x xs ih =>
    intro fuel rest rhs st hf h1 h2
    obtain ⟨f, rfl⟩ : ∃ f, fuel = f + 1 := ⟨fuel - 1, by omega⟩
    have hf' : xs.length < f := by simp only [List.length_cons] at hf; omega
    cases x with
    | ident s =>
      show parseSeq (f + 1) (.ident s :: (xs.map rhsSymTok ++ rest)) rhs st = _
      rw [parseSeq_ident, ih f rest _ _ hf' h1 h2]
      have : (RhsSym.ident s :: xs).filterMap RhsSym.sterm = xs.filterMap RhsSym.sterm := by
        rw [List.filterMap_cons]; rfl
      rw [this]
      simp [RhsSym.name]
    | chr c =>
      show parseSeq (f + 1) (.chr c :: (xs.map rhsSymTok ++ rest)) rhs st = _
      rw [parseSeq_chr, ih f rest _ _ hf' h1 h2]
      have : (RhsSym.chr c :: xs).filterMap RhsSym.sterm
          = ⟨charName c, charCode c⟩ :: xs.filterMap RhsSym.sterm := by
        rw [List.filterMap_cons]; rfl
      rw [this]
      simp [charName_eq]

/-! ## translations -/

theorem parseNumbers_num (f k : Nat) (rest : List DTok) (acc : List Nat) :
    parseNumbers (f + 1) (.num k :: rest) acc = parseNumbers f rest (acc ++ [k]) := by
  rw [parseNumbers]

theorem parseNumbers_dash (f : Nat) (rest : List DTok) (acc : List Nat) :
    parseNumbers (f + 1) (.sym '-' :: rest) acc = parseNumbers f rest (acc ++ [NIL_TRANSL]) := by
  rw [parseNumbers]

theorem parseNumbers_close (f : Nat) (rest : List DTok) (acc : List Nat) :
    parseNumbers (f + 1) (.sym ')' :: rest) acc = (.sym ')' :: rest, acc) := by
  rw [parseNumbers]
  all_goals intros; simp_all

theorem parseNumbers_args (l : List (Option Nat)) :
    ∀ (fuel : Nat) (rest : List DTok) (acc : List Nat), l.length < fuel →
      parseNumbers fuel (l.map argTok ++ .sym ')' :: rest) acc =
        (.sym ')' :: rest, acc ++ l.map (·.getD NIL_TRANSL)) := by
  induction l with
  | nil =>
    intro fuel rest acc hf
    obtain ⟨f, rfl⟩ : ∃ f, fuel = f + 1 := ⟨fuel - 1, by omega⟩
    simp only [List.map_nil, List.nil_append, List.append_nil]
    exact parseNumbers_close f rest acc
  | cons x xs ih =>
    intro fuel rest acc hf
    obtain ⟨f, rfl⟩ : ∃ f, fuel = f + 1 := ⟨fuel - 1, by omega⟩
    have hf' : xs.length < f := by simp only [List.length_cons] at hf; omega
    cases x with
    | some k =>
      show parseNumbers (f + 1) (.num k :: (xs.map argTok ++ .sym ')' :: rest)) acc = _
      rw [parseNumbers_num, ih f rest _ hf']
      simp
    | none =>
      show parseNumbers (f + 1) (.sym '-' :: (xs.map argTok ++ .sym ')' :: rest)) acc = _
      rw [parseNumbers_dash, ih f rest _ hf']
      simp

def Trans.argsLen : Trans → Nat
  | .anode _ _ (some l) => l.length
  | _ => 0

theorem parseTrans_trans (tr : Trans) {rest : List DTok} (hr : AltFollow rest) (fuel : Nat)
    (hf : tr.argsLen < fuel) :
    parseTrans fuel (transToks tr ++ rest) = some (rest, tr.anodeName, tr.cost, tr.transl) := by
  have hrest : ∃ t r, rest = t :: r ∧
      (t = .sym ';' ∨ t = .term ∨ (∃ s, t = .semIdent s) ∨ t = .eof ∨ t = .sym '|') := by
    cases hr with
    | follow h =>
      cases h with
      | semi r => exact ⟨_, r, rfl, Or.inl rfl⟩
      | term r => exact ⟨_, r, rfl, Or.inr (Or.inl rfl)⟩
      | semIdent s r => exact ⟨_, r, rfl, Or.inr (Or.inr (Or.inl ⟨s, rfl⟩))⟩
      | eof r => exact ⟨_, r, rfl, Or.inr (Or.inr (Or.inr (Or.inl rfl)))⟩
    | bar r => exact ⟨_, r, rfl, Or.inr (Or.inr (Or.inr (Or.inr rfl)))⟩
  obtain ⟨t, r, rfl, ht⟩ := hrest
  cases tr with
  | none => rcases ht with rfl | rfl | ⟨s, rfl⟩ | rfl | rfl <;> rfl
  | hash => rcases ht with rfl | rfl | ⟨s, rfl⟩ | rfl | rfl <;> rfl
  | num n => rfl
  | dash => rfl
  | anode a c args =>
    cases c with
    | none =>
      cases args with
      | none => rcases ht with rfl | rfl | ⟨s, rfl⟩ | rfl | rfl <;> rfl
      | some l =>
        have hn := parseNumbers_args l fuel (t :: r) [] hf
        simp only [transToks, List.cons_append, List.nil_append, List.append_assoc,
          parseTrans, hn]
        rfl
    | some k =>
      cases args with
      | none => rcases ht with rfl | rfl | ⟨s, rfl⟩ | rfl | rfl <;> rfl
      | some l =>
        have hn := parseNumbers_args l fuel (t :: r) [] hf
        simp only [transToks, List.cons_append, List.nil_append, List.append_assoc,
          parseTrans, hn]
        rfl

/-! ## alternatives -/

theorem AltFollow.not_ident {ts : List DTok} (h : AltFollow ts) : ∀ n r, ts ≠ .ident n :: r := by
  intro n r heq
  cases h with
  | follow h => exact h.not_ident n r heq
  | bar r' => cases heq

theorem AltFollow.not_chr {ts : List DTok} (h : AltFollow ts) : ∀ c r, ts ≠ .chr c :: r := by
  intro c r heq
  cases h with
  | follow h => cases h <;> cases heq
  | bar r' => cases heq

theorem transToks_not_ident (tr : Trans) {rest : List DTok} (hr : AltFollow rest) :
    (∀ n r, transToks tr ++ rest ≠ .ident n :: r) ∧ (∀ c r, transToks tr ++ rest ≠ .chr c :: r) := by
  cases tr with
  | none => exact ⟨hr.not_ident, hr.not_chr⟩
  | hash => exact ⟨fun n r h => (by cases h), fun c r h => (by cases h)⟩
  | num k => exact ⟨fun n r h => (by cases h), fun c r h => (by cases h)⟩
  | dash => exact ⟨fun n r h => (by cases h), fun c r h => (by cases h)⟩
  | anode a c args => exact ⟨fun n r h => (by cases h), fun c r h => (by cases h)⟩

theorem argsLen_le (tr : Trans) : tr.argsLen ≤ (transToks tr).length := by
  cases tr with
  | anode a c args =>
    cases args with
    | none => exact Nat.zero_le _
    | some l =>
      simp only [Trans.argsLen, transToks, List.length_append, List.length_map]
      omega
  | _ => exact Nat.zero_le _

def accAlt (lhs : String) (a : DescrAcc) (al : Alt) : DescrAcc :=
  { sterms := a.sterms ++ al.rhs.filterMap RhsSym.sterm, srules := a.srules ++ [al.toRaw lhs] }

/-- one alternative -/
theorem parseAlts_alt (f : Nat) (lhs : String) (al : Alt) {rest : List DTok} (hr : AltFollow rest)
    (a : DescrAcc) :
    parseAlts (f + 1) lhs (altToks al ++ rest) a =
      match rest with
      | .sym '|' :: r => parseAlts f lhs r (accAlt lhs a al)
      | _ => some (rest, accAlt lhs a al) := by
  obtain ⟨h1, h2⟩ := transToks_not_ident al.trans hr
  have hseq := parseSeq_syms al.rhs ((altToks al ++ rest).length + 1) (transToks al.trans ++ rest) [] []
    (by simp only [altToks, List.length_append, List.length_map]; omega) h1 h2
  have htr := parseTrans_trans al.trans hr ((transToks al.trans ++ rest).length + 1)
    (by have := argsLen_le al.trans; rw [List.length_append]; omega)
  rw [parseAlts]
  have hassoc : altToks al ++ rest = al.rhs.map rhsSymTok ++ (transToks al.trans ++ rest) := by
    unfold altToks; rw [List.append_assoc]
  rw [hassoc] at hseq ⊢
  simp only [hseq, htr, List.nil_append]
  cases hr with
  | follow h => cases h <;> rfl
  | bar r => rfl

def accAlts (lhs : String) (a : DescrAcc) (alts : List Alt) : DescrAcc :=
  { sterms := a.sterms ++ alts.flatMap fun al => al.rhs.filterMap RhsSym.sterm,
    srules := a.srules ++ alts.map (Alt.toRaw lhs) }

theorem parseAlts_alts (alts : List Alt) (hne : alts ≠ []) :
    ∀ (fuel : Nat) (lhs : String) (a : DescrAcc) (rest : List DTok), alts.length ≤ fuel →
      Follow rest →
      parseAlts fuel lhs (altsToks alts ++ rest) a = some (rest, accAlts lhs a alts) := by
  induction alts with
  | nil => exact absurd rfl hne
  | cons al more ih =>
    intro fuel lhs a rest hf hr
    obtain ⟨f, rfl⟩ : ∃ f, fuel = f + 1 := ⟨fuel - 1, by simp only [List.length_cons] at hf; omega⟩
    cases more with
    | nil =>
      show parseAlts (f + 1) lhs (altToks al ++ rest) a = _
      rw [parseAlts_alt f lhs al (AltFollow.follow hr)]
      have hacc : accAlt lhs a al = accAlts lhs a [al] := by
        simp [accAlt, accAlts]
      rw [hacc]
      cases hr <;> rfl
    | cons al2 more2 =>
      have hf' : (al2 :: more2).length ≤ f := by simp only [List.length_cons] at hf ⊢; omega
      show parseAlts (f + 1) lhs (altToks al ++ [.sym '|'] ++ altsToks (al2 :: more2) ++ rest) a = _
      rw [List.append_assoc, List.append_assoc]
      show parseAlts (f + 1) lhs (altToks al ++ (.sym '|' :: (altsToks (al2 :: more2) ++ rest))) a = _
      rw [parseAlts_alt f lhs al (AltFollow.bar _)]
      simp only []
      rw [ih (by simp) f lhs _ rest hf' hr]
      simp [accAlt, accAlts]

/-! ## the file -/

/-- an item starts with `TERM` or a left-hand side; after the last one comes the end -/
inductive ItemStart : List DTok → Prop where
  | term (r : List DTok) : ItemStart (.term :: r)
  | semIdent (s : String) (r : List DTok) : ItemStart (.semIdent s :: r)
  | eof (r : List DTok) : ItemStart (.eof :: r)

theorem ItemStart.follow {ts : List DTok} (h : ItemStart ts) : Follow ts := by
  cases h
  · exact Follow.term _
  · exact Follow.semIdent _ _
  · exact Follow.eof _

theorem itemsToks_start (semi : Nat → Bool) (i : Nat) (items : DescrAST) :
    ItemStart (itemsToks semi i items ++ [.eof]) := by
  cases items with
  | nil => exact ItemStart.eof _
  | cons it rest =>
    cases it with
    | terms decls => exact ItemStart.term _
    | rule lhs alts => exact ItemStart.semIdent _ _

theorem optSem_semi {b : Bool} {r : List DTok} (hr : ItemStart r) :
    optSem ((if b then [DTok.sym ';'] else []) ++ r) = r ∧
      Follow ((if b then [DTok.sym ';'] else []) ++ r) := by
  cases b with
  | true => exact ⟨rfl, Follow.semi _⟩
  | false =>
    refine ⟨?_, hr.follow⟩
    cases hr <;> rfl

def accItems (a : DescrAcc) (items : DescrAST) : DescrAcc :=
  { sterms := a.sterms ++ items.flatMap DItem.sterms, srules := a.srules ++ items.flatMap DItem.rules }

theorem parseFile_term (f : Nat) (first : Bool) (rest : List DTok) (a : DescrAcc) :
    parseFile (f + 1) first (.term :: rest) a =
      match parseTermDecls (rest.length + 1) rest a with
      | some (r2, a2) => parseFile f false (optSem r2) a2
      | Option.none => Option.none := by
  rw [parseFile]
  rcases parseTermDecls (rest.length + 1) rest a with _ | ⟨r2, a2⟩ <;> rfl

theorem parseFile_semIdent (f : Nat) (first : Bool) (lhs : String) (rest : List DTok)
    (a : DescrAcc) :
    parseFile (f + 1) first (.semIdent lhs :: rest) a =
      match parseAlts (rest.length + 1) lhs rest a with
      | some (r2, a2) => parseFile f false (optSem r2) a2
      | Option.none => Option.none := by
  rw [parseFile]
  rcases parseAlts (rest.length + 1) lhs rest a with _ | ⟨r2, a2⟩ <;> rfl

theorem parseFile_eof (f : Nat) (a : DescrAcc) : parseFile (f + 1) false [.eof] a = some a := by
  rw [parseFile]
  rfl

theorem length_declToks (decls : List (String × Option Nat)) :
    decls.length ≤ (declToks decls).length := by
  induction decls with
  | nil => exact Nat.le_refl _
  | cons p ds ih =>
    obtain ⟨n, k⟩ := p
    cases k <;> simp only [declToks, List.length_cons, List.cons_append,
      List.nil_append] <;> omega

theorem length_altsToks (alts : List Alt) : alts.length ≤ (altsToks alts).length + 1 := by
  induction alts with
  | nil => exact Nat.zero_le _
  | cons al more ih =>
    cases more with
    | nil => simp
    | cons al2 more2 =>
      simp only [altsToks, List.length_cons, List.length_append, List.length_nil] at ih ⊢
      omega

theorem parseFile_items (semi : Nat → Bool) (items : DescrAST) :
    ∀ (i fuel : Nat) (first : Bool) (a : DescrAcc), items.length < fuel →
      (first = true → items ≠ []) →
      (∀ lhs alts, DItem.rule lhs alts ∈ items → alts ≠ []) →
      parseFile fuel first (itemsToks semi i items ++ [.eof]) a = some (accItems a items) := by
  induction items with
  | nil =>
    intro i fuel first a hf hfirst _
    obtain ⟨f, rfl⟩ : ∃ f, fuel = f + 1 := ⟨fuel - 1, by omega⟩
    have : first = false := by
      cases first with
      | false => rfl
      | true => exact absurd rfl (hfirst rfl)
    subst this
    show parseFile (f + 1) false [.eof] a = _
    rw [parseFile_eof]
    simp [accItems]
  | cons it rest ih =>
    intro i fuel first a hf _ halts
    obtain ⟨f, rfl⟩ : ∃ f, fuel = f + 1 := ⟨fuel - 1, by omega⟩
    have hf' : rest.length < f := by simp only [List.length_cons] at hf; omega
    have hstart := itemsToks_start semi (i + 1) rest
    obtain ⟨hopt, hfol⟩ := optSem_semi (b := semi i) hstart
    have halts' : ∀ lhs alts, DItem.rule lhs alts ∈ rest → alts ≠ [] :=
      fun lhs alts hm => halts lhs alts (List.mem_cons_of_mem _ hm)
    have ih' := fun a' => ih (i + 1) f false a' hf' (fun h => by cases h) halts'
    cases it with
    | terms decls =>
      have htoks : itemsToks semi i (DItem.terms decls :: rest) ++ [.eof] =
          .term :: (declToks decls ++ ((if semi i then [DTok.sym ';'] else []) ++
            (itemsToks semi (i + 1) rest ++ [.eof]))) := by
        simp [itemsToks, itemToks, List.append_assoc]
      rw [htoks, parseFile_term]
      rw [parseTermDecls_decls decls _ a _
        (by have := length_declToks decls; simp only [List.length_append]; omega) hfol]
      simp only [hopt]
      rw [ih']
      simp [accItems, DItem.sterms, DItem.rules, declSTerm]
      intro n k _
      cases k <;> rfl
    | rule lhs alts =>
      have hne := halts lhs alts List.mem_cons_self
      have htoks : itemsToks semi i (DItem.rule lhs alts :: rest) ++ [.eof] =
          .semIdent lhs :: (altsToks alts ++ ((if semi i then [DTok.sym ';'] else []) ++
            (itemsToks semi (i + 1) rest ++ [.eof]))) := by
        simp [itemsToks, itemToks, List.append_assoc]
      rw [htoks, parseFile_semIdent]
      rw [parseAlts_alts alts hne _ lhs a _
        (by have := length_altsToks alts; simp only [List.length_append]; omega) hfol]
      simp only [hopt]
      rw [ih']
      simp [accItems, accAlts, DItem.sterms, DItem.rules]

end Yaep
