import Yaep.Model.PruneC
/-!
# Tests of the model of `find_minimal_translation` on random well-formed heaps (evaluation)

For every generated heap, both modes: the final heap denotes what `prune` says; the freed
cells are the cells reachable from the old root and not from the new one (NIL / ERROR excluded),
each once; a name block is freed once, iff a freed abstract node uses it and no reachable one
does; the cleared NIL / ERROR cells are the unreachable ones; every reachable abstract node has a
non-negative cost field obeying the additive law; without `parse_free` the heap is the same and
nothing is freed.  (These are the statements proved in `Props/PruneC.lean`; the tests were
written first, to validate the model and the statements.)
-/
namespace Yaep.PC.Test
open Yaep Yaep.PC

def check (h : Array Cell) (root : Nat) (one : Bool) (nameBlk : Nat → Nat) : Bool :=
  let F := 4 * h.size + 10
  let r := findMinimalTranslation F h root one true nameBlk
  let r0 := findMinimalTranslation F h root one false nameBlk
  let spec := denote (prune (!one) (unfoldC h F root)).1
  let got := denote (unfoldC r.heap F r.root)
  let okDen := sameSet got spec && (!one || (got.map Tree.str == spec.map Tree.str && got.length == 1))
  let old := reachFrom h (100 * F) [root] []
  let new := reachFrom r.heap (100 * F) [r.root] []
  let freedCells := r.frees.filterMap fun m => match m with | .cell i => some i | _ => none
  let freedNames := r.frees.filterMap fun m => match m with | .name i => some i | _ => none
  let isNE := fun i => isNilCell h i || isErrCell h i
  let isAn := fun i => match cellAt h i with | .anode .. => true | _ => false
  let expect := old.filter fun i => !new.contains i && !isNE i
  let okFree := freedCells.all expect.contains && expect.all freedCells.contains &&
     freedCells.eraseDups.length == freedCells.length && freedNames.eraseDups.length == freedNames.length
  let newNames := (new.filter isAn).map nameBlk
  let oldNames := (expect.filter isAn).map nameBlk
  let okNames := freedNames.all (fun b => !newNames.contains b && oldNames.contains b) &&
     oldNames.all (fun b => newNames.contains b || freedNames.contains b)
  let okCl := r.cleared.all (fun i => isNE i && old.contains i && !new.contains i) &&
     old.all (fun i => !(isNE i && !new.contains i) || r.cleared.contains i)
  let costOf := fun k => match cellAt r.heap k with
     | .anode _ ck _ => ck | .alt nd _ => costAt r.heap nd | _ => 0
  let okCost := new.all fun i => match cellAt r.heap i, cellAt h i with
     | .anode _ c ks, .anode _ c0 _ => c ≥ 0 && c == c0 + ((kidsOf ks).map costOf).foldl (· + ·) 0
     | .anode .., _ => false
     | _, _ => true
  let okSame := r0.heap == r.heap && r0.root == r.root && r0.frees == []
  !r.oof && okDen && okFree && okNames && okCl && okCost && okSame

/-! ## random heaps: children and alternatives are chosen among the cells built so far -/

def lcg (s : Nat) : Nat := (s * 6364136223846793005 + 1442695040888963407) % 18446744073709551616

structure G where
  seed : Nat
  heap : Array Cell := #[.nil, .err]
  refs : Array Nat := #[0, 1]      -- cells a child slot may refer to (no inner chain cells)
  plain : Array Nat := #[0, 1]     -- cells that are not ALT cells

def G.rnd (g : G) (n : Nat) : G × Nat := let s := lcg g.seed; ({ g with seed := s }, (s / 65536) % n)
def G.pick (g : G) (a : Array Nat) : G × Nat := let (g, i) := g.rnd a.size; (g, a.getD i 0)
def G.picks (g : G) (a : Array Nat) : Nat → G × List Nat
  | 0 => (g, [])
  | k + 1 => let (g, x) := g.pick a; let (g, xs) := g.picks a k; (g, x :: xs)

def G.step (g : G) : G :=
  let (g, kind) := g.rnd 10
  if kind < 2 then
    let id := g.heap.size
    { g with heap := g.heap.push (.term 97 id), refs := g.refs.push id, plain := g.plain.push id }
  else if kind < 7 then
    let (g, k) := g.rnd 4
    let (g, ks) := g.picks g.refs k
    let (g, c) := g.rnd 3
    let id := g.heap.size
    { g with heap := g.heap.push (.anode s!"n{id}" c ((ks.map some).toArray.push none)),
             refs := g.refs.push id, plain := g.plain.push id }
  else
    let (g, len) := g.rnd 3
    let (g, ns) := g.picks g.plain (len + 2)
    -- the last cell of the chain first
    let base := g.heap.size
    let cells := ns.zipIdx.map fun (nd, i) => Cell.alt nd (if i == 0 then none else some (base + i - 1))
    let h := cells.foldl (fun h c => h.push c) g.heap
    { g with heap := h, refs := g.refs.push (h.size - 1) }

def genHeap (seed n : Nat) : Array Cell × Nat :=
  let g : G := (List.range n).foldl (fun (g : G) _ => g.step) ({ seed := seed } : G)
  let (g, ks) := g.picks g.refs 3
  let id := g.heap.size
  (g.heap.push (.anode "root" 0 ((ks.map some).toArray.push none)), id)

/-- seeds for which a check fails -/
def failures (n size : Nat) : List Nat :=
  (List.range n).filter fun seed =>
    let (h, root) := genHeap (seed * 7919 + 13) size
    !(check h root false (fun i => i % 4) && check h root true (fun i => i % 4))

#guard failures 150 12 == []
#guard failures 60 25 == []
-- the generated heaps are not trivial: cells reachable from the roots, cells freed
#guard ((List.range 150).map fun seed =>
    let (h, root) := genHeap (seed * 7919 + 13) 12
    (findMinimalTranslation 100 h root false true id).frees.length).foldl (· + ·) 0 > 300

end Yaep.PC.Test
