import Yaep.Lemmas.MakeParseSoundMain
import Yaep.Lemmas.MakeParseSoundFuel
import Yaep.Props.BuildSet
/-!
# Soundness of the model of `make_parse`, part 9: the parse list `build_pl` hands to `make_parse`

The sets of the step-for-step model of `build_pl` (`BS.buildPLC`), as arrays in the order of the C
set cores, and the token numbers of the list elements, satisfy the hypotheses `CtxOK` of the
invariant; the decidable conditions on the translation parts of the rules give `GrOK`.
-/
namespace Yaep
open Yaep

/-- the parse list of the input `w` as `make_parse` reads it: situation `i` of set `j` as
`(rule, dot, origin)`, in the order of the C set core -/
def plSets (g : Grammar) (la : Nat) (w : List Nat) : Array (Array Item) :=
  ((BS.plItems (BS.buildPLC g la w).2.2).map List.toArray).toArray

/-- `pl_toks`: list element `0` is the start set (`-1`), list element `j` is token `j - 1` (no
error recovery) -/
def plTokNums (w : List Nat) : Array Int :=
  ((List.range (w.length + 2)).map fun (j : Nat) => (j : Int) - 1).toArray

/-- the decidable conditions on the translation parts of the rules `make_parse` relies on:
`Grammar.translWF`; a rule without abstract node and without translated symbol has translation
length 0; the rules for the axiom `$S` have no abstract node -/
def Grammar.mpWF (g : Grammar) : Bool :=
  g.translWF &&
  (g.rules.all fun rl => rl.anode.isSome || rl.transLen == 0 || rl.order.any Option.isSome) &&
  (g.rules.all fun rl => rl.lhs != g.axiomN || rl.anode.isNone)

namespace MP

theorem grOK_of_mpWF {g : Grammar} (h : g.mpWF = true) : GrOK g := by
  unfold Grammar.mpWF at h
  simp only [Bool.and_eq_true, List.all_eq_true, Bool.or_eq_true, beq_iff_eq, bne_iff_ne] at h
  obtain ⟨⟨h1, h2⟩, h3⟩ := h
  refine ⟨h1, ?_, ?_⟩
  · intro r rl hr ha hno
    have hmem : rl ∈ g.rules := List.mem_of_getElem? hr
    rcases h2 rl hmem with (h4 | h4) | h4
    · rw [ha] at h4; cases h4
    · exact h4
    · rw [List.any_eq_true] at h4
      obtain ⟨x, hx, hsome⟩ := h4
      obtain ⟨q, hq, rfl⟩ := List.getElem_of_mem hx
      have := hno q
      rw [List.getD_eq_getElem?_getD, List.getElem?_eq_getElem hq] at this
      simp only [Option.getD_some] at this
      rw [this] at hsome; cases hsome
  · intro r rl hr hl
    have hmem : rl ∈ g.rules := List.mem_of_getElem? hr
    rcases h3 rl hmem with h4 | h4
    · exact absurd hl h4
    · cases hh : rl.anode with
      | none => rfl
      | some _ => rw [hh] at h4; cases h4

theorem plSets_getD (g : Grammar) (la : Nat) (w : List Nat) (j : Nat)
    (hj : j < (BS.buildPLC g la w).2.2.length) :
    (plSets g la w).getD j #[] = (((BS.buildPLC g la w).2.2.getD j default).items j).toArray := by
  unfold plSets BS.plItems
  simp [Array.getD_eq_getD_getElem?, hj]

theorem plSets_size (g : Grammar) (la : Nat) (w : List Nat) :
    (plSets g la w).size = (BS.buildPLC g la w).2.2.length := by
  unfold plSets BS.plItems; simp

/-- the hypotheses of the invariant hold for the parse list of an accepted input -/
theorem ctxOK_plSets {g : Grammar} {la : Nat} {w : List Nat} (hacc : (BS.buildPLC g la w).1 = none) :
    CtxOK g (laFilter g g.analysis la (w ++ [g.eofT])) (w ++ [g.eofT])
      (mkCtx g (plSets g la w) (plTokNums w) true) := by
  obtain ⟨e1, e2, e3⟩ := BS.buildPLC_eq_buildPL g la w
  obtain ⟨s1, s2, _⟩ := buildPL_spec g la w
  rw [e1] at hacc
  obtain ⟨s3, _⟩ := s2 hacc
  refine ⟨rfl, rfl, rfl, rfl, rfl, ?_, ?_, ?_⟩
  · show (plSets g la w).size = _
    rw [plSets_size, e2, s3]
  · intro j i hi
    show EarleyF _ _ _ j (((plSets g la w).getD j #[]).getD i default)
    have hi' : i < ((plSets g la w).getD j #[]).size := hi
    by_cases hj : j < (BS.buildPLC g la w).2.2.length
    · rw [plSets_getD g la w j hj] at hi' ⊢
      have hi'' : i < (((BS.buildPLC g la w).2.2.getD j default).items j).length := by simpa using hi'
      have hmem : (((BS.buildPLC g la w).2.2.getD j default).items j).toArray.getD i default ∈
          ((BS.buildPLC g la w).2.2.getD j default).items j := by
        rw [Array.getD_eq_getD_getElem?, List.getElem?_toArray, List.getElem?_eq_getElem hi'']
        exact List.getElem_mem hi''
      rw [e3 j (by rw [← e2]; exact hj)] at hmem
      exact (s1 j (by rw [← e2]; exact hj) _).mp hmem
    · have : (plSets g la w).getD j #[] = #[] := by
        rw [Array.getD_eq_getD_getElem?, Array.getElem?_eq_none (by rw [plSets_size]; omega)]; rfl
      rw [this] at hi'; simp at hi'
  · intro j hj1 hj2
    show (plTokNums w).getD j (-1) = _
    unfold plTokNums
    have : j < w.length + 2 := by simp at hj2; omega
    simp [Array.getD_eq_getD_getElem?, this]

/-- … and the sets are exactly the Earley sets -/
theorem ctxOKc_plSets {g : Grammar} {la : Nat} {w : List Nat} (hacc : (BS.buildPLC g la w).1 = none) :
    CtxOKc g (laFilter g g.analysis la (w ++ [g.eofT])) (w ++ [g.eofT])
      (mkCtx g (plSets g la w) (plTokNums w) true) := by
  refine ⟨ctxOK_plSets hacc, ?_⟩
  obtain ⟨e1, e2, e3⟩ := BS.buildPLC_eq_buildPL g la w
  obtain ⟨s1, s2, _⟩ := buildPL_spec g la w
  rw [e1] at hacc
  obtain ⟨s3, _⟩ := s2 hacc
  intro j it hE
  show ∃ i, i < ((plSets g la w).getD j #[]).size ∧ ((plSets g la w).getD j #[]).getD i default = it
  have hj : j < (buildPL g la w).2.length := by rw [s3]; exact Nat.lt_succ_of_le hE.le_length
  have hmem := (e3 j hj it).mpr ((s1 j hj it).mpr hE)
  rw [plSets_getD g la w j (by rw [e2]; exact hj)]
  obtain ⟨i, hi, hget⟩ := List.getElem_of_mem hmem
  refine ⟨i, by simpa using hi, ?_⟩
  rw [Array.getD_eq_getD_getElem?, List.getElem?_toArray, List.getElem?_eq_getElem hi, hget]; rfl

/-- the last set of the parse list of an accepted input is not empty -/
theorem last_set_nonempty {g : Grammar} {la : Nat} {w : List Nat} (hacc : (BS.buildPLC g la w).1 = none) :
    ∃ it, EarleyF g (laFilter g g.analysis la (w ++ [g.eofT])) (w ++ [g.eofT]) (w.length + 1) it := by
  obtain ⟨e1, _, _⟩ := BS.buildPLC_eq_buildPL g la w
  obtain ⟨_, s2, _⟩ := buildPL_spec g la w
  rw [e1] at hacc
  obtain ⟨_, s4⟩ := s2 hacc
  obtain ⟨r, d, i, a, hE, hw, hns⟩ := s4 w.length (by simp)
  refine ⟨⟨r, d + 1, i⟩, EarleyF.scan hE hns hw ?_⟩
  unfold laFilter okItem
  have : (w ++ [g.eofT])[w.length + 1]? = none := by
    rw [List.getElem?_eq_none]; simp
  rw [this]
  cases la <;> rfl

end MP
end Yaep
