import Yaep.Lemmas.MakeParseAllExport
import Yaep.Lemmas.HeapWfExport
/-!
# No garbage, part 6: the exporter numbers every cell it reaches exactly once

`exportTable h r = some (tab, root)` (no cycle met) for a set `D` of cells of the heap that is closed
under `cellKids` and contains `r`: the map `cells` from table indices to cells
(`MP.exportTable_rep`) is injective, and every exported cell is reachable from `r` along `cellKids`.
No rank is needed: a cell that is being exported (`PC.InProg`) is not numbered by the calls for its
descendants, because meeting it again would set `cycle`.
-/
namespace Yaep.NG
open Yaep MP

/-- reachability along the cells the exporter visits -/
inductive KReach (h : Array MNode) : Nat → Nat → Prop where
  | refl (a : Nat) : KReach h a a
  | step {a b c : Nat} : b ∈ cellKids h a → KReach h b c → KReach h a c

theorem KReach.tail {h : Array MNode} {a b c : Nat} (h1 : KReach h a b) (e : c ∈ cellKids h b) :
    KReach h a c := by
  induction h1 with
  | refl _ => exact .step e (.refl _)
  | step e' _ ih => exact .step e' (ih e)

structure BI (h : Array MNode) (root0 : Nat) (ex : ExSt) (cells : List Nat) : Prop where
  len : cells.length = ex.out.size
  isz : ex.ids.size = h.size
  vsz : ex.visiting.size = h.size
  rep : ∀ id, id < ex.out.size → RepAt h ex.out cells id
  fwd : ∀ m id, ex.ids.getD m none = some id → id < ex.out.size ∧ cells.getD id 0 = m
  bwd : ∀ id, id < ex.out.size → ex.ids.getD (cells.getD id 0) none = some id
  rch : ∀ id, id < ex.out.size → KReach h root0 (cells.getD id 0)

/-- result of exporting one cell -/
structure BRes (h : Array MNode) (root0 : Nat) (ex : ExSt) (cells : List Nat) (r : ExSt × Nat)
    (n : Nat) : Prop where
  cyc : ex.cycle = true → r.1.cycle = true
  ok : r.1.cycle = false → (∀ m, PC.InProg r.1 m ↔ PC.InProg ex m) ∧
    ∃ cells', CellsExt cells cells' ∧ BI h root0 r.1 cells' ∧ r.2 < r.1.out.size ∧
      cells'.getD r.2 0 = n

/-- result of exporting a list of cells -/
structure BsRes (h : Array MNode) (root0 : Nat) (ex : ExSt) (cells : List Nat) (acc : List Nat)
    (r : ExSt × List Nat) (ks : List Nat) : Prop where
  cyc : ex.cycle = true → r.1.cycle = true
  ok : r.1.cycle = false → (∀ m, PC.InProg r.1 m ↔ PC.InProg ex m) ∧
    ∃ cells' ids, CellsExt cells cells' ∧ BI h root0 r.1 cells' ∧ r.2 = acc ++ ids ∧
      ids.map (fun k => cells'.getD k 0) = ks ∧ ∀ k ∈ ids, k < r.1.out.size

theorem exportKids_bi {h : Array MNode} {root0 : Nat} (P : Nat → Prop) (f : ExSt → Nat → ExSt × Nat)
    (hf : ∀ ex cells k, P k → (ex.cycle = false → BI h root0 ex cells) →
      BRes h root0 ex cells (f ex k) k) :
    ∀ (ks : List Nat) (ex : ExSt) (cells : List Nat) (acc : List Nat), (∀ k ∈ ks, P k) →
      (ex.cycle = false → BI h root0 ex cells) →
      BsRes h root0 ex cells acc (exportKids f ks ex acc) ks
  | [], ex, cells, acc, _, hinv => by
    refine ⟨fun hc => hc, fun hc => ⟨fun _ => Iff.rfl, cells, [], CellsExt.refl _, hinv hc,
      by simp [exportKids], rfl, ?_⟩⟩
    intro k hk; cases hk
  | k :: ks, ex, cells, acc, hP, hinv => by
    have h1 := hf ex cells k (hP k List.mem_cons_self) hinv
    show BsRes h root0 ex cells acc (exportKids f ks (f ex k).1 (acc ++ [(f ex k).2])) (k :: ks)
    have hP' : ∀ x ∈ ks, P x := fun x hx => hP x (List.mem_cons_of_mem _ hx)
    cases hcy : (f ex k).1.cycle with
    | true =>
      have h2 := exportKids_bi P f hf ks (f ex k).1 cells (acc ++ [(f ex k).2]) hP'
        (fun hc => by rw [hcy] at hc; cases hc)
      refine ⟨fun _ => h2.cyc hcy, fun hc => ?_⟩
      rw [h2.cyc hcy] at hc; cases hc
    | false =>
      obtain ⟨p1, cells1, e1, r1, lt1, c1⟩ := h1.ok hcy
      have h2 := exportKids_bi P f hf ks (f ex k).1 cells1 (acc ++ [(f ex k).2]) hP' (fun _ => r1)
      refine ⟨fun hc => h2.cyc (h1.cyc hc), fun hc => ?_⟩
      obtain ⟨p2, cells2, ids, e2, r2, a2, m2, b2⟩ := h2.ok hc
      refine ⟨fun m => (p2 m).trans (p1 m), cells2, (f ex k).2 :: ids, e1.trans e2, r2,
        by rw [a2]; simp, ?_, ?_⟩
      · simp only [List.map_cons]
        rw [m2, e2.getD (by rw [r1.len]; exact lt1), c1]
      · intro x hx
        rcases List.mem_cons.mp hx with rfl | hx
        · have := e2; obtain ⟨l, hl⟩ := this
          have hsz : (f ex k).1.out.size ≤
              (exportKids f ks (f ex k).1 (acc ++ [(f ex k).2])).1.out.size := by
            rw [← r1.len, ← r2.len, hl]; simp
          omega
        · exact b2 x hx

theorem exportNode_bi {h : Array MNode} {root0 : Nat} {D : Nat → Prop}
    (hDlt : ∀ n, D n → n < h.size) (hD : ∀ n, D n → ∀ k ∈ cellKids h n, D k) :
    ∀ (fuel : Nat) (ex : ExSt) (cells : List Nat) (n : Nat), (D n ∧ KReach h root0 n) →
      (ex.cycle = false → BI h root0 ex cells) → BRes h root0 ex cells (exportNode h fuel ex n) n
  | 0, ex, cells, n, _, _ => by
    unfold exportNode
    exact ⟨fun _ => rfl, fun hc => by simp at hc⟩
  | fuel + 1, ex, cells, n, hn, hinv => by
    unfold exportNode
    split
    · rename_i id hid
      refine ⟨fun hc => hc, fun hc => ⟨fun _ => Iff.rfl, ?_⟩⟩
      obtain ⟨a1, a2⟩ := (hinv hc).fwd n id hid
      exact ⟨cells, CellsExt.refl _, hinv hc, a1, a2⟩
    · rename_i hnone
      split
      · exact ⟨fun _ => rfl, fun hc => by simp at hc⟩
      · rename_i hv
        have hidn : ex.ids.getD n none = none := hnone
        have hv' : ex.visiting.getD n false = false := by simpa using hv
        have hk := exportKids_bi (h := h) (root0 := root0) (fun k => D k ∧ KReach h root0 k)
          (exportNode h fuel)
          (fun ex cells k hk hi => exportNode_bi hDlt hD fuel ex cells k hk hi)
          (cellKids h n) { ex with visiting := ex.visiting.set! n true } cells []
          (fun k hk => ⟨hD n hn.1 k hk, hn.2.tail hk⟩)
          (fun hc => ⟨(hinv hc).len, (hinv hc).isz, by simp [(hinv hc).vsz], (hinv hc).rep,
            (hinv hc).fwd, (hinv hc).bwd, (hinv hc).rch⟩)
        generalize hp : exportKids (exportNode h fuel) (cellKids h n)
          { ex with visiting := ex.visiting.set! n true } [] = p at hk
        refine ⟨fun hc => hk.cyc hc, fun hc => ?_⟩
        have hc' : p.1.cycle = false := hc
        have hcex : ex.cycle = false := by
          cases hq : ex.cycle with
          | false => rfl
          | true => rw [hk.cyc hq] at hc'; cases hc'
        have hnlt := hDlt n hn.1
        obtain ⟨pr, cells1, ids, e1, r1, a1, m1, b1⟩ := hk.ok hc'
        simp only [List.nil_append] at a1
        -- `n` is still in progress after its children
        have hprog1 : PC.InProg { ex with visiting := ex.visiting.set! n true } n := by
          unfold PC.InProg
          simp only
          rw [getD_set!]
          simp [(hinv hcex).vsz, hnlt, hidn]
        have hprogp : p.1.ids.getD n none = none := ((pr n).2 hprog1).2
        have hext : CellsExt cells1 (cells1 ++ [n]) := ⟨[n], rfl⟩
        have hmy : (cells1 ++ [n]).getD p.1.out.size 0 = n := by
          rw [← r1.len]; simp [List.getD_eq_getElem?_getD]
        refine ⟨?_, cells1 ++ [n], e1.trans hext, ⟨by simp [r1.len], by simp [r1.isz], r1.vsz,
          ?_, ?_, ?_, ?_⟩, by simp, hmy⟩
        · -- the cells in progress
          intro m
          unfold PC.InProg
          simp only
          rw [getD_set!]
          by_cases hmn : n = m
          · subst hmn
            simp only [true_and, r1.isz, hnlt, if_true]
            constructor
            · intro hh; cases hh.2
            · intro hh; rw [hv'] at hh; cases hh.1
          · simp only [hmn, false_and, if_false]
            have := pr m
            unfold PC.InProg at this
            simp only at this
            rw [getD_set!] at this
            simp only [hmn, false_and, if_false] at this
            exact this
        · intro id hid
          simp only [Array.size_push] at hid
          by_cases hlt : id < p.1.out.size
          · exact (r1.rep id hlt).ext r1.len hlt (getD_push_lt _ _ _ _ hlt) hext
          · have hid' : id = p.1.out.size := by omega
            subst hid'
            refine ⟨ids, ?_, ?_, b1⟩
            · simp only
              rw [getD_push_eq, hmy, a1]
            · rw [hmy, ← m1]
              apply List.map_congr_left
              intro k hk'
              exact hext.getD (by rw [r1.len]; exact b1 k hk')
        · intro m id hm
          simp only at hm ⊢
          rw [getD_set!] at hm
          simp only [Array.size_push]
          split at hm
          · injection hm with hm; subst hm
            rename_i hh
            exact ⟨Nat.lt_succ_self _, by rw [hmy]; exact hh.1⟩
          · obtain ⟨b2, b3⟩ := r1.fwd m id hm
            exact ⟨Nat.lt_succ_of_lt b2, by rw [hext.getD (by rw [r1.len]; exact b2)]; exact b3⟩
        · intro id hid
          simp only [Array.size_push] at hid
          simp only
          by_cases hlt : id < p.1.out.size
          · rw [hext.getD (by rw [r1.len]; exact hlt), getD_set!]
            have hb := r1.bwd id hlt
            have hne : ¬ (n = cells1.getD id 0 ∧ n < p.1.ids.size) := by
              intro hh
              rw [← hh.1, hprogp] at hb
              cases hb
            rw [if_neg hne]; exact hb
          · have hid' : id = p.1.out.size := by omega
            subst hid'
            rw [hmy, getD_set!]
            simp [r1.isz, hnlt]
        · intro id hid
          simp only [Array.size_push] at hid
          by_cases hlt : id < p.1.out.size
          · rw [hext.getD (by rw [r1.len]; exact hlt)]; exact r1.rch id hlt
          · have hid' : id = p.1.out.size := by omega
            subst hid'
            rw [hmy]; exact hn.2

/-- **the exporter numbers every cell it reaches exactly once** -/
theorem exportTable_bij {h : Array MNode} {D : Nat → Prop} (hDlt : ∀ n, D n → n < h.size)
    (hD : ∀ n, D n → ∀ k ∈ cellKids h n, D k) {r : Nat} (hr : D r) {tab : Array NodeRec} {root : Nat}
    (hx : exportTable h r = some (tab, root)) :
    ∃ cells : List Nat, cells.length = tab.size ∧ root < tab.size ∧ cells.getD root 0 = r ∧
      (∀ id, id < tab.size → RepAt h tab cells id) ∧
      (∀ i j, i < tab.size → j < tab.size → cells.getD i 0 = cells.getD j 0 → i = j) ∧
      (∀ id, id < tab.size → KReach h r (cells.getD id 0)) := by
  unfold exportTable at hx
  have hs := exportNode_bi (root0 := r) hDlt hD (h.size + 1)
    { ids := Array.replicate h.size none, visiting := Array.replicate h.size false } [] r
    ⟨hr, .refl _⟩
    (fun _ => ⟨rfl, by simp, by simp, fun id hid => by simp at hid, fun m id hm => by
      simp [Array.getD_eq_getD_getElem?, Array.getElem?_replicate] at hm
      split at hm <;> simp at hm, fun id hid => by simp at hid, fun id hid => by simp at hid⟩)
  generalize exportNode h (h.size + 1)
    { ids := Array.replicate h.size none, visiting := Array.replicate h.size false } r = p at hs hx
  obtain ⟨ex, rr⟩ := p
  simp only at hx
  split at hx
  · cases hx
  · rename_i hc
    simp at hx
    obtain ⟨rfl, rfl⟩ := hx
    obtain ⟨_, cells, _, r1, lt1, c1⟩ := hs.ok (by simpa using hc)
    refine ⟨cells, r1.len, lt1, c1, r1.rep, ?_, r1.rch⟩
    intro i j hi hj hij
    have h1 := r1.bwd i hi
    have h2 := r1.bwd j hj
    rw [hij, h2] at h1
    injection h1 with h1
    exact h1.symm

end Yaep.NG
