import Yaep.Lemmas.Earley
import Yaep.Lemmas.FirstFollow
/-!
# Lookahead level 1: the static lookahead filter never removes an item that lies on a
derivation of the whole input

Helper lemmas for the level-1 part of `Yaep/Props/C01.lean`.
-/
namespace Yaep

/-! ## generic facts -/

theorem Der.append_inv {g : Grammar} {α β : List Sym} {w : List Nat} (h : Der g (α ++ β) w) :
    ∃ u v, Der g α u ∧ Der g β v ∧ w = u ++ v := by
  induction α generalizing w with
  | nil => exact ⟨[], w, Der.nil, by simpa using h, rfl⟩
  | cons s ss ih =>
    rw [List.cons_append] at h
    obtain ⟨u1, v1, h1, h2, rfl⟩ := h.cons_inv
    obtain ⟨u2, v2, h3, h4, rfl⟩ := ih h2
    exact ⟨u1 ++ u2, v2, Der.append (α := [s]) h1 h3, h4, by rw [List.append_assoc]⟩

theorem drop_eq_of_slice {w u : List Nat} {k : Nat} (h : slice w k (k + u.length) = u) :
    w.drop k = u ++ w.drop (k + u.length) := by
  unfold slice at h
  rw [Nat.add_sub_cancel_left] at h
  have h2 : w.drop (k + u.length) = (w.drop k).drop u.length := by rw [List.drop_drop]
  have := List.take_append_drop u.length (w.drop k)
  rw [h, ← h2] at this
  exact this.symm

theorem rhs_split_of_getElem? {l : List Sym} {d : Nat} {X : Sym} (h : l[d]? = some X) :
    l = l.take d ++ X :: l.drop (d + 1) := by
  obtain ⟨hlt, he⟩ := List.getElem?_eq_some_iff.mp h
  have := (List.take_append_drop d l).symm
  rw [List.drop_eq_getElem_cons hlt, he] at this
  exact this

/-! ## the lookahead set -/

theorem mem_laSet_of' {g : Grammar} {an : Analysis} {r d c : Nat} {rl : Rule}
    (hr : g.rules[r]? = some rl)
    (h : c ∈ (firstOfStr an.nl an.fs (rl.rhs.drop d)).1 ∨
      ((firstOfStr an.nl an.fs (rl.rhs.drop d)).2 = true ∧ (rl.lhs, c) ∈ an.fl)) :
    c ∈ laSet g an r d := by
  unfold laSet
  rw [hr]
  simp only
  rcases h with h | ⟨he, h⟩
  · split
    · exact List.mem_append_left _ h
    · exact h
  · rw [if_pos he]
    exact List.mem_append_right _ (mem_filterMap_fst.mpr h)

theorem mem_laSet_of {g : Grammar} {r d c : Nat} {rl : Rule} (hr : g.rules[r]? = some rl)
    (h : c ∈ (firstOfStr g.nullable g.firstTab (rl.rhs.drop d)).1 ∨
      ((firstOfStr g.nullable g.firstTab (rl.rhs.drop d)).2 = true ∧
        (rl.lhs, c) ∈ g.followTab)) :
    c ∈ laSet g g.analysis r d :=
  mem_laSet_of' (an := g.analysis) hr h

theorem okItem_one_of_mem {g : Grammar} {an : Analysis} {r d c : Nat} (h : c ∈ laSet g an r d) :
    okItem g an 1 (some c) r d = true := by
  unfold okItem
  simp only [Bool.or_eq_true, List.contains_iff_mem]
  exact Or.inl h

/-- `γ` is a possible right context of `A`: whatever starts a string derived from `γ` is in
`FOLLOW(A)` -/
def FollowCovers (g : Grammar) (A : Nat) (γ : List Sym) : Prop :=
  ∀ a v, Der g γ (a :: v) → (A, a) ∈ g.followTab

theorem FollowCovers.nil (g : Grammar) (A : Nat) : FollowCovers g A [] := by
  intro a v h
  exact absurd h.nil_inv (by simp)

/-- the right context of a predicted nonterminal -/
theorem FollowCovers.predict {g : Grammar} (hsr : g.symsInRange = true) {r d B : Nat} {rl : Rule}
    {γ : List Sym} (hr : g.rules[r]? = some rl) (hsym : rl.rhs[d]? = some (Sym.n B))
    (hcov : FollowCovers g rl.lhs γ) : FollowCovers g B (rl.rhs.drop (d + 1) ++ γ) := by
  intro a v hd
  obtain ⟨u1, v1, h1, h2, huv⟩ := hd.append_inv
  have hsuf : (B, rl.rhs.drop (d + 1)) ∈ ntSuffixes rl.rhs :=
    mem_ntSuffixes.mpr ⟨rl.rhs.take d, rhs_split_of_getElem? hsym⟩
  have hrl := List.mem_of_getElem? hr
  apply followTab_closed hsr
  cases u1 with
  | nil =>
    rw [List.nil_append] at huv
    subst huv
    exact mem_followStep.mpr ⟨rl, hrl, _, hsuf,
      Or.inr ⟨(firstOfStr_snd_iff _).mpr h1, hcov a v h2⟩⟩
  | cons b u1' =>
    rw [List.cons_append] at huv
    injection huv with hb _
    subst hb
    exact mem_followStep.mpr ⟨rl, hrl, _, hsuf, Or.inl (first_closed_aux hsr h1 a u1' rfl)⟩

/-- the level-1 test passes for an item whose tail, followed by a right context covered by
FOLLOW, derives the whole rest of the input -/
theorem laFilter_one_of_der {g : Grammar} (hsr : g.symsInRange = true) {w : List Nat}
    {r d m : Nat} {rl : Rule} {γ : List Sym} (hr : g.rules[r]? = some rl)
    (hd : Der g (rl.rhs.drop d ++ γ) (w.drop m)) (hcov : FollowCovers g rl.lhs γ) :
    laFilter g g.analysis 1 w m r d = true := by
  unfold laFilter
  cases hw : w[m]? with
  | none => unfold okItem; rfl
  | some c =>
    apply okItem_one_of_mem
    apply mem_laSet_of hr
    have hlt := (List.getElem?_eq_some_iff.mp hw).1
    have hc := (List.getElem?_eq_some_iff.mp hw).2
    rw [List.drop_eq_getElem_cons hlt, hc] at hd
    obtain ⟨u1, v1, h1, h2, huv⟩ := hd.append_inv
    cases u1 with
    | nil =>
      rw [List.nil_append] at huv
      subst huv
      exact Or.inr ⟨(firstOfStr_snd_iff _).mpr h1, hcov _ _ h2⟩
    | cons b u1' =>
      rw [List.cons_append] at huv
      injection huv with hb _
      subst hb
      exact Or.inl (first_closed_aux hsr h1 c u1' rfl)

/-! ## completeness of the level-1 sets -/

/-- Completeness at level 1: as `completeness_aux`, for an item whose remaining right-hand
side followed by a right context `γ` (covered by FOLLOW of the left-hand side) derives the
whole rest of the input. -/
theorem completeness_la1_aux {g : Grammar} (hsr : g.symsInRange = true) {w : List Nat}
    {β : List Sym} {u : List Nat} (hd : Der g β u) :
    ∀ (r d i k : Nat) (rest γ : List Sym) (rl : Rule),
      EarleyF g (laFilter g g.analysis 1 w) w k ⟨r, d, i⟩ →
      g.rules[r]? = some rl → rl.rhs.drop d = β ++ rest → slice w k (k + u.length) = u →
      Der g (rest ++ γ) (w.drop (k + u.length)) → FollowCovers g rl.lhs γ →
      EarleyF g (laFilter g g.analysis 1 w) w (k + u.length) ⟨r, d + β.length, i⟩ ∧
      ∀ m, k ≤ m → m < k + u.length → HasTransF g (laFilter g g.analysis 1 w) w m := by
  induction hd with
  | nil =>
    intro r d i k rest γ rl h _ _ _ _ _
    exact ⟨by simpa using h, fun m h1 h2 => absurd h2 (by simp only [List.length_nil]; omega)⟩
  | @term a ss w1 hss ih =>
    intro r d i k rest γ rl h hr hrest hs hrem hcov
    obtain ⟨hsym, hdrop⟩ := drop_succ_of_drop_cons (by simpa using hrest)
    obtain ⟨hw, hs', _⟩ := slice_cons hs
    have hns : g.nextSym r d = some (Sym.t a) := nextSym_eq_some.mpr ⟨rl, hr, hsym⟩
    have e1 : k + 1 + w1.length = k + (a :: w1).length := by simp only [List.length_cons]; omega
    have e2 : d + 1 + ss.length = d + (Sym.t a :: ss).length := by
      simp only [List.length_cons]; omega
    rw [← e1] at hs' hrem
    have hD : Der g (rl.rhs.drop (d + 1) ++ γ) (w.drop (k + 1)) := by
      rw [hdrop, List.append_assoc, drop_eq_of_slice hs']
      exact Der.append hss hrem
    have h1 := EarleyF.scan h hns hw (laFilter_one_of_der hsr hr hD hcov)
    obtain ⟨hE, hT⟩ := ih r (d+1) i (k+1) rest γ rl h1 hr hdrop hs' hrem hcov
    rw [e1, e2] at hE
    refine ⟨hE, ?_⟩
    intro m hm1 hm2
    rcases Nat.eq_or_lt_of_le hm1 with heq | hlt
    · subst heq; exact ⟨r, d, i, a, h, hw, hns⟩
    · exact hT m hlt (by rw [e1]; exact hm2)
  | @nt r' rl' ss u' v' hr' _ hss ih1 ih2 =>
    intro r d i k rest γ rl h hr hrest hs hrem hcov
    obtain ⟨hsym, hdrop⟩ := drop_succ_of_drop_cons (by simpa using hrest)
    have hns : g.nextSym r d = some (Sym.n rl'.lhs) := nextSym_eq_some.mpr ⟨rl, hr, hsym⟩
    have hlen : k + (u' ++ v').length = (k + u'.length) + v'.length := by
      simp only [List.length_append]; omega
    rw [hlen] at hs hrem
    obtain ⟨hs1, hs2⟩ := slice_split hs
    have hD : Der g (rl.rhs.drop (d + 1) ++ γ) (w.drop (k + u'.length)) := by
      rw [hdrop, List.append_assoc, drop_eq_of_slice hs2]
      exact Der.append hss hrem
    have hp := EarleyF.predict h hns hr' rfl
    obtain ⟨hc, hT1⟩ := ih1 r' 0 k k [] (rl.rhs.drop (d + 1) ++ γ) rl' hp hr' (by simp) hs1
      (by rw [List.nil_append]; exact hD) (FollowCovers.predict hsr hr hsym hcov)
    rw [Nat.zero_add] at hc
    have hcomp := EarleyF.complete hr' hc h hns
      (fun _ => laFilter_one_of_der hsr hr hD hcov)
    obtain ⟨hE, hT2⟩ := ih2 r (d+1) i (k + u'.length) rest γ rl hcomp hr hdrop hs2 hrem hcov
    have e2 : d + 1 + ss.length = d + (Sym.n rl'.lhs :: ss).length := by
      simp only [List.length_cons]; omega
    rw [← hlen, e2] at hE
    refine ⟨hE, ?_⟩
    intro m hm1 hm2
    rcases Nat.lt_or_ge m (k + u'.length) with hlt | hge
    · exact hT1 m hm1 hlt
    · exact hT2 m hge (by rw [← hlen]; exact hm2)

/-- if `start $eof` derives the token string `x`, the level-1 sets have a transition at
every position of `x`, and the last set contains `$S : start $eof .` -/
theorem la1_of_der_axiom {g : Grammar} (hwf : g.WF) (hsr : g.symsInRange = true) {x : List Nat}
    (hd : Der g [Sym.n g.startN, Sym.t g.eofT] x) :
    EarleyF g (laFilter g g.analysis 1 x) x x.length ⟨0, 2, 0⟩ ∧
    ∀ m, m < x.length → HasTransF g (laFilter g g.analysis 1 x) x m := by
  obtain ⟨r0, hr0, hl0, hrhs⟩ := hwf.rule0
  have h0 : EarleyF g (laFilter g g.analysis 1 x) x 0 ⟨0, 0, 0⟩ := EarleyF.init hr0 hl0
  have := completeness_la1_aux hsr hd 0 0 0 0 [] [] r0 h0 hr0 (by rw [hrhs]; rfl)
    (by rw [Nat.zero_add]; exact slice_zero_length x)
    (by rw [Nat.zero_add, List.drop_length]; exact Der.nil) (FollowCovers.nil g _)
  rw [Nat.zero_add] at this
  exact ⟨by simpa using this.1, fun m hm => this.2 m (Nat.zero_le _) hm⟩

/-! ## monotonicity and locality of the declarative sets -/

/-- set `j` depends only on the first `j` tokens and on the filters of the sets `≤ j`; a
weaker filter gives bigger sets -/
theorem EarleyF.congr_mono {g : Grammar} {ok1 ok2 : Nat → Nat → Nat → Bool} {w1 w2 : List Nat}
    {j : Nat} {it : Item} (h : EarleyF g ok1 w1 j it) :
    (∀ m, m < j → w1[m]? = w2[m]?) →
    (∀ m r d, m ≤ j → ok1 m r d = true → ok2 m r d = true) → EarleyF g ok2 w2 j it := by
  induction h with
  | init hr hl => intro _ _; exact EarleyF.init hr hl
  | @scan j r d i a _ hs hw hk ih =>
    intro hp hok
    refine EarleyF.scan (ih (fun m hm => hp m (Nat.lt_succ_of_lt hm))
      (fun m r d hm => hok m r d (Nat.le_succ_of_le hm))) hs ?_ (hok _ _ _ (Nat.le_refl _) hk)
    rw [← hp j (Nat.lt_succ_self _)]; exact hw
  | predict _ hs hr hl ih => intro hp hok; exact EarleyF.predict (ih hp hok) hs hr hl
  | @complete j k r d i r' rl' hr' h1 _ hs hf ih1 ih2 =>
    intro hp hok
    obtain ⟨_, _, _, hle, _⟩ := h1.sound
    simp only at hle
    exact EarleyF.complete hr' (ih1 hp hok)
      (ih2 (fun m hm => hp m (Nat.lt_of_lt_of_le hm hle))
        (fun m r d hm => hok m r d (Nat.le_trans hm hle))) hs
      (fun hlt => hok _ _ _ (Nat.le_refl _) (hf hlt))

theorem HasTransF.congr_mono {g : Grammar} {ok1 ok2 : Nat → Nat → Nat → Bool} {w1 w2 : List Nat}
    {k : Nat} (h : HasTransF g ok1 w1 k) (hp : ∀ m, m ≤ k → w1[m]? = w2[m]?)
    (hok : ∀ m r d, m ≤ k → ok1 m r d = true → ok2 m r d = true) : HasTransF g ok2 w2 k := by
  obtain ⟨r, d, i, a, h1, h2, h3⟩ := h
  exact ⟨r, d, i, a, h1.congr_mono (fun m hm => hp m (Nat.le_of_lt hm)) hok,
    by rw [← hp k (Nat.le_refl _)]; exact h2, h3⟩

theorem HasTransF.lt_length {g : Grammar} {ok : Nat → Nat → Nat → Bool} {w : List Nat} {k : Nat}
    (h : HasTransF g ok w k) : k < w.length := by
  obtain ⟨_, _, _, _, _, h2, _⟩ := h
  exact (List.getElem?_eq_some_iff.mp h2).1

theorem getElem?_take_append {w v : List Nat} {k m : Nat} (hk : k < w.length) (hm : m ≤ k) :
    (w.take (k + 1) ++ v)[m]? = w[m]? := by
  rw [List.getElem?_append_left (by rw [List.length_take]; omega),
    List.getElem?_take_of_lt (by omega)]

/-- the level-`la` filter of set `m` only looks at token `m` -/
theorem laFilter_congr {g : Grammar} {an : Analysis} {la : Nat} {w1 w2 : List Nat} {m r d : Nat}
    (h : w1[m]? = w2[m]?) : laFilter g an la w1 m r d = laFilter g an la w2 m r d := by
  unfold laFilter; rw [h]

/-! ## the valid-prefix property (needs every nonterminal to be productive) -/

theorem exists_der_drop {g : Grammar} (hsr : g.symsInRange = true)
    (hprod : ∀ A, A < g.nN → A ∈ g.productive) {rl : Rule} (hrl : rl ∈ g.rules) (d : Nat) :
    ∃ t, Der g (rl.rhs.drop d) t := by
  apply Der.exists_of_forall
  intro s hs
  have hin := symsInRange_rhs hsr hrl s (List.mem_of_mem_drop hs)
  cases s with
  | t a => exact ⟨[a], Der.term Der.nil⟩
  | n A =>
    have hA : A < g.nN := by simpa [Sym.inRange] using hin
    exact productive_sound g A (hprod A hA)

theorem take_append_slice (w : List Nat) {k j : Nat} (h : k ≤ j) :
    w.take k ++ slice w k j = w.take j := by
  unfold slice
  have e : j = k + (j - k) := by omega
  conv => rhs; rw [e, List.take_add]

/-- the item can be completed to a derivation from a rule of `$S` of a string that extends
the tokens read so far -/
def ViableItem (g : Grammar) (w : List Nat) (k : Nat) (it : Item) : Prop :=
  ∃ (rl : Rule) (r0 : Nat) (rl0 : Rule) (v : List Nat), g.rules[it.rule]? = some rl ∧
    g.rules[r0]? = some rl0 ∧ rl0.lhs = g.axiomN ∧
    ∀ u, Der g (rl.rhs.drop it.dot) u → Der g rl0.rhs (w.take k ++ u ++ v)

theorem EarleyF.viable {g : Grammar} (hsr : g.symsInRange = true)
    (hprod : ∀ A, A < g.nN → A ∈ g.productive) {ok : Nat → Nat → Nat → Bool} {w : List Nat}
    {j : Nat} {it : Item} (h : EarleyF g ok w j it) : ViableItem g w j it := by
  induction h with
  | @init r rl hr hl =>
    exact ⟨rl, r, rl, [], hr, hr, hl, fun u hu => by simpa using hu⟩
  | @scan j r d i a _ hs hw _ ih =>
    obtain ⟨rl, r0, rl0, v, hr, hr0, hl0, hctx⟩ := ih
    simp only at hr hctx
    obtain ⟨rl', hr', hs'⟩ := nextSym_eq_some.mp hs
    rw [hr] at hr'; injection hr' with hr'; subst hr'
    refine ⟨rl, r0, rl0, v, hr, hr0, hl0, ?_⟩
    intro u hu
    simp only at hu
    obtain ⟨hlt, he⟩ := List.getElem?_eq_some_iff.mp hs'
    have hD : Der g (rl.rhs.drop d) (a :: u) := by
      rw [List.drop_eq_getElem_cons hlt, he]; exact Der.term hu
    have := hctx _ hD
    rw [take_succ_of_getElem? _ hw]
    simpa [List.append_assoc] using this
  | @predict j r d i B r' rl' _ hs hr' hl ih =>
    obtain ⟨rl, r0, rl0, v, hr, hr0, hl0, hctx⟩ := ih
    simp only at hr hctx
    obtain ⟨rl1, hr1, hs'⟩ := nextSym_eq_some.mp hs
    rw [hr] at hr1; injection hr1 with hr1; subst hr1
    obtain ⟨t, ht⟩ := exists_der_drop hsr hprod (List.mem_of_getElem? hr) (d + 1)
    refine ⟨rl', r0, rl0, t ++ v, hr', hr0, hl0, ?_⟩
    intro u hu
    simp only [List.drop_zero] at hu
    obtain ⟨hlt, he⟩ := List.getElem?_eq_some_iff.mp hs'
    have hD : Der g (rl.rhs.drop d) (u ++ t) := by
      rw [List.drop_eq_getElem_cons hlt, he, ← hl]; exact Der.nt hr' hu ht
    have := hctx _ hD
    simpa [List.append_assoc] using this
  | @complete j k r d i r' rl' hr' h1 _ hs _ _ ih2 =>
    obtain ⟨rl, r0, rl0, v, hr, hr0, hl0, hctx⟩ := ih2
    simp only at hr hctx
    obtain ⟨rl1, hr1, hs'⟩ := nextSym_eq_some.mp hs
    rw [hr] at hr1; injection hr1 with hr1; subst hr1
    obtain ⟨rl2, hr2, _, hle, hder⟩ := h1.sound
    simp only at hr2 hle hder
    rw [hr'] at hr2; injection hr2 with hr2; subst hr2
    rw [List.take_length] at hder
    refine ⟨rl, r0, rl0, v, hr, hr0, hl0, ?_⟩
    intro u hu
    simp only at hu
    obtain ⟨hlt, he⟩ := List.getElem?_eq_some_iff.mp hs'
    have hD : Der g (rl.rhs.drop d) (slice w k j ++ u) := by
      rw [List.drop_eq_getElem_cons hlt, he]; exact Der.nt hr' hder hu
    have := hctx _ hD
    rw [← take_append_slice w hle]
    simpa [List.append_assoc] using this

theorem der_err_rule {g : Grammar} {a b : Nat} {x : List Nat} (h : Der g [Sym.t a, Sym.t b] x) :
    x = [a, b] := by
  obtain ⟨v, hv, rfl⟩ := h.cons_t_inv
  obtain ⟨v', hv', rfl⟩ := hv.cons_t_inv
  rw [hv'.nil_inv]

/-- valid-prefix property: a transition at position `k` means that the tokens up to and
including token `k` start some sentence followed by the end marker -/
theorem HasTransF.viable {g : Grammar} (hwf : g.WF) (hsr : g.symsInRange = true)
    (hprod : ∀ A, A < g.nN → A ∈ g.productive) {ok : Nat → Nat → Nat → Bool} {w : List Nat}
    (herr0 : w[0]? ≠ some g.errT) {k : Nat} (h : HasTransF g ok w k) :
    ∃ v, Der g [Sym.n g.startN, Sym.t g.eofT] (w.take (k + 1) ++ v) := by
  obtain ⟨r, d, i, a, hE, hw, hns⟩ := h
  obtain ⟨rl, r0, rl0, v, hr, hr0, hl0, hctx⟩ := hE.viable hsr hprod
  simp only at hr hctx
  obtain ⟨rl1, hr1, hs'⟩ := nextSym_eq_some.mp hns
  rw [hr] at hr1; injection hr1 with hr1; subst hr1
  obtain ⟨t, ht⟩ := exists_der_drop hsr hprod (List.mem_of_getElem? hr) (d + 1)
  obtain ⟨hlt, he⟩ := List.getElem?_eq_some_iff.mp hs'
  have hD : Der g (rl.rhs.drop d) (a :: t) := by
    rw [List.drop_eq_getElem_cons hlt, he]; exact Der.term ht
  have hall := hctx _ hD
  have hx : w.take k ++ a :: t ++ v = w.take (k + 1) ++ (t ++ v) := by
    rw [take_succ_of_getElem? _ hw]; simp [List.append_assoc]
  rw [hx] at hall
  obtain ⟨hr0lt, hrl0⟩ := List.getElem?_eq_some_iff.mp hr0
  have hcases := hwf.2.1 r0 hr0lt (by rw [hrl0]; exact hl0)
  rw [hrl0] at hcases
  rcases hcases with h0 | herrR
  · subst h0
    obtain ⟨r0', hr0', _, hrhs⟩ := hwf.rule0
    rw [hr0] at hr0'; injection hr0' with hr0'; subst hr0'
    rw [hrhs] at hall
    exact ⟨t ++ v, hall⟩
  · rw [herrR] at hall
    have hxe := der_err_rule hall
    have hk : k < w.length := (List.getElem?_eq_some_iff.mp hw).1
    have h0 := getElem?_take_append (v := t ++ v) hk (Nat.zero_le k)
    rw [hxe] at h0
    exact absurd h0.symm (by simpa using herr0)

theorem getElem?_zero_ne_err {g : Grammar} (hwf : g.WF) {w : List Nat}
    (htok : ∀ a ∈ w, a ≠ g.eofT ∧ a ≠ g.errT) : (w ++ [g.eofT])[0]? ≠ some g.errT := by
  cases w with
  | nil =>
    simp only [List.nil_append, List.getElem?_cons_zero, ne_eq, Option.some.injEq]
    exact fun h => hwf.2.2.2.2.1 h.symm
  | cons b w' =>
    simp only [List.cons_append, List.getElem?_cons_zero, ne_eq, Option.some.injEq]
    exact (htok b List.mem_cons_self).2

/-- conversely (no productivity needed): if the tokens up to and including token `k` can be
continued, the unfiltered sets and the level-1 sets have a transition at position `k` -/
theorem hasTransF_of_viable {g : Grammar} (hwf : g.WF) (hsr : g.symsInRange = true) (la : Nat)
    (hla : la ≤ 1) {w : List Nat} {k : Nat} (hk : k < w.length) {v : List Nat}
    (hd : Der g [Sym.n g.startN, Sym.t g.eofT] (w.take (k + 1) ++ v)) :
    HasTransF g (laFilter g g.analysis la w) w k := by
  have hlen : k < (w.take (k + 1) ++ v).length := by
    rw [List.length_append, List.length_take]; omega
  have hpre : ∀ m, m ≤ k → (w.take (k + 1) ++ v)[m]? = w[m]? :=
    fun m hm => getElem?_take_append hk hm
  have hT : HasTransF g (laFilter g g.analysis la (w.take (k + 1) ++ v)) (w.take (k + 1) ++ v) k := by
    rcases Nat.le_one_iff_eq_zero_or_eq_one.mp hla with h0 | h1
    · subst h0; exact trans_of_der_axiom hwf (laFilter_zero _ _ _) hd k hlen
    · subst h1; exact (la1_of_der_axiom hwf hsr hd).2 k hlen
  exact hT.congr_mono hpre (fun m r d hm h => by rw [← laFilter_congr (hpre m hm)]; exact h)

/-- with productive nonterminals, "set `k` has a transition on token `k`" means the same at
levels 0 and 1: the prefix up to token `k` is viable -/
theorem hasTransF_iff_viable {g : Grammar} (hwf : g.WF) (hsr : g.symsInRange = true)
    (hprod : ∀ A, A < g.nN → A ∈ g.productive) (la : Nat) (hla : la ≤ 1) {w : List Nat}
    (herr0 : w[0]? ≠ some g.errT) (k : Nat) :
    HasTransF g (laFilter g g.analysis la w) w k ↔
      k < w.length ∧ ∃ v, Der g [Sym.n g.startN, Sym.t g.eofT] (w.take (k + 1) ++ v) :=
  ⟨fun h => ⟨h.lt_length, h.viable hwf hsr hprod herr0⟩,
   fun ⟨hk, _, hd⟩ => hasTransF_of_viable hwf hsr la hla hk hd⟩

end Yaep
