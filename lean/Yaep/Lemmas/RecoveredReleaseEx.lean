import Yaep.Lemmas.RecoveredRelease
import Yaep.Props.NoGarbage
import Yaep.Props.RecoveredCost
/-!
# C13 after an error recovery: the data of the non-vacuity examples

Two grammars in which the cost flag makes `find_minimal_translation` discard the only alternative
that contains the ERROR node, their recovering parses and the tree memory `make_parse` builds on
the final lists (evaluated, `rfl` / `decide`).  The statements about them are in
`Props/RecoveredRelease.lean`.
-/
namespace Yaep.RNG
open Yaep Yaep.MP

/-- what `.ok res` says about the flags and the size of the final machine state -/
theorem ex_state {g : Grammar} {S : Array (Array Item)} {P : Array Int} {one : Bool} {fuel : Nat}
    {res : MP.Result} {s : MP.St} (hm : MP.makeParse g S P one fuel = .ok res)
    (hs : MP.makeParseSt (MP.mkCtx g S P one) fuel = some s) :
    s.bad = false ∧ s.nilUsed = res.nilUsed ∧ s.errUsed = res.errUsed ∧ s.heap.size = res.heapSize ∧
      ∃ r, s.result = some r ∧ MP.exportTable s.heap r = some (res.tab, res.root) := by
  obtain ⟨s', r', h1, h2, h3, h4⟩ := makeParse_ok_state hm
  rw [hs] at h1; injection h1 with h1; subst h1
  obtain ⟨_, f2, f3, f4⟩ := ng_makeParse_ok_fields hm hs
  exact ⟨h2, f2.symm, f3.symm, f4.symm, r', h3, h4⟩

/-- from the evaluated list of cells to the heap -/
theorem ex_heap {g : Grammar} {S : Array (Array Item)} {P : Array Int} {one : Bool} {fuel : Nat}
    {H : Array PC.Cell} {r0 : Nat}
    (h : (MP.makeParseSt (MP.mkCtx g S P one) fuel).map
      (fun s => (s.heap.toList.map PC.ofMNode, s.result)) = some (H.toList, some r0)) :
    ∃ s, MP.makeParseSt (MP.mkCtx g S P one) fuel = some s ∧ PC.ofHeap s.heap = H ∧
      s.result = some r0 ∧ s.heap.size = H.size := by
  cases hs : MP.makeParseSt (MP.mkCtx g S P one) fuel with
  | none => rw [hs] at h; cases h
  | some s =>
    rw [hs] at h
    simp only [Option.map_some, Option.some.injEq, Prod.mk.injEq] at h
    have e : PC.ofHeap s.heap = H := by
      apply Array.toList_inj.1
      rw [← h.1]
      simp [PC.ofHeap]
    refine ⟨s, rfl, e, h.2, ?_⟩
    rw [← e, MP.size_ofHeap]

/-! ## `S : A # 0 | B # 0 ; A : error 'x' # a 3 (0 1) ; B : error 'x' # b 1 (1)` on `y x` -/
namespace PruneEx

/-- the description as the callbacks deliver it (`y` is a terminal no rule uses) -/
def raw : RawGrammar :=
  ⟨[("x", 120), ("y", 121)],
   [⟨"S", ["A"], none, 0, some [0]⟩,
    ⟨"S", ["B"], none, 0, some [0]⟩,
    ⟨"A", ["error", "x"], some "a", 3, some [0, 1]⟩,
    ⟨"B", ["error", "x"], some "b", 1, some [1]⟩], false⟩

/-- terminals: `x` 0, `y` 1, `error` 2, `$eof` 3; nonterminals: `S` 0, `$S` 1, `A` 2, `B` 3 -/
def g : Grammar :=
  { rules := [
      { lhs := 1, rhs := [.n 0, .t 3], transLen := 1, order := [some 0, none] },
      { lhs := 0, rhs := [.n 2], transLen := 1, order := [some 0] },
      { lhs := 0, rhs := [.n 3], transLen := 1, order := [some 0] },
      { lhs := 2, rhs := [.t 2, .t 0], anode := some "a", cost := 3, transLen := 2,
        order := [some 0, some 1] },
      { lhs := 3, rhs := [.t 2, .t 0], anode := some "b", cost := 1, transLen := 1,
        order := [none, some 0] },
      { lhs := 1, rhs := [.t 2, .t 3], order := [none, none] } ],
    termNames := ["x", "y", "error", "$eof"], termCodes := [120, 121, -2, -1],
    ntNames := ["S", "$S", "A", "B"], errT := 2, eofT := 3, axiomN := 1, startN := 0 }

theorem raw_ok : readGrammar raw = .ok g := by rfl

/-- the input `y x`: `y` is a syntax error at token 0; `error` is shifted, `y` ignored, `x`
(token 1) kept: the repaired input is `error x $eof` -/
theorem run : (parseWithRecovery g 1 1 [1, 0] 100).ok = true ∧
    (parseWithRecovery g 1 1 [1, 0] 100).calls = [(0, 0, 1)] ∧
    RP.word (parseWithRecovery g 1 1 [1, 0] 100).pl = [2, 0, 3] ∧
    RP.tokNums (parseWithRecovery g 1 1 [1, 0] 100).pl = #[-1, -1, 1, 2] := by decide

theorem acyclic : ¬ Cyclic g := fun hc => loopSet_ne_nil_of_cyclic g hc (by decide)

/-- the all-parses run of `make_parse` on the final list: the forest `a(err x@1) | b(x@1)` -/
theorem mp_all : MP.makeParse g (RP.sets (parseWithRecovery g 1 1 [1, 0] 100).pl)
    (RP.tokNums (parseWithRecovery g 1 1 [1, 0] 100).pl) false 100 =
    .ok { amb := true,
          tab := #[.err, .term 120 1, .anode "a" 3 [0, 1], .anode "b" 1 [1], .alt [2, 3]], root := 4,
          reuse := 0, origins := 0, nilUsed := false, errUsed := true, heapSize := 8,
          allocs := [.node, .node, .anode 2, .name 1, .node, .anode 3, .name 1, .node, .node] } := by
  rfl

/-- the one-parse run returns the first alternative, `a(err x@1)` -/
theorem mp_one : MP.makeParse g (RP.sets (parseWithRecovery g 1 1 [1, 0] 100).pl)
    (RP.tokNums (parseWithRecovery g 1 1 [1, 0] 100).pl) true 100 =
    .ok { amb := true, tab := #[.err, .term 120 1, .anode "a" 3 [0, 1]], root := 2,
          reuse := 0, origins := 0, nilUsed := false, errUsed := true, heapSize := 5,
          allocs := [.node, .node, .anode 3, .name 1, .node] } := by
  rfl

/-- the tree memory the all-parses run leaves behind: cell 1 is the ERROR node, referred to by the
abstract node `a` (cell 5) only -/
def H : Array PC.Cell := #[
  .nil, .err, .anode "$result" 0 #[some 6],
  .anode "b" 1 #[some 4, none], .term 120 1,
  .anode "a" 3 #[some 1, some 4, none], .alt 5 (some 7), .alt 3 none]

theorem H_is_make_parse :
    ∃ s, MP.makeParseSt (MP.mkCtx g (RP.sets (parseWithRecovery g 1 1 [1, 0] 100).pl)
      (RP.tokNums (parseWithRecovery g 1 1 [1, 0] 100).pl) false) 100 = some s ∧
      PC.ofHeap s.heap = H ∧ s.result = some 6 ∧ s.heap.size = H.size :=
  ex_heap (by rfl)

/-- what `find_minimal_translation` does (all minimal parses, with `parse_free`; the ERROR node is
used before): it keeps `b(x@1)` (cost 1), frees the two ALT cells and the abstract node `a` with its
name block, clears the `used` flag of the ERROR node (cell 1) — and does not free it -/
theorem fmt :
    (PC.findMinimalTranslation 8 H 6 false true id false true).root = 3 ∧
    (PC.findMinimalTranslation 8 H 6 false true id false true).frees =
      [.cell 6, .name 5, .cell 5, .cell 7] ∧
    (PC.findMinimalTranslation 8 H 6 false true id false true).cleared = [1] ∧
    (PC.findMinimalTranslation 8 H 6 false true id false true).errUsed = false ∧
    (PC.findMinimalTranslation 8 H 6 false true id false true).nilUsed = false ∧
    MP.exportTable (PC.toHeap (PC.findMinimalTranslation 8 H 6 false true id false true).heap)
      (PC.findMinimalTranslation 8 H 6 false true id false true).root =
      some (#[.term 120 1, .anode "b" 1 [0]], 1) := by
  refine ⟨by rfl, by rfl, by rfl, by rfl, by rfl, ?_⟩
  have hh : (PC.findMinimalTranslation 8 H 6 false true id false true).heap = #[
      .nil, .err, .anode "$result" 0 #[some 6],
      .anode "b" 1 #[some 4, none], .term 120 1,
      .anode "a" (-4) #[some 1, some 4, none], .alt 5 none, .alt 3 none] := by decide
  have hM : PC.toHeap (PC.findMinimalTranslation 8 H 6 false true id false true).heap = #[
      .nil, .err, .anode "$result" 0 #[some 6],
      .anode "b" 1 #[some 4, none], .term 120 1,
      .anode "a" 0 #[some 1, some 4, none], .alt 5 none, .alt 3 none] := by
    apply Array.toList_inj.1
    rw [hh]
    simp [PC.toHeap, PC.toMNode]
  rw [hM, show (PC.findMinimalTranslation 8 H 6 false true id false true).root = 3 by rfl]
  rfl

end PruneEx

/-! ## `S : 'a' ';' # stmt 1 (0) | error ';' # bad 5 (0 1) | error ';' # skip 1 (1)` -/
namespace PruneEx2

/-- the description as the callbacks deliver it (`e` is a terminal no rule uses) -/
def raw : RawGrammar :=
  ⟨[("a", 97), (";", 59), ("e", 101)],
   [⟨"S", ["a", ";"], some "stmt", 1, some [0]⟩,
    ⟨"S", ["error", ";"], some "bad", 5, some [0, 1]⟩,
    ⟨"S", ["error", ";"], some "skip", 1, some [1]⟩], false⟩

/-- terminals: `a` 0, `;` 1, `e` 2, `error` 3, `$eof` 4; nonterminals: `S` 0, `$S` 1 -/
def g : Grammar :=
  { rules := [
      { lhs := 1, rhs := [.n 0, .t 4], transLen := 1, order := [some 0, none] },
      { lhs := 0, rhs := [.t 0, .t 1], anode := some "stmt", cost := 1, transLen := 1,
        order := [some 0, none] },
      { lhs := 0, rhs := [.t 3, .t 1], anode := some "bad", cost := 5, transLen := 2,
        order := [some 0, some 1] },
      { lhs := 0, rhs := [.t 3, .t 1], anode := some "skip", cost := 1, transLen := 1,
        order := [none, some 0] },
      { lhs := 1, rhs := [.t 3, .t 4], order := [none, none] } ],
    termNames := ["a", ";", "e", "error", "$eof"], termCodes := [97, 59, 101, -2, -1],
    ntNames := ["S", "$S"], errT := 3, eofT := 4, axiomN := 1, startN := 0 }

theorem raw_ok : readGrammar raw = .ok g := by rfl

theorem acyclic : ¬ Cyclic g := fun hc => loopSet_ne_nil_of_cyclic g hc (by decide)

/-- the input `e ;`: the repaired input is `error ; $eof` -/
theorem run : (parseWithRecovery g 1 1 [2, 1] 100).ok = true ∧
    (parseWithRecovery g 1 1 [2, 1] 100).calls = [(0, 0, 1)] ∧
    RP.word (parseWithRecovery g 1 1 [2, 1] 100).pl = [3, 1, 4] ∧
    RP.tokNums (parseWithRecovery g 1 1 [2, 1] 100).pl = #[-1, -1, 1, 2] := by decide

/-- the input `e ; e`: two recoveries, the second one ends in the total loss: the repaired input
is `error $eof` -/
theorem run_total : (parseWithRecovery g 1 1 [2, 1, 2] 100).ok = true ∧
    (parseWithRecovery g 1 1 [2, 1, 2] 100).calls = [(0, 0, 1), (2, 1, 3)] ∧
    RP.word (parseWithRecovery g 1 1 [2, 1, 2] 100).pl = [3, 4] ∧
    RP.tokNums (parseWithRecovery g 1 1 [2, 1, 2] 100).pl = #[-1, -1, 3] := by decide

/-- `e ;`, all parses: the forest `skip(;@1) | bad(err ;@1)` -/
theorem mp_all : MP.makeParse g (RP.sets (parseWithRecovery g 1 1 [2, 1] 100).pl)
    (RP.tokNums (parseWithRecovery g 1 1 [2, 1] 100).pl) false 100 =
    .ok { amb := true,
          tab := #[.term 59 1, .anode "skip" 1 [0], .err, .anode "bad" 5 [2, 0], .alt [1, 3]],
          root := 4, reuse := 0, origins := 0, nilUsed := false, errUsed := true, heapSize := 8,
          allocs := [.node, .node, .anode 3, .name 3, .anode 2, .name 4, .node, .node, .node] } := by
  rfl

/-- `e ; e`, all parses: the tree is the NIL node; the ERROR node is not used -/
theorem mp_total : MP.makeParse g (RP.sets (parseWithRecovery g 1 1 [2, 1, 2] 100).pl)
    (RP.tokNums (parseWithRecovery g 1 1 [2, 1, 2] 100).pl) false 100 =
    .ok { amb := false, tab := #[.nil], root := 0, reuse := 0, origins := 0, nilUsed := true,
          errUsed := false, heapSize := 3, allocs := [.node, .node] } := by
  rfl

/-- the tree memory of the all-parses run on `e ;` -/
def H : Array PC.Cell := #[
  .nil, .err, .anode "$result" 0 #[some 5],
  .anode "bad" 5 #[some 1, some 7, none], .anode "skip" 1 #[some 7, none],
  .alt 4 (some 6), .alt 3 none, .term 59 1]

theorem H_is_make_parse :
    ∃ s, MP.makeParseSt (MP.mkCtx g (RP.sets (parseWithRecovery g 1 1 [2, 1] 100).pl)
      (RP.tokNums (parseWithRecovery g 1 1 [2, 1] 100).pl) false) 100 = some s ∧
      PC.ofHeap s.heap = H ∧ s.result = some 5 ∧ s.heap.size = H.size :=
  ex_heap (by rfl)

/-- `find_minimal_translation` keeps `skip(;@1)`, frees the ALT cells and `bad` with its name
block, clears the flag of the ERROR node and does not free it -/
theorem fmt :
    (PC.findMinimalTranslation 8 H 5 false true id false true).root = 4 ∧
    (PC.findMinimalTranslation 8 H 5 false true id false true).frees =
      [.cell 5, .cell 6, .name 3, .cell 3] ∧
    (PC.findMinimalTranslation 8 H 5 false true id false true).cleared = [1] ∧
    (PC.findMinimalTranslation 8 H 5 false true id false true).errUsed = false ∧
    (PC.findMinimalTranslation 8 H 5 false true id false true).nilUsed = false ∧
    MP.exportTable (PC.toHeap (PC.findMinimalTranslation 8 H 5 false true id false true).heap)
      (PC.findMinimalTranslation 8 H 5 false true id false true).root =
      some (#[.term 59 1, .anode "skip" 1 [0]], 1) := by
  refine ⟨by rfl, by rfl, by rfl, by rfl, by rfl, ?_⟩
  have hh : (PC.findMinimalTranslation 8 H 5 false true id false true).heap = #[
      .nil, .err, .anode "$result" 0 #[some 5],
      .anode "bad" (-6) #[some 1, some 7, none], .anode "skip" 1 #[some 7, none],
      .alt 4 none, .alt 3 none, .term 59 1] := by decide
  have hM : PC.toHeap (PC.findMinimalTranslation 8 H 5 false true id false true).heap = #[
      .nil, .err, .anode "$result" 0 #[some 5],
      .anode "bad" 0 #[some 1, some 7, none], .anode "skip" 1 #[some 7, none],
      .alt 4 none, .alt 3 none, .term 59 1] := by
    apply Array.toList_inj.1
    rw [hh]
    simp [PC.toHeap, PC.toMNode]
  rw [hM, show (PC.findMinimalTranslation 8 H 5 false true id false true).root = 4 by rfl]
  rfl

end PruneEx2

end Yaep.RNG
