import Yaep.Lemmas.Earley
import Yaep.Props.C02
/-!
# Soundness of the model of `make_parse`, part 2: what the Earley sets give to `make_parse`

Inversion of the declarative Earley relation `EarleyF` (an item with a terminal / nonterminal
before the dot comes from a scan / a completion), and the derivation (`PT`) behind a `Der`.
-/
namespace Yaep

theorem EarleyF.le_length {g : Grammar} {ok : Nat → Nat → Nat → Bool} {w : List Nat} {j : Nat}
    {it : Item} (h : EarleyF g ok w j it) : j ≤ w.length := by
  induction h with
  | init _ _ => exact Nat.zero_le _
  | scan _ _ hw _ _ => exact (List.getElem?_eq_some_iff.mp hw).1
  | predict _ _ _ _ ih => exact ih
  | complete _ _ _ _ _ ih _ => exact ih

theorem EarleyF.dot_zero {g : Grammar} {ok : Nat → Nat → Nat → Bool} {w : List Nat} {j r o : Nat}
    (h : EarleyF g ok w j ⟨r, 0, o⟩) : o = j := by
  generalize hit : (⟨r, 0, o⟩ : Item) = it at h
  cases h with
  | init _ _ => exact (Item.mk.inj hit).2.2
  | scan _ _ _ _ => simp at hit
  | predict _ _ _ _ => exact (Item.mk.inj hit).2.2
  | complete _ _ _ _ _ => simp at hit

/-- an item with a terminal before the dot comes from a scan -/
theorem EarleyF.term_inv {g : Grammar} {ok : Nat → Nat → Nat → Bool} {w : List Nat} {j r p o a : Nat}
    {rl : Rule} (h : EarleyF g ok w j ⟨r, p + 1, o⟩) (hr : g.rules[r]? = some rl)
    (ha : rl.rhs[p]? = some (.t a)) :
    ∃ j0, j = j0 + 1 ∧ w[j0]? = some a ∧ EarleyF g ok w j0 ⟨r, p, o⟩ := by
  generalize hit : (⟨r, p + 1, o⟩ : Item) = it at h
  cases h with
  | init _ _ => injection hit with _ h2 _; exact absurd h2 (by omega)
  | @scan j0 r' d i a' h1 hs hw _ =>
    injection hit with e1 e2 e3
    have e2' : p = d := by omega
    subst e1; subst e2'; subst e3
    obtain ⟨rl', hr', hs'⟩ := nextSym_eq_some.mp hs
    rw [hr] at hr'; injection hr' with hr'; subst hr'
    rw [ha] at hs'; injection hs' with hs'; injection hs' with hs'; subst hs'
    exact ⟨j0, rfl, hw, h1⟩
  | predict _ _ _ _ => injection hit with _ h2 _; exact absurd h2 (by omega)
  | @complete j k r' d i r'' rl'' _ _ _ hs _ =>
    injection hit with e1 e2 e3
    have e2' : p = d := by omega
    subst e1; subst e2'; subst e3
    obtain ⟨rl', hr', hs'⟩ := nextSym_eq_some.mp hs
    rw [hr] at hr'; injection hr' with hr'; subst hr'
    rw [ha] at hs'; injection hs' with hs'; cases hs'

/-- an item with a nonterminal before the dot comes from a completion: there are a completed
item for that nonterminal in the same set and the item with the dot before it at its origin -/
theorem EarleyF.nt_inv {g : Grammar} {ok : Nat → Nat → Nat → Bool} {w : List Nat} {j r p o A : Nat}
    {rl : Rule} (h : EarleyF g ok w j ⟨r, p + 1, o⟩) (hr : g.rules[r]? = some rl)
    (ha : rl.rhs[p]? = some (.n A)) :
    ∃ r' rl' k, g.rules[r']? = some rl' ∧ rl'.lhs = A ∧
      EarleyF g ok w j ⟨r', rl'.rhs.length, k⟩ ∧ EarleyF g ok w k ⟨r, p, o⟩ := by
  generalize hit : (⟨r, p + 1, o⟩ : Item) = it at h
  cases h with
  | init _ _ => injection hit with _ h2 _; exact absurd h2 (by omega)
  | @scan j0 r' d i a' h1 hs hw _ =>
    injection hit with e1 e2 e3
    have e2' : p = d := by omega
    subst e1; subst e2'; subst e3
    obtain ⟨rl', hr', hs'⟩ := nextSym_eq_some.mp hs
    rw [hr] at hr'; injection hr' with hr'; subst hr'
    rw [ha] at hs'; injection hs' with hs'; cases hs'
  | predict _ _ _ _ => injection hit with _ h2 _; exact absurd h2 (by omega)
  | @complete j k r' d i r'' rl'' hr'' h1 h2 hs _ =>
    injection hit with e1 e2 e3
    have e2' : p = d := by omega
    subst e1; subst e2'; subst e3
    obtain ⟨rl', hr', hs'⟩ := nextSym_eq_some.mp hs
    rw [hr] at hr'; injection hr' with hr'; subst hr'
    rw [ha] at hs'; injection hs' with hs'; injection hs' with hs'
    exact ⟨r'', rl'', k, hr'', hs'.symm, h1, h2⟩

/-- every `Der` of a slice of the input is the yield of a derivation (list of parse trees) -/
theorem Der.exists_valid {g : Grammar} {toks : List Nat} {ss : List Sym} {u : List Nat}
    (h : Der g ss u) : ∀ {i j : Nat}, i ≤ j → j ≤ toks.length → slice toks i j = u →
      ∃ kids, PT.ValidListAt g toks kids ss i j := by
  induction h with
  | nil =>
    intro i j hij hj hs
    have : i = j := by
      unfold slice at hs
      rcases List.take_eq_nil_iff.mp hs with h1 | h1
      · omega
      · have := List.drop_eq_nil_iff.mp h1; omega
    subst this
    exact ⟨[], .nil⟩
  | @term a ss w _ ih =>
    intro i j hij hj hs
    obtain ⟨h1, h2, h3⟩ := slice_cons hs
    obtain ⟨kids, hk⟩ := ih (Nat.succ_le_of_lt h3) hj h2
    exact ⟨.leaf a i :: kids, .cons (.leaf h1) hk⟩
  | @nt r rl ss u v hr _ _ ih1 ih2 =>
    intro i j hij hj hs
    obtain ⟨h1, h2⟩ := slice_split hs
    have hm : i + u.length ≤ j := by
      have := congrArg List.length hs
      simp only [slice, List.length_take, List.length_drop, List.length_append] at this
      omega
    obtain ⟨k1, hk1⟩ := ih1 (Nat.le_add_right _ _) (Nat.le_trans hm hj) h1
    obtain ⟨k2, hk2⟩ := ih2 hm hj h2
    exact ⟨.node r k1 :: k2, .cons (.node hr rfl hk1) hk2⟩

/-- the derivation behind a completed Earley item -/
theorem EarleyF.complete_valid {g : Grammar} {ok : Nat → Nat → Nat → Bool} {w : List Nat}
    {j r k : Nat} {rl : Rule} (hr : g.rules[r]? = some rl)
    (h : EarleyF g ok w j ⟨r, rl.rhs.length, k⟩) :
    k ≤ j ∧ ∃ kids, PT.ValidListAt g w kids rl.rhs k j := by
  obtain ⟨rl', hr', _, hle, hd⟩ := h.sound
  simp only at hr' hle hd
  rw [hr] at hr'; injection hr' with hr'; subst hr'
  rw [List.take_length] at hd
  exact ⟨hle, hd.exists_valid hle h.le_length rfl⟩

end Yaep
