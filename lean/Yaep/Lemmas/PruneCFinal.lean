import Yaep.Lemmas.PruneCLink
/-!
# Putting the two passes together
-/
namespace Yaep.PC
open Yaep

section
variable {h0 : Array Cell} {rk hd : Nat → Nat} {one free : Bool}

/-- the state on entry satisfies the invariant -/
theorem Inv.init (wf : WfHeap h0 rk hd) :
    Inv h0 rk hd one free (fun _ => False) { heap := h0 } := by
  refine ⟨rfl, ?_, ?_, ?_⟩
  · intro i hi _
    unfold NodeOK
    split
    · left; assumption
    · trivial
    · rfl
  · intro a ha hal hda _
    unfold ChainOK
    simp [memoFind]
  · intro a e he
    simp [memoFind] at he

/-- the first pass as a whole -/
theorem prune_top (wf : WfHeap h0 rk hd) {root fuel : Nat} (hr : root < h0.size)
    (hdr : hd root = root) (hf : rk root < fuel) :
    Inv h0 rk hd one free (fun _ => False) (pruneToMinimal one free fuel { heap := h0 } root).1 ∧
    (pruneToMinimal one free fuel { heap := h0 } root).2.1 = res0 h0 rk one root ∧
    (pruneToMinimal one free fuel { heap := h0 } root).2.2 = (cost0 h0 rk one root : Int) ∧
    Visited h0 free (pruneToMinimal one free fuel { heap := h0 } root).1 root ∧
    (pruneToMinimal one free fuel { heap := h0 } root).1.oof = false ∧
    (∀ i, i ∈ (pruneToMinimal one free fuel { heap := h0 } root).1.coll → Reach h0 root i) := by
  obtain ⟨r1, r2, r3, r4, r5, r6⟩ := pruneToMinimal_spec (one := one) (free := free) wf fuel
    (fun _ => False) { heap := h0 } root hf hr hdr (fun _ h => h.elim) (Inv.init wf)
  refine ⟨r1, r2, r3, r4, by rw [r5.oof], ?_⟩
  intro i hi
  rcases r6 i hi with h | h
  · simp at h
  · exact h

/-- a cell the first pass has dealt with: a processed leaf or abstract node, or a cell of a
processed chain -/
def Seen (h0 : Array Cell) (hd : Nat → Nat) (free : Bool) (s : PSt) (z : Nat) : Prop :=
  (z < h0.size ∧ isAlt h0 z = false ∧ Visited h0 free s z) ∨
  (∃ a, a < h0.size ∧ isAlt h0 a = true ∧ hd a = a ∧ Visited h0 free s a ∧ z ∈ chain0 h0 a)

theorem IsChain.next_mem {h : Array Cell} {a : Nat} {l : List Nat} (hc : IsChain h a l) :
    ∀ x ∈ l, ∀ nd j, cellAt h x = .alt nd (some j) → j ∈ l := by
  induction hc with
  | last e =>
    intro x hx nd j ex
    simp only [List.mem_singleton] at hx
    subst hx
    rw [e] at ex; cases ex
  | @cons a nd' j' l e hl ih =>
    intro x hx nd j ex
    rcases List.mem_cons.1 hx with rfl | hx
    · rw [e] at ex
      injection ex with e1 e2
      injection e2 with e2
      subst e2
      obtain ⟨t, ht⟩ := hl.head_eq
      rw [ht]; simp
    · exact List.mem_cons_of_mem _ (ih x hx nd j ex)

theorem Seen.step (wf : WfHeap h0 rk hd) {s : PSt}
    (hinv : Inv h0 rk hd one free (fun _ => False) s) {x b : Nat} (hx : Seen h0 hd free s x)
    (hb : b ∈ succs h0 x) : Seen h0 hd free s b := by
  rcases hx with ⟨hk, hal, hv⟩ | ⟨a, ha, hal, hda, hv, hz⟩
  · cases hc0 : cellAt h0 x with
    | anode nm c ks =>
      obtain ⟨ks', e1, e2, e3, e4⟩ := visited_anode wf hinv hk hc0 hv
      simp only [succs, hc0] at hb
      obtain ⟨-, hkids⟩ := wf.anode x nm c ks hk hc0
      obtain ⟨p1, p2, p3⟩ := hkids b hb
      cases hbal : isAlt h0 b with
      | false => exact Or.inl ⟨p1, hbal, e3 b hb⟩
      | true =>
        refine Or.inr ⟨b, p1, hbal, p3, e3 b hb, ?_⟩
        obtain ⟨t, ht⟩ := (chain0_isChain wf p1 hbal).head_eq
        rw [ht]; simp
    | alt _ _ => simp [isAlt, hc0] at hal
    | nil => simp [succs, hc0] at hb
    | err => simp [succs, hc0] at hb
    | term _ _ => simp [succs, hc0] at hb
  · have hch := chain0_isChain wf ha hal
    obtain ⟨q1, q2, q3, q4⟩ := hch.props wf ha x hz
    obtain ⟨hcells, -⟩ := visited_alt_chain wf hinv ha hal hda hv
    obtain ⟨r1, r2, r3⟩ := altNode_props wf q1 q2
    have hnode : Seen h0 hd free s (altNode h0 x) := Or.inl ⟨r1, r2, (hcells x hz).2.1⟩
    unfold isAlt at q2
    split at q2
    · rename_i nd nx e
      have hnd : altNode h0 x = nd := by simp [altNode, e]
      cases nx with
      | none =>
        simp only [succs, e, List.mem_singleton] at hb
        subst hb; rw [← hnd]; exact hnode
      | some j =>
        simp only [succs, e, List.mem_cons, List.not_mem_nil, or_false] at hb
        rcases hb with rfl | rfl
        · rw [← hnd]; exact hnode
        · exact Or.inr ⟨a, ha, hal, hda, hv, hch.next_mem x hz nd _ e⟩
    · cases q2

theorem Seen.coll (wf : WfHeap h0 rk hd) {s : PSt}
    (hinv : Inv h0 rk hd one free (fun _ => False) s) (hf : free = true) {x : Nat}
    (hx : Seen h0 hd free s x) : x ∈ s.coll := by
  rcases hx with ⟨hk, hal, hv⟩ | ⟨a, ha, hal, hda, hv, hz⟩
  · cases hc0 : cellAt h0 x with
    | anode nm c ks => exact (visited_anode wf hinv hk hc0 hv).choose_spec.2.2.2 hf
    | alt _ _ => simp [isAlt, hc0] at hal
    | nil => unfold Visited at hv; rw [hc0] at hv; exact hv hf
    | err => unfold Visited at hv; rw [hc0] at hv; exact hv hf
    | term _ _ => unfold Visited at hv; rw [hc0] at hv; exact hv hf
  · exact ((visited_alt_chain wf hinv ha hal hda hv).1 x hz).2.2 hf

theorem Seen.reach (wf : WfHeap h0 rk hd) {s : PSt}
    (hinv : Inv h0 rk hd one free (fun _ => False) s) {x z : Nat} (hx : Seen h0 hd free s x)
    (hr : Reach h0 x z) : Seen h0 hd free s z := by
  induction hr with
  | refl => exact hx
  | step hb _ ih => exact ih (hx.step wf hinv hb)

theorem Seen.of_visited (wf : WfHeap h0 rk hd) {s : PSt} {k : Nat} (hk : k < h0.size)
    (hdk : hd k = k) (hv : Visited h0 free s k) : Seen h0 hd free s k := by
  cases hal : isAlt h0 k with
  | false => exact Or.inl ⟨hk, hal, hv⟩
  | true =>
    refine Or.inr ⟨k, hk, hal, hdk, hv, ?_⟩
    obtain ⟨t, ht⟩ := (chain0_isChain wf hk hal).head_eq
    rw [ht]; simp


/-- the cells of the pruned translation are closed under the references of the pruned heap -/
theorem InF.step (wf : WfHeap h0 rk hd) {s : PSt}
    (hinv : Inv h0 rk hd one free (fun _ => False) s) {x b : Nat}
    (hx : InF h0 rk hd one free s x) (hb : b ∈ succs s.heap x) : InF h0 rk hd one free s b := by
  have hp := pruned_of_inv wf hinv
  rcases hx with ⟨hk, hal, hv⟩ | ⟨a, ha, hal, hda, hv, hz⟩
  · cases hc : cellAt s.heap x with
    | anode nm c ks =>
      simp only [succs, hc] at hb
      exact ((hp.anode x nm c ks (Or.inl ⟨hk, hal, hv⟩) hc).2 b hb).1
    | alt _ _ =>
      have := (nonalt_kind wf hinv hk (fun h => h) hal).1
      simp [isAlt, hc] at this
    | nil => simp [succs, hc] at hb
    | err => simp [succs, hc] at hb
    | term _ _ => simp [succs, hc] at hb
  · obtain ⟨hcells, hlinked⟩ := visited_alt_chain wf hinv ha hal hda hv
    obtain ⟨p1, p2, p3, p4, p5, p6, p7, p8⟩ := kept_mem_props wf ha hal hda hz
    have hnode : InF h0 rk hd one free s (altNode h0 x) :=
      Or.inl ⟨p5, p6, (hcells x (kept_subset a x hz)).2.1⟩
    obtain ⟨l1, l2, hsplit⟩ := List.append_of_mem hz
    rw [hsplit] at hlinked
    have hsuf := Linked.suffix l1 x l2 hlinked
    obtain ⟨⟨nx, e⟩, -, -⟩ := hcells x (kept_subset a x hz)
    obtain ⟨nd', e'⟩ := hsuf.head_cell
    rw [e] at e'
    injection e' with i1 i2
    subst i2
    cases l2 with
    | nil =>
      simp only [succs, e, List.head?_nil, List.mem_singleton] at hb
      subst hb; exact hnode
    | cons j' l2' =>
      simp only [succs, e, List.head?_cons, List.mem_cons, List.not_mem_nil, or_false] at hb
      rcases hb with rfl | rfl
      · exact hnode
      · exact Or.inr ⟨a, ha, hal, hda, hv, by rw [hsplit]; simp⟩

theorem InF.reach (wf : WfHeap h0 rk hd) {s : PSt}
    (hinv : Inv h0 rk hd one free (fun _ => False) s) {x z : Nat}
    (hx : InF h0 rk hd one free s x) (hr : Reach s.heap x z) : InF h0 rk hd one free s z := by
  induction hr with
  | refl => exact hx
  | step hb _ ih => exact ih (hx.step wf hinv hb)

end

/-! ## the second pass as a whole -/

section
variable {F : Array Cell} {E : Nat → Prop} {rnk : Nat → Nat} {free : Bool} {nameBlk : Nat → Nat}

theorem TInv.init : TInv F free nameBlk (fun _ => False) { heap := F } := by
  refine ⟨rfl, fun i => Or.inl rfl, ?_⟩
  intro i _ hfl
  obtain ⟨nm, c, ks, hc, e1, e2⟩ := hfl
  simp only at e2
  rw [e1] at e2
  injection e2 with _ h _
  omega

theorem traverse_top (hp : Pruned F E rnk) {x0 fuel : Nat} (hx : E x0) (hf : rnk x0 < fuel) :
    TInv F free nameBlk (fun _ => False) (traversePruned free nameBlk fuel { heap := F } x0) ∧
    Done F free nameBlk (traversePruned free nameBlk fuel { heap := F } x0) x0 ∧
    (traversePruned free nameBlk fuel { heap := F } x0).oof = false ∧
    (∀ m, m ∈ (traversePruned free nameBlk fuel { heap := F } x0).resv →
      free = true ∧ ResvFrom F nameBlk x0 m) := by
  obtain ⟨r1, r2, r3, r4⟩ := traversePruned_spec (free := free) (nameBlk := nameBlk) hp fuel
    (fun _ => False) { heap := F } x0 hf hx (fun _ h => h.elim) TInv.init
  refine ⟨r1, r2, by rw [r3.oof], ?_⟩
  intro m hm
  rcases r4 m hm with h | h
  · simp at h
  · exact h

/-- the references are the same before and after the second pass -/
theorem succs_restored {Y : Nat → Prop} {t : TSt} (hinv : TInv F free nameBlk Y t) (i : Nat) :
    succs t.heap i = succs F i := by
  rcases hinv.cells i with e | ⟨nm, c, ks, _, e1, e2⟩
  · simp only [succs, e]
  · simp only [succs, e1, e2]

theorem reach_restored {Y : Nat → Prop} {t : TSt} (hinv : TInv F free nameBlk Y t) {x z : Nat} :
    Reach t.heap x z ↔ Reach F x z := by
  constructor
  · intro h
    induction h with
    | refl => exact .refl _
    | step hb _ ih => exact .step (by rw [← succs_restored hinv]; exact hb) ih
  · intro h
    induction h with
    | refl => exact .refl _
    | step hb _ ih => exact .step (by rw [succs_restored hinv]; exact hb) ih

theorem chainCells_restored {Y : Nat → Prop} {t : TSt} (hinv : TInv F free nameBlk Y t) :
    ∀ (m a : Nat), chainCells t.heap m a = chainCells F m a := by
  intro m
  induction m with
  | zero => intro a; rfl
  | succ m ih =>
    intro a
    unfold chainCells
    rcases hinv.cells a with e | ⟨nm, c, ks, _, e1, e2⟩
    · rw [e]
      split <;> simp [ih]
    · simp only [e1, e2]

theorem altNode_restored {Y : Nat → Prop} {t : TSt} (hinv : TInv F free nameBlk Y t) (a : Nat) :
    altNode t.heap a = altNode F a := by
  rcases hinv.cells a with e | ⟨nm, c, ks, _, e1, e2⟩
  · simp only [altNode, e]
  · simp only [altNode, e1, e2]

theorem chainCells_reach (h : Array Cell) : ∀ (m a : Nat), ∀ j ∈ chainCells h m a,
    Reach h a j ∧ isAlt h j = true := by
  intro m
  induction m with
  | zero => intro a j hj; simp [chainCells] at hj
  | succ m ih =>
    intro a j hj
    unfold chainCells at hj
    split at hj
    · rename_i nd nx e
      rcases List.mem_cons.1 hj with rfl | hj
      · exact ⟨.refl _, by simp [isAlt, e]⟩
      · obtain ⟨h1, h2⟩ := ih nx j hj
        exact ⟨.step (b := nx) (by simp [succs, e]) h1, h2⟩
    · rename_i nd e
      simp only [List.mem_singleton] at hj
      subst hj
      exact ⟨.refl _, by simp [isAlt, e]⟩
    · cases hj

theorem toNat_flag {c : Int} (hc : c < 0) : (-c - 1).toNat = decode c := by
  unfold decode; rw [if_pos hc]

/-- the forest of the final heap is the forest of the pruned heap with decoded cost fields -/
theorem unfold_restored {Y : Nat → Prop} {t : TSt} (hinv : TInv F free nameBlk Y t) :
    ∀ (f x : Nat), Done F free nameBlk t x → unfoldC t.heap f x = unfoldD F f x := by
  intro f
  induction f with
  | zero => intro x _; rfl
  | succ f ih =>
    intro x hd
    unfold unfoldC unfoldD
    unfold unfoldWith
    have hkid : ∀ y, y ∈ succs F x → Done F free nameBlk t y :=
      fun y hy z hz => hd z (.step hy hz)
    cases hc : cellAt F x with
    | anode nm c ks =>
      obtain ⟨hneg, e⟩ := (hd x (.refl _)).1 nm c ks hc
      simp only [e, toNat_flag hneg]
      congr 1
      apply List.map_congr_left
      intro y hy
      exact ih y (hkid y (by simp only [succs, hc]; exact hy))
    | alt nd nx =>
      have e : cellAt t.heap x = .alt nd nx := by
        rcases hinv.cells x with h | ⟨_, _, _, _, h, _⟩
        · rw [h, hc]
        · rw [hc] at h; cases h
      simp only [e, hinv.size, chainCells_restored hinv, List.map_map]
      congr 1
      apply List.map_congr_left
      intro j hj
      simp only [Function.comp_def, altNode_restored hinv]
      obtain ⟨hr, hal⟩ := chainCells_reach F _ _ j hj
      apply ih
      intro z hz
      exact hd z (hr.trans (.step (altNode_succ hal) hz))
    | nil =>
      have e : cellAt t.heap x = .nil := by
        rcases hinv.cells x with h | ⟨_, _, _, _, h, _⟩
        · rw [h, hc]
        · rw [hc] at h; cases h
      simp only [e]
    | err =>
      have e : cellAt t.heap x = .err := by
        rcases hinv.cells x with h | ⟨_, _, _, _, h, _⟩
        · rw [h, hc]
        · rw [hc] at h; cases h
      simp only [e]
    | term cd att =>
      have e : cellAt t.heap x = .term cd att := by
        rcases hinv.cells x with h | ⟨_, _, _, _, h, _⟩
        · rw [h, hc]
        · rw [hc] at h; cases h
      simp only [e]

end

end Yaep.PC
