import Yaep.Lemmas.EtfSpan
import Yaep.Model.ReadGrammar
import Yaep.Model.Descr
/-!
# The Earley sets of the arithmetic-expression grammar have at most 8 items — for every input

`etfGrammar`: `E : E '+' T | T ; T : T '*' F | F ; F : 'a' | '(' E ')'` (read by the model of
`yaep_read_grammar` from the description of the project's performance case).  Numbers: terminals
`+` 0, `*` 1, `a` 2, `(` 3, `)` 4, `error` 5, `$eof` 6; nonterminals `E` 0, `$S` 1, `T` 2, `F` 3;
rules 0 `$S : E $eof`, 1 `E : E + T`, 2 `E : T`, 3 `T : T * F`, 4 `T : F`, 5 `F : a`, 6 `F : ( E )`,
7 `$S : error $eof`.

The span model (`Yaep/Lemmas/EtfSpan.lean`) of this grammar: a phrase of `E`, `T`, `F` is
nonempty, balanced (`pd` = number of `(` minus number of `)` read so far: equal at both ends and
never smaller in between) and ends in `a` or `)`; a phrase of `T` has no `+` outside parentheses,
a phrase of `F` neither `+` nor `*`.  `E` can start at 0 and after `(`, `T` also after `+`, `F` also
after `*`.  The model is sound and backward deterministic: the start of a phrase that ends at `j` is
determined by `j` and the nonterminal.  Hence an item of a set is determined by its dotted rule
(`EarleyF.origin_unique`), and the last token read leaves at most 8 dotted rules
(`etf_slot_allowed`); the items of a set fall into 4 classes of equal origin (`etf_origins_le`).
NOTE: an item `(r, d, i)` of set `j` spans `[i, j)`, a segment with at most
ONE unmatched `(` (its first token) — the open parentheses of the enclosing levels belong to items
of EARLIER sets, so the bound does not depend on the nesting depth.
-/
namespace Yaep.ETF
open Yaep

def etfRaw : RawGrammar :=
  ⟨[("'+'", 43), ("'*'", 42), ("'a'", 97), ("'('", 40), ("')'", 41)],
   [⟨"E", ["E", "'+'", "T"], some "p", 1, some [0, 2]⟩,
    ⟨"E", ["T"], none, 0, some [0]⟩,
    ⟨"T", ["T", "'*'", "F"], some "m", 1, some [0, 2]⟩,
    ⟨"T", ["F"], none, 0, some [0]⟩,
    ⟨"F", ["'a'"], none, 0, some [0]⟩,
    ⟨"F", ["'('", "E", "')'"], none, 0, some [1]⟩], false⟩

def etfGrammar : Grammar :=
  { rules := [
      { lhs := 1, rhs := [.n 0, .t 6], transLen := 1, order := [some 0, none] },
      { lhs := 0, rhs := [.n 0, .t 0, .n 2], anode := some "p", cost := 1, transLen := 2,
        order := [some 0, none, some 1] },
      { lhs := 0, rhs := [.n 2], transLen := 1, order := [some 0] },
      { lhs := 2, rhs := [.n 2, .t 1, .n 3], anode := some "m", cost := 1, transLen := 2,
        order := [some 0, none, some 1] },
      { lhs := 2, rhs := [.n 3], transLen := 1, order := [some 0] },
      { lhs := 3, rhs := [.t 2], transLen := 1, order := [some 0] },
      { lhs := 3, rhs := [.t 3, .n 0, .t 4], transLen := 1, order := [none, some 0, none] },
      { lhs := 1, rhs := [.t 5, .t 6], order := [none, none] } ],
    termNames := ["'+'", "'*'", "'a'", "'('", "')'", "error", "$eof"],
    termCodes := [43, 42, 97, 40, 41, -2, -1],
    ntNames := ["E", "$S", "T", "F"], errT := 5, eofT := 6, axiomN := 1, startN := 0 }

theorem etf_readGrammar : readGrammar etfRaw = .ok etfGrammar := by rfl

/-- the description of the project's performance case `P-etf-*` -/
def etfDescr : String :=
  "E : E '+' T # p (0 2) | T # 0 ; T : T '*' F # m (0 2) | F # 0 ; F : 'a' # 0 | '(' E ')' # 1 ;"

/-- the model of `yaep_parse_grammar` (lexer + parser of descriptions) turns it into `etfRaw` -/
theorem etf_descrToRaw :
    descrToRaw (etfDescr.toList.map fun c => c.toNat.toUInt8) false = .ok etfRaw := by rfl

theorem etf_rule_cases {r : Nat} {rl : Rule} (h : etfGrammar.rules[r]? = some rl) :
    (r = 0 ∧ rl.lhs = 1 ∧ rl.rhs = [.n 0, .t 6]) ∨
    (r = 1 ∧ rl.lhs = 0 ∧ rl.rhs = [.n 0, .t 0, .n 2]) ∨
    (r = 2 ∧ rl.lhs = 0 ∧ rl.rhs = [.n 2]) ∨
    (r = 3 ∧ rl.lhs = 2 ∧ rl.rhs = [.n 2, .t 1, .n 3]) ∨
    (r = 4 ∧ rl.lhs = 2 ∧ rl.rhs = [.n 3]) ∨
    (r = 5 ∧ rl.lhs = 3 ∧ rl.rhs = [.t 2]) ∨
    (r = 6 ∧ rl.lhs = 3 ∧ rl.rhs = [.t 3, .n 0, .t 4]) ∨
    (r = 7 ∧ rl.lhs = 1 ∧ rl.rhs = [.t 5, .t 6]) := by
  rcases r with _|_|_|_|_|_|_|_|r <;> simp [etfGrammar] at h <;> subst h <;> simp


/-! ## prefix depth -/

def pdelta : Option Nat → Int
  | some 3 => 1
  | some 4 => -1
  | _ => 0

/-- number of `(` minus number of `)` among the first `m` tokens -/
def pd (w : List Nat) : Nat → Int
  | 0 => 0
  | m + 1 => pd w m + pdelta w[m]?

theorem pd_open {w : List Nat} {m : Nat} (h : w[m]? = some 3) : pd w (m + 1) = pd w m + 1 := by
  show pd w m + pdelta w[m]? = _
  rw [h]; rfl

theorem pd_close {w : List Nat} {m : Nat} (h : w[m]? = some 4) : pd w (m + 1) = pd w m - 1 := by
  show pd w m + pdelta w[m]? = _
  rw [h]; rfl

theorem pd_other {w : List Nat} {m a : Nat} (h : w[m]? = some a) (h3 : a ≠ 3) (h4 : a ≠ 4) :
    pd w (m + 1) = pd w m := by
  show pd w m + pdelta w[m]? = _
  rw [h]
  have : pdelta (some a) = 0 := by
    unfold pdelta
    split
    · rename_i e; injection e with e; exact absurd e h3
    · rename_i e; injection e with e; exact absurd e h4
    · rfl
  rw [this]; omega

def Dyck (w : List Nat) (i j : Nat) : Prop :=
  i ≤ j ∧ pd w j = pd w i ∧ ∀ m, i ≤ m → m ≤ j → pd w i ≤ pd w m

def LastOK (w : List Nat) (j : Nat) : Prop :=
  ∃ j0, j = j0 + 1 ∧ (w[j0]? = some 2 ∨ w[j0]? = some 4)

def NoTop (w : List Nat) (a : Nat) (i j : Nat) : Prop :=
  ∀ m, i ≤ m → m < j → w[m]? = some a → pd w i < pd w m

def ESpan (w : List Nat) (i j : Nat) : Prop := i < j ∧ Dyck w i j ∧ LastOK w j
def TSpan (w : List Nat) (i j : Nat) : Prop := ESpan w i j ∧ NoTop w 0 i j
def FSpan (w : List Nat) (i j : Nat) : Prop := TSpan w i j ∧ NoTop w 1 i j

theorem dyck_single {w : List Nat} {k a : Nat} (h : w[k]? = some a) (h3 : a ≠ 3) (h4 : a ≠ 4) :
    Dyck w k (k + 1) := by
  have e := pd_other h h3 h4
  refine ⟨Nat.le_succ _, e, ?_⟩
  intro m h1 h2
  rcases Nat.eq_or_lt_of_le h1 with rfl | hlt
  · exact Int.le_refl _
  · have : m = k + 1 := by omega
    subst this; omega

/-- two balanced parts with a token that is not a parenthesis in between -/
theorem dyck_tok_dyck {w : List Nat} {i k j a : Nat} (h1 : Dyck w i k) (h : w[k]? = some a)
    (h3 : a ≠ 3) (h4 : a ≠ 4) (h2 : Dyck w (k + 1) j) : Dyck w i j := by
  obtain ⟨a1, a2, a3⟩ := h1
  obtain ⟨b1, b2, b3⟩ := h2
  have e := pd_other h h3 h4
  refine ⟨by omega, by omega, ?_⟩
  intro m hm1 hm2
  rcases Nat.lt_or_ge k m with hlt | hge
  · have := b3 m hlt hm2; omega
  · exact a3 m hm1 hge

/-- a balanced part in parentheses: balanced, and strictly deeper inside -/
theorem dyck_paren {w : List Nat} {k k2 : Nat} (ho : w[k]? = some 3) (h1 : Dyck w (k + 1) k2)
    (hc : w[k2]? = some 4) :
    Dyck w k (k2 + 1) ∧ ∀ m, k < m → m ≤ k2 → pd w k < pd w m := by
  obtain ⟨a1, a2, a3⟩ := h1
  have e1 := pd_open ho
  have e2 := pd_close hc
  have hin : ∀ m, k < m → m ≤ k2 → pd w k < pd w m := by
    intro m hm1 hm2
    have := a3 m hm1 hm2; omega
  refine ⟨⟨by omega, by omega, ?_⟩, hin⟩
  intro m hm1 hm2
  rcases Nat.eq_or_lt_of_le hm1 with rfl | hlt
  · exact Int.le_refl _
  · rcases Nat.lt_or_ge k2 m with hgt | hle
    · have : m = k2 + 1 := by omega
      subst this; omega
    · have := hin m hlt hle; omega

/-! ## the span model of the expression grammar -/

/-- `E`, `T`, `F` phrases are balanced, nonempty, end in `a` or `)`; a `T` phrase has no `+`
outside parentheses, an `F` phrase neither `+` nor `*`.  `E` may start at 0 and after `(`; `T`
also after `+`; `F` also after `*`; `$S` at 0. -/
def etfModel (w : List Nat) : SpanModel where
  NS := fun A i j =>
    match A with
    | 0 => ESpan w i j
    | 2 => TSpan w i j
    | 3 => FSpan w i j
    | _ => True
  LC := fun A i =>
    match A with
    | 0 => i = 0 ∨ ∃ i0, i = i0 + 1 ∧ w[i0]? = some 3
    | 1 => i = 0
    | 2 => i = 0 ∨ ∃ i0, i = i0 + 1 ∧ (w[i0]? = some 3 ∨ w[i0]? = some 0)
    | 3 => i = 0 ∨ ∃ i0, i = i0 + 1 ∧ (w[i0]? = some 3 ∨ w[i0]? = some 0 ∨ w[i0]? = some 1)
    | _ => False

theorem etf_rule_sound (w : List Nat) (r : Nat) (rl : Rule) (k j : Nat)
    (hr : etfGrammar.rules[r]? = some rl)
    (hsp : SeqSpan w (etfModel w) rl.rhs k j) : (etfModel w).NS rl.lhs k j := by
  rcases etf_rule_cases hr with ⟨_, hl, hrhs⟩ | ⟨_, hl, hrhs⟩ | ⟨_, hl, hrhs⟩ | ⟨_, hl, hrhs⟩ |
    ⟨_, hl, hrhs⟩ | ⟨_, hl, hrhs⟩ | ⟨_, hl, hrhs⟩ | ⟨_, hl, hrhs⟩ <;> rw [hl] <;> rw [hrhs] at hsp
  · trivial
  · -- E : E + T
    obtain ⟨k1, ⟨e1, e2, e3⟩, k2, ⟨rfl, hp⟩, k3, ⟨⟨t1, t2, t3⟩, _⟩, rfl⟩ := hsp
    exact ⟨by omega, dyck_tok_dyck e2 hp (by decide) (by decide) t2, t3⟩
  · -- E : T
    obtain ⟨k1, ⟨h, _⟩, rfl⟩ := hsp
    exact h
  · -- T : T * F
    obtain ⟨k1, ⟨⟨e1, e2, e3⟩, e4⟩, k2, ⟨rfl, hp⟩, k3, ⟨⟨⟨t1, t2, t3⟩, t4⟩, _⟩, rfl⟩ := hsp
    refine ⟨⟨by omega, dyck_tok_dyck e2 hp (by decide) (by decide) t2, t3⟩, ?_⟩
    intro m hm1 hm2 hm
    rcases Nat.lt_or_ge m k1 with hlt | hge
    · exact e4 m hm1 hlt hm
    · rcases Nat.eq_or_lt_of_le hge with rfl | hgt
      · rw [hp] at hm; exact absurd hm (by decide)
      · have := t4 m hgt hm2 hm
        have e := pd_other hp (by decide) (by decide)
        have := e2.2.1
        omega
  · -- T : F
    obtain ⟨k1, ⟨h, _⟩, rfl⟩ := hsp
    exact h
  · -- F : a
    obtain ⟨k1, ⟨rfl, ha⟩, rfl⟩ := hsp
    have hd := dyck_single ha (by decide) (by decide)
    have hnt : ∀ b, b ≠ 2 → NoTop w b k (k + 1) := by
      intro b hb m hm1 hm2 hm
      have : m = k := by omega
      subst this
      rw [ha] at hm; injection hm with hm; exact absurd hm.symm hb
    exact ⟨⟨⟨Nat.lt_succ_self _, hd, k, rfl, Or.inl ha⟩, hnt 0 (by decide)⟩, hnt 1 (by decide)⟩
  · -- F : ( E )
    obtain ⟨k1, ⟨rfl, ho⟩, k2, ⟨e1, e2, e3⟩, k3, ⟨rfl, hc⟩, rfl⟩ := hsp
    obtain ⟨hd, hin⟩ := dyck_paren ho e2 hc
    have hnt : ∀ b, b ≠ 3 → b ≠ 4 → NoTop w b k (k2 + 1) := by
      intro b hb3 hb4 m hm1 hm2 hm
      rcases Nat.eq_or_lt_of_le hm1 with rfl | hlt
      · rw [ho] at hm; injection hm with hm; exact absurd hm.symm hb3
      · exact hin m hlt (by omega)
    exact ⟨⟨⟨by omega, hd, k2, rfl, Or.inr hc⟩, hnt 0 (by decide) (by decide)⟩,
      hnt 1 (by decide) (by decide)⟩
  · trivial


theorem etf_pred_sound (w : List Nat) (r : Nat) (rl : Rule) (d B i j : Nat)
    (hr : etfGrammar.rules[r]? = some rl) (hsym : rl.rhs[d]? = some (Sym.n B))
    (hlc : (etfModel w).LC rl.lhs i) (hsp : SeqSpan w (etfModel w) (rl.rhs.take d) i j) :
    (etfModel w).LC B j := by
  rcases etf_rule_cases hr with ⟨_, hl, hrhs⟩ | ⟨_, hl, hrhs⟩ | ⟨_, hl, hrhs⟩ | ⟨_, hl, hrhs⟩ |
    ⟨_, hl, hrhs⟩ | ⟨_, hl, hrhs⟩ | ⟨_, hl, hrhs⟩ | ⟨_, hl, hrhs⟩ <;>
    rw [hl] at hlc <;> rw [hrhs] at hsp hsym
  · -- $S : . E $eof
    rcases d with _ | _ | d <;> simp at hsym
    subst hsym
    have e : i = j := hsp
    have e0 : i = 0 := hlc
    exact Or.inl (by omega)
  · -- E : . E + . T
    rcases d with _ | _ | _ | d <;> simp at hsym
    · subst hsym
      have e : i = j := hsp
      subst e; exact hlc
    · subst hsym
      obtain ⟨k1, _, k2, ⟨rfl, hp⟩, rfl⟩ := hsp
      exact Or.inr ⟨k1, rfl, Or.inr hp⟩
  · -- E : . T
    rcases d with _ | d <;> simp at hsym
    subst hsym
    have e : i = j := hsp
    subst e
    rcases hlc with h | ⟨i0, h1, h2⟩
    · exact Or.inl h
    · exact Or.inr ⟨i0, h1, Or.inl h2⟩
  · -- T : . T * . F
    rcases d with _ | _ | _ | d <;> simp at hsym
    · subst hsym
      have e : i = j := hsp
      subst e; exact hlc
    · subst hsym
      obtain ⟨k1, _, k2, ⟨rfl, hp⟩, rfl⟩ := hsp
      exact Or.inr ⟨k1, rfl, Or.inr (Or.inr hp)⟩
  · -- T : . F
    rcases d with _ | d <;> simp at hsym
    subst hsym
    have e : i = j := hsp
    subst e
    rcases hlc with h | ⟨i0, h1, h2⟩
    · exact Or.inl h
    · rcases h2 with h2 | h2
      · exact Or.inr ⟨i0, h1, Or.inl h2⟩
      · exact Or.inr ⟨i0, h1, Or.inr (Or.inl h2)⟩
  · rcases d with _ | d <;> simp at hsym
  · -- F : ( . E )
    rcases d with _ | _ | _ | d <;> simp at hsym
    subst hsym
    obtain ⟨k1, ⟨rfl, ho⟩, rfl⟩ := hsp
    exact Or.inr ⟨i, rfl, ho⟩
  · rcases d with _ | _ | d <;> simp at hsym

theorem etfModel_sound (w : List Nat) : (etfModel w).Sound etfGrammar w where
  rule := fun r rl k j hr _ hsp => etf_rule_sound w r rl k j hr hsp
  init := rfl
  pred := etf_pred_sound w

/-! ## backward determinism -/

theorem span_lt_absurd {w : List Nat} {i i' j i0 a : Nat} (h : Dyck w i j) (h' : Dyck w i' j)
    (hlt : i < i') (e : i' = i0 + 1) (ha : w[i0]? = some a)
    (hcase : a = 3 ∨ (a ≠ 3 ∧ a ≠ 4 ∧ NoTop w a i j)) : False := by
  obtain ⟨a1, a2, a3⟩ := h
  obtain ⟨b1, b2, _⟩ := h'
  subst e
  have hm := a3 i0 (by omega) (by omega)
  rcases hcase with rfl | ⟨h3, h4, hnt⟩
  · have := pd_open ha; omega
  · have := pd_other ha h3 h4
    have := hnt i0 (by omega) (by omega) ha
    omega

theorem etfModel_det (w : List Nat) : (etfModel w).Det where
  uniq := by
    intro A i i' j hl hl' hs hs'
    have key : ∀ i i', (etfModel w).LC A i' → (etfModel w).NS A i j → (etfModel w).NS A i' j →
        i < i' → False := by
      intro i i' hl' hs hs' hlt
      match A, hl', hs, hs' with
      | 0, hl', hs, hs' =>
        rcases hl' with h | ⟨i0, h1, h2⟩
        · omega
        · exact span_lt_absurd hs.2.1 hs'.2.1 hlt h1 h2 (Or.inl rfl)
      | 1, hl', _, _ =>
        have : i' = 0 := hl'
        omega
      | 2, hl', hs, hs' =>
        rcases hl' with h | ⟨i0, h1, h2 | h2⟩
        · omega
        · exact span_lt_absurd hs.1.2.1 hs'.1.2.1 hlt h1 h2 (Or.inl rfl)
        · exact span_lt_absurd hs.1.2.1 hs'.1.2.1 hlt h1 h2
            (Or.inr ⟨by decide, by decide, hs.2⟩)
      | 3, hl', hs, hs' =>
        rcases hl' with h | ⟨i0, h1, h2 | h2 | h2⟩
        · omega
        · exact span_lt_absurd hs.1.1.2.1 hs'.1.1.2.1 hlt h1 h2 (Or.inl rfl)
        · exact span_lt_absurd hs.1.1.2.1 hs'.1.1.2.1 hlt h1 h2
            (Or.inr ⟨by decide, by decide, hs.1.2⟩)
        · exact span_lt_absurd hs.1.1.2.1 hs'.1.1.2.1 hlt h1 h2
            (Or.inr ⟨by decide, by decide, hs.2⟩)
      | _ + 4, hl', _, _ => exact hl'
    rcases Nat.lt_trichotomy i i' with hlt | heq | hgt
    · exact absurd (key i i' hl' hs hs' hlt) id
    · exact heq
    · exact absurd (key i' i hl hs' hs hgt) id


/-! ## which dotted rules can be in a set, by the last token read -/

/-- the token before position `j` -/
def lastTok (w : List Nat) : Nat → Option Nat
  | 0 => none
  | j + 1 => w[j]?

def etfLcList : Nat → List (Option Nat)
  | 0 => [none, some 3]
  | 1 => [none]
  | 2 => [none, some 3, some 0]
  | 3 => [none, some 3, some 0, some 1]
  | _ => []

/-- the last tokens after which the dotted rule `(r, d)` can be in a set -/
def etfLasts (r d : Nat) : List (Option Nat) :=
  match etfGrammar.rules[r]? with
  | none => []
  | some rl =>
    match d with
    | 0 => etfLcList rl.lhs
    | d' + 1 =>
      match rl.rhs[d']? with
      | some (.t a) => [some a]
      | some (.n _) => [some 2, some 4]
      | none => []

theorem etf_lc_lasts {w : List Nat} {A j : Nat} (h : (etfModel w).LC A j) :
    lastTok w j ∈ etfLcList A := by
  match A, h with
  | 0, h =>
    rcases h with rfl | ⟨i0, rfl, h2⟩
    · simp [lastTok, etfLcList]
    · simp [lastTok, etfLcList, h2]
  | 1, h =>
    have : j = 0 := h
    subst this; simp [lastTok, etfLcList]
  | 2, h =>
    rcases h with rfl | ⟨i0, rfl, h2 | h2⟩
    · simp [lastTok, etfLcList]
    · simp [lastTok, etfLcList, h2]
    · simp [lastTok, etfLcList, h2]
  | 3, h =>
    rcases h with rfl | ⟨i0, rfl, h2 | h2 | h2⟩
    · simp [lastTok, etfLcList]
    · simp [lastTok, etfLcList, h2]
    · simp [lastTok, etfLcList, h2]
    · simp [lastTok, etfLcList, h2]
  | _ + 4, h => exact absurd h id

def etfNtOK : Sym → Bool
  | .n A => A == 0 || A == 2 || A == 3
  | .t _ => true

theorem etf_rhs_nts : ∀ rl ∈ etfGrammar.rules, ∀ X ∈ rl.rhs, etfNtOK X = true := by decide

theorem etf_ns_last {w : List Nat} {A k j : Nat} (hA : A = 0 ∨ A = 2 ∨ A = 3)
    (h : (etfModel w).NS A k j) : lastTok w j = some 2 ∨ lastTok w j = some 4 := by
  have hl : LastOK w j := by
    rcases hA with rfl | rfl | rfl
    · exact h.2.2
    · exact h.1.2.2
    · exact h.1.1.2.2
  obtain ⟨j0, rfl, h2⟩ := hl
  exact h2

theorem etf_item_lasts {w : List Nat} {j : Nat} {it : Item}
    (h : ItemSpan (etfModel w) etfGrammar w j it) : lastTok w j ∈ etfLasts it.rule it.dot := by
  obtain ⟨r, d, i⟩ := it
  obtain ⟨rl, hr, hd, hlc, hsp⟩ := h
  simp only at hr hd hlc hsp ⊢
  unfold etfLasts
  rw [hr]
  cases d with
  | zero =>
    rw [List.take_zero] at hsp
    have e : i = j := hsp
    subst e
    exact etf_lc_lasts hlc
  | succ d =>
    have hlt : d < rl.rhs.length := hd
    have hX : rl.rhs[d]? = some rl.rhs[d] := List.getElem?_eq_getElem hlt
    rw [take_succ_of_getElem? _ hX, SeqSpan_snoc] at hsp
    obtain ⟨k, _, hk⟩ := hsp
    simp only [hX]
    have hmem := etf_rhs_nts rl (List.mem_of_getElem? hr) rl.rhs[d] (List.getElem_mem hlt)
    cases hsym : rl.rhs[d] with
    | t a =>
      rw [hsym] at hk
      obtain ⟨rfl, hk2⟩ := hk
      simp [lastTok, hk2]
    | n A =>
      rw [hsym] at hk hmem
      have hA : A = 0 ∨ A = 2 ∨ A = 3 := by
        have : (A = 0 ∨ A = 2) ∨ A = 3 := by simpa [etfNtOK] using hmem
        omega
      rcases etf_ns_last hA hk with e | e <;> simp [e]

/-- the slot of an item: its dotted rule, except that `F : ( E . )` shares the slot of
`$S : E . $eof` (they exclude each other) -/
def etfSlot (it : Item) : Nat × Nat :=
  if it.rule = 6 ∧ it.dot = 2 then (0, 1) else (it.rule, it.dot)

/-- the slots that can be occupied after the last token read -/
def etfAllowed : Option Nat → List (Nat × Nat)
  | none => [(0, 0), (1, 0), (2, 0), (3, 0), (4, 0), (5, 0), (6, 0), (7, 0)]
  | some 0 => [(1, 2), (3, 0), (4, 0), (5, 0), (6, 0)]
  | some 1 => [(3, 2), (5, 0), (6, 0)]
  | some 2 => [(5, 1), (0, 1), (1, 1), (1, 3), (2, 1), (3, 1), (3, 3), (4, 1)]
  | some 3 => [(6, 1), (1, 0), (2, 0), (3, 0), (4, 0), (5, 0), (6, 0)]
  | some 4 => [(6, 3), (0, 1), (1, 1), (1, 3), (2, 1), (3, 1), (3, 3), (4, 1)]
  | some 5 => [(7, 1)]
  | some 6 => [(0, 2), (7, 2)]
  | _ => []

theorem etfAllowed_length_le (l : Option Nat) : (etfAllowed l).length ≤ 8 := by
  unfold etfAllowed
  split <;> simp

theorem etf_slot_check : ∀ r ∈ List.range 8, ∀ d ∈ List.range 4, ∀ l ∈ etfLasts r d,
    etfSlot ⟨r, d, 0⟩ ∈ etfAllowed l := by decide

theorem etf_item_range {w : List Nat} {j : Nat} {it : Item}
    (h : ItemSpan (etfModel w) etfGrammar w j it) : it.rule < 8 ∧ it.dot < 4 := by
  obtain ⟨rl, hr, hd, _, _⟩ := h
  have h1 : it.rule < 8 := (List.getElem?_eq_some_iff.mp hr).1
  have h2 : rl.rhs.length ≤ 3 := by
    have := le_maxRhs (List.mem_of_getElem? hr)
    have e : etfGrammar.maxRhs = 3 := by decide
    omega
  exact ⟨h1, by omega⟩

theorem etf_slot_allowed {w : List Nat} {ok : Nat → Nat → Nat → Bool} {j : Nat} {it : Item}
    (h : EarleyF etfGrammar ok w j it) : etfSlot it ∈ etfAllowed (lastTok w j) := by
  have hs := EarleyF.itemSpan (etfModel_sound w) h
  obtain ⟨h1, h2⟩ := etf_item_range hs
  exact etf_slot_check it.rule (List.mem_range.mpr h1) it.dot (List.mem_range.mpr h2) _
    (etf_item_lasts hs)

/-- `$S : E . $eof` and `F : ( E . )` are never in the same set -/
theorem etf_exclusive {w : List Nat} {ok : Nat → Nat → Nat → Bool} {j i i' : Nat}
    (h : EarleyF etfGrammar ok w j ⟨0, 1, i⟩) (h' : EarleyF etfGrammar ok w j ⟨6, 2, i'⟩) :
    False := by
  obtain ⟨rl, hr, _, hlc, hsp⟩ := EarleyF.itemSpan (etfModel_sound w) h
  obtain ⟨rl', hr', _, _, hsp'⟩ := EarleyF.itemSpan (etfModel_sound w) h'
  simp only at hr hlc hsp hr' hsp'
  have e : rl = etfGrammar.rules[0]?.getD default := by rw [hr]; rfl
  have e' : rl' = etfGrammar.rules[6]?.getD default := by rw [hr']; rfl
  subst e; subst e'
  have hi : i = 0 := hlc
  subst hi
  obtain ⟨k, hk, hkj⟩ := hsp
  have : k = j := hkj
  subst this
  obtain ⟨k1, ⟨rfl, ho⟩, k2, hk2, hkj'⟩ := hsp'
  have : k2 = k := hkj'
  subst this
  have := (etfModel_det w).uniq 0 0 (i' + 1) k2 (Or.inl rfl) (Or.inr ⟨i', rfl, ho⟩) hk hk2
  omega

theorem etf_slot_inj {w : List Nat} {ok : Nat → Nat → Nat → Bool} {j : Nat} {a b : Item}
    (ha : EarleyF etfGrammar ok w j a) (hb : EarleyF etfGrammar ok w j b)
    (h : etfSlot a = etfSlot b) : a = b := by
  obtain ⟨r, d, i⟩ := a
  obtain ⟨r', d', i'⟩ := b
  have same : ∀ {r d i i'}, EarleyF etfGrammar ok w j ⟨r, d, i⟩ → EarleyF etfGrammar ok w j ⟨r, d, i'⟩ →
      (⟨r, d, i⟩ : Item) = ⟨r, d, i'⟩ := by
    intro r d i i' h1 h2
    rw [EarleyF.origin_unique (etfModel_sound w) (etfModel_det w) h1 h2]
  unfold etfSlot at h
  simp only at h
  by_cases c1 : r = 6 ∧ d = 2
  · by_cases c2 : r' = 6 ∧ d' = 2
    · obtain ⟨rfl, rfl⟩ := c1
      obtain ⟨rfl, rfl⟩ := c2
      exact same ha hb
    · rw [if_pos c1, if_neg c2] at h
      obtain ⟨rfl, rfl⟩ := c1
      injection h with e1 e2
      subst e1; subst e2
      exact absurd (etf_exclusive hb ha) id
  · by_cases c2 : r' = 6 ∧ d' = 2
    · rw [if_neg c1, if_pos c2] at h
      obtain ⟨rfl, rfl⟩ := c2
      injection h with e1 e2
      subst e1; subst e2
      exact absurd (etf_exclusive ha hb) id
    · rw [if_neg c1, if_neg c2] at h
      injection h with e1 e2
      subst e1; subst e2
      exact same ha hb

/-- a duplicate-free list of items of one declarative set of `etfGrammar` has at most 8 items -/
theorem etf_nodup_le {w : List Nat} {ok : Nat → Nat → Nat → Bool} {j : Nat} {s : List Item}
    (hnd : s.Nodup) (hs : ∀ it ∈ s, EarleyF etfGrammar ok w j it) : s.length ≤ 8 := by
  have hnd2 := etf_nodup_map_of_inj_on (f := etfSlot) hnd
    (fun a ha b hb hab => etf_slot_inj (hs a ha) (hs b hb) hab)
  have hsub : s.map etfSlot ⊆ etfAllowed (lastTok w j) := by
    intro p hp
    obtain ⟨it, hit, rfl⟩ := List.mem_map.mp hp
    exact etf_slot_allowed (hs it hit)
  have := nodup_subset_length hnd2 hsub
  rw [List.length_map] at this
  exact Nat.le_trans this (etfAllowed_length_le _)


/-! ## why the nesting depth does not matter: an item spans at most one unmatched `(` -/

/-- the parentheses among the terminals of a symbol string -/
def etfTokDepth : List Sym → Int
  | [] => 0
  | .t a :: α => pdelta (some a) + etfTokDepth α
  | .n _ :: α => etfTokDepth α

theorem pd_succ (w : List Nat) (m : Nat) : pd w (m + 1) = pd w m + pdelta w[m]? := rfl

theorem etf_ns_depth {w : List Nat} {A i j : Nat} (hA : A = 0 ∨ A = 2 ∨ A = 3)
    (h : (etfModel w).NS A i j) : i ≤ j ∧ pd w j = pd w i := by
  have hd : Dyck w i j := by
    rcases hA with rfl | rfl | rfl
    · exact h.2.1
    · exact h.1.2.1
    · exact h.1.1.2.1
  exact ⟨hd.1, hd.2.1⟩

theorem seqSpan_depth {w : List Nat} : ∀ (α : List Sym) (i j : Nat),
    (∀ X ∈ α, etfNtOK X = true) → SeqSpan w (etfModel w) α i j →
    i ≤ j ∧ pd w j = pd w i + etfTokDepth α := by
  intro α
  induction α with
  | nil =>
    intro i j _ h
    have e : i = j := h
    subst e
    exact ⟨Nat.le_refl _, by simp [etfTokDepth]⟩
  | cons X α ih =>
    intro i j hok h
    obtain ⟨k, h1, h2⟩ := h
    obtain ⟨h3, h4⟩ := ih k j (fun Y hY => hok Y (List.mem_cons_of_mem _ hY)) h2
    have hX := hok X (List.mem_cons_self ..)
    cases X with
    | t a =>
      obtain ⟨rfl, ha⟩ := h1
      have := pd_succ w i
      rw [ha] at this
      refine ⟨by omega, ?_⟩
      show pd w j = pd w i + (pdelta (some a) + etfTokDepth α)
      omega
    | n A =>
      have hA : A = 0 ∨ A = 2 ∨ A = 3 := by
        have : (A = 0 ∨ A = 2) ∨ A = 3 := by simpa [etfNtOK] using hX
        omega
      obtain ⟨h5, h6⟩ := etf_ns_depth hA h1
      refine ⟨by omega, ?_⟩
      show pd w j = pd w i + etfTokDepth α
      omega

theorem etf_depth_check : ∀ r ∈ List.range 8, ∀ d ∈ List.range 4,
    etfTokDepth ((etfGrammar.rules[r]?.getD default).rhs.take d) =
      if r = 6 ∧ (d = 1 ∨ d = 2) then 1 else 0 := by decide

/-- **the segment `[i, j)` of an item `(r, d, i)` of set `j` is balanced, except that the items
`F : ( . E )` and `F : ( E . )` span their own `(`**: whatever the nesting depth at `j`, an item
"sees" at most one open parenthesis -/
theorem etf_item_depth {w : List Nat} {ok : Nat → Nat → Nat → Bool} {j r d i : Nat}
    (h : EarleyF etfGrammar ok w j ⟨r, d, i⟩) :
    i ≤ j ∧ pd w j = pd w i + (if r = 6 ∧ (d = 1 ∨ d = 2) then 1 else 0) := by
  have hs := EarleyF.itemSpan (etfModel_sound w) h
  obtain ⟨h1, h2⟩ := etf_item_range hs
  obtain ⟨rl, hr, _, _, hsp⟩ := hs
  simp only at hr hsp h1 h2
  have hok : ∀ X ∈ rl.rhs.take d, etfNtOK X = true := fun X hX =>
    etf_rhs_nts rl (List.mem_of_getElem? hr) X (List.mem_of_mem_take hX)
  obtain ⟨h3, h4⟩ := seqSpan_depth _ i j hok hsp
  have e : rl = etfGrammar.rules[r]?.getD default := by rw [hr]; rfl
  rw [e, etf_depth_check r (List.mem_range.mpr h1) d (List.mem_range.mpr h2)] at h4
  exact ⟨h3, h4⟩

/-! ## the executable sets (`buildPL`, every lookahead level of that model) -/

theorem etf_wf : etfGrammar.WF ∧ etfGrammar.symsInRange = true := by decide

/-- every set of the parse list of `etfGrammar` has at most 8 items: every input, every level -/
theorem etf_buildPL_le (la : Nat) (w : List Nat) (j : Nat)
    (h : j < (buildPL etfGrammar la w).2.length) :
    ((buildPL etfGrammar la w).2[j]).length ≤ 8 :=
  etf_nodup_le (buildPL_nodup _ _ _ _ (List.getElem_mem h)) (fun _ hit => buildPL_item h hit)

/-! ## at most 4 origins per set -/

/-- the origin class of a dotted rule: within one set, items of the same class have the same origin -/
def etfKey (r d : Nat) : Nat :=
  if d = 0 then 0
  else match r, d with
    | 1, 2 => 1
    | 3, _ => 1
    | 4, _ => 1
    | 6, 1 => 1
    | 1, _ => 2
    | 2, _ => 2
    | 0, 1 => 3
    | 6, 2 => 3
    | _, _ => 0

theorem etfKey_lt (r d : Nat) : etfKey r d < 4 := by
  unfold etfKey
  split
  · omega
  · split <;> omega

def etfRule (r : Nat) : Rule := etfGrammar.rules[r]?.getD default

/-- the part before the dot is a phrase of the left-hand side: the rule is complete, or the dot
is after a first symbol that is the left-hand side itself -/
def etfSpanOK (r d : Nat) : Bool :=
  d == (etfRule r).rhs.length || (d == 1 && (etfRule r).rhs[0]? == some (Sym.n (etfRule r).lhs))

def etfPairOK (r d r' d' : Nat) : Nat :=
  if r = r' ∧ d = d' then 1
  else if d = 0 ∧ d' = 0 then 2
  else if (etfRule r).lhs = 1 ∧ (etfRule r').lhs = 1 then 3
  else if (etfRule r).lhs = (etfRule r').lhs ∧ etfSpanOK r d = true ∧ etfSpanOK r' d' = true then 4
  else if (r = 0 ∧ d = 1 ∧ r' = 6 ∧ d' = 2) ∨ (r = 6 ∧ d = 2 ∧ r' = 0 ∧ d' = 1) then 5
  else 0

theorem etf_pair_check : ∀ r ∈ List.range 8, ∀ d ∈ List.range 4, ∀ r' ∈ List.range 8,
    ∀ d' ∈ List.range 4, ∀ l ∈ etfLasts r d, l ∈ etfLasts r' d' → etfKey r d = etfKey r' d' →
      etfPairOK r d r' d' ≠ 0 := by decide +kernel


theorem etfRule_eq {r : Nat} {rl : Rule} (h : etfGrammar.rules[r]? = some rl) : rl = etfRule r := by
  unfold etfRule; rw [h]; rfl

/-- the phrase fact of an item with `etfSpanOK` -/
theorem etf_span_fact {w : List Nat} {j r d i : Nat}
    (h : ItemSpan (etfModel w) etfGrammar w j ⟨r, d, i⟩) (hok : etfSpanOK r d = true) :
    (etfModel w).LC (etfRule r).lhs i ∧ (etfModel w).NS (etfRule r).lhs i j := by
  obtain ⟨rl, hr, hd, hlc, hsp⟩ := h
  simp only at hr hd hlc hsp
  have e := etfRule_eq hr
  subst e
  refine ⟨hlc, ?_⟩
  unfold etfSpanOK at hok
  simp only [Bool.or_eq_true, Bool.and_eq_true, beq_iff_eq] at hok
  rcases hok with h1 | ⟨h1, h2⟩
  · rw [h1, List.take_length] at hsp
    exact (etfModel_sound w).rule r _ i j hr hlc hsp
  · subst h1
    rw [take_succ_of_getElem? _ h2, List.take_zero, List.nil_append, SeqSpan_single] at hsp
    exact hsp

/-- **within one set, items of the same origin class have the same origin** -/
theorem etf_key_origin {w : List Nat} {ok : Nat → Nat → Nat → Bool} {j : Nat} {a b : Item}
    (ha : EarleyF etfGrammar ok w j a) (hb : EarleyF etfGrammar ok w j b)
    (h : etfKey a.rule a.dot = etfKey b.rule b.dot) : a.origin = b.origin := by
  obtain ⟨r, d, i⟩ := a
  obtain ⟨r', d', i'⟩ := b
  simp only at h ⊢
  have sa := EarleyF.itemSpan (etfModel_sound w) ha
  have sb := EarleyF.itemSpan (etfModel_sound w) hb
  obtain ⟨a1, a2⟩ := etf_item_range sa
  obtain ⟨b1, b2⟩ := etf_item_range sb
  have hchk := etf_pair_check r (List.mem_range.mpr a1) d (List.mem_range.mpr a2)
    r' (List.mem_range.mpr b1) d' (List.mem_range.mpr b2) _ (etf_item_lasts sa) (etf_item_lasts sb) h
  unfold etfPairOK at hchk
  split at hchk
  · rename_i c
    obtain ⟨rfl, rfl⟩ := c
    exact EarleyF.origin_unique (etfModel_sound w) (etfModel_det w) ha hb
  · split at hchk
    · rename_i c
      obtain ⟨rfl, rfl⟩ := c
      obtain ⟨_, _, _, _, h1⟩ := sa
      obtain ⟨_, _, _, _, h2⟩ := sb
      simp only [List.take_zero] at h1 h2
      have e1 : i = j := h1
      have e2 : i' = j := h2
      omega
    · split at hchk
      · rename_i c
        obtain ⟨rl, hr, _, hlc, _⟩ := sa
        obtain ⟨rl', hr', _, hlc', _⟩ := sb
        simp only at hr hlc hr' hlc'
        rw [etfRule_eq hr, c.1] at hlc
        rw [etfRule_eq hr', c.2] at hlc'
        have e1 : i = 0 := hlc
        have e2 : i' = 0 := hlc'
        omega
      · split at hchk
        · rename_i c
          obtain ⟨f1, f2⟩ := etf_span_fact sa c.2.1
          obtain ⟨g1, g2⟩ := etf_span_fact sb c.2.2
          rw [← c.1] at g1 g2
          exact (etfModel_det w).uniq _ i i' j f1 g1 f2 g2
        · split at hchk
          · rename_i c
            rcases c with ⟨rfl, rfl, rfl, rfl⟩ | ⟨rfl, rfl, rfl, rfl⟩
            · exact absurd (etf_exclusive ha hb) id
            · exact absurd (etf_exclusive hb ha) id
          · exact absurd rfl hchk

/-- the origins of a list of items of one declarative set of `etfGrammar`: at most 4 -/
theorem etf_origins_le {w : List Nat} {ok : Nat → Nat → Nat → Bool} {j : Nat} {s : List Item}
    (hs : ∀ it ∈ s, EarleyF etfGrammar ok w j it) :
    ∃ O : List Nat, O.length ≤ 4 ∧ ∀ it ∈ s, it.origin ∈ O := by
  refine ⟨(List.range 4).map fun c =>
    ((s.find? fun it => etfKey it.rule it.dot == c).map (·.origin)).getD 0, by simp, ?_⟩
  intro it hit
  rw [List.mem_map]
  refine ⟨etfKey it.rule it.dot, List.mem_range.mpr (etfKey_lt _ _), ?_⟩
  cases hf : s.find? fun x => etfKey x.rule x.dot == etfKey it.rule it.dot with
  | none =>
    have := List.find?_eq_none.mp hf it hit
    simp at this
  | some x =>
    have hx := List.mem_of_find?_eq_some hf
    have hk := List.find?_some hf
    simp only [beq_iff_eq] at hk
    simp only [Option.map_some, Option.getD_some]
    exact etf_key_origin (hs x hx) (hs it hit) hk

end Yaep.ETF
