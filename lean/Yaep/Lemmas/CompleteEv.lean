import Yaep.Lemmas.CompleteDef
/-!
# Completeness of the all-parses forest, part 2: what the machine will still deliver

`Ev g toks s π t`: the tree `t` is, or will be, among the trees slot `π` denotes: it is denoted
already (`now`), or a parse state on the stack whose translation goes to `π` *owes* it
(`OweBy`): the state still has to move its dot over the first `pos` symbols of its rule, and for
EVERY list of derivations of these symbols on `toks[orig, pl_ind)` it will deliver the translation
built from them and from what the slots of the processed symbols (will) denote.
-/
namespace Yaep.CP
open Yaep Yaep.MP

/-- the list index a state is at (the field `pl_ind` is not kept up to date once `pos = 0`) -/
def cur (st : PState) : Nat := if st.pos = 0 then st.orig else st.plInd

/-- the place the translation of the rule instance of a state goes to: slot `parent_disp` of the
abstract node of `parent_anode_state` -/
def tgt (s : St) (st : PState) : Nat × Nat := (((s.state st.parent).anode).getD 0, st.parentDisp)

/-- what the state `st` owes to the place `π`, given what the slots of its own abstract node will
denote (`R`) -/
inductive OweBy (g : Grammar) (toks : List Nat) (s : St) (R : Nat × Nat → Tree → Prop) (st : PState) :
    Nat × Nat → Tree → Prop
  | owner {π : Nat × Nat} {a : Nat} {rl : Rule} {kids : List PT} {nm : String} {slots : List Tree} :
      tgt s st = π → st.anode = some a → g.rules[st.rule]? = some rl → rl.anode = some nm →
      PT.ValidListAt g toks kids (rl.rhs.take st.pos) st.orig (cur st) →
      slots.length = rl.transLen →
      (∀ d q, d < rl.transLen → rl.order.getD q none = some d → q < st.pos →
        slots.getD d .nil = translate g (kids.getD q default)) →
      (∀ d q, d < rl.transLen → rl.order.getD q none = some d → st.pos ≤ q → R (a, d) (slots.getD d .nil)) →
      (∀ d, d < rl.transLen → (∀ q, rl.order.getD q none ≠ some d) → slots.getD d .nil = .nil) →
      OweBy g toks s R st π (.anode nm rl.cost slots)
  | pass {π : Nat × Nat} {rl : Rule} {kids : List PT} {q : Nat} :
      tgt s st = π → st.anode = none → g.rules[st.rule]? = some rl →
      PT.ValidListAt g toks kids (rl.rhs.take st.pos) st.orig (cur st) →
      q < st.pos → (rl.order.getD q none).isSome = true →
      OweBy g toks s R st π (translate g (kids.getD q default))
  | passNil {π : Nat × Nat} {rl : Rule} :
      tgt s st = π → st.anode = none → g.rules[st.rule]? = some rl →
      (∀ q, rl.order.getD q none = none) → OweBy g toks s R st π .nil

theorem OweBy.mono {g : Grammar} {toks : List Nat} {s : St} {R R' : Nat × Nat → Tree → Prop}
    {st : PState} {π : Nat × Nat} {t : Tree} (hR : ∀ π t, R π t → R' π t)
    (h : OweBy g toks s R st π t) : OweBy g toks s R' st π t := by
  cases h with
  | owner h1 h2 h3 h4 h5 h6 h7 h8 h9 =>
    exact .owner h1 h2 h3 h4 h5 h6 h7 (fun d q hd ho hq => hR _ _ (h8 d q hd ho hq)) h9
  | pass h1 h2 h3 h4 h5 h6 => exact .pass h1 h2 h3 h4 h5 h6
  | passNil h1 h2 h3 h4 => exact .passNil h1 h2 h3 h4

/-- the same debt, seen from another machine state in which the target place is the same -/
theorem OweBy.congr {g : Grammar} {toks : List Nat} {s s' : St} {R : Nat × Nat → Tree → Prop}
    {st : PState} {π : Nat × Nat} {t : Tree} (ht : tgt s' st = tgt s st)
    (h : OweBy g toks s R st π t) : OweBy g toks s' R st π t := by
  cases h with
  | owner h1 h2 h3 h4 h5 h6 h7 h8 h9 => exact .owner (ht.trans h1) h2 h3 h4 h5 h6 h7 h8 h9
  | pass h1 h2 h3 h4 h5 h6 => exact .pass (ht.trans h1) h2 h3 h4 h5 h6
  | passNil h1 h2 h3 h4 => exact .passNil (ht.trans h1) h2 h3 h4

theorem OweBy.tgt_eq {g : Grammar} {toks : List Nat} {s : St} {R : Nat × Nat → Tree → Prop}
    {st : PState} {π : Nat × Nat} {t : Tree} (h : OweBy g toks s R st π t) : tgt s st = π := by
  cases h <;> assumption

/-- `t` is or will be denoted by slot `π` -/
inductive Ev (g : Grammar) (toks : List Nat) (s : St) : Nat × Nat → Tree → Prop
  | now {π : Nat × Nat} {t : Tree} : DenSlot s.heap π t → Ev g toks s π t
  | owner {x : Nat} {π : Nat × Nat} {a : Nat} {rl : Rule} {kids : List PT} {nm : String} {slots : List Tree} :
      x ∈ s.stack →
      tgt s (s.state x) = π → (s.state x).anode = some a → g.rules[(s.state x).rule]? = some rl →
      rl.anode = some nm →
      PT.ValidListAt g toks kids (rl.rhs.take (s.state x).pos) (s.state x).orig (cur (s.state x)) →
      slots.length = rl.transLen →
      (∀ d q, d < rl.transLen → rl.order.getD q none = some d → q < (s.state x).pos →
        slots.getD d .nil = translate g (kids.getD q default)) →
      (∀ d q, d < rl.transLen → rl.order.getD q none = some d → (s.state x).pos ≤ q →
        Ev g toks s (a, d) (slots.getD d .nil)) →
      (∀ d, d < rl.transLen → (∀ q, rl.order.getD q none ≠ some d) → slots.getD d .nil = .nil) →
      Ev g toks s π (.anode nm rl.cost slots)
  | pass {x : Nat} {π : Nat × Nat} {rl : Rule} {kids : List PT} {q : Nat} :
      x ∈ s.stack →
      tgt s (s.state x) = π → (s.state x).anode = none → g.rules[(s.state x).rule]? = some rl →
      PT.ValidListAt g toks kids (rl.rhs.take (s.state x).pos) (s.state x).orig (cur (s.state x)) →
      q < (s.state x).pos → (rl.order.getD q none).isSome = true →
      Ev g toks s π (translate g (kids.getD q default))
  | passNil {x : Nat} {π : Nat × Nat} {rl : Rule} :
      x ∈ s.stack →
      tgt s (s.state x) = π → (s.state x).anode = none → g.rules[(s.state x).rule]? = some rl →
      (∀ q, rl.order.getD q none = none) → Ev g toks s π .nil

/-- a debt of a state on the stack -/
theorem Ev.owe {g : Grammar} {toks : List Nat} {s : St} {x : Nat} {π : Nat × Nat} {t : Tree}
    (hx : x ∈ s.stack) (h : OweBy g toks s (Ev g toks s) (s.state x) π t) : Ev g toks s π t := by
  cases h with
  | owner h1 h2 h3 h4 h5 h6 h7 h8 h9 => exact .owner hx h1 h2 h3 h4 h5 h6 h7 h8 h9
  | pass h1 h2 h3 h4 h5 h6 => exact .pass hx h1 h2 h3 h4 h5 h6
  | passNil h1 h2 h3 h4 => exact .passNil hx h1 h2 h3 h4

/-- inversion -/
theorem Ev.inv {g : Grammar} {toks : List Nat} {s : St} {π : Nat × Nat} {t : Tree}
    (h : Ev g toks s π t) :
    DenSlot s.heap π t ∨ ∃ x ∈ s.stack, OweBy g toks s (Ev g toks s) (s.state x) π t := by
  cases h with
  | now h => exact Or.inl h
  | owner hx h1 h2 h3 h4 h5 h6 h7 h8 h9 => exact Or.inr ⟨_, hx, .owner h1 h2 h3 h4 h5 h6 h7 h8 h9⟩
  | pass hx h1 h2 h3 h4 h5 h6 => exact Or.inr ⟨_, hx, .pass h1 h2 h3 h4 h5 h6⟩
  | passNil hx h1 h2 h3 h4 => exact Or.inr ⟨_, hx, .passNil h1 h2 h3 h4⟩

/-- **transfer**: from `s` to `s'` the denotation of every slot only grows, every state on the stack
that is not one of the states `P` (the state the step works on) is untouched, and every debt of a
`P` state in `s` (with the debts of the slots of its abstract node already transferred) is honoured
in `s'`: then everything that is or will be denoted in `s` is or will be denoted in `s'`. -/
theorem Ev.transfer {g : Grammar} {toks : List Nat} {s s' : St} (P : Nat → Prop)
    (hden : ∀ π t, DenSlot s.heap π t → DenSlot s'.heap π t)
    (hoth : ∀ x ∈ s.stack, ¬ P x → x ∈ s'.stack ∧ s'.state x = s.state x ∧
      tgt s' (s.state x) = tgt s (s.state x))
    (htop : ∀ x ∈ s.stack, P x → ∀ π t,
      OweBy g toks s (fun π t => Ev g toks s π t ∧ Ev g toks s' π t) (s.state x) π t →
      Ev g toks s' π t)
    {π : Nat × Nat} {t : Tree} (h : Ev g toks s π t) : Ev g toks s' π t := by
  classical
  induction h with
  | now h => exact .now (hden _ _ h)
  | @owner x π a rl kids nm slots hx h1 h2 h3 h4 h5 h6 h7 h8 h9 ih =>
    by_cases hP : P x
    · exact htop x hx hP _ _
        (.owner h1 h2 h3 h4 h5 h6 h7 (fun d q hd ho hq => ⟨h8 d q hd ho hq, ih d q hd ho hq⟩) h9)
    · obtain ⟨o1, o2, o3⟩ := hoth x hx hP
      refine Ev.owe o1 ?_
      rw [o2]
      exact OweBy.congr o3 (.owner h1 h2 h3 h4 h5 h6 h7 (fun d q hd ho hq => ih d q hd ho hq) h9)
  | @pass x π rl kids q hx h1 h2 h3 h4 h5 h6 =>
    by_cases hP : P x
    · exact htop x hx hP _ _ (.pass h1 h2 h3 h4 h5 h6)
    · obtain ⟨o1, o2, o3⟩ := hoth x hx hP
      refine Ev.owe o1 ?_
      rw [o2]
      exact OweBy.congr o3 (.pass h1 h2 h3 h4 h5 h6)
  | @passNil x π rl hx h1 h2 h3 h4 =>
    by_cases hP : P x
    · exact htop x hx hP _ _ (.passNil h1 h2 h3 h4)
    · obtain ⟨o1, o2, o3⟩ := hoth x hx hP
      refine Ev.owe o1 ?_
      rw [o2]
      exact OweBy.congr o3 (.passNil h1 h2 h3 h4)

/-- nothing on the stack is touched: `Ev` is monotone -/
theorem Ev.mono {g : Grammar} {toks : List Nat} {s s' : St}
    (hden : ∀ π t, DenSlot s.heap π t → DenSlot s'.heap π t)
    (hoth : ∀ x ∈ s.stack, x ∈ s'.stack ∧ s'.state x = s.state x ∧
      tgt s' (s.state x) = tgt s (s.state x))
    {π : Nat × Nat} {t : Tree} (h : Ev g toks s π t) : Ev g toks s' π t :=
  Ev.transfer (fun _ => False) hden (fun x hx _ => hoth x hx) (fun _ _ hP => absurd hP id) h

end Yaep.CP
