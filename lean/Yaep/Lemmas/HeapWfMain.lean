import Yaep.Lemmas.HeapWfLoop
/-!
# The heaps of the model of `make_parse` are well formed, part 9: the main loop

`hstep_nt` (a nonterminal before the dot), `hastep_inv` (one iteration of the main loop keeps
`AGood` and `HInv` together), `harun_inv`, `hainit` (the initial state), and
`makeParse_heap_wf_ctx`: the final heap of all-parses mode satisfies `PC.WfHeap`.
-/
namespace Yaep.MP
open Yaep

section
variable {g : Grammar} {ok : Nat → Nat → Nat → Bool} {toks : List Nat} {c : Ctx}

theorem HLoop.congr {N : Nat} {L : Loc} {hiX : Nat} {s s' : St} {Γ : Gh} {os : List Nat}
    (h : HLoop g N L hiX s Γ os) (hh : s'.heap = s.heap) (hs : s'.states = s.states)
    (hk : s'.stack = s.stack) (ht : s'.table = s.table) : HLoop g N L hiX s' Γ os :=
  ⟨HSt.of_eq h.inv hh hs hk ht, h.shi⟩

/-- **a nonterminal before the dot**: either no candidate passes the check (the flag `bad` is set)
or both invariants hold again -/
theorem hstep_nt (hc : CtxAll g ok toks c) (hwf : g.translWF = true) (hcyc : ¬ Cyclic g)
    (hsr : g.symsInRange = true) {s : St} {G : Ghost} {Γ : Gh}
    (hgood : AGood g ok toks s G none) (hi : HSt g toks.length s Γ) {X : Nat} {rest : List Nat}
    (hst : s.stack = X :: rest) {rlX : Rule} {A : Nat} (hr : g.rules[(s.state X).rule]? = some rlX)
    (hpos : (s.state X).pos ≠ 0) (hsym : rlX.rhs[(s.state X).pos - 1]? = some (.n A)) :
    (step c s).bad = true ∨
      ((∃ G', AGood g ok toks (step c s) G' none) ∧ ∃ Γ', HSt g toks.length (step c s) Γ') := by
  have hXmem : X ∈ s.stack := by rw [hst]; simp
  obtain ⟨rl0, hX0⟩ := hgood.states X hXmem
  have est : s.states.getD X default = s.state X := rfl
  obtain ⟨pa, hpa⟩ := hX0.pa
  have hpa' : (s.state (s.state X).parent).anode = some pa := hpa
  have hrule := hc.rule_eq hr
  have hXlt := hX0.lt
  rw [step_nt' hst hpos (by rw [hrule]; exact getD_of_getElem? hsym)]
  have hLdisp : (ntLoc c s X A).disp = rlX.order.getD ((s.state X).pos - 1) none := by
    simp only [ntLoc, hrule]
  have lc := lc_of_inv (c := c) (A := A) hi hXmem hr hpos
  cases hd : rlX.order.getD ((s.state X).pos - 1) none with
  | none =>
    have hLd : (ntLoc c s X A).disp = none := by rw [hLdisp]; exact hd
    obtain ⟨os', hM⟩ := candLoop_all (L := ntLoc c s X A) (set := c.sets.getD (s.state X).plInd #[]) hc.all
      (fun n _ s' => (n = 0 ∧ s' = ntS0 s X) ∨
        (n ≠ 0 ∧ (∃ G', AGood g ok toks s' G' none) ∧ ∃ Γ', HSt g toks.length s' Γ'))
      (fun n os s' hn hm => by
        rcases hm with ⟨h0, _⟩ | ⟨_, ⟨G', hg⟩, ⟨Γ', hh⟩⟩
        · exact absurd h0 hn
        · exact Or.inr ⟨hn, ⟨G', hg.congr rfl rfl rfl rfl rfl⟩, ⟨Γ', HSt.of_eq hh rfl rfl rfl rfl⟩⟩)
      (reduces c (c.sets.getD (s.state X).plInd #[]) A)
      (fun i hi' n os s' hf hm => by
        obtain ⟨sr, so, rl', kids, hsit, hr', hlhs, hE, hkid, hE2⟩ := cand_facts_all hc hi' hf
        rw [candidate_untr hLd]
        right
        refine ⟨Nat.succ_ne_zero _, ?_⟩
        rcases hm with ⟨h0, rfl⟩ | ⟨hn, ⟨G', hg⟩, ⟨Γ', hh⟩⟩
        · subst h0
          refine ⟨cand_untr_zero hwf hgood hst hr hpos hsym hd hkid hE2 (by rw [hsit]), ?_⟩
          rw [candPre_zero, hsit]
          obtain ⟨e1, e2, e3, e4, e5, e6⟩ := advance_states (s := s) (k := so) hXlt (ntLoc c s X A) rfl
          exact ⟨Γ, hadvance (ok := ok) c (hgood.topFacts hwf hst) hi hst hr hpos hsym hr' hlhs hE e1 e2 e3 e4 e5 e6⟩
        · obtain ⟨p1, p2, p3, p4, p5⟩ := candPre_untr_pos (L := ntLoc c s X A)
            (sit := (c.sets.getD (s.state X).plInd #[]).getD i default) (s := s') hn
          exact ⟨⟨G', hg.congr p1 p2 p3 p4 p5⟩, ⟨Γ', HSt.of_eq hh p1 p2 p3 p4⟩⟩)
      0 [] (ntS0 s X) (Or.inl ⟨rfl, rfl⟩)
    rcases hM with ⟨h0, _⟩ | ⟨hn, hg, hh⟩
    · left; rw [h0]; rfl
    · right
      have : ((candLoop c (ntLoc c s X A) (c.sets.getD (s.state X).plInd #[])
          (reduces c (c.sets.getD (s.state X).plInd #[]) A) 0 [] (ntS0 s X)).2 == 0) = false := by
        simpa using hn
      rw [this]
      exact ⟨hg, hh⟩
  | some d =>
    have hLd : (ntLoc c s X A).disp = some d := by rw [hLdisp]; exact hd
    have hLpa : (ntLoc c s X A).parentAnode = some pa := hpa'
    obtain ⟨os', hM⟩ := candLoop_all (L := ntLoc c s X A) (set := c.sets.getD (s.state X).plInd #[]) hc.all
      (fun n os s' => (n = 0 ∧ os = [] ∧ s' = ntS0 s X) ∨
        (n ≠ 0 ∧ (∃ G', LoopOK g ok toks (ntLoc c s X A) rlX A d pa s' G' os) ∧
          ∃ Γ', HLoop g toks.length (ntLoc c s X A) (Γ.shi X) s' Γ' os))
      (fun n os s' hn hm => by
        rcases hm with ⟨h0, _⟩ | ⟨_, ⟨G', hg⟩, ⟨Γ', hh⟩⟩
        · exact absurd h0 hn
        · exact Or.inr ⟨hn, ⟨G', hg.congr rfl rfl rfl rfl rfl⟩, ⟨Γ', hh.congr rfl rfl rfl rfl⟩⟩)
      (reduces c (c.sets.getD (s.state X).plInd #[]) A)
      (fun i hi' n os s' hf hm => by
        obtain ⟨sr, so, rl', kids, hsit, hr', hlhs, hE, hkid, hE2⟩ := cand_facts_all hc hi' hf
        rw [hsit]
        right
        refine ⟨Nat.succ_ne_zero _, ?_⟩
        rcases hm with ⟨h0, rfl, rfl⟩ | ⟨hn, ⟨G', hg⟩, ⟨Γ', hh⟩⟩
        · subst h0
          exact ⟨cand_step_zero hc hwf hgood hst hr hpos hsym hd hpa' hr' hlhs hE hE2,
            hcand_zero (fun h => hc.rule_eq h) hcyc hsr (hgood.topFacts hwf hst) hi hst hr hpos hsym hd hpa' hr' hlhs
              hE hE2⟩
        · exact ⟨cand_step_pos hc hwf hn hLpa hLd hg hr' hlhs hE hE2,
            hcand_pos hc hcyc hsr hn hLpa hLd hg hh lc hr' hlhs hE hE2⟩)
      0 [] (ntS0 s X) (Or.inl ⟨rfl, rfl, rfl⟩)
    rcases hM with ⟨h0, _⟩ | ⟨hn, ⟨G', hg⟩, ⟨Γ', hh⟩⟩
    · left; rw [h0]; rfl
    · right
      have : ((candLoop c (ntLoc c s X A) (c.sets.getD (s.state X).plInd #[])
          (reduces c (c.sets.getD (s.state X).plInd #[]) A) 0 [] (ntS0 s X)).2 == 0) = false := by
        simpa using hn
      rw [this]
      exact ⟨⟨G', hg.good⟩, ⟨Γ', hh.inv⟩⟩

/-! ## the main loop -/

/-- both invariants of the main loop -/
def HAInv (g : Grammar) (ok : Nat → Nat → Nat → Bool) (toks : List Nat) (s : St) : Prop :=
  s.bad = true ∨ ((∃ G, AGood g ok toks s G none) ∧ ∃ Γ, HSt g toks.length s Γ)

theorem hastep_inv (hc : CtxAll g ok toks c) (hg : GrOK g) (hcyc : ¬ Cyclic g)
    (hsr : g.symsInRange = true) {s : St} (hinv : HAInv g ok toks s) : HAInv g ok toks (step c s) := by
  rcases hinv with hb | ⟨⟨G, hgood⟩, ⟨Γ, hi⟩⟩
  · exact Or.inl (step_bad_all hc.all hb)
  · cases hst : s.stack with
    | nil =>
      have : step c s = s := by unfold step; rw [hst]
      rw [this]; exact Or.inr ⟨⟨G, hgood⟩, ⟨Γ, hi⟩⟩
    | cons X rest =>
      have hXmem : X ∈ s.stack := by rw [hst]; simp
      obtain ⟨rl, hX⟩ := hgood.states X hXmem
      have hr : g.rules[(s.state X).rule]? = some rl := hX.hr
      by_cases hpos : (s.state X).pos = 0
      · exact Or.inr ⟨astep_pop hc hg hgood hst hpos, hstep_pop (c := c) hgood hi hst hpos⟩
      · have hle : (s.state X).pos ≤ rl.rhs.length := hX.posLe
        have hlt : (s.state X).pos - 1 < rl.rhs.length := by omega
        cases hY : rl.rhs[(s.state X).pos - 1] with
        | t a =>
          have hsym : rl.rhs[(s.state X).pos - 1]? = some (.t a) := by
            rw [List.getElem?_eq_getElem hlt, hY]
          exact Or.inr ⟨astep_term hc hg.twf hgood hst hr hpos hsym,
            hstep_term hc hg.twf hgood hi hst hr hpos hsym⟩
        | n A =>
          have hsym : rl.rhs[(s.state X).pos - 1]? = some (.n A) := by
            rw [List.getElem?_eq_getElem hlt, hY]
          exact hstep_nt hc hg.twf hcyc hsr hgood hi hst hr hpos hsym

theorem harun_inv (hc : CtxAll g ok toks c) (hg : GrOK g) (hcyc : ¬ Cyclic g)
    (hsr : g.symsInRange = true) : ∀ (fuel : Nat) (s s' : St), HAInv g ok toks s →
      run c fuel s = some s' → HAInv g ok toks s'
  | 0, s, s', hinv, hr => by
    unfold run at hr
    split at hr
    · injection hr with hr; rw [← hr]; exact hinv
    · cases hr
  | fuel + 1, s, s', hinv, hr => by
    unfold run at hr
    split at hr
    · injection hr with hr; rw [← hr]; exact hinv
    · exact harun_inv hc hg hcyc hsr fuel _ _ (hastep_inv hc hg hcyc hsr hinv) hr

/-- the ghost data of the initial state -/
noncomputable def Gh.init (g : Grammar) (N : Nat) : Gh :=
  { rho := fun i => if i = rootId then rootRho g N else 0, am := fun _ => 0, ap := fun _ => 0,
    hd := fun i => i, shi := fun _ => N }

theorem hainit (hsize : c.sets.size = toks.length + 1)
    (hrule : ∀ {r : Nat} {rl : Rule}, g.rules[r]? = some rl → c.rule r = rl) {s0 : St}
    (hi : init c = some s0) : HSt g toks.length s0 (Gh.init g toks.length) := by
  unfold init at hi
  simp only at hi
  split at hi
  · cases hi
  · rename_i sit hsit
    split at hi
    · cases hi
    · rename_i hcond
      injection hi with hi
      simp only [Bool.or_eq_true, bne_iff_ne, ne_eq, not_or, Decidable.not_not] at hcond
      obtain ⟨⟨ho, hlhs⟩, hdot⟩ := hcond
      have hpl : c.sets.size - 1 = toks.length := by rw [hsize]; rfl
      rw [hpl] at hi
      subst hi
      have hgetK : ∀ a d, getKid (#[MNode.nil, .err, .anode "$result" 0 #[none]] : Array MNode) a d = none := by
        intro a d
        unfold getKid
        rcases Nat.lt_or_ge a 3 with h3 | h3
        · have : a = 0 ∨ a = 1 ∨ a = 2 := by omega
          rcases this with rfl | rfl | rfl
          · rfl
          · rfl
          · show (#[none] : Array (Option Nat)).getD d none = none
            cases d <;> simp [Array.getD_eq_getD_getElem?]
        · simp [Array.getD_eq_getD_getElem?, Array.getElem?_eq_none (show (#[MNode.nil, .err, .anode "$result" 0 #[none]] : Array MNode).size ≤ a from h3)]
      refine ⟨?_, rfl, rfl, rfl, by show (2 : Nat) < 3; omega, by show (0 : Nat) < 2; omega, ?_, ?_, ?_⟩
      · intro i hi'
        have hi3 : i < 3 := hi'
        have : i = 0 ∨ i = 1 ∨ i = 2 := by omega
        rcases this with rfl | rfl | rfl
        · exact ⟨rfl, rfl⟩
        · exact ⟨rfl, rfl⟩
        · refine ⟨?_, rfl, ?_⟩
          · show 0 < (if (2 : Nat) = rootId then rootRho g toks.length else 0)
            show 0 < rootRho g toks.length
            unfold rootRho; omega
          · intro d k hk
            have := hgetK 2 d
            unfold getKid at this
            have e : (#[none] : Array (Option Nat)).getD d none = none := this
            rw [e] at hk; cases hk
      · intro a d _ k hk
        rw [hgetK] at hk; cases hk
      · intro sid hsid
        simp only [List.mem_singleton] at hsid
        subst hsid
        refine ⟨by show (1 : Nat) < 2; omega, by show (0 : Nat) < 1; omega, Or.inl ⟨rfl, rfl⟩, Nat.le_refl _,
          Nat.le_refl _, ?_, ?_, ?_, ?_, by show (2 : Nat) < 3; omega⟩
        · intro _ _ rl hrl j sy hj hsy
          have hrl' : g.rules[sit.rule]? = some rl := hrl
          have hruleE := hrule hrl'
          rw [hruleE] at hdot
          have hj' : sit.dot ≤ j := hj
          have := (List.getElem?_eq_some_iff.mp hsy).1
          omega
        · intro rl _ A lo hi2 _ hle
          show rhoI g A lo hi2 + 1 < (if (2 : Nat) = rootId then rootRho g toks.length else 0)
          show rhoI g A lo hi2 + 1 < rootRho g toks.length
          exact rhoI_lt_root g hle
        · intro a ha; cases ha
        · intro a ha; cases ha
      · intro pl r o node hm
        simp [Array.getD_eq_getD_getElem?, Array.getElem?_replicate] at hm
        split at hm <;> simp at hm

/-- **the final heap of all-parses mode is well formed**: over any parse list whose sets contain
only items of the Earley relation, for a grammar without cycles -/
theorem makeParse_heap_wf_ctx {sets : Array (Array Item)} {plToks : Array Int} {fuel : Nat} {s : St}
    {r : Nat} (hc : CtxAll g ok toks (mkCtx g sets plToks false)) (hg : GrOK g) (hcyc : ¬ Cyclic g)
    (hsr : g.symsInRange = true) (hm : makeParseSt (mkCtx g sets plToks false) fuel = some s)
    (hb : s.bad = false) (hres : s.result = some r) :
    ∃ Γ : Gh, PC.WfHeap (PC.ofHeap s.heap) (Γ.rk s.heap) Γ.hd ∧ r < (PC.ofHeap s.heap).size ∧
      Γ.hd r = r := by
  unfold makeParseSt at hm
  split at hm
  · cases hm
  · rename_i s0 hi0
    obtain ⟨G0, hg0⟩ := ainit_inv hc hg hi0
    have h0 := hainit (toks := toks) hc.size (fun h => hc.rule_eq h) hi0
    rcases harun_inv hc hg hcyc hsr fuel s0 s (Or.inr ⟨⟨G0, hg0⟩, ⟨_, h0⟩⟩) hm with hbad | ⟨_, ⟨Γ, hi⟩⟩
    · rw [hbad] at hb; cases hb
    · refine ⟨Γ, hi.hw.wfHeap, ?_, ?_⟩
      · rw [size_ofHeap]; exact hi.hw.kid_lt hres
      · obtain ⟨nm, cc, ks, hcell, hk⟩ := getKid_some_iff.mp hres
        have hlt : rootId < s.heap.size := hi.rootLt
        have := hi.hw rootId hlt
        rw [hcell] at this
        exact (this.2.2 0 r hk).2.1

end

end Yaep.MP
