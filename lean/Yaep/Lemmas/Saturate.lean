import Yaep.Model.Saturate
/-!
# Lemmas about the inflationary iteration `saturate` and the shrinking iteration `shrink`
-/
namespace Yaep

variable {α : Type} [DecidableEq α]

theorem addNew_subset_left (s xs : List α) : s ⊆ addNew s xs := by
  induction xs generalizing s with
  | nil => simp [addNew]
  | cons x xs ih =>
    unfold addNew
    split
    · exact ih s
    · intro a ha; exact ih _ (List.mem_append_left _ ha)

theorem addNew_subset_right (s xs : List α) : xs ⊆ addNew s xs := by
  induction xs generalizing s with
  | nil => simp
  | cons x xs ih =>
    intro a ha
    unfold addNew
    rcases List.mem_cons.mp ha with rfl | h
    · split
      · rename_i hx; exact addNew_subset_left _ _ hx
      · exact addNew_subset_left _ _ (by simp)
    · split
      · exact ih s h
      · exact ih _ h

theorem mem_addNew {s xs : List α} {a : α} (h : a ∈ addNew s xs) : a ∈ s ∨ a ∈ xs := by
  induction xs generalizing s with
  | nil => left; simpa [addNew] using h
  | cons x xs ih =>
    unfold addNew at h
    split at h
    · rcases ih h with h | h
      · exact Or.inl h
      · exact Or.inr (List.mem_cons_of_mem _ h)
    · rcases ih h with h | h
      · rcases List.mem_append.mp h with h | h
        · exact Or.inl h
        · right; simp at h; simp [h]
      · exact Or.inr (List.mem_cons_of_mem _ h)

theorem addNew_nodup {s : List α} (xs : List α) (h : s.Nodup) : (addNew s xs).Nodup := by
  induction xs generalizing s with
  | nil => simpa [addNew]
  | cons x xs ih =>
    unfold addNew
    split
    · exact ih h
    · rename_i hx
      apply ih
      rw [List.nodup_append]
      refine ⟨h, by simp, ?_⟩
      intro a ha b hb
      simp at hb; subst hb
      intro hab; subst hab; exact hx ha

theorem addNew_length_le (s xs : List α) : s.length ≤ (addNew s xs).length := by
  induction xs generalizing s with
  | nil => simp [addNew]
  | cons x xs ih =>
    unfold addNew
    split
    · exact ih s
    · have := ih (s ++ [x]); simp at this; omega

/-- if nothing was added, every element of `xs` was already present -/
theorem addNew_length_eq {s xs : List α} (h : (addNew s xs).length = s.length) : xs ⊆ s := by
  induction xs generalizing s with
  | nil => simp
  | cons x xs ih =>
    unfold addNew at h
    split at h
    · rename_i hx
      intro a ha
      rcases List.mem_cons.mp ha with rfl | h'
      · exact hx
      · exact ih h h'
    · have := addNew_length_le (s ++ [x]) xs
      simp at this; omega

theorem subset_saturate (f : List α → List α) (n : Nat) (s : List α) : s ⊆ saturate f n s := by
  induction n generalizing s with
  | zero => simp [saturate]
  | succ n ih =>
    unfold saturate
    simp only
    split
    · exact fun _ h => h
    · intro a ha; exact ih _ (addNew_subset_left _ _ ha)

theorem saturate_nodup (f : List α → List α) (n : Nat) {s : List α} (h : s.Nodup) :
    (saturate f n s).Nodup := by
  induction n generalizing s with
  | zero => simpa [saturate]
  | succ n ih =>
    unfold saturate
    simp only
    split
    · exact h
    · exact ih (addNew_nodup _ h)

/-- soundness: a property that holds of the start elements and is preserved by `f` holds
of everything `saturate` returns -/
theorem saturate_sound (f : List α → List α) (P : α → Prop)
    (hf : ∀ s, (∀ x ∈ s, P x) → ∀ x ∈ f s, P x) (n : Nat) (s : List α) (hs : ∀ x ∈ s, P x) :
    ∀ x ∈ saturate f n s, P x := by
  induction n generalizing s with
  | zero => simpa [saturate] using hs
  | succ n ih =>
    unfold saturate
    simp only
    split
    · exact hs
    · apply ih
      intro x hx
      rcases mem_addNew hx with h | h
      · exact hs x h
      · exact hf s hs x h

/-- a duplicate-free list inside a universe `U` is not longer than `U` -/
theorem nodup_subset_length {s U : List α} (hnd : s.Nodup) (hsub : s ⊆ U) : s.length ≤ U.length := by
  induction s generalizing U with
  | nil => simp
  | cons a s ih =>
    have ha : a ∈ U := hsub (by simp)
    have hnd' := List.nodup_cons.mp hnd
    have : s ⊆ U.erase a := by
      intro b hb
      have hne : b ≠ a := by intro h; subst h; exact hnd'.1 hb
      exact (List.mem_erase_of_ne hne).mpr (hsub (List.mem_cons_of_mem _ hb))
    have h1 := ih hnd'.2 this
    have h2 := List.length_erase_of_mem ha
    have : 0 < U.length := List.length_pos_of_mem ha
    simp; omega

/-- closure: with enough fuel the result is a fixpoint of `f` (everything `f` derives from
the result is already in it).  `U` is any finite universe that `f` stays inside. -/
theorem saturate_closed (f : List α → List α) (U : List α)
    (hU : ∀ s, s ⊆ U → f s ⊆ U) (n : Nat) (s : List α) (hs : s ⊆ U) (hnd : s.Nodup)
    (hfuel : U.length < s.length + n) :
    f (saturate f n s) ⊆ saturate f n s := by
  induction n generalizing s with
  | zero =>
    have := nodup_subset_length hnd hs
    omega
  | succ n ih =>
    unfold saturate
    simp only
    split
    · rename_i heq; exact addNew_length_eq heq
    · rename_i hne
      have hle := addNew_length_le s (f s)
      apply ih
      · intro a ha
        rcases mem_addNew ha with h | h
        · exact hs h
        · exact hU s hs h
      · exact addNew_nodup _ hnd
      · omega

/-- the result stays inside the universe -/
theorem saturate_subset_univ (f : List α → List α) (U : List α)
    (hU : ∀ s, s ⊆ U → f s ⊆ U) (n : Nat) (s : List α) (hs : s ⊆ U) : saturate f n s ⊆ U := by
  intro x hx
  exact saturate_sound f (· ∈ U) (fun s hs' x hx => hU s (fun a ha => hs' a ha) hx) n s (fun a ha => hs ha) x hx

/-! ## shrink -/

omit [DecidableEq α]

theorem shrink_subset (p : List α → α → Bool) (n : Nat) (s : List α) : shrink p n s ⊆ s := by
  induction n generalizing s with
  | zero => simp [shrink]
  | succ n ih =>
    unfold shrink
    simp only
    split
    · exact fun _ h => h
    · intro a ha; exact (List.mem_filter.mp (ih _ ha)).1

/-- with enough fuel the result is stable: every remaining element satisfies the predicate
relative to the result -/
theorem shrink_stable (p : List α → α → Bool) (n : Nat) (s : List α) (hfuel : s.length < n) :
    ∀ a ∈ shrink p n s, p (shrink p n s) a = true := by
  induction n generalizing s with
  | zero => omega
  | succ n ih =>
    unfold shrink
    simp only
    split
    · rename_i heq
      intro a ha
      have := List.length_filter_eq_length_iff.mp heq
      exact this a ha
    · rename_i hne
      have hle := List.length_filter_le (p s) s
      apply ih
      omega

/-- anything that is stable inside `s` survives the shrinking, provided the predicate is
monotone in the list -/
theorem shrink_greatest (p : List α → α → Bool)
    (hmono : ∀ (s t : List α) (a : α), s ⊆ t → p s a = true → p t a = true)
    (n : Nat) (s L : List α) (hL : L ⊆ s) (hstab : ∀ a ∈ L, p L a = true) :
    L ⊆ shrink p n s := by
  induction n generalizing s with
  | zero => simpa [shrink] using hL
  | succ n ih =>
    unfold shrink
    simp only
    split
    · exact hL
    · apply ih
      intro a ha
      exact List.mem_filter.mpr ⟨hL ha, hmono L s a hL (hstab a ha)⟩

end Yaep
