import Yaep.Spec.DescrAST
/-!
# The description lexer on rendered texts
-/
namespace Yaep

/-! ## bytes -/

theorem UInt8.forall_of_lt {P : UInt8 → Prop} (h : ∀ n, n < 256 → P (UInt8.ofNat n)) :
    ∀ c, P c := by
  intro c
  have := h c.toNat c.toNat_lt
  rwa [UInt8.ofNat_toNat] at this

set_option maxRecDepth 100000 in
/-- the branches of `lexDescr` before the one a white-space byte takes -/
theorem ws_class : ∀ c : UInt8, isWs c = true →
    (c == 0) = false ∧ isIdCh c = false ∧ isDigit c = false ∧ c ≠ 58 :=
  UInt8.forall_of_lt (by decide)

set_option maxRecDepth 100000 in
theorem digit_class : ∀ c : UInt8, isDigit c = true →
    (c == 0) = false ∧ isWs c = false ∧ (c == 47) = false ∧
    (c == 61 || c == 35 || c == 124 || c == 59 || c == 45 || c == 40 || c == 41) = false ∧
    (c == 39) = false ∧ (isAlpha c || c == 95) = false ∧ isIdCh c = true ∧ c ≠ 58 :=
  UInt8.forall_of_lt (by decide)

set_option maxRecDepth 100000 in
theorem alpha_class : ∀ c : UInt8, (isAlpha c || c == 95) = true →
    (c == 0) = false ∧ isWs c = false ∧ (c == 47) = false ∧
    (c == 61 || c == 35 || c == 124 || c == 59 || c == 45 || c == 40 || c == 41) = false ∧
    (c == 39) = false ∧ isIdCh c = true ∧ c ≠ 58 :=
  UInt8.forall_of_lt (by decide)

set_option maxRecDepth 100000 in
theorem slash_class : isWs 47 = false ∧ isIdCh 47 = false ∧ isDigit 47 = false := by decide

/-! ## `spanWhile`, `skipComment` -/

theorem spanWhile_append {p : UInt8 → Bool} {l rest : List UInt8} (hl : ∀ x ∈ l, p x = true)
    (hr : ∀ c, rest.head? = some c → p c = false) : spanWhile p (l ++ rest) = (l, rest) := by
  induction l with
  | nil =>
    cases rest with
    | nil => rfl
    | cons c r =>
      have := hr c rfl
      simp [spanWhile, this]
  | cons x xs ih =>
    have hx := hl x List.mem_cons_self
    have := ih (fun y hy => hl y (List.mem_cons_of_mem _ hy))
    simp [spanWhile, hx, this]

theorem skipComment_body {body : List UInt8} (h : noClose body = true) (rest : List UInt8) :
    skipComment (body ++ 42 :: 47 :: rest) = some rest := by
  induction body with
  | nil => simp [skipComment]
  | cons c b ih =>
    simp only [noClose, Bool.and_eq_true, Bool.not_eq_true'] at h
    obtain ⟨h1, h2⟩ := h
    have ih' := ih h2
    by_cases hc : c = 42
    · subst hc
      cases b with
      | nil =>
        simp only [List.cons_append, List.nil_append] at ih' ⊢
        rw [skipComment]
        · exact ih'
        · intro r _ hr
          simp at hr
      | cons d b' =>
        have hd : d ≠ 47 := by
          intro hd; subst hd; simp at h1
        simp only [List.cons_append] at ih' ⊢
        rw [skipComment]
        · exact ih'
        · intro r _ hr
          simp only [List.cons.injEq] at hr
          exact hd hr.1
    · simp only [List.cons_append]
      rw [skipComment]
      · exact ih'
      · intro r hc' _
        exact hc hc'

/-! ## decimal numbers -/

theorem digit_toUInt8 : ∀ k, k < 10 → isDigit (48 + k).toUInt8 = true ∧
    (48 + k).toUInt8.toNat - 48 = k := by decide

theorem revDigits_spec (f : Nat) : ∀ n, n < f →
    (revDigits f n).foldr (fun d a => a * 10 + (d.toNat - 48)) 0 = n ∧
    (∀ d ∈ revDigits f n, isDigit d = true) ∧ revDigits f n ≠ [] := by
  induction f with
  | zero => intro n h; omega
  | succ f ih =>
    intro n hn
    unfold revDigits
    by_cases h10 : n < 10
    · rw [if_pos h10]
      obtain ⟨h1, h2⟩ := digit_toUInt8 n h10
      refine ⟨by rw [List.foldr_cons, List.foldr_nil, h2]; omega, ?_, by simp⟩
      intro d hd
      rw [List.mem_singleton] at hd
      rw [hd]; exact h1
    · rw [if_neg h10]
      have hlt : n / 10 < f := by omega
      obtain ⟨ih1, ih2, _⟩ := ih (n / 10) hlt
      obtain ⟨h1, h2⟩ := digit_toUInt8 (n % 10) (Nat.mod_lt _ (by decide))
      refine ⟨?_, ?_, by simp⟩
      · rw [List.foldr_cons, ih1, h2]
        omega
      · intro d hd
        rcases List.mem_cons.mp hd with rfl | hd
        · exact h1
        · exact ih2 d hd

theorem decDigits_spec (n : Nat) :
    (decDigits n).foldl (fun a d => a * 10 + (d.toNat - 48)) 0 = n ∧
    (∀ d ∈ decDigits n, isDigit d = true) ∧ decDigits n ≠ [] := by
  obtain ⟨h1, h2, h3⟩ := revDigits_spec (n + 1) n (Nat.lt_succ_self _)
  unfold decDigits
  refine ⟨?_, ?_, ?_⟩
  · rw [List.foldl_reverse]; exact h1
  · intro d hd; exact h2 d (List.mem_reverse.mp hd)
  · intro h; exact h3 (List.reverse_eq_nil_iff.mp h)

/-! ## identifiers -/

theorem bytesToString_identBytes {s : String}
    (h : ∀ c ∈ s.toList, c.toNat < 128) : bytesToString (identBytes s) = s := by
  unfold bytesToString identBytes
  rw [List.map_map]
  have : s.toList.map ((fun b : UInt8 => Char.ofNat b.toNat) ∘ fun c : Char => c.toNat.toUInt8)
      = s.toList := by
    rw [List.map_congr_left (g := id)]
    · simp
    · intro c hc
      have hlt := h c hc
      simp only [Function.comp, id]
      have : c.toNat.toUInt8.toNat = c.toNat := by
        simp [Nat.mod_eq_of_lt (show c.toNat < 256 by omega)]
      rw [this, Char.ofNat_toNat]
  rw [this]
  exact String.ofList_toList

/-- what `wfIdent` says about the bytes of an identifier -/
theorem wfIdent_bytes {s : String} (h : wfIdent s = true) :
    ∃ c0 idr, identBytes s = c0 :: idr ∧ (isAlpha c0 || c0 == 95) = true ∧
      (∀ x ∈ idr, isIdCh x = true) ∧ bytesToString (c0 :: idr) = s ∧ s ≠ "TERM" := by
  unfold wfIdent at h
  rw [Bool.and_eq_true] at h
  obtain ⟨h1, h2⟩ := h
  have hne : s ≠ "TERM" := by simpa using h2
  cases hl : s.toList with
  | nil => rw [hl] at h1; cases h1
  | cons c cs =>
    rw [hl] at h1
    simp only [Bool.and_eq_true, List.all_eq_true] at h1
    obtain ⟨hc, hcs⟩ := h1
    have hc' : c.toNat < 128 ∧ (isAlpha c.toNat.toUInt8 || c.toNat.toUInt8 == 95) = true := by
      unfold idStartC at hc
      simpa using hc
    have hcs' : ∀ x ∈ cs, x.toNat < 128 ∧ isIdCh x.toNat.toUInt8 = true := by
      intro x hx
      have := hcs x hx
      unfold idCharC at this
      simpa using this
    have hbytes : identBytes s = c.toNat.toUInt8 :: cs.map fun c => c.toNat.toUInt8 := by
      unfold identBytes
      rw [hl]; rfl
    refine ⟨_, _, hbytes, hc'.2, ?_, ?_, hne⟩
    · intro x hx
      obtain ⟨y, hy, rfl⟩ := List.mem_map.mp hx
      exact (hcs' y hy).2
    · rw [← hbytes]
      apply bytesToString_identBytes
      intro x hx
      rw [hl] at hx
      rcases List.mem_cons.mp hx with rfl | hx
      · exact hc'.1
      · exact (hcs' x hx).1

/-! ## one step of the lexer -/

theorem lex_nil (f : Nat) (acc : List DTok) : lexDescr (f + 1) [] acc = some (acc ++ [.eof]) := rfl

theorem lex_ws {c : UInt8} (hc : isWs c = true) (f : Nat) (rest : List UInt8) (acc : List DTok) :
    lexDescr (f + 1) (c :: rest) acc = lexDescr f rest acc := by
  obtain ⟨h0, _⟩ := ws_class c hc
  conv => lhs; unfold lexDescr
  simp only [h0, hc, Bool.false_eq_true, if_false, if_true]

theorem lex_comment {body : List UInt8} (hb : noClose body = true) (f : Nat) (rest : List UInt8)
    (acc : List DTok) :
    lexDescr (f + 1) (47 :: 42 :: (body ++ 42 :: 47 :: rest)) acc = lexDescr f rest acc := by
  conv => lhs; unfold lexDescr
  have h1 : ((47 : UInt8) == 0) = false := by decide
  have h2 : isWs 47 = false := by decide
  simp only [h1, h2, Bool.false_eq_true, if_false, beq_self_eq_true, if_true,
    skipComment_body hb]

theorem lex_sym {c : Char} (hc : c ∈ symbolChars) (f : Nat) (rest : List UInt8) (acc : List DTok) :
    lexDescr (f + 1) (c.toNat.toUInt8 :: rest) acc = lexDescr f rest (acc ++ [.sym c]) := by
  simp only [symbolChars, List.mem_cons, List.not_mem_nil, or_false] at hc
  rcases hc with rfl | rfl | rfl | rfl | rfl | rfl | rfl <;>
    (conv => lhs; unfold lexDescr) <;> rfl

theorem lex_chr {ch : UInt8} (hc : ch ≠ 0) (f : Nat) (rest : List UInt8) (acc : List DTok) :
    lexDescr (f + 1) (39 :: ch :: 39 :: rest) acc = lexDescr f rest (acc ++ [.chr ch]) := by
  conv => lhs; unfold lexDescr
  have h0 : (ch == 0) = false := by simpa using hc
  have h1 : ((39 : UInt8) == 0) = false := by decide
  have h2 : isWs 39 = false := by decide
  have h3 : ((39 : UInt8) == 47) = false := by decide
  have h4 : ((39 : UInt8) == 61 || (39 : UInt8) == 35 || (39 : UInt8) == 124 || (39 : UInt8) == 59
    || (39 : UInt8) == 45 || (39 : UInt8) == 40 || (39 : UInt8) == 41) = false := by decide
  simp only [h0, h1, h2, h3, h4, Bool.false_eq_true, if_false, beq_self_eq_true, if_true]

theorem lex_term (f : Nat) {rest : List UInt8} (hr : ∀ c, rest.head? = some c → isIdCh c = false)
    (acc : List DTok) :
    lexDescr (f + 1) ([84, 69, 82, 77] ++ rest) acc = lexDescr f rest (acc ++ [.term]) := by
  show lexDescr (f + 1) (84 :: ([69, 82, 77] ++ rest)) acc = _
  conv => lhs; unfold lexDescr
  have hspan : spanWhile isIdCh ([69, 82, 77] ++ rest) = ([69, 82, 77], rest) :=
    spanWhile_append (by decide) hr
  have hname : (bytesToString [84, 69, 82, 77] == "TERM") = true := by decide
  have h1 : ((84 : UInt8) == 0) = false := by decide
  have h2 : isWs 84 = false := by decide
  have h3 : ((84 : UInt8) == 47) = false := by decide
  have h4 : ((84 : UInt8) == 61 || (84 : UInt8) == 35 || (84 : UInt8) == 124 || (84 : UInt8) == 59
    || (84 : UInt8) == 45 || (84 : UInt8) == 40 || (84 : UInt8) == 41) = false := by decide
  have h5 : ((84 : UInt8) == 39) = false := by decide
  have h6 : (isAlpha 84 || (84 : UInt8) == 95) = true := by decide
  simp only [h1, h2, h3, h4, h5, h6, hspan, hname, Bool.false_eq_true, if_false, if_true]

theorem lex_num {n : Nat} (hn : n ≤ MAX_INT) (f : Nat) {rest : List UInt8}
    (hr : ∀ c, rest.head? = some c → isDigit c = false) (acc : List DTok) :
    lexDescr (f + 1) (decDigits n ++ rest) acc = lexDescr f rest (acc ++ [.num n]) := by
  obtain ⟨hval, hdig, hne⟩ := decDigits_spec n
  cases hd : decDigits n with
  | nil => exact absurd hd hne
  | cons d0 ds =>
    rw [hd] at hval hdig
    obtain ⟨h1, h2, h3, h4, h5, h6, _, _⟩ := digit_class d0 (hdig d0 List.mem_cons_self)
    have hd0 := hdig d0 List.mem_cons_self
    have hspan : spanWhile isDigit (ds ++ rest) = (ds, rest) :=
      spanWhile_append (fun x hx => hdig x (List.mem_cons_of_mem _ hx)) hr
    have hle : ¬ (n > 2147483647) := by unfold MAX_INT at hn; omega
    show lexDescr (f + 1) (d0 :: (ds ++ rest)) acc = _
    conv => lhs; unfold lexDescr
    simp only [h1, h2, h3, h4, h5, h6, hd0, hspan, hval, hle, Bool.false_eq_true, if_false, if_true]

theorem lex_semIdent {s : String} (hs : wfIdent s = true) {gap : List UInt8}
    (hg : gap.all isWs = true) (f : Nat) (rest : List UInt8) (acc : List DTok) :
    lexDescr (f + 1) (identBytes s ++ gap ++ 58 :: rest) acc =
      lexDescr f rest (acc ++ [.semIdent s]) := by
  obtain ⟨c0, idr, hb, hc0, hidr, hname, hne⟩ := wfIdent_bytes hs
  obtain ⟨h1, h2, h3, h4, h5, _, _⟩ := alpha_class c0 hc0
  have hgws : ∀ x ∈ gap, isWs x = true := List.all_eq_true.mp hg
  have hspan1 : spanWhile isIdCh (idr ++ (gap ++ 58 :: rest)) = (idr, gap ++ 58 :: rest) := by
    apply spanWhile_append hidr
    intro c hc
    cases gap with
    | nil =>
      simp only [List.nil_append, List.head?_cons, Option.some.injEq] at hc
      subst hc; decide
    | cons g gs =>
      simp only [List.cons_append, List.head?_cons, Option.some.injEq] at hc
      subst hc
      exact (ws_class _ (hgws _ List.mem_cons_self)).2.1
  have hspan2 : spanWhile isWs (gap ++ 58 :: rest) = (gap, 58 :: rest) := by
    apply spanWhile_append hgws
    intro c hc
    simp only [List.head?_cons, Option.some.injEq] at hc
    subst hc; decide
  have hterm : (s == "TERM") = false := by simpa using hne
  rw [List.append_assoc, hb]
  show lexDescr (f + 1) (c0 :: (idr ++ (gap ++ 58 :: rest))) acc = _
  conv => lhs; unfold lexDescr
  simp only [h1, h2, h3, h4, h5, hc0, hspan1, hspan2, hterm, hname, Bool.false_eq_true, if_false,
    if_true]

theorem lex_ident {s : String} (hs : wfIdent s = true) {w r3 : List UInt8}
    (hw : ∀ x ∈ w, isWs x = true)
    (hhead : ∀ c, (w ++ r3).head? = some c → isIdCh c = false)
    (hr3 : ∀ c, r3.head? = some c → isWs c = false ∧ c ≠ 58) (f : Nat) (acc : List DTok) :
    lexDescr (f + 1) (identBytes s ++ (w ++ r3)) acc = lexDescr f r3 (acc ++ [.ident s]) := by
  obtain ⟨c0, idr, hb, hc0, hidr, hname, hne⟩ := wfIdent_bytes hs
  obtain ⟨h1, h2, h3, h4, h5, _, _⟩ := alpha_class c0 hc0
  have hspan1 : spanWhile isIdCh (idr ++ (w ++ r3)) = (idr, w ++ r3) :=
    spanWhile_append hidr hhead
  have hspan2 : spanWhile isWs (w ++ r3) = (w, r3) :=
    spanWhile_append hw (fun c hc => (hr3 c hc).1)
  have hterm : (s == "TERM") = false := by simpa using hne
  rw [hb]
  show lexDescr (f + 1) (c0 :: (idr ++ (w ++ r3))) acc = _
  conv => lhs; unfold lexDescr
  simp only [h1, h2, h3, h4, h5, hc0, hspan1, hspan2, hterm, hname, Bool.false_eq_true, if_false,
    if_true]
  cases r3 with
  | nil => rfl
  | cons c r =>
    have hc := (hr3 c rfl).2
    split
    · rename_i r4 heq
      simp only [List.cons.injEq] at heq
      exact absurd heq.1 hc
    · rfl

/-! ## separators -/

/-- white space and comments are skipped, in at most as many steps as bytes -/
theorem lex_blank {b : List UInt8} (hb : Blank b) :
    ∃ k, k ≤ b.length ∧ ∀ (f : Nat) (rest : List UInt8) (acc : List DTok),
      lexDescr (f + k) (b ++ rest) acc = lexDescr f rest acc := by
  induction hb with
  | nil => exact ⟨0, Nat.le_refl _, fun _ _ _ => rfl⟩
  | @ws c b hc _ ih =>
    obtain ⟨k, hk, h⟩ := ih
    refine ⟨k + 1, by simp only [List.length_cons]; omega, fun f rest acc => ?_⟩
    show lexDescr (f + k + 1) (c :: (b ++ rest)) acc = _
    rw [lex_ws hc, h]
  | @comment body b hbody _ ih =>
    obtain ⟨k, hk, h⟩ := ih
    refine ⟨k + 1, by simp only [List.length_cons, List.length_append]; omega, fun f rest acc => ?_⟩
    show lexDescr (f + k + 1) (47 :: 42 :: ((body ++ 42 :: 47 :: b) ++ rest)) acc = _
    rw [List.append_assoc]
    show lexDescr (f + k + 1) (47 :: 42 :: (body ++ 42 :: 47 :: (b ++ rest))) acc = _
    rw [lex_comment hbody, h]

/-- a separator starts with a white-space byte or `/` -/
theorem GoodSep.head {b : List UInt8} (h : GoodSep b) :
    ∃ c t, b = c :: t ∧ (isWs c = true ∨ c = 47) := by
  obtain ⟨hb, hne⟩ := h
  cases hb with
  | nil => exact absurd rfl hne
  | ws hc _ => exact ⟨_, _, rfl, Or.inl hc⟩
  | comment _ _ => exact ⟨_, _, rfl, Or.inr rfl⟩

theorem GoodSep.head_not_idch {b : List UInt8} (h : GoodSep b) (rest : List UInt8) :
    ∀ c, (b ++ rest).head? = some c → isIdCh c = false ∧ isDigit c = false := by
  obtain ⟨c0, t, rfl, hc0⟩ := h.head
  intro c hc
  simp only [List.cons_append, List.head?_cons, Option.some.injEq] at hc
  subst hc
  rcases hc0 with hc0 | rfl
  · exact ⟨(ws_class _ hc0).2.1, (ws_class _ hc0).2.2.1⟩
  · exact ⟨slash_class.2.1, slash_class.2.2⟩

/-- leading white space of a separator; what remains is empty or starts with a comment -/
theorem Blank.split_ws {b : List UInt8} (hb : Blank b) :
    ∃ w b', b = w ++ b' ∧ (∀ x ∈ w, isWs x = true) ∧ Blank b' ∧
      (b' = [] ∨ ∃ t, b' = 47 :: t) := by
  induction hb with
  | nil => exact ⟨[], [], rfl, fun _ h => (by cases h), Blank.nil, Or.inl rfl⟩
  | @ws c b hc _ ih =>
    obtain ⟨w, b', h1, h2, h3, h4⟩ := ih
    refine ⟨c :: w, b', by rw [h1]; rfl, ?_, h3, h4⟩
    intro x hx
    rcases List.mem_cons.mp hx with rfl | hx
    · exact hc
    · exact h2 x hx
  | @comment body b hbody hb' _ =>
    exact ⟨[], _, rfl, fun _ h => (by cases h), Blank.comment hbody hb', Or.inr ⟨_, rfl⟩⟩

/-! ## tokens -/

/-- the tokens a well-formed description consists of -/
def TokOK : DTok → Prop
  | .ident s => wfIdent s = true
  | .semIdent s => wfIdent s = true
  | .chr c => c ≠ 0
  | .num n => n ≤ MAX_INT
  | .term => True
  | .sym c => c ∈ symbolChars
  | .eof => False

/-- what may follow a separator: nothing, or a byte that is neither white space nor `:` -/
def TokStart (r : List UInt8) : Prop := ∀ c, r.head? = some c → isWs c = false ∧ c ≠ 58

theorem TokStart.nil : TokStart [] := fun _ h => by cases h

set_option maxRecDepth 100000 in
theorem symbol_start : ∀ c ∈ symbolChars, isWs c.toNat.toUInt8 = false ∧ c.toNat.toUInt8 ≠ 58 := by
  decide

/-- every token text starts like that -/
theorem tokBytes_start {t : DTok} (ht : TokOK t) (gap rest : List UInt8) :
    TokStart (tokBytes gap t ++ rest) := by
  intro c hc
  cases t with
  | ident s =>
    obtain ⟨c0, idr, hb, hc0, _⟩ := wfIdent_bytes ht
    simp only [tokBytes, hb, List.cons_append, List.head?_cons, Option.some.injEq] at hc
    subst hc
    exact ⟨(alpha_class _ hc0).2.1, (alpha_class _ hc0).2.2.2.2.2.2⟩
  | semIdent s =>
    obtain ⟨c0, idr, hb, hc0, _⟩ := wfIdent_bytes ht
    simp only [tokBytes, hb, List.cons_append, List.append_assoc, List.head?_cons,
      Option.some.injEq] at hc
    subst hc
    exact ⟨(alpha_class _ hc0).2.1, (alpha_class _ hc0).2.2.2.2.2.2⟩
  | chr ch =>
    simp only [tokBytes, List.cons_append, List.head?_cons, Option.some.injEq] at hc
    subst hc; decide
  | num n =>
    obtain ⟨_, hdig, hne⟩ := decDigits_spec n
    cases hd : decDigits n with
    | nil => exact absurd hd hne
    | cons d0 ds =>
      simp only [tokBytes, hd, List.cons_append, List.head?_cons, Option.some.injEq] at hc
      subst hc
      have := digit_class _ (hdig _ (by rw [hd]; exact List.mem_cons_self))
      exact ⟨this.2.1, this.2.2.2.2.2.2.2⟩
  | term =>
    simp only [tokBytes, List.cons_append, List.head?_cons, Option.some.injEq] at hc
    subst hc; decide
  | sym ch =>
    simp only [tokBytes, List.cons_append, List.nil_append, List.head?_cons,
      Option.some.injEq] at hc
    subst hc
    exact symbol_start ch ht
  | eof => exact absurd ht id

/-- a token followed by its separator -/
theorem lex_token {t : DTok} (ht : TokOK t) {gap : List UInt8} (hg : gap.all isWs = true)
    {b : List UInt8} (hb : GoodSep b) {r : List UInt8} (hr : TokStart r) :
    ∃ k, k ≤ (tokBytes gap t ++ b).length ∧ ∀ (f : Nat) (acc : List DTok),
      lexDescr (f + k) (tokBytes gap t ++ b ++ r) acc = lexDescr f r (acc ++ [t]) := by
  obtain ⟨kb, hkb, hblank⟩ := lex_blank hb.1
  have hnid := hb.head_not_idch r
  -- all tokens except identifiers: one step for the token, then the separator
  have generic : tokBytes gap t ≠ [] →
      (∀ (f : Nat) (acc : List DTok), lexDescr (f + 1) (tokBytes gap t ++ (b ++ r)) acc
        = lexDescr f (b ++ r) (acc ++ [t])) →
      ∃ k, k ≤ (tokBytes gap t ++ b).length ∧ ∀ (f : Nat) (acc : List DTok),
        lexDescr (f + k) (tokBytes gap t ++ b ++ r) acc = lexDescr f r (acc ++ [t]) := by
    intro hne hstep
    refine ⟨kb + 1, ?_, fun f acc => ?_⟩
    · have : 0 < (tokBytes gap t).length := List.length_pos_iff.mpr hne
      rw [List.length_append]; omega
    · rw [List.append_assoc]
      show lexDescr (f + kb + 1) _ acc = _
      rw [hstep, hblank]
  cases t with
  | ident s =>
    obtain ⟨w, b', hsplit, hw, hb', hb'head⟩ := hb.1.split_ws
    obtain ⟨kb', hkb', hblank'⟩ := lex_blank hb'
    have hlen : b.length = w.length + b'.length := by rw [hsplit, List.length_append]
    obtain ⟨c0, idr, hbytes, _⟩ := wfIdent_bytes ht
    refine ⟨kb' + 1, ?_, fun f acc => ?_⟩
    · simp only [tokBytes, hbytes, List.length_append, List.length_cons]; omega
    · show lexDescr (f + kb' + 1) (identBytes s ++ b ++ r) acc = _
      rw [List.append_assoc, hsplit, List.append_assoc, lex_ident ht hw, hblank']
      · intro c hc
        rw [← List.append_assoc, ← hsplit] at hc
        exact (hnid c hc).1
      · intro c hc
        rcases hb'head with rfl | ⟨t', rfl⟩
        · exact hr c hc
        · simp only [List.cons_append, List.head?_cons, Option.some.injEq] at hc
          subst hc; decide
  | semIdent s =>
    apply generic
    · obtain ⟨c0, idr, hbytes, _⟩ := wfIdent_bytes ht
      simp [tokBytes, hbytes]
    · intro f acc
      show lexDescr (f + 1) (identBytes s ++ gap ++ [58] ++ (b ++ r)) acc = _
      rw [List.append_assoc (identBytes s ++ gap)]
      exact lex_semIdent ht hg f _ acc
  | chr ch =>
    apply generic
    · simp [tokBytes]
    · intro f acc
      exact lex_chr ht f _ acc
  | num n =>
    apply generic
    · exact (decDigits_spec n).2.2
    · intro f acc
      exact lex_num ht f (fun c hc => (hnid c hc).2) acc
  | term =>
    apply generic
    · simp [tokBytes]
    · intro f acc
      exact lex_term f (fun c hc => (hnid c hc).1) acc
  | sym ch =>
    apply generic
    · simp [tokBytes]
    · intro f acc
      exact lex_sym ht f _ acc
  | eof => exact absurd ht id

/-- the body of a text: tokens, each followed by its separator -/
theorem lex_body {ℓ : Layout} (hℓ : GoodLayout ℓ) (toks : List DTok) :
    ∀ (i : Nat), (∀ t ∈ toks, TokOK t) →
      ∃ k, k ≤ (renderBody ℓ i toks).length ∧ ∀ (f : Nat) (acc : List DTok),
        lexDescr (f + k) (renderBody ℓ i toks) acc = lexDescr f [] (acc ++ toks) := by
  induction toks with
  | nil =>
    intro i _
    exact ⟨0, Nat.zero_le _, fun f acc => by simp [renderBody]⟩
  | cons t ts ih =>
    intro i hall
    obtain ⟨k2, hk2, h2⟩ := ih (i + 1) (fun x hx => hall x (List.mem_cons_of_mem _ hx))
    have hstart : TokStart (renderBody ℓ (i + 1) ts) := by
      cases ts with
      | nil => exact TokStart.nil
      | cons t' ts' =>
        show TokStart (tokBytes _ t' ++ ℓ.sep (i + 1 + 1) ++ renderBody ℓ (i + 1 + 1) ts')
        rw [List.append_assoc]
        exact tokBytes_start (hall t' (List.mem_cons_of_mem _ List.mem_cons_self)) _ _
    obtain ⟨k1, hk1, h1⟩ := lex_token (hall t List.mem_cons_self) (hℓ.colonGap i)
      (hℓ.sep (i + 1)) hstart
    refine ⟨k2 + k1, ?_, fun f acc => ?_⟩
    · show k2 + k1 ≤ (tokBytes (ℓ.colonGap i) t ++ ℓ.sep (i + 1) ++ renderBody ℓ (i + 1) ts).length
      rw [List.length_append]; omega
    · show lexDescr (f + (k2 + k1)) (tokBytes (ℓ.colonGap i) t ++ ℓ.sep (i + 1) ++
        renderBody ℓ (i + 1) ts) acc = _
      rw [← Nat.add_assoc, h1, h2, List.append_assoc]
      rfl

/-- the lexer on a rendered token list, with any fuel exceeding the length of the text -/
theorem lex_tokens {ℓ : Layout} (hℓ : GoodLayout ℓ) {toks : List DTok}
    (hall : ∀ t ∈ toks, TokOK t) {fuel : Nat}
    (hf : (ℓ.sep 0 ++ renderBody ℓ 0 toks).length < fuel) :
    lexDescr fuel (ℓ.sep 0 ++ renderBody ℓ 0 toks) [] = some (toks ++ [.eof]) := by
  obtain ⟨k0, hk0, h0⟩ := lex_blank (hℓ.sep 0).1
  obtain ⟨k1, hk1, h1⟩ := lex_body hℓ toks 0 hall
  rw [List.length_append] at hf
  obtain ⟨f, rfl⟩ : ∃ f, fuel = f + 1 + k1 + k0 := ⟨fuel - 1 - k1 - k0, by omega⟩
  rw [h0, h1 (f + 1) [], lex_nil]
  rfl

end Yaep
