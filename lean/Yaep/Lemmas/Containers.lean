import Yaep.Lemmas.ContainersMem
import Yaep.Lemmas.ContainersVlo
import Yaep.Lemmas.ContainersStack
import Yaep.Lemmas.ContainersPrime
import Yaep.Lemmas.ContainersHash
/-!
# Lemmas for property C19 (containers)

* `ContainersMem`   — byte memory (`Mem.get`, `writeAt`, `havoc`, `readMem`)
* `ContainersVlo`   — variable length object: refinement to a byte list, `len ≤ cap`
* `ContainersStack` — object stack: invariant, top object, finished objects, bounds
* `ContainersPrime` — `higher_prime_number` returns a prime; the probe sequence is a permutation
* `ContainersHash`  — hash table: invariant, refinement to a finite set, probe termination
-/
