import Yaep.Lemmas.MakeParseFlagDet
import Yaep.Lemmas.MakeParseAllGrow
/-!
# The ambiguity flag, all parses, part 4: every candidate that passes the check loop is covered

In all-parses mode a candidate for a translated nonterminal gets a parse state of its own, or its
abstract node is found in `parse_state_tab` — then a parse state for the same rule, origin and
list index has been pushed before —, or its rule is empty.  `InX W x s`: a context is in the set
`W` or is the context of a state on the stack (other than `x`); the contexts of all table entries
are `InX` (`Cov`).
-/
namespace Yaep.MP
open Yaep

/-- `s2` extends `s1`: the parse states other than `x` keep their content, the stack grows at the
front -/
structure SExt (x : Nat) (s1 s2 : St) : Prop where
  size : s1.states.size ≤ s2.states.size
  keep : ∀ i, i < s1.states.size → i ≠ x → s2.states.getD i default = s1.states.getD i default
  stk : ∃ ids, s2.stack = ids ++ s1.stack

theorem SExt.refl (x : Nat) (s : St) : SExt x s s := ⟨Nat.le_refl _, fun _ _ _ => rfl, [], rfl⟩

theorem SExt.trans {x : Nat} {s1 s2 s3 : St} (h1 : SExt x s1 s2) (h2 : SExt x s2 s3) : SExt x s1 s3 := by
  obtain ⟨a1, a2, ids1, a3⟩ := h1
  obtain ⟨b1, b2, ids2, b3⟩ := h2
  refine ⟨Nat.le_trans a1 b1, fun i hi hne => ?_, ids2 ++ ids1, ?_⟩
  · rw [b2 i (by omega) hne, a2 i hi hne]
  · rw [b3, a3, List.append_assoc]

theorem SExt.of_eq {x : Nat} {s1 s2 : St} (h1 : s2.states = s1.states) (h2 : s2.stack = s1.stack) :
    SExt x s1 s2 := ⟨by rw [h1]; exact Nat.le_refl _, fun _ _ _ => by rw [h1], [], by rw [h2]; rfl⟩

theorem SExt.of_push {x : Nat} {s1 s2 : St} {p : PState} (h1 : s2.states = s1.states.push p)
    (h2 : s2.stack = s1.states.size :: s1.stack) : SExt x s1 s2 :=
  ⟨by rw [h1]; simp, fun i hi _ => by rw [h1, getD_push_lt _ _ _ _ hi], [s1.states.size], by rw [h2]; rfl⟩

theorem SExt.of_set {x : Nat} {s1 s2 : St} {p : PState} (h1 : s2.states = s1.states.set! x p)
    (h2 : s2.stack = s1.stack) : SExt x s1 s2 :=
  ⟨by rw [h1]; simp, fun i _ hne => by rw [h1, getD_set!, if_neg (fun hh => hne hh.1.symm)], [],
    by rw [h2]; rfl⟩

/-- the context `(r, p, o, j)` is in `W` or is the context of a state on the stack other than `x` -/
def InX (W : K4) (x : Nat) (s : St) (r p o j : Nat) : Prop :=
  W r p o j ∨ ∃ y ∈ s.stack, y ≠ x ∧ y < s.states.size ∧ (s.state y).rule = r ∧
    (s.state y).pos = p ∧ (s.state y).orig = o ∧ (s.state y).plInd = j

theorem InX.mono {W : K4} {x : Nat} {s1 s2 : St} {r p o j : Nat} (he : SExt x s1 s2)
    (h : InX W x s1 r p o j) : InX W x s2 r p o j := by
  rcases h with h | ⟨y, hy, hne, hlt, h1, h2, h3, h4⟩
  · exact Or.inl h
  · obtain ⟨ids, hs⟩ := he.stk
    have e : s2.state y = s1.state y := by unfold St.state; exact he.keep y hlt hne
    refine Or.inr ⟨y, by rw [hs]; exact List.mem_append_right _ hy, hne, by have := he.size; omega, ?_⟩
    rw [e]; exact ⟨h1, h2, h3, h4⟩

/-- the contexts of the entries of `parse_state_tab` -/
def Cov (c : Ctx) (W : K4) (x : Nat) (s : St) : Prop :=
  ∀ pl r o node, (r, o, node) ∈ s.table.getD pl [] → InX W x s r (c.rule r).rhs.length o pl

theorem Cov.mono {c : Ctx} {W : K4} {x : Nat} {s1 s2 : St} (h : Cov c W x s1) (he : SExt x s1 s2)
    (ht : s2.table = s1.table) : Cov c W x s2 := by
  intro pl r o node hm
  rw [ht] at hm
  exact (h pl r o node hm).mono he

/-! ## the pieces of `candidate` -/

theorem candPre_table (L : Loc) (sit : Item) (nCand : Nat) (s : St) :
    (candPre L sit nCand s).table = s.table := by
  unfold candPre
  simp only
  split <;> split <;> rfl

theorem candPre_ext (L : Loc) (sit : Item) (nCand : Nat) (s : St) :
    SExt L.origSid s (candPre L sit nCand s) := by
  have hs := candPre_states L sit nCand s
  have hk := candPre_stack L sit nCand s
  by_cases hn : nCand = 0
  · rw [if_pos hn] at hs; exact SExt.of_set hs hk
  · rw [if_neg hn] at hs; exact SExt.of_eq hs hk

theorem candHead_table (L : Loc) (sit : Item) (nCand : Nat) (os : List Nat) (s : St) (pp : Nat × Nat)
    (disp : Nat) : (candHead L sit nCand os s pp disp).1.table = s.table := by
  unfold candHead
  simp only
  split
  · split
    · rfl
    · split <;> rfl
  · rfl

theorem candHead_ext (L : Loc) (sit : Item) (nCand : Nat) (os : List Nat) (s : St) (pp : Nat × Nat)
    (disp : Nat) (x : Nat) : SExt x s (candHead L sit nCand os s pp disp).1 := by
  rcases flagL15_candHead_shape L sit nCand os s pp disp with ⟨e1, e2⟩ | ⟨an, e1, e2⟩
  · exact SExt.of_eq e1 e2
  · exact SExt.of_push e1 e2

/-- the tail in all-parses mode: the candidate is covered, the table stays covered -/
theorem candTail_cov {c : Ctx} (hall : c.oneParse = false) {W : K4} {x : Nat} {L : Loc} {sit : Item}
    {pp : Nat × Nat} {disp : Nat} (y : St × List Nat × Nat × Option Nat)
    (hlen : sit.dot = (c.rule sit.rule).rhs.length) (hx : x < y.1.states.size)
    (hcov : Cov c W x y.1) :
    SExt x y.1 (candTail c L sit pp disp y).1 ∧ Cov c W x (candTail c L sit pp disp y).1 ∧
    (sit.dot ≠ 0 → InX W x (candTail c L sit pp disp y).1 sit.rule sit.dot sit.origin L.plInd) := by
  obtain ⟨s, os, cur, anode⟩ := y
  simp only at hx hcov ⊢
  have child : ∀ {s2 : St} {an : Option Nat},
      s2.states = s.states.push (tailChild L sit s cur anode disp an) →
      s2.stack = s.states.size :: s.stack →
      InX W x s2 sit.rule sit.dot sit.origin L.plInd := by
    intro s2 an h1 h2
    refine Or.inr ⟨s.states.size, by rw [h2]; exact List.mem_cons_self, by omega, by rw [h1]; simp, ?_⟩
    have : s2.state s.states.size = tailChild L sit s cur anode disp an := by
      unfold St.state; rw [h1, getD_push_eq]
    rw [this]
    exact ⟨rfl, rfl, rfl, rfl⟩
  cases hn : (c.rule sit.rule).anode with
  | some name =>
    cases hf : tableFind s.table sit.rule sit.origin L.plInd with
    | none =>
      obtain ⟨_, e2, e3, e4, _⟩ := candTail_new (L := L) (pp := pp) (disp := disp) (os := os) (cur := cur)
        (anode := anode) hall hn hf
      have hext := SExt.of_push (x := x) e2 e3
      have hin := child e2 e3
      refine ⟨hext, ?_, fun _ => hin⟩
      intro pl r o node hm
      rw [e4] at hm
      rcases mem_tableInsert hm with hm | ⟨he, hpl⟩
      · exact (hcov pl r o node hm).mono hext
      · injection he with h1 h2
        injection h2 with h2 _
        subst h1; subst h2; subst hpl
        rw [← hlen]; exact hin
    | some node =>
      obtain ⟨_, e2, e3, e4, _⟩ := candTail_reuse (L := L) (pp := pp) (disp := disp) (os := os)
        (cur := cur) (anode := anode) hall hn hf
      have hext := SExt.of_eq (x := x) e2 e3
      refine ⟨hext, hcov.mono hext e4, fun _ => ?_⟩
      have := (hcov _ _ _ _ (tableFind_mem hf)).mono hext
      rw [← hlen] at this
      exact this
  | none =>
    by_cases hdot : sit.dot = 0
    · obtain ⟨_, e2, e3, e4, _⟩ := candTail_nil (c := c) (L := L) (pp := pp) (disp := disp) (s := s)
        (os := os) (cur := cur) (anode := anode) hn hdot
      have hext := SExt.of_eq (x := x) e2 e3
      exact ⟨hext, hcov.mono hext e4, fun h => absurd hdot h⟩
    · obtain ⟨_, e2, e3, e4, _⟩ := candTail_pass (c := c) (L := L) (pp := pp) (disp := disp) (s := s)
        (os := os) (cur := cur) (anode := anode) hn hdot
      have hext := SExt.of_push (x := x) e2 e3
      exact ⟨hext, hcov.mono hext e4, fun _ => child e2 e3⟩

/-- one candidate of a translated nonterminal (all parses): covered -/
theorem candidate_cov {c : Ctx} (hall : c.oneParse = false) {W : K4} {L : Loc} {sit : Item}
    {n : Nat} {os : List Nat} {s1 : St} {pa d : Nat}
    (hpa : L.parentAnode = some pa) (hd : L.disp = some d)
    (hlen : sit.dot = (c.rule sit.rule).rhs.length) (hx : L.origSid < s1.states.size)
    (hcov : Cov c W L.origSid s1) :
    SExt L.origSid s1 (candidate c L sit n os s1).1 ∧ Cov c W L.origSid (candidate c L sit n os s1).1 ∧
    (sit.dot ≠ 0 →
      InX W L.origSid (candidate c L sit n os s1).1 sit.rule sit.dot sit.origin L.plInd) := by
  rw [candidate_eq]
  simp only [hpa, hd]
  have e1 := candPre_ext L sit n s1
  have c1 := hcov.mono e1 (candPre_table L sit n s1)
  have e2 := candHead_ext L sit n os (candPre L sit n s1) (pa, L.parentDisp) d L.origSid
  have c2 := c1.mono e2 (candHead_table ..)
  have hx2 : L.origSid < (candHead L sit n os (candPre L sit n s1) (pa, L.parentDisp) d).1.states.size := by
    have := e1.size; have := e2.size; omega
  obtain ⟨e3, c3, i3⟩ := candTail_cov (L := L) (pp := (pa, L.parentDisp)) (disp := d) hall
    (candHead L sit n os (candPre L sit n s1) (pa, L.parentDisp) d) hlen hx2 c2
  exact ⟨(e1.trans e2).trans e3, c3, i3⟩

/-- an untranslated nonterminal: nothing but `orig_state->pl_ind` changes -/
theorem candidate_untr_cov {c : Ctx} {W : K4} {L : Loc} {sit : Item} {n : Nat} {os : List Nat} {s1 : St}
    (hd : L.disp = none) (hcov : Cov c W L.origSid s1) :
    SExt L.origSid s1 (candidate c L sit n os s1).1 ∧ Cov c W L.origSid (candidate c L sit n os s1).1 := by
  rw [candidate_eq]
  have e1 := candPre_ext L sit n s1
  have c1 := hcov.mono e1 (candPre_table L sit n s1)
  cases hpa : L.parentAnode <;> simp only [hd] <;> exact ⟨e1, c1⟩

end Yaep.MP
