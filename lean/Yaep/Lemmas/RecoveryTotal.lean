import Yaep.Lemmas.Recovery
import Yaep.Lemmas.RecoveryMin
import Yaep.Lemmas.ReadGrammarPhases
/-!
# With error recovery on, the parse always succeeds

Helper lemmas for the last part of `Yaep/Props/C07.lean`: the search loop terminates (a
measure on the stack and the back frontier strictly decreases) and, if the grammar has the
rule `$S : error $eof`, it always finds a recovery.
-/
namespace Yaep

/-- the grammar has the "total loss" rule `$S : error $eof` (`yaep_read_grammar` always adds it) -/
def Grammar.hasTotalLoss (g : Grammar) : Bool :=
  g.rules.any fun rl => rl.lhs == g.axiomN && rl.rhs == [Sym.t g.errT, Sym.t g.eofT]

/-! ## the measure -/

/-- weight of a stack: a state looking at token `stok` weighs `B ^ (n - stok)` -/
def stackW (B n : Nat) : List RState → Nat
  | [] => 0
  | σ :: l => B ^ (n - σ.stok) + stackW B n l

theorem stackW_append (B n : Nat) (l1 l2 : List RState) :
    stackW B n (l1 ++ l2) = stackW B n l1 + stackW B n l2 := by
  induction l1 with
  | nil => simp [stackW]
  | cons a l ih => simp only [List.cons_append, stackW, ih]; omega

theorem stackW_reverse (B n : Nat) (l : List RState) : stackW B n l.reverse = stackW B n l := by
  induction l with
  | nil => rfl
  | cons a l ih => rw [List.reverse_cons, stackW_append, ih]; simp only [stackW]; omega

theorem stackW_le (B n m : Nat) (hB : 1 ≤ B) (l : List RState) (h : ∀ σ ∈ l, m ≤ σ.stok) :
    stackW B n l ≤ l.length * B ^ (n - m) := by
  induction l with
  | nil => simp [stackW]
  | cons a l ih =>
    have h1 := ih (fun σ hσ => h σ (List.mem_cons_of_mem _ hσ))
    have h2 : B ^ (n - a.stok) ≤ B ^ (n - m) :=
      Nat.pow_le_pow_right hB (by have := h a List.mem_cons_self; omega)
    simp only [stackW, List.length_cons, Nat.succ_mul]
    omega

theorem stackW_eq_zero {B n : Nat} (hB : 1 ≤ B) {l : List RState} (h : stackW B n l = 0) : l = [] := by
  cases l with
  | nil => rfl
  | cons a l =>
    have : 1 ≤ B ^ (n - a.stok) := Nat.pow_pos hB
    simp only [stackW] at h
    omega

/-- the measure of a search state -/
def searchMu (B n : Nat) (st : SearchSt) : Nat := stackW B n st.stack + st.bf * B ^ n

/-! ## the secondary states pushed by the matching loop -/

theorem matchLoop_pushes (g : Grammar) (an : Analysis) (la rmatch : Nat) (full : List Nat)
    (last cost : Nat) :
    ∀ (fuel : Nat) (cpl : List PSet) (ctok nm : Nat) (ps : List RState),
      ∃ extra, (matchLoop g an la rmatch full last cost fuel cpl ctok nm ps).pushes = ps ++ extra ∧
        extra.length ≤ rmatch - (nm + 1) ∧ ∀ σ ∈ extra, ctok + 1 ≤ σ.stok := by
  intro fuel
  induction fuel with
  | zero =>
    intro cpl ctok nm ps
    unfold matchLoop
    exact ⟨[], by simp, Nat.zero_le _, fun σ h => absurd h List.not_mem_nil⟩
  | succ fuel ih =>
    intro cpl ctok nm ps
    unfold matchLoop
    simp only
    split
    · exact ⟨[], by simp, Nat.zero_le _, fun σ h => absurd h List.not_mem_nil⟩
    · rename_i hnm
      split
      · exact ⟨[], by simp, Nat.zero_le _, fun σ h => absurd h List.not_mem_nil⟩
      · -- the possible push
        have hps : ∃ e1, (if hasTrans g (cpl.getLastD default).items g.errT = true then
              ps ++ [⟨last, cpl.drop (last + 1), ctok + 1, cost⟩] else ps) = ps ++ e1 ∧
            e1.length ≤ 1 ∧ ∀ σ ∈ e1, ctok + 1 ≤ σ.stok := by
          split
          · refine ⟨[_], rfl, Nat.le_refl _, ?_⟩
            intro σ hσ
            rw [List.mem_singleton] at hσ
            subst hσ
            exact Nat.le_refl _
          · exact ⟨[], by simp, Nat.zero_le _, fun σ h => absurd h List.not_mem_nil⟩
        obtain ⟨e1, he1, hl1, hs1⟩ := hps
        rw [he1]
        split
        · exact ⟨e1, rfl, by omega, hs1⟩
        · obtain ⟨e2, he2, hl2, hs2⟩ := ih (cpl ++ [gotoSet g an la cpl (full.getD (ctok + 1) 0)
            (some (ctok + 1)) full[ctok + 1 + 1]?]) (ctok + 1) (nm + 1) (ps ++ e1)
          refine ⟨e1 ++ e2, by rw [he2, List.append_assoc], ?_, ?_⟩
          · rw [List.length_append]; omega
          · intro σ hσ
            rcases List.mem_append.mp hσ with h | h
            · exact hs1 σ h
            · have := hs2 σ h; omega

/-! ## every iteration decreases the measure -/

section Termination
variable {g : Grammar} {an : Analysis} {la rmatch : Nat} {full : List Nat} {orig : List PSet}
  {startTok startPl : Nat}

/-- advancing the two frontiers: the popped state is replaced by at most a back state (paid
for by the frontier) and a head state that looks one token further -/
theorem frontierSt_mu (ctx : RCtx g an la full orig startTok startPl) {st : SearchSt} {top : RState}
    {rest : List RState} (hinv : SearchInv g an la full orig startTok startPl st)
    (hst : st.stack = top :: rest) (B : Nat) (hB : 1 ≤ B) :
    searchMu B full.length (frontierSt g full orig startTok st top rest) +
        B ^ (full.length - top.stok) ≤
      searchMu B full.length st + B ^ (full.length - (top.stok + 1)) := by
  have hback : stackW B full.length
        (backStep g (orig.take (top.last + 1) ++ top.tail) startTok st rest).1 +
      (backStep g (orig.take (top.last + 1) ++ top.tail) startTok st rest).2.1 * B ^ full.length ≤
      stackW B full.length rest + st.bf * B ^ full.length := by
    rcases backStep_cases g (orig.take (top.last + 1) ++ top.tail) startTok st rest with h | ⟨hpos, h⟩
    · rw [h]; exact Nat.le_refl _
    · obtain ⟨hfe, _, _, hle⟩ := backStep_cost ctx hinv hst hpos
      rw [h]
      simp only [stackW]
      rw [hfe]
      have h1 : B ^ (full.length - startTok) ≤ B ^ full.length :=
        Nat.pow_le_pow_right hB (Nat.sub_le _ _)
      have h2 : ((findError g orig (st.bf - 1) 0).1 + 1) * B ^ full.length ≤ st.bf * B ^ full.length :=
        Nat.mul_le_mul_right _ (by omega)
      rw [Nat.succ_mul] at h2
      omega
  have hstack : stackW B full.length (frontierSt g full orig startTok st top rest).stack ≤
      B ^ (full.length - (top.stok + 1)) + stackW B full.length
        (backStep g (orig.take (top.last + 1) ++ top.tail) startTok st rest).1 := by
    unfold frontierSt
    simp only
    split
    · simp only [stackW]; exact Nat.le_refl _
    · exact Nat.le_add_left _ _
  have hbf : (frontierSt g full orig startTok st top rest).bf =
      (backStep g (orig.take (top.last + 1) ++ top.tail) startTok st rest).2.1 := rfl
  unfold searchMu
  rw [hbf, hst]
  simp only [stackW]
  omega

theorem pushSt_mu (B n : Nat) (st1 : SearchSt) (mr : MatchRes) :
    searchMu B n (pushSt st1 mr) = stackW B n mr.pushes + searchMu B n st1 := by
  unfold searchMu pushSt
  simp only
  rw [stackW_append, stackW_reverse]
  omega

theorem bestSt_mu (B n : Nat) (g : Grammar) (full : List Nat) (orig : List PSet)
    (startTok startPl : Nat) (st1 : SearchSt) (top : RState) (cost : Nat) (mr : MatchRes) :
    searchMu B n (bestSt g full orig startTok startPl st1 top cost mr) =
      stackW B n mr.pushes + searchMu B n st1 := pushSt_mu B n st1 mr

theorem searchStepK_mu {α : Type} (k : SearchSt → α) (P : α → Prop)
    (ctx : RCtx g an la full orig startTok startPl) {st : SearchSt} {top : RState} {rest : List RState}
    (hinv : SearchInv g an la full orig startTok startPl st) (hst : st.stack = top :: rest)
    (hk : ∀ st', SearchInv g an la full orig startTok startPl st' →
      searchMu (rmatch + 2) full.length st' < searchMu (rmatch + 2) full.length st → P (k st')) :
    P (searchStepK k g an la rmatch full orig startTok startPl st top rest) := by
  have htop := (hinv.states top (by rw [hst]; exact List.mem_cons_self)).1
  obtain ⟨hf, hbf⟩ := frontierSt_inv ctx hinv hst
  have hB : 1 ≤ rmatch + 2 := by omega
  have hmu1 := frontierSt_mu ctx hinv hst (rmatch + 2) hB
  have htl := htop.stok_lt
  -- `X = B ^ (n - t - 1)`, `B ^ (n - t) = B * X`
  have hpow : (rmatch + 2) ^ (full.length - top.stok) =
      rmatch * (rmatch + 2) ^ (full.length - (top.stok + 1)) +
        2 * (rmatch + 2) ^ (full.length - (top.stok + 1)) := by
    have e : full.length - top.stok = (full.length - (top.stok + 1)) + 1 := by omega
    rw [e, Nat.pow_succ, Nat.mul_comm, Nat.add_mul]
  have hX : 1 ≤ (rmatch + 2) ^ (full.length - (top.stok + 1)) := Nat.pow_pos hB
  have hlt1 : searchMu (rmatch + 2) full.length (frontierSt g full orig startTok st top rest) <
      searchMu (rmatch + 2) full.length st := by omega
  unfold searchStepK
  simp only
  obtain ⟨hs1, hs2⟩ := skipLoop_spec g (errSetOf g (orig.take (top.last + 1) ++ top.tail)).items full
    (frontierSt g full orig startTok st top rest).bestCost (full.length + 1) top.stok top.back
  have hs3 := skipLoop_stop g (errSetOf g (orig.take (top.last + 1) ++ top.tail)).items full
    (frontierSt g full orig startTok st top rest).bestCost (full.length + 1) top.stok top.back
    (by omega)
  generalize skipLoop g (errSetOf g (orig.take (top.last + 1) ++ top.tail)).items full
    (frontierSt g full orig startTok st top rest).bestCost (full.length + 1) top.stok top.back = sk
    at hs1 hs2 hs3 ⊢
  obtain ⟨c, kk⟩ := sk
  simp only at hs1 hs2 hs3 ⊢
  split
  · exact hk _ hf hlt1
  split
  · exact hk _ hf hlt1
  rename_i h1 h2
  have hTr : hasTrans g (errSetOf g (orig.take (top.last + 1) ++ top.tail)).items
      (full.getD c 0) = true := by
    rcases hs3 with h | h | h
    · exact absurd h h1
    · exact absurd h h2
    · exact h
  have hT := tail_after_skip htop hs1 hs2 (Nat.lt_of_not_le h2) hTr
  have hM := matchLoop_spec (an := an) (la := la) (rmatch := rmatch) (startPl := startPl)
    top.last kk (ctx.take_length htop.last_le) htop.last_le
    (full.length + 1) _ c 0 [] hT (fun s hs => absurd hs List.not_mem_nil)
  rw [← List.append_assoc, ← List.append_assoc] at hM
  obtain ⟨T', ls, hcpl, hT', hct, hpush⟩ := hM
  -- the weight of the secondary states
  have hW : ∀ cpl : List PSet, stackW (rmatch + 2) full.length
      (matchLoop g an la rmatch full top.last kk (full.length + 1) cpl c 0 []).pushes ≤
      rmatch * (rmatch + 2) ^ (full.length - (top.stok + 1)) := by
    intro cpl
    obtain ⟨extra, he, hl, hs⟩ := matchLoop_pushes g an la rmatch full top.last kk (full.length + 1)
      cpl c 0 []
    rw [he, List.nil_append]
    have h3 := stackW_le (rmatch + 2) full.length (c + 1) hB extra hs
    have h4 : (rmatch + 2) ^ (full.length - (c + 1)) ≤
        (rmatch + 2) ^ (full.length - (top.stok + 1)) := Nat.pow_le_pow_right hB (by omega)
    have h5 : extra.length * (rmatch + 2) ^ (full.length - (c + 1)) ≤
        rmatch * (rmatch + 2) ^ (full.length - (top.stok + 1)) :=
      Nat.mul_le_mul (by omega) h4
    omega
  have hkey : rmatch * (rmatch + 2) ^ (full.length - (top.stok + 1)) +
      searchMu (rmatch + 2) full.length (frontierSt g full orig startTok st top rest) <
      searchMu (rmatch + 2) full.length st := by omega
  split
  · rename_i h3
    split
    · apply hk
      · refine bestSt_inv ctx hf hbf htop.last_le hpush hcpl hT' ?_
        have := hT'.ls_lt
        split
        · rename_i h4; rcases hct with h | ⟨h, _⟩ <;> omega
        · rename_i h4
          rcases hct with h | ⟨h, h5⟩
          · exact h
          · rcases h5 with h5 | h5
            · exact absurd h5 h4
            · rcases h3 with h3 | h3 <;> omega
      · rw [bestSt_mu]
        exact Nat.lt_of_le_of_lt (Nat.add_le_add_right (hW _) _) hkey
    · refine hk _ (pushSt_inv hf hbf hpush) ?_
      rw [pushSt_mu]
      exact Nat.lt_of_le_of_lt (Nat.add_le_add_right (hW _) _) hkey
  · refine hk _ (pushSt_inv hf hbf hpush) ?_
    rw [pushSt_mu]
    exact Nat.lt_of_le_of_lt (Nat.add_le_add_right (hW _) _) hkey

/-- the search loop empties its stack if the fuel covers the measure -/
theorem searchLoop_terminates (ctx : RCtx g an la full orig startTok startPl) :
    ∀ (fuel : Nat) (st : SearchSt), SearchInv g an la full orig startTok startPl st →
      searchMu (rmatch + 2) full.length st ≤ fuel →
      (searchLoop g an la rmatch full orig startTok startPl fuel st).stack = [] := by
  intro fuel
  induction fuel with
  | zero =>
    intro st _ h
    unfold searchLoop
    unfold searchMu at h
    exact stackW_eq_zero (by omega) (Nat.add_eq_zero_iff.mp (Nat.le_zero.mp h)).1
  | succ fuel ih =>
    intro st hinv h
    cases hst : st.stack with
    | nil => rw [searchLoop_nil _ _ _ _ _ _ _ _ _ _ hst]; exact hst
    | cons top rest =>
      rw [searchLoop_cons _ _ _ _ _ _ _ _ _ _ _ _ hst]
      exact searchStepK_mu (searchLoop g an la rmatch full orig startTok startPl fuel)
        (fun x => x.stack = []) ctx hinv hst (fun st' h1 h2 => ih st' h1 (by omega))

end Termination

/-! ## a recovery is always found -/

theorem Grammar.hasTotalLoss_spec {g : Grammar} (h : g.hasTotalLoss = true) :
    ∃ (r : Nat) (rl : Rule), g.rules[r]? = some rl ∧ rl.lhs = g.axiomN ∧
      rl.rhs = [Sym.t g.errT, Sym.t g.eofT] := by
  unfold Grammar.hasTotalLoss at h
  obtain ⟨rl, hrl, hc⟩ := List.any_eq_true.mp h
  simp only [Bool.and_eq_true, beq_iff_eq] at hc
  obtain ⟨r, hr⟩ := List.getElem?_of_mem hrl
  exact ⟨r, rl, hr, hc.1, hc.2⟩

theorem RunOk.head {g : Grammar} {an : Analysis} {la : Nat} {full : List Nat} {pl : List PSet}
    (h : RunOk g an la full pl) : ∃ s0 rest, pl = s0 :: rest ∧ s0.items = set0 g := by
  induction h with
  | init s0 h0 => exact ⟨s0, [], rfl, h0⟩
  | snoc _ _ ih =>
    obtain ⟨s0, rest, rfl, h0⟩ := ih
    exact ⟨s0, rest ++ [_], rfl, h0⟩

/-- `best = none` only while `bestCost` still has its initial value -/
def BestNoneInv (n : Nat) (st : SearchSt) : Prop := st.best = none → st.bestCost = 2 * n

theorem searchStepK_bestNone {α : Type} (k : SearchSt → α) (P : α → Prop) (g : Grammar)
    (an : Analysis) (la rmatch : Nat) (full : List Nat) (orig : List PSet) (startTok startPl : Nat)
    (n : Nat) {st : SearchSt} (top : RState) (rest : List RState) (h : BestNoneInv n st)
    (hk : ∀ st', BestNoneInv n st' → P (k st')) :
    P (searchStepK k g an la rmatch full orig startTok startPl st top rest) := by
  have h1 : BestNoneInv n (frontierSt g full orig startTok st top rest) := h
  unfold searchStepK
  simp only
  split
  · exact hk _ h1
  split
  · exact hk _ h1
  split
  · split
    · apply hk
      intro hb
      unfold bestSt at hb
      simp only at hb
      cases hb
    · exact hk _ h1
  · exact hk _ h1

theorem searchLoop_bestNone (g : Grammar) (an : Analysis) (la rmatch : Nat) (full : List Nat)
    (orig : List PSet) (startTok startPl n : Nat) :
    ∀ (fuel : Nat) (st : SearchSt), BestNoneInv n st →
      BestNoneInv n (searchLoop g an la rmatch full orig startTok startPl fuel st) := by
  intro fuel
  induction fuel with
  | zero => intro st h; unfold searchLoop; exact h
  | succ fuel ih =>
    intro st h
    cases hst : st.stack with
    | nil => rw [searchLoop_nil _ _ _ _ _ _ _ _ _ _ hst]; exact h
    | cons top rest =>
      rw [searchLoop_cons _ _ _ _ _ _ _ _ _ _ _ _ hst]
      exact searchStepK_bestNone (searchLoop g an la rmatch full orig startTok startPl fuel)
        (fun x => BestNoneInv n x) g an la rmatch full orig startTok startPl n top rest h ih

/-- the total-loss recovery: go back to set 0, shift `error`, skip to the end marker -/
theorem totalLoss_simpleRec {g : Grammar} {an : Analysis} {la rmatch : Nat} {full : List Nat}
    {pl : List PSet} {tok : Nat} (hloss : g.hasTotalLoss = true) (hrun : RunOk g an la full pl)
    (ht : tok < full.length) (heof : full[full.length - 1]? = some g.eofT) :
    SimpleRec g an la rmatch full pl tok (pl.length - 1) 0 (full.length - 1)
      ((pl.length - 1) + (full.length - 1 - tok)) := by
  obtain ⟨r, rl, hr, hl, hrhs⟩ := Grammar.hasTotalLoss_spec hloss
  obtain ⟨s0, rest, rfl, h0⟩ := hrun.head
  have hns0 : g.nextSym r 0 = some (Sym.t g.errT) :=
    nextSym_eq_some.mpr ⟨rl, hr, by rw [hrhs]; rfl⟩
  have hns1 : g.nextSym r 1 = some (Sym.t g.eofT) :=
    nextSym_eq_some.mpr ⟨rl, hr, by rw [hrhs]; rfl⟩
  have hmem0 : (⟨r, 0, 0⟩ : Item) ∈ s0.items := by
    rw [h0]
    unfold set0
    exact start_subset_closeSet (mem_initItems.mpr ⟨r, rl, hr, hl, rfl⟩)
  have hmem1 : (⟨r, 1, 0⟩ : Item) ∈ (errSetOf g [s0]).items := by
    unfold errSetOf nextSet
    apply start_subset_closeSet
    exact mem_advanceOver.mpr ⟨⟨r, 0, 0⟩, by simpa [psItems] using hmem0, hns0, rfl, rfl⟩
  have hgd : full.getD (full.length - 1) 0 = g.eofT := by
    rw [List.getD_eq_getElem?_getD, heof]; rfl
  have htake : (s0 :: rest).take (0 + 1) = [s0] := rfl
  refine ⟨?_, by omega, by omega, ?_, Nat.le_refl _⟩
  · exact hasTrans_iff.mpr ⟨_, hmem0, hns0⟩
  · rw [htake]
    have e : full.length + 2 = (full.length + 1) + 1 := rfl
    rw [e]
    unfold canMatch
    rw [if_neg (max_one_ne_zero _), heof]
    simp only
    rw [if_pos (by
      rw [getLastD_concat]
      exact hasTrans_iff.mpr ⟨_, hmem1, hns1⟩)]
    have e2 : full.length + 1 = full.length + 1 := rfl
    unfold canMatch
    split
    · rfl
    · have hnone : full[full.length - 1 + 1]? = none :=
        List.getElem?_eq_none_iff.mpr (by omega)
      rw [hnone]

/-- if the grammar has `$S : error $eof`, a finished search has found a recovery -/
theorem recoverAt_finds {g : Grammar} {an : Analysis} {la rmatch : Nat} {full : List Nat}
    {pl : List PSet} {tok : Nat} (hloss : g.hasTotalLoss = true) (hpl : PLOk g full pl tok)
    (hrun : RunOk g an la full pl) (ht : tok < full.length)
    (heof : full[full.length - 1]? = some g.eofT) (sfuel : Nat)
    (hstack : (recoverAt g an la rmatch full pl tok sfuel).stack = []) :
    (recoverAt g an la rmatch full pl tok sfuel).best ≠ none := by
  have ctx := hpl.rctx ht hrun
  have hsim := totalLoss_simpleRec (rmatch := rmatch) hloss hrun ht heof
  obtain ⟨hinit, hbtf⟩ := recoverInit_inv hpl ht hrun
  have hcov0 : Cov (recoverInit g full pl tok) 0 (full.length - 1)
      ((pl.length - 1) + (full.length - 1 - tok)) := by
    rcases Nat.eq_zero_or_pos (findError g pl (pl.length - 1) 0).1 with heq | hpos
    · refine Or.inr (Or.inl ⟨_, List.mem_singleton.mpr rfl, heq, rfl, by simp only; omega, ?_⟩)
      have h1 := backCost_le_len ctx (findError g pl (pl.length - 1) 0).1
      have h2 : (findError g pl (pl.length - 1) 0).2 =
          backCost g pl (findError g pl (pl.length - 1) 0).1 := hbtf
      simp only
      omega
    · exact Or.inr (Or.inr ⟨hpos, by unfold recoverInit; simp⟩)
  have hfin := (searchLoop_cov ctx hsim sfuel _ hinit (fun bst h => by cases h) hcov0).2
  have hnone := searchLoop_bestNone g an la rmatch full pl tok (pl.length - 1) full.length sfuel
    (recoverInit g full pl tok) (fun _ => rfl)
  rw [← recoverAt_eq] at hfin hnone
  have hcost : (recoverAt g an la rmatch full pl tok sfuel).bestCost ≤
      (pl.length - 1) + (full.length - 1 - tok) := by
    rcases hfin with h | ⟨σ, hσ, _⟩ | ⟨_, hne⟩
    · exact h
    · rw [hstack] at hσ; cases hσ
    · exact absurd hstack hne
  intro hb
  have := hnone hb
  have := hpl.length_le
  omega

/-! ## the whole parse -/

/-- enough search fuel for an input of `n` tokens (end marker included) -/
def recoveryFuel (n rmatch : Nat) : Nat := (2 * n + 1) * (rmatch + 2) ^ n

theorem recoverInit_mu {g : Grammar} {full : List Nat} {pl : List PSet} {tok : Nat}
    (hpl : PLOk g full pl tok) (ht : tok < full.length) (rmatch : Nat) :
    searchMu (rmatch + 2) full.length (recoverInit g full pl tok) ≤
      recoveryFuel full.length rmatch := by
  have hlen := hpl.length_le
  have hpos : 0 < pl.length := by obtain ⟨s0, rest, rfl, _⟩ := hpl; simp
  have hb := (findError_spec g pl (pl.length - 1) 0 (by omega)).1
  unfold searchMu recoverInit recoveryFuel
  simp only [stackW, Nat.add_zero]
  have h1 : (rmatch + 2) ^ (full.length - tok) ≤ (rmatch + 2) ^ full.length :=
    Nat.pow_le_pow_right (by omega) (Nat.sub_le _ _)
  have h2 : (findError g pl (pl.length - 1) 0).1 * (rmatch + 2) ^ full.length ≤
      (2 * full.length) * (rmatch + 2) ^ full.length := Nat.mul_le_mul_right _ (by omega)
  rw [Nat.add_mul, Nat.one_mul]
  omega

/-- with the total-loss rule and enough fuel every call of `error_recovery` finishes and
finds a recovery -/
theorem recoverAt_ok {g : Grammar} {an : Analysis} {la rmatch : Nat} {full : List Nat}
    {pl : List PSet} {tok : Nat} (hloss : g.hasTotalLoss = true) (hpl : PLOk g full pl tok)
    (hrun : RunOk g an la full pl) (ht : tok < full.length)
    (heof : full[full.length - 1]? = some g.eofT) {sfuel : Nat}
    (hf : recoveryFuel full.length rmatch ≤ sfuel) :
    (recoverAt g an la rmatch full pl tok sfuel).stack = [] ∧
    (recoverAt g an la rmatch full pl tok sfuel).best ≠ none := by
  have ctx := hpl.rctx ht hrun
  have hstack : (recoverAt g an la rmatch full pl tok sfuel).stack = [] := by
    rw [recoverAt_eq]
    exact searchLoop_terminates ctx sfuel _ (recoverInit_inv hpl ht hrun).1
      (Nat.le_trans (recoverInit_mu hpl ht rmatch) hf)
  exact ⟨hstack, recoverAt_finds hloss hpl hrun ht heof sfuel hstack⟩

theorem parseRecLoop_ok {g : Grammar} {an : Analysis} {la rmatch : Nat} {full : List Nat}
    {sfuel : Nat} (hloss : g.hasTotalLoss = true) (heof : full[full.length - 1]? = some g.eofT)
    (hf : recoveryFuel full.length rmatch ≤ sfuel) :
    ∀ (fuel tok : Nat) (pl : List PSet) (calls : List (Nat × Nat × Nat)) (steps : Nat),
      OuterInv g an la full tok pl calls → full.length + 1 ≤ fuel + tok →
      (parseRecLoop g an la rmatch full sfuel fuel tok pl calls steps).ok = true := by
  intro fuel
  induction fuel with
  | zero => intro tok pl calls steps h h1; have := h.tok_le; omega
  | succ fuel ih =>
    intro tok pl calls steps h h1
    unfold parseRecLoop
    split
    · rfl
    · rename_i t ht
      have hlt := (List.getElem?_eq_some_iff.mp ht).1
      simp only
      split
      · rename_i hT
        exact ih _ _ _ _ (h.shift ht hT) (by omega)
      · obtain ⟨hstack, hbest⟩ := recoverAt_ok (rmatch := rmatch) hloss h.pl_ok h.run hlt heof hf
        have hSI := recoverAt_inv (rmatch := rmatch) h.pl_ok hlt h.run sfuel
        split
        · rename_i hb; exact absurd hb hbest
        · rename_i b hb
          rw [hstack]
          simp only [List.isEmpty_nil, Bool.not_true, Bool.false_eq_true, if_false]
          obtain ⟨hO, hge⟩ := h.recover hlt (hSI.best b hb)
          exact ih _ _ _ _ hO (by omega)

/-- With error recovery on the parse succeeds for every input, given the rule
`$S : error $eof` and enough search fuel. -/
theorem parseWithRecovery_ok {g : Grammar} (hloss : g.hasTotalLoss = true) (la rmatch : Nat)
    (w : List Nat) {sfuel : Nat} (hf : recoveryFuel (w.length + 1) rmatch ≤ sfuel) :
    (parseWithRecovery g la rmatch w sfuel).ok = true := by
  unfold parseWithRecovery
  have hlen : (w ++ [g.eofT]).length = w.length + 1 := by simp
  refine parseRecLoop_ok hloss ?_ (by rw [hlen]; exact hf) _ 0 _ [] 0 (outerInv_init g _ _ _)
    (by omega)
  rw [hlen, Nat.add_sub_cancel, List.getElem?_append_right (Nat.le_refl _), Nat.sub_self]
  rfl

/-! ## `yaep_read_grammar` always adds the total-loss rule -/

theorem finishRG_hasTotalLoss (s : RG) : (finishRG s).hasTotalLoss = true := by
  unfold Grammar.hasTotalLoss finishRG RG.toGrammar
  simp only [List.any_append, List.any_cons, List.any_nil, Bool.or_false, beq_self_eq_true,
    Bool.and_self, Bool.or_true]

theorem readGrammar_hasTotalLoss {raw : RawGrammar} {g : Grammar} (h : readGrammar raw = .ok g) :
    g.hasTotalLoss = true := by
  rw [readGrammar_eq] at h
  cases hb : buildGrammar raw with
  | error c => rw [hb] at h; cases h
  | ok g' =>
    rw [hb] at h
    simp only at h
    split at h
    · cases h
    · simp only [Except.ok.injEq] at h
      subst h
      unfold buildGrammar at hb
      cases hr : buildRG raw with
      | error c => rw [hr] at hb; cases hb
      | ok s =>
        rw [hr] at hb
        simp only [Except.ok.injEq] at hb
        subst hb
        exact finishRG_hasTotalLoss s

end Yaep
