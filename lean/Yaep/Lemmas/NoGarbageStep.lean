import Yaep.Lemmas.NoGarbageInv
import Yaep.Lemmas.MakeParseAllStep
/-!
# No garbage, part 3: the invariant is kept by every iteration of the main loop of `make_parse`
(both modes, any parse list)
-/
namespace Yaep.NG
open Yaep MP

/-- the only thing needed of the grammar: a translated position refers to a slot below `trans_len` -/
def COK (c : Ctx) : Prop :=
  ∀ r p d, (c.rule r).order.getD p none = some d → d < (c.rule r).transLen

/-- the invariant on a machine state -/
def NGInv (c : Ctx) (s : St) : Prop :=
  Inv c s.heap s.states s.stack s.nilUsed s.errUsed s.namedRules s.nameAfter

theorem NGInv.place {c : Ctx} {s : St} (hi : NGInv c s) {a d : Nat} (hs : PSlot s.heap a d)
    (node : Nat) : NGInv c (s.place (a, d) node) := (Inv.place hi hs node).1

/-- the slot of its own abstract node a state fills for a translated position -/
theorem own_slot {c : Ctx} {h : Array MNode} {sts : Array PState} {stack : List Nat} {nu eu : Bool}
    {nr na : List Nat} (hi : Inv c h sts stack nu eu nr na) (hc : COK c) {sid an p d : Nat} (hne : sid ≠ 0)
    (han : (sts.getD sid default).anode = some an)
    (hd : (c.rule (sts.getD sid default).rule).order.getD p none = some d) : PSlot h an d := by
  obtain ⟨h3, nm, cst, ks, c1, c2⟩ := hi.sok.own sid an hne han
  have := hc _ _ _ hd
  exact ⟨nm, cst, ks, c1, by omega, Or.inr ⟨h3, by omega⟩⟩

/-! ## popping a state -/

theorem popFold_pair (an : Nat) : ∀ (l : List Nat) (s : St),
    let r := l.foldl (fun (s : St) i =>
          if (getKid s.heap an i).isNone then
            { s with heap := setKid s.heap an i (some nilId), nilUsed := true }
          else s) s
    (r.heap, r.nilUsed) = l.foldl (fillStep an) (s.heap, s.nilUsed) ∧
    r.states = s.states ∧ r.stack = s.stack ∧ r.errUsed = s.errUsed ∧
    r.namedRules = s.namedRules ∧ r.nameAfter = s.nameAfter
  | [], s => ⟨rfl, rfl, rfl, rfl, rfl, rfl⟩
  | i :: l, s => by
    simp only [List.foldl_cons]
    have ih := popFold_pair an l (if (getKid s.heap an i).isNone then
            { s with heap := setKid s.heap an i (some nilId), nilUsed := true } else s)
    simp only at ih
    obtain ⟨i1, i2, i3, i4, i5, i6⟩ := ih
    refine ⟨?_, ?_, ?_, ?_, ?_, ?_⟩
    · rw [i1]; congr 1; unfold fillStep; split <;> rfl
    · rw [i2]; split <;> rfl
    · rw [i3]; split <;> rfl
    · rw [i4]; split <;> rfl
    · rw [i5]; split <;> rfl
    · rw [i6]; split <;> rfl

theorem step_pop_inv {c : Ctx} {s : St} {sid : Nat} {rest : List Nat} (hi : NGInv c s)
    (hst : s.stack = sid :: rest) (hpos : (s.state sid).pos = 0) : NGInv c (step c s) := by
  have hi' : Inv c s.heap s.states (sid :: rest) s.nilUsed s.errUsed s.namedRules s.nameAfter := by
    have := hi; unfold NGInv at this; rw [hst] at this; exact this
  have hne : sid ≠ 0 := by
    intro e; subst e; exact hi'.nz List.mem_cons_self
  cases han : (s.state sid).anode with
  | none =>
    have hpop : Inv c s.heap s.states rest s.nilUsed s.errUsed s.namedRules s.nameAfter := by
      apply hi'.pop
      intro an nm cst ks h1
      have : (s.state sid).anode = some an := h1
      rw [han] at this; cases this
    cases hpa : (s.state (s.state sid).parent).anode with
    | none =>
      have : step c s = { s with stack := rest } := by
        unfold step
        simp only [hst, hpos, han, hpa]
        simp
      rw [this]; exact hpop
    | some pa =>
      rw [step_pop_none hst hpos han hpa]
      split
      · have hs : PSlot s.heap pa (s.state sid).parentDisp := hi'.sok.par sid pa hpa
        exact NGInv.place (s := { s with stack := rest }) hpop hs nilId
      · exact hpop
  | some an =>
    rw [step_pop_some hst hpos han]
    obtain ⟨p1, p2, p3, p4, p5, p6⟩ := popFold_pair an (List.range (c.rule (s.state sid).rule).transLen)
      { s with stack := rest }
    simp only at p1 p2 p3 p4 p5 p6
    obtain ⟨h3, nm, cst, ks, c1, c2'⟩ := hi'.sok.own sid an hne han
    have c2 : ks.size = (c.rule (s.state sid).rule).transLen + 1 := c2'
    have hsl : ∀ i ∈ List.range (c.rule (s.state sid).rule).transLen, PSlot s.heap an i := by
      intro i hi2
      rw [List.mem_range] at hi2
      exact ⟨nm, cst, ks, c1, by omega, Or.inr ⟨h3, by omega⟩⟩
    obtain ⟨f1, f2, f3⟩ := fill_inv (List.range (c.rule (s.state sid).rule).transLen) s.heap
      s.nilUsed hi' hsl
    unfold NGInv
    rw [p2, p3, p4, p5, p6]
    have e1 := congrArg Prod.fst p1
    have e2 := congrArg Prod.snd p1
    simp only at e1 e2
    rw [e1, e2]
    apply f1.pop
    intro an' nm' cst' ks' h1 h2
    have h1' : (s.state sid).anode = some an' := h1
    rw [han] at h1'; injection h1' with h1'; subst h1'
    obtain ⟨ks1, d1, d2, _⟩ := f2.anode c1
    rw [d1] at h2; injection h2 with _ _ e3; subst e3
    intro j hj
    have hj' : j < (c.rule (s.state sid).rule).transLen := by omega
    have := f3 j (List.mem_range.2 hj')
    rw [getKid_cell d1] at this
    exact this

/-! ## a terminal before the dot -/

theorem stepTerm_inv {c : Ctx} {s : St} {sid : Nat} {pos : Nat} {a : Nat}
    (hi : NGInv c s) (hc : COK c) (hne : sid ≠ 0) :
    NGInv c (stepTerm c sid (s.state sid) pos ((c.rule (s.state sid).rule).order.getD pos none) a
      (s.state (s.state sid).parent).anode s) := by
  have hset : ∀ (s' : St) (p' : PState), NGInv c s' → s'.states = s.states →
      SameImm p' (s.state sid) → NGInv c (s'.setState sid p') := by
    intro s' p' h1 h2 h3
    unfold NGInv at h1 ⊢
    show Inv c s'.heap (s'.states.set! sid p') s'.stack s'.nilUsed s'.errUsed s'.namedRules s'.nameAfter
    apply h1.setState
    rw [h2]; exact h3
  unfold stepTerm
  cases hpa : (s.state (s.state sid).parent).anode with
  | none =>
    simp only
    exact hset _ _ hi rfl ⟨rfl, rfl, rfl, rfl⟩
  | some pa =>
    cases hd : (c.rule (s.state sid).rule).order.getD pos none with
    | none =>
      simp only
      exact hset _ _ hi rfl ⟨rfl, rfl, rfl, rfl⟩
    | some d =>
      simp only
      have key : ∀ pl1 pl2 (s1 s2 s3 : St) (P : PState), PSlot s.heap pl1 pl2 →
          s1.heap = s.heap → s1.states = s.states → s1.stack = s.stack → s1.nilUsed = s.nilUsed →
          s1.errUsed = s.errUsed → s1.namedRules = s.namedRules → s1.nameAfter = s.nameAfter →
          s3.heap = s.heap.push (MNode.term (c.termCodes.getD a 0)
            (c.plToks.getD ((s.state sid).plInd - 1 + 1) (-1))) →
          s3.states = s.states → s3.stack = s.stack → s3.nilUsed = s.nilUsed →
          s3.errUsed = s.errUsed → s3.namedRules = s.namedRules → s3.nameAfter = s.nameAfter →
          SameImm P (s.state sid) →
          NGInv c
          ((if (a == c.errT) = true then s1.place (pl1, pl2) errId
            else
              match (if c.oneParse = true then none
                else s.termNodes.getD (c.plToks.getD ((s.state sid).plInd - 1 + 1) (-1)).toNat none) with
              | some node => s1.place (pl1, pl2) node
              | none => s3.place (pl1, pl2) s.heap.size).setState sid P) := by
        intro pl1 pl2 s1 s2 s3 P hslot a1 a2 a3 a4 a5 a6 a7 b1 b2 b3 b4 b5 b6 b7 hP
        have hi1 : NGInv c s1 := by unfold NGInv; rw [a1, a2, a3, a4, a5, a6, a7]; exact hi
        have hslot1 : PSlot s1.heap pl1 pl2 := by rw [a1]; exact hslot
        refine hset _ _ ?_ ?_ hP
        · split
          · exact hi1.place hslot1 errId
          · split
            · exact hi1.place hslot1 _
            · unfold NGInv
              show Inv c (placeTranslation s3.heap (pl1, pl2) s.heap.size) s3.states s3.stack
                (s3.nilUsed || s.heap.size == nilId) (s3.errUsed || s.heap.size == errId)
                s3.namedRules s3.nameAfter
              have hsz := hi.hok.size
              have e1 : (s.heap.size == nilId) = false := by
                simp only [beq_eq_false_iff_ne, nilId]; omega
              have e2 : (s.heap.size == errId) = false := by
                simp only [beq_eq_false_iff_ne, errId]; omega
              rw [b1, b2, b3, b4, b5, b6, b7, e1, e2, Bool.or_false, Bool.or_false]
              exact (Inv.allocLeaf hi hslot _ _).1
        · split
          · exact a2
          · split
            · exact a2
            · exact b2
      cases han : (s.state sid).anode with
      | none =>
        exact key _ _ _ s _ _ (hi.sok.par sid pa hpa) rfl rfl rfl rfl rfl rfl rfl rfl rfl rfl rfl rfl
          rfl rfl
          ⟨han.symm, rfl, rfl, rfl⟩
      | some an =>
        exact key _ _ _ s _ _ (own_slot hi hc hne han hd) rfl rfl rfl rfl rfl rfl rfl rfl rfl rfl rfl
          rfl rfl rfl
          ⟨han.symm, rfl, rfl, rfl⟩

end Yaep.NG
