import Yaep.Lemmas.CompleteInv
/-!
# Completeness of the all-parses forest, part 4: the frame of one iteration of the main loop

`CInv.step_of`: everything an iteration that works on the top state `X` has to supply.
-/
namespace Yaep.CP
open Yaep Yaep.MP

theorem state_congr {s s' : St} (h : s'.states = s.states) (x : Nat) : s'.state x = s.state x := by
  unfold St.state; rw [h]

theorem tgt_congr {s s' : St} {st : PState}
    (h : (s'.state st.parent).anode = (s.state st.parent).anode) : tgt s' st = tgt s st := by
  unfold tgt; rw [h]

section
variable {g : Grammar} {ok : Nat → Nat → Nat → Bool} {toks : List Nat} {s : St}

/-- parents are older states -/
theorem parent_lt {G : Ghost} {hole : Option (Nat × Nat)} (hgood : AGood g ok toks s G hole) {x : Nat}
    (hx : x ∈ s.stack) : (s.state x).parent < x ∧ x < s.states.size := by
  obtain ⟨rl, hst⟩ := hgood.states x hx
  exact ⟨hst.parLt, hst.lt⟩

/-- the invariant after an iteration that works on the top state `X`: the tree memory is monotone,
no state changes its abstract node, the states below `X` are untouched; the states of the new
stack that are not such old states have a right context and their abstract node in place; every
debt of `X` is honoured. -/
theorem CInv.step_of {s' : St} {X : Nat} {rest : List Nat} (hinv : CInv g ok toks s)
    (hst : s.stack = X :: rest) (hgood' : ∃ G, AGood g ok toks s' G none)
    (hm : HMono s.heap s'.heap)
    (han : ∀ y, y < s.states.size → (s'.state y).anode = (s.state y).anode)
    (hold : ∀ x ∈ rest, x ∈ s'.stack ∧ s'.state x = s.state x)
    (hnew : ∀ x ∈ s'.stack, x ∈ rest ∨ (RCtx g toks (s'.state x) ∧
      ∀ a, (s'.state x).anode = some a → InSlot s'.heap (tgt s' (s'.state x)) a))
    (htop : ∀ π t, OweBy g toks s (fun π t => Ev g toks s π t ∧ Ev g toks s' π t) (s.state X) π t →
      Ev g toks s' π t) : CInv g ok toks s' := by
  obtain ⟨G, hgood⟩ := hinv.good
  have hrestmem : ∀ x ∈ rest, x ∈ s.stack := fun x hx => by rw [hst]; exact List.mem_cons_of_mem _ hx
  have htg : ∀ x ∈ s.stack, tgt s' (s.state x) = tgt s (s.state x) := by
    intro x hx
    obtain ⟨p1, p2⟩ := parent_lt hgood hx
    exact tgt_congr (han _ (by omega))
  refine ⟨hgood', ?_, ?_, hm.shape hinv.shape, ?_⟩
  · intro x hx
    rcases hnew x hx with hr | ⟨h1, _⟩
    · rw [(hold x hr).2]; exact hinv.rc x (hrestmem x hr)
    · exact h1
  · intro x hx a ha
    rcases hnew x hx with hr | ⟨_, h2⟩
    · rw [(hold x hr).2] at ha ⊢
      rw [htg x (hrestmem x hr)]
      exact hm.inslot _ _ (hinv.inpl x (hrestmem x hr) a ha)
    · exact h2 a ha
  · intro t ht
    refine Ev.transfer (fun x => x = X) hm.slot ?_ ?_ (hinv.root t ht)
    · intro x hx hne
      rw [hst] at hx
      rcases List.mem_cons.mp hx with rfl | hx'
      · exact absurd rfl hne
      · exact ⟨(hold x hx').1, (hold x hx').2, htg x (hrestmem x hx')⟩
    · intro x _ hx π t' ho
      have hx' : x = X := hx
      subst hx'
      exact htop π t' ho

end

end Yaep.CP
