import Yaep.Lemmas.RecoveredParseRelabel
/-!
# Two runs of `make_parse` that differ only in the token numbers of the parse list

`Sim`: the second machine state is the first one with renamed TERM attributes; the two
`term_node_array`s agree modulo the renaming of the indices.  `TermHyp`: the terminal step the
machine is about to make (if any) does not meet a negative token number in the second run.
`step_sim`: under `TermHyp` one iteration of the main loop preserves `Sim`.
-/
namespace Yaep.RP
open Yaep Yaep.MP

/-- static relation between the token numbers `P` of the first and `P'` of the second run:
`f` renames them, a list element that has a token number in the second run has one in the
first, the renaming is injective on them, and both `term_node_array`s are large enough -/
structure TokRel (f : Int → Int) (P P' : Array Int) (n0 n0' : Nat) : Prop where
  hf : ∀ j, 1 ≤ j → 0 ≤ P'.getD j (-1) → f (P.getD j (-1)) = P'.getD j (-1)
  nn : ∀ j, 1 ≤ j → 0 ≤ P'.getD j (-1) → 0 ≤ P.getD j (-1)
  inj : ∀ j1 j2, 1 ≤ j1 → 1 ≤ j2 → 0 ≤ P'.getD j1 (-1) → 0 ≤ P'.getD j2 (-1) →
    ((P'.getD j1 (-1)).toNat = (P'.getD j2 (-1)).toNat ↔
      (P.getD j1 (-1)).toNat = (P.getD j2 (-1)).toNat)
  rng : ∀ j, 1 ≤ j → 0 ≤ P'.getD j (-1) →
    (P.getD j (-1)).toNat < n0 ∧ (P'.getD j (-1)).toNat < n0'

structure Sim (f : Int → Int) (P P' : Array Int) (n0 n0' : Nat) (s s' : St) : Prop where
  eq : s' = lift f s s'.termNodes s.bad
  tn : ∀ j, 1 ≤ j → 0 ≤ P'.getD j (-1) →
    s'.termNodes.getD (P'.getD j (-1)).toNat none = s.termNodes.getD (P.getD j (-1)).toNat none
  sz : s.termNodes.size = n0
  sz' : s'.termNodes.size = n0'

/-- the next iteration, if it processes a terminal other than `error` whose translation is
wanted, finds a nonnegative token number in `P'` -/
def TermHyp (c : Ctx) (P' : Array Int) (s : St) : Prop :=
  ∀ sid rest a pa d, s.stack = sid :: rest → ((s.state sid).pos == 0) = false →
    (c.rule (s.state sid).rule).rhs.getD ((s.state sid).pos - 1) (.t 0) = .t a →
    (s.state (s.state sid).parent).anode = some pa →
    (c.rule (s.state sid).rule).order.getD ((s.state sid).pos - 1) none = some d →
    (a == c.errT) = false → 0 ≤ P'.getD ((s.state sid).plInd - 1 + 1) (-1)

variable {f : Int → Int} {P' : Array Int} {n0 n0' : Nat}

theorem sim_of_lift {c : Ctx} {s t : St} {tn' : Array (Option Nat)}
    (htn : t.termNodes = s.termNodes)
    (h : Sim f c.plToks P' n0 n0' s (lift f s tn' s.bad)) :
    Sim f c.plToks P' n0 n0' t (lift f t tn' t.bad) := by
  refine ⟨rfl, ?_, ?_, h.sz'⟩
  · intro j hj hp
    have := h.tn j hj hp
    rw [htn]; exact this
  · rw [htn]; exact h.sz

theorem rlH_push_term (h : Array MNode) (cd a : Int) :
    (rlH f h).push (.term cd (f a)) = rlH f (h.push (.term cd a)) := by
  rw [rlH_push]; rfl

theorem rlH_push_term' (h : Array MNode) (cd : Int) {a a' : Int} (ha : f a = a') :
    (rlH f h).push (.term cd a') = rlH f (h.push (.term cd a)) := by
  rw [← ha, rlH_push_term]

/-- `stepTerm` for a terminal other than `error` whose translation is wanted -/
theorem stepTerm_main (c : Ctx) (sid : Nat) (st : PState) (pos d a pa : Nat) (s : St)
    (hae : (a == c.errT) = false) :
    stepTerm c sid st pos (some d) a (some pa) s =
      (match (if c.oneParse then none
              else s.termNodes.getD (c.plToks.getD (st.plInd - 1 + 1) (-1)).toNat none) with
       | some node =>
         ({ s with bad := s.bad || st.plInd == 0 } : St).place
           (match st.anode with | some an => (an, d) | none => (pa, st.parentDisp)) node
       | none =>
         ({ s with
            heap := s.heap.push (.term (c.termCodes.getD a 0) (c.plToks.getD (st.plInd - 1 + 1) (-1))),
            bad := (s.bad || st.plInd == 0) || decide (c.plToks.getD (st.plInd - 1 + 1) (-1) < 0) ||
              (!c.oneParse && decide ((c.plToks.getD (st.plInd - 1 + 1) (-1)).toNat ≥ s.termNodes.size)),
            termNodes := if c.oneParse then s.termNodes
              else s.termNodes.set! (c.plToks.getD (st.plInd - 1 + 1) (-1)).toNat (some s.heap.size) } : St).place
           (match st.anode with | some an => (an, d) | none => (pa, st.parentDisp)) s.heap.size).setState sid
        { st with pos := pos, plInd := if pos != 0 then st.plInd - 1 else st.plInd } := by
  unfold stepTerm
  simp only [hae]
  rfl

theorem stepTerm_sim {c : Ctx} (R : TokRel f c.plToks P' n0 n0') {sid : Nat} {st : PState} {pos : Nat}
    {disp : Option Nat} {a : Nat} {parentAnode : Option Nat} {s : St} {tn' : Array (Option Nat)}
    (h : Sim f c.plToks P' n0 n0' s (lift f s tn' s.bad))
    (hpos : ∀ pa d, parentAnode = some pa → disp = some d → (a == c.errT) = false →
      0 ≤ P'.getD (st.plInd - 1 + 1) (-1)) :
    ∃ tn'', stepTerm (reTok c P') sid st pos disp a parentAnode (lift f s tn' s.bad) =
        lift f (stepTerm c sid st pos disp a parentAnode s) tn''
          (stepTerm c sid st pos disp a parentAnode s).bad ∧
      Sim f c.plToks P' n0 n0' (stepTerm c sid st pos disp a parentAnode s)
        (lift f (stepTerm c sid st pos disp a parentAnode s) tn''
          (stepTerm c sid st pos disp a parentAnode s).bad) := by
  have hP : (reTok c P').plToks = P' := rfl
  have hE : (reTok c P').errT = c.errT := rfl
  have hO : (reTok c P').oneParse = c.oneParse := rfl
  have hC : (reTok c P').termCodes = c.termCodes := rfl
  cases parentAnode with
  | none => exact ⟨tn', rfl, sim_of_lift (s := s) rfl h⟩
  | some pa =>
    cases disp with
    | none => exact ⟨tn', rfl, sim_of_lift (s := s) rfl h⟩
    | some d =>
      by_cases hae : (a == c.errT) = true
      · refine ⟨tn', ?_, ?_⟩
        · unfold stepTerm
          simp only [hE, hae, if_true, St.place, lift, placeTranslation_rl, St.setState]
        · apply sim_of_lift (s := s) ?_ h
          unfold stepTerm
          simp only [hae, if_true]
          rfl
      · have hae' : (a == c.errT) = false := by simpa using hae
        have hp := hpos pa d rfl rfl hae'
        have hj : 1 ≤ st.plInd - 1 + 1 := Nat.le_add_left 1 _
        have hnn := R.nn _ hj hp
        have hff := R.hf _ hj hp
        obtain ⟨hr1, hr2⟩ := R.rng _ hj hp
        rw [stepTerm_main c sid st pos d a pa s hae',
          stepTerm_main (reTok c P') sid st pos d a pa _ hae']
        simp only [hP, hO, hC]
        have hd1 : decide (c.plToks.getD (st.plInd - 1 + 1) (-1) < 0) = false := by
          simp only [decide_eq_false_iff_not]; omega
        have hd2 : decide (P'.getD (st.plInd - 1 + 1) (-1) < 0) = false := by
          simp only [decide_eq_false_iff_not]; omega
        have hd3 : decide (f (c.plToks.getD (st.plInd - 1 + 1) (-1)) < 0) = false := by
          rw [hff]; exact hd2
        have htn : (lift f s tn' s.bad).termNodes = tn' := rfl
        have hhp : (lift f s tn' s.bad).heap = rlH f s.heap := rfl
        have hbd : (lift f s tn' s.bad).bad = s.bad := rfl
        have hsz : s.termNodes.size = n0 := h.sz
        have hsz' : tn'.size = n0' := h.sz'
        by_cases hone : c.oneParse = true
        · simp only [hone, if_true]
          refine ⟨tn', ?_, ?_⟩
          · rw [← hff]
            simp only [St.place, lift, placeTranslation_rl, St.setState, rlH_push_term, rlH_size,
              hd1, hd3, Bool.not_true, Bool.false_and, Bool.or_false]
          · apply sim_of_lift (s := s) ?_ h
            rfl
        · have hone' : c.oneParse = false := by simpa using hone
          simp only [hone', Bool.false_eq_true, if_false, htn]
          have hk := h.tn _ hj hp
          rw [htn] at hk
          rw [hk]
          cases hkn : s.termNodes.getD (c.plToks.getD (st.plInd - 1 + 1) (-1)).toNat none with
          | some node =>
            simp only
            refine ⟨tn', ?_, ?_⟩
            · simp only [St.place, lift, placeTranslation_rl, St.setState]
            · apply sim_of_lift (s := s) ?_ h
              rfl
          | none =>
            simp only
            have hd4 : decide ((c.plToks.getD (st.plInd - 1 + 1) (-1)).toNat ≥ s.termNodes.size) = false := by
              simp only [decide_eq_false_iff_not]; omega
            have hd5 : decide ((P'.getD (st.plInd - 1 + 1) (-1)).toNat ≥ tn'.size) = false := by
              simp only [decide_eq_false_iff_not]; omega
            refine ⟨tn'.set! (P'.getD (st.plInd - 1 + 1) (-1)).toNat (some s.heap.size), ?_, ?_⟩
            · simp only [St.place, lift, placeTranslation_rl, St.setState, rlH_push_term' _ _ hff, rlH_size,
                hd1, hd2, hd4, hd5, Bool.and_false, Bool.or_false]
            · refine ⟨rfl, ?_, ?_, ?_⟩
              · intro j2 hj2 hp2
                show (tn'.set! _ _).getD _ none = (s.termNodes.set! _ _).getD _ none
                rw [getD_set!, getD_set!]
                have hi := R.inj _ _ hj hj2 hp hp2
                have hk2 := h.tn j2 hj2 hp2
                rw [htn] at hk2
                by_cases he : (P'.getD (st.plInd - 1 + 1) (-1)).toNat = (P'.getD j2 (-1)).toNat
                · rw [if_pos ⟨he, by omega⟩, if_pos ⟨hi.mp he, by omega⟩]
                · rw [if_neg (fun hh => he hh.1), if_neg (fun hh => he (hi.mpr hh.1))]
                  exact hk2
              · show (s.termNodes.set! _ _).size = n0
                simp [Array.set!_eq_setIfInBounds, hsz]
              · show (tn'.set! _ _).size = n0'
                simp [Array.set!_eq_setIfInBounds, hsz']


/-- the final `NULL → empty_node` pass over the children of a finished abstract node -/
def fillF (an : Nat) : St → Nat → St := fun s i =>
  if (getKid s.heap an i).isNone then
    { s with heap := setKid s.heap an i (some nilId), nilUsed := true }
  else s

theorem fillF_lift (an : Nat) (s : St) (tn : Array (Option Nat)) (b : Bool) (i : Nat) :
    fillF an (lift f s tn b) i = lift f (fillF an s i) tn b := by
  unfold fillF
  have hh : (lift f s tn b).heap = rlH f s.heap := rfl
  simp only [hh, getKid_rl]
  split
  · simp only [lift, setKid_rl]
  · rfl

theorem fill_lift (an : Nat) (tn : Array (Option Nat)) (b : Bool) :
    ∀ (l : List Nat) (s : St), l.foldl (fillF an) (lift f s tn b) = lift f (l.foldl (fillF an) s) tn b
  | [], _ => rfl
  | i :: l, s => by
    rw [List.foldl_cons, List.foldl_cons, fillF_lift]
    exact fill_lift an tn b l _

theorem fill_termNodes_bad (an : Nat) :
    ∀ (l : List Nat) (s : St), (l.foldl (fillF an) s).termNodes = s.termNodes ∧
      (l.foldl (fillF an) s).bad = s.bad
  | [], _ => ⟨rfl, rfl⟩
  | i :: l, s => by
    rw [List.foldl_cons]
    obtain ⟨h1, h2⟩ := fill_termNodes_bad an l (fillF an s i)
    rw [h1, h2]
    unfold fillF
    split <;> exact ⟨rfl, rfl⟩

/-- `step` with a nonempty stack, as a term -/
theorem step_cons (c : Ctx) (s : St) {sid : Nat} {rest : List Nat} (hs : s.stack = sid :: rest) :
    step c s =
      if (s.state sid).pos == 0 then
        match (s.state sid).anode with
        | none =>
          match (s.state (s.state sid).parent).anode with
          | some pa =>
            if (c.rule (s.state sid).rule).transLen == 0
            then ({ s with stack := rest } : St).place (pa, (s.state sid).parentDisp) nilId
            else { s with stack := rest }
          | none => { s with stack := rest }
        | some an =>
          (List.range (c.rule (s.state sid).rule).transLen).foldl (fillF an) { s with stack := rest }
      else
        match (c.rule (s.state sid).rule).rhs.getD ((s.state sid).pos - 1) (.t 0) with
        | .t a => stepTerm c sid (s.state sid) ((s.state sid).pos - 1)
            ((c.rule (s.state sid).rule).order.getD ((s.state sid).pos - 1) none) a
            (s.state (s.state sid).parent).anode s
        | .n A =>
          let r := candLoop c
            { origSid := sid, rule := (s.state sid).rule, pos := (s.state sid).pos - 1,
              disp := (c.rule (s.state sid).rule).order.getD ((s.state sid).pos - 1) none,
              plInd := (s.state sid).plInd, orig := (s.state sid).orig,
              parentAnode := (s.state (s.state sid).parent).anode,
              parentDisp := (s.state sid).parentDisp, A := A }
            (c.sets.getD (s.state sid).plInd #[])
            (reduces c (c.sets.getD (s.state sid).plInd #[]) A) 0 []
            (s.setState sid { s.state sid with pos := (s.state sid).pos - 1 })
          if r.2 == 0 then { r.1 with bad := true } else r.1 := by
  unfold step
  rw [hs]
  rfl


/-- **one iteration of the main loop preserves the simulation** -/
theorem step_sim {c : Ctx} (R : TokRel f c.plToks P' n0 n0') {s s' : St}
    (h : Sim f c.plToks P' n0 n0' s s') (hT : TermHyp c P' s) :
    Sim f c.plToks P' n0 n0' (step c s) (step (reTok c P') s') := by
  have he := h.eq
  generalize htn : s'.termNodes = tn' at he
  subst he
  have h' : Sim f c.plToks P' n0 n0' s (lift f s tn' s.bad) := h
  clear h htn
  cases hs : s.stack with
  | nil =>
    have e1 : step c s = s := by unfold step; rw [hs]
    have e2 : step (reTok c P') (lift f s tn' s.bad) = lift f s tn' s.bad := by
      unfold step
      have : (lift f s tn' s.bad).stack = [] := hs
      rw [this]
    rw [e1, e2]; exact h'
  | cons sid rest =>
    have hs' : (lift f s tn' s.bad).stack = sid :: rest := hs
    rw [step_cons c s hs, step_cons (reTok c P') _ hs']
    have hR : ∀ r, (reTok c P').rule r = c.rule r := fun _ => rfl
    simp only [lift_state, hR]
    by_cases hp0 : ((s.state sid).pos == 0) = true
    · simp only [hp0, if_true]
      cases (s.state sid).anode with
      | none =>
        simp only
        cases (s.state (s.state sid).parent).anode with
        | none => exact sim_of_lift (s := s) rfl h'
        | some pa =>
          simp only
          split
          · have : ({ lift f s tn' s.bad with stack := rest } : St) =
                lift f { s with stack := rest } tn' s.bad := rfl
            rw [this, lift_place]
            exact sim_of_lift (s := s) rfl h'
          · exact sim_of_lift (s := s) rfl h'
      | some an =>
        simp only
        have : ({ lift f s tn' s.bad with stack := rest } : St) =
            lift f { s with stack := rest } tn' s.bad := rfl
        rw [this, fill_lift]
        obtain ⟨t1, t2⟩ := fill_termNodes_bad an (List.range (c.rule (s.state sid).rule).transLen)
          { s with stack := rest }
        have key := sim_of_lift (s := s) t1 h'
        rw [t2] at key
        exact key
    · have hp0' : ((s.state sid).pos == 0) = false := by simpa using hp0
      simp only [hp0', Bool.false_eq_true, if_false]
      cases hsym : (c.rule (s.state sid).rule).rhs.getD ((s.state sid).pos - 1) (.t 0) with
      | t a =>
        simp only
        obtain ⟨tn'', e1, e2⟩ := stepTerm_sim (c := c) (P' := P') R (sid := sid) (st := s.state sid)
          (pos := (s.state sid).pos - 1)
          (disp := (c.rule (s.state sid).rule).order.getD ((s.state sid).pos - 1) none) (a := a)
          (parentAnode := (s.state (s.state sid).parent).anode) h'
          (fun pa d h1 h2 h3 => hT sid rest a pa d hs hp0' hsym h1 h2 h3)
        rw [e1]; exact e2
      | n A =>
        simp only
        have hsets : (reTok c P').sets = c.sets := rfl
        have hred : ∀ S A, reduces (reTok c P') S A = reduces c S A := fun _ _ => rfl
        rw [hsets, hred, lift_setState, candLoop_lift]
        simp only
        obtain ⟨t1, t2⟩ := candLoop_termNodes_bad c
          { origSid := sid, rule := (s.state sid).rule, pos := (s.state sid).pos - 1,
            disp := (c.rule (s.state sid).rule).order.getD ((s.state sid).pos - 1) none,
            plInd := (s.state sid).plInd, orig := (s.state sid).orig,
            parentAnode := (s.state (s.state sid).parent).anode,
            parentDisp := (s.state sid).parentDisp, A := A }
          (c.sets.getD (s.state sid).plInd #[])
          (reduces c (c.sets.getD (s.state sid).plInd #[]) A) 0 []
          (s.setState sid { s.state sid with pos := (s.state sid).pos - 1 })
        have t1' : _ = s.termNodes := t1
        have t2' : _ = s.bad := t2
        split
        · refine ⟨rfl, ?_, ?_, h'.sz'⟩
          · intro j hj hp
            show tn'.getD _ none = _
            rw [show ∀ (x : St), ({ x with bad := true } : St).termNodes = x.termNodes from fun _ => rfl, t1']
            exact h'.tn j hj hp
          · show _ = n0
            rw [show ∀ (x : St), ({ x with bad := true } : St).termNodes = x.termNodes from fun _ => rfl, t1']
            exact h'.sz
        · rw [← t2']
          exact sim_of_lift (s := s) t1' h'

end Yaep.RP
