import Yaep.Lemmas.DescrLex
import Yaep.Lemmas.DescrParse
import Yaep.Lemmas.DescrTerms
/-!
# From a well-formed description to its tokens, its parse and its terminal table
-/
namespace Yaep

/-! ## what `WfAST` says -/

theorem WfAST.parts {d : DescrAST} (h : WfAST d) :
    d ≠ [] ∧ (∀ it ∈ d, wfItem it = true) ∧ consistentOccs (d.flatMap DItem.occs) = true := by
  unfold WfAST wfAST at h
  simp only [Bool.and_eq_true, Bool.not_eq_true', List.all_eq_true] at h
  obtain ⟨⟨h1, h2⟩, h3⟩ := h
  refine ⟨?_, h2, h3⟩
  intro hd
  subst hd
  cases h1

theorem consistentOccs_iff {O : List (String × Option Nat)} (h : consistentOccs O = true) :
    ∀ q ∈ O, ∀ p ∈ O, q.1 = p.1 → q.2 = p.2 := by
  unfold consistentOccs at h
  simp only [List.all_eq_true, Bool.or_eq_true, bne_iff_ne, ne_eq, beq_iff_eq] at h
  intro q hq p hp hn
  rcases h q hq p hp with h1 | h1
  · exact absurd hn h1
  · exact h1

theorem wfOptNum_some {k : Nat} (h : wfOptNum (some k) = true) : k ≤ MAX_INT := by
  simpa [wfOptNum] using h

/-! ## the tokens are well formed -/

theorem sym_ok {c : Char} (h : c ∈ symbolChars := by decide) : TokOK (.sym c) := h

theorem declToks_ok {decls : List (String × Option Nat)}
    (h : ∀ p ∈ decls, (wfIdent p.1 && wfOptNum p.2) = true) : ∀ t ∈ declToks decls, TokOK t := by
  induction decls with
  | nil => intro t ht; cases ht
  | cons p ds ih =>
    have hp := h p List.mem_cons_self
    have ih' := ih (fun q hq => h q (List.mem_cons_of_mem _ hq))
    rw [Bool.and_eq_true] at hp
    obtain ⟨n, k⟩ := p
    intro t ht
    cases k with
    | some k =>
      simp only [declToks, List.cons_append, List.nil_append, List.mem_cons] at ht
      rcases ht with rfl | rfl | rfl | ht
      · exact hp.1
      · exact sym_ok
      · exact wfOptNum_some hp.2
      · exact ih' t ht
    | none =>
      simp only [declToks, List.mem_cons] at ht
      rcases ht with rfl | ht
      · exact hp.1
      · exact ih' t ht

theorem transToks_ok {tr : Trans} (h : wfTrans tr = true) : ∀ t ∈ transToks tr, TokOK t := by
  intro t ht
  cases tr with
  | none => cases ht
  | hash =>
    simp only [transToks, List.mem_singleton] at ht
    subst ht; exact sym_ok
  | num n =>
    simp only [transToks, List.mem_cons, List.not_mem_nil, or_false] at ht
    rcases ht with rfl | rfl
    · exact sym_ok
    · show n ≤ MAX_INT
      simpa [wfTrans] using h
  | dash =>
    simp only [transToks, List.mem_cons, List.not_mem_nil, or_false] at ht
    rcases ht with rfl | rfl <;> exact sym_ok
  | anode a c args =>
    simp only [wfTrans, Bool.and_eq_true] at h
    obtain ⟨⟨ha, hc⟩, hargs⟩ := h
    simp only [transToks, List.mem_append, List.mem_cons, List.not_mem_nil, or_false] at ht
    rcases ht with ((rfl | rfl) | ht) | ht
    · exact sym_ok
    · exact ha
    · cases c with
      | none => cases ht
      | some k =>
        simp only [List.mem_singleton] at ht
        subst ht
        exact wfOptNum_some hc
    · cases args with
      | none => cases ht
      | some l =>
        simp only [List.mem_append, List.mem_map, List.cons_append,
          List.nil_append, List.mem_cons, List.not_mem_nil, or_false] at ht
        rcases ht with rfl | ⟨x, hx, rfl⟩ | rfl
        · exact sym_ok
        · have := List.all_eq_true.mp hargs x hx
          cases x with
          | none => exact sym_ok
          | some k => exact wfOptNum_some this
        · exact sym_ok

theorem altToks_ok {al : Alt} (h : wfAlt al = true) : ∀ t ∈ altToks al, TokOK t := by
  unfold wfAlt at h
  rw [Bool.and_eq_true, List.all_eq_true] at h
  intro t ht
  rcases List.mem_append.mp ht with ht | ht
  · obtain ⟨x, hx, rfl⟩ := List.mem_map.mp ht
    have := h.1 x hx
    cases x with
    | ident s => exact this
    | chr c =>
      simp only [wfRhsSym, Bool.and_eq_true, bne_iff_ne, ne_eq] at this
      exact this.1
  · exact transToks_ok h.2 t ht

theorem altsToks_ok {alts : List Alt} (h : ∀ al ∈ alts, wfAlt al = true) :
    ∀ t ∈ altsToks alts, TokOK t := by
  induction alts with
  | nil => intro t ht; cases ht
  | cons al more ih =>
    have ih' := ih (fun x hx => h x (List.mem_cons_of_mem _ hx))
    intro t ht
    cases more with
    | nil => exact altToks_ok (h al List.mem_cons_self) t ht
    | cons al2 more2 =>
      simp only [altsToks, List.mem_append, List.mem_singleton] at ht
      rcases ht with (ht | rfl) | ht
      · exact altToks_ok (h al List.mem_cons_self) t ht
      · exact sym_ok
      · exact ih' t ht

theorem itemToks_ok {it : DItem} (h : wfItem it = true) : ∀ t ∈ itemToks it, TokOK t := by
  intro t ht
  cases it with
  | terms decls =>
    simp only [itemToks, List.mem_cons] at ht
    rcases ht with rfl | ht
    · exact True.intro
    · exact declToks_ok (List.all_eq_true.mp h) t ht
  | rule lhs alts =>
    simp only [wfItem, Bool.and_eq_true, List.all_eq_true] at h
    simp only [itemToks, List.mem_cons] at ht
    rcases ht with rfl | ht
    · exact h.1.1
    · exact altsToks_ok h.2 t ht

theorem itemsToks_ok (semi : Nat → Bool) {items : DescrAST} (h : ∀ it ∈ items, wfItem it = true) :
    ∀ i, ∀ t ∈ itemsToks semi i items, TokOK t := by
  induction items with
  | nil => intro i t ht; cases ht
  | cons it rest ih =>
    intro i t ht
    simp only [itemsToks, List.mem_append] at ht
    rcases ht with (ht | ht) | ht
    · exact itemToks_ok (h it List.mem_cons_self) t ht
    · split at ht
      · simp only [List.mem_singleton] at ht
        subst ht; exact sym_ok
      · cases ht
    · exact ih (fun x hx => h x (List.mem_cons_of_mem _ hx)) (i + 1) t ht

theorem tokensOf_ok {d : DescrAST} (h : WfAST d) (ℓ : Layout) : ∀ t ∈ tokensOf d ℓ, TokOK t :=
  itemsToks_ok ℓ.semi h.parts.2.1 0

theorem wf_alts_ne {d : DescrAST} (h : WfAST d) :
    ∀ lhs alts, DItem.rule lhs alts ∈ d → alts ≠ [] := by
  intro lhs alts hm hnil
  have := h.parts.2.1 _ hm
  subst hnil
  simp [wfItem] at this

/-! ## the collected terminals are the occurrences -/

theorem charCode_small {c : UInt8} (h : c.toNat < 128) : charCode c = (c.toNat : Int) := by
  unfold charCode
  rw [if_pos h]

theorem sterms_eq_occs {d : DescrAST} (h : ∀ it ∈ d, wfItem it = true) :
    d.flatMap DItem.sterms = (d.flatMap DItem.occs).map declSTerm := by
  induction d with
  | nil => rfl
  | cons it rest ih =>
    rw [List.flatMap_cons, List.flatMap_cons, List.map_append,
      ih (fun x hx => h x (List.mem_cons_of_mem _ hx))]
    congr 1
    have hit := h it List.mem_cons_self
    cases it with
    | terms decls =>
      simp only [DItem.sterms, DItem.occs]
      apply List.map_congr_left
      intro p _
      obtain ⟨n, k⟩ := p
      cases k <;> rfl
    | rule lhs alts =>
      simp only [wfItem, Bool.and_eq_true, List.all_eq_true] at hit
      have halts := hit.2
      simp only [DItem.sterms, DItem.occs]
      clear hit ih h
      induction alts with
      | nil => rfl
      | cons al more ih2 =>
        rw [List.flatMap_cons, List.flatMap_cons, List.map_append,
          ih2 (fun x hx => halts x (List.mem_cons_of_mem _ hx))]
        congr 1
        have hal := halts al List.mem_cons_self
        unfold wfAlt at hal
        rw [Bool.and_eq_true, List.all_eq_true] at hal
        have hsyms := hal.1
        generalize al.rhs = syms at hsyms
        induction syms with
        | nil => rfl
        | cons x xs ih3 =>
          have hx := hsyms x List.mem_cons_self
          have ih3' := ih3 (fun y hy => hsyms y (List.mem_cons_of_mem _ hy))
          cases x with
          | ident s =>
            rw [List.filterMap_cons, List.filterMap_cons]
            exact ih3'
          | chr c =>
            simp only [wfRhsSym, Bool.and_eq_true, decide_eq_true_eq] at hx
            rw [List.filterMap_cons, List.filterMap_cons]
            simp only [RhsSym.sterm, RhsSym.occ, List.map_cons, ih3']
            congr 1
            simp only [declSTerm, charName_eq, charCode_small hx.2]

/-! ## the terminal table -/

theorem dedup_assign {O : List (String × Option Nat)} (h : consistentOccs O = true) :
    dedupTerms (O.map declSTerm) [] = .ok ((firstOccs O []).map declSTerm) ∧
      assignCodes ((firstOccs O []).map declSTerm) ((firstOccs O []).map declSTerm) 256
        = termTable O := by
  constructor
  · have := dedupTerms_firstOccs O [] [] (fun x => by simp) (by simpa using consistentOccs_iff h)
    simpa using this
  · exact assignCodes_eq_assignFree _ _ 256

/-! ## the terminal table when a name is declared with and without code -/

theorem explicitConsistentOccs_iff {O : List (String × Option Nat)}
    (h : explicitConsistentOccs O = true) :
    ∀ q ∈ O, ∀ p ∈ O, q.1 = p.1 → ∀ k k', q.2 = some k → p.2 = some k' → k = k' := by
  unfold explicitConsistentOccs at h
  simp only [List.all_eq_true, Bool.or_eq_true, bne_iff_ne, ne_eq, beq_iff_eq,
    Option.isNone_iff_eq_none] at h
  intro q hq p hp hn k k' hk hk'
  rcases h q hq p hp with ((h1 | h1) | h1) | h1
  · exact absurd hn h1
  · rw [hk] at h1; cases h1
  · rw [hk'] at h1; cases h1
  · rw [hk, hk'] at h1; exact Option.some.inj h1

theorem consistentOccs_explicit {O : List (String × Option Nat)} (h : consistentOccs O = true) :
    explicitConsistentOccs O = true := by
  have hc := consistentOccs_iff h
  unfold explicitConsistentOccs
  simp only [List.all_eq_true, Bool.or_eq_true, bne_iff_ne, ne_eq, beq_iff_eq]
  intro p hp q hq
  by_cases hn : p.1 = q.1
  · exact Or.inr (hc p hp q hq hn)
  · exact Or.inl (Or.inl (Or.inl hn))

theorem explicitCode_some {O : List (String × Option Nat)} {n : String} {k : Nat}
    (h : explicitCode O n = some k) : ∃ q ∈ O, q.1 = n ∧ q.2 = some k := by
  obtain ⟨q, hq, hf⟩ := List.exists_of_findSome?_eq_some h
  by_cases hn : q.1 = n
  · exact ⟨q, hq, hn, by simpa [hn] using hf⟩
  · have : (q.1 == n) = false := by simpa using hn
    simp [this] at hf

theorem explicitCode_none {O : List (String × Option Nat)} {n : String}
    (h : explicitCode O n = Option.none) : ∀ q ∈ O, q.1 = n → q.2 = Option.none := by
  intro q hq hn
  have := List.findSome?_eq_none_iff.mp h q hq
  simpa [hn] using this

/-- **meaning of `explicitCode`**: with consistent explicit codes it is the code of any
occurrence that has one -/
theorem explicitCode_of_occ {O : List (String × Option Nat)} (h : explicitConsistentOccs O = true)
    {q : String × Option Nat} (hq : q ∈ O) {k : Nat} (hk : q.2 = some k) :
    explicitCode O q.1 = some k := by
  cases hc : explicitCode O q.1 with
  | none =>
    have := explicitCode_none hc q hq rfl
    rw [hk] at this; cases this
  | some k' =>
    obtain ⟨p, hp, hpn, hpk⟩ := explicitCode_some hc
    rw [explicitConsistentOccs_iff h q hq p hp hpn.symm k k' hk hpk]

theorem firstOccs_subset (O : List (String × Option Nat)) :
    ∀ seen, ∀ p ∈ firstOccs O seen, p ∈ O := by
  induction O with
  | nil => intro seen p hp; cases hp
  | cons a rest ih =>
    intro seen p hp
    unfold firstOccs at hp
    split at hp
    · exact List.mem_cons_of_mem _ (ih _ p hp)
    · rcases List.mem_cons.mp hp with rfl | hp
      · exact List.mem_cons_self
      · exact List.mem_cons_of_mem _ (ih _ p hp)

/-- the names of the first occurrences are the distinct names -/
theorem firstOccs_names (O : List (String × Option Nat)) : ∀ seen,
    (firstOccs O seen).map (·.1) =
      (distinctNames (O.map (·.1))).filter (fun m => !seen.contains m) := by
  induction O with
  | nil => intro seen; rfl
  | cons p rest ih =>
    intro seen
    have hd : distinctNames ((p :: rest).map (·.1)) =
        p.1 :: (distinctNames (rest.map (·.1))).filter (fun m => m != p.1) := rfl
    rw [hd, firstOccs, List.filter_cons]
    by_cases hs : seen.contains p.1 = true
    · have hs' : p.1 ∈ seen := by simpa using hs
      rw [if_pos hs, if_neg (by simpa using hs'), ih, List.filter_filter]
      apply List.filter_congr
      intro m _
      by_cases hm : m = p.1
      · subst hm; simp [hs']
      · simp [hm]
    · rw [if_neg hs, if_pos (by simpa using hs), List.map_cons, ih, List.filter_filter]
      congr 1
      apply List.filter_congr
      intro m _
      by_cases hm : m = p.1 <;> simp [hm]

/-- on consistent occurrences the general reading is the old one -/
theorem resolvedOccs_consistent {O : List (String × Option Nat)} (h : consistentOccs O = true) :
    resolvedOccs O = firstOccs O [] := by
  unfold resolvedOccs
  conv => rhs; rw [← List.map_id (firstOccs O [])]
  apply List.map_congr_left
  intro p hp
  have hpO := firstOccs_subset O [] p hp
  obtain ⟨n, k⟩ := p
  simp only [id]
  congr 1
  cases k with
  | some k => exact explicitCode_of_occ (consistentOccs_explicit h) hpO rfl
  | none =>
    cases hc : explicitCode O n with
    | none => rfl
    | some k' =>
      obtain ⟨q, hq, hqn, hqk⟩ := explicitCode_some hc
      have := consistentOccs_iff h q hq _ hpO hqn
      rw [hqk] at this; cases this

theorem termTableMixed_consistent {O : List (String × Option Nat)} (h : consistentOccs O = true) :
    termTableMixed O = termTable O := by
  unfold termTableMixed termTable
  rw [resolvedOccs_consistent h]

theorem eq_of_names_codes (f : String → Int) : ∀ (ts ts2 : List STerm),
    ts.map (·.name) = ts2.map (·.name) → (∀ t ∈ ts, t.code = f t.name) →
    (∀ t ∈ ts2, t.code = f t.name) → ts = ts2 := by
  intro ts
  induction ts with
  | nil =>
    intro ts2 hn _ _
    cases ts2 with
    | nil => rfl
    | cons _ _ => cases hn
  | cons a rest ih =>
    intro ts2 hn h1 h2
    cases ts2 with
    | nil => cases hn
    | cons b rest2 =>
      simp only [List.map_cons, List.cons.injEq] at hn
      have hab : a = b := by
        obtain ⟨an, ac⟩ := a
        obtain ⟨bn, bc⟩ := b
        have ha := h1 _ List.mem_cons_self
        have hb := h2 _ List.mem_cons_self
        simp only at ha hb hn
        rw [ha, hb, hn.1]
      rw [hab, ih rest2 hn.2 (fun t ht => h1 t (List.mem_cons_of_mem _ ht))
        (fun t ht => h2 t (List.mem_cons_of_mem _ ht))]

theorem declSTerm_code_ne {q : String × Option Nat} {k : Nat} (h : q.2 = some k) :
    (declSTerm q).code = (k : Int) ∧ (declSTerm q).code ≠ -1 := by
  obtain ⟨n, o⟩ := q
  simp only at h
  subst h
  refine ⟨rfl, ?_⟩
  show (k : Int) ≠ -1
  omega

theorem declSTerm_code_some {q : String × Option Nat} (h : (declSTerm q).code ≠ -1) :
    ∃ k, q.2 = some k ∧ (declSTerm q).code = (k : Int) := by
  obtain ⟨n, o⟩ := q
  cases o with
  | none => exact absurd rfl h
  | some k => exact ⟨k, rfl, rfl⟩

theorem explicitConsistent_declSTerm {O : List (String × Option Nat)} :
    ExplicitConsistent (O.map declSTerm) ↔ explicitConsistentOccs O = true := by
  constructor
  · intro h
    unfold explicitConsistentOccs
    simp only [List.all_eq_true, Bool.or_eq_true, bne_iff_ne, ne_eq, beq_iff_eq,
      Option.isNone_iff_eq_none]
    intro p hp q hq
    by_cases hn : p.1 = q.1
    · cases hpk : p.2 with
      | none => exact Or.inl (Or.inl (Or.inr rfl))
      | some k =>
        cases hqk : q.2 with
        | none => exact Or.inl (Or.inr rfl)
        | some k' =>
          refine Or.inr ?_
          have := h _ (List.mem_map.mpr ⟨p, hp, rfl⟩) _ (List.mem_map.mpr ⟨q, hq, rfl⟩) hn
            (declSTerm_code_ne hpk).2 (declSTerm_code_ne hqk).2
          rw [(declSTerm_code_ne hpk).1, (declSTerm_code_ne hqk).1] at this
          have : k = k' := by exact_mod_cast this
          rw [this]
    · exact Or.inl (Or.inl (Or.inl hn))
  · intro h p hp q hq hn hpc hqc
    obtain ⟨p0, hp0, rfl⟩ := List.mem_map.mp hp
    obtain ⟨q0, hq0, rfl⟩ := List.mem_map.mp hq
    obtain ⟨k, hk, hkc⟩ := declSTerm_code_some hpc
    obtain ⟨k', hk', hkc'⟩ := declSTerm_code_some hqc
    rw [hkc, hkc', explicitConsistentOccs_iff h p0 hp0 q0 hq0 hn k k' hk hk']

/-- `set_sgrammar` on occurrences with consistent explicit codes: first occurrences, each with
the explicit code of its name -/
theorem dedup_assign_mixed {O : List (String × Option Nat)} (h : explicitConsistentOccs O = true) :
    dedupTerms (O.map declSTerm) [] = .ok ((resolvedOccs O).map declSTerm) ∧
      assignCodes ((resolvedOccs O).map declSTerm) ((resolvedOccs O).map declSTerm) 256
        = termTableMixed O := by
  refine ⟨?_, assignCodes_eq_assignFree _ _ 256⟩
  obtain ⟨hok, hspec⟩ := dedupTerms_spec (O.map declSTerm)
  obtain ⟨ts, hts⟩ := hok (explicitConsistent_declSTerm.mpr h)
  obtain ⟨_, hnames, hcodes⟩ := hspec ts hts
  rw [hts]
  congr 1
  apply eq_of_names_codes (fun n => (declSTerm (n, explicitCode O n)).code)
  · have e1 : (O.map declSTerm).map (·.name) = O.map (·.1) := by
      rw [List.map_map]; rfl
    have e2 : ((resolvedOccs O).map declSTerm).map (·.name) = (firstOccs O []).map (·.1) := by
      rw [resolvedOccs, List.map_map, List.map_map]; rfl
    have := firstOccs_names O []
    simp only [List.contains_nil, Bool.not_false] at this
    rw [List.filter_eq_self.mpr (fun _ _ => rfl)] at this
    rw [hnames, e1, e2, this]
  · intro t ht
    obtain ⟨h1, h2⟩ := hcodes t ht
    cases hc : explicitCode O t.name with
    | some k =>
      obtain ⟨q, hq, hqn, hqk⟩ := explicitCode_some hc
      have hq' := declSTerm_code_ne hqk
      show t.code = (k : Int)
      exact h2 _ ⟨declSTerm q, List.mem_map.mpr ⟨q, hq, rfl⟩, hqn, hq'.1, by omega⟩
    | none =>
      apply Classical.byContradiction
      intro hne
      have hne' : t.code ≠ -1 := fun h => hne (by rw [h]; rfl)
      obtain ⟨p, hp, hpn, hpc, hc1⟩ := h1 hne'
      obtain ⟨q, hq, rfl⟩ := List.mem_map.mp hp
      obtain ⟨k, hk, _⟩ := declSTerm_code_some (hpc ▸ hc1)
      have := explicitCode_none hc q hq hpn
      rw [hk] at this; cases this
  · intro t ht
    obtain ⟨p, hp, rfl⟩ := List.mem_map.mp ht
    obtain ⟨p0, _, rfl⟩ := List.mem_map.mp hp
    rfl

end Yaep
