import Yaep.Lemmas.DescrLex
import Yaep.Lemmas.DescrParse
import Yaep.Lemmas.DescrTerms
/-!
# From a well-formed description to its tokens, its parse and its terminal table
-/
namespace Yaep

/-! ## what `WfAST` says -/

theorem WfAST.parts {d : DescrAST} (h : WfAST d) :
    d ≠ [] ∧ (∀ it ∈ d, wfItem it = true) ∧ consistentOccs (d.flatMap DItem.occs) = true := by
  unfold WfAST wfAST at h
  simp only [Bool.and_eq_true, Bool.not_eq_true', List.all_eq_true] at h
  obtain ⟨⟨h1, h2⟩, h3⟩ := h
  refine ⟨?_, h2, h3⟩
  intro hd
  subst hd
  cases h1

theorem consistentOccs_iff {O : List (String × Option Nat)} (h : consistentOccs O = true) :
    ∀ q ∈ O, ∀ p ∈ O, q.1 = p.1 → q.2 = p.2 := by
  unfold consistentOccs at h
  simp only [List.all_eq_true, Bool.or_eq_true, bne_iff_ne, ne_eq, beq_iff_eq] at h
  intro q hq p hp hn
  rcases h q hq p hp with h1 | h1
  · exact absurd hn h1
  · exact h1

theorem wfOptNum_some {k : Nat} (h : wfOptNum (some k) = true) : k ≤ MAX_INT := by
  simpa [wfOptNum] using h

/-! ## the tokens are well formed -/

theorem sym_ok {c : Char} (h : c ∈ symbolChars := by decide) : TokOK (.sym c) := h

theorem declToks_ok {decls : List (String × Option Nat)}
    (h : ∀ p ∈ decls, (wfIdent p.1 && wfOptNum p.2) = true) : ∀ t ∈ declToks decls, TokOK t := by
  induction decls with
  | nil => intro t ht; cases ht
  | cons p ds ih =>
    have hp := h p List.mem_cons_self
    have ih' := ih (fun q hq => h q (List.mem_cons_of_mem _ hq))
    rw [Bool.and_eq_true] at hp
    obtain ⟨n, k⟩ := p
    intro t ht
    cases k with
    | some k =>
      simp only [declToks, List.cons_append, List.nil_append, List.mem_cons] at ht
      rcases ht with rfl | rfl | rfl | ht
      · exact hp.1
      · exact sym_ok
      · exact wfOptNum_some hp.2
      · exact ih' t ht
    | none =>
      simp only [declToks, List.mem_cons] at ht
      rcases ht with rfl | ht
      · exact hp.1
      · exact ih' t ht

theorem transToks_ok {tr : Trans} (h : wfTrans tr = true) : ∀ t ∈ transToks tr, TokOK t := by
  intro t ht
  cases tr with
  | none => cases ht
  | hash =>
    simp only [transToks, List.mem_singleton] at ht
    subst ht; exact sym_ok
  | num n =>
    simp only [transToks, List.mem_cons, List.not_mem_nil, or_false] at ht
    rcases ht with rfl | rfl
    · exact sym_ok
    · show n ≤ MAX_INT
      simpa [wfTrans] using h
  | dash =>
    simp only [transToks, List.mem_cons, List.not_mem_nil, or_false] at ht
    rcases ht with rfl | rfl <;> exact sym_ok
  | anode a c args =>
    simp only [wfTrans, Bool.and_eq_true] at h
    obtain ⟨⟨ha, hc⟩, hargs⟩ := h
    simp only [transToks, List.mem_append, List.mem_cons, List.not_mem_nil, or_false] at ht
    rcases ht with ((rfl | rfl) | ht) | ht
    · exact sym_ok
    · exact ha
    · cases c with
      | none => cases ht
      | some k =>
        simp only [List.mem_singleton] at ht
        subst ht
        exact wfOptNum_some hc
    · cases args with
      | none => cases ht
      | some l =>
        simp only [List.mem_append, List.mem_map, List.cons_append,
          List.nil_append, List.mem_cons, List.not_mem_nil, or_false] at ht
        rcases ht with rfl | ⟨x, hx, rfl⟩ | rfl
        · exact sym_ok
        · have := List.all_eq_true.mp hargs x hx
          cases x with
          | none => exact sym_ok
          | some k => exact wfOptNum_some this
        · exact sym_ok

theorem altToks_ok {al : Alt} (h : wfAlt al = true) : ∀ t ∈ altToks al, TokOK t := by
  unfold wfAlt at h
  rw [Bool.and_eq_true, List.all_eq_true] at h
  intro t ht
  rcases List.mem_append.mp ht with ht | ht
  · obtain ⟨x, hx, rfl⟩ := List.mem_map.mp ht
    have := h.1 x hx
    cases x with
    | ident s => exact this
    | chr c =>
      simp only [wfRhsSym, Bool.and_eq_true, bne_iff_ne, ne_eq] at this
      exact this.1
  · exact transToks_ok h.2 t ht

theorem altsToks_ok {alts : List Alt} (h : ∀ al ∈ alts, wfAlt al = true) :
    ∀ t ∈ altsToks alts, TokOK t := by
  induction alts with
  | nil => intro t ht; cases ht
  | cons al more ih =>
    have ih' := ih (fun x hx => h x (List.mem_cons_of_mem _ hx))
    intro t ht
    cases more with
    | nil => exact altToks_ok (h al List.mem_cons_self) t ht
    | cons al2 more2 =>
      simp only [altsToks, List.mem_append, List.mem_singleton] at ht
      rcases ht with (ht | rfl) | ht
      · exact altToks_ok (h al List.mem_cons_self) t ht
      · exact sym_ok
      · exact ih' t ht

theorem itemToks_ok {it : DItem} (h : wfItem it = true) : ∀ t ∈ itemToks it, TokOK t := by
  intro t ht
  cases it with
  | terms decls =>
    simp only [itemToks, List.mem_cons] at ht
    rcases ht with rfl | ht
    · exact True.intro
    · exact declToks_ok (List.all_eq_true.mp h) t ht
  | rule lhs alts =>
    simp only [wfItem, Bool.and_eq_true, List.all_eq_true] at h
    simp only [itemToks, List.mem_cons] at ht
    rcases ht with rfl | ht
    · exact h.1.1
    · exact altsToks_ok h.2 t ht

theorem itemsToks_ok (semi : Nat → Bool) {items : DescrAST} (h : ∀ it ∈ items, wfItem it = true) :
    ∀ i, ∀ t ∈ itemsToks semi i items, TokOK t := by
  induction items with
  | nil => intro i t ht; cases ht
  | cons it rest ih =>
    intro i t ht
    simp only [itemsToks, List.mem_append] at ht
    rcases ht with (ht | ht) | ht
    · exact itemToks_ok (h it List.mem_cons_self) t ht
    · split at ht
      · simp only [List.mem_singleton] at ht
        subst ht; exact sym_ok
      · cases ht
    · exact ih (fun x hx => h x (List.mem_cons_of_mem _ hx)) (i + 1) t ht

theorem tokensOf_ok {d : DescrAST} (h : WfAST d) (ℓ : Layout) : ∀ t ∈ tokensOf d ℓ, TokOK t :=
  itemsToks_ok ℓ.semi h.parts.2.1 0

theorem wf_alts_ne {d : DescrAST} (h : WfAST d) :
    ∀ lhs alts, DItem.rule lhs alts ∈ d → alts ≠ [] := by
  intro lhs alts hm hnil
  have := h.parts.2.1 _ hm
  subst hnil
  simp [wfItem] at this

/-! ## the collected terminals are the occurrences -/

theorem charCode_small {c : UInt8} (h : c.toNat < 128) : charCode c = (c.toNat : Int) := by
  unfold charCode
  rw [if_pos h]

theorem sterms_eq_occs {d : DescrAST} (h : ∀ it ∈ d, wfItem it = true) :
    d.flatMap DItem.sterms = (d.flatMap DItem.occs).map declSTerm := by
  induction d with
  | nil => rfl
  | cons it rest ih =>
    rw [List.flatMap_cons, List.flatMap_cons, List.map_append,
      ih (fun x hx => h x (List.mem_cons_of_mem _ hx))]
    congr 1
    have hit := h it List.mem_cons_self
    cases it with
    | terms decls =>
      simp only [DItem.sterms, DItem.occs]
      apply List.map_congr_left
      intro p _
      obtain ⟨n, k⟩ := p
      cases k <;> rfl
    | rule lhs alts =>
      simp only [wfItem, Bool.and_eq_true, List.all_eq_true] at hit
      have halts := hit.2
      simp only [DItem.sterms, DItem.occs]
      clear hit ih h
      induction alts with
      | nil => rfl
      | cons al more ih2 =>
        rw [List.flatMap_cons, List.flatMap_cons, List.map_append,
          ih2 (fun x hx => halts x (List.mem_cons_of_mem _ hx))]
        congr 1
        have hal := halts al List.mem_cons_self
        unfold wfAlt at hal
        rw [Bool.and_eq_true, List.all_eq_true] at hal
        have hsyms := hal.1
        generalize al.rhs = syms at hsyms
        induction syms with
        | nil => rfl
        | cons x xs ih3 =>
          have hx := hsyms x List.mem_cons_self
          have ih3' := ih3 (fun y hy => hsyms y (List.mem_cons_of_mem _ hy))
          cases x with
          | ident s =>
            rw [List.filterMap_cons, List.filterMap_cons]
            exact ih3'
          | chr c =>
            simp only [wfRhsSym, Bool.and_eq_true, decide_eq_true_eq] at hx
            rw [List.filterMap_cons, List.filterMap_cons]
            simp only [RhsSym.sterm, RhsSym.occ, List.map_cons, ih3']
            congr 1
            simp only [declSTerm, charName_eq, charCode_small hx.2]

/-! ## the terminal table -/

theorem dedup_assign {O : List (String × Option Nat)} (h : consistentOccs O = true) :
    dedupTerms (O.map declSTerm) [] = .ok ((firstOccs O []).map declSTerm) ∧
      assignCodes ((firstOccs O []).map declSTerm) ((firstOccs O []).map declSTerm) 256
        = termTable O := by
  constructor
  · have := dedupTerms_firstOccs O [] [] (fun x => by simp) (by simpa using consistentOccs_iff h)
    simpa using this
  · exact assignCodes_eq_assignFree _ _ 256

end Yaep
