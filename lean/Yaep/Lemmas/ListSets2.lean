import Yaep.Lemmas.ListSets
import Yaep.Lemmas.Earley2
import Yaep.Lemmas.Earley2C
/-!
# The level-2 sets of `listGrammar` have no duplicates and at most 4 items
-/
namespace Yaep

theorem list_nl : listGrammar.analysis.nl = [] := by decide

theorem derived2_list (it : Item2) (fuel : Nat) :
    derived2 listGrammar listGrammar.analysis it fuel = [] := by
  cases fuel with
  | zero => rfl
  | succ fuel =>
    unfold derived2
    split
    · rw [list_nl]; simp
    · rfl

theorem items2_list (start : List Item2) : items2 listGrammar start = start := by
  unfold items2
  have : (start.flatMap fun it => derived2 listGrammar listGrammar.analysis it (listGrammar.maxRhs + 1)) = [] := by
    induction start with
    | nil => rfl
    | cons a l ih => rw [List.flatMap_cons, derived2_list, ih]; rfl
  rw [this, List.append_nil]

theorem nodup_of_map_nodup {α β : Type} {f : α → β} {l : List α} (h : (l.map f).Nodup) :
    l.Nodup := by
  induction l with
  | nil => exact List.nodup_nil
  | cons a l ih =>
    rw [List.map_cons, List.nodup_cons] at h
    exact List.nodup_cons.mpr ⟨fun ha => h.1 (List.mem_map.mpr ⟨a, ha, rfl⟩), ih h.2⟩

theorem inits2_nodup (g : Grammar) (start : List Item2) : (inits2 g start).Nodup := by
  have h : ((inits2 g start).map (·.1)).Nodup := by
    unfold inits2
    rw [ctxFix_keys, List.map_map]
    have : ((fun x : (Nat × Nat) × List Nat => x.1) ∘ fun p : Nat × Nat => (p, ([] : List Nat))) = id := rfl
    rw [this, List.map_id]
    unfold pairs2
    exact saturate_nodup _ _ List.nodup_nil
  exact nodup_of_map_nodup h

/-- a level-2 set of `listGrammar` built from a duplicate-free start list whose items do not
start at `j` has no duplicates -/
theorem expand2_list_nodup {start : List Item2} {j : Nat} (hs : start.Nodup)
    (ho : ∀ s ∈ start, s.origin ≠ j) :
    (expand2 listGrammar listGrammar.analysis start j).Nodup := by
  rw [expand2_eq, items2_list, List.nodup_append]
  refine ⟨hs, ?_, ?_⟩
  · apply nodup_map_of_inj_on (inits2_nodup _ _)
    intro a _ b _ hab
    obtain ⟨⟨r, d⟩, c⟩ := a
    obtain ⟨⟨r', d'⟩, c'⟩ := b
    simp only [Item2.mk.injEq] at hab
    obtain ⟨h1, h2, _, h4⟩ := hab
    subst h1 h2 h4; rfl
  · intro a ha b hb hab
    obtain ⟨e, _, rfl⟩ := List.mem_map.mp hb
    exact ho a ha (by rw [hab])

theorem nextSet2_list_nodup {w : List Nat} {nxt : Option Nat} {pl : List (List Item2)} {k a : Nat}
    (hlen : pl.length = k + 1) (hpl : PL2Sound listGrammar w pl) (hw : w[k]? = some a) :
    (nextSet2 listGrammar listGrammar.analysis nxt pl a).Nodup := by
  rw [nextSet2_eq]
  apply expand2_list_nodup (startOf_nodup _ _ _ _)
  intro s hs
  have := list_core_sound (startOf_sound hlen hpl hw s hs)
  have h0 : s.origin = 0 := this.2.1
  omega

theorem list_set0_2_nodup :
    (expand2 listGrammar listGrammar.analysis (start0 listGrammar) 0).Nodup := by decide

theorem parseLoop2_list_nodup (w' : List Nat) :
    ∀ (toks : List Nat) (pl : List (List Item2)) (k : Nat), w'.drop k = toks →
      pl.length = k + 1 → PL2Sound listGrammar w' pl → (∀ s ∈ pl, s.Nodup) →
      ∀ s ∈ (parseLoop2 listGrammar listGrammar.analysis toks pl k).2, s.Nodup := by
  intro toks
  induction toks with
  | nil => intro pl k _ _ _ h; unfold parseLoop2; exact h
  | cons a rest ih =>
    intro pl k hdrop hlen hpl h
    obtain ⟨hw, hrest⟩ := drop_succ_of_drop_cons hdrop
    unfold parseLoop2
    split
    · apply ih _ _ hrest (by rw [List.length_append, hlen]; rfl)
        (PL2Sound_snoc hpl (nextSet2_sound hlen hpl hw))
      intro s hs
      rcases List.mem_append.mp hs with hs | hs
      · exact h s hs
      · rw [List.mem_singleton] at hs; subst hs; exact nextSet2_list_nodup hlen hpl hw
    · exact h

theorem buildPL2_list_eq (w : List Nat) :
    buildPL2 listGrammar w = parseLoop2 listGrammar listGrammar.analysis (w ++ [3])
      [expand2 listGrammar listGrammar.analysis (start0 listGrammar) 0] 0 := rfl

theorem PL2Sound_list_init (w' : List Nat) :
    PL2Sound listGrammar w' [expand2 listGrammar listGrammar.analysis (start0 listGrammar) 0] := by
  intro k hk it hit
  have : k = 0 := by simpa using hk
  subst this
  have h2 : it ∈ expand2 listGrammar listGrammar.analysis (start0 listGrammar) 0 := by
    simpa using hit
  exact set0_2_sound listGrammar w' it h2

theorem buildPL2_list_nodup (w : List Nat) : ∀ s ∈ (buildPL2 listGrammar w).2, s.Nodup := by
  rw [buildPL2_list_eq]
  apply parseLoop2_list_nodup (w ++ [3]) _ _ 0 rfl rfl (PL2Sound_list_init _)
  intro s hs
  rw [List.mem_singleton] at hs; subst hs; exact list_set0_2_nodup

/-- in one level-2 set of `listGrammar` an item is determined by rule, dot and origin -/
theorem buildPL2_list_proj_inj (w : List Nat) (j : Nat) (h : j < (buildPL2 listGrammar w).2.length) :
    ∀ p ∈ (buildPL2 listGrammar w).2[j], ∀ q ∈ (buildPL2 listGrammar w).2[j],
      p.proj = q.proj → p = q := by
  obtain ⟨hinv0, _⟩ := Inv2.init list_wf list_syms (w ++ [3])
  have hspec := (parseLoop2_spec list_syms (w ++ [3]) (w ++ [3])
    [expand2 listGrammar listGrammar.analysis (start0 listGrammar) 0] 0 rfl rfl hinv0).1
  rw [← buildPL2_list_eq] at hspec
  intro p hp q hq hpq
  have hget : (buildPL2 listGrammar w).2.getD j [] = (buildPL2 listGrammar w).2[j] := by
    rw [List.getD_eq_getElem?_getD, List.getElem?_eq_getElem h, Option.getD_some]
  unfold Item2.proj at hpq
  simp only [Item.mk.injEq] at hpq
  have hc := hspec.det j j p q (by rw [hget]; exact hp) (by rw [hget]; exact hq) hpq.1 hpq.2.2
  obtain ⟨r, d, o, c⟩ := p
  obtain ⟨r', d', o', c'⟩ := q
  simp only at hpq hc
  obtain ⟨h1, h2, h3⟩ := hpq
  subst h1 h2 h3 hc
  rfl

end Yaep
