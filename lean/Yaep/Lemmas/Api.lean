import Yaep.Model.Api
/-!
# Helper lemmas for the API state machine (C14, C15)

`objStep` is what one call does to the object it addresses; `apiStep` is `objStep` applied
at the handle (`apiStep_eq`).  `run` / `runObj` iterate the two.
-/
namespace Yaep

/-! ## the object table -/

theorem length_setAt (s : List ObjState) (h : Nat) (o : ObjState) :
    (setAt s h o).length = s.length := by
  unfold setAt
  split
  · exact List.length_set
  · rfl

theorem objAt_setAt_same {s : List ObjState} {h : Nat} (hh : h < s.length) (o : ObjState) :
    objAt (setAt s h o) h = o := by
  unfold objAt setAt
  rw [if_pos hh, List.getD_eq_getElem?_getD, List.getElem?_set]
  simp [hh]

theorem objAt_setAt_ne (s : List ObjState) {h h' : Nat} (hne : h' ≠ h) (o : ObjState) :
    objAt (setAt s h o) h' = objAt s h' := by
  unfold objAt setAt
  split
  · rw [List.getD_eq_getElem?_getD, List.getD_eq_getElem?_getD, List.getElem?_set]
    rw [if_neg (fun hx => hne hx.symm)]
  · rfl

theorem setAt_objAt_self (s : List ObjState) (h : Nat) : setAt s h (objAt s h) = s := by
  unfold setAt objAt
  split
  · rename_i hh
    apply List.ext_getElem?
    intro i
    rw [List.getElem?_set]
    by_cases hi : h = i
    · subst hi
      simp [hh, List.getD_eq_getElem?_getD]
    · rw [if_neg hi]
  · rfl

/-- an out-of-range handle always reads as the empty object -/
theorem objAt_out_of_range {s : List ObjState} {h : Nat} (hh : ¬ h < s.length) :
    objAt s h = {} := by
  unfold objAt
  rw [List.getD_eq_getElem?_getD, List.getElem?_eq_none (Nat.le_of_not_lt hh)]
  rfl

/-! ## one call, seen from the object -/

/-- what a call does to the object it addresses, and what it returns -/
def objStep (o : ObjState) : ApiOp → ObjState × ApiRes
  | .create _ => ({ alive := true }, .unit)
  | .set _ k v => ({ o with st := (o.st.set k v).2 }, .prev (o.st.set k v).1)
  | .define _ res => ((o.define res).1, .rc (o.define res).2)
  | .parse _ an fg codes => (o.record (parseRc o an fg codes), .rc (parseRc o an fg codes))
  | .errcode _ => (o, .code o.lastErr)
  | .free _ => ({}, .unit)

theorem apiStep_eq (s : List ObjState) (op : ApiOp) :
    apiStep s op = (setAt s op.handle (objStep (objAt s op.handle) op).1,
      (objStep (objAt s op.handle) op).2) := by
  cases op with
  | create h => rfl
  | set h k v => rfl
  | define h res => rfl
  | parse h an fg codes => rfl
  | errcode h =>
    show (s, _) = (setAt s h (objAt s h), _)
    rw [setAt_objAt_self]
    rfl
  | free h => rfl

theorem apiStep_snd (s : List ObjState) (op : ApiOp) :
    (apiStep s op).2 = (objStep (objAt s op.handle) op).2 := by
  rw [apiStep_eq]

theorem objAt_apiStep_self {s : List ObjState} {op : ApiOp} (hh : op.handle < s.length) :
    objAt (apiStep s op).1 op.handle = (objStep (objAt s op.handle) op).1 := by
  rw [apiStep_eq]
  exact objAt_setAt_same hh _

theorem length_apiStep (s : List ObjState) (op : ApiOp) : (apiStep s op).1.length = s.length := by
  rw [apiStep_eq]
  exact length_setAt _ _ _

/-! ## sequences of calls -/

/-- a sequence of calls on the object table; the results in call order -/
def run (s : List ObjState) : List ApiOp → List ObjState × List ApiRes
  | [] => (s, [])
  | op :: ops => ((run (apiStep s op).1 ops).1, (apiStep s op).2 :: (run (apiStep s op).1 ops).2)

/-- a sequence of calls on one object -/
def runObj (o : ObjState) : List ApiOp → ObjState × List ApiRes
  | [] => (o, [])
  | op :: ops => ((runObj (objStep o op).1 ops).1, (objStep o op).2 :: (runObj (objStep o op).1 ops).2)

/-- the results of the calls addressed to `h` -/
def resultsFor (h : Nat) : List ApiOp → List ApiRes → List ApiRes
  | op :: ops, r :: rs => if op.handle = h then r :: resultsFor h ops rs else resultsFor h ops rs
  | _, _ => []

theorem length_run (s : List ObjState) (ops : List ApiOp) : (run s ops).1.length = s.length := by
  induction ops generalizing s with
  | nil => rfl
  | cons op ops ih =>
    show (run (apiStep s op).1 ops).1.length = s.length
    rw [ih, length_apiStep]

theorem length_run_results (s : List ObjState) (ops : List ApiOp) :
    (run s ops).2.length = ops.length := by
  induction ops generalizing s with
  | nil => rfl
  | cons op ops ih =>
    show ((apiStep s op).2 :: (run (apiStep s op).1 ops).2).length = (op :: ops).length
    simp [ih]

/-- the state of `h` and the results of its calls are those of running its calls alone -/
theorem run_obj {s : List ObjState} {h : Nat} (hh : h < s.length) (ops : List ApiOp) :
    objAt (run s ops).1 h = (runObj (objAt s h) (ops.filter (·.handle = h))).1 ∧
      resultsFor h ops (run s ops).2 = (runObj (objAt s h) (ops.filter (·.handle = h))).2 := by
  induction ops generalizing s with
  | nil => exact ⟨rfl, rfl⟩
  | cons op ops ih =>
    have hlen : h < (apiStep s op).1.length := by rw [length_apiStep]; exact hh
    obtain ⟨ih1, ih2⟩ := ih hlen
    by_cases hop : op.handle = h
    · have hf : (op :: ops).filter (·.handle = h) = op :: ops.filter (·.handle = h) := by
        rw [List.filter_cons, if_pos]; simpa using hop
      have hobj : objAt (apiStep s op).1 h = (objStep (objAt s h) op).1 := by
        rw [apiStep_eq, hop]
        exact objAt_setAt_same hh _
      have hres : (apiStep s op).2 = (objStep (objAt s h) op).2 := by
        rw [apiStep_eq, hop]
      rw [hf]
      constructor
      · show objAt (run (apiStep s op).1 ops).1 h = _
        rw [ih1, hobj]; rfl
      · show resultsFor h (op :: ops) ((apiStep s op).2 :: (run (apiStep s op).1 ops).2) = _
        rw [resultsFor, if_pos hop, ih2, hobj, hres]; rfl
    · have hf : (op :: ops).filter (·.handle = h) = ops.filter (·.handle = h) := by
        rw [List.filter_cons, if_neg]; simpa using hop
      have hobj : objAt (apiStep s op).1 h = objAt s h := by
        rw [apiStep_eq]
        exact objAt_setAt_ne _ (fun hx => hop hx.symm) _
      rw [hf]
      constructor
      · show objAt (run (apiStep s op).1 ops).1 h = _
        rw [ih1, hobj]
      · show resultsFor h (op :: ops) ((apiStep s op).2 :: (run (apiStep s op).1 ops).2) = _
        rw [resultsFor, if_neg hop, ih2, hobj]

theorem resultsFor_all {h : Nat} {ops : List ApiOp} (hall : ∀ op ∈ ops, op.handle = h)
    {rs : List ApiRes} (hlen : rs.length = ops.length) : resultsFor h ops rs = rs := by
  induction ops generalizing rs with
  | nil =>
    cases rs with
    | nil => rfl
    | cons r rs => cases hlen
  | cons op ops ih =>
    cases rs with
    | nil => cases hlen
    | cons r rs =>
      rw [resultsFor, if_pos (hall op List.mem_cons_self)]
      rw [ih (fun x hx => hall x (List.mem_cons_of_mem _ hx)) (by simpa using hlen)]

theorem filter_handle_all {h : Nat} {ops : List ApiOp} (hall : ∀ op ∈ ops, op.handle = h) :
    ops.filter (·.handle = h) = ops := by
  rw [List.filter_eq_self]
  intro op hop
  simpa using hall op hop

/-! ## the definition state -/

theorem parseRc_defn {o1 o2 : ObjState} (h : o1.defn = o2.defn) (an fg : Bool)
    (codes : List Int) : parseRc o1 an fg codes = parseRc o2 an fg codes := by
  unfold parseRc
  rw [h]

theorem record_defn (o : ObjState) (rc : Int) : (o.record rc).defn = o.defn := by
  unfold ObjState.record
  split <;> rfl

theorem record_st (o : ObjState) (rc : Int) : (o.record rc).st = o.st := by
  unfold ObjState.record
  split <;> rfl

/-- only a successful definition makes an object defined -/
theorem objStep_defn_none {o : ObjState} (ho : o.defn = none) {op : ApiOp}
    (hop : ∀ h g, op ≠ .define h (.ok g)) : (objStep o op).1.defn = none := by
  cases op with
  | create h => rfl
  | set h k v => exact ho
  | define h res =>
    cases res with
    | ok g => exact absurd rfl (hop h g)
    | error e => rfl
  | parse h an fg codes => show (o.record _).defn = none; rw [record_defn]; exact ho
  | errcode h => exact ho
  | free h => rfl

theorem runObj_defn_none {o : ObjState} (ho : o.defn = none) {ops : List ApiOp}
    (hops : ∀ op ∈ ops, ∀ h g, op ≠ .define h (.ok g)) : (runObj o ops).1.defn = none := by
  induction ops generalizing o with
  | nil => exact ho
  | cons op ops ih =>
    show (runObj (objStep o op).1 ops).1.defn = none
    exact ih (objStep_defn_none ho (hops op List.mem_cons_self))
      (fun x hx => hops x (List.mem_cons_of_mem _ hx))

/-! ## settings -/

def Settings.get (st : Settings) : SetKind → Int
  | .la => st.la
  | .debug => st.debug
  | .one => st.one
  | .cost => st.cost
  | .recov => st.recov
  | .rmatch => st.rmatch

/-- the value a setter stores -/
def storedValue : SetKind → Int → Int
  | .la, v => clampLa v
  | _, v => v

theorem set_fst (st : Settings) (k : SetKind) (v : Int) : (st.set k v).1 = st.get k := by
  cases k <;> rfl

theorem set_snd_get (st : Settings) (k : SetKind) (v : Int) :
    (st.set k v).2.get k = storedValue k v := by
  cases k <;> rfl

theorem set_snd_get_ne (st : Settings) {k k' : SetKind} (hne : k' ≠ k) (v : Int) :
    (st.set k v).2.get k' = st.get k' := by
  cases k <;> cases k' <;> first | rfl | exact absurd rfl hne

/-! ## the error state -/

/-- the error code after the history `hist` (calls with their results, oldest first) of an
object whose error code was `acc`: the most recent non-zero return code since the last
`create` (or `free`), else `acc` -/
def lastFailure : Int → List (ApiOp × ApiRes) → Int
  | acc, [] => acc
  | acc, (op, res) :: rest =>
    lastFailure
      (match op with
        | .create _ | .free _ => 0
        | _ => match res with
          | .rc c => if c ≠ 0 then c else acc
          | _ => acc)
      rest

/-- no definition attempt fails with code 0 (`readGrammar` never does: its codes are 4..16) -/
def NoZeroError (ops : List ApiOp) : Prop :=
  ∀ op ∈ ops, ∀ h, op ≠ .define h (.error 0)

theorem objStep_lastErr (o : ObjState) {op : ApiOp} (hop : ∀ h, op ≠ .define h (.error 0)) :
    (objStep o op).1.lastErr = lastFailure o.lastErr [(op, (objStep o op).2)] := by
  cases op with
  | create h => rfl
  | set h k v => rfl
  | define h res =>
    cases res with
    | ok g => rfl
    | error e =>
      have he : e ≠ 0 := fun h0 => hop h (by rw [h0])
      show (e : Int) = lastFailure o.lastErr [(_, ApiRes.rc (e : Int))]
      simp [lastFailure, he]
  | parse h an fg codes =>
    show (o.record (parseRc o an fg codes)).lastErr =
      lastFailure o.lastErr [(_, ApiRes.rc (parseRc o an fg codes))]
    unfold ObjState.record
    by_cases hc : parseRc o an fg codes = 0
    · simp [lastFailure, hc]
    · simp [lastFailure, hc]
  | errcode h => rfl
  | free h => rfl

theorem lastFailure_cons (acc : Int) (p : ApiOp × ApiRes) (rest : List (ApiOp × ApiRes)) :
    lastFailure acc (p :: rest) = lastFailure (lastFailure acc [p]) rest := by
  obtain ⟨op, res⟩ := p
  rfl

theorem runObj_lastErr (o : ObjState) {ops : List ApiOp} (hops : NoZeroError ops) :
    (runObj o ops).1.lastErr = lastFailure o.lastErr (ops.zip (runObj o ops).2) := by
  induction ops generalizing o with
  | nil => rfl
  | cons op ops ih =>
    show (runObj (objStep o op).1 ops).1.lastErr =
      lastFailure o.lastErr ((op, (objStep o op).2) :: ops.zip (runObj (objStep o op).1 ops).2)
    rw [ih (objStep o op).1 (fun x hx => hops x (List.mem_cons_of_mem _ hx)), lastFailure_cons,
      ← objStep_lastErr o (hops op List.mem_cons_self)]

/-! ## `termNumOfCode`, `inputCodes` -/

theorem find?_range_eq_some {n : Nat} {p : Nat → Bool} {k : Nat} :
    (List.range n).find? p = some k ↔ k < n ∧ p k = true ∧ ∀ j, j < k → p j = false := by
  induction n generalizing k with
  | zero => simp
  | succ n ih =>
    rw [List.range_succ, List.find?_append]
    cases hf : (List.range n).find? p with
    | some k' =>
      have hk' := (@ih k').mp hf
      simp only [Option.some_or, Option.some.injEq]
      constructor
      · rintro rfl
        exact ⟨Nat.lt_succ_of_lt hk'.1, hk'.2⟩
      · rintro ⟨_, h2, h3⟩
        rcases Nat.lt_trichotomy k' k with hlt | heq | hgt
        · have := h3 k' hlt; rw [hk'.2.1] at this; cases this
        · exact heq
        · have := hk'.2.2 k hgt; rw [h2] at this; cases this
    | none =>
      have hnone : ∀ j, j < n → p j = false := by
        intro j hj
        have := List.find?_eq_none.mp hf j (List.mem_range.mpr hj)
        simpa using this
      simp only [Option.none_or]
      by_cases hpn : p n = true
      · simp only [List.find?_cons, hpn, Option.some.injEq]
        constructor
        · rintro rfl
          exact ⟨Nat.lt_succ_self _, hpn, hnone⟩
        · rintro ⟨h1, h2, h3⟩
          rcases Nat.lt_or_ge k n with hlt | hge
          · have := hnone k hlt; rw [h2] at this; cases this
          · exact Nat.le_antisymm hge (Nat.le_of_lt_succ h1)
      · have hpn' : p n = false := by simpa using hpn
        simp only [List.find?_cons, hpn', List.find?_nil, reduceCtorEq, false_iff, not_and]
        intro h1 h2
        rcases Nat.lt_or_ge k n with hlt | hge
        · have := hnone k hlt; rw [h2] at this; cases this
        · have : k = n := Nat.le_antisymm (Nat.le_of_lt_succ h1) hge
          subst this; rw [hpn'] at h2; cases h2

theorem getD_beq_iff {l : List Int} {i : Nat} {c : Int} (hi : i < l.length) :
    (l.getD i 0 == c) = true ↔ l[i]? = some c := by
  rw [List.getD_eq_getElem?_getD, List.getElem?_eq_getElem hi]
  simp

end Yaep
