import Yaep.Lemmas.NoGarbagePrunedExport
/-!
# No garbage, part 13: the cost flag, end to end — `make_parse`, `find_minimal_translation`,
`yaep_free_tree`
-/
namespace Yaep.NG
open Yaep MP

section
variable {h0 : Array PC.Cell} {rk hd : Nat → Nat} {one free : Bool} {s : PC.PSt}
  {Hf : Array PC.Cell} {x0 : Nat} (H : FinalHeap h0 rk hd one free s Hf x0)
include H

/-- a reachable cell of the pruned tree is an abstract node with the name it had -/
theorem FinalHeap.anode_name {z : Nat} (hz : PC.Reach Hf x0 z) (nm : String) :
    (∃ c ks, PC.cellAt Hf z = .anode nm c ks) ↔ (∃ c ks, PC.cellAt h0 z = .anode nm c ks) := by
  have hin := H.inF hz
  constructor
  · rintro ⟨c, ks, hc⟩
    have hF : ∃ c', PC.cellAt s.heap z = .anode nm c' ks := by
      rcases H.cells z with e | ⟨nm', c', ks', _, e1, e2⟩
      · exact ⟨c, by rw [← e]; exact hc⟩
      · rw [hc] at e2; injection e2 with i1 _ i3; subst i1; subst i3; exact ⟨c', e1⟩
    obtain ⟨c', hFz⟩ := hF
    have halF : PC.isAlt s.heap z = false := by simp [PC.isAlt, hFz]
    obtain ⟨hlt, hal0, hv⟩ := H.inF_nonalt hin halF
    have h1 : PC.isAnode h0 z = true := by
      rw [← (PC.nonalt_kind H.wf H.inv hlt (fun h => h) hal0).2.1]; simp [PC.isAnode, hFz]
    unfold PC.isAnode at h1
    split at h1
    · rename_i nm0 c0 ks0 e
      obtain ⟨ks', e1, _⟩ := PC.visited_anode H.wf H.inv hlt e hv
      rw [hFz] at e1
      injection e1 with i1 _ _
      subst i1
      exact ⟨c0, ks0, e⟩
    · cases h1
  · rintro ⟨c, ks, hc⟩
    have hal0 : PC.isAlt h0 z = false := by simp [PC.isAlt, hc]
    rcases hin with ⟨hlt, _, hv⟩ | ⟨a, ha, hala, hda, hv, hzk⟩
    · obtain ⟨ks', e1, _⟩ := PC.visited_anode H.wf H.inv hlt hc hv
      obtain ⟨_, d2⟩ := H.done z (H.reach_iff.1 hz) _ _ _ e1
      exact ⟨_, _, d2⟩
    · have := (H.kept_cell ha hala hda hv hzk).2.2.1
      rw [hal0] at this; cases this

end

/-- what the model of `yaep_free_tree` does with the exported table `(tab, root)` of the tree
`R.root` in the final heap `R.heap` of `find_minimal_translation`, for the finished all-parses run
`s` of `make_parse` (`cells`: table index ↦ cell) -/
structure CostReleased (c : Ctx) (s : St) (nameBlk : Nat → Nat) (R : PC.Result) (cells : List Nat)
    (tab : Array NodeRec) (root : Nat) : Prop where
  /-- no block is released twice, neither by `find_minimal_translation` nor by `yaep_free_tree` -/
  freesNodup : R.frees.Nodup
  nodup : (freedBlocks (freeTree tab root)).Nodup
  /-- distinct node / ALT blocks of the table are distinct cells -/
  inj : ∀ b ∈ freedBlocks (freeTree tab root), ∀ b' ∈ freedBlocks (freeTree tab root),
    isNameB b = false → isNameB b' = false → cellOf R.heap cells b = cellOf R.heap cells b' → b = b'
  /-- every cell `make_parse` allocated is exactly one of: released by `yaep_free_tree`, handed to
  `parse_free` by `find_minimal_translation`, the unused NIL / ERROR node handed back at the end of
  `make_parse` -/
  cellsOnce : ∀ i, i < s.heap.size → i ≠ rootId →
    ((∃ b ∈ freedBlocks (freeTree tab root), isNameB b = false ∧ cellOf R.heap cells b = i) ∧
      PC.Mem.cell i ∉ R.frees ∧ i ∉ handedBackAfter R) ∨
    ((¬ ∃ b ∈ freedBlocks (freeTree tab root), isNameB b = false ∧ cellOf R.heap cells b = i) ∧
      PC.Mem.cell i ∈ R.frees ∧ i ∉ handedBackAfter R) ∨
    ((¬ ∃ b ∈ freedBlocks (freeTree tab root), isNameB b = false ∧ cellOf R.heap cells b = i) ∧
      PC.Mem.cell i ∉ R.frees ∧ i ∈ handedBackAfter R)
  /-- … and nothing else is released -/
  cellsOnly : ∀ i,
    ((∃ b ∈ freedBlocks (freeTree tab root), isNameB b = false ∧ cellOf R.heap cells b = i) ∨
      PC.Mem.cell i ∈ R.frees ∨ i ∈ handedBackAfter R) → i < s.heap.size ∧ i ≠ rootId
  /-- a node block is a cell that is not an ALT cell, an ALT block is an ALT cell -/
  kinds : ∀ b ∈ freedBlocks (freeTree tab root),
    (∀ k, b = .node k → PC.isAlt R.heap (cellOf R.heap cells b) = false) ∧
    (∀ k p, b = .cell k p → PC.isAlt R.heap (cellOf R.heap cells b) = true)
  /-- the name block of a named rule (`b`: the block `nameBlk` assigns to the abstract nodes with
  that name, and to no other) is released exactly once: by `yaep_free_tree` when an abstract node
  with the name survives, by `find_minimal_translation` otherwise -/
  names : ∀ rl nm b, rl ∈ s.namedRules → (c.rule rl).anode = some nm →
    (∀ z cst ks, s.heap.getD z .nil = .anode nm cst ks → nameBlk z = b) →
    (∀ z nm' cst ks, 3 ≤ z → s.heap.getD z .nil = .anode nm' cst ks → nameBlk z = b → nm' = nm) →
    (Block.name nm ∈ freedBlocks (freeTree tab root) ∧ PC.Mem.name b ∉ R.frees) ∨
    (Block.name nm ∉ freedBlocks (freeTree tab root) ∧ PC.Mem.name b ∈ R.frees)
  /-- only names of named rules are released by `yaep_free_tree` -/
  namesOnly : ∀ nm, Block.name nm ∈ freedBlocks (freeTree tab root) →
    ∃ rl, rl ∈ s.namedRules ∧ (c.rule rl).anode = some nm
  /-- the terminal callback: once per TERM cell of the pruned tree -/
  termNodup : (termCalls (freeTree tab root)).Nodup
  term : ∀ k, k ∈ termCalls (freeTree tab root) ↔
    Block.node k ∈ freedBlocks (freeTree tab root) ∧
      ∃ cd a, PC.cellAt R.heap (cells.getD k 0) = .term cd a

/-- **the cost flag, end to end** (from the invariant of the run and the well-formedness of the
heap of `make_parse`) -/
theorem cost_released {c : Ctx} {s : St} {r : Nat} {rk hd : Nat → Nat} (hi : NGInv c s)
    (hst : s.stack = []) (hres : s.result = some r) (wf : PC.WfHeap (PC.ofHeap s.heap) rk hd)
    (hr : r < (PC.ofHeap s.heap).size) (hdr : hd r = r) {fuel' : Nat} (hf : s.heap.size ≤ fuel')
    (onep : Bool) (nameBlk : Nat → Nat) :
    ∃ tab root cells,
      exportTable (PC.toHeap (PC.findMinimalTranslation fuel' (PC.ofHeap s.heap) r onep true nameBlk
        s.nilUsed s.errUsed).heap) (PC.findMinimalTranslation fuel' (PC.ofHeap s.heap) r onep true
        nameBlk s.nilUsed s.errUsed).root = some (tab, root) ∧
      cells.length = tab.size ∧
      cells.getD root 0 = (PC.findMinimalTranslation fuel' (PC.ofHeap s.heap) r onep true nameBlk
        s.nilUsed s.errUsed).root ∧
      (∀ id, id < tab.size → RepAt (PC.toHeap (PC.findMinimalTranslation fuel' (PC.ofHeap s.heap) r
        onep true nameBlk s.nilUsed s.errUsed).heap) tab cells id) ∧
      CostReleased c s nameBlk (PC.findMinimalTranslation fuel' (PC.ofHeap s.heap) r onep true nameBlk
        s.nilUsed s.errUsed) cells tab root := by
  have hf' : (PC.ofHeap s.heap).size ≤ fuel' := by rw [size_ofHeap]; exact hf
  have H := finalHeap_of_fmt wf hr hdr hf' onep true nameBlk s.nilUsed s.errUsed
  obtain ⟨g1, g2, g3⟩ := cost_partition hi hst hres wf hr hdr hf onep nameBlk
  have hnames := PC.pruneC_frees_names wf hr hdr hf' onep nameBlk s.nilUsed s.errUsed
  have hfrees := PC.pruneC_frees wf hr hdr hf' onep nameBlk s.nilUsed s.errUsed
  generalize hR : PC.findMinimalTranslation fuel' (PC.ofHeap s.heap) r onep true nameBlk s.nilUsed
    s.errUsed = R at H g1 g2 g3 hnames hfrees
  -- the exporter succeeds on the pruned tree
  obtain ⟨tab, root, hxM⟩ := PC.exportTable_some H.wfMasked H.root_lt
  have hx : exportTable (PC.toHeap R.heap) R.root = some (tab, root) := by
    rw [← agree_exportTable H.size_masked H.closed H.agree (.refl _)]; exact hxM
  obtain ⟨cells, b1, b2, b3, b4, b5, b6, b7, b8, b9, b10⟩ := H.export_free_bij hx
  have hi' : Inv c s.heap s.states [] s.nilUsed s.errUsed s.namedRules s.nameAfter := by
    have := hi; unfold NGInv at this; rw [hst] at this; exact this
  have hlive := reach_iff_live hi hst hres wf hr
  have hanode : ∀ z nm, PC.Reach R.heap R.root z →
      ((∃ cst ks, PC.cellAt R.heap z = .anode nm cst ks) ↔
        (∃ cst ks, s.heap.getD z .nil = .anode nm cst ks)) := by
    intro z nm hz
    rw [H.anode_name hz nm]
    constructor
    · rintro ⟨cst, ks, hc⟩
      rw [cellAt_ofHeap] at hc
      cases hq : s.heap.getD z .nil <;> rw [hq] at hc <;> simp [PC.ofMNode] at hc
      obtain ⟨e1, _, e3⟩ := hc
      subst e1; subst e3
      exact ⟨_, _, rfl⟩
    · rintro ⟨cst, ks, hc⟩
      exact ⟨(cst : Int), ks, by rw [cellAt_ofHeap, hc]; rfl⟩
  have hisAnode : ∀ z, PC.isAnode (PC.ofHeap s.heap) z = true ↔
      ∃ nm cst ks, s.heap.getD z .nil = .anode nm cst ks := by
    intro z
    unfold PC.isAnode
    rw [cellAt_ofHeap]
    cases hq : s.heap.getD z .nil <;> simp [PC.ofMNode]
  refine ⟨tab, root, cells, hx, b1, b2, fun id hid => (b3 id hid).1,
    ⟨g1, b4, b5, ?_, ?_, b7, ?_, ?_, b9, b10⟩⟩
  · intro i h1 h2
    rw [← b6 i]
    exact g2 i h1 h2
  · intro i h
    rw [← b6 i] at h
    exact g3 i h
  · -- name blocks
    intro rl nm b hrl hnm hall hinj
    obtain ⟨i, nm', cst, ks, a1, a2, a3, a4⟩ := hi'.nok.named hrl
    rw [hnm] at a4; injection a4 with a4; subst a4
    by_cases hex : ∃ z cst ks, PC.Reach R.heap R.root z ∧ PC.cellAt R.heap z = .anode nm cst ks
    · left
      refine ⟨(b8 nm).2 hex, ?_⟩
      intro hfr
      obtain ⟨z, cst', ks', hz1, hz2⟩ := hex
      obtain ⟨cst'', ks'', hz3⟩ := (hanode z nm hz1).1 ⟨cst', ks', hz2⟩
      exact ((hnames b).1 hfr).1 z hz1 ((hisAnode z).2 ⟨nm, cst'', ks'', hz3⟩) (hall z cst'' ks'' hz3)
    · right
      refine ⟨fun hb => hex ((b8 nm).1 hb), (hnames b).2 ⟨?_, i, ?_, (hisAnode i).2 ⟨nm, cst, ks, a3⟩,
        hall i cst ks a3⟩⟩
      · intro z hz ha hzb
        obtain ⟨nm', cst', ks', hc'⟩ := (hisAnode z).1 ha
        have hzl := (hlive z).1 (pruned_reach_sub wf hr hdr hf' onep nameBlk _ _ (by rw [hR]; exact hz))
        rw [mem_liveCells] at hzl
        have h3 : 3 ≤ z := by
          rcases (by omega : z = 0 ∨ z = 1 ∨ z = 2 ∨ 3 ≤ z) with e | e | e | e
          · subst e; have := hi'.hok.cnil; unfold nilId at this; rw [this] at hc'; cases hc'
          · subst e; have := hi'.hok.cerr; unfold errId at this; rw [this] at hc'; cases hc'
          · exact absurd e hzl.2.1
          · exact e
        have := hinj z nm' cst' ks' h3 hc' hzb
        subst this
        exact hex ⟨z, (hanode z nm' hz).2 ⟨cst', ks', hc'⟩ |>.choose,
          ((hanode z nm' hz).2 ⟨cst', ks', hc'⟩).choose_spec.choose, hz,
          ((hanode z nm' hz).2 ⟨cst', ks', hc'⟩).choose_spec.choose_spec⟩
      · -- the cell recorded for the rule is handed back by `find_minimal_translation`
        rw [hfrees i]
        have hil : i ∈ liveCells s := by
          rw [mem_liveCells]
          exact ⟨a2, by unfold rootId; omega, fun e => by unfold nilId at e; omega,
            fun e => by unfold errId at e; omega⟩
        refine ⟨(hlive i).2 hil, ?_, ?_⟩
        · intro hre
          exact hex ⟨i, ((hanode i nm hre).2 ⟨cst, ks, a3⟩).choose,
            ((hanode i nm hre).2 ⟨cst, ks, a3⟩).choose_spec.choose, hre,
            ((hanode i nm hre).2 ⟨cst, ks, a3⟩).choose_spec.choose_spec⟩
        · unfold PC.isNE PC.isNilCell PC.isErrCell
          rw [cellAt_ofHeap, a3]; rfl
  · intro nm hb
    obtain ⟨z, cst, ks, hz1, hz2⟩ := (b8 nm).1 hb
    obtain ⟨cst', ks', hc'⟩ := (hanode z nm hz1).1 ⟨cst, ks, hz2⟩
    have hzl := (hlive z).1 (pruned_reach_sub wf hr hdr hf' onep nameBlk _ _ (by rw [hR]; exact hz1))
    rw [mem_liveCells] at hzl
    have h3 : 3 ≤ z := by
      rcases (by omega : z = 0 ∨ z = 1 ∨ z = 2 ∨ 3 ≤ z) with e | e | e | e
      · subst e; have := hi'.hok.cnil; unfold nilId at this; rw [this] at hc'; cases hc'
      · subst e; have := hi'.hok.cerr; unfold errId at this; rw [this] at hc'; cases hc'
      · exact absurd e hzl.2.1
      · exact e
    exact hi'.nok.cover z nm cst' ks' h3 hc'

end Yaep.NG
