import Yaep.Model.Earley2
import Yaep.Lemmas.EarleyLA
import Yaep.Lemmas.Analysis
/-!
# Lookahead level 2 (dynamic lookahead): the parse list `buildPL2`

Part 1 (soundness): every item of the computed sets, stripped of its context, is an item of
the unfiltered declarative Earley set — whatever the contexts are, filtering only removes
items.
-/
namespace Yaep

/-- the verdict at lookahead level 2 -/
def accepts2 (g : Grammar) (w : List Nat) : Bool := (buildPL2 g w).1.isNone

/-- forget the context -/
def Item2.proj (it : Item2) : Item := ⟨it.rule, it.dot, it.origin⟩

/-- the filter that keeps everything -/
abbrev okT : Nat → Nat → Nat → Bool := fun _ _ _ => true

/-- the item (without its context) is in the unfiltered declarative set `j` -/
def Sound2 (g : Grammar) (w : List Nat) (j : Nat) (it : Item2) : Prop :=
  EarleyF g okT w j it.proj

theorem mem_nullable_iff {g : Grammar} {B : Nat} : B ∈ g.nullable ↔ Der g [Sym.n B] [] := by
  rw [← symNullable_iff]; simp [symNullable]

/-- advancing the dot over a segment that derives ε stays in the set -/
theorem EarleyF.advance_nil {g : Grammar} {w : List Nat} {j r d i : Nat} {rl : Rule}
    {β rest : List Sym} (h : EarleyF g okT w j ⟨r, d, i⟩) (hr : g.rules[r]? = some rl)
    (hsplit : rl.rhs.drop d = β ++ rest) (hβ : Der g β []) :
    EarleyF g okT w j ⟨r, d + β.length, i⟩ := by
  have := (completeness_aux (ok := okT) (w := w) (fun _ _ _ => rfl) hβ r d i j rest rl h hr hsplit
    (by simp [slice])).1
  simpa using this

theorem EarleyF.advance_nullable {g : Grammar} {w : List Nat} {j r d i B : Nat}
    (h : EarleyF g okT w j ⟨r, d, i⟩) (hns : g.nextSym r d = some (Sym.n B))
    (hB : B ∈ g.nullable) : EarleyF g okT w j ⟨r, d + 1, i⟩ := by
  obtain ⟨rl, hr, hs⟩ := nextSym_eq_some.mp hns
  have hsplit : rl.rhs.drop d = [Sym.n B] ++ rl.rhs.drop (d + 1) := by
    obtain ⟨hlt, he⟩ := List.getElem?_eq_some_iff.mp hs
    rw [List.drop_eq_getElem_cons hlt, he]; rfl
  exact h.advance_nil hr hsplit (mem_nullable_iff.mp hB)

/-! ## `derived2` -/

theorem derived2_sound {g : Grammar} {w : List Nat} {j : Nat} :
    ∀ (fuel : Nat) (it : Item2), Sound2 g w j it →
      ∀ x ∈ derived2 g g.analysis it fuel, Sound2 g w j x := by
  intro fuel
  induction fuel with
  | zero => intro it _ x hx; simp [derived2] at hx
  | succ fuel ih =>
    intro it hit x hx
    unfold derived2 at hx
    split at hx
    · rename_i B hns
      split at hx
      · rename_i hB
        have hadv : Sound2 g w j { it with dot := it.dot + 1 } :=
          EarleyF.advance_nullable (r := it.rule) (d := it.dot) (i := it.origin) hit hns hB
        rcases List.mem_cons.mp hx with rfl | hx
        · exact hadv
        · exact ih _ hadv x hx
      · simp at hx
    · simp at hx

/-! ## `expand2` -/

theorem ctxRound_keys (g : Grammar) (an : Analysis) (items : List Item2)
    (inits : List ((Nat × Nat) × List Nat)) :
    (ctxRound g an items inits).map (·.1) = inits.map (·.1) := by
  simp [ctxRound, List.map_map, Function.comp_def]

theorem ctxFix_keys (g : Grammar) (an : Analysis) (items : List Item2) :
    ∀ (fuel : Nat) (inits : List ((Nat × Nat) × List Nat)),
      (ctxFix g an items fuel inits).map (·.1) = inits.map (·.1) := by
  intro fuel
  induction fuel with
  | zero => intro inits; rfl
  | succ fuel ih =>
    intro inits
    unfold ctxFix
    simp only
    split
    · rfl
    · rw [ih, ctxRound_keys]

theorem initStep_sound {g : Grammar} {w : List Nat} {j : Nat} {base cur : List (Nat × Nat)}
    (hbase : ∀ p ∈ base, ∃ i, EarleyF g okT w j ⟨p.1, p.2, i⟩)
    (hcur : ∀ p ∈ cur, EarleyF g okT w j ⟨p.1, p.2, j⟩) :
    ∀ p ∈ initStep g g.analysis base cur, EarleyF g okT w j ⟨p.1, p.2, j⟩ := by
  intro p hp
  unfold initStep at hp
  rcases List.mem_append.mp hp with hp | hp
  · obtain ⟨⟨r, d⟩, hb, hp⟩ := List.mem_flatMap.mp hp
    obtain ⟨i, hi⟩ := hbase _ hb
    simp only at hp
    split at hp
    · rename_i B hns
      obtain ⟨r2, hr2, rfl⟩ := List.mem_map.mp hp
      obtain ⟨rl2, h1, h2⟩ := mem_rulesFor.mp hr2
      exact EarleyF.predict hi hns h1 h2
    · simp at hp
  · obtain ⟨⟨r, d⟩, hb, hp⟩ := List.mem_flatMap.mp hp
    have hi := hcur _ hb
    simp only at hp
    split at hp
    · rename_i B hns
      rcases List.mem_append.mp hp with hp | hp
      · obtain ⟨r2, hr2, rfl⟩ := List.mem_map.mp hp
        obtain ⟨rl2, h1, h2⟩ := mem_rulesFor.mp hr2
        exact EarleyF.predict hi hns h1 h2
      · split at hp
        · rename_i hB
          simp at hp; subst hp
          exact EarleyF.advance_nullable hi hns hB
        · simp at hp
    · simp at hp

/-- the items of `expand2`: start items, their nullable advances, and initial items whose
`(rule, dot)` is in the saturation of `initStep` -/
theorem mem_expand2 {g : Grammar} {an : Analysis} {start : List Item2} {j : Nat} {x : Item2}
    (hx : x ∈ expand2 g an start j) :
    x ∈ start ∨ (∃ s ∈ start, x ∈ derived2 g an s (g.maxRhs + 1)) ∨
    (x.origin = j ∧ (x.rule, x.dot) ∈
      saturate (initStep g an ((start ++ start.flatMap fun it =>
        derived2 g an it (g.maxRhs + 1)).map fun it => (it.rule, it.dot)))
        (g.rules.length * (g.maxRhs + 1) + 2) []) := by
  unfold expand2 at hx
  simp only at hx
  rcases List.mem_append.mp hx with hx | hx
  · rcases List.mem_append.mp hx with hx | hx
    · exact .inl hx
    · obtain ⟨s, hs, hx⟩ := List.mem_flatMap.mp hx
      exact .inr (.inl ⟨s, hs, hx⟩)
  · obtain ⟨⟨⟨r, d⟩, c⟩, hmem, rfl⟩ := List.mem_map.mp hx
    refine .inr (.inr ⟨rfl, ?_⟩)
    have hk := List.mem_map_of_mem (f := fun (q : (Nat × Nat) × List Nat) => q.1) hmem
    rw [ctxFix_keys] at hk
    simpa using hk

theorem expand2_sound {g : Grammar} {w : List Nat} {start : List Item2} {j : Nat}
    (hstart : ∀ s ∈ start, Sound2 g w j s) :
    ∀ x ∈ expand2 g g.analysis start j, Sound2 g w j x := by
  intro x hx
  have hitems : ∀ y ∈ start ++ start.flatMap fun it =>
      derived2 g g.analysis it (g.maxRhs + 1), Sound2 g w j y := by
    intro y hy
    rcases List.mem_append.mp hy with hy | hy
    · exact hstart y hy
    · obtain ⟨s, hs, hy⟩ := List.mem_flatMap.mp hy
      exact derived2_sound _ s (hstart s hs) y hy
  rcases mem_expand2 hx with h | ⟨s, hs, h⟩ | ⟨ho, h⟩
  · exact hstart x h
  · exact derived2_sound _ s (hstart s hs) x h
  · have := saturate_sound (initStep g g.analysis _)
      (fun p : Nat × Nat => EarleyF g okT w j ⟨p.1, p.2, j⟩)
      (fun s hs => initStep_sound (fun p hp => by
          obtain ⟨y, hy, rfl⟩ := List.mem_map.mp hp
          exact ⟨y.origin, hitems y hy⟩) hs)
      _ [] (by simp) _ h
    unfold Sound2 Item2.proj
    rw [ho]
    exact this

/-! ## `startLoop`, `nextSet2` -/

/-- all sets of the parse list are sound -/
def PL2Sound (g : Grammar) (w : List Nat) (pl : List (List Item2)) : Prop :=
  ∀ k, k < pl.length → ∀ it ∈ pl.getD k [], Sound2 g w k it

theorem startLoop_sound {g : Grammar} {w : List Nat} {nxt : Option Nat} {pl : List (List Item2)}
    (hpl : PL2Sound g w pl) :
    ∀ (fuel : Nat) (start : List Item2) (k : Nat), (∀ s ∈ start, Sound2 g w pl.length s) →
      ∀ s ∈ startLoop g g.analysis nxt pl fuel start k, Sound2 g w pl.length s := by
  intro fuel
  induction fuel with
  | zero => intro start k h; simpa [startLoop] using h
  | succ fuel ih =>
    intro start k h
    unfold startLoop
    split
    · exact h
    · rename_i it hit
      apply ih
      intro s hs
      rcases mem_addNew hs with hs | hs
      · exact h s hs
      · have hitS := h it (List.mem_of_getElem? hit)
        cases hr : g.rules[it.rule]? with
        | none => simp [hr] at hs
        | some rl =>
          simp only [hr] at hs
          split at hs
          · rename_i hcond
            rw [Bool.and_eq_true, decide_eq_true_eq] at hcond
            obtain ⟨htail, horig⟩ := hcond
            obtain ⟨p, hp, hs⟩ := List.mem_filterMap.mp hs
            split at hs
            · rename_i hc
              injection hs with hs; subst hs
              have hnil : Der g (rl.rhs.drop it.dot) [] := (firstOfStr_snd_iff _).mp htail
              have hend := EarleyF.advance_nil (rest := []) hitS hr (by simp) hnil
              obtain ⟨rl1, hr1, hle, _, _⟩ := EarleyF.sound hitS
              simp only [Item2.proj] at hr1 hle
              rw [hr] at hr1; injection hr1 with hr1; subst hr1
              have hlen : it.dot + (rl.rhs.drop it.dot).length = rl.rhs.length := by
                simp; omega
              rw [hlen] at hend
              exact EarleyF.complete hr hend (hpl _ horig p hp) hc.1 (fun _ => rfl)
            · simp at hs
          · simp at hs

theorem getLastD_eq_getD' {α} (pl : List α) (k : Nat) (d : α) (h : pl.length = k + 1) :
    pl.getLastD d = pl.getD k d := getLastD_eq_getD pl k d h

theorem nextSet2_sound {g : Grammar} {w : List Nat} {nxt : Option Nat} {pl : List (List Item2)}
    {k a : Nat} (hlen : pl.length = k + 1) (hpl : PL2Sound g w pl) (hw : w[k]? = some a) :
    ∀ x ∈ nextSet2 g g.analysis nxt pl a, Sound2 g w pl.length x := by
  unfold nextSet2
  apply expand2_sound
  apply startLoop_sound hpl
  intro s hs
  rcases mem_addNew hs with hs | hs
  · simp at hs
  · obtain ⟨p, hp, hs⟩ := List.mem_filterMap.mp hs
    split at hs
    · rename_i hc
      injection hs with hs; subst hs
      rw [getLastD_eq_getD pl k [] hlen] at hp
      have := hpl k (by omega) p hp
      rw [hlen]
      exact EarleyF.scan this hc.1 hw rfl
    · simp at hs

theorem PL2Sound_snoc {g : Grammar} {w : List Nat} {pl : List (List Item2)} {s : List Item2}
    (hpl : PL2Sound g w pl) (hs : ∀ x ∈ s, Sound2 g w pl.length x) : PL2Sound g w (pl ++ [s]) := by
  intro k hk it hit
  rw [List.length_append, List.length_singleton] at hk
  rw [List.getD_eq_getElem?_getD] at hit
  rcases Nat.lt_or_ge k pl.length with hlt | hge
  · rw [List.getElem?_append_left hlt, ← List.getD_eq_getElem?_getD] at hit
    exact hpl k hlt it hit
  · have : k = pl.length := by omega
    subst this
    rw [List.getElem?_append_right (Nat.le_refl _)] at hit
    exact hs it (by simpa using hit)

theorem hasTrans2_iff {g : Grammar} {s : List Item2} {a : Nat} :
    hasTrans2 g s a = true ↔ ∃ p ∈ s, g.nextSym p.rule p.dot = some (Sym.t a) := by
  unfold hasTrans2
  rw [List.any_eq_true]
  constructor
  · rintro ⟨p, hp, h⟩; exact ⟨p, hp, by simpa using h⟩
  · rintro ⟨p, hp, h⟩; exact ⟨p, hp, by simpa using h⟩

/-- `parseLoop2` keeps the parse list sound; if it reports no error, every position has a
transition in the unfiltered declarative sets -/
theorem parseLoop2_sound (g : Grammar) (w' : List Nat) :
    ∀ (toks : List Nat) (pl : List (List Item2)) (k : Nat), w'.drop k = toks →
      pl.length = k + 1 → PL2Sound g w' pl → (∀ m, m < k → HasTransF g okT w' m) →
      PL2Sound g w' (parseLoop2 g g.analysis toks pl k).2 ∧
      ((parseLoop2 g g.analysis toks pl k).1 = none →
        ∀ m, m < w'.length → HasTransF g okT w' m) := by
  intro toks
  induction toks with
  | nil =>
    intro pl k hdrop hlen hpl htr
    have hge : w'.length ≤ k := List.drop_eq_nil_iff.mp hdrop
    unfold parseLoop2
    exact ⟨hpl, fun _ m hm => htr m (by omega)⟩
  | cons a rest ih =>
    intro pl k hdrop hlen hpl htr
    obtain ⟨hw, hrest⟩ := drop_succ_of_drop_cons hdrop
    unfold parseLoop2
    by_cases hT : hasTrans2 g (pl.getLastD []) a = true
    · rw [if_pos hT]
      apply ih _ _ hrest (by rw [List.length_append, hlen]; rfl)
      · exact PL2Sound_snoc hpl (nextSet2_sound hlen hpl hw)
      · intro m hm
        rcases Nat.eq_or_lt_of_le (Nat.le_of_lt_succ hm) with heq | hlt
        · subst heq
          rw [getLastD_eq_getD pl m [] hlen] at hT
          obtain ⟨p, hp, hns⟩ := hasTrans2_iff.mp hT
          exact ⟨p.rule, p.dot, p.origin, a, hpl m (by omega) p hp, hw, hns⟩
        · exact htr m hlt
    · rw [if_neg hT]
      exact ⟨hpl, fun h => absurd h (by simp)⟩

theorem set0_2_sound (g : Grammar) (w' : List Nat) :
    ∀ x ∈ expand2 g g.analysis ((g.rulesFor g.axiomN).map fun r => ⟨r, 0, 0, []⟩) 0,
      Sound2 g w' 0 x := by
  apply expand2_sound
  intro s hs
  obtain ⟨r, hr, rfl⟩ := List.mem_map.mp hs
  obtain ⟨rl, h1, h2⟩ := mem_rulesFor.mp hr
  exact EarleyF.init h1 h2

theorem buildPL2_sound_aux (g : Grammar) (w : List Nat) :
    PL2Sound g (w ++ [g.eofT]) (buildPL2 g w).2 ∧
    ((buildPL2 g w).1 = none →
      ∀ m, m < (w ++ [g.eofT]).length → HasTransF g okT (w ++ [g.eofT]) m) := by
  unfold buildPL2
  apply parseLoop2_sound g (w ++ [g.eofT]) _ _ 0 rfl rfl
  · intro k hk it hit
    have : k = 0 := by simpa using hk
    subst this
    exact set0_2_sound g _ it (by simpa using hit)
  · intro m hm; exact absurd hm (Nat.not_lt_zero _)

end Yaep
