import Yaep.Lemmas.MakeParseAllInv
/-!
# All-parses mode: the invariant of the machine state
-/
namespace Yaep.MP
open Yaep

/-- what the proofs need to know about the context (all parses) -/
structure CtxAll (g : Grammar) (ok : Nat → Nat → Nat → Bool) (toks : List Nat) (c : Ctx) : Prop where
  rules : c.rules = g.rules.toArray
  codes : c.termCodes = g.termCodes.toArray
  errT : c.errT = g.errT
  axiomN : c.axiomN = g.axiomN
  all : c.oneParse = false
  size : c.sets.size = toks.length + 1
  sound : ∀ j i, i < (c.sets.getD j #[]).size →
    EarleyF g ok toks j ((c.sets.getD j #[]).getD i default)
  ptoks : ∀ j, 1 ≤ j → j ≤ toks.length → c.plToks.getD j (-1) = (j : Int) - 1

theorem CtxAll.rule_eq {g : Grammar} {ok : Nat → Nat → Nat → Bool} {toks : List Nat} {c : Ctx}
    (hc : CtxAll g ok toks c) {r : Nat} {rl : Rule} (hr : g.rules[r]? = some rl) : c.rule r = rl := by
  unfold Ctx.rule
  rw [hc.rules, Array.getD_eq_getD_getElem?, List.getElem?_toArray, hr]; rfl

/-- the type of the place a state delivers its translation to contains the translations of the
rule instance of the state -/
def TgtOK (g : Grammar) (toks : List Nat) (G : Ghost) (sts : Array PState) (stack : List Nat)
    (P pd lhs orig fin : Nat) : Prop :=
  (P = 0 ∧ pd = 0 ∧ ∀ t, Tr g toks (.n lhs) orig fin t → Tr g toks (.n g.axiomN) 0 toks.length t) ∨
  (P ∈ stack ∧ ∃ rlP qP X aP, g.rules[(sts.getD P default).rule]? = some rlP ∧
    (sts.getD P default).anode = some aP ∧ rlP.order.getD qP none = some pd ∧
    (sts.getD P default).pos ≤ qP ∧ rlP.rhs[qP]? = some X ∧
    ∀ t, Tr g toks (.n lhs) orig fin t → Tr g toks X (G.ssp P qP) (G.ssp P (qP + 1)) t)

/-- the slots of the cell of a state with abstract node: only processed positions, well typed -/
def LiveCell (g : Grammar) (toks : List Nat) (G : Ghost) (h : Array MNode) (sid : Nat) (st : PState)
    (rl : Rule) (a : Nat) : Prop :=
  a < h.size ∧ rootId < a ∧ G.ty a = ⟨st.rule, st.orig, G.sfin sid⟩ ∧
  ∃ nm ks, rl.anode = some nm ∧ h.getD a .nil = .anode nm rl.cost ks ∧ ks.size = rl.transLen + 1 ∧
    ∀ d m, ks.getD d none = some m → ∃ q X, st.pos ≤ q ∧ rl.order.getD q none = some d ∧
      rl.rhs[q]? = some X ∧ PtrOK g toks G.ty h m (Tr g toks X (G.ssp sid q) (G.ssp sid (q + 1)))

/-- the invariant of one parse state on the stack -/
structure StateOK (g : Grammar) (ok : Nat → Nat → Nat → Bool) (toks : List Nat) (G : Ghost)
    (h : Array MNode) (sts : Array PState) (stack : List Nat) (sid : Nat) (rl : Rule) : Prop where
  lt : sid < sts.size
  parLt : (sts.getD sid default).parent < sid
  hr : g.rules[(sts.getD sid default).rule]? = some rl
  posLe : (sts.getD sid default).pos ≤ rl.rhs.length
  item : (sts.getD sid default).pos ≠ 0 →
    EarleyF g ok toks (sts.getD sid default).plInd ⟨(sts.getD sid default).rule,
      (sts.getD sid default).pos, (sts.getD sid default).orig⟩ ∧
    G.ssp sid (sts.getD sid default).pos = (sts.getD sid default).plInd
  pos0 : (sts.getD sid default).pos = 0 → G.ssp sid 0 = (sts.getD sid default).orig
  spFin : G.ssp sid rl.rhs.length = G.sfin sid
  untr : ∀ q X, (sts.getD sid default).pos ≤ q → rl.rhs[q]? = some X → rl.order.getD q none = none →
    ∃ pt, PT.ValidAt g toks pt X (G.ssp sid q) (G.ssp sid (q + 1))
  pa : ∃ pa, (sts.getD (sts.getD sid default).parent default).anode = some pa
  tgt : TgtOK g toks G sts stack (sts.getD sid default).parent (sts.getD sid default).parentDisp
    rl.lhs (sts.getD sid default).orig (G.sfin sid)
  cell : match (sts.getD sid default).anode with
    | some a => LiveCell g toks G h sid (sts.getD sid default) rl a
    | none => rl.anode = none

/-- a finished abstract-node cell: all slots filled and well typed for some split points -/
def FinOK (g : Grammar) (toks : List Nat) (G : Ghost) (h : Array MNode) (n : Nat) : Prop :=
  ∃ (rl : Rule) (nm : String) (ks : Array (Option Nat)) (sp : Nat → Nat),
    g.rules[(G.ty n).rule]? = some rl ∧ rl.anode = some nm ∧
    h.getD n .nil = .anode nm rl.cost ks ∧ ks.size = rl.transLen + 1 ∧
    sp 0 = (G.ty n).orig ∧ sp rl.rhs.length = (G.ty n).fin ∧
    (∀ q X, rl.rhs[q]? = some X → rl.order.getD q none = none →
      ∃ pt, PT.ValidAt g toks pt X (sp q) (sp (q + 1))) ∧
    (∀ d, d < rl.transLen → ∃ m, ks.getD d none = some m ∧
      ((∃ q X, rl.order.getD q none = some d ∧ rl.rhs[q]? = some X ∧
          PtrOK g toks G.ty h m (Tr g toks X (sp q) (sp (q + 1)))) ∨
        ((∀ q, rl.order.getD q none ≠ some d) ∧ m = nilId))) ∧
    ks.getD rl.transLen none = none

/-- the place a state puts the translation of its right-hand-side symbols into -/
def placeOfSt (sts : Array PState) (st : PState) (d : Nat) : Nat × Nat :=
  match st.anode with
  | some a => (a, d)
  | none => (((sts.getD st.parent default).anode).getD 0, st.parentDisp)

/-- `z` is a state without abstract node that has not yet met its translated symbol (if any):
it will put something into `pl` before it is popped -/
def Owes (g : Grammar) (sts : Array PState) (z : Nat) (pl : Nat × Nat) : Prop :=
  (sts.getD z default).anode = none ∧
  pl = (((sts.getD (sts.getD z default).parent default).anode).getD 0, (sts.getD z default).parentDisp) ∧
  ∃ rl, g.rules[(sts.getD z default).rule]? = some rl ∧
    ∀ q, (sts.getD z default).pos ≤ q → rl.order.getD q none = none

/-- `sid` has processed a translated position whose translation goes to `pl` -/
def Proc (g : Grammar) (sts : Array PState) (sid : Nat) (pl : Nat × Nat) : Prop :=
  ∃ rl q d, g.rules[(sts.getD sid default).rule]? = some rl ∧ (sts.getD sid default).pos ≤ q ∧
    rl.order.getD q none = some d ∧ pl = placeOfSt sts (sts.getD sid default) d

/-- the whole invariant (all parses).  `hole`: the state that has just moved its dot over a
translated nonterminal: its place may still be empty -/
structure AGood (g : Grammar) (ok : Nat → Nat → Nat → Bool) (toks : List Nat) (s : St) (G : Ghost)
    (hole : Option (Nat × Nat)) : Prop where
  h0 : s.heap.getD nilId .nil = .nil
  h1 : s.heap.getD errId .nil = .err
  root : ∃ ks, s.heap.getD rootId .nil = .anode "$result" 0 ks ∧ ks.size = 1 ∧ rootId < s.heap.size ∧
    ∀ m, ks.getD 0 none = some m →
      PtrOK g toks G.ty s.heap m (Tr g toks (.n g.axiomN) 0 toks.length)
  rootSt : (s.states.getD 0 default).anode = some rootId ∧ 0 < s.states.size
  sorted : s.stack.Pairwise (· > ·)
  spos : ∀ sid ∈ s.stack, 0 < sid
  states : ∀ sid ∈ s.stack, ∃ rl, StateOK g ok toks G s.heap s.states s.stack sid rl
  noShare : ∀ x ∈ s.stack, ∀ y ∈ s.stack, ∀ a, (s.states.getD x default).anode = some a →
    (s.states.getD y default).anode = some a → x = y
  cells : ∀ n, n < s.heap.size → n ≠ rootId → (∃ nm c ks, s.heap.getD n .nil = .anode nm c ks) →
    (FinOK g toks G s.heap n ∧ ∀ sid ∈ s.stack, (s.states.getD sid default).anode ≠ some n) ∨
    ∃ sid ∈ s.stack, (s.states.getD sid default).anode = some n
  nn : ∀ sid ∈ s.stack, ∀ pl, Proc g s.states sid pl → hole ≠ some pl →
    getKid s.heap pl.1 pl.2 ≠ none ∨ ∃ z ∈ s.stack, sid < z ∧ Owes g s.states z pl
  table : ∀ pl r o node, (r, o, node) ∈ s.table.getD pl [] → node < s.heap.size ∧ rootId < node ∧
    (∃ nm c ks, s.heap.getD node .nil = .anode nm c ks) ∧ G.ty node = ⟨r, o, pl⟩
  terms : ∀ k node, s.termNodes.getD k none = some node → node < s.heap.size ∧
    ∃ a, toks[k]? = some a ∧ s.heap.getD node .nil = .term (g.termCodes.getD a 0) (k : Int)

end Yaep.MP
