import Yaep.Lemmas.MakeParseFlagBSNodup
/-!
# The ambiguity flag, part 9: what the start situations of a set of `build_pl` stand for

A start situation of the set at list position `j ≥ 1` is made by `build_new_set` from a scan or
from a completion with a completed situation whose origin is an *earlier* set: the symbol before
its dot covers a nonempty part of the input (`StartNE`).  The start situations of a set, with
their distances, are pairwise distinct.  This is kept as an invariant (`MultOK`) of every set of
the parse list of `BS.buildPLC`.
-/
namespace Yaep.BS
open Yaep

/-- the pair (start situation, distance) of the set at position `j`: the dot is not at the start,
the item with the dot one symbol back is in an earlier set `k`, and the symbol in between is a
terminal, or a nonterminal for which the set `j` has a completed item with origin `k` -/
def StartNE (g : Grammar) (plA : List (List Item)) (j : Nat) (p : Sit × Nat) : Prop :=
  1 ≤ p.2 ∧ p.2 ≤ j ∧ ∃ d0, p.1.2 = d0 + 1 ∧
    ((∃ a, g.nextSym p.1.1 d0 = some (.t a)) ∨
     (∃ k r' rl', k < j ∧ (⟨p.1.1, d0, j - p.2⟩ : Item) ∈ plA.getD k [] ∧
       g.rules[r']? = some rl' ∧ g.nextSym p.1.1 d0 = some (.n rl'.lhs) ∧
       (⟨r', rl'.rhs.length, k⟩ : Item) ∈ plA.getD j []))

theorem StartNE.mono {g : Grammar} {plA plA' : List (List Item)} {j : Nat} {p : Sit × Nat}
    (h : StartNE g plA j p) (he : ∀ i, i ≤ j → plA'.getD i [] = plA.getD i []) :
    StartNE g plA' j p := by
  obtain ⟨h1, h2, d0, h3, h4⟩ := h
  refine ⟨h1, h2, d0, h3, ?_⟩
  rcases h4 with h4 | ⟨k, r', rl', hk, hm, hr', hn, hc⟩
  · exact Or.inl h4
  · exact Or.inr ⟨k, r', rl', hk, by rw [he k (by omega)]; exact hm, hr', hn,
      by rw [he j (Nat.le_refl _)]; exact hc⟩

/-- the start situations of the start set: the rules of the axiom with the dot at the start -/
def Start0 (g : Grammar) (ns : NewStart) : Prop :=
  ∀ p ∈ ns, p.2 = 0 ∧ p.1.2 = 0 ∧ ∃ rl, g.rules[p.1.1]? = some rl ∧ rl.lhs = g.axiomN

/-- the multiplicity invariant of the set at list position `j` -/
def MultOK (g : Grammar) (an : Analysis) (plA : List (List Item)) (j : Nat) (cs : CSet) : Prop :=
  ∃ num ns, cs.core = expandNewStartSet g an (Core.fresh num (ns.map (·.1))) ∧
    cs.dists = ns.map (·.2) ∧ ns.Nodup ∧
    ((j = 0 ∧ Start0 g ns) ∨ (0 < j ∧ ∀ p ∈ ns, StartNE g plA j p))

theorem MultOK.mono {g : Grammar} {an : Analysis} {plA plA' : List (List Item)} {j : Nat} {cs : CSet}
    (h : MultOK g an plA j cs) (he : ∀ i, i ≤ j → plA'.getD i [] = plA.getD i []) :
    MultOK g an plA' j cs := by
  obtain ⟨num, ns, h1, h2, h3, h4⟩ := h
  refine ⟨num, ns, h1, h2, h3, ?_⟩
  rcases h4 with h4 | ⟨h4, h5⟩
  · exact Or.inl h4
  · exact Or.inr ⟨h4, fun p hp => (h5 p hp).mono he⟩

section NewSet
variable {g : Grammar} {an : Analysis} {ok : Nat → Nat → Bool} {plA : List (List Item)}
  {pl : List CSet} {a : Nat}

/-- the property of the pairs of the new set kept through the two loops of `build_new_set` -/
def PairNE (g : Grammar) (ok : Nat → Nat → Bool) (plA : List (List Item)) (a : Nat)
    (p : Sit × Nat) : Prop :=
  PairOK g ok plA a p ∧ StartNE g (plA ++ [nextSet g ok plA a]) plA.length p

theorem getD_snoc_lt {α : Type} (l : List α) (x d : α) {k : Nat} (h : k < l.length) :
    (l ++ [x]).getD k d = l.getD k d := by
  rw [List.getD_eq_getElem?_getD, List.getD_eq_getElem?_getD, List.getElem?_append_left h]

theorem getD_snoc_eq {α : Type} (l : List α) (x d : α) : (l ++ [x]).getD l.length d = x := by
  rw [List.getD_eq_getElem?_getD, List.getElem?_append_right (Nat.le_refl _)]
  simp

theorem pairNE_loop1 (h : PLOK g plA pl) (hne : pl ≠ []) :
    ∀ p ∈ newSetLoop1 ok (pl.getLastD default) (((pl.getLastD default).core.transOf (Sym.t a)).getD []),
      PairNE g ok plA a p := by
  intro p hp
  have hok := pairOK_loop1 (ok := ok) (a := a) h hne p hp
  refine ⟨hok, ?_⟩
  have hpos : 0 < pl.length := List.length_pos_iff.mpr hne
  have hk : pl.length - 1 < pl.length := by omega
  have hlast : pl.getLastD default = pl.getD (pl.length - 1) default :=
    getLastD_eq_getD pl _ _ (by omega)
  rw [newSetLoop1_eq, hlast] at hp
  rcases mem_addNew hp with hp | hp
  · cases hp
  · obtain ⟨ind, hind, hsh⟩ := List.mem_filterMap.mp hp
    obtain ⟨r, d, dist, rfl, _, hnx, _, _⟩ := shift_sound h hk hind hsh
    obtain ⟨_, h1, h2, _⟩ := hok
    exact ⟨h1, h2, d, rfl, Or.inl ⟨a, hnx⟩⟩

theorem pairNE_step (hnl : an.nl = g.nullable) (h : PLOK g plA pl) :
    ∀ ns i, (∀ p ∈ ns, PairNE g ok plA a p) → i < ns.length →
      ∀ p ∈ step2Pairs g an ok pl (pl.length - 1) ns i, PairNE g ok plA a p := by
  intro ns i hall hi p hp
  have hokp := pairOK_step (ok := ok) (a := a) hnl h ns i (fun q hq => (hall q hq).1) hi p hp
  refine ⟨hokp, ?_⟩
  have hcl := nextSet_closed (ok := ok) (a := a) h
  have hmemi : ns.getD i default ∈ ns := by
    rw [List.getD_eq_getElem?_getD, List.getElem?_eq_getElem hi]
    exact List.getElem_mem hi
  obtain ⟨⟨⟨rl, hrl, hd0⟩, h1, h2, hT⟩, _⟩ := hall _ hmemi
  unfold step2Pairs at hp
  generalize ns.getD i default = p0 at hp hrl hd0 h1 h2 hT
  obtain ⟨⟨r0, d0⟩, nd0⟩ := p0
  simp only at hrl hd0 h1 h2 hT
  simp only at hp
  split at hp
  · rename_i het
    split at hp
    · have hplace : pl.length - 1 + 1 - nd0 = plA.length - nd0 := by rw [h.len]; omega
      rw [hplace] at hp
      have hk : plA.length - nd0 < pl.length := by rw [← h.len]; omega
      obtain ⟨ind, hind, hsh⟩ := List.mem_filterMap.mp hp
      obtain ⟨r, d, dist, rfl, hokk, hnx, hmem, hle⟩ := shift_sound h hk hind hsh
      have hlhs : lhsOf g (r0, d0) = rl.lhs := by
        unfold lhsOf
        rw [List.getD_eq_getElem?_getD, hrl]; rfl
      rw [hlhs] at hnx
      have hall' : (rl.rhs.drop d0).all (symNullable g.nullable) = true := by
        unfold emptyTailP at het
        simp only [hrl] at het
        rw [← hnl]; exact het
      have hcomp := closed_skip_tail hcl hT hrl hd0 hall'
      obtain ⟨_, q1, q2, _⟩ := hokp
      refine ⟨q1, q2, d, rfl, Or.inr ⟨plA.length - nd0, r0, rl, by omega, ?_, hrl, hnx, ?_⟩⟩
      · rw [getD_snoc_lt _ _ _ (by omega)]
        simp only
        rw [show plA.length - (dist + nd0) = plA.length - nd0 - dist by omega]
        exact hmem
      · rw [getD_snoc_eq]
        exact hcomp
    · cases hp
  · cases hp

theorem newStarts_invNE (hnl : an.nl = g.nullable) (h : PLOK g plA pl) (hne : pl ≠ []) :
    NSInv g an ok pl (pl.length - 1) (PairNE g ok plA a)
      (newSetLoop1 ok (pl.getLastD default) (((pl.getLastD default).core.transOf (Sym.t a)).getD []))
      (newStarts g an ok pl a).1.length (newStarts g an ok pl a).1 := by
  unfold newStarts
  refine (newSetLoop2_spec (pairNE_step hnl h) (fun p hp => hp.1.in_univ h) ?_
    (pairNE_loop1 h hne) false).1
  rw [newSetLoop1_eq]
  exact addNew_nodup _ List.nodup_nil

/-- `build_new_set` establishes the multiplicity invariant for the new set -/
theorem buildNewSet_mult {tab : Tab} (hnl : an.nl = g.nullable) (htab : TabInv g an tab)
    (h : PLOK g plA pl) (hne : pl ≠ []) :
    MultOK g an (plA ++ [nextSet g ok plA a]) pl.length
      (buildNewSet g an ok tab pl (pl.getLastD default) (Sym.t a)).2 := by
  have hspec := insert_expand_spec htab (newStarts g an ok pl a).1
  have hinv := newStarts_invNE (ok := ok) (a := a) hnl h hne
  have hpos : 0 < pl.length := List.length_pos_iff.mpr hne
  have hunf : buildNewSet g an ok tab pl (pl.getLastD default) (Sym.t a) =
      let st := newStarts g an ok pl a
      let r := setInsert tab st.1
      let tab' : Tab := { r.1 with bad := r.1.bad || st.2 }
      if r.2.2 then
        (tab'.storeCore (expandNewStartSet g an r.2.1.core),
          { r.2.1 with core := expandNewStartSet g an r.2.1.core })
      else (tab', r.2.1) := rfl
  rw [hunf]
  dsimp only at hspec ⊢
  have key : ∀ {cs : CSet} {num : Nat},
      cs.dists = (newStarts g an ok pl a).1.map (·.2) →
      cs.core = expandNewStartSet g an (Core.fresh num ((newStarts g an ok pl a).1.map (·.1))) →
      MultOK g an (plA ++ [nextSet g ok plA a]) pl.length cs := by
    intro cs num hd hc
    refine ⟨num, _, hc, hd, hinv.nodup, Or.inr ⟨hpos, fun p hp => ?_⟩⟩
    have := (hinv.all p hp).2
    rw [h.len] at this
    exact this
  by_cases hnew : (setInsert tab (newStarts g an ok pl a).1).2.2 = true
  · rw [if_pos hnew] at hspec ⊢
    obtain ⟨_, hd, num, hc⟩ := hspec
    exact key hd hc
  · rw [if_neg hnew] at hspec ⊢
    obtain ⟨_, hd, num, hc⟩ := hspec
    exact key hd hc

end NewSet

theorem nodup_map_inj' {α β : Type} {f : α → β} (hinj : ∀ a b, f a = f b → a = b) :
    ∀ {l : List α}, l.Nodup → (l.map f).Nodup
  | [], _ => List.nodup_nil
  | a :: l, hl => by
    rw [List.map_cons, List.nodup_cons]
    rw [List.nodup_cons] at hl
    refine ⟨?_, nodup_map_inj' hinj hl.2⟩
    intro hm
    obtain ⟨b, hb, he⟩ := List.mem_map.mp hm
    have := hinj _ _ he
    subst this
    exact hl.1 hb

theorem nodup_reverse' {α : Type} {l : List α} (h : l.Nodup) : l.reverse.Nodup := by
  unfold List.Nodup at *
  rw [List.pairwise_reverse]
  exact h.imp (fun hne => Ne.symm hne)

/-- `build_start_set` establishes the multiplicity invariant for the start set -/
theorem buildStartSet_mult (g : Grammar) (an : Analysis) (plA : List (List Item)) :
    MultOK g an plA 0 (buildStartSet g an).2 := by
  rw [buildStartSet_unfold]
  dsimp only
  rw [foldl_addStartSit]
  simp only [setNewStart, List.nil_append]
  generalize hns : (rulesOf g g.axiomN).map (fun r => (((r, 0), 0) : Sit × Nat)) = ns
  have hspec := insert_expand_spec (TabInv_empty g an) ns
  obtain ⟨hd, _, hcase⟩ := setInsert_spec {} ns
  rcases hcase with ⟨_, ⟨i, hi⟩, _⟩ | ⟨hnew, hcore, hcores, hn⟩
  · simp at hi
  · dsimp only at hspec
    rw [hnew] at hspec
    simp only [if_true] at hspec
    obtain ⟨_, hdists, num, hc⟩ := hspec
    refine ⟨num, ns, hc, hdists, ?_, Or.inl ⟨rfl, ?_⟩⟩
    · rw [← hns]
      refine nodup_map_inj' ?_ ?_
      · intro x y hxy
        injection hxy with h1 _
        injection h1
      · unfold rulesOf
        exact nodup_reverse' (List.Pairwise.filter _ List.nodup_range)
    · intro p hp
      rw [← hns] at hp
      obtain ⟨r, hr, rfl⟩ := List.mem_map.mp hp
      obtain ⟨rl, h1, h2⟩ := mem_rulesOf.mp hr
      exact ⟨rfl, rfl, rl, h1, h2⟩

/-- the multiplicity invariant along the main loop of `build_pl` -/
theorem parseLoopC_mult (g : Grammar) (an : Analysis) (la : Nat) (hnl : an.nl = g.nullable) :
    ∀ (toks : List Nat) (tab : Tab) (pl : List CSet) (plA : List (List Item)) (k : Nat),
      TabInv g an tab → PLOK g plA pl → pl ≠ [] → (∀ cs ∈ pl, Expanded g an cs) →
      (∀ i, i < pl.length → MultOK g an plA i (pl.getD i default)) →
      ∀ i, i < (parseLoopC g an la toks tab pl k).2.2.length →
        MultOK g an (parseLoop g an la toks plA k).2 i
          ((parseLoopC g an la toks tab pl k).2.2.getD i default) := by
  intro toks
  induction toks with
  | nil => intro tab pl plA k _ _ _ _ hm; exact hm
  | cons a rest ih =>
    intro tab pl plA k ht h hne he hm
    rw [parseLoopC_cons]
    unfold parseLoop
    rw [find_iff_hasTrans h hne a]
    by_cases hT : hasTrans g (plA.getLastD []) a = true
    · rw [if_pos hT, if_pos hT]
      obtain ⟨h1, h2, h3, h4⟩ := buildNewSet_main (ok := okItem g an la rest.head?) (a := a) hnl ht h hne
      apply ih _ _ _ _ h1 (PLOK_snoc h h2 h4) (by simp)
      · intro cs hcs
        rcases List.mem_append.mp hcs with hcs | hcs
        · exact he cs hcs
        · rw [List.mem_singleton.mp hcs]; exact h3
      · intro i hi
        rw [List.length_append, List.length_singleton] at hi
        rcases Nat.lt_or_ge i pl.length with hlt | hge
        · rw [getD_snoc_lt _ _ _ hlt]
          refine (hm i hlt).mono ?_
          intro q hq
          exact getD_snoc_lt _ _ _ (by rw [h.len]; omega)
        · have : i = pl.length := by omega
          subst this
          rw [getD_snoc_eq]
          exact buildNewSet_mult hnl ht h hne
    · rw [if_neg hT, if_neg hT]
      exact hm

/-- every set of the parse list of `build_pl` satisfies the multiplicity invariant -/
theorem buildPLC_mult (g : Grammar) (la : Nat) (w : List Nat) :
    ∀ i, i < (buildPLC g la w).2.2.length →
      MultOK g g.analysis (buildPL g la w).2 i ((buildPLC g la w).2.2.getD i default) := by
  rw [buildPLC_eq]
  unfold buildPL
  obtain ⟨h1, h2, h3, h4⟩ := buildStartSet_main g g.analysis rfl
  apply parseLoopC_mult g g.analysis la rfl _ _ _ _ 0 h1
  · refine ⟨rfl, ?_, ?_⟩
    · intro k hk
      have : k = 0 := by simpa using hk
      subst this; simpa using h2
    · intro k hk it
      have : k = 0 := by simpa using hk
      subst this; simpa using h4 it
  · simp
  · intro cs hcs
    rw [List.mem_singleton.mp hcs]; exact h3
  · intro i hi
    have : i = 0 := by simpa using hi
    subst this
    simpa using buildStartSet_mult g g.analysis [set0 g]

end Yaep.BS
