import Yaep.Lemmas.PruneCFinal
/-!
# The loop that frees the collected cells
-/
namespace Yaep.PC
open Yaep

/-- NIL or ERROR cell -/
def isNE (h : Array Cell) (p : Nat) : Bool := isNilCell h p || isErrCell h p

/-- one iteration of the loop over `tnodes_vlo` -/
def freeStep (h : Array Cell) (nameBlk : Nat → Nat) (f : FSt) (p : Nat) : FSt :=
  if f.resv.contains (.cell p) then f
  else
    match cellAt h p with
    | .nil => { f with resv := .cell p :: f.resv, cleared := p :: f.cleared }
    | .err => { f with resv := .cell p :: f.resv, cleared := p :: f.cleared }
    | .anode _ _ _ =>
      if (Mem.cell p :: f.resv).contains (.name (nameBlk p)) then
        { f with resv := .cell p :: f.resv, frees := .cell p :: f.frees }
      else
        { f with resv := .name (nameBlk p) :: .cell p :: f.resv,
                 frees := .cell p :: .name (nameBlk p) :: f.frees }
    | _ => { f with resv := .cell p :: f.resv, frees := .cell p :: f.frees }

theorem freeLoop_cons (h : Array Cell) (nameBlk : Nat → Nat) (p : Nat) (ps : List Nat) (f : FSt) :
    freeLoop h nameBlk (p :: ps) f = freeLoop h nameBlk ps (freeStep h nameBlk f p) := by
  conv => lhs; unfold freeLoop
  unfold freeStep
  by_cases hr : f.resv.contains (.cell p) = true
  · simp only [hr, if_true]
  · simp only [hr, Bool.false_eq_true, if_false]
    cases hc : cellAt h p <;> simp only [] <;> (try split) <;> rfl

section
variable (h : Array Cell) (nameBlk : Nat → Nat)

theorem freeStep_resv (f : FSt) (p : Nat) (m : Mem) :
    m ∈ (freeStep h nameBlk f p).resv ↔
      m ∈ f.resv ∨ m = .cell p ∨
        (isAnode h p = true ∧ Mem.cell p ∉ f.resv ∧ m = .name (nameBlk p)) := by
  by_cases hr : Mem.cell p ∈ f.resv
  · simp only [freeStep, List.contains_eq_mem, hr, decide_true, if_true]
    grind
  · cases hc : cellAt h p with
    | anode nm c ks =>
      by_cases hn : Mem.name (nameBlk p) ∈ f.resv
      · simp [freeStep, hr, isAnode, hc, hn] <;> grind
      · simp [freeStep, hr, isAnode, hc, hn] <;> grind
    | _ => simp [freeStep, hr, isAnode, hc] <;> grind

theorem freeStep_frees (f : FSt) (p : Nat) (m : Mem) :
    m ∈ (freeStep h nameBlk f p).frees ↔
      m ∈ f.frees ∨ (Mem.cell p ∉ f.resv ∧
        ((m = .cell p ∧ isNE h p = false) ∨
         (isAnode h p = true ∧ m = .name (nameBlk p) ∧ Mem.name (nameBlk p) ∉ f.resv))) := by
  by_cases hr : Mem.cell p ∈ f.resv
  · simp only [freeStep, List.contains_eq_mem, hr, decide_true, if_true]
    grind
  · cases hc : cellAt h p with
    | anode nm c ks =>
      by_cases hn : Mem.name (nameBlk p) ∈ f.resv
      · simp [freeStep, hr, isAnode, isNE, isNilCell, isErrCell, hc, hn] <;> grind
      · simp [freeStep, hr, isAnode, isNE, isNilCell, isErrCell, hc, hn] <;> grind
    | _ => simp [freeStep, hr, isAnode, isNE, isNilCell, isErrCell, hc] <;> grind

theorem freeStep_cleared (f : FSt) (p q : Nat) :
    q ∈ (freeStep h nameBlk f p).cleared ↔
      q ∈ f.cleared ∨ (q = p ∧ Mem.cell p ∉ f.resv ∧ isNE h p = true) := by
  by_cases hr : Mem.cell p ∈ f.resv
  · simp only [freeStep, List.contains_eq_mem, hr, decide_true, if_true]
    grind
  · cases hc : cellAt h p with
    | anode nm c ks =>
      by_cases hn : Mem.name (nameBlk p) ∈ f.resv
      · simp [freeStep, hr, isNE, isNilCell, isErrCell, hc, hn] <;> grind
      · simp [freeStep, hr, isNE, isNilCell, isErrCell, hc, hn] <;> grind
    | _ => simp [freeStep, hr, isNE, isNilCell, isErrCell, hc] <;> grind

/-- everything freed or cleared is in the table, without repetition -/
def FOK (f : FSt) : Prop :=
  f.frees.Nodup ∧ (∀ m ∈ f.frees, m ∈ f.resv) ∧ f.cleared.Nodup ∧ (∀ q ∈ f.cleared, .cell q ∈ f.resv)

theorem freeStep_ok (f : FSt) (p : Nat) (hf : FOK f) : FOK (freeStep h nameBlk f p) := by
  obtain ⟨h1, h2, h3, h4⟩ := hf
  unfold freeStep
  split
  · exact ⟨h1, h2, h3, h4⟩
  · rename_i hc
    have hnc : Mem.cell p ∉ f.resv := by simpa using hc
    have hpf : Mem.cell p ∉ f.frees := fun hm => hnc (h2 _ hm)
    have hpc : p ∉ f.cleared := fun hm => hnc (h4 _ hm)
    split
    · exact ⟨h1, fun m hm => List.mem_cons_of_mem _ (h2 m hm), List.nodup_cons.2 ⟨hpc, h3⟩,
        fun q hq => by
          rcases List.mem_cons.1 hq with rfl | hq
          · simp
          · exact List.mem_cons_of_mem _ (h4 q hq)⟩
    · exact ⟨h1, fun m hm => List.mem_cons_of_mem _ (h2 m hm), List.nodup_cons.2 ⟨hpc, h3⟩,
        fun q hq => by
          rcases List.mem_cons.1 hq with rfl | hq
          · simp
          · exact List.mem_cons_of_mem _ (h4 q hq)⟩
    · split
      · exact ⟨List.nodup_cons.2 ⟨hpf, h1⟩, fun m hm => by
          rcases List.mem_cons.1 hm with rfl | hm
          · simp
          · exact List.mem_cons_of_mem _ (h2 m hm), h3,
          fun q hq => List.mem_cons_of_mem _ (h4 q hq)⟩
      · rename_i hn
        have hnn : Mem.name (nameBlk p) ∉ f.resv := by
          intro hm; apply hn; simp [hm]
        have hnf : Mem.name (nameBlk p) ∉ f.frees := fun hm => hnn (h2 _ hm)
        refine ⟨List.nodup_cons.2 ⟨?_, List.nodup_cons.2 ⟨hnf, h1⟩⟩, ?_, h3, ?_⟩
        · simp [hpf]
        · intro m hm
          rcases List.mem_cons.1 hm with rfl | hm
          · simp
          · rcases List.mem_cons.1 hm with rfl | hm
            · simp
            · exact List.mem_cons_of_mem _ (List.mem_cons_of_mem _ (h2 m hm))
        · intro q hq; exact List.mem_cons_of_mem _ (List.mem_cons_of_mem _ (h4 q hq))
    · exact ⟨List.nodup_cons.2 ⟨hpf, h1⟩, fun m hm => by
        rcases List.mem_cons.1 hm with rfl | hm
        · simp
        · exact List.mem_cons_of_mem _ (h2 m hm), h3,
        fun q hq => List.mem_cons_of_mem _ (h4 q hq)⟩

theorem freeLoop_ok : ∀ (coll : List Nat) (f : FSt), FOK f → FOK (freeLoop h nameBlk coll f)
  | [], f, hf => hf
  | p :: ps, f, hf => by
    rw [freeLoop_cons]; exact freeLoop_ok ps _ (freeStep_ok h nameBlk f p hf)

theorem freeLoop_cell : ∀ (coll : List Nat) (f : FSt) (q : Nat),
    Mem.cell q ∈ (freeLoop h nameBlk coll f).frees ↔
      Mem.cell q ∈ f.frees ∨ (q ∈ coll ∧ Mem.cell q ∉ f.resv ∧ isNE h q = false)
  | [], f, q => by simp [freeLoop]
  | p :: ps, f, q => by
    rw [freeLoop_cons, freeLoop_cell ps, freeStep_frees, freeStep_resv]
    by_cases e : q = p
    · subst e; simp <;> grind
    · simp [e] <;> grind

theorem freeLoop_name : ∀ (coll : List Nat) (f : FSt) (b : Nat),
    Mem.name b ∈ (freeLoop h nameBlk coll f).frees ↔
      Mem.name b ∈ f.frees ∨ (Mem.name b ∉ f.resv ∧
        ∃ p ∈ coll, isAnode h p = true ∧ Mem.cell p ∉ f.resv ∧ nameBlk p = b)
  | [], f, b => by simp [freeLoop]
  | p :: ps, f, b => by
    rw [freeLoop_cons, freeLoop_name ps, freeStep_frees, freeStep_resv]
    simp only [freeStep_resv]
    constructor
    · rintro (h1 | ⟨h1, p', hp', h2, h3, h4⟩)
      · rcases h1 with h1 | ⟨h1, h2⟩
        · exact Or.inl h1
        · rcases h2 with ⟨h2, _⟩ | ⟨h2, h3, h4⟩
          · cases h2
          · injection h3 with h3
            exact Or.inr ⟨by rw [h3]; exact h4, p, by simp, h2, h1, h3.symm⟩
      · refine Or.inr ⟨fun hm => h1 (Or.inl hm), p', List.mem_cons_of_mem _ hp', h2,
          fun hm => h3 (Or.inl hm), h4⟩
    · rintro (h1 | ⟨h1, p', hp', h2, h3, h4⟩)
      · exact Or.inl (Or.inl h1)
      · by_cases hA : isAnode h p = true ∧ Mem.cell p ∉ f.resv ∧ nameBlk p = b
        · left; right
          exact ⟨hA.2.1, Or.inr ⟨hA.1, by rw [hA.2.2], by rw [hA.2.2]; exact h1⟩⟩
        · right
          have hne : p' ≠ p := by
            intro e; subst e; exact hA ⟨h2, h3, h4⟩
          rcases List.mem_cons.1 hp' with rfl | hp'
          · exact absurd rfl hne
          · refine ⟨?_, p', hp', h2, ?_, h4⟩
            · rintro (hm | hm | ⟨a1, a2, a3⟩)
              · exact h1 hm
              · cases hm
              · injection a3 with a3
                exact hA ⟨a1, a2, a3.symm⟩
            · rintro (hm | hm | ⟨_, _, hm⟩)
              · exact h3 hm
              · injection hm with hm; exact hne hm
              · cases hm

theorem freeLoop_cleared : ∀ (coll : List Nat) (f : FSt) (q : Nat),
    q ∈ (freeLoop h nameBlk coll f).cleared ↔
      q ∈ f.cleared ∨ (q ∈ coll ∧ Mem.cell q ∉ f.resv ∧ isNE h q = true)
  | [], f, q => by simp [freeLoop]
  | p :: ps, f, q => by
    rw [freeLoop_cons, freeLoop_cleared ps, freeStep_cleared, freeStep_resv]
    by_cases e : q = p
    · subst e; simp <;> grind
    · simp [e] <;> grind

end

end Yaep.PC
