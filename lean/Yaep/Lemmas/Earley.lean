import Yaep.Model.Earley
import Yaep.Lemmas.Saturate
import Yaep.Spec.Der
import Yaep.Spec.EarleyF
import Yaep.Spec.WF
/-!
# The executable parse list computes the declarative Earley sets; soundness and
completeness of the declarative sets against `Der`
-/
namespace Yaep

/-! ## slices -/

@[simp] theorem slice_self (w : List Nat) (i : Nat) : slice w i i = [] := by simp [slice]

theorem slice_append (w : List Nat) {i j k : Nat} (h1 : i ≤ j) (h2 : j ≤ k) :
    slice w i j ++ slice w j k = slice w i k := by
  unfold slice
  have e : w.drop j = (w.drop i).drop (j - i) := by rw [List.drop_drop]; congr 1; omega
  have e2 : k - i = (j - i) + (k - j) := by omega
  rw [e, e2, List.take_add]

theorem slice_succ (w : List Nat) {j a} (h : w[j]? = some a) : slice w j (j+1) = [a] := by
  unfold slice
  obtain ⟨hl, he⟩ := List.getElem?_eq_some_iff.mp h
  have : j + 1 - j = 1 := by omega
  rw [this, List.drop_eq_getElem_cons hl]; simp [he]

theorem slice_zero_length (w : List Nat) : slice w 0 w.length = w := by simp [slice]

theorem slice_append_left (w v : List Nat) : slice (w ++ v) 0 w.length = w := by simp [slice]

theorem take_succ_of_getElem? {α} (l : List α) {d a} (h : l[d]? = some a) :
    l.take (d+1) = l.take d ++ [a] := by
  rw [List.take_add_one, h]; rfl

theorem drop_succ_of_drop_cons {α} {l : List α} {d x rest} (h : l.drop d = x :: rest) :
    l[d]? = some x ∧ l.drop (d+1) = rest := by
  constructor
  · have := congrArg (·[0]?) h; simpa using this
  · have : l.drop (d+1) = (l.drop d).drop 1 := by rw [List.drop_drop]
    rw [this, h]; rfl

theorem slice_cons {w : List Nat} {k a u m} (h : slice w k m = a :: u) :
    w[k]? = some a ∧ slice w (k+1) m = u ∧ k < m := by
  unfold slice at *
  have hm : 0 < m - k := by
    rcases Nat.eq_zero_or_pos (m - k) with h0 | h0
    · rw [h0] at h; simp at h
    · exact h0
  cases hdk : w.drop k with
  | nil => rw [hdk] at h; simp at h
  | cons x xs =>
    rw [hdk] at h
    have e : m - k = (m - (k+1)) + 1 := by omega
    rw [e, List.take_succ_cons] at h
    injection h with h1 h2
    obtain ⟨hx, hxs⟩ := drop_succ_of_drop_cons hdk
    refine ⟨by rw [hx, h1], by rw [hxs]; exact h2, by omega⟩

theorem slice_split {w : List Nat} {k m u v} (h : slice w k m = u ++ v) :
    slice w k (k + u.length) = u ∧ slice w (k + u.length) m = v := by
  induction u generalizing k with
  | nil => simpa using h
  | cons a u ih =>
    obtain ⟨ha, hrest, hlt⟩ := slice_cons (by simpa using h)
    obtain ⟨h1, h2⟩ := ih hrest
    have e : k + (a :: u).length = (k+1) + u.length := by simp; omega
    refine ⟨?_, ?_⟩
    · rw [e, ← slice_append w (Nat.le_succ k) (Nat.le_add_right _ _), slice_succ w ha, h1]; rfl
    · rw [e]; exact h2

/-! ## membership lemmas for the building blocks of the model -/

theorem nextSym_eq_some {g : Grammar} {r d : Nat} {X : Sym} :
    g.nextSym r d = some X ↔ ∃ rl, g.rules[r]? = some rl ∧ rl.rhs[d]? = some X := by
  unfold Grammar.nextSym
  split
  · rename_i rl h; simp [h]
  · rename_i h; simp [h]

theorem mem_rulesFor {g : Grammar} {A r : Nat} :
    r ∈ g.rulesFor A ↔ ∃ rl, g.rules[r]? = some rl ∧ rl.lhs = A := by
  unfold Grammar.rulesFor
  rw [List.mem_filter, List.mem_range]
  constructor
  · rintro ⟨hlt, h⟩
    split at h
    · rename_i rl hrl; exact ⟨rl, hrl, by simpa using h⟩
    · simp at h
  · rintro ⟨rl, hrl, hA⟩
    refine ⟨(List.getElem?_eq_some_iff.mp hrl).1, ?_⟩
    rw [hrl]; simpa using hA

theorem mem_predictItems {g : Grammar} {B j : Nat} {x : Item} :
    x ∈ g.predictItems B j ↔ ∃ r rl, g.rules[r]? = some rl ∧ rl.lhs = B ∧ x = ⟨r, 0, j⟩ := by
  unfold Grammar.predictItems
  rw [List.mem_map]
  constructor
  · rintro ⟨r, hr, rfl⟩
    obtain ⟨rl, h1, h2⟩ := mem_rulesFor.mp hr
    exact ⟨r, rl, h1, h2, rfl⟩
  · rintro ⟨r, rl, h1, h2, rfl⟩
    exact ⟨r, mem_rulesFor.mpr ⟨rl, h1, h2⟩, rfl⟩

theorem mem_initItems {g : Grammar} {x : Item} :
    x ∈ g.initItems ↔ ∃ r rl, g.rules[r]? = some rl ∧ rl.lhs = g.axiomN ∧ x = ⟨r, 0, 0⟩ :=
  mem_predictItems (B := g.axiomN) (j := 0)

theorem mem_advanceOver {g : Grammar} {X : Sym} {keep : Nat → Nat → Bool} {src : List Item}
    {x : Item} :
    x ∈ advanceOver g X keep src ↔
      ∃ p ∈ src, g.nextSym p.rule p.dot = some X ∧ keep p.rule (p.dot + 1) = true ∧
        x = ⟨p.rule, p.dot + 1, p.origin⟩ := by
  unfold advanceOver
  rw [List.mem_filterMap]
  constructor
  · rintro ⟨p, hp, h⟩
    split at h
    · rename_i hc
      injection h with h
      exact ⟨p, hp, hc.1, hc.2, h.symm⟩
    · exact absurd h (by simp)
  · rintro ⟨p, hp, h1, h2, rfl⟩
    exact ⟨p, hp, by rw [if_pos ⟨h1, h2⟩]⟩

theorem mem_closeStep {g : Grammar} {ok : Nat → Nat → Bool} {prev : List (List Item)} {j : Nat}
    {cur : List Item} {x : Item} :
    x ∈ closeStep g ok prev j cur ↔
      ∃ it ∈ cur, ∃ rl, g.rules[it.rule]? = some rl ∧
        ((∃ B, rl.rhs[it.dot]? = some (Sym.n B) ∧ x ∈ g.predictItems B j) ∨
         (rl.rhs[it.dot]? = none ∧ it.origin = j ∧
            x ∈ advanceOver g (Sym.n rl.lhs) (fun _ _ => true) cur) ∨
         (rl.rhs[it.dot]? = none ∧ it.origin ≠ j ∧
            x ∈ advanceOver g (Sym.n rl.lhs) ok (prev.getD it.origin []))) := by
  unfold closeStep
  rw [List.mem_flatMap]
  constructor
  · rintro ⟨it, hit, h⟩
    refine ⟨it, hit, ?_⟩
    split at h
    · simp at h
    · rename_i rl hrl
      refine ⟨rl, hrl, ?_⟩
      split at h
      · rename_i B hB; exact Or.inl ⟨B, hB, h⟩
      · simp at h
      · rename_i hn
        split at h
        · rename_i ho; exact Or.inr (Or.inl ⟨hn, ho, h⟩)
        · rename_i ho; exact Or.inr (Or.inr ⟨hn, ho, h⟩)
  · rintro ⟨it, hit, rl, hrl, h⟩
    refine ⟨it, hit, ?_⟩
    rw [hrl]
    rcases h with ⟨B, hB, h⟩ | ⟨hn, ho, h⟩ | ⟨hn, ho, h⟩
    · simp only [hB]; exact h
    · simp only [hn, if_pos ho]; exact h
    · simp only [hn, if_neg ho]; exact h

theorem hasTrans_iff {g : Grammar} {s : List Item} {a : Nat} :
    hasTrans g s a = true ↔ ∃ p ∈ s, g.nextSym p.rule p.dot = some (Sym.t a) := by
  unfold hasTrans
  rw [List.any_eq_true]
  constructor
  · rintro ⟨p, hp, h⟩; exact ⟨p, hp, by simpa using h⟩
  · rintro ⟨p, hp, h⟩; exact ⟨p, hp, by simpa using h⟩

/-! ## soundness of the declarative sets -/

/-- what every Earley item satisfies -/
def ItemSound (g : Grammar) (w : List Nat) (j : Nat) (it : Item) : Prop :=
  ∃ rl, g.rules[it.rule]? = some rl ∧ it.dot ≤ rl.rhs.length ∧ it.origin ≤ j ∧
    Der g (rl.rhs.take it.dot) (slice w it.origin j)

theorem EarleyF.sound {g : Grammar} {ok : Nat → Nat → Nat → Bool} {w : List Nat} {j : Nat}
    {it : Item} (h : EarleyF g ok w j it) : ItemSound g w j it := by
  induction h with
  | init hr _ => exact ⟨_, hr, Nat.zero_le _, Nat.le_refl _, by simpa using Der.nil⟩
  | @scan j r d i a _ hs hw _ ih =>
    obtain ⟨rl, hr, _, hle, hd⟩ := ih
    obtain ⟨rl', hr', hs'⟩ := nextSym_eq_some.mp hs
    simp only at hr hle hd
    rw [hr] at hr'; injection hr' with hr'; subst hr'
    have hlt := (List.getElem?_eq_some_iff.mp hs').1
    refine ⟨rl, hr, hlt, Nat.le_succ_of_le hle, ?_⟩
    simp only
    rw [take_succ_of_getElem? _ hs', ← slice_append w hle (Nat.le_succ _), slice_succ w hw]
    exact Der.append hd (Der.term Der.nil)
  | predict _ _ hr _ _ => exact ⟨_, hr, Nat.zero_le _, Nat.le_refl _, by simpa using Der.nil⟩
  | @complete j k r d i r' rl' hr' _ _ hs _ ih1 ih2 =>
    obtain ⟨rl1, hr1, _, hle1, hd1⟩ := ih1
    obtain ⟨rl, hr, _, hle, hd⟩ := ih2
    simp only at hr1 hle1 hd1 hr hle hd
    rw [hr'] at hr1; injection hr1 with hr1; subst hr1
    obtain ⟨rl2, hr2, hs'⟩ := nextSym_eq_some.mp hs
    rw [hr] at hr2; injection hr2 with hr2; subst hr2
    have hlt := (List.getElem?_eq_some_iff.mp hs').1
    refine ⟨rl, hr, hlt, Nat.le_trans hle hle1, ?_⟩
    simp only
    rw [take_succ_of_getElem? _ hs', ← slice_append w hle hle1]
    refine Der.append hd ?_
    rw [List.take_length] at hd1
    have := Der.nt (ss := []) (v := []) hr' hd1 Der.nil
    simpa using this

/-! ## the universe of items of set `j`, and the fuel -/

theorem foldl_max_ge (l : List Rule) (m : Nat) :
    m ≤ l.foldl (fun m r => max m r.rhs.length) m ∧
      ∀ r ∈ l, r.rhs.length ≤ l.foldl (fun m r => max m r.rhs.length) m := by
  induction l generalizing m with
  | nil => simp
  | cons a l ih =>
    obtain ⟨h1, h2⟩ := ih (max m a.rhs.length)
    simp only [List.foldl_cons]
    refine ⟨Nat.le_trans (Nat.le_max_left _ _) h1, ?_⟩
    intro r hr
    rcases List.mem_cons.mp hr with rfl | hr
    · exact Nat.le_trans (Nat.le_max_right _ _) h1
    · exact h2 r hr

theorem le_maxRhs {g : Grammar} {rl : Rule} (h : rl ∈ g.rules) : rl.rhs.length ≤ g.maxRhs :=
  (foldl_max_ge g.rules 0).2 rl h

def itemUniv (n m j : Nat) : List Item :=
  (List.range n).flatMap fun r =>
    (List.range (m + 1)).flatMap fun d => (List.range (j + 1)).map fun i => ⟨r, d, i⟩

theorem mem_itemUniv {n m j : Nat} {x : Item} :
    x ∈ itemUniv n m j ↔ x.rule < n ∧ x.dot ≤ m ∧ x.origin ≤ j := by
  unfold itemUniv
  simp only [List.mem_flatMap, List.mem_map, List.mem_range]
  constructor
  · rintro ⟨r, hr, d, hd, i, hi, rfl⟩
    exact ⟨hr, Nat.le_of_lt_succ hd, Nat.le_of_lt_succ hi⟩
  · rintro ⟨h1, h2, h3⟩
    exact ⟨x.rule, h1, x.dot, Nat.lt_succ_of_le h2, x.origin, Nat.lt_succ_of_le h3, rfl⟩

theorem length_flatMap_const {α β : Type} (l : List α) (f : α → List β) (c : Nat)
    (h : ∀ x ∈ l, (f x).length = c) : (l.flatMap f).length = l.length * c := by
  induction l with
  | nil => simp
  | cons a l ih =>
    rw [List.flatMap_cons, List.length_append, ih (fun x hx => h x (List.mem_cons_of_mem _ hx)),
      h a (List.mem_cons_self ..), List.length_cons, Nat.succ_mul, Nat.add_comm]

theorem length_itemUniv (n m j : Nat) : (itemUniv n m j).length = n * (m + 1) * (j + 1) := by
  unfold itemUniv
  rw [length_flatMap_const _ _ ((m + 1) * (j + 1)), List.length_range, Nat.mul_assoc]
  intro r _
  rw [length_flatMap_const _ _ (j + 1), List.length_range]
  intro d _
  rw [List.length_map, List.length_range]

/-- the fuel of `closeSet` exceeds the size of the universe -/
theorem length_itemUniv_lt_itemFuel (g : Grammar) (j : Nat) :
    (itemUniv g.rules.length g.maxRhs j).length < g.itemFuel j := by
  rw [length_itemUniv]; unfold Grammar.itemFuel; exact Nat.lt_succ_self _

theorem advance_in_univ {g : Grammar} {p : Item} {X : Sym} {j : Nat}
    (h : g.nextSym p.rule p.dot = some X) (ho : p.origin ≤ j) :
    (⟨p.rule, p.dot + 1, p.origin⟩ : Item) ∈ itemUniv g.rules.length g.maxRhs j := by
  obtain ⟨rl, hr, hs⟩ := nextSym_eq_some.mp h
  have h1 := (List.getElem?_eq_some_iff.mp hr).1
  have h2 := (List.getElem?_eq_some_iff.mp hs).1
  have h3 := le_maxRhs (List.mem_of_getElem? hr)
  exact mem_itemUniv.mpr ⟨h1, by simp only; omega, ho⟩

theorem ItemSound.in_univ {g : Grammar} {w : List Nat} {j : Nat} {it : Item}
    (h : ItemSound g w j it) : it ∈ itemUniv g.rules.length g.maxRhs j := by
  obtain ⟨rl, hr, hd, ho, _⟩ := h
  have h1 := (List.getElem?_eq_some_iff.mp hr).1
  have h3 := le_maxRhs (List.mem_of_getElem? hr)
  exact mem_itemUniv.mpr ⟨h1, Nat.le_trans hd h3, ho⟩

/-! ## one set: `closeSet` computes the declarative set -/

section CloseSet
variable {g : Grammar} {ok : Nat → Nat → Nat → Bool} {w : List Nat} {prev : List (List Item)}
  {j : Nat} {okj : Nat → Nat → Bool} {start : List Item}

theorem closeStep_sound
    (hprev : ∀ k, k < j → ∀ it, it ∈ prev.getD k [] → EarleyF g ok w k it)
    (hok : ∀ r d, 0 < j → okj r d = true → ok j r d = true)
    (cur : List Item) (hcur : ∀ x ∈ cur, EarleyF g ok w j x) :
    ∀ x ∈ closeStep g okj prev j cur, EarleyF g ok w j x := by
  intro x hx
  obtain ⟨⟨r', d', k⟩, hit, rl, hrl, h⟩ := mem_closeStep.mp hx
  have hE := hcur _ hit
  simp only at hrl h
  rcases h with ⟨B, hB, h⟩ | ⟨hn, ho, h⟩ | ⟨hn, ho, h⟩
  · obtain ⟨r, rl1, h1, h2, rfl⟩ := mem_predictItems.mp h
    exact EarleyF.predict hE (nextSym_eq_some.mpr ⟨rl, hrl, hB⟩) h1 h2
  · obtain ⟨⟨r, d, i⟩, hp, h1, _, rfl⟩ := mem_advanceOver.mp h
    obtain ⟨rl1, hr1, hd1, _, _⟩ := hE.sound
    simp only at hr1 hd1 h1
    rw [hrl] at hr1; injection hr1 with hr1; subst hr1
    have hge := List.getElem?_eq_none_iff.mp hn
    have hd : d' = rl.rhs.length := Nat.le_antisymm hd1 hge
    subst hd; subst ho
    exact EarleyF.complete hrl hE (hcur _ hp) h1 (fun hlt => absurd hlt (Nat.lt_irrefl _))
  · obtain ⟨⟨r, d, i⟩, hp, h1, h2, rfl⟩ := mem_advanceOver.mp h
    obtain ⟨rl1, hr1, hd1, ho1, _⟩ := hE.sound
    simp only at hr1 hd1 ho1 h1 h2
    rw [hrl] at hr1; injection hr1 with hr1; subst hr1
    have hge := List.getElem?_eq_none_iff.mp hn
    have hd : d' = rl.rhs.length := Nat.le_antisymm hd1 hge
    subst hd
    have hlt : k < j := Nat.lt_of_le_of_ne ho1 ho
    exact EarleyF.complete hrl hE (hprev k hlt _ hp) h1
      (fun _ => hok _ _ (Nat.lt_of_le_of_lt (Nat.zero_le _) hlt) h2)

theorem closeSet_sound
    (hprev : ∀ k, k < j → ∀ it, it ∈ prev.getD k [] → EarleyF g ok w k it)
    (hok : ∀ r d, 0 < j → okj r d = true → ok j r d = true)
    (hstart : ∀ x ∈ start, EarleyF g ok w j x) :
    ∀ x ∈ closeSet g okj prev j start, EarleyF g ok w j x := by
  unfold closeSet
  apply saturate_sound _ _ (closeStep_sound hprev hok)
  intro x hx
  rcases mem_addNew hx with h | h
  · exact absurd h (by simp)
  · exact hstart x h

theorem start_subset_closeSet : start ⊆ closeSet g okj prev j start := by
  intro x hx
  unfold closeSet
  exact subset_saturate _ _ _ (addNew_subset_right _ _ hx)

theorem closeSet_closed
    (hprevU : ∀ k, k < j → ∀ it ∈ prev.getD k [], it.origin ≤ j)
    (hstartU : start ⊆ itemUniv g.rules.length g.maxRhs j) :
    closeStep g okj prev j (closeSet g okj prev j start) ⊆ closeSet g okj prev j start := by
  unfold closeSet
  apply saturate_closed _ (itemUniv g.rules.length g.maxRhs j)
  · intro s hs x hx
    obtain ⟨it, hit, rl, hrl, h⟩ := mem_closeStep.mp hx
    rcases h with ⟨B, hB, h⟩ | ⟨hn, ho, h⟩ | ⟨hn, ho, h⟩
    · obtain ⟨r, rl1, h1, h2, rfl⟩ := mem_predictItems.mp h
      exact mem_itemUniv.mpr ⟨(List.getElem?_eq_some_iff.mp h1).1, Nat.zero_le _, Nat.le_refl _⟩
    · obtain ⟨p, hp, h1, _, rfl⟩ := mem_advanceOver.mp h
      exact advance_in_univ h1 (mem_itemUniv.mp (hs hp)).2.2
    · obtain ⟨p, hp, h1, _, rfl⟩ := mem_advanceOver.mp h
      have hlt : it.origin < j := Nat.lt_of_le_of_ne (mem_itemUniv.mp (hs hit)).2.2 ho
      exact advance_in_univ h1 (hprevU _ hlt _ hp)
  · intro x hx
    rcases mem_addNew hx with h | h
    · exact absurd h (by simp)
    · exact hstartU h
  · exact addNew_nodup _ List.nodup_nil
  · have := length_itemUniv_lt_itemFuel g j
    omega

/-- anything closed under `closeStep` that contains the initial / scanned items contains the
declarative set -/
theorem earleyF_subset_of_closed {S : List Item}
    (hprev : ∀ k, k < j → ∀ it, EarleyF g ok w k it → it ∈ prev.getD k [])
    (hok : ∀ r d, 0 < j → ok j r d = true → okj r d = true)
    (hclosed : closeStep g okj prev j S ⊆ S)
    (hinit : j = 0 → ∀ r rl, g.rules[r]? = some rl → rl.lhs = g.axiomN → (⟨r, 0, 0⟩ : Item) ∈ S)
    (hscan : ∀ j0 r d i a, j = j0 + 1 → EarleyF g ok w j0 ⟨r, d, i⟩ →
      g.nextSym r d = some (Sym.t a) → w[j0]? = some a → ok (j0 + 1) r (d + 1) = true →
      (⟨r, d + 1, i⟩ : Item) ∈ S) :
    ∀ j' it, EarleyF g ok w j' it → j' = j → it ∈ S := by
  intro j' it h
  induction h with
  | init hr hl => intro hj; exact hinit hj.symm _ _ hr hl
  | scan h hs hw hk _ => intro hj; exact hscan _ _ _ _ _ hj.symm h hs hw hk
  | @predict j1 r d i B r' rl' _ hs hr hl ih =>
    intro hj; subst hj
    obtain ⟨rl, hrl, hB⟩ := nextSym_eq_some.mp hs
    exact hclosed (mem_closeStep.mpr ⟨_, ih rfl, rl, hrl,
      Or.inl ⟨B, hB, mem_predictItems.mpr ⟨r', rl', hr, hl, rfl⟩⟩⟩)
  | @complete j1 k r d i r' rl' hr' h1 h2 hs hf ih1 ih2 =>
    intro hj; subst hj
    have hn : rl'.rhs[rl'.rhs.length]? = none := List.getElem?_eq_none_iff.mpr (Nat.le_refl _)
    obtain ⟨_, _, _, hle, _⟩ := h1.sound
    simp only at hle
    rcases Nat.eq_or_lt_of_le hle with heq | hlt
    · subst heq
      exact hclosed (mem_closeStep.mpr ⟨_, ih1 rfl, rl', hr', Or.inr (Or.inl ⟨hn, rfl,
        mem_advanceOver.mpr ⟨_, ih2 rfl, hs, rfl, rfl⟩⟩)⟩)
    · exact hclosed (mem_closeStep.mpr ⟨_, ih1 rfl, rl', hr', Or.inr (Or.inr ⟨hn, Nat.ne_of_lt hlt,
        mem_advanceOver.mpr ⟨_, hprev k hlt _ h2, hs,
          hok _ _ (Nat.lt_of_le_of_lt (Nat.zero_le _) hlt) (hf hlt), rfl⟩⟩)⟩)

theorem mem_closeSet_iff
    (hprev : ∀ k, k < j → ∀ it, it ∈ prev.getD k [] ↔ EarleyF g ok w k it)
    (hok : ∀ r d, 0 < j → okj r d = ok j r d)
    (hstart : ∀ x ∈ start, EarleyF g ok w j x)
    (hinit : j = 0 → ∀ r rl, g.rules[r]? = some rl → rl.lhs = g.axiomN →
      (⟨r, 0, 0⟩ : Item) ∈ start)
    (hscan : ∀ j0 r d i a, j = j0 + 1 → EarleyF g ok w j0 ⟨r, d, i⟩ →
      g.nextSym r d = some (Sym.t a) → w[j0]? = some a → ok (j0 + 1) r (d + 1) = true →
      (⟨r, d + 1, i⟩ : Item) ∈ start) :
    ∀ it, it ∈ closeSet g okj prev j start ↔ EarleyF g ok w j it := by
  intro it
  constructor
  · exact closeSet_sound (fun k hk it h => (hprev k hk it).mp h)
      (fun r d hj h => by rw [← hok r d hj]; exact h) hstart it
  · intro h
    refine earleyF_subset_of_closed (okj := okj) (S := closeSet g okj prev j start)
      (fun k hk it h => (hprev k hk it).mpr h)
      (fun r d hj h => by rw [hok r d hj]; exact h) ?_ ?_ ?_ j it h rfl
    · apply closeSet_closed
      · intro k hk it hit
        have := ((hprev k hk it).mp hit).sound
        obtain ⟨_, _, _, ho, _⟩ := this
        exact Nat.le_trans ho (Nat.le_of_lt hk)
      · intro x hx; exact (hstart x hx).sound.in_univ
    · intro hj r rl h1 h2; exact start_subset_closeSet (hinit hj r rl h1 h2)
    · intro j0 r d i a hj h1 h2 h3 h4
      exact start_subset_closeSet (hscan j0 r d i a hj h1 h2 h3 h4)

end CloseSet

/-! ## the parse list -/

/-- every set of the parse list `pl` is the declarative set -/
def PLInv (g : Grammar) (ok : Nat → Nat → Nat → Bool) (w : List Nat) (pl : List (List Item)) :
    Prop :=
  ∀ k, k < pl.length → ∀ it, it ∈ pl.getD k [] ↔ EarleyF g ok w k it

theorem mem_set0_iff (g : Grammar) (ok : Nat → Nat → Nat → Bool) (w : List Nat) (it : Item) :
    it ∈ set0 g ↔ EarleyF g ok w 0 it := by
  unfold set0
  apply mem_closeSet_iff
  · intro k hk; exact absurd hk (Nat.not_lt_zero _)
  · intro r d h; exact absurd h (Nat.lt_irrefl _)
  · intro x hx
    obtain ⟨r, rl, h1, h2, rfl⟩ := mem_initItems.mp hx
    exact EarleyF.init h1 h2
  · intro _ r rl h1 h2; exact mem_initItems.mpr ⟨r, rl, h1, h2, rfl⟩
  · intro j0 r d i a hj; exact absurd hj (by omega)

theorem PLInv_set0 (g : Grammar) (ok : Nat → Nat → Nat → Bool) (w : List Nat) :
    PLInv g ok w [set0 g] := by
  intro k hk it
  have : k = 0 := by simpa using hk
  subst this
  simpa using mem_set0_iff g ok w it

theorem getLastD_eq_getD {α} (pl : List α) (k : Nat) (d : α) (h : pl.length = k + 1) :
    pl.getLastD d = pl.getD k d := by
  rw [List.getLastD_eq_getLast?, List.getLast?_eq_getElem?, List.getD_eq_getElem?_getD, h]
  rfl

theorem mem_nextSet_iff {g : Grammar} {ok : Nat → Nat → Nat → Bool} {w : List Nat}
    {pl : List (List Item)} {k a : Nat} (hlen : pl.length = k + 1) (hinv : PLInv g ok w pl)
    (hw : w[k]? = some a) (it : Item) :
    it ∈ nextSet g (ok (k + 1)) pl a ↔ EarleyF g ok w (k + 1) it := by
  unfold nextSet
  rw [hlen, getLastD_eq_getD pl k [] hlen]
  have hk : k < pl.length := by omega
  apply mem_closeSet_iff
  · intro k' hk'; exact hinv k' (by omega)
  · intro r d _; rfl
  · intro x hx
    obtain ⟨⟨r, d, i⟩, hp, h1, h2, rfl⟩ := mem_advanceOver.mp hx
    exact EarleyF.scan ((hinv k hk _).mp hp) h1 hw h2
  · intro hj; exact absurd hj (by omega)
  · intro j0 r d i a' hj h1 h2 h3 h4
    have : j0 = k := by omega
    subst this
    rw [hw] at h3; injection h3 with h3; subst h3
    exact mem_advanceOver.mpr ⟨_, (hinv _ hk _).mpr h1, h2, h4, rfl⟩

theorem PLInv_snoc {g : Grammar} {ok : Nat → Nat → Nat → Bool} {w : List Nat}
    {pl : List (List Item)} {s : List Item} (hinv : PLInv g ok w pl)
    (hs : ∀ it, it ∈ s ↔ EarleyF g ok w pl.length it) : PLInv g ok w (pl ++ [s]) := by
  intro k hk it
  rw [List.length_append, List.length_singleton] at hk
  rw [List.getD_eq_getElem?_getD]
  rcases Nat.lt_or_ge k pl.length with hlt | hge
  · rw [List.getElem?_append_left hlt, ← List.getD_eq_getElem?_getD]
    exact hinv k hlt it
  · have : k = pl.length := by omega
    subst this
    rw [List.getElem?_append_right (Nat.le_refl _)]
    simpa using hs it

theorem hasTrans_iff_HasTransF {g : Grammar} {ok : Nat → Nat → Nat → Bool} {w : List Nat}
    {pl : List (List Item)} {k a : Nat} (hlen : pl.length = k + 1) (hinv : PLInv g ok w pl)
    (hw : w[k]? = some a) :
    hasTrans g (pl.getLastD []) a = true ↔ HasTransF g ok w k := by
  rw [getLastD_eq_getD pl k [] hlen, hasTrans_iff]
  have hk : k < pl.length := by omega
  constructor
  · rintro ⟨⟨r, d, i⟩, hp, h⟩
    exact ⟨r, d, i, a, (hinv k hk _).mp hp, hw, h⟩
  · rintro ⟨r, d, i, a', h1, h2, h3⟩
    rw [hw] at h2; injection h2 with h2; subst h2
    exact ⟨_, (hinv k hk _).mpr h1, h3⟩

/-- what `parseLoop` returns, in terms of the declarative sets -/
theorem parseLoop_spec (g : Grammar) (an : Analysis) (la : Nat) (w' : List Nat) :
    ∀ (toks : List Nat) (pl : List (List Item)) (k : Nat), w'.drop k = toks → k ≤ w'.length →
      pl.length = k + 1 → PLInv g (laFilter g an la w') w' pl →
      (∀ m, m < k → HasTransF g (laFilter g an la w') w' m) →
      PLInv g (laFilter g an la w') w' (parseLoop g an la toks pl k).2 ∧
      ((parseLoop g an la toks pl k).1 = none →
        (parseLoop g an la toks pl k).2.length = w'.length + 1 ∧
        ∀ m, m < w'.length → HasTransF g (laFilter g an la w') w' m) ∧
      (∀ e, (parseLoop g an la toks pl k).1 = some e →
        (parseLoop g an la toks pl k).2.length = e + 1 ∧ e < w'.length ∧
        ¬ HasTransF g (laFilter g an la w') w' e ∧
        ∀ m, m < e → HasTransF g (laFilter g an la w') w' m) := by
  intro toks
  induction toks with
  | nil =>
    intro pl k hdrop hk hlen hinv htr
    have hge : w'.length ≤ k := List.drop_eq_nil_iff.mp hdrop
    have hke : k = w'.length := Nat.le_antisymm hk hge
    unfold parseLoop
    refine ⟨hinv, ?_, ?_⟩
    · intro _; exact ⟨by rw [hlen, hke], by rw [← hke]; exact htr⟩
    · intro e he; exact absurd he (by simp)
  | cons a rest ih =>
    intro pl k hdrop hk hlen hinv htr
    obtain ⟨hw, hrest⟩ := drop_succ_of_drop_cons hdrop
    have hklt : k < w'.length := (List.getElem?_eq_some_iff.mp hw).1
    unfold parseLoop
    by_cases hT : hasTrans g (pl.getLastD []) a = true
    · rw [if_pos hT]
      have hTF := (hasTrans_iff_HasTransF hlen hinv hw).mp hT
      have hhead : rest.head? = w'[k + 1]? := by rw [← hrest, List.head?_drop]
      have hokeq : okItem g an la rest.head? = laFilter g an la w' (k + 1) := by
        rw [hhead]; rfl
      rw [hokeq]
      apply ih _ _ hrest hklt (by rw [List.length_append, hlen]; rfl)
      · apply PLInv_snoc hinv
        rw [hlen]
        exact mem_nextSet_iff hlen hinv hw
      · intro m hm
        rcases Nat.eq_or_lt_of_le (Nat.le_of_lt_succ hm) with heq | hlt
        · rw [heq]; exact hTF
        · exact htr m hlt
    · rw [if_neg hT]
      refine ⟨hinv, ?_, ?_⟩
      · intro h; exact absurd h (by simp)
      · intro e he
        have : k = e := by simpa using he
        subst this
        exact ⟨hlen, hklt, fun h => hT ((hasTrans_iff_HasTransF hlen hinv hw).mpr h), htr⟩

/-- `buildPL` in terms of the declarative sets (every lookahead level) -/
theorem buildPL_spec (g : Grammar) (la : Nat) (w : List Nat) :
    PLInv g (laFilter g g.analysis la (w ++ [g.eofT])) (w ++ [g.eofT]) (buildPL g la w).2 ∧
    ((buildPL g la w).1 = none →
      (buildPL g la w).2.length = (w ++ [g.eofT]).length + 1 ∧
      ∀ m, m < (w ++ [g.eofT]).length →
        HasTransF g (laFilter g g.analysis la (w ++ [g.eofT])) (w ++ [g.eofT]) m) ∧
    (∀ e, (buildPL g la w).1 = some e →
      (buildPL g la w).2.length = e + 1 ∧ e < (w ++ [g.eofT]).length ∧
      ¬ HasTransF g (laFilter g g.analysis la (w ++ [g.eofT])) (w ++ [g.eofT]) e ∧
      ∀ m, m < e → HasTransF g (laFilter g g.analysis la (w ++ [g.eofT])) (w ++ [g.eofT]) m) := by
  unfold buildPL
  exact parseLoop_spec g g.analysis la (w ++ [g.eofT]) _ _ 0 rfl (Nat.zero_le _) rfl
    (PLInv_set0 _ _ _) (fun m hm => absurd hm (Nat.not_lt_zero _))

theorem buildPL_none_iff (g : Grammar) (la : Nat) (w : List Nat) :
    (buildPL g la w).1 = none ↔ ∀ m, m < (w ++ [g.eofT]).length →
      HasTransF g (laFilter g g.analysis la (w ++ [g.eofT])) (w ++ [g.eofT]) m := by
  obtain ⟨_, h1, h2⟩ := buildPL_spec g la w
  constructor
  · intro h; exact (h1 h).2
  · intro h
    cases hres : (buildPL g la w).1 with
    | none => rfl
    | some e =>
      obtain ⟨_, he, hn, _⟩ := h2 e hres
      exact absurd (h e he) hn

theorem buildPL_some_iff (g : Grammar) (la : Nat) (w : List Nat) (e : Nat) :
    (buildPL g la w).1 = some e ↔ e < (w ++ [g.eofT]).length ∧
      ¬ HasTransF g (laFilter g g.analysis la (w ++ [g.eofT])) (w ++ [g.eofT]) e ∧
      ∀ m, m < e → HasTransF g (laFilter g g.analysis la (w ++ [g.eofT])) (w ++ [g.eofT]) m := by
  obtain ⟨_, h1, h2⟩ := buildPL_spec g la w
  constructor
  · intro h; exact (h2 e h).2
  · rintro ⟨he, hn, hall⟩
    cases hres : (buildPL g la w).1 with
    | none => exact absurd ((h1 hres).2 e he) hn
    | some e' =>
      obtain ⟨_, he', hn', hall'⟩ := h2 e' hres
      rcases Nat.lt_trichotomy e e' with hlt | heq | hgt
      · exact absurd (hall' e hlt) hn
      · rw [heq]
      · exact absurd (hall e' hgt) hn'

theorem accepts_iff (g : Grammar) (la : Nat) (w : List Nat) :
    accepts g la w = true ↔ ∀ m, m < (w ++ [g.eofT]).length →
      HasTransF g (laFilter g g.analysis la (w ++ [g.eofT])) (w ++ [g.eofT]) m := by
  unfold accepts
  rw [Option.isNone_iff_eq_none]
  exact buildPL_none_iff g la w

/-! ## completeness of the unfiltered sets -/

theorem laFilter_zero (g : Grammar) (an : Analysis) (w' : List Nat) (j r d : Nat) :
    laFilter g an 0 w' j r d = true := by
  unfold laFilter okItem; rfl

/-- Completeness, generalised over a derivation of a segment of a right-hand side; every
position inside the derived segment has a transition on its token. -/
theorem completeness_aux {g : Grammar} {ok : Nat → Nat → Nat → Bool} {w : List Nat}
    (hok : ∀ j r d, ok j r d = true) {β : List Sym} {u : List Nat} (hd : Der g β u) :
    ∀ (r d i k : Nat) (rest : List Sym) (rl : Rule), EarleyF g ok w k ⟨r, d, i⟩ →
      g.rules[r]? = some rl → rl.rhs.drop d = β ++ rest → slice w k (k + u.length) = u →
      EarleyF g ok w (k + u.length) ⟨r, d + β.length, i⟩ ∧
      ∀ m, k ≤ m → m < k + u.length → HasTransF g ok w m := by
  induction hd with
  | nil =>
    intro r d i k rest rl h _ _ _
    exact ⟨by simpa using h, fun m h1 h2 => absurd h2 (by simp only [List.length_nil]; omega)⟩
  | @term a ss w1 _ ih =>
    intro r d i k rest rl h hr hrest hs
    obtain ⟨hsym, hdrop⟩ := drop_succ_of_drop_cons (by simpa using hrest)
    obtain ⟨hw, hs', _⟩ := slice_cons (by simpa using hs)
    have hns : g.nextSym r d = some (Sym.t a) := nextSym_eq_some.mpr ⟨rl, hr, hsym⟩
    have h1 := EarleyF.scan h hns hw (hok _ _ _)
    have e1 : k + 1 + w1.length = k + (a :: w1).length := by simp only [List.length_cons]; omega
    have e2 : d + 1 + ss.length = d + (Sym.t a :: ss).length := by
      simp only [List.length_cons]; omega
    obtain ⟨hE, hT⟩ := ih r (d+1) i (k+1) rest rl h1 hr hdrop (by rw [e1]; exact hs')
    rw [e1, e2] at hE
    refine ⟨hE, ?_⟩
    intro m hm1 hm2
    rcases Nat.eq_or_lt_of_le hm1 with heq | hlt
    · subst heq; exact ⟨r, d, i, a, h, hw, hns⟩
    · exact hT m hlt (by rw [e1]; exact hm2)
  | @nt r' rl' ss u' v' hr' _ _ ih1 ih2 =>
    intro r d i k rest rl h hr hrest hs
    obtain ⟨hsym, hdrop⟩ := drop_succ_of_drop_cons (by simpa using hrest)
    have hns : g.nextSym r d = some (Sym.n rl'.lhs) := nextSym_eq_some.mpr ⟨rl, hr, hsym⟩
    have hlen : k + (u' ++ v').length = (k + u'.length) + v'.length := by
      simp only [List.length_append]; omega
    rw [hlen] at hs
    obtain ⟨hs1, hs2⟩ := slice_split hs
    have hp := EarleyF.predict h hns hr' rfl
    obtain ⟨hc, hT1⟩ := ih1 r' 0 k k [] rl' hp hr' (by simp) hs1
    rw [Nat.zero_add] at hc
    have hcomp := EarleyF.complete hr' hc h hns (fun _ => hok _ _ _)
    obtain ⟨hE, hT2⟩ := ih2 r (d+1) i (k + u'.length) rest rl hcomp hr hdrop hs2
    have e2 : d + 1 + ss.length = d + (Sym.n rl'.lhs :: ss).length := by
      simp only [List.length_cons]; omega
    rw [← hlen, e2] at hE
    refine ⟨hE, ?_⟩
    intro m hm1 hm2
    rcases Nat.lt_or_ge m (k + u'.length) with hlt | hge
    · exact hT1 m hm1 hlt
    · exact hT2 m hge (by rw [← hlen]; exact hm2)

/-! ## consequences of well-formedness -/

theorem Grammar.WF.rule0 {g : Grammar} (h : g.WF) :
    ∃ r0, g.rules[0]? = some r0 ∧ r0.lhs = g.axiomN ∧ r0.rhs = [Sym.n g.startN, Sym.t g.eofT] := by
  have h0 := h.1
  cases hr : g.rules[0]? with
  | none => rw [hr] at h0; simp at h0
  | some r0 =>
    rw [hr] at h0
    simp only [Option.map_some, Option.some.injEq, Prod.mk.injEq] at h0
    exact ⟨r0, rfl, h0.1, h0.2⟩

/-- items of the rules for `$S` start at position 0 -/
theorem EarleyF.axiom_origin {g : Grammar} (hwf : g.WF) {ok : Nat → Nat → Nat → Bool}
    {w : List Nat} {j : Nat} {it : Item} (h : EarleyF g ok w j it) :
    ∀ rl, g.rules[it.rule]? = some rl → rl.lhs = g.axiomN → it.origin = 0 := by
  induction h with
  | init _ _ => intro _ _ _; rfl
  | scan _ _ _ _ ih => exact ih
  | @predict j r d i B r' rl' h hs hr hl _ =>
    intro rl hrl hax
    simp only at hrl
    rw [hr] at hrl; injection hrl with hrl; subst hrl
    obtain ⟨rl0, hr0, hs0⟩ := nextSym_eq_some.mp hs
    have hmem : Sym.n B ∈ rl0.rhs := List.mem_of_getElem? hs0
    rw [← hl, hax] at hmem
    exact absurd hmem (hwf.2.2.1 rl0 (List.mem_of_getElem? hr0))
  | complete _ _ _ _ _ _ ih2 => exact ih2

/-- the sets up to `j` depend only on the first `j` tokens -/
theorem EarleyF.congr_prefix {g : Grammar} {ok : Nat → Nat → Nat → Bool} {w1 w2 : List Nat}
    {j : Nat} {it : Item} (h : EarleyF g ok w1 j it) :
    (∀ m, m < j → w1[m]? = w2[m]?) → EarleyF g ok w2 j it := by
  induction h with
  | init hr hl => intro _; exact EarleyF.init hr hl
  | @scan j r d i a _ hs hw hk ih =>
    intro hp
    refine EarleyF.scan (ih (fun m hm => hp m (Nat.lt_succ_of_lt hm))) hs ?_ hk
    rw [← hp j (Nat.lt_succ_self _)]; exact hw
  | predict _ hs hr hl ih => intro hp; exact EarleyF.predict (ih hp) hs hr hl
  | @complete j k r d i r' rl' hr' h1 _ hs hf ih1 ih2 =>
    intro hp
    obtain ⟨_, _, _, hle, _⟩ := h1.sound
    simp only at hle
    exact EarleyF.complete hr' (ih1 hp) (ih2 (fun m hm => hp m (Nat.lt_of_lt_of_le hm hle))) hs hf

theorem HasTransF.congr_prefix {g : Grammar} {ok : Nat → Nat → Nat → Bool} {w1 w2 : List Nat}
    {k : Nat} (h : HasTransF g ok w1 k) (hp : ∀ m, m ≤ k → w1[m]? = w2[m]?) :
    HasTransF g ok w2 k := by
  obtain ⟨r, d, i, a, h1, h2, h3⟩ := h
  exact ⟨r, d, i, a, h1.congr_prefix (fun m hm => hp m (Nat.le_of_lt hm)),
    by rw [← hp k (Nat.le_refl _)]; exact h2, h3⟩

/-- completeness: if `$S`'s right-hand side `start $eof` derives the token string `x`, the
unfiltered sets have a transition at every position of `x` -/
theorem trans_of_der_axiom {g : Grammar} (hwf : g.WF) {ok : Nat → Nat → Nat → Bool}
    (hok : ∀ j r d, ok j r d = true) {x : List Nat}
    (hd : Der g [Sym.n g.startN, Sym.t g.eofT] x) :
    ∀ m, m < x.length → HasTransF g ok x m := by
  obtain ⟨r0, hr0, hl0, hrhs⟩ := hwf.rule0
  have h0 : EarleyF g ok x 0 ⟨0, 0, 0⟩ := EarleyF.init hr0 hl0
  have := (completeness_aux hok hd 0 0 0 0 [] r0 h0 hr0 (by rw [hrhs]; rfl)
    (by rw [Nat.zero_add]; exact slice_zero_length x)).2
  intro m hm
  exact this m (Nat.zero_le _) (by rw [Nat.zero_add]; exact hm)

theorem der_axiom_of_sentence {g : Grammar} {w : List Nat} (h : Sentence g w) :
    Der g [Sym.n g.startN, Sym.t g.eofT] (w ++ [g.eofT]) :=
  Der.append (α := [Sym.n g.startN]) (β := [Sym.t g.eofT]) h (Der.term Der.nil)

theorem der_term_singleton {g : Grammar} {a : Nat} {w : List Nat} (h : Der g [Sym.t a] w) :
    w = [a] := by
  cases h with
  | term h' => cases h'; rfl

/-- soundness: a transition on the end marker in set `|w|` means `w` is a sentence -/
theorem sentence_of_trans_eof {g : Grammar} (hwf : g.WF) {ok : Nat → Nat → Nat → Bool}
    {w : List Nat} (herr : g.errT ∉ w)
    (h : HasTransF g ok (w ++ [g.eofT]) w.length) : Sentence g w := by
  obtain ⟨r, d, i, a, hE, hw, hns⟩ := h
  have ha : a = g.eofT := by
    rw [List.getElem?_append_right (Nat.le_refl _), Nat.sub_self] at hw
    simpa using hw.symm
  subst ha
  obtain ⟨rl, hr, hs⟩ := nextSym_eq_some.mp hns
  have hmem : rl ∈ g.rules := List.mem_of_getElem? hr
  have hax : rl.lhs = g.axiomN := hwf.2.2.2.1 rl hmem (List.mem_of_getElem? hs)
  have hi : i = 0 := hE.axiom_origin hwf rl hr hax
  subst hi
  obtain ⟨rl1, hr1, _, _, hder⟩ := hE.sound
  simp only at hr1 hder
  rw [hr] at hr1; injection hr1 with hr1; subst hr1
  rw [slice_append_left] at hder
  obtain ⟨hrlt, hrl⟩ := List.getElem?_eq_some_iff.mp hr
  have hcases := hwf.2.1 r hrlt (by rw [hrl]; exact hax)
  rw [hrl] at hcases
  rcases hcases with h0 | herrR
  · subst h0
    obtain ⟨r0, hr0, _, hrhs⟩ := hwf.rule0
    rw [hr] at hr0; injection hr0 with hr0; subst hr0
    rw [hrhs] at hs hder
    match d, hs, hder with
    | 0, hs, _ => simp at hs
    | 1, _, hder => exact hder
    | d + 2, hs, _ => simp at hs
  · rw [herrR] at hs hder
    match d, hs, hder with
    | 0, hs, _ =>
      simp only [List.getElem?_cons_zero, Option.some.injEq, Sym.t.injEq] at hs
      exact absurd hs hwf.2.2.2.2.1
    | 1, _, hder =>
      have := der_term_singleton hder
      exact absurd (by rw [this]; exact List.mem_singleton.mpr rfl) herr
    | d + 2, hs, _ => simp at hs

end Yaep
