import Yaep.Lemmas.MakeParseAmb
/-!
# The ambiguity flag, part 12: soundness (one parse) over a parse list that may repeat items

`MakeParseAmb.lean` proves that the flag implies two derivations if no set repeats a situation.
Here the hypothesis is weakened to `DupOK`: a *completed* item held at two different indices of a
set stands for two different derivations of the right-hand side of its rule (which is what the sets
of `build_pl` satisfy, `BS.dup_two_kids`).
-/
namespace Yaep.MP
open Yaep

/-- a completed item held twice by a set has two different derivations -/
def DupOK (g : Grammar) (toks : List Nat) (c : Ctx) : Prop :=
  ∀ (j i1 i2 : Nat) (rl : Rule), i1 ≠ i2 → i1 < (c.sets.getD j #[]).size →
    i2 < (c.sets.getD j #[]).size →
    (c.sets.getD j #[]).getD i1 default = (c.sets.getD j #[]).getD i2 default →
    g.rules[((c.sets.getD j #[]).getD i1 default).rule]? = some rl →
    ((c.sets.getD j #[]).getD i1 default).dot = rl.rhs.length →
    ∃ k1 k2, k1 ≠ k2 ∧
      PT.ValidListAt g toks k1 rl.rhs ((c.sets.getD j #[]).getD i1 default).origin j ∧
      PT.ValidListAt g toks k2 rl.rhs ((c.sets.getD j #[]).getD i1 default).origin j

theorem two_derivs_dup {g : Grammar} {ok : Nat → Nat → Nat → Bool} {toks : List Nat} {c : Ctx} {s : St}
    (hc : CtxOK g ok toks c) (hdup : DupOK g toks c)
    (hgood : Good g ok toks s) {sid : Nat} {rest : List Nat} {A : Nat}
    (hst : s.stack = sid :: rest) (hpos : (s.state sid).pos ≠ 0)
    (hsym : (c.rule (s.state sid).rule).rhs.getD ((s.state sid).pos - 1) (.t 0) = .n A)
    {i1 i2 : Nat} (m1 : i1 ∈ reduces c (c.sets.getD (s.state sid).plInd #[]) A)
    (m2 : i2 ∈ reduces c (c.sets.getD (s.state sid).plInd #[]) A) (hne : i1 ≠ i2)
    (f1 : checkFound c (ntLoc c s sid A)
      ((c.sets.getD (s.state sid).plInd #[]).getD i1 default).origin = true)
    (f2 : checkFound c (ntLoc c s sid A)
      ((c.sets.getD (s.state sid).plInd #[]).getD i2 default).origin = true) :
    TwoDer g toks := by
  rcases hgood.main with ⟨he, _⟩ | ⟨frs, htop⟩
  · rw [hst] at he; cases he
  rw [hst] at htop
  cases frs with
  | nil => simp [TopOK] at htop
  | cons fr frs =>
  simp only [TopOK] at htop
  have est : s.states.getD sid default = s.state sid := rfl
  rw [est] at htop
  obtain ⟨_, _, rl, pa, t3, t4, _, t6, t7, _, tm⟩ := htop
  rw [if_neg hpos] at t7
  have hrule := hc.rule_eq t3
  rw [hrule] at hsym
  have hlt : (s.state sid).pos - 1 < rl.rhs.length := by omega
  have hX : rl.rhs[(s.state sid).pos - 1]? = some (.n A) := by
    rw [List.getD_eq_getElem?_getD, List.getElem?_eq_getElem hlt] at hsym
    rw [List.getElem?_eq_getElem hlt]
    simpa using hsym
  have hpp : (s.state sid).pos - 1 + 1 = (s.state sid).pos := by omega
  have hbelow : ∃ hi' tgt', BelowOK g ok toks s.heap s.states rest frs hi' sid tgt' rl.lhs
      (s.state sid).orig fr.fin := by
    split at tm
    · obtain ⟨_, _, _, m4⟩ := tm; exact ⟨_, _, m4⟩
    · obtain ⟨_, m4⟩ := tm; exact ⟨_, _, m4⟩
  obtain ⟨hi', tgt', hb'⟩ := hbelow
  obtain ⟨C, hinj, hC⟩ := hb'.ctx
  obtain ⟨sr1, so1, rl1, kids1, e1, hr1, _, hl1, hE1, hk1, hkl1, hP1⟩ := cand_facts hc m1 f1
  obtain ⟨sr2, so2, rl2, kids2, e2, hr2, _, hl2, hE2, hk2, _, hP2⟩ := cand_facts hc m2 f2
  obtain ⟨pre1, hpre1⟩ := EarleyF.prefix_valid t3 hP1
  obtain ⟨pre2, hpre2⟩ := EarleyF.prefix_valid t3 hP2
  have hrhs : rl.rhs = rl.rhs.take ((s.state sid).pos - 1) ++
      (Sym.n A :: rl.rhs.drop (s.state sid).pos) := by
    have := drop_of_getElem? hX
    rw [hpp] at this
    rw [← this, List.take_append_drop]
  have hnode : ∀ {pre : List PT} {ptA : PT} {k : Nat},
      PT.ValidListAt g toks pre (rl.rhs.take ((s.state sid).pos - 1)) (s.state sid).orig k →
      PT.ValidAt g toks ptA (.n A) k (s.state sid).plInd →
      PT.IsDerivation g toks (C (.node (s.state sid).rule (pre ++ ptA :: fr.done))) := by
    intro pre ptA k h1 h2
    apply hC
    refine .node t3 rfl ?_
    rw [hrhs]
    exact ValidListAt_append h1 (.cons h2 t7)
  obtain ⟨n1, _⟩ := mem_reduces m1
  obtain ⟨n2, _⟩ := mem_reduces m2
  by_cases hsame : (c.sets.getD (s.state sid).plInd #[]).getD i1 default =
      (c.sets.getD (s.state sid).plInd #[]).getD i2 default
  · -- the same item at two indices: two derivations of its right-hand side
    obtain ⟨k1, k2, hk12, v1, v2⟩ := hdup (s.state sid).plInd i1 i2 rl1 hne n1 n2 hsame
      (by rw [e1]; exact hr1) (by rw [e1])
    rw [e1] at v1 v2
    simp only at v1 v2
    refine ⟨_, _, hnode hpre1 (.node hr1 hl1 v1), hnode hpre1 (.node hr1 hl1 v2), ?_⟩
    intro heq
    have h1 := hinj _ _ heq
    injection h1 with _ hlist
    have h2 := List.append_cancel_left hlist
    injection h2 with h3 _
    injection h3 with _ h4
    exact hk12 h4
  · refine ⟨_, _, hnode hpre1 hk1, hnode hpre2 hk2, ?_⟩
    intro heq
    have h1 := hinj _ _ heq
    injection h1 with _ hlist
    have hlen : pre1.length = pre2.length := by rw [hpre1.length_eq, hpre2.length_eq]
    obtain ⟨_, h2⟩ := List.append_inj hlist hlen
    injection h2 with h3 _
    have hpteq := h3
    injection h3 with h4 _
    have hso : so1 = so2 := by
      have a1 := hk1.span
      have a2 := hk2.span
      rw [hpteq] at a1
      omega
    subst h4; subst hso
    rw [hr1] at hr2; injection hr2 with hr2; subst hr2
    exact hsame (e1.trans e2.symm)

def AmbInvD (g : Grammar) (ok : Nat → Nat → Nat → Bool) (toks : List Nat) (s : St) : Prop :=
  s.bad = true ∨ (Good g ok toks s ∧ (s.amb = true → TwoDer g toks))

theorem step_ambInvD {g : Grammar} {ok : Nat → Nat → Nat → Bool} {toks : List Nat} {c : Ctx} {s : St}
    (hc : CtxOK g ok toks c) (hg : GrOK g) (hdup : DupOK g toks c)
    (hinv : AmbInvD g ok toks s) : AmbInvD g ok toks (step c s) := by
  rcases hinv with hb | ⟨hgood, hamb⟩
  · exact Or.inl (step_bad hc.one hb)
  · rcases step_inv hc hg (Or.inr hgood) with hb | hgood'
    · exact Or.inl hb
    · refine Or.inr ⟨hgood', fun h => ?_⟩
      rcases step_amb hc.one h with h1 | ⟨sid, rest, A, hst, hpos, hsym, i1, m1, i2, m2, hne, f1, f2⟩
      · exact hamb h1
      · exact two_derivs_dup hc hdup hgood hst hpos hsym m1 m2 hne f1 f2

theorem run_ambInvD {g : Grammar} {ok : Nat → Nat → Nat → Bool} {toks : List Nat} {c : Ctx}
    (hc : CtxOK g ok toks c) (hg : GrOK g) (hdup : DupOK g toks c) :
    ∀ (fuel : Nat) (s s' : St), AmbInvD g ok toks s → run c fuel s = some s' → AmbInvD g ok toks s'
  | 0, s, s', hinv, hr => by
    unfold run at hr
    split at hr
    · injection hr with hr; rw [← hr]; exact hinv
    · cases hr
  | fuel + 1, s, s', hinv, hr => by
    unfold run at hr
    split at hr
    · injection hr with hr; rw [← hr]; exact hinv
    · exact run_ambInvD hc hg hdup fuel _ _ (step_ambInvD hc hg hdup hinv) hr

/-- **the ambiguity flag is sound (one parse)**, over any parse list whose situations are items of
the Earley relation and whose repeated completed items stand for two derivations -/
theorem makeParse_one_amb_dup_ctx {g : Grammar} {ok : Nat → Nat → Nat → Bool} {toks : List Nat}
    {sets : Array (Array Item)} {plToks : Array Int} {fuel : Nat} {res : Result}
    (hc : CtxOK g ok toks (mkCtx g sets plToks true)) (hg : GrOK g)
    (hdup : DupOK g toks (mkCtx g sets plToks true))
    (hm : makeParse g sets plToks true fuel = .ok res) (hamb : res.amb = true) :
    TwoDer g toks := by
  simp only [makeParse] at hm
  split at hm
  · cases hm
  · rename_i s0 hi
    split at hm
    · cases hm
    · rename_i s hr
      split at hm
      · cases hm
      · rename_i hb
        split at hm
        · cases hm
        · split at hm
          · cases hm
          · injection hm with hm
            subst hm
            have h0 : AmbInvD g ok toks s0 :=
              Or.inr ⟨init_inv hc hg hi, fun h => by rw [init_amb hi] at h; cases h⟩
            rcases run_ambInvD hc hg hdup fuel s0 s h0 hr with hbad | ⟨_, h⟩
            · rw [hbad] at hb; simp at hb
            · exact h hamb

end Yaep.MP
