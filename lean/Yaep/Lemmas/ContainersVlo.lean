import Yaep.Model.Vlo
import Yaep.Lemmas.ContainersMem
/-!
# Variable length object: refinement to a byte list (C19)

The abstract state is a `List (Option Nat)`: `some b` is a byte that was appended, `none` a
byte whose value the package does not specify (`VLO_EXPAND`).
-/
namespace Yaep.Model.Vlo
open Yaep.Model.ObjStack

/-- abstract semantics of the operations on the byte list -/
def specStep (l : List (Option Nat)) : Op → List (Option Nat)
  | .add bs => l ++ bs.map some
  | .expand n => l ++ List.replicate n none
  | .shorten n => l.take (l.length - n)
  | .nullify => []
  | .tailor => l
  | .get => l

def specRun (ops : List Op) : List (Option Nat) := ops.foldl specStep []

/-- `vlo_free ≤ vlo_boundary` -/
def Inv (v : Vlo) : Prop := v.len ≤ v.cap

theorem inv_create (n : Nat) : Inv (create n) := by
  simp [Inv, create]

@[simp] theorem contents_create (n : Nat) : (create n).contents = [] := by
  simp [Vlo.contents, create, readMem]

theorem realloc_spec (v : Vlo) (c : Nat) (h1 : v.len ≤ v.cap) (h2 : v.len ≤ c) :
    (realloc v c).contents = v.contents ∧ (realloc v c).len = v.len ∧ (realloc v c).cap = c := by
  refine ⟨?_, rfl, rfl⟩
  unfold Vlo.contents realloc
  apply readMem_congr
  intro i hi
  have hi' : i < v.len := hi
  simp only [get_tabulate]
  have : 0 + i < min v.cap c := by omega
  rw [if_pos this]

/-- the block after the capacity check of `VLO_ADD_MEMORY` / `VLO_EXPAND` -/
theorem ensure_spec (v : Vlo) (k : Nat) (h : Inv v) :
    let v1 := if v.len + k > v.cap then expandMemory v k else v
    v1.contents = v.contents ∧ v1.len = v.len ∧ v.len + k ≤ v1.cap := by
  intro v1
  by_cases hc : v.len + k > v.cap
  · have e : v1 = expandMemory v k := by simp [v1, hc]
    rw [e]
    unfold expandMemory
    have := realloc_spec v (v.len + k + ((v.len + k) / 2 + 1)) h (by omega)
    refine ⟨this.1, this.2.1, ?_⟩
    rw [this.2.2]; omega
  · have e : v1 = v := by simp [v1, hc]
    rw [e]
    exact ⟨rfl, rfl, by omega⟩

theorem add_spec (v : Vlo) (bs : List Nat) (h : Inv v) :
    (add v bs).contents = v.contents ++ bs.map some ∧ Inv (add v bs) := by
  have hs := ensure_spec v bs.length h
  simp only at hs
  generalize hv1 : (if v.len + bs.length > v.cap then expandMemory v bs.length else v) = v1 at hs
  obtain ⟨hc, hl, hcap⟩ := hs
  have hadd : add v bs = { v1 with mem := writeAt v1.mem v1.len bs, len := v1.len + bs.length } := by
    simp [add, hv1]
  rw [hadd]
  constructor
  · show readMem (writeAt v1.mem v1.len bs) 0 (v1.len + bs.length) = _
    rw [readMem_add, readMem_writeAt_disjoint _ _ _ _ _ (Or.inl (by omega))]
    rw [Nat.zero_add, readMem_writeAt_same, ← hc]
    rfl
  · show v1.len + bs.length ≤ v1.cap
    omega

theorem expand_spec (v : Vlo) (n : Nat) (h : Inv v) :
    (expand v n).contents = v.contents ++ List.replicate n none ∧ Inv (expand v n) := by
  have hs := ensure_spec v n h
  simp only at hs
  generalize hv1 : (if v.len + n > v.cap then expandMemory v n else v) = v1 at hs
  obtain ⟨hc, hl, hcap⟩ := hs
  have hexp : expand v n = { v1 with mem := havoc v1.mem v1.len n, len := v1.len + n } := by
    simp [expand, hv1]
  rw [hexp]
  constructor
  · show readMem (havoc v1.mem v1.len n) 0 (v1.len + n) = _
    rw [readMem_add, readMem_havoc_disjoint _ _ _ _ _ (Or.inl (by omega))]
    rw [Nat.zero_add, readMem_havoc_same, ← hc]
    rfl
  · show v1.len + n ≤ v1.cap
    omega

theorem shorten_spec (v : Vlo) (n : Nat) (h : Inv v) :
    (shorten v n).contents = v.contents.take (v.contents.length - n) ∧ Inv (shorten v n) := by
  unfold shorten Vlo.contents Inv
  by_cases hn : v.len < n
  · have : v.len - n = 0 := by omega
    simp [hn, this, readMem_zero]
  · simp only [hn, if_false, length_readMem]
    refine ⟨?_, ?_⟩
    · rw [take_readMem _ _ _ _ (by omega)]
    · show v.len - n ≤ v.cap
      unfold Inv at h; omega

theorem tailor_spec (v : Vlo) (h : Inv v) :
    (tailor v).contents = v.contents ∧ Inv (tailor v) := by
  unfold tailor
  have := realloc_spec v (if v.len = 0 then 1 else v.len) h (by split <;> omega)
  refine ⟨this.1, ?_⟩
  unfold Inv
  rw [this.2.1, this.2.2]
  split <;> omega

theorem step_spec (v : Vlo) (op : Op) (h : Inv v) :
    (stepOp v op).contents = specStep v.contents op ∧ Inv (stepOp v op) := by
  cases op with
  | add bs => exact add_spec v bs h
  | expand n => exact expand_spec v n h
  | shorten n => exact shorten_spec v n h
  | nullify => exact ⟨by simp [stepOp, nullify, Vlo.contents, specStep, readMem_zero], Nat.zero_le _⟩
  | tailor => exact tailor_spec v h
  | get => exact ⟨rfl, h⟩

theorem run_spec (v : Vlo) (ops : List Op) (h : Inv v) :
    (run v ops).contents = ops.foldl specStep v.contents ∧ Inv (run v ops) := by
  induction ops generalizing v with
  | nil => exact ⟨rfl, h⟩
  | cons op ops ih =>
    have hs := step_spec v op h
    have := ih (stepOp v op) hs.2
    simp only [run, List.foldl_cons] at this ⊢
    rw [← hs.1]
    exact this

end Yaep.Model.Vlo
