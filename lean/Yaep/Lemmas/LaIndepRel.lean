import Yaep.Lemmas.LaIndepEarley
import Yaep.Model.MakeParse
/-!
# Lookahead independence: the relation between the unfiltered and the level-1 parse list

`SetsRel g w' sets0 sets1`: what the simulation of `make_parse` (`LaIndepMP.lean`) needs to know about the two
parse lists.
-/
namespace Yaep.LI
open Yaep

/-- `it` is a completed item of a rule for `B` (exactly the test of `MP.reduces`) -/
def isRed (g : Grammar) (B : Nat) (it : Item) : Bool :=
  it.dot == (g.rules.getD it.rule default).rhs.length && (g.rules.getD it.rule default).lhs == B

/-- what the simulation needs to know about the two parse lists (`sets0`: unfiltered, `sets1`: level 1) -/
structure SetsRel (g : Grammar) (w' : List Nat) (sets0 sets1 : Array (Array Item)) : Prop where
  size0 : sets0.size = w'.length + 1
  size1 : sets1.size = w'.length + 1
  sound0 : ∀ j it, it ∈ (sets0.getD j #[]).toList → F0 g w' j it
  complete0 : ∀ j it, F0 g w' j it → it ∈ (sets0.getD j #[]).toList
  sound1 : ∀ j it, it ∈ (sets1.getD j #[]).toList → F1 g w' j it
  complete1 : ∀ j it, F1 g w' j it → it ∈ (sets1.getD j #[]).toList
  first : (sets0.getD w'.length #[])[0]? = (sets1.getD w'.length #[])[0]?
  /-- the completed items for `B` of set `j` at level 1 are those of level 0 with some occurrences removed, in the
  same order; an occurrence that is a level-1 item and passes the level-1 test (if its origin is before `j`) is kept -/
  mask : ∀ j B, j ≤ w'.length → ∃ l : List (Item × Bool),
      l.map Prod.fst = (sets0.getD j #[]).toList.filter (isRed g B) ∧
      (l.filter Prod.snd).map Prod.fst = (sets1.getD j #[]).toList.filter (isRed g B) ∧
      ∀ p ∈ l, F1 g w' j p.1 → (p.1.origin < j → ok1 g w' j p.1.rule p.1.dot = true) → p.2 = true

end Yaep.LI
