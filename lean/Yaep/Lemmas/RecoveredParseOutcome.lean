import Yaep.Lemmas.RecoveredParseRun
/-!
# Renaming the token numbers: the outcome of `makeParse`

`makeParse_reTok`: if the run with the token numbers `P` carries an invariant that guarantees
`TermHyp` for the token numbers `P'`, the outcome with `P'` is the outcome with `P` with the
attributes of the TERM records renamed.
-/
namespace Yaep.RP
open Yaep Yaep.MP

variable {f : Int → Int}

def resRl (f : Int → Int) (r : Result) : Result := { r with tab := r.tab.map (rlRec f) }

def outRl (f : Int → Int) : Outcome → Outcome
  | .ok r => .ok (resRl f r)
  | o => o

theorem allocSeq_lift (s : St) (tn : Array (Option Nat)) (b : Bool) :
    allocSeq (lift f s tn b) = allocSeq s := by
  unfold allocSeq
  have hh : (lift f s tn b).heap = rlH f s.heap := rfl
  have hn : (lift f s tn b).nameAfter = s.nameAfter := rfl
  rw [hh, hn, rlH_size]
  congr 1
  funext i
  rw [rlH_getD]
  cases s.heap.getD i .nil <;> rfl

theorem init_termNodes {c : Ctx} {s0 : St} (hi : init c = some s0) :
    s0.termNodes = Array.replicate ((c.plToks.foldl max 0).toNat + 1) none ∧ s0.bad = false := by
  unfold init at hi
  simp only at hi
  split at hi
  · cases hi
  · split at hi
    · cases hi
    · injection hi with hi; subst hi; exact ⟨rfl, rfl⟩

theorem init_reTok (c : Ctx) (P' : Array Int) :
    init (reTok c P') = (init c).map fun s0 =>
      lift f s0 (Array.replicate ((P'.foldl max 0).toNat + 1) none) s0.bad := by
  unfold init
  have h1 : (reTok c P').sets = c.sets := rfl
  have h2 : ∀ r, (reTok c P').rule r = c.rule r := fun _ => rfl
  have h3 : (reTok c P').axiomN = c.axiomN := rfl
  have h4 : (reTok c P').plToks = P' := rfl
  simp only [h1, h2, h3, h4]
  cases (c.sets.getD (c.sets.size - 1) #[])[0]? with
  | none => rfl
  | some sit =>
    simp only
    split
    · rfl
    · simp only [Option.map_some, lift, rlH]
      have : Array.map (rlN f) #[MNode.nil, MNode.err, MNode.anode "$result" 0 #[none]] =
          #[MNode.nil, MNode.err, MNode.anode "$result" 0 #[none]] := by simp [rlN]
      rw [this]

theorem replicate_getD_none (n k : Nat) :
    (Array.replicate n (none : Option Nat)).getD k none = none := by
  rw [Array.getD_eq_getD_getElem?, Array.getElem?_replicate]
  split <;> rfl

/-- **the outcome of `makeParse` under a renaming of the token numbers** -/
theorem makeParse_reTok {g : Grammar} {sets : Array (Array Item)} {P P' : Array Int} {one : Bool}
    (R : TokRel f P P' ((P.foldl max 0).toNat + 1) ((P'.foldl max 0).toNat + 1))
    (Inv : St → Prop)
    (hinit : ∀ s0, init (mkCtx g sets P one) = some s0 → Inv s0)
    (hstep : ∀ s, Inv s → s.stack ≠ [] → Inv (step (mkCtx g sets P one) s))
    (hterm : ∀ s, Inv s → TermHyp (mkCtx g sets P one) P' s) (fuel : Nat) :
    makeParse g sets P' one fuel = outRl f (makeParse g sets P one fuel) := by
  have hc : mkCtx g sets P' one = reTok (mkCtx g sets P one) P' := rfl
  unfold makeParse
  simp only [hc]
  rw [init_reTok (f := f)]
  cases hi : init (mkCtx g sets P one) with
  | none => rfl
  | some s0 =>
    simp only [Option.map_some]
    obtain ⟨htn0, hb0⟩ := init_termNodes hi
    have hsim0 : Sim f (mkCtx g sets P one).plToks P' ((P.foldl max 0).toNat + 1)
        ((P'.foldl max 0).toNat + 1) s0
        (lift f s0 (Array.replicate ((P'.foldl max 0).toNat + 1) none) s0.bad) := by
      refine ⟨rfl, ?_, ?_, ?_⟩
      · intro j _ _
        show (Array.replicate _ none).getD _ none = _
        rw [htn0, replicate_getD_none, replicate_getD_none]
      · rw [htn0]; simp; rfl
      · show (Array.replicate _ none).size = _
        simp
    obtain ⟨h1, h2⟩ := run_sim (c := mkCtx g sets P one) R Inv hstep hterm fuel s0 _ hsim0 (hinit s0 hi)
    cases hr : run (mkCtx g sets P one) fuel s0 with
    | none => rw [h2 hr]; rfl
    | some sf =>
      obtain ⟨sf', hr', hs⟩ := h1 sf hr
      rw [hr']
      simp only
      have he := hs.eq
      have hbad : sf'.bad = sf.bad := by rw [he]; rfl
      rw [hbad]
      cases hb : sf.bad with
      | true => rfl
      | false =>
        simp only [Bool.false_eq_true, if_false]
        have hres : sf'.result = sf.result := by
          rw [he]; unfold St.result; exact getKid_rl _ _ _
        rw [hres]
        cases hres' : sf.result with
        | none => rfl
        | some r =>
          simp only
          have hheap : sf'.heap = rlH f sf.heap := by rw [he]; rfl
          rw [hheap, exportTable_rl]
          cases hx : exportTable sf.heap r with
          | none => rfl
          | some p =>
            obtain ⟨tab, root⟩ := p
            simp only [Option.map_some, outRl, resRl]
            have ha : allocSeq sf' = allocSeq sf := by rw [he]; exact allocSeq_lift _ _ _
            rw [ha, he, rlH_size]
            rfl

end Yaep.RP
