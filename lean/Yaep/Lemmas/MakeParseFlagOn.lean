import Yaep.Lemmas.MakeParseFlagEarley
import Yaep.Lemmas.MakeParseFlagLoop
import Yaep.Lemmas.MakeParseFlagPres
/-!
# The ambiguity flag of `make_parse`, part 4: a run that leaves the flag off walks along *every*
derivation

Fix a derivation `pt0` of the whole input.  `OnTop` says that the ghost derivations of the
invariant `TopOK` are exactly the subtrees of `pt0`: the stack is a root path of `pt0`, the
finished children of every state are the children of the node of `pt0` the state stands for.
As long as the flag is off this is preserved: at a nonterminal before the dot the subtree of
`pt0` for it gives a reduce candidate that passes the check loop (completeness of the Earley sets
along `pt0`), the flag says there is no other, so the algorithm picks this one.
-/
namespace Yaep.MP
open Yaep

/-! ## lists of parse trees -/

theorem ValidListAt.nil_inv {g : Grammar} {toks : List Nat} {ks : List PT} {i j : Nat}
    (h : PT.ValidListAt g toks ks [] i j) : ks = [] ∧ i = j := by
  cases h; exact ⟨rfl, rfl⟩

theorem ValidListAt.snoc_inv {g : Grammar} {toks : List Nat} :
    ∀ {Xs : List Sym} {X : Sym} {ks : List PT} {i j : Nat},
      PT.ValidListAt g toks ks (Xs ++ [X]) i j →
      ∃ pre x m, ks = pre ++ [x] ∧ PT.ValidListAt g toks pre Xs i m ∧ PT.ValidAt g toks x X m j
  | [], X, ks, i, j, h => by
    cases h with
    | cons h1 h2 =>
      obtain ⟨rfl, rfl⟩ := ValidListAt.nil_inv h2
      exact ⟨[], _, i, rfl, .nil, h1⟩
  | Y :: Xs, X, ks, i, j, h => by
    cases h with
    | cons h1 h2 =>
      obtain ⟨pre, x, m, rfl, h3, h4⟩ := ValidListAt.snoc_inv h2
      exact ⟨_ :: pre, x, m, rfl, .cons h1 h3, h4⟩

theorem take_pred_snoc {rl : Rule} {p : Nat} {X : Sym} (hp : p ≠ 0) (hX : rl.rhs[p - 1]? = some X) :
    rl.rhs.take p = rl.rhs.take (p - 1) ++ [X] := by
  have := take_succ_of_getElem? rl.rhs hX
  have hpp : p - 1 + 1 = p := by omega
  rw [hpp] at this
  exact this

/-! ## the relation between the ghost frames and `pt0` -/

/-- the states below the top: the node of `pt0` a state stands for consists of derivations `pre` of
the symbols before the dot, the node `N` of the state above, and the finished children -/
def OnBelow (g : Grammar) (toks : List Nat) (pt0 : PT) (sts : Array PState) :
    List Nat → List Frame → Nat → PT → Prop
  | [], _, _, N => N = pt0
  | _ :: _, [], _, _ => False
  | sid :: rest, fr :: frs, sb, N =>
      sid < sb ∧ ∃ pre rl, g.rules[(sts.getD sid default).rule]? = some rl ∧
        PT.ValidListAt g toks pre (rl.rhs.take (sts.getD sid default).pos)
          (sts.getD sid default).orig (sts.getD sid default).plInd ∧
        OnBelow g toks pt0 sts rest frs sid
          (.node (sts.getD sid default).rule (pre ++ N :: fr.done))

def OnTop (g : Grammar) (toks : List Nat) (pt0 : PT) (sts : Array PState) :
    List Nat → List Frame → Prop
  | sid :: rest, fr :: frs =>
      ∃ pre rl, g.rules[(sts.getD sid default).rule]? = some rl ∧
        PT.ValidListAt g toks pre (rl.rhs.take (sts.getD sid default).pos)
          (sts.getD sid default).orig
          (if (sts.getD sid default).pos = 0 then (sts.getD sid default).orig
           else (sts.getD sid default).plInd) ∧
        OnBelow g toks pt0 sts rest frs sid (.node (sts.getD sid default).rule (pre ++ fr.done))
  | _, _ => False

theorem OnBelow.frame {g : Grammar} {toks : List Nat} {pt0 : PT} {sts sts' : Array PState} :
    ∀ {rest : List Nat} {frs : List Frame} {sb : Nat} {N : PT},
      OnBelow g toks pt0 sts rest frs sb N → StsFrame sts sts' sb →
      OnBelow g toks pt0 sts' rest frs sb N
  | [], _, _, _, h, _ => h
  | _ :: _, [], _, _, h, _ => by simp [OnBelow] at h
  | sid :: rest, fr :: frs, sb, N, h, hf => by
    simp only [OnBelow] at h ⊢
    obtain ⟨h1, pre, rl, h2, h3, h4⟩ := h
    rw [hf sid h1]
    exact ⟨h1, pre, rl, h2, h3, h4.frame (fun i hi => hf i (by omega))⟩

/-- the top state is popped: the state below receives the node -/
theorem OnTop.pop {g : Grammar} {toks : List Nat} {pt0 : PT} {sts : Array PState} {sid : Nat}
    {rest : List Nat} {fr : Frame} {frs : List Frame}
    (h : OnTop g toks pt0 sts (sid :: rest) (fr :: frs)) (hpos : (sts.getD sid default).pos = 0) :
    OnBelow g toks pt0 sts rest frs sid (.node (sts.getD sid default).rule fr.done) := by
  simp only [OnTop] at h
  obtain ⟨pre, rl, _, h2, h3⟩ := h
  rw [hpos, List.take_zero] at h2
  obtain ⟨rfl, _⟩ := ValidListAt.nil_inv h2
  simpa using h3

theorem OnBelow.to_top {g : Grammar} {toks : List Nat} {pt0 : PT} {sts : Array PState} {sid sb : Nat}
    {rest : List Nat} {fr : Frame} {frs : List Frame} {N : PT}
    (h : OnBelow g toks pt0 sts (sid :: rest) (fr :: frs) sb N) :
    OnTop g toks pt0 sts (sid :: rest) ({ fr with done := N :: fr.done } :: frs) := by
  simp only [OnBelow] at h
  simp only [OnTop]
  obtain ⟨_, pre, rl, h2, h3, h4⟩ := h
  refine ⟨pre, rl, h2, ?_, h4⟩
  split
  · rename_i hp
    rw [hp, List.take_zero] at h3
    obtain ⟨rfl, he⟩ := ValidListAt.nil_inv h3
    rw [hp, List.take_zero]
    exact .nil
  · exact h3

/-- the part of the node of `pt0` before the dot of the top state ends with a derivation of the
symbol before the dot -/
theorem OnTop.split {g : Grammar} {toks : List Nat} {pt0 : PT} {sts : Array PState} {sid : Nat}
    {rest : List Nat} {fr : Frame} {frs : List Frame} {rl : Rule} {X : Sym}
    (h : OnTop g toks pt0 sts (sid :: rest) (fr :: frs)) (hpos : (sts.getD sid default).pos ≠ 0)
    (hr : g.rules[(sts.getD sid default).rule]? = some rl)
    (hX : rl.rhs[(sts.getD sid default).pos - 1]? = some X) :
    ∃ pre x m, PT.ValidListAt g toks pre (rl.rhs.take ((sts.getD sid default).pos - 1))
        (sts.getD sid default).orig m ∧
      PT.ValidAt g toks x X m (sts.getD sid default).plInd ∧
      OnBelow g toks pt0 sts rest frs sid (.node (sts.getD sid default).rule (pre ++ x :: fr.done)) := by
  simp only [OnTop] at h
  obtain ⟨pre, rl', h1, h2, h3⟩ := h
  rw [hr] at h1; injection h1 with h1; subst h1
  rw [if_neg hpos, take_pred_snoc hpos hX] at h2
  obtain ⟨pre', x, m, rfl, h4, h5⟩ := ValidListAt.snoc_inv h2
  refine ⟨pre', x, m, h4, h5, ?_⟩
  simpa [List.append_assoc] using h3

/-- the top state has moved its dot over a symbol whose derivation in `pt0` is `x` -/
theorem OnTop.advance {g : Grammar} {toks : List Nat} {pt0 : PT} {sts sts' : Array PState}
    {sid : Nat} {rest : List Nat} {fr : Frame} {frs : List Frame} {rl : Rule} {pre : List PT}
    {x : PT} {m : Nat} {st' : PState}
    (hr : g.rules[(sts.getD sid default).rule]? = some rl)
    (hpre : PT.ValidListAt g toks pre (rl.rhs.take ((sts.getD sid default).pos - 1))
      (sts.getD sid default).orig m)
    (hbelow : OnBelow g toks pt0 sts rest frs sid
      (.node (sts.getD sid default).rule (pre ++ x :: fr.done)))
    (hsame : sts'.getD sid default = st') (hother : StsFrame sts sts' sid)
    (e1 : st'.rule = (sts.getD sid default).rule) (e2 : st'.pos = (sts.getD sid default).pos - 1)
    (e3 : st'.orig = (sts.getD sid default).orig) (hpl : st'.pos ≠ 0 → st'.plInd = m) :
    OnTop g toks pt0 sts' (sid :: rest) ({ fr with done := x :: fr.done } :: frs) := by
  simp only [OnTop]
  rw [hsame, e1, e2, e3]
  refine ⟨pre, rl, hr, ?_, hbelow.frame hother⟩
  split
  · rename_i hp
    rw [hp, List.take_zero] at hpre
    obtain ⟨rfl, he⟩ := ValidListAt.nil_inv hpre
    rw [hp, List.take_zero]
    exact .nil
  · rename_i hp
    rw [← e2] at hp
    rw [hpl hp]
    exact hpre

/-- a state for the node `.node sr kids` of `pt0` has been pushed -/
theorem OnTop.push {g : Grammar} {toks : List Nat} {pt0 : PT} {sts sts' : Array PState}
    {sid Y : Nat} {rest : List Nat} {fr frY : Frame} {frs : List Frame} {rl rl' : Rule}
    {pre kids : List PT} {sr m : Nat} {st' : PState}
    (hr : g.rules[(sts.getD sid default).rule]? = some rl)
    (hpre : PT.ValidListAt g toks pre (rl.rhs.take ((sts.getD sid default).pos - 1))
      (sts.getD sid default).orig m)
    (hbelow : OnBelow g toks pt0 sts rest frs sid
      (.node (sts.getD sid default).rule (pre ++ .node sr kids :: fr.done)))
    (hsame : sts'.getD sid default = st') (hother : StsFrame sts sts' sid)
    (e1 : st'.rule = (sts.getD sid default).rule) (e2 : st'.pos = (sts.getD sid default).pos - 1)
    (e3 : st'.orig = (sts.getD sid default).orig) (hpl : st'.plInd = m)
    (hY : sid < Y) (hr' : g.rules[sr]? = some rl')
    (hkids : PT.ValidListAt g toks kids rl'.rhs m (sts.getD sid default).plInd)
    (y1 : (sts'.getD Y default).rule = sr) (y2 : (sts'.getD Y default).pos = rl'.rhs.length)
    (y3 : (sts'.getD Y default).orig = m)
    (y4 : (sts'.getD Y default).plInd = (sts.getD sid default).plInd)
    (hdone : frY.done = []) :
    OnTop g toks pt0 sts' (Y :: sid :: rest) (frY :: fr :: frs) := by
  simp only [OnTop, OnBelow]
  rw [y1, y2, y3, y4, hsame, e1, e2, e3, hpl, hdone]
  refine ⟨kids, rl', hr', ?_, hY, pre, rl, hr, hpre, ?_⟩
  · rw [List.take_length]
    split
    · rename_i hz
      have hnil : rl'.rhs = [] := List.eq_nil_of_length_eq_zero hz
      rw [hnil] at hkids ⊢
      obtain ⟨rfl, _⟩ := ValidListAt.nil_inv hkids
      exact .nil
    · exact hkids
  · rw [List.append_nil]; exact hbelow.frame hother

end Yaep.MP
