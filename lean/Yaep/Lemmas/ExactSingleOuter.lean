import Yaep.Lemmas.ExactSingleSearch
/-!
# The trace of the recovering `build_pl` loop up to its first two callbacks

`CX.TrInv rmatch pl calls`, an invariant of `parseRecLoop` (for inputs without the token `error`):

* before the first callback every list element after set 0 is a token set;
* after exactly one callback `(e, a, b)` the list is `P ++ x :: R` with `P` = set 0 and `a` token
  sets, `x` an `error` set — the first ignored token `a` is the number of tokens kept before the
  first `error` —, and with `recovery_match ≤ 1` all of `R` are token sets.
-/
namespace Yaep.CX
open Yaep Yaep.RP

/-- all sets are token sets -/
def TokOnly (l : List PSet) : Prop := ∀ s ∈ l, s.tok ≠ none

theorem TokOnly.append {l1 l2 : List PSet} (h1 : TokOnly l1) (h2 : TokOnly l2) : TokOnly (l1 ++ l2) := by
  intro s hs
  rcases List.mem_append.mp hs with h | h
  · exact h1 s h
  · exact h2 s h

theorem cnt_of_tokOnly {l : List PSet} (h : TokOnly l) : cnt l = l.length := by
  induction l with
  | nil => rfl
  | cons s l ih =>
    cases hs : s.tok with
    | none => exact absurd hs (h s List.mem_cons_self)
    | some k =>
      rw [cnt_cons_some l hs, ih (fun x hx => h x (List.mem_cons_of_mem _ hx))]
      rfl

structure TrInv (rmatch : Nat) (pl : List PSet) (calls : List (Nat × Nat × Nat)) : Prop where
  zero : calls = [] → TokOnly (pl.drop 1)
  single : ∀ e a b, calls = [(e, a, b)] → ∃ P x R, pl = P ++ x :: R ∧ P.length = a + 1 ∧
    TokOnly (P.drop 1) ∧ x.tok = none ∧ (rmatch ≤ 1 → TokOnly R)

theorem TrInv.shift {rmatch : Nat} {pl : List PSet} {calls : List (Nat × Nat × Nat)}
    (h : TrInv rmatch pl calls) (hne : pl ≠ []) {new : PSet} (hnew : new.tok ≠ none) :
    TrInv rmatch (pl ++ [new]) calls := by
  constructor
  · intro hc
    obtain ⟨s0, rest, rfl⟩ := List.exists_cons_of_ne_nil hne
    have := h.zero hc
    simp only [List.drop_succ_cons, List.drop_zero, List.cons_append] at this ⊢
    exact this.append (fun s hs => by rw [List.mem_singleton] at hs; subst hs; exact hnew)
  · intro e a b hc
    obtain ⟨P, x, R, h1, h2, h3, h4, h5⟩ := h.single e a b hc
    refine ⟨P, x, R ++ [new], by rw [h1, List.append_assoc]; rfl, h2, h3, h4, fun hr => ?_⟩
    exact (h5 hr).append (fun s hs => by rw [List.mem_singleton] at hs; subst hs; exact hnew)

theorem TrInv.recover {g : Grammar} {an : Analysis} {la rmatch : Nat} {full : List Nat} {tok : Nat}
    {pl : List PSet} {calls : List (Nat × Nat × Nat)} (h : OuterInv g an la full tok pl calls)
    (htr : TrInv rmatch pl calls) (hno : g.errT ∉ full) {b : Best}
    (hb : BestInv g an la full pl tok (pl.length - 1) b)
    (hh : (∃ x T', b.tail = x :: T' ∧ x.tok = none) ∧
      (rmatch ≤ 1 → ∃ x y, b.tail = [x, y] ∧ x.tok = none ∧ y.tok ≠ none)) :
    TrInv rmatch (pl.take (b.last + 1) ++ b.tail) (calls ++ [(tok, b.rstart, b.rstop)]) := by
  constructor
  · intro hc
    cases calls <;> simp at hc
  · intro e a b' hc
    have hc0 : calls = [] := by
      cases calls with
      | nil => rfl
      | cons c0 cs =>
        simp only [List.cons_append, List.cons.injEq] at hc
        have := hc.2
        cases cs <;> simp at this
    subst hc0
    simp only [List.nil_append, List.cons.injEq, Prod.mk.injEq, and_true] at hc
    obtain ⟨_, ha, _⟩ := hc
    have hnone := htr.zero rfl
    obtain ⟨s0, rest, rfl, h1, h2, hseg, herr⟩ := h.pl_ok
    simp only [List.drop_succ_cons, List.drop_zero] at hnone
    -- the first ignored token is the number of token sets kept
    have hrs : b.rstart = b.last := by
      have e0 := hb.rstart_eq
      have e1 : backCost g (s0 :: rest) b.last = (rest.drop b.last).length := by
        unfold backCost
        rw [List.drop_succ_cons, nonErr_eq_cnt hno (hseg.drop b.last).sets]
        exact cnt_of_tokOnly (fun s hs => hnone s (List.mem_of_mem_drop hs))
      have e2 := h.acct hno
      rw [cnt_cons_none _ h2, cnt_of_tokOnly hnone] at e2
      have e3 := hb.last_le
      simp only [List.length_cons, Nat.add_sub_cancel] at e3
      simp only [ignoredSum] at e2
      rw [e1, List.length_drop] at e0
      omega
    obtain ⟨⟨x, T', ht, hx⟩, hh1⟩ := hh
    refine ⟨(s0 :: rest).take (b.last + 1), x, T', by rw [ht], ?_, ?_, hx, fun hr => ?_⟩
    · have e3 := hb.last_le
      simp only [List.length_cons, Nat.add_sub_cancel] at e3
      rw [List.length_take, List.length_cons, ← ha, hrs]
      omega
    · rw [List.take_succ_cons]
      simp only [List.drop_succ_cons, List.drop_zero]
      exact fun s hs => hnone s (List.mem_of_mem_take hs)
    · obtain ⟨x', y, ht', _, hy⟩ := hh1 hr
      rw [ht] at ht'
      simp only [List.cons.injEq] at ht'
      obtain ⟨_, rfl⟩ := ht'
      intro s hs
      rw [List.mem_singleton] at hs
      subst hs
      exact hy

theorem parseRecLoop_trace {g : Grammar} {an : Analysis} {la rmatch : Nat} {full : List Nat}
    {sfuel : Nat} (hno : g.errT ∉ full) :
    ∀ (fuel tok : Nat) (pl : List PSet) (calls : List (Nat × Nat × Nat)) (steps : Nat),
      OuterInv g an la full tok pl calls → TrInv rmatch pl calls →
      (parseRecLoop g an la rmatch full sfuel fuel tok pl calls steps).ok = true →
      TrInv rmatch (parseRecLoop g an la rmatch full sfuel fuel tok pl calls steps).pl
        (parseRecLoop g an la rmatch full sfuel fuel tok pl calls steps).calls := by
  intro fuel
  induction fuel with
  | zero => intro tok pl calls steps _ _ hok; unfold parseRecLoop at hok; cases hok
  | succ fuel ih =>
    intro tok pl calls steps h htr hok
    unfold parseRecLoop at hok ⊢
    split
    · exact htr
    · rename_i t ht
      rw [ht] at hok
      simp only at hok ⊢
      have hne : pl ≠ [] := by
        obtain ⟨s0, rest, rfl, _⟩ := h.pl_ok
        exact List.cons_ne_nil _ _
      split
      · rename_i hT
        rw [if_pos hT] at hok
        exact ih _ _ _ _ (h.shift ht hT)
          (htr.shift hne (by rw [gotoSet_tok]; exact fun h => by cases h)) hok
      · rename_i hT
        rw [if_neg hT] at hok
        have hlt := (List.getElem?_eq_some_iff.mp ht).1
        have hSI := recoverAt_inv (rmatch := rmatch) h.pl_ok hlt h.run sfuel
        have hHI := recoverAt_head (rmatch := rmatch) h.pl_ok hlt h.run sfuel
        split
        · rename_i hbest; rw [hbest] at hok; cases hok
        · rename_i b hbest
          rw [hbest] at hok
          simp only at hok ⊢
          split
          · rename_i hne'; rw [if_pos hne'] at hok; cases hok
          · rename_i hne'
            rw [if_neg hne'] at hok
            exact ih _ _ _ _ (h.recover hlt (hSI.best b hbest)).1
              (TrInv.recover h htr hno (hSI.best b hbest) (hHI.best b hbest)) hok

/-- **the trace of a recovering parse** (input without the token `error`) -/
theorem parseWithRecovery_trace {g : Grammar} {la rmatch : Nat} {w : List Nat} {sfuel : Nat}
    (hno : g.errT ∉ w ++ [g.eofT]) (hok : (parseWithRecovery g la rmatch w sfuel).ok = true) :
    TrInv rmatch (parseWithRecovery g la rmatch w sfuel).pl
      (parseWithRecovery g la rmatch w sfuel).calls := by
  unfold parseWithRecovery at hok ⊢
  refine parseRecLoop_trace hno _ _ _ _ _ (outerInv_init g _ _ _) ⟨fun _ => ?_, fun e a b hc => by cases hc⟩ hok
  intro s hs
  simp at hs

end Yaep.CX
