import Yaep.Lemmas.PruneCExport
/-!
# The forest of the final heap is the forest of its exported table
-/
namespace Yaep.PC
open Yaep MP

theorem Linked.isChain {h : Array Cell} : ∀ (r : List Nat) (j : Nat), Linked h (j :: r) →
    IsChain h j (j :: r)
  | [], _, hl => by obtain ⟨nd, e⟩ := hl; exact .last e
  | j' :: r, _, hl => by
    obtain ⟨⟨nd, e⟩, hl'⟩ := hl
    exact .cons e (Linked.isChain r j' hl')

section
variable {F : Array Cell} {E : Nat → Prop} {rnk : Nat → Nat} {free : Bool} {nameBlk : Nat → Nat}

/-- the forest of a cell of the pruned heap does not depend on the fuel once it suffices -/
theorem unfoldD_indep (hp : Pruned F E rnk) : ∀ (b x : Nat), rnk x ≤ b → E x →
    ∀ f f', rnk x < f → rnk x < f' → unfoldD F f x = unfoldD F f' x := by
  intro b
  induction b using Nat.strongRecOn with
  | _ b ih =>
    intro x hb hx f f' h1 h2
    obtain ⟨f, rfl⟩ : ∃ g, f = g + 1 := ⟨f - 1, by omega⟩
    obtain ⟨f', rfl⟩ : ∃ g, f' = g + 1 := ⟨f' - 1, by omega⟩
    unfold unfoldD
    unfold unfoldWith
    cases hc : cellAt F x with
    | anode nm c ks =>
      simp only
      congr 1
      apply List.map_congr_left
      intro y hy
      obtain ⟨ey, ry⟩ := (hp.anode x nm c ks hx hc).2 y hy
      exact ih (rnk y) (by omega) y (Nat.le_refl _) ey f f' (by omega) (by omega)
    | alt nd nx =>
      have hal : isAlt F x = true := by simp [isAlt, hc]
      obtain ⟨L, hL1, hL2, hL3, hL4⟩ := hp.alt x hx hal
      simp only
      congr 1
      apply List.map_congr_left
      intro y hy
      obtain ⟨j, hj, rfl⟩ := List.mem_map.1 hy
      obtain ⟨r, rfl⟩ : ∃ r, L = x :: r := by
        cases L with
        | nil => cases hL1
        | cons a r => simp at hL1; subst hL1; exact ⟨r, rfl⟩
      rw [chainCells_linked r x F.size hL2 hL3] at hj
      obtain ⟨-, ej, -, rj⟩ := hL4 j hj
      exact ih (rnk (altNode F j)) (by omega) _ (Nat.le_refl _) ej f f' (by omega) (by omega)
    | nil => rfl
    | err => rfl
    | term _ _ => rfl

/-- the value of a cell of the final heap: its forest (in the pruned heap, decoded) -/
def finV (F : Array Cell) (rnk : Nat → Nat) (x : Nat) : Node := unfoldD F (rnk x + 1) x

theorem finV_eq (hp : Pruned F E rnk) {x : Nat} (hx : E x) {f : Nat} (hf : rnk x < f) :
    finV F rnk x = unfoldD F f x :=
  unfoldD_indep hp (rnk x) x (Nat.le_refl _) hx _ _ (Nat.lt_succ_self _) hf

/-- the equation of `finV` in terms of what the exporter sees in the final heap -/
theorem finV_export (hp : Pruned F E rnk) {t : TSt} (hinv : TInv F free nameBlk (fun _ => False) t)
    {x : Nat} (hx : E x) (hd : Done F free nameBlk t x) :
    finV F rnk x = recNode (cellRec (toHeap t.heap) x (cellKids (toHeap t.heap) x)) (finV F rnk) := by
  rw [recNode_cellRec]
  unfold finV unfoldD
  conv => lhs; unfold unfoldWith
  cases hc : cellAt F x with
  | anode nm c ks =>
    obtain ⟨hneg, e⟩ := (hd x (.refl _)).1 nm c ks hc
    simp only [toHeap_getD, cellKids, e, toMNode, toNat_flag hneg]
    congr 1
    apply List.map_congr_left
    intro y hy
    obtain ⟨ey, ry⟩ := (hp.anode x nm c ks hx hc).2 y hy
    exact (finV_eq hp ey (by omega)).symm
  | alt nd nx =>
    have hal : isAlt F x = true := by simp [isAlt, hc]
    obtain ⟨L, hL1, hL2, hL3, hL4⟩ := hp.alt x hx hal
    obtain ⟨r, rfl⟩ : ∃ r, L = x :: r := by
      cases L with
      | nil => cases hL1
      | cons a r => simp at hL1; subst hL1; exact ⟨r, rfl⟩
    have e : cellAt t.heap x = .alt nd nx := by
      rcases hinv.cells x with h | ⟨_, _, _, _, h, _⟩
      · rw [h, hc]
      · rw [hc] at h; cases h
    -- the chain in the final heap
    have hLt : Linked t.heap (x :: r) := by
      refine Linked.pres ?_ hL2
      intro j hj
      obtain ⟨-, halj⟩ := linked_reach r x hL2 j hj
      rcases hinv.cells j with h | ⟨_, _, _, _, h, _⟩
      · exact h
      · simp [isAlt, h] at halj
    have hchain := altChain_isChain (Linked.isChain r x hLt) ((toHeap t.heap).size + 1)
      (by rw [toHeap_size, hinv.size]; omega)
    simp only [toHeap_getD, cellKids, e, toMNode, hchain, chainCells_linked r x F.size hL2 hL3,
      List.map_map]
    congr 1
    apply List.map_congr_left
    intro j hj
    simp only [Function.comp_def, altNode_restored hinv]
    obtain ⟨-, ej, -, rj⟩ := hL4 j hj
    exact (finV_eq hp ej (by omega)).symm
  | nil =>
    have e : cellAt t.heap x = .nil := by
      rcases hinv.cells x with h | ⟨_, _, _, _, h, _⟩
      · rw [h, hc]
      · rw [hc] at h; cases h
    simp only [toHeap_getD, e, toMNode]
  | err =>
    have e : cellAt t.heap x = .err := by
      rcases hinv.cells x with h | ⟨_, _, _, _, h, _⟩
      · rw [h, hc]
      · rw [hc] at h; cases h
    simp only [toHeap_getD, e, toMNode]
  | term cd att =>
    have e : cellAt t.heap x = .term cd att := by
      rcases hinv.cells x with h | ⟨_, _, _, _, h, _⟩
      · rw [h, hc]
      · rw [hc] at h; cases h
    simp only [toHeap_getD, e, toMNode]

/-- the cells the exporter visits from a cell of the pruned translation are cells of it -/
theorem fin_closed (hp : Pruned F E rnk) {t : TSt} (hinv : TInv F free nameBlk (fun _ => False) t)
    {x : Nat} (hx : E x) (hd : Done F free nameBlk t x) :
    ∀ k ∈ cellKids (toHeap t.heap) x, E k ∧ Done F free nameBlk t k := by
  intro k hk
  cases hc : cellAt F x with
  | anode nm c ks =>
    obtain ⟨hneg, e⟩ := (hd x (.refl _)).1 nm c ks hc
    simp only [toHeap_getD, cellKids, e, toMNode] at hk
    refine ⟨((hp.anode x nm c ks hx hc).2 k hk).1, fun z hz => hd z (.step ?_ hz)⟩
    simp only [succs, hc]; exact hk
  | alt nd nx =>
    have hal : isAlt F x = true := by simp [isAlt, hc]
    obtain ⟨L, hL1, hL2, hL3, hL4⟩ := hp.alt x hx hal
    obtain ⟨r, rfl⟩ : ∃ r, L = x :: r := by
      cases L with
      | nil => cases hL1
      | cons a r => simp at hL1; subst hL1; exact ⟨r, rfl⟩
    have e : cellAt t.heap x = .alt nd nx := by
      rcases hinv.cells x with h | ⟨_, _, _, _, h, _⟩
      · rw [h, hc]
      · rw [hc] at h; cases h
    have hLt : Linked t.heap (x :: r) := by
      refine Linked.pres ?_ hL2
      intro j hj
      obtain ⟨-, halj⟩ := linked_reach r x hL2 j hj
      rcases hinv.cells j with h | ⟨_, _, _, _, h, _⟩
      · exact h
      · simp [isAlt, h] at halj
    have hchain := altChain_isChain (Linked.isChain r x hLt) ((toHeap t.heap).size + 1)
      (by rw [toHeap_size, hinv.size]; omega)
    simp only [toHeap_getD, cellKids, e, toMNode, hchain] at hk
    obtain ⟨j, hj, rfl⟩ := List.mem_map.1 hk
    rw [altNode_restored hinv]
    obtain ⟨hrj, halj⟩ := linked_reach r x hL2 j hj
    exact ⟨(hL4 j hj).2.1, fun z hz => hd z (hrj.trans (.step (altNode_succ halj) hz))⟩
  | nil =>
    have e : cellAt t.heap x = .nil := by
      rcases hinv.cells x with h | ⟨_, _, _, _, h, _⟩
      · rw [h, hc]
      · rw [hc] at h; cases h
    simp only [toHeap_getD, cellKids, e, toMNode] at hk; cases hk
  | err =>
    have e : cellAt t.heap x = .err := by
      rcases hinv.cells x with h | ⟨_, _, _, _, h, _⟩
      · rw [h, hc]
      · rw [hc] at h; cases h
    simp only [toHeap_getD, cellKids, e, toMNode] at hk; cases hk
  | term cd att =>
    have e : cellAt t.heap x = .term cd att := by
      rcases hinv.cells x with h | ⟨_, _, _, _, h, _⟩
      · rw [h, hc]
      · rw [hc] at h; cases h
    simp only [toHeap_getD, cellKids, e, toMNode] at hk; cases hk

/-- the exported table of the final heap unfolds to the forest of the final heap -/
theorem final_export (hp : Pruned F E rnk) {t : TSt} (hinv : TInv F free nameBlk (fun _ => False) t)
    {x0 : Nat} (hx : E x0) (hd : Done F free nameBlk t x0) {f : Nat} (hf : rnk x0 < f)
    {tab : Array NodeRec} {r : Nat} (hex : exportTable (toHeap t.heap) x0 = some (tab, r)) :
    unfoldAt tab r = unfoldC t.heap f x0 := by
  rw [unfold_restored hinv f x0 hd, ← finV_eq hp hx hf]
  exact export_value (D := fun x => E x ∧ Done F free nameBlk t x) (V := finV F rnk)
    (fun n hn => finV_export hp hinv hn.1 hn.2) (fun n hn => fin_closed hp hinv hn.1 hn.2)
    ⟨hx, hd⟩ hex

end

/-- for `find_minimal_translation` -/
theorem fmt_final_export {h0 : Array Cell} {rk hd : Nat → Nat} (wf : WfHeap h0 rk hd)
    {root fuel : Nat} (hr : root < h0.size) (hdr : hd root = root) (hf : h0.size ≤ fuel)
    (one free : Bool) (nameBlk : Nat → Nat) (nu eu : Bool) {f : Nat} (hfu : h0.size ≤ f)
    {tab : Array NodeRec} {r : Nat}
    (hex : exportTable (toHeap (findMinimalTranslation fuel h0 root one free nameBlk nu eu).heap)
      (findMinimalTranslation fuel h0 root one free nameBlk nu eu).root = some (tab, r)) :
    unfoldAt tab r = unfoldC (findMinimalTranslation fuel h0 root one free nameBlk nu eu).heap f
      (findMinimalTranslation fuel h0 root one free nameBlk nu eu).root := by
  obtain ⟨p1, p2, p3, p4, p5, p6⟩ := pass1_facts wf hr hdr hf one free
  obtain ⟨q1, q2, q3, q4, q5⟩ := pass2_facts wf hr hdr hf one free nameBlk
  rw [fmt_heap, fmt_root, p2] at hex ⊢
  have hrank : rk (hd (res0 h0 rk one root)) < f := by
    have := res0_rank (one := one) wf hr hdr
    have := wf.rk_lt root hr
    omega
  exact final_export (pruned_of_inv wf p1) q1 q5 q2 hrank hex

end Yaep.PC
