import Yaep.Model.HashTab
import Yaep.Lemmas.ContainersPrime
/-!
# Hash table: refinement to a finite set (C19)

All statements are about the model of `hashtab.c` (`cxx = false`).
-/
namespace Yaep.Model.HashTab

/-! ## abstraction, counters, invariant -/

def isElem : Slot → Bool
  | Slot.elem _ => true
  | _ => false

/-- number of slots that are not `EMPTY` -/
def nonEmpty (t : Table) : Nat := t.slots.countP (fun s => s != Slot.empty)
/-- number of slots holding an element -/
def live (t : Table) : Nat := t.slots.countP isElem

theorem mem_elems {t : Table} {x : Nat} : x ∈ elems t ↔ ∃ i : Nat, t.slots[i]? = some (Slot.elem x) := by
  unfold elems
  rw [List.mem_filterMap]
  constructor
  · rintro ⟨s, hs, hx⟩
    obtain ⟨i, hi⟩ := List.mem_iff_getElem?.mp hs
    refine ⟨i, ?_⟩
    cases s with
    | elem v => simp at hx; rw [hi, hx]
    | empty => simp at hx
    | deleted => simp at hx
  · rintro ⟨i, hi⟩
    exact ⟨Slot.elem x, List.mem_iff_getElem?.mpr ⟨i, hi⟩, rfl⟩

/-- the start index and the step of the probe sequence of `x` in table `t` -/
abbrev P (hash : Nat → Nat) (t : Table) (x k : Nat) : Nat :=
  pidx t.size (startIdx hash t.size x) (stepOf hash t.size x) k

structure WF (hash : Nat → Nat) (t : Table) : Prop where
  len : t.slots.length = t.size
  prime : IsPrime t.size
  three : 3 ≤ t.size
  /-- no duplicates -/
  uniq : ∀ i j v : Nat, t.slots[i]? = some (Slot.elem v) → t.slots[j]? = some (Slot.elem v) → i = j
  /-- every stored element is reachable: no `EMPTY` slot before it on its probe path -/
  reach : ∀ i v : Nat, t.slots[i]? = some (Slot.elem v) →
    ∃ k : Nat, k < t.size ∧ P hash t v k = i ∧ ∀ j : Nat, j < k → t.slots[P hash t v j]? ≠ some Slot.empty

structure Cnt (t : Table) : Prop where
  /-- `number_of_elements` bounds the number of non-empty slots -/
  ne_le : nonEmpty t ≤ t.n
  /-- `number_of_elements - number_of_deleted_elements` is the number of stored elements -/
  live_d : live t + t.d = t.n

/-- the invariant of the table between operations -/
structure Inv (hash : Nat → Nat) (t : Table) : Prop where
  wf : WF hash t
  cnt : Cnt t

theorem stepOf_pos (hash : Nat → Nat) (size x : Nat) : 0 < stepOf hash size x := by
  unfold stepOf; omega

theorem stepOf_lt (hash : Nat → Nat) (size x : Nat) (h : 3 ≤ size) : stepOf hash size x < size := by
  unfold stepOf
  have : hash x % (size - 2) < size - 2 := Nat.mod_lt _ (by omega)
  omega

theorem P_lt {hash : Nat → Nat} {t : Table} (h : 3 ≤ t.size) (x k : Nat) : P hash t x k < t.size :=
  pidx_lt _ _ _ _ (by omega)

/-- if not every slot is non-empty there is an `EMPTY` slot -/
theorem exists_empty_of_nonEmpty_lt {t : Table} (hlen : t.slots.length = t.size)
    (h : nonEmpty t < t.size) : ∃ e, e < t.size ∧ t.slots[e]? = some Slot.empty := by
  unfold nonEmpty at h
  have hne : t.slots.countP (fun s => s != Slot.empty) ≠ t.slots.length := by omega
  have : ¬ ∀ a ∈ t.slots, (fun s => s != Slot.empty) a = true := fun hall =>
    hne (List.countP_eq_length.mpr hall)
  have : ∃ a, a ∈ t.slots ∧ a = Slot.empty := by
    apply Classical.byContradiction
    intro hno
    apply this
    intro a ha
    simp only [bne_iff_ne, ne_eq]
    intro hae
    exact hno ⟨a, ha, hae⟩
  obtain ⟨a, ha, hae⟩ := this
  obtain ⟨e, he⟩ := List.mem_iff_getElem?.mp ha
  obtain ⟨hlt, _⟩ := List.getElem?_eq_some_iff.mp he
  exact ⟨e, by omega, by rw [he, hae]⟩

/-! ## the probe loop -/

/-- what we know about `first_deleted_entry_ptr` after `k` probes -/
def FdOk (hash : Nat → Nat) (t : Table) (x : Nat) (fd : Option Nat) (k : Nat) : Prop :=
  ∀ d, fd = some d → ∃ kd, kd < k ∧ d = P hash t x kd ∧ t.slots[d]? = some Slot.deleted

theorem FdOk.mono {hash : Nat → Nat} {t : Table} {x : Nat} {fd : Option Nat} {k k' : Nat}
    (h : FdOk hash t x fd k) (hk : k ≤ k') : FdOk hash t x fd k' := by
  intro d hd
  obtain ⟨kd, h1, h2, h3⟩ := h d hd
  exact ⟨kd, by omega, h2, h3⟩

theorem probeLoop_spec (hash : Nat → Nat) (t : Table) (x : Nat)
    (hlen : t.slots.length = t.size) (h3 : 3 ≤ t.size) :
    ∀ fuel k fd,
    (∃ ke, k ≤ ke ∧ ke < k + fuel ∧ t.slots[P hash t x ke]? = some Slot.empty) →
    (∀ j, j < k → t.slots[P hash t x j]? ≠ some Slot.empty ∧ t.slots[P hash t x j]? ≠ some (Slot.elem x)) →
    FdOk hash t x fd k →
    ∃ k', k ≤ k' ∧ k' < k + fuel ∧
      (probeLoop t.slots t.size (stepOf hash t.size x) x fuel (P hash t x k) fd).1 = P hash t x k' ∧
      (t.slots[P hash t x k']? = some Slot.empty ∨ t.slots[P hash t x k']? = some (Slot.elem x)) ∧
      (∀ j, j < k' → t.slots[P hash t x j]? ≠ some Slot.empty ∧ t.slots[P hash t x j]? ≠ some (Slot.elem x)) ∧
      FdOk hash t x (probeLoop t.slots t.size (stepOf hash t.size x) x fuel (P hash t x k) fd).2 k' := by
  intro fuel
  induction fuel with
  | zero => intro k fd ⟨ke, h1, h2, _⟩; omega
  | succ fuel ih =>
    intro k fd ⟨ke, hke1, hke2, hke3⟩ hprev hfd
    have hlt : P hash t x k < t.slots.length := by rw [hlen]; exact P_lt h3 x k
    have hnext : next t.size (stepOf hash t.size x) (P hash t x k) = P hash t x (k + 1) :=
      next_pidx _ _ _ _ (stepOf_lt hash t.size x h3)
    unfold probeLoop
    cases hs : t.slots[P hash t x k]? with
    | none =>
      have := List.getElem?_eq_none_iff.mp hs
      omega
    | some sl =>
      cases sl with
      | empty =>
        exact ⟨k, Nat.le_refl _, by omega, rfl, Or.inl hs, hprev, hfd⟩
      | elem v =>
        by_cases hv : v = x
        · subst hv
          simp only [if_true]
          exact ⟨k, Nat.le_refl _, by omega, rfl, Or.inr hs, hprev, hfd⟩
        · simp only [hv, if_false]
          rw [hnext]
          have hkne : ke ≠ k := by
            intro e; rw [e, hs] at hke3; cases hke3
          have hprev' : ∀ j, j < k + 1 → t.slots[P hash t x j]? ≠ some Slot.empty ∧
              t.slots[P hash t x j]? ≠ some (Slot.elem x) := by
            intro j hj
            by_cases hjk : j = k
            · subst hjk
              rw [hs]
              exact ⟨by simp, by simp [hv]⟩
            · exact hprev j (by omega)
          obtain ⟨k', h1, h2, h3', h4, h5, h6⟩ :=
            ih (k + 1) fd ⟨ke, by omega, by omega, hke3⟩ hprev' (hfd.mono (by omega))
          exact ⟨k', by omega, by omega, h3', h4, h5, h6⟩
      | deleted =>
        simp only
        rw [hnext]
        have hkne : ke ≠ k := by
          intro e; rw [e, hs] at hke3; cases hke3
        have hprev' : ∀ j, j < k + 1 → t.slots[P hash t x j]? ≠ some Slot.empty ∧
            t.slots[P hash t x j]? ≠ some (Slot.elem x) := by
          intro j hj
          by_cases hjk : j = k
          · subst hjk
            rw [hs]
            exact ⟨by simp, by simp⟩
          · exact hprev j (by omega)
        have hfd' : FdOk hash t x (if fd.isNone then some (P hash t x k) else fd) (k + 1) := by
          cases fd with
          | none =>
            intro d hd
            simp at hd
            exact ⟨k, by omega, hd.symm, by rw [← hd]; exact hs⟩
          | some d0 =>
            simp only [Option.isNone_some]
            exact hfd.mono (by omega)
        obtain ⟨k', h1, h2, h3', h4, h5, h6⟩ :=
          ih (k + 1) _ ⟨ke, by omega, by omega, hke3⟩ hprev' hfd'
        exact ⟨k', by omega, by omega, h3', h4, h5, h6⟩

/-- result of `probe` on a well-formed table that has an `EMPTY` slot -/
theorem probe_spec {hash : Nat → Nat} {t : Table} (hw : WF hash t) (hroom : nonEmpty t < t.size)
    (x : Nat) :
    ∃ k', k' < t.size ∧ (probe hash t x).1 = P hash t x k' ∧
      (t.slots[P hash t x k']? = some Slot.empty ∨ t.slots[P hash t x k']? = some (Slot.elem x)) ∧
      (∀ j, j < k' → t.slots[P hash t x j]? ≠ some Slot.empty ∧ t.slots[P hash t x j]? ≠ some (Slot.elem x)) ∧
      FdOk hash t x (probe hash t x).2 k' := by
  obtain ⟨e, he, hes⟩ := exists_empty_of_nonEmpty_lt hw.len hroom
  obtain ⟨ke, hke, hpe⟩ := pidx_surj (a := startIdx hash t.size x) hw.prime
    (stepOf_pos hash t.size x) (stepOf_lt hash t.size x hw.three) e he
  have hP0 : P hash t x 0 = startIdx hash t.size x := by
    unfold P pidx startIdx
    simp only [Nat.zero_mul, Nat.add_zero]
    exact Nat.mod_eq_of_lt (Nat.mod_lt _ (by have := hw.three; omega))
  have := probeLoop_spec hash t x hw.len hw.three t.size 0 none
    ⟨ke, Nat.zero_le _, by omega, by show t.slots[pidx _ _ _ ke]? = _; rw [hpe]; exact hes⟩
    (by intro j hj; omega) (by intro d hd; cases hd)
  obtain ⟨k', _, h2, h3, h4, h5, h6⟩ := this
  rw [hP0] at h3 h6
  exact ⟨k', by omega, h3, h4, h5, h6⟩

/-- an element is stored iff the probe stops at it -/
theorem probe_elem_iff {hash : Nat → Nat} {t : Table} (hw : WF hash t) (x k' : Nat)
    (hstop : t.slots[P hash t x k']? = some Slot.empty ∨ t.slots[P hash t x k']? = some (Slot.elem x))
    (hprev : ∀ j, j < k' → t.slots[P hash t x j]? ≠ some Slot.empty ∧ t.slots[P hash t x j]? ≠ some (Slot.elem x)) :
    x ∈ elems t ↔ t.slots[P hash t x k']? = some (Slot.elem x) := by
  constructor
  · intro hx
    rcases hstop with he | he
    · exfalso
      obtain ⟨i, hi⟩ := mem_elems.mp hx
      obtain ⟨k0, _, hk0, hpath⟩ := hw.reach i x hi
      rcases Nat.lt_trichotomy k0 k' with h | h | h
      · exact (hprev k0 h).2 (by rw [hk0]; exact hi)
      · subst h; rw [hk0, hi] at he; cases he
      · exact hpath k' h he
    · exact he
  · intro he
    exact mem_elems.mpr ⟨_, he⟩

/-! ## single slot updates -/

theorem getElem_of_some {l : List Slot} {i : Nat} {a : Slot} (h : l[i]? = some a) :
    ∃ hi : i < l.length, l[i] = a := List.getElem?_eq_some_iff.mp h

/-- storing `x` (not yet in the table) into a slot of its probe path that is `EMPTY` or
`DELETED`, with no `EMPTY` slot before it -/
theorem place_spec {hash : Nat → Nat} {t : Table} (hw : WF hash t) (hc : Cnt t) (x kt : Nat)
    (hkt : kt < t.size) (hx : x ∉ elems t)
    (hslot : t.slots[P hash t x kt]? = some Slot.empty ∨ t.slots[P hash t x kt]? = some Slot.deleted)
    (hpath : ∀ j, j < kt → t.slots[P hash t x j]? ≠ some Slot.empty) :
    let t' : Table := { t with n := t.n + 1, slots := t.slots.set (P hash t x kt) (Slot.elem x) }
    WF hash t' ∧ Cnt t' ∧ (∀ y, y ∈ elems t' ↔ y = x ∨ y ∈ elems t) := by
  intro t'
  have hlt : P hash t x kt < t.slots.length := by rw [hw.len]; exact P_lt hw.three x kt
  have hget : ∀ i, t'.slots[i]? = if P hash t x kt = i then some (Slot.elem x) else t.slots[i]? := by
    intro i
    show (t.slots.set _ _)[i]? = _
    rw [List.getElem?_set]
    by_cases h : P hash t x kt = i
    · subst h; simp [hlt]
    · simp [h]
  have hP : ∀ v k, P hash t' v k = P hash t v k := fun _ _ => rfl
  refine ⟨?_, ?_, ?_⟩
  · constructor
    · show (t.slots.set _ _).length = t.size
      rw [List.length_set]; exact hw.len
    · exact hw.prime
    · exact hw.three
    · intro i j v hi hj
      rw [hget] at hi hj
      by_cases h1 : P hash t x kt = i <;> by_cases h2 : P hash t x kt = j
      · omega
      · rw [if_pos h1] at hi; rw [if_neg h2] at hj
        have : v = x := by cases hi; rfl
        subst this
        exact absurd (mem_elems.mpr ⟨j, hj⟩) hx
      · rw [if_neg h1] at hi; rw [if_pos h2] at hj
        have : v = x := by cases hj; rfl
        subst this
        exact absurd (mem_elems.mpr ⟨i, hi⟩) hx
      · rw [if_neg h1] at hi; rw [if_neg h2] at hj
        exact hw.uniq i j v hi hj
    · intro i v hi
      rw [hget] at hi
      by_cases h1 : P hash t x kt = i
      · rw [if_pos h1] at hi
        have : v = x := by cases hi; rfl
        subst this
        refine ⟨kt, hkt, h1, ?_⟩
        intro j hj
        rw [hP, hget]
        by_cases h2 : P hash t v kt = P hash t v j
        · rw [if_pos h2]; simp
        · rw [if_neg h2]; exact hpath j hj
      · rw [if_neg h1] at hi
        obtain ⟨k, hk, hki, hp⟩ := hw.reach i v hi
        refine ⟨k, hk, hki, ?_⟩
        intro j hj
        rw [hP, hget]
        by_cases h2 : P hash t x kt = P hash t v j
        · rw [if_pos h2]; simp
        · rw [if_neg h2]; exact hp j hj
  · obtain ⟨hi, hval⟩ : ∃ hi : P hash t x kt < t.slots.length,
        t.slots[P hash t x kt] = Slot.empty ∨ t.slots[P hash t x kt] = Slot.deleted := by
      rcases hslot with h | h
      · obtain ⟨hi, hv⟩ := getElem_of_some h; exact ⟨hi, Or.inl hv⟩
      · obtain ⟨hi, hv⟩ := getElem_of_some h; exact ⟨hi, Or.inr hv⟩
    constructor
    · show (t.slots.set _ _).countP _ ≤ t.n + 1
      rw [List.countP_set hi]
      have := hc.ne_le
      unfold nonEmpty at this
      rcases hval with hv | hv <;> rw [hv] <;> simp <;> omega
    · show (t.slots.set _ _).countP isElem + t.d = t.n + 1
      rw [List.countP_set hi]
      have := hc.live_d
      unfold live at this
      rcases hval with hv | hv <;> rw [hv] <;> simp [isElem] <;> omega
  · intro y
    rw [mem_elems, mem_elems]
    constructor
    · rintro ⟨i, hi⟩
      rw [hget] at hi
      by_cases h1 : P hash t x kt = i
      · rw [if_pos h1] at hi; left; cases hi; rfl
      · rw [if_neg h1] at hi; right; exact ⟨i, hi⟩
    · rintro (h | ⟨i, hi⟩)
      · subst h
        exact ⟨P hash t y kt, by rw [hget, if_pos rfl]⟩
      · refine ⟨i, ?_⟩
        rw [hget]
        by_cases h1 : P hash t x kt = i
        · exfalso
          rw [← h1] at hi
          rcases hslot with h | h <;> rw [h] at hi <;> cases hi
        · rw [if_neg h1]; exact hi

/-- overwriting the slot of a stored element with `DELETED` -/
theorem delete_spec {hash : Nat → Nat} {t : Table} (hw : WF hash t) (hc : Cnt t) (x i : Nat)
    (hi : t.slots[i]? = some (Slot.elem x)) :
    let t' : Table := { t with slots := t.slots.set i Slot.deleted, d := t.d + 1 }
    WF hash t' ∧ Cnt t' ∧ (∀ y, y ∈ elems t' ↔ y ≠ x ∧ y ∈ elems t) := by
  intro t'
  obtain ⟨hlt, hval⟩ := getElem_of_some hi
  have hget : ∀ j, t'.slots[j]? = if i = j then some Slot.deleted else t.slots[j]? := by
    intro j
    show (t.slots.set _ _)[j]? = _
    rw [List.getElem?_set]
    by_cases h : i = j
    · subst h; simp [hlt]
    · simp [h]
  have hP : ∀ v k, P hash t' v k = P hash t v k := fun _ _ => rfl
  refine ⟨?_, ?_, ?_⟩
  · constructor
    · show (t.slots.set _ _).length = t.size
      rw [List.length_set]; exact hw.len
    · exact hw.prime
    · exact hw.three
    · intro a b v ha hb
      rw [hget] at ha hb
      by_cases h1 : i = a
      · rw [if_pos h1] at ha; cases ha
      · by_cases h2 : i = b
        · rw [if_pos h2] at hb; cases hb
        · rw [if_neg h1] at ha; rw [if_neg h2] at hb
          exact hw.uniq a b v ha hb
    · intro a v ha
      rw [hget] at ha
      by_cases h1 : i = a
      · rw [if_pos h1] at ha; cases ha
      · rw [if_neg h1] at ha
        obtain ⟨k, hk, hka, hp⟩ := hw.reach a v ha
        refine ⟨k, hk, hka, ?_⟩
        intro j hj
        rw [hP, hget]
        by_cases h2 : i = P hash t v j
        · rw [if_pos h2]; simp
        · rw [if_neg h2]; exact hp j hj
  · constructor
    · show (t.slots.set _ _).countP _ ≤ t.n
      rw [List.countP_set hlt, hval]
      have := hc.ne_le
      unfold nonEmpty at this
      have hpos : 0 < t.slots.countP (fun s => s != Slot.empty) :=
        List.countP_pos_iff.mpr ⟨Slot.elem x, List.mem_iff_getElem?.mpr ⟨i, hi⟩, by simp⟩
      simp
      omega
    · show (t.slots.set _ _).countP isElem + (t.d + 1) = t.n
      rw [List.countP_set hlt, hval]
      have := hc.live_d
      unfold live at this
      have hpos : 0 < t.slots.countP isElem :=
        List.countP_pos_iff.mpr ⟨Slot.elem x, List.mem_iff_getElem?.mpr ⟨i, hi⟩, rfl⟩
      simp [isElem]
      omega
  · intro y
    rw [mem_elems, mem_elems]
    constructor
    · rintro ⟨a, ha⟩
      rw [hget] at ha
      by_cases h1 : i = a
      · rw [if_pos h1] at ha; cases ha
      · rw [if_neg h1] at ha
        refine ⟨?_, a, ha⟩
        intro hyx
        subst hyx
        exact h1 (hw.uniq i a y hi ha)
    · rintro ⟨hyx, a, ha⟩
      refine ⟨a, ?_⟩
      rw [hget]
      by_cases h1 : i = a
      · exfalso
        subst h1
        rw [hi] at ha
        cases ha
        exact hyx rfl
      · rw [if_neg h1]; exact ha

/-! ## `find_hash_table_entry (…, TRUE)` + store -/

theorem insertCore_spec {hash : Nat → Nat} {t : Table} (hw : WF hash t) (hc : Cnt t)
    (hroom : nonEmpty t < t.size) (x : Nat) :
    WF hash (insertCore false hash t x).1 ∧ Cnt (insertCore false hash t x).1 ∧
    (insertCore false hash t x).1.size = t.size ∧ (insertCore false hash t x).1.d = t.d ∧
    (insertCore false hash t x).1.n ≤ t.n + 1 ∧
    (∀ y, y ∈ elems (insertCore false hash t x).1 ↔ y = x ∨ y ∈ elems t) ∧
    ((insertCore false hash t x).2 = true ↔ x ∉ elems t) := by
  obtain ⟨k', hk', hidx, hstop, hprev, hfd⟩ := probe_spec hw hroom x
  have hiff := probe_elem_iff hw x k' hstop hprev
  generalize hpr : probe hash t x = pr at hidx hfd
  obtain ⟨i, fd⟩ := pr
  simp only at hidx hfd
  subst hidx
  rcases hstop with he | he
  · -- the probe stopped at an EMPTY slot: x is new
    have hx : x ∉ elems t := by
      intro hx'; rw [hiff.mp hx'] at he; cases he
    cases fd with
    | none =>
      have e : insertCore false hash t x =
          ({ t with n := t.n + 1, slots := t.slots.set (P hash t x k') (Slot.elem x) }, true) := by
        unfold insertCore findCore
        simp only [hpr, he, if_true]
      rw [e]
      obtain ⟨h1, h2, h3⟩ := place_spec hw hc x k' hk' hx (Or.inl he) (fun j hj => (hprev j hj).1)
      exact ⟨h1, h2, rfl, rfl, Nat.le_refl _, h3, by simp [hx]⟩
    | some j =>
      obtain ⟨kd, hkd, hj, hdel⟩ := hfd j rfl
      subst hj
      have hlt : P hash t x kd < t.slots.length := by rw [hw.len]; exact P_lt hw.three x kd
      have e : insertCore false hash t x =
          ({ t with n := t.n + 1, slots := t.slots.set (P hash t x kd) (Slot.elem x) }, true) := by
        unfold insertCore findCore
        simp only [hpr, he, if_true, Bool.false_eq_true, if_false]
        rw [List.getElem?_set_self hlt]
        simp only [List.set_set]
      rw [e]
      obtain ⟨h1, h2, h3⟩ := place_spec hw hc x kd (by omega) hx (Or.inr hdel)
        (fun j hj => (hprev j (by omega)).1)
      exact ⟨h1, h2, rfl, rfl, Nat.le_refl _, h3, by simp [hx]⟩
  · -- the probe stopped at x
    have hx : x ∈ elems t := hiff.mpr he
    have e : insertCore false hash t x = (t, false) := by
      unfold insertCore findCore
      simp only [hpr, he]
    rw [e]
    refine ⟨hw, hc, rfl, rfl, Nat.le_succ _, ?_, by simp [hx]⟩
    intro y
    constructor
    · intro h; exact Or.inr h
    · rintro (h | h)
      · subst h; exact hx
      · exact h

/-! ## expansion -/

theorem elems_fresh (sz : Nat) : elems (fresh sz) = [] := by
  unfold elems fresh
  rw [List.filterMap_replicate_of_none rfl]

theorem fresh_spec (hash : Nat → Nat) (sz : Nat) (hp : IsPrime sz) (h3 : 3 ≤ sz) :
    WF hash (fresh sz) ∧ Cnt (fresh sz) := by
  have hno : ∀ (i v : Nat), (fresh sz).slots[i]? ≠ some (Slot.elem v) := by
    intro i v h
    have := List.mem_iff_getElem?.mpr ⟨i, h⟩
    simp [fresh, List.mem_replicate] at this
  constructor
  · constructor
    · simp [fresh]
    · exact hp
    · exact h3
    · intro i j v hi; exact absurd hi (hno i v)
    · intro i v hi; exact absurd hi (hno i v)
  · constructor
    · simp [nonEmpty, fresh, List.countP_replicate]
    · simp [live, fresh, List.countP_replicate, isElem]

theorem rehash_fold (hash : Nat → Nat) : ∀ (l : List Nat) (acc : Table),
    WF hash acc → Cnt acc → acc.n + l.length < acc.size →
    WF hash (l.foldl (fun acc v => (insertCore false hash acc v).1) acc) ∧
    Cnt (l.foldl (fun acc v => (insertCore false hash acc v).1) acc) ∧
    (l.foldl (fun acc v => (insertCore false hash acc v).1) acc).size = acc.size ∧
    (l.foldl (fun acc v => (insertCore false hash acc v).1) acc).d = acc.d ∧
    (l.foldl (fun acc v => (insertCore false hash acc v).1) acc).n ≤ acc.n + l.length ∧
    (∀ y, y ∈ elems (l.foldl (fun acc v => (insertCore false hash acc v).1) acc) ↔
      y ∈ elems acc ∨ y ∈ l) := by
  intro l
  induction l with
  | nil => intro acc hw hc _; exact ⟨hw, hc, rfl, rfl, Nat.le_refl _, by simp⟩
  | cons v l ih =>
    intro acc hw hc hroom
    simp only [List.length_cons] at hroom
    have hne := hc.ne_le
    obtain ⟨h1, h2, h3, h4, h5, h6, _⟩ := insertCore_spec hw hc (by omega) v
    obtain ⟨g1, g2, g3, g4, g5, g6⟩ := ih (insertCore false hash acc v).1 h1 h2 (by rw [h3]; omega)
    simp only [List.foldl_cons, List.length_cons]
    refine ⟨g1, g2, by rw [g3, h3], by rw [g4, h4], by omega, ?_⟩
    intro y
    rw [g6, h6, List.mem_cons]
    constructor
    · rintro ((h | h) | h)
      · exact Or.inr (Or.inl h)
      · exact Or.inl h
      · exact Or.inr (Or.inr h)
    · rintro (h | h | h)
      · exact Or.inl (Or.inr h)
      · exact Or.inl (Or.inl h)
      · exact Or.inr h

theorem length_elems (t : Table) : (elems t).length = live t := by
  unfold elems live
  rw [List.length_filterMap_eq_countP]
  congr 1
  funext s
  cases s <;> rfl

theorem needExpand_false_room {t : Table} (h : needExpand t = false) : t.n < t.size := by
  unfold needExpand at h
  have : ¬ (t.size / 4 ≤ t.n / 3) := by simpa using h
  omega

/-- after the expansion check the table is well formed, has the same elements and an `EMPTY`
slot -/
theorem prepare_spec {hash : Nat → Nat} {t : Table} (hi : Inv hash t) :
    Inv hash (prepare false hash t) ∧ nonEmpty (prepare false hash t) < (prepare false hash t).size ∧
    (∀ y, y ∈ elems (prepare false hash t) ↔ y ∈ elems t) := by
  unfold prepare
  cases hne : needExpand t with
  | false =>
    simp only [Bool.false_eq_true, if_false]
    have := needExpand_false_room hne
    have := hi.cnt.ne_le
    exact ⟨hi, by omega, fun _ => trivial⟩
  | true =>
    simp only [if_true]
    unfold rehash
    have hsp := higherPrime_spec (t.n * 2)
    have hgt := higherPrime_gt (t.n * 2)
    obtain ⟨fw, fc⟩ := fresh_spec hash (higherPrime (t.n * 2)) hsp.1 (by omega)
    have hlen : (elems t).length ≤ t.n := by
      rw [length_elems]; have := hi.cnt.live_d; omega
    obtain ⟨g1, g2, g3, g4, g5, g6⟩ := rehash_fold hash (elems t) (fresh (higherPrime (t.n * 2))) fw fc
      (by show 0 + _ < higherPrime _; omega)
    refine ⟨⟨g1, g2⟩, ?_, ?_⟩
    · have := g2.ne_le
      rw [g3]
      have : (fresh (higherPrime (t.n * 2))).n = 0 := rfl
      show _ < higherPrime _
      omega
    · intro y
      rw [g6, elems_fresh]
      simp

/-! ## the operations of the harness -/

theorem lookup_spec {hash : Nat → Nat} {t : Table} (hi : Inv hash t) (x : Nat) :
    Inv hash (lookup false hash t x).1 ∧ (∀ y, y ∈ elems (lookup false hash t x).1 ↔ y ∈ elems t) ∧
    ((lookup false hash t x).2 = true ↔ x ∈ elems t) := by
  obtain ⟨hp, hroom, hel⟩ := prepare_spec hi
  simp only [lookup]
  generalize prepare false hash t = t1 at hp hroom hel ⊢
  obtain ⟨k', hk', hidx, hstop, hprev, hfd⟩ := probe_spec hp.wf hroom x
  have hiff := probe_elem_iff hp.wf x k' hstop hprev
  have e1 : (findCore false hash t1 x false) = (t1, P hash t1 x k') := by
    simp only [findCore, hidx]
    rcases hstop with he | he <;> simp [he]
  rw [e1]
  refine ⟨hp, hel, ?_⟩
  rw [← hel x, hiff]
  rcases hstop with he | he <;> simp [he]

theorem insert_spec {hash : Nat → Nat} {t : Table} (hi : Inv hash t) (x : Nat) :
    Inv hash (insert false hash t x).1 ∧
    (∀ y, y ∈ elems (insert false hash t x).1 ↔ y = x ∨ y ∈ elems t) ∧
    ((insert false hash t x).2 = true ↔ x ∉ elems t) := by
  obtain ⟨hp, hroom, hel⟩ := prepare_spec hi
  unfold insert
  generalize prepare false hash t = t1 at hp hroom hel
  obtain ⟨h1, h2, _, _, _, h6, h7⟩ := insertCore_spec hp.wf hp.cnt hroom x
  refine ⟨⟨h1, h2⟩, ?_, ?_⟩
  · intro y; rw [h6, hel]
  · rw [h7, hel]

theorem remove_spec {hash : Nat → Nat} {t : Table} (hi : Inv hash t) (x : Nat) :
    Inv hash (remove false hash t x).1 ∧
    (∀ y, y ∈ elems (remove false hash t x).1 ↔ y ≠ x ∧ y ∈ elems t) ∧
    ((remove false hash t x).2 = true ↔ x ∈ elems t) := by
  obtain ⟨hp, hroom, hel⟩ := prepare_spec hi
  generalize hg : prepare false hash t = t1 at hp hroom hel
  obtain ⟨k', hk', hidx, hstop, hprev, hfd⟩ := probe_spec hp.wf hroom x
  have hiff := probe_elem_iff hp.wf x k' hstop hprev
  have e1 : (findCore false hash t1 x false) = (t1, P hash t1 x k') := by
    simp only [findCore, hidx]
    rcases hstop with he | he <;> simp [he]
  simp only [remove, hg, e1]
  rcases hstop with he | he
  · have hx : x ∉ elems t1 := by
      intro hx'; rw [hiff.mp hx'] at he; cases he
    simp only [he]
    refine ⟨hp, ?_, ?_⟩
    · intro y
      rw [hel]
      constructor
      · intro hy
        refine ⟨?_, hy⟩
        intro hyx; subst hyx; exact hx ((hel y).mpr hy)
      · exact fun h => h.2
    · rw [← hel x]; simp [hx]
  · have hx : x ∈ elems t1 := hiff.mpr he
    simp only [he]
    obtain ⟨d1, d2, d3⟩ := delete_spec hp.wf hp.cnt x _ he
    refine ⟨⟨d1, d2⟩, ?_, ?_⟩
    · intro y; rw [d3, hel]
    · rw [← hel x]; simp [hx]

theorem clear_spec {hash : Nat → Nat} {t : Table} (hi : Inv hash t) :
    Inv hash t.clear ∧ elems t.clear = [] := by
  obtain ⟨fw, fc⟩ := fresh_spec hash t.size hi.wf.prime hi.wf.three
  exact ⟨⟨fw, fc⟩, elems_fresh t.size⟩

theorem create_spec (hash : Nat → Nat) (sz : Nat) :
    Inv hash (create sz) ∧ elems (create sz) = [] := by
  have hsp := higherPrime_spec sz
  obtain ⟨fw, fc⟩ := fresh_spec hash (higherPrime sz) hsp.1 (by omega)
  exact ⟨⟨fw, fc⟩, elems_fresh _⟩

/-! ## refinement to a finite set -/

/-- abstract semantics: a duplicate-free list of naturals used as a finite set -/
def specStep (s : List Nat) : Op → List Nat
  | .insert x => if x ∈ s then s else x :: s
  | .remove x => s.filter (· != x)
  | .empty => []
  | .find _ => s
  | .size => s

def specRun (ops : List Op) : List Nat := ops.foldl specStep []

/-- what the abstract set says about the observation made by an operation -/
def obsOk (s : List Nat) : Op → Obs → Prop
  | .find x, .found b => (b = true ↔ x ∈ s)
  | .insert x, .inserted b => (b = true ↔ x ∉ s)
  | .remove x, .removed b => (b = true ↔ x ∈ s)
  | .empty, .none => True
  | .size, .size _ e => e = s.length
  | _, _ => False

theorem elems_nodup {hash : Nat → Nat} {t : Table} (hw : WF hash t) : (elems t).Nodup := by
  unfold elems
  rw [List.nodup_iff_pairwise_ne]
  refine List.Pairwise.filterMap (R := fun a a' => ∀ v, a = Slot.elem v → a' ≠ Slot.elem v) _ ?_ ?_
  · intro a a' hR b hb b' hb'
    cases a with
    | elem v =>
      cases a' with
      | elem v' =>
        simp at hb hb'
        subst hb; subst hb'
        intro e; subst e
        exact hR v rfl rfl
      | empty => simp at hb'
      | deleted => simp at hb'
    | empty => simp at hb
    | deleted => simp at hb
  · rw [List.pairwise_iff_getElem]
    intro i j hi hj hij v h1 h2
    have e1 : t.slots[i]? = some (Slot.elem v) := by rw [List.getElem?_eq_getElem hi, h1]
    have e2 : t.slots[j]? = some (Slot.elem v) := by rw [List.getElem?_eq_getElem hj, h2]
    have := hw.uniq i j v e1 e2
    omega

/-- `hash_table_elements_number` is the cardinality of the abstract set -/
theorem elemsNumber_eq {hash : Nat → Nat} {t : Table} (hi : Inv hash t) :
    t.elemsNumber = (elems t).length := by
  rw [length_elems]
  have := hi.cnt.live_d
  unfold Table.elemsNumber
  omega

theorem specStep_nodup (s : List Nat) (op : Op) (h : s.Nodup) : (specStep s op).Nodup := by
  cases op with
  | insert x =>
    simp only [specStep]
    split
    · exact h
    · rename_i hx; exact List.nodup_cons.mpr ⟨hx, h⟩
  | remove x => exact List.Pairwise.filter _ h
  | empty => exact List.Pairwise.nil
  | find x => exact h
  | size => exact h

/-- one operation: invariant, refinement and observation -/
theorem step_refines {hash : Nat → Nat} {t : Table} (hi : Inv hash t) (s : List Nat)
    (hs : s.Nodup) (hr : ∀ y, y ∈ elems t ↔ y ∈ s) (op : Op) :
    Inv hash (stepOp false hash t op).1 ∧
    (∀ y, y ∈ elems (stepOp false hash t op).1 ↔ y ∈ specStep s op) ∧
    obsOk s op (stepOp false hash t op).2 := by
  cases op with
  | find x =>
    obtain ⟨h1, h2, h3⟩ := lookup_spec hi x
    refine ⟨h1, ?_, ?_⟩
    · intro y; show y ∈ elems (lookup false hash t x).1 ↔ _; rw [h2, hr]; rfl
    · show (lookup false hash t x).2 = true ↔ x ∈ s
      rw [h3, hr]
  | insert x =>
    obtain ⟨h1, h2, h3⟩ := insert_spec hi x
    refine ⟨h1, ?_, ?_⟩
    · intro y
      show y ∈ elems (insert false hash t x).1 ↔ _
      rw [h2, hr]
      simp only [specStep]
      split
      · rename_i hx
        constructor
        · rintro (e | e)
          · subst e; exact hx
          · exact e
        · exact Or.inr
      · simp [List.mem_cons]
    · show (insert false hash t x).2 = true ↔ x ∉ s
      rw [h3, hr]
  | remove x =>
    obtain ⟨h1, h2, h3⟩ := remove_spec hi x
    refine ⟨h1, ?_, ?_⟩
    · intro y
      show y ∈ elems (remove false hash t x).1 ↔ _
      rw [h2, hr]
      simp only [specStep, List.mem_filter, bne_iff_ne, ne_eq]
      exact And.comm
    · show (remove false hash t x).2 = true ↔ x ∈ s
      rw [h3, hr]
  | empty =>
    obtain ⟨h1, h2⟩ := clear_spec hi
    refine ⟨h1, ?_, trivial⟩
    intro y
    show y ∈ elems t.clear ↔ _
    rw [h2]; simp [specStep]
  | size =>
    refine ⟨hi, hr, ?_⟩
    show t.elemsNumber = s.length
    rw [elemsNumber_eq hi]
    exact ((List.perm_ext_iff_of_nodup (elems_nodup hi.wf) hs).mpr hr).length_eq

theorem run_refines_aux (hash : Nat → Nat) : ∀ (ops : List Op) (t : Table) (s : List Nat),
    Inv hash t → s.Nodup → (∀ y, y ∈ elems t ↔ y ∈ s) →
    Inv hash (run false hash t ops) ∧ (ops.foldl specStep s).Nodup ∧
    (∀ y, y ∈ elems (run false hash t ops) ↔ y ∈ ops.foldl specStep s) := by
  intro ops
  induction ops with
  | nil => intro t s hi hs hr; exact ⟨hi, hs, hr⟩
  | cons op ops ih =>
    intro t s hi hs hr
    obtain ⟨h1, h2, _⟩ := step_refines hi s hs hr op
    exact ih _ _ h1 (specStep_nodup s op hs) h2

theorem run_append (cxx : Bool) (hash : Nat → Nat) (t : Table) (a b : List Op) :
    run cxx hash t (a ++ b) = run cxx hash (run cxx hash t a) b := by
  simp [run, List.foldl_append]

/-! ## termination of the probe loop -/

/-- `probe_terminates`: on a well-formed table with an `EMPTY` slot the `for (;;)` loop of
`find_hash_table_entry` leaves through one of its `break`s after fewer than `size` further
iterations (the fuel of the model is never the reason to stop): the returned slot is the
`k`-th slot of the probe sequence for some `k < size` and holds `EMPTY` or the element. -/
theorem probe_terminates_wf {hash : Nat → Nat} {t : Table} (hw : WF hash t)
    (hroom : nonEmpty t < t.size) (x : Nat) :
    ∃ k, k < t.size ∧ (probe hash t x).1 = P hash t x k ∧
      (t.slots[(probe hash t x).1]? = some Slot.empty ∨
       t.slots[(probe hash t x).1]? = some (Slot.elem x)) := by
  obtain ⟨k', hk', hidx, hstop, _, _⟩ := probe_spec hw hroom x
  exact ⟨k', hk', hidx, by rw [hidx]; exact hstop⟩

/-! ## the nested expansion check of `expand_hash_table` is never true -/

/-- While `expand_hash_table` fills the new table through `find_hash_table_entry`, the
expansion test at the beginning of `find_hash_table_entry` is false for the new table, so the
model's `rehash` (which inserts without that test) is what the C code does. -/
theorem rehash_no_nested_expand {hash : Nat → Nat} {t : Table} (hi : Inv hash t)
    (l1 l2 : List Nat) (v : Nat) (hsplit : elems t = l1 ++ v :: l2) :
    needExpand (l1.foldl (fun acc v => (insertCore false hash acc v).1)
      (fresh (higherPrime (t.n * 2)))) = false := by
  have hsp := higherPrime_spec (t.n * 2)
  obtain ⟨fw, fc⟩ := fresh_spec hash (higherPrime (t.n * 2)) hsp.1 (by omega)
  have hlen : (elems t).length ≤ t.n := by
    rw [length_elems]; have := hi.cnt.live_d; omega
  have hl1 : l1.length + 1 ≤ t.n := by
    rw [hsplit] at hlen; simp at hlen; omega
  have h2 : t.n * 2 / 2 * 2 + 3 = t.n * 2 + 3 := by omega
  obtain ⟨_, _, g3, _, g5, _⟩ := rehash_fold hash l1 (fresh (higherPrime (t.n * 2))) fw fc
    (by show 0 + _ < higherPrime _; omega)
  generalize (l1.foldl (fun acc v => (insertCore false hash acc v).1)
      (fresh (higherPrime (t.n * 2)))) = acc at g3 g5
  have e3 : acc.size = higherPrime (t.n * 2) := g3
  have e5 : acc.n ≤ l1.length := by
    have : (fresh (higherPrime (t.n * 2))).n = 0 := rfl
    omega
  unfold needExpand
  simp only [decide_eq_false_iff_not]
  omega

end Yaep.Model.HashTab
