import Yaep.Props.HeapWf
/-!
# No garbage: evaluation tests (the conjecture was tested this way before it was proved)

`garbage s`: the cells of the final heap that are not reachable from the result cell, other than
`rootId` and an unused NIL / ERROR node; `chkStep`: a Boolean version of the invariant `NG.Inv`
(reachability, flags, slots, filled abstract nodes), checked after every iteration of the main loop.
Grammars: an ambiguous expression grammar (ALT chains, reused abstract nodes, `copy_anode`),
nullable / pass-through rules (NIL nodes), the shape of D9b, an `error` rule.
-/
namespace Yaep.NG.Test
open Yaep

def edges (h : Array MP.MNode) (n : Nat) : List Nat :=
  match h.getD n .nil with
  | .anode _ _ ks => ks.toList.filterMap id
  | .alt nd nx => nd :: nx.toList
  | _ => []

def reachAll (h : Array MP.MNode) : Nat → List Nat → List Nat → List Nat
  | 0, _, acc => acc
  | _, [], acc => acc
  | fuel + 1, n :: t, acc =>
    if acc.contains n then reachAll h fuel t acc else reachAll h fuel (edges h n ++ t) (n :: acc)

def reachFrom (h : Array MP.MNode) (r : Nat) : List Nat :=
  reachAll h (h.size * h.size + h.size + 10) [r] []

/-- the unreachable cells at the end of a run (a memory leak of the C code if not empty) -/
def garbage (s : MP.St) : List Nat :=
  match s.result with
  | none => [999999]
  | some r =>
    let R := reachFrom s.heap r
    (List.range s.heap.size).filter fun i =>
      i != MP.rootId && !R.contains i && !(i == MP.nilId && !s.nilUsed) && !(i == MP.errId && !s.errUsed)

/-- an unused NIL / ERROR node that is referred to (it would be freed twice) -/
def badUnused (s : MP.St) : Bool :=
  match s.result with
  | none => true
  | some r =>
    let R := reachFrom s.heap r
    (R.contains MP.nilId && !s.nilUsed) || (R.contains MP.errId && !s.errUsed)

def pslot (h : Array MP.MNode) (pa d : Nat) : Bool :=
  match h.getD pa .nil with
  | .anode _ _ ks => (pa == 2 && d == 0 && ks.size == 1) || (3 ≤ pa && d + 1 < ks.size)
  | _ => false

/-- the invariant, as a Boolean -/
def chkStep (c : MP.Ctx) (s : MP.St) : Bool :=
  let h := s.heap
  let R := reachFrom h 2
  (List.range h.size).all (fun i => i < 3 || R.contains i) &&
  (!s.nilUsed || R.contains 0) && (!s.errUsed || R.contains 1) &&
  (List.range h.size).all (fun u =>
    (s.nilUsed || !(edges h u).contains 0) && (s.errUsed || !(edges h u).contains 1) &&
    !(edges h u).contains 2) &&
  (List.range h.size).all (fun i => i < 3 ||
    match h.getD i .nil with
    | .anode _ _ ks =>
      ks.size != 0 && (ks.getD (ks.size - 1) none).isNone &&
      ((List.range (ks.size - 1)).all (fun j => (ks.getD j none).isSome) ||
        s.stack.any fun sid => (s.state sid).anode == some i)
    | .nil => false
    | .err => false
    | _ => true) &&
  !s.stack.contains 0 && (s.state 0).anode == some 2 &&
  (List.range (s.states.size + 2)).all (fun sid =>
    let st := s.state sid
    (sid == 0 ||
      match st.anode with
      | some a =>
        (match h.getD a .nil with
         | .anode _ _ ks => 3 ≤ a && ks.size == (c.rule st.rule).transLen + 1
         | _ => false)
      | none => true) &&
    (match (s.state st.parent).anode with
     | some pa => pslot h pa st.parentDisp
     | none => false))

def runChk (c : MP.Ctx) : Nat → MP.St → Bool
  | 0, _ => false
  | f + 1, s => chkStep c s && (s.stack.isEmpty || runChk c f (MP.step c s))

/-- every run (both modes) of the inputs `ws`: the invariant holds after every iteration, the final
heap has no garbage, an unused NIL / ERROR node is not referred to -/
def test (raw : RawGrammar) (ws : List (List Nat)) : Bool :=
  match readGrammar raw with
  | .error _ => false
  | .ok g =>
    ws.all fun w =>
      [false, true].all fun one =>
        (BS.buildPLC g 1 w).1.isNone &&
        let c := MP.mkCtx g (plSets g 1 w) (plTokNums w) one
        match MP.init c with
        | none => false
        | some s0 =>
          runChk c 5000 s0 &&
          match MP.run c 5000 s0 with
          | none => false
          | some s => !s.bad && garbage s == [] && !badUnused s

/-- `E : E '+' E # plus(0 2) | 'a' # 0` -/
def gE : RawGrammar :=
  ⟨[("a", 97), ("+", 43)],
   [⟨"E", ["E", "+", "E"], some "plus", 0, some [0, 2]⟩,
    ⟨"E", ["a"], none, 0, some [0]⟩], false⟩

/-- nullable and pass-through rules -/
def gP : RawGrammar :=
  ⟨[("a", 97), ("b", 98)],
   [⟨"S", ["A", "B", "A"], some "s", 0, some [0, 1, 2]⟩,
    ⟨"A", ["a"], none, 0, some [0]⟩,
    ⟨"A", [], none, 0, none⟩,
    ⟨"A", ["a", "A"], some "aa", 0, some [1]⟩,
    ⟨"B", ["A", "b"], none, 0, some [0]⟩,
    ⟨"B", ["b"], some "b", 0, some []⟩,
    ⟨"B", ["A"], none, 0, some [0]⟩], false⟩

/-- the shape of D9b: two parents reuse one abstract node whose children are split -/
def gD : RawGrammar :=
  ⟨[("a", 97), ("c", 99)],
   [⟨"S", ["c", "T"], some "u", 0, some [1]⟩,
    ⟨"S", ["c", "T"], some "v", 0, some [1]⟩,
    ⟨"T", ["A", "B"], some "t", 0, some [0, 1]⟩,
    ⟨"A", ["a"], some "x", 0, some []⟩,
    ⟨"A", ["a", "a"], some "y", 0, some []⟩,
    ⟨"B", ["a", "a"], some "w", 0, some []⟩,
    ⟨"B", ["a"], some "z", 0, some []⟩], false⟩

/-- a rule with `error` -/
def gErr : RawGrammar :=
  ⟨[("a", 97), ("b", 98)],
   [⟨"S", ["S", "X"], some "l", 0, some [0, 1]⟩,
    ⟨"S", [], none, 0, none⟩,
    ⟨"X", ["a"], none, 0, some [0]⟩,
    ⟨"X", ["error", "b"], some "er", 0, some [0]⟩], false⟩

#guard test gE [[0], [0, 1, 0], [0, 1, 0, 1, 0], [0, 1, 0, 1, 0, 1, 0], [0, 1, 0, 1, 0, 1, 0, 1, 0]]
#guard test gP [[0], [1], [0, 1], [0, 0], [0, 0, 0], [0, 1, 0], [0, 0, 1, 0, 0], []]
#guard test gD [[1, 0, 0, 0], [1, 0, 0], [1, 0, 0, 0, 0]]
#guard test gErr [[0], [0, 0], []]

end Yaep.NG.Test
