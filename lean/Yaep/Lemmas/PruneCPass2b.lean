import Yaep.Lemmas.PruneCPass2
/-!
# The second pass: the loops and the recursion
-/
namespace Yaep.PC
open Yaep

section
variable {F : Array Cell} {E : Nat → Prop} {rnk : Nat → Nat} {free : Bool} {nameBlk : Nat → Nat}

theorem travKids_spec {rec : TSt → Nat → TSt} {B : Nat} (hrec : TRec F E rnk free nameBlk rec B)
    {Y : Nat → Prop} {x : Nat} {nm : String} {c' : Int} {ks : Array (Option Nat)}
    (hB : rnk x ≤ B) (hY : ∀ y, Y y → rnk x < rnk y) (hc' : 0 ≤ c')
    (rest : List (Option Nat)) (hrest : somePrefix rest = []) :
    ∀ (todo done : List Nat) (m : Nat) (t : TSt),
      ks.toList = (done ++ todo).map some ++ rest → todo.length ≤ m →
      (∀ y ∈ todo, E y ∧ rnk y < rnk x) →
      TInv F free nameBlk (fun z => Y z ∨ z = x) t → cellAt t.heap x = .anode nm c' ks →
      TInv F free nameBlk (fun z => Y z ∨ z = x) (travKids rec x m done.length t) ∧
      (∀ y ∈ todo, Done F free nameBlk (travKids rec x m done.length t) y) ∧
      TFrame t (travKids rec x m done.length t) ∧
      (∀ m', m' ∈ (travKids rec x m done.length t).resv →
        m' ∈ t.resv ∨ (free = true ∧ ∃ y ∈ todo, ResvFrom F nameBlk y m')) := by
  intro todo
  induction todo with
  | nil =>
    intro done m t hsplit hm hE hinv hcell
    have hstop : travKids rec x m done.length t = t := by
      cases m with
      | zero => rfl
      | succ m =>
        unfold travKids
        have : kidAt t.heap x done.length = none := by
          simp only [kidAt, hcell]
          rw [arr_getD_toList, hsplit]
          simp only [List.append_nil]
          have := getD_after_none (done.map some) rest hrest
          simpa using this
        rw [this]
    rw [hstop]
    exact ⟨hinv, by simp, TFrame.refl t, fun _ h => Or.inl h⟩
  | cons y r ih =>
    intro done m t hsplit hm hE hinv hcell
    obtain ⟨m, rfl⟩ : ∃ m', m = m' + 1 := ⟨m - 1, by simp at hm; omega⟩
    have hy := hE y (by simp)
    have hkid : kidAt t.heap x done.length = some y := by
      simp only [kidAt, hcell]
      rw [arr_getD_toList, hsplit]
      have := list_getD_mid (done.map some) (some y) (r.map some ++ rest) none
      simpa using this
    unfold travKids
    rw [hkid]
    simp only
    obtain ⟨r1, r2, r3, r4⟩ := hrec (fun z => Y z ∨ z = x) t y (by omega) hy.1
      (by
        intro z hz
        rcases hz with hz | rfl
        · have := hY z hz; omega
        · exact hy.2) hinv
    have hcell1 : cellAt (rec t y).heap x = .anode nm c' ks := by
      rw [r3.stable x (by simp only [costAt, hcell]; exact hc'), hcell]
    have hlen : (done ++ [y]).length = done.length + 1 := by simp
    have := ih (done ++ [y]) m (rec t y) (by simpa using hsplit) (by simp at hm; omega)
      (fun z hz => hE z (by simp [hz])) r1 hcell1
    rw [hlen] at this
    obtain ⟨q1, q2, q3, q4⟩ := this
    refine ⟨q1, ?_, r3.trans q3, ?_⟩
    · intro z hz
      rcases List.mem_cons.1 hz with rfl | hz
      · exact r2.mono q3
      · exact q2 z hz
    · intro m' hm'
      rcases q4 m' hm' with h | ⟨hf, z, hz, h⟩
      · rcases r4 m' h with h | ⟨hf, h⟩
        · exact Or.inl h
        · exact Or.inr ⟨hf, y, by simp, h⟩
      · exact Or.inr ⟨hf, z, by simp [hz], h⟩

theorem travAlt_spec {rec : TSt → Nat → TSt} {B : Nat} (hrec : TRec F E rnk free nameBlk rec B)
    {Y : Nat → Prop} {x : Nat} (hB : rnk x ≤ B) (hY : ∀ y, Y y → rnk x < rnk y) :
    ∀ (r : List Nat) (j m : Nat) (t : TSt), Linked F (j :: r) → (j :: r).length ≤ m →
      (∀ i ∈ j :: r, i < F.size ∧ E (altNode F i) ∧ isAlt F (altNode F i) = false ∧
        rnk (altNode F i) < rnk x) →
      TInv F free nameBlk Y t → (free = true → .cell j ∈ t.resv) →
      TInv F free nameBlk Y (travAlt rec free m j t) ∧
      (∀ i ∈ j :: r, DoneZ F free nameBlk (travAlt rec free m j t) i ∧
        Done F free nameBlk (travAlt rec free m j t) (altNode F i)) ∧
      TFrame t (travAlt rec free m j t) ∧
      (∀ m', m' ∈ (travAlt rec free m j t).resv → m' ∈ t.resv ∨
        (free = true ∧ ∃ i ∈ j :: r, m' = .cell i ∨ ResvFrom F nameBlk (altNode F i) m')) := by
  intro r
  induction r with
  | nil =>
    intro j m t hl hm hprops hinv hres
    obtain ⟨m, rfl⟩ : ∃ m', m = m' + 1 := ⟨m - 1, by simp at hm; omega⟩
    obtain ⟨nd, e⟩ := hl
    have hnd : altNode F j = nd := by simp [altNode, e]
    have ecell : cellAt t.heap j = .alt nd none := by
      rcases hinv.cells j with h | ⟨_, _, _, _, h, _⟩
      · rw [h, e]
      · rw [e] at h; cases h
    obtain ⟨p1, p2, p3, p4⟩ := hprops j (by simp)
    rw [hnd] at p2 p3 p4
    obtain ⟨r1, r2, r3, r4⟩ := hrec Y t nd (by omega) p2 (fun y hy => by have := hY y hy; omega) hinv
    have ecell1 : cellAt (rec t nd).heap j = .alt nd none := by
      rw [r3.stable j (by simp [costAt, ecell]), ecell]
    unfold travAlt
    simp only [ecell, ecell1]
    refine ⟨r1, ?_, r3, ?_⟩
    · intro i hi
      simp only [List.mem_singleton] at hi
      subst hi
      rw [hnd]
      refine ⟨⟨fun nm c ks h => (by rw [e] at h; cases h), fun hf => ⟨r3.resv _ (hres hf), fun ha => ?_⟩⟩, r2⟩
      simp [isAnode, e] at ha
    · intro m' hm'
      rcases r4 m' hm' with h | ⟨hf, h⟩
      · exact Or.inl h
      · exact Or.inr ⟨hf, j, by simp, Or.inr (by rw [hnd]; exact h)⟩
  | cons j' r ih =>
    intro j m t hl hm hprops hinv hres
    obtain ⟨m, rfl⟩ : ∃ m', m = m' + 1 := ⟨m - 1, by simp at hm; omega⟩
    obtain ⟨⟨nd, e⟩, hl'⟩ := hl
    have hnd : altNode F j = nd := by simp [altNode, e]
    have ecell : cellAt t.heap j = .alt nd (some j') := by
      rcases hinv.cells j with h | ⟨_, _, _, _, h, _⟩
      · rw [h, e]
      · rw [e] at h; cases h
    obtain ⟨p1, p2, p3, p4⟩ := hprops j (by simp)
    rw [hnd] at p2 p3 p4
    obtain ⟨r1, r2, r3, r4⟩ := hrec Y t nd (by omega) p2 (fun y hy => by have := hY y hy; omega) hinv
    have ecell1 : cellAt (rec t nd).heap j = .alt nd (some j') := by
      rw [r3.stable j (by simp [costAt, ecell]), ecell]
    unfold travAlt
    simp only [ecell, ecell1]
    have := ih j' m (reserve free (rec t nd) (.cell j')) hl' (by simp at hm ⊢; omega)
      (fun i hi => hprops i (List.mem_cons_of_mem _ hi)) (r1.reserve _)
      (fun hf => by subst hf; exact reserve_mem _ _)
    obtain ⟨q1, q2, q3, q4⟩ := this
    have hfr : TFrame t (travAlt rec free m j' (reserve free (rec t nd) (.cell j'))) :=
      r3.trans ((TFrame.reserve _ _).trans q3)
    refine ⟨q1, ?_, hfr, ?_⟩
    · intro i hi
      rcases List.mem_cons.1 hi with rfl | hi
      · rw [hnd]
        refine ⟨⟨fun nm c ks h => (by rw [e] at h; cases h),
          fun hf => ⟨hfr.resv _ (hres hf), fun ha => ?_⟩⟩, r2.mono ((TFrame.reserve _ _).trans q3)⟩
        simp [isAnode, e] at ha
      · exact q2 i hi
    · intro m' hm'
      rcases q4 m' hm' with h | ⟨hf, i, hi, h⟩
      · rcases reserve_cases free _ _ m' h with h | ⟨hf, h⟩
        · rcases r4 m' h with h | ⟨hf, h⟩
          · exact Or.inl h
          · exact Or.inr ⟨hf, j, by simp, Or.inr (by rw [hnd]; exact h)⟩
        · exact Or.inr ⟨hf, j', by simp, Or.inl h⟩
      · exact Or.inr ⟨hf, i, List.mem_cons_of_mem _ hi, h⟩

theorem traversePruned_spec (hp : Pruned F E rnk) :
    ∀ fuel, TRec F E rnk free nameBlk (traversePruned free nameBlk fuel) fuel := by
  intro fuel
  induction fuel with
  | zero => intro Y t x hx; omega
  | succ fuel ih =>
    intro Y t x hx hEx hY hinv
    have hnY : ¬ Y x := fun h => by have := hY x h; omega
    have hinv1 := hinv.reserve (free := free) (nameBlk := nameBlk) (.cell x)
    have hxres : free = true → Mem.cell x ∈ (reserve free t (.cell x)).resv := by
      intro hf; subst hf; exact reserve_mem _ _
    have hselfR : ∀ m', (free = true ∧ m' = Mem.cell x) → free = true ∧ ResvFrom F nameBlk x m' :=
      fun m' h => ⟨h.1, x, .refl _, Or.inl h.2⟩
    cases hcell : cellAt F x with
    | anode nm c ks =>
      obtain ⟨hc, hkids⟩ := hp.anode x nm c ks hEx hcell
      have hxan : isAnode F x = true := by simp [isAnode, hcell]
      have hinv2 := hinv1.reserve (free := free) (nameBlk := nameBlk) (.name (nameBlk x))
      have hfr2 : TFrame t (reserve free (reserve free t (.cell x)) (.name (nameBlk x))) :=
        (TFrame.reserve _ _).trans (TFrame.reserve _ _)
      have hnres : free = true →
          Mem.name (nameBlk x) ∈ (reserve free (reserve free t (.cell x)) (.name (nameBlk x))).resv := by
        intro hf; subst hf; exact reserve_mem _ _
      have hresv2 : ∀ m', m' ∈ (reserve free (reserve free t (.cell x)) (.name (nameBlk x))).resv →
          m' ∈ t.resv ∨ (free = true ∧ ResvFrom F nameBlk x m') := by
        intro m' hm'
        rcases reserve_cases free _ _ m' hm' with h | ⟨hf, h⟩
        · rcases reserve_cases free _ _ m' h with h | h
          · exact Or.inl h
          · exact Or.inr (hselfR m' h)
        · exact Or.inr ⟨hf, x, .refl _, Or.inr ⟨hxan, h⟩⟩
      rcases hinv.cells x with e | hfl
      · -- first visit: restore the cost, traverse the children
        rw [hcell] at e
        unfold traversePruned
        have hneg : ¬ (c ≥ 0) := by omega
        have e1 : cellAt (reserve free t (.cell x)).heap x = .anode nm c ks := by simpa using e
        simp only [e1, hneg, if_false]
        have hxres2 : free = true →
            Mem.cell x ∈ (reserve free (reserve free t (.cell x)) (.name (nameBlk x))).resv :=
          fun hf => reserve_mono _ _ _ _ (hxres hf)
        generalize ht2 : reserve free (reserve free t (.cell x)) (.name (nameBlk x)) = t2 at hinv2 hfr2 hnres hresv2 hxres2
        have e2 : cellAt t2.heap x = .anode nm c ks := by rw [← ht2]; simpa using e
        have hx2 : x < t2.heap.size := by rw [hinv2.size]; exact hp.lt x hEx
        generalize ht3 : ({ t2 with heap := setCost t2.heap x (-c - 1) } : TSt) = t3
        have hheap3 : t3.heap = setCost t2.heap x (-c - 1) := by rw [← ht3]
        have hresv3 : t3.resv = t2.resv := by rw [← ht3]
        have hoof3 : t3.oof = t2.oof := by rw [← ht3]
        have e3 : cellAt t3.heap x = .anode nm (-c - 1) ks := by
          rw [hheap3]; exact cellAt_setCost_eq _ hx2 e2
        have hother : ∀ j, j ≠ x → cellAt t3.heap j = cellAt t2.heap j := by
          intro j hj; rw [hheap3, cellAt_setCost_ne _ _ (Ne.symm hj)]
        have hfr3 : TFrame t2 t3 := by
          refine ⟨by rw [hheap3]; simp, ?_, by rw [hresv3]; exact fun _ h => h, hoof3⟩
          intro i hi
          by_cases ei : i = x
          · subst ei; simp only [costAt, e2] at hi; omega
          · exact hother i ei
        have hinv3 : TInv F free nameBlk (fun z => Y z ∨ z = x) t3 := by
          refine ⟨by rw [hfr3.size]; exact hinv2.size, ?_, ?_⟩
          · intro i
            by_cases ei : i = x
            · subst ei; right; exact ⟨nm, c, ks, hc, hcell, e3⟩
            · rcases hinv2.cells i with h | h
              · left; rw [hother i ei]; exact h
              · right; exact h.mono hfr3
          · intro i hi hfl
            have hix : i ≠ x := fun h => hi (Or.inr h)
            have : Flipped F t2 i := by
              obtain ⟨nm', c'', ks', h1, h2, h3⟩ := hfl
              exact ⟨nm', c'', ks', h1, h2, by rw [← hother i hix]; exact h3⟩
            exact (hinv2.closed i (fun h => hi (Or.inl h)) this).mono hfr3
        obtain ⟨rest, hsplit, hrest⟩ := somePrefix_split ks.toList
        have hK : kidsOf ks = somePrefix ks.toList := kidsOf_somePrefix ks
        have hloop := travKids_spec (x := x) ih (by omega) hY (by omega : (0 : Int) ≤ -c - 1) rest hrest
          (somePrefix ks.toList) [] ks.size t3 (by simpa using hsplit)
          (by have := somePrefix_length_le ks.toList; simpa using this)
          (by rw [← hK]; exact hkids) hinv3 e3
        simp only [List.length_nil] at hloop
        generalize travKids (traversePruned free nameBlk fuel) x ks.size 0 t3 = t4 at hloop ⊢
        obtain ⟨l1, l2, l3, l4⟩ := hloop
        have hfr04 : TFrame t t4 := hfr2.trans (hfr3.trans l3)
        have hdone : Done F free nameBlk t4 x := by
          intro z hz
          cases hz with
          | refl =>
            refine ⟨fun nm' c'' ks' h => ?_, fun hf => ⟨?_, fun _ => ?_⟩⟩
            · rw [hcell] at h
              injection h with h1 h2 h3
              subst h1 h2 h3
              exact ⟨hc, by rw [l3.stable x (by simp only [costAt, e3]; omega), e3]⟩
            · exact l3.resv _ (by rw [hresv3]; exact hxres2 hf)
            · exact l3.resv _ (by rw [hresv3]; exact hnres hf)
          | step hb hr =>
            simp only [succs, hcell, hK] at hb
            exact l2 _ hb z hr
        refine ⟨⟨l1.size, l1.cells, ?_⟩, hdone, hfr04, ?_⟩
        · intro i hi hfl
          by_cases ei : i = x
          · subst ei; exact hdone
          · exact l1.closed i (fun h => h.elim hi ei) hfl
        · intro m' hm'
          rcases l4 m' hm' with h | ⟨hf, y, hy, z, hz, h⟩
          · rw [hresv3] at h
            exact hresv2 m' h
          · refine Or.inr ⟨hf, z, .step (b := y) ?_ hz, h⟩
            simp only [succs, hcell, hK]; exact hy
      · -- shared and already traversed
        obtain ⟨nm', c'', ks', h1, h2, h3⟩ := hfl
        rw [hcell] at h2
        injection h2 with e1 e2 e3
        subst e1 e2 e3
        unfold traversePruned
        have hpos : (-c - 1 ≥ 0) := by omega
        have e1 : cellAt (reserve free t (.cell x)).heap x = .anode nm (-c - 1) ks := by simpa using h3
        simp only [e1, hpos, if_true]
        refine ⟨hinv2, ?_, hfr2, hresv2⟩
        exact (hinv.closed x hnY ⟨nm, c, ks, h1, hcell, h3⟩).mono hfr2
    | alt nd0 nx0 =>
      have hal : isAlt F x = true := by simp [isAlt, hcell]
      obtain ⟨L, hL1, hL2, hL3, hL4⟩ := hp.alt x hEx hal
      obtain ⟨r, rfl⟩ : ∃ r, L = x :: r := by
        cases L with
        | nil => cases hL1
        | cons a r => simp at hL1; subst hL1; exact ⟨r, rfl⟩
      have e : cellAt t.heap x = .alt nd0 nx0 := by
        rcases hinv.cells x with h | ⟨_, _, _, _, h, _⟩
        · rw [h, hcell]
        · rw [hcell] at h; cases h
      unfold traversePruned
      have e1 : cellAt (reserve free t (.cell x)).heap x = .alt nd0 nx0 := by simpa using e
      simp only [e1]
      have hloop := travAlt_spec (x := x) ih (by omega) hY r x (reserve free t (.cell x)).heap.size
        (reserve free t (.cell x)) hL2
        (by rw [reserve_heap, hinv.size]; exact hL3) hL4 hinv1 hxres
      generalize travAlt (traversePruned free nameBlk fuel) free (reserve free t (.cell x)).heap.size x (reserve free t (.cell x)) = t' at hloop ⊢
      obtain ⟨q1, q2, q3, q4⟩ := hloop
      refine ⟨q1, ?_, (TFrame.reserve _ _).trans q3, ?_⟩
      · intro z hz
        obtain ⟨i, hi, h⟩ := reach_linked r x z hL2 hz
        rcases h with rfl | h
        · exact (q2 z hi).1
        · exact (q2 i hi).2 z h
      · intro m' hm'
        rcases q4 m' hm' with h | ⟨hf, i, hi, h⟩
        · rcases reserve_cases free _ _ m' h with h | h
          · exact Or.inl h
          · exact Or.inr (hselfR m' h)
        · obtain ⟨hri, hia⟩ := linked_reach r x hL2 i hi
          rcases h with rfl | ⟨z, hz, h⟩
          · exact Or.inr ⟨hf, i, hri, Or.inl rfl⟩
          · exact Or.inr ⟨hf, z, hri.trans (.step (altNode_succ hia) hz), h⟩
    | nil =>
      have e : cellAt t.heap x = .nil := by
        rcases hinv.cells x with h | ⟨_, _, _, _, h, _⟩
        · rw [h, hcell]
        · rw [hcell] at h; cases h
      unfold traversePruned
      have e1 : cellAt (reserve free t (.cell x)).heap x = cellAt F x := by rw [hcell]; simpa using e
      rw [hcell] at e1
      simp only [e1]
      refine ⟨hinv1, ?_, TFrame.reserve _ _, ?_⟩
      · intro z hz
        have := reach_no_succ (by simp [succs, hcell]) hz
        subst this
        exact ⟨fun nm c ks h => (by rw [hcell] at h; cases h),
          fun hf => ⟨hxres hf, fun ha => by simp [isAnode, hcell] at ha⟩⟩
      · intro m' hm'
        rcases reserve_cases free _ _ m' hm' with h | h
        · exact Or.inl h
        · exact Or.inr (hselfR m' h)
    | err =>
      have e : cellAt t.heap x = .err := by
        rcases hinv.cells x with h | ⟨_, _, _, _, h, _⟩
        · rw [h, hcell]
        · rw [hcell] at h; cases h
      unfold traversePruned
      have e1 : cellAt (reserve free t (.cell x)).heap x = cellAt F x := by rw [hcell]; simpa using e
      rw [hcell] at e1
      simp only [e1]
      refine ⟨hinv1, ?_, TFrame.reserve _ _, ?_⟩
      · intro z hz
        have := reach_no_succ (by simp [succs, hcell]) hz
        subst this
        exact ⟨fun nm c ks h => (by rw [hcell] at h; cases h),
          fun hf => ⟨hxres hf, fun ha => by simp [isAnode, hcell] at ha⟩⟩
      · intro m' hm'
        rcases reserve_cases free _ _ m' hm' with h | h
        · exact Or.inl h
        · exact Or.inr (hselfR m' h)
    | term cd att =>
      have e : cellAt t.heap x = .term cd att := by
        rcases hinv.cells x with h | ⟨_, _, _, _, h, _⟩
        · rw [h, hcell]
        · rw [hcell] at h; cases h
      unfold traversePruned
      have e1 : cellAt (reserve free t (.cell x)).heap x = cellAt F x := by rw [hcell]; simpa using e
      rw [hcell] at e1
      simp only [e1]
      refine ⟨hinv1, ?_, TFrame.reserve _ _, ?_⟩
      · intro z hz
        have := reach_no_succ (by simp [succs, hcell]) hz
        subst this
        exact ⟨fun nm c ks h => (by rw [hcell] at h; cases h),
          fun hf => ⟨hxres hf, fun ha => by simp [isAnode, hcell] at ha⟩⟩
      · intro m' hm'
        rcases reserve_cases free _ _ m' hm' with h | h
        · exact Or.inl h
        · exact Or.inr (hselfR m' h)

end

end Yaep.PC
