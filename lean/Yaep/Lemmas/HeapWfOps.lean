import Yaep.Lemmas.HeapWfBase
/-!
# The heaps of the model of `make_parse` are well formed, part 2: the heap operations

`HW` is kept by `place_translation` (three cases: empty slot, first alternative, further
alternative — the last one needs that the chain in the slot is referred to by no other slot),
by the allocation of an abstract node, of a copy (`copy_anode`), of a TERM node, and by the final
`NULL → empty node` pass.
-/
namespace Yaep.MP
open Yaep

def upd (f : Nat → Nat) (i v : Nat) : Nat → Nat := fun x => if x = i then v else f x

@[simp] theorem upd_same (f : Nat → Nat) (i v : Nat) : upd f i v i = v := by simp [upd]
theorem upd_ne (f : Nat → Nat) {i x : Nat} (v : Nat) (h : x ≠ i) : upd f i v x = f x := by simp [upd, h]

theorem CellOK.mono {sz sz' : Nat} {isA isA' : Nat → Bool} {Γ Γ' : Gh} {i : Nat} {m : MNode}
    (hc : CellOK sz isA Γ i m) (hi : i < sz) (hsz : sz ≤ sz') (hA : ∀ k, k < sz → isA' k = isA k)
    (hG : ∀ k, k < sz → Γ'.rho k = Γ.rho k ∧ Γ'.am k = Γ.am k ∧ Γ'.ap k = Γ.ap k ∧ Γ'.hd k = Γ.hd k) :
    CellOK sz' isA' Γ' i m := by
  cases m with
  | anode nm c ks =>
    obtain ⟨c1, c2, c3⟩ := hc
    refine ⟨by rw [(hG i hi).1]; exact c1, by rw [(hG i hi).2.2.2]; exact c2, ?_⟩
    intro d k hk
    obtain ⟨k1, k2, k3, k4⟩ := c3 d k hk
    refine ⟨by omega, by rw [(hG k k1).2.2.2]; exact k2, ?_, ?_⟩
    · intro hka; rw [(hG k k1).1, (hG i hi).1]; exact k3 (by rw [← hA k k1]; exact hka)
    · intro hka; rw [(hG k k1).2.1, (hG i hi).1]; exact k4 (by rw [← hA k k1]; exact hka)
  | alt nd nx =>
    obtain ⟨c1, c2, c3, c4⟩ := hc
    refine ⟨by omega, by rw [hA nd c1]; exact c2, by rw [(hG nd c1).1, (hG i hi).2.1]; exact c3, ?_⟩
    intro j hj
    obtain ⟨j1, j2, j3, j4, j5⟩ := c4 j hj
    exact ⟨by omega, by rw [hA j j1]; exact j2, by rw [(hG j j1).2.1, (hG i hi).2.1]; exact j3,
      by rw [(hG j j1).2.2.1, (hG i hi).2.2.1]; exact j4,
      by rw [(hG j j1).2.2.2, (hG i hi).2.2.2]; exact j5⟩
  | nil => exact ⟨by rw [(hG i hi).1]; exact hc.1, by rw [(hG i hi).2.2.2]; exact hc.2⟩
  | err => exact ⟨by rw [(hG i hi).1]; exact hc.1, by rw [(hG i hi).2.2.2]; exact hc.2⟩
  | term _ _ => exact ⟨by rw [(hG i hi).1]; exact hc.1, by rw [(hG i hi).2.2.2]; exact hc.2⟩

/-- the heap grows, the ghost data of the old cells stay: only the changed cells have to be checked -/
theorem HW.ext1 {h h' : Array MNode} {Γ Γ' : Gh} (hw : HW h Γ) (hsz : h.size ≤ h'.size)
    (hA : ∀ k, k < h.size → isAlt h' k = isAlt h k)
    (hG : ∀ k, k < h.size → Γ'.rho k = Γ.rho k ∧ Γ'.am k = Γ.am k ∧ Γ'.ap k = Γ.ap k ∧ Γ'.hd k = Γ.hd k)
    (hcells : ∀ i, i < h'.size → (i < h.size ∧ h'.getD i .nil = h.getD i .nil) ∨
      CellOK h'.size (isAlt h') Γ' i (h'.getD i .nil)) : HW h' Γ' := by
  intro i hi
  rcases hcells i hi with ⟨h1, h2⟩ | h1
  · rw [h2]; exact (hw i h1).mono h1 hsz hA hG
  · exact h1

theorem lt_size_of_getD_some {ks : Array (Option Nat)} {d k : Nat} (h : ks.getD d none = some k) :
    d < ks.size := by
  rcases Nat.lt_or_ge d ks.size with h1 | h1
  · exact h1
  · rw [Array.getD_eq_getD_getElem?, Array.getElem?_eq_none h1] at h; cases h

theorem isAlt_congr {h h' : Array MNode} {i : Nat} (he : h'.getD i .nil = h.getD i .nil) :
    isAlt h' i = isAlt h i := by
  unfold isAlt; rw [he]

theorem isAlt_anode_congr {h h' : Array MNode} {i : Nat} {nm nm' : String} {c c' : Nat}
    {ks ks' : Array (Option Nat)} (he : h.getD i .nil = .anode nm c ks)
    (he' : h'.getD i .nil = .anode nm' c' ks') : isAlt h' i = isAlt h i := by
  unfold isAlt; rw [he, he']

theorem getKid_some_iff {h : Array MNode} {a d k : Nat} :
    getKid h a d = some k ↔ ∃ nm c ks, h.getD a .nil = .anode nm c ks ∧ ks.getD d none = some k := by
  unfold getKid
  constructor
  · intro hk
    split at hk
    · rename_i nm c ks he; exact ⟨nm, c, ks, he, hk⟩
    · cases hk
  · rintro ⟨nm, c, ks, he, hk⟩
    rw [he]; exact hk

/-- what the clients need to know about the result of an operation on the tree memory:
`HW` again, the old cells keep their rank and their kind, only cell `a` changes -/
structure Placed (h h' : Array MNode) (Γ Γ' : Gh) (a d : Nat) : Prop where
  size_le : h.size ≤ h'.size
  hw : HW h' Γ'
  rho : ∀ i, i < h.size → Γ'.rho i = Γ.rho i
  shi : Γ'.shi = Γ.shi
  other : ∀ i, i ≠ a → i < h.size → h'.getD i .nil = h.getD i .nil
  cell : ∃ nm c ks m', h.getD a .nil = .anode nm c ks ∧
    h'.getD a .nil = .anode nm c (ks.set! d (some m')) ∧ m' < h'.size ∧
    (isAlt h' m' = true → h.size ≤ m')
  fresh : ∀ i, h.size ≤ i → i < h'.size → isAlt h' i = true

theorem Placed.isAlt_old {h h' : Array MNode} {Γ Γ' : Gh} {a d : Nat} (hp : Placed h h' Γ Γ' a d)
    {i : Nat} (hi : i < h.size) : isAlt h' i = isAlt h i := by
  by_cases hia : i = a
  · subst hia
    obtain ⟨nm, c, ks, m', c1, c2, _⟩ := hp.cell
    exact isAlt_anode_congr c1 c2
  · exact isAlt_congr (hp.other i hia hi)

theorem Placed.getKid_other {h h' : Array MNode} {Γ Γ' : Gh} {a d : Nat} (hp : Placed h h' Γ Γ' a d)
    {a' d' : Nat} (hne : ¬ (a' = a ∧ d' = d)) : getKid h' a' d' = getKid h a' d' := by
  by_cases ha : a' = a
  · subst ha
    obtain ⟨nm, c, ks, m', c1, c2, _⟩ := hp.cell
    rw [getKid_of_cell c1, getKid_of_cell c2, getD_set!]
    rw [if_neg (fun hh => hne ⟨rfl, hh.1.symm⟩)]
  · rcases Nat.lt_or_ge a' h.size with hlt | hge
    · unfold getKid; rw [hp.other a' ha hlt]
    · have h1 : getKid h a' d' = none := by
        unfold getKid
        simp [Array.getD_eq_getD_getElem?, Array.getElem?_eq_none hge]
      rw [h1]
      rcases Nat.lt_or_ge a' h'.size with hlt' | hge'
      · have := hp.fresh a' hge hlt'
        unfold isAlt at this
        unfold getKid
        split at this
        · rename_i e; rw [e]
        · cases this
      · unfold getKid
        simp [Array.getD_eq_getD_getElem?, Array.getElem?_eq_none hge']

/-- a non-NULL slot stays non-NULL -/
theorem Placed.getKid_ne_none {h h' : Array MNode} {Γ Γ' : Gh} {a d : Nat} (hp : Placed h h' Γ Γ' a d)
    {a' d' : Nat} (hk : getKid h a' d' ≠ none) : getKid h' a' d' ≠ none := by
  by_cases hne : a' = a ∧ d' = d
  · obtain ⟨rfl, rfl⟩ := hne
    obtain ⟨nm, c, ks, m', c1, c2, _⟩ := hp.cell
    rw [getKid_of_cell c1] at hk
    rw [getKid_of_cell c2, getD_set!]
    split
    · simp
    · exact hk
  · rw [hp.getKid_other hne]; exact hk

/-- the cell of an abstract node stays one, with the same number of slots -/
theorem Placed.anode_cell {h h' : Array MNode} {Γ Γ' : Gh} {a d : Nat} (hp : Placed h h' Γ Γ' a d)
    {i : Nat} {nm : String} {c : Nat} {ks : Array (Option Nat)} (hc : h.getD i .nil = .anode nm c ks) :
    ∃ ks', h'.getD i .nil = .anode nm c ks' ∧ ks'.size = ks.size := by
  have hi : i < h.size := getD_lt_of_ne_nil (by rw [hc]; simp)
  by_cases hia : i = a
  · subst hia
    obtain ⟨nm', c', ks', m', c1, c2, _⟩ := hp.cell
    rw [hc] at c1; injection c1 with e1 e2 e3; subst e1; subst e2; subst e3
    exact ⟨_, c2, by simp⟩
  · exact ⟨ks, by rw [hp.other i hia hi]; exact hc, rfl⟩

/-! ## `place_translation` -/

/-- ghost data after the first alternative has got an ALT cell of its own -/
def Gh.first (Γ : Gh) (sz ra : Nat) : Gh :=
  { Γ with am := upd (upd Γ.am sz ra) (sz + 1) ra, ap := upd (upd Γ.ap sz 1) (sz + 1) 0,
           hd := upd (upd Γ.hd sz sz) (sz + 1) sz }

/-- the head of a chain becomes `new` -/
def hdUpd (hd : Nat → Nat) (old new : Nat) : Nat → Nat :=
  fun x => if x = new then new else if hd x = old then new else hd x

/-- ghost data after a further alternative has been put in front of the chain `old` -/
def Gh.prepend (Γ : Gh) (sz ra old : Nat) : Gh :=
  { Γ with am := upd Γ.am sz ra, ap := upd Γ.ap sz (Γ.ap old + 1), hd := hdUpd Γ.hd old sz }

section place
variable {h : Array MNode} {Γ : Gh} {a d node : Nat} {nm : String} {c : Nat} {ks : Array (Option Nat)}

theorem place_none_placed (hw : HW h Γ) (hc : h.getD a .nil = .anode nm c ks)
    (hnode : node < h.size) (hna : isAlt h node = false) (hrk : Γ.rho node < Γ.rho a)
    (hhd : Γ.hd node = node) (hk : ks.getD d none = none) :
    Placed h (placeTranslation h (a, d) node) Γ Γ a d := by
  have ha : a < h.size := getD_lt_of_ne_nil (by rw [hc]; simp)
  have e : placeTranslation h (a, d) node = setKid h a d (some node) :=
    placeTranslation_none (by simp only; rw [getKid_of_cell hc]; exact hk)
  rw [e]
  have hcell : (setKid h a d (some node)).getD a .nil = .anode nm c (ks.set! d (some node)) :=
    setKid_getD_same hc ha
  have hother : ∀ i, i ≠ a → (setKid h a d (some node)).getD i .nil = h.getD i .nil :=
    fun i hi => setKid_getD_ne hi
  have hA : ∀ k, k < h.size → isAlt (setKid h a d (some node)) k = isAlt h k := by
    intro k _
    by_cases hka : k = a
    · subst hka; exact isAlt_anode_congr hc hcell
    · exact isAlt_congr (hother k hka)
  refine ⟨by rw [setKid_size]; exact Nat.le_refl _, ?_, fun _ _ => rfl, rfl, fun i hi _ => hother i hi,
    ⟨nm, c, ks, node, hc, hcell, by rw [setKid_size]; exact hnode, ?_⟩, ?_⟩
  · apply hw.ext1 (by rw [setKid_size]; exact Nat.le_refl _) hA (fun _ _ => ⟨rfl, rfl, rfl, rfl⟩)
    intro i hi
    rw [setKid_size] at hi
    by_cases hia : i = a
    · subst hia
      right
      rw [hcell, setKid_size]
      obtain ⟨c1, c2, c3⟩ : CellOK h.size (isAlt h) Γ i (.anode nm c ks) := by
        have := hw i ha; rw [hc] at this; exact this
      refine ⟨c1, c2, ?_⟩
      intro d' k hk'
      rw [getD_set!] at hk'
      split at hk'
      · injection hk' with hk'; subst hk'
        refine ⟨hnode, hhd, fun _ => hrk, fun hh => ?_⟩
        rw [hA _ hnode, hna] at hh; cases hh
      · obtain ⟨k1, k2, k3, k4⟩ := c3 d' k hk'
        exact ⟨k1, k2, fun hh => k3 (by rw [← hA k k1]; exact hh), fun hh => k4 (by rw [← hA k k1]; exact hh)⟩
    · left; exact ⟨hi, hother i hia⟩
  · intro hh; rw [hA _ hnode, hna] at hh; cases hh
  · intro i h1 h2; rw [setKid_size] at h2; omega

theorem place_first_placed (hw : HW h Γ) (hc : h.getD a .nil = .anode nm c ks)
    (hnode : node < h.size) (hna : isAlt h node = false) (hrk : Γ.rho node < Γ.rho a)
    {old : Nat} (hk : ks.getD d none = some old) (hold : isAlt h old = false) :
    Placed h (placeTranslation h (a, d) node) Γ
      (Γ.first h.size (Γ.rho a)) a d := by
  have ha : a < h.size := getD_lt_of_ne_nil (by rw [hc]; simp)
  have e : placeTranslation h (a, d) node =
      setKid ((h.push (.alt node (some (h.size + 1)))).push (.alt old none)) a d (some h.size) := by
    unfold placeTranslation
    simp only
    rw [getKid_of_cell hc, hk]
    simp [hold]
  rw [e]
  generalize hh' : setKid ((h.push (.alt node (some (h.size + 1)))).push (.alt old none)) a d (some h.size) = h'
  have hsz : h'.size = h.size + 2 := by rw [← hh', setKid_size]; simp
  have hcp : ((h.push (.alt node (some (h.size + 1)))).push (.alt old none)).getD a .nil = .anode nm c ks := by
    rw [getD_push_lt _ _ _ _ (by simp; omega), getD_push_lt _ _ _ _ ha]; exact hc
  have hcell : h'.getD a .nil = .anode nm c (ks.set! d (some h.size)) := by
    rw [← hh']; exact setKid_getD_same hcp (by simp; omega)
  have hother : ∀ i, i ≠ a → i < h.size → h'.getD i .nil = h.getD i .nil := by
    intro i hi hlt
    rw [← hh', setKid_getD_ne hi, getD_push_lt _ _ _ _ (by simp; omega), getD_push_lt _ _ _ _ hlt]
  have hc1 : h'.getD h.size .nil = .alt node (some (h.size + 1)) := by
    rw [← hh', setKid_getD_ne (by omega), getD_push_lt _ _ _ _ (by simp), getD_push_eq]
  have hc2 : h'.getD (h.size + 1) .nil = .alt old none := by
    rw [← hh', setKid_getD_ne (by omega)]
    have := getD_push_eq (h.push (.alt node (some (h.size + 1)))) (.alt old none) MNode.nil
    simpa using this
  have hA : ∀ k, k < h.size → isAlt h' k = isAlt h k := by
    intro k hk'
    by_cases hka : k = a
    · subst hka; exact isAlt_anode_congr hc hcell
    · exact isAlt_congr (hother k hka hk')
  obtain ⟨c1, c2, c3⟩ : CellOK h.size (isAlt h) Γ a (.anode nm c ks) := by
    have := hw a ha; rw [hc] at this; exact this
  obtain ⟨o1, o2, o3, _⟩ := c3 d old hk
  have hG : ∀ k, k < h.size →
      Γ.rho k = Γ.rho k ∧ upd (upd Γ.am h.size (Γ.rho a)) (h.size + 1) (Γ.rho a) k = Γ.am k ∧
      upd (upd Γ.ap h.size 1) (h.size + 1) 0 k = Γ.ap k ∧
      upd (upd Γ.hd h.size h.size) (h.size + 1) h.size k = Γ.hd k := by
    intro k hk'
    refine ⟨rfl, ?_, ?_, ?_⟩ <;> rw [upd_ne _ _ (by omega), upd_ne _ _ (by omega)]
  refine ⟨by omega, ?_, fun _ _ => rfl, rfl, hother,
    ⟨nm, c, ks, h.size, hc, hcell, by omega, fun _ => Nat.le_refl _⟩, ?_⟩
  · apply hw.ext1 (by omega) hA hG
    intro i hi
    by_cases hia : i = a
    · subst hia
      right
      rw [hcell]
      refine ⟨c1, by show upd _ _ _ i = i; rw [(hG i ha).2.2.2]; exact c2, ?_⟩
      intro d' k hk'
      rw [getD_set!] at hk'
      split at hk'
      · injection hk' with hk'; subst hk'
        refine ⟨by omega, ?_, ?_, ?_⟩
        · show upd _ _ _ h.size = h.size
          rw [upd_ne _ _ (by omega), upd_same]
        · intro hh; rw [isAlt_of_cell hc1] at hh; cases hh
        · intro _
          show upd _ _ _ h.size = Γ.rho i
          rw [upd_ne _ _ (by omega), upd_same]
      · obtain ⟨k1, k2, k3, k4⟩ := c3 d' k hk'
        refine ⟨by omega, by show upd _ _ _ k = k; rw [(hG k k1).2.2.2]; exact k2, ?_, ?_⟩
        · intro hh; exact k3 (by rw [← hA k k1]; exact hh)
        · intro hh
          show upd _ _ _ k = Γ.rho i
          rw [(hG k k1).2.1]; exact k4 (by rw [← hA k k1]; exact hh)
    · by_cases hlt : i < h.size
      · left; exact ⟨hlt, hother i hia hlt⟩
      · right
        have : i = h.size ∨ i = h.size + 1 := by omega
        rcases this with rfl | rfl
        · rw [hc1]
          refine ⟨by omega, by rw [hA _ hnode]; exact hna, ?_, ?_⟩
          · show Γ.rho node < upd _ _ _ h.size
            rw [upd_ne _ _ (by omega), upd_same]; exact hrk
          · intro j hj
            injection hj with hj; subst hj
            refine ⟨by omega, isAlt_of_cell hc2, ?_, ?_, ?_⟩
            · show upd _ _ _ (h.size + 1) = upd _ _ _ h.size
              rw [upd_same, upd_ne _ _ (by omega), upd_same]
            · show upd _ _ _ (h.size + 1) < upd _ _ _ h.size
              rw [upd_same, upd_ne _ _ (by omega), upd_same]; omega
            · show upd _ _ _ (h.size + 1) = upd _ _ _ h.size
              rw [upd_same, upd_ne _ _ (by omega), upd_same]
        · rw [hc2]
          refine ⟨by omega, by rw [hA _ o1]; exact hold, ?_, fun j hj => by cases hj⟩
          show Γ.rho old < upd _ _ _ (h.size + 1)
          rw [upd_same]; exact o3 hold
  · intro i h1 h2
    have : i = h.size ∨ i = h.size + 1 := by omega
    rcases this with rfl | rfl
    · exact isAlt_of_cell hc1
    · exact isAlt_of_cell hc2

theorem place_alt_placed (hw : HW h Γ) (hc : h.getD a .nil = .anode nm c ks)
    (hnode : node < h.size) (hna : isAlt h node = false) (hrk : Γ.rho node < Γ.rho a)
    {old : Nat} (hk : ks.getD d none = some old) (hold : isAlt h old = true)
    (hex : ∀ a' d', getKid h a' d' = some old → a' = a ∧ d' = d) :
    Placed h (placeTranslation h (a, d) node) Γ
      (Γ.prepend h.size (Γ.rho a) old) a d := by
  have ha : a < h.size := getD_lt_of_ne_nil (by rw [hc]; simp)
  have e : placeTranslation h (a, d) node =
      setKid (h.push (.alt node (some old))) a d (some h.size) := by
    unfold placeTranslation
    simp only
    rw [getKid_of_cell hc, hk]
    simp [hold]
  rw [e]
  generalize hh' : setKid (h.push (.alt node (some old))) a d (some h.size) = h'
  have hsz : h'.size = h.size + 1 := by rw [← hh', setKid_size]; simp
  have hcp : (h.push (.alt node (some old))).getD a .nil = .anode nm c ks := by
    rw [getD_push_lt _ _ _ _ ha]; exact hc
  have hcell : h'.getD a .nil = .anode nm c (ks.set! d (some h.size)) := by
    rw [← hh']; exact setKid_getD_same hcp (by simp; omega)
  have hother : ∀ i, i ≠ a → i < h.size → h'.getD i .nil = h.getD i .nil := by
    intro i hi hlt
    rw [← hh', setKid_getD_ne hi, getD_push_lt _ _ _ _ hlt]
  have hc1 : h'.getD h.size .nil = .alt node (some old) := by
    rw [← hh', setKid_getD_ne (by omega), getD_push_eq]
  have hA : ∀ k, k < h.size → isAlt h' k = isAlt h k := by
    intro k hk'
    by_cases hka : k = a
    · subst hka; exact isAlt_anode_congr hc hcell
    · exact isAlt_congr (hother k hka hk')
  obtain ⟨c1, c2, c3⟩ : CellOK h.size (isAlt h) Γ a (.anode nm c ks) := by
    have := hw a ha; rw [hc] at this; exact this
  obtain ⟨o1, o2, _, o4⟩ := c3 d old hk
  -- the new ghost data on the old cells
  have hhd : ∀ k, k < h.size → hdUpd Γ.hd old h.size k = if Γ.hd k = old then h.size else Γ.hd k := by
    intro k hk'
    unfold hdUpd
    rw [if_neg (by omega)]
  have hhdKeep : ∀ k, k < h.size → Γ.hd k = k → k ≠ old → hdUpd Γ.hd old h.size k = k := by
    intro k hk' e1 e2
    rw [hhd k hk', e1, if_neg e2]
  have hhdEq : ∀ i j, i < h.size → j < h.size → Γ.hd j = Γ.hd i →
      hdUpd Γ.hd old h.size j = hdUpd Γ.hd old h.size i := by
    intro i j hi hj e1
    rw [hhd i hi, hhd j hj, e1]
  have ham : ∀ k, k < h.size → upd Γ.am h.size (Γ.rho a) k = Γ.am k :=
    fun k hk' => upd_ne _ _ (by omega)
  have hap : ∀ k, k < h.size → upd Γ.ap h.size (Γ.ap old + 1) k = Γ.ap k :=
    fun k hk' => upd_ne _ _ (by omega)
  -- an old cell that does not refer to `old` in a slot
  have hkeep : ∀ i, i < h.size → (∀ nm' c' ks' d', h.getD i .nil = .anode nm' c' ks' → ks'.getD d' none ≠ some old) →
      CellOK h'.size (isAlt h') (Γ.prepend h.size (Γ.rho a) old) i (h.getD i .nil) := by
    intro i hi hno
    have hci := hw i hi
    cases hm : h.getD i .nil with
    | anode nm' c' ks' =>
      rw [hm] at hci
      obtain ⟨q1, q2, q3⟩ := hci
      have hio : i ≠ old := by
        intro e'; subst e'
        have := isAlt_false_of_anode hm; rw [hold] at this; cases this
      refine ⟨q1, hhdKeep i hi q2 hio, ?_⟩
      intro d' k hk'
      obtain ⟨k1, k2, k3, k4⟩ := q3 d' k hk'
      have hko : k ≠ old := fun e' => hno nm' c' ks' d' hm (e' ▸ hk')
      refine ⟨by omega, hhdKeep k k1 k2 hko, fun hh => k3 (by rw [← hA k k1]; exact hh), fun hh => ?_⟩
      show upd _ _ _ k = _
      rw [ham k k1]; exact k4 (by rw [← hA k k1]; exact hh)
    | alt nd nx =>
      rw [hm] at hci
      obtain ⟨q1, q2, q3, q4⟩ := hci
      refine ⟨by omega, by rw [hA nd q1]; exact q2, by show _ < upd _ _ _ i; rw [ham i hi]; exact q3, ?_⟩
      intro j hj
      obtain ⟨j1, j2, j3, j4, j5⟩ := q4 j hj
      refine ⟨by omega, by rw [hA j j1]; exact j2, ?_, ?_, hhdEq i j hi j1 j5⟩
      · show upd _ _ _ j = upd _ _ _ i; rw [ham j j1, ham i hi]; exact j3
      · show upd _ _ _ j < upd _ _ _ i; rw [hap j j1, hap i hi]; exact j4
    | nil =>
      rw [hm] at hci
      have hio : i ≠ old := by
        intro e'; subst e'
        have : isAlt h i = false := by unfold isAlt; rw [hm]
        rw [hold] at this; cases this
      exact ⟨hci.1, hhdKeep i hi hci.2 hio⟩
    | err =>
      rw [hm] at hci
      have hio : i ≠ old := by
        intro e'; subst e'
        have : isAlt h i = false := by unfold isAlt; rw [hm]
        rw [hold] at this; cases this
      exact ⟨hci.1, hhdKeep i hi hci.2 hio⟩
    | term _ _ =>
      rw [hm] at hci
      have hio : i ≠ old := by
        intro e'; subst e'
        have : isAlt h i = false := by unfold isAlt; rw [hm]
        rw [hold] at this; cases this
      exact ⟨hci.1, hhdKeep i hi hci.2 hio⟩
  refine ⟨by omega, ?_, fun _ _ => rfl, rfl, hother,
    ⟨nm, c, ks, h.size, hc, hcell, by omega, fun _ => Nat.le_refl _⟩, ?_⟩
  · intro i hi
    by_cases hia : i = a
    · subst hia
      rw [hcell]
      have hio : i ≠ old := by
        intro e'; subst e'
        have := isAlt_false_of_anode hc; rw [hold] at this; cases this
      refine ⟨c1, hhdKeep i ha c2 hio, ?_⟩
      intro d' k hk'
      rw [getD_set!] at hk'
      split at hk'
      · injection hk' with hk'; subst hk'
        refine ⟨by omega, by show hdUpd _ _ _ h.size = _; simp [hdUpd], ?_, ?_⟩
        · intro hh; rw [isAlt_of_cell hc1] at hh; cases hh
        · intro _; exact upd_same _ _ _
      · rename_i hne
        obtain ⟨k1, k2, k3, k4⟩ := c3 d' k hk'
        have hko : k ≠ old := by
          intro e'; subst e'
          have := (hex i d' (by rw [getKid_of_cell hc]; exact hk')).2
          exact hne ⟨this.symm, lt_size_of_getD_some hk⟩
        refine ⟨by omega, hhdKeep k k1 k2 hko, fun hh => k3 (by rw [← hA k k1]; exact hh), fun hh => ?_⟩
        show upd _ _ _ k = _
        rw [ham k k1]; exact k4 (by rw [← hA k k1]; exact hh)
    · by_cases hlt : i < h.size
      · rw [hother i hia hlt]
        apply hkeep i hlt
        intro nm' c' ks' d' hm hk'
        exact hia (hex i d' (by rw [getKid_of_cell hm]; exact hk')).1
      · have : i = h.size := by omega
        subst this
        rw [hc1]
        refine ⟨by omega, by rw [hA _ hnode]; exact hna, ?_, ?_⟩
        · show _ < upd _ _ _ h.size; rw [upd_same]; exact hrk
        · intro j hj
          injection hj with hj; subst hj
          refine ⟨by omega, by rw [hA _ o1]; exact hold, ?_, ?_, ?_⟩
          · show upd _ _ _ old = upd _ _ _ h.size
            rw [ham old o1, upd_same]; exact o4 hold
          · show upd _ _ _ old < upd _ _ _ h.size
            rw [hap old o1, upd_same]; omega
          · show hdUpd _ _ _ old = hdUpd _ _ _ h.size
            rw [hhd old o1, o2]; simp [hdUpd]
  · intro i h1 h2
    have : i = h.size := by omega
    subst this
    exact isAlt_of_cell hc1

/-- **`place_translation` keeps `HW`**: the node put into the slot is not an ALT cell and has a
smaller rank than the abstract node; if the slot holds a chain, no other slot refers to it -/
theorem place_placed (hw : HW h Γ) (hc : h.getD a .nil = .anode nm c ks)
    (hnode : node < h.size) (hna : isAlt h node = false) (hrk : Γ.rho node < Γ.rho a)
    (hhd : Γ.hd node = node)
    (hex : ∀ old, getKid h a d = some old → isAlt h old = true →
      ∀ a' d', getKid h a' d' = some old → a' = a ∧ d' = d) :
    ∃ Γ', Placed h (placeTranslation h (a, d) node) Γ Γ' a d := by
  cases hk : ks.getD d none with
  | none => exact ⟨_, place_none_placed hw hc hnode hna hrk hhd hk⟩
  | some old =>
    cases hold : isAlt h old with
    | false => exact ⟨_, place_first_placed hw hc hnode hna hrk hk hold⟩
    | true =>
      exact ⟨_, place_alt_placed hw hc hnode hna hrk hk hold
        (hex old (by rw [getKid_of_cell hc]; exact hk) hold)⟩

end place

/-! ## allocation of a cell that is not an ALT cell -/

/-- ghost data of a new cell that is not an ALT cell -/
def Gh.newCell (Γ : Gh) (sz r : Nat) : Gh :=
  { Γ with rho := upd Γ.rho sz r, hd := upd Γ.hd sz sz }

theorem Gh.newCell_old (Γ : Gh) {sz k : Nat} (r : Nat) (hk : k < sz) :
    (Γ.newCell sz r).rho k = Γ.rho k ∧ (Γ.newCell sz r).am k = Γ.am k ∧
    (Γ.newCell sz r).ap k = Γ.ap k ∧ (Γ.newCell sz r).hd k = Γ.hd k :=
  ⟨upd_ne _ _ (by omega), rfl, rfl, upd_ne _ _ (by omega)⟩

theorem isAlt_push_lt {h : Array MNode} {x : MNode} {k : Nat} (hk : k < h.size) :
    isAlt (h.push x) k = isAlt h k :=
  isAlt_congr (getD_push_lt _ _ _ _ hk)

/-- a new cell: only the new cell has to be checked -/
theorem push_hw {h : Array MNode} {Γ : Gh} (hw : HW h Γ) (x : MNode) (r : Nat)
    (hx : CellOK (h.size + 1) (isAlt (h.push x)) (Γ.newCell h.size r) h.size x) :
    HW (h.push x) (Γ.newCell h.size r) := by
  apply hw.ext1 (by simp) (fun k hk => isAlt_push_lt hk) (fun k hk => Γ.newCell_old r hk)
  intro i hi
  simp only [Array.size_push] at hi
  by_cases hlt : i < h.size
  · left; exact ⟨hlt, getD_push_lt _ _ _ _ hlt⟩
  · right
    have : i = h.size := by omega
    subst this
    rw [getD_push_eq, Array.size_push]
    exact hx

theorem push_anode_hw {h : Array MNode} {Γ : Gh} (hw : HW h Γ) (nm : String) (c n : Nat) {r : Nat}
    (hr : 0 < r) : HW (h.push (.anode nm c (Array.replicate n none))) (Γ.newCell h.size r) := by
  apply push_hw hw
  refine ⟨by show 0 < upd _ _ _ _; rw [upd_same]; exact hr, upd_same _ _ _, ?_⟩
  intro d k hk
  simp [Array.getD_eq_getD_getElem?, Array.getElem?_replicate] at hk
  split at hk <;> simp at hk

theorem push_term_hw {h : Array MNode} {Γ : Gh} (hw : HW h Γ) (cd at' : Int) :
    HW (h.push (.term cd at')) (Γ.newCell h.size 0) := by
  apply push_hw hw
  exact ⟨upd_same _ _ _, upd_same _ _ _⟩

theorem push_copy_hw {h : Array MNode} {Γ : Gh} (hw : HW h Γ) {a : Nat} {nm : String} {c : Nat}
    {ks : Array (Option Nat)} (hc : h.getD a .nil = .anode nm c ks) (disp : Nat) :
    HW (h.push (.anode nm c (ks.set! disp none))) (Γ.newCell h.size (Γ.rho a)) := by
  have ha : a < h.size := getD_lt_of_ne_nil (by rw [hc]; simp)
  obtain ⟨c1, c2, c3⟩ : CellOK h.size (isAlt h) Γ a (.anode nm c ks) := by
    have := hw a ha; rw [hc] at this; exact this
  apply push_hw hw
  refine ⟨by show 0 < upd _ _ _ _; rw [upd_same]; exact c1, upd_same _ _ _, ?_⟩
  intro d k hk
  rw [getD_set!] at hk
  split at hk
  · cases hk
  · obtain ⟨k1, k2, k3, k4⟩ := c3 d k hk
    have hG := Γ.newCell_old (Γ.rho a) k1
    refine ⟨by omega, by rw [hG.2.2.2]; exact k2, ?_, ?_⟩
    · intro hh
      rw [hG.1]
      show _ < upd _ _ _ _
      rw [upd_same]
      exact k3 (by rw [← isAlt_push_lt k1]; exact hh)
    · intro hh
      rw [hG.2.1]
      show _ = upd _ _ _ _
      rw [upd_same]
      exact k4 (by rw [← isAlt_push_lt k1]; exact hh)

/-! ## the final `NULL → empty node` pass -/

theorem fillNil_hw {h : Array MNode} {Γ : Gh} (hw : HW h Γ) (h0 : h.getD nilId .nil = .nil)
    (hsz : 0 < h.size) {an : Nat} {nm : String} {c : Nat} {ks : Array (Option Nat)}
    (hc : h.getD an .nil = .anode nm c ks) (n : Nat) : HW (fillNil h an n) Γ := by
  have han : an < h.size := getD_lt_of_ne_nil (by rw [hc]; simp)
  obtain ⟨f1, f2, ks', f3, f4, f5⟩ := fillNil_spec hc han n
  obtain ⟨c1, c2, c3⟩ : CellOK h.size (isAlt h) Γ an (.anode nm c ks) := by
    have := hw an han; rw [hc] at this; exact this
  have hz : CellOK h.size (isAlt h) Γ 0 .nil := by
    have := hw 0 hsz; rw [show h.getD 0 .nil = .nil from h0] at this; exact this
  have hA : ∀ k, k < h.size → isAlt (fillNil h an n) k = isAlt h k := by
    intro k _
    by_cases hka : k = an
    · subst hka; exact isAlt_anode_congr hc f3
    · exact isAlt_congr (f2 k hka)
  apply hw.ext1 (by rw [f1]; exact Nat.le_refl _) hA (fun _ _ => ⟨rfl, rfl, rfl, rfl⟩)
  intro i hi
  rw [f1] at hi
  by_cases hia : i = an
  · subst hia
    right
    rw [f3, f1]
    refine ⟨c1, c2, ?_⟩
    intro d k hk
    rw [f5 d] at hk
    split at hk
    · injection hk with hk; subst hk
      have hna : isAlt h nilId = false := by unfold isAlt; rw [h0]
      refine ⟨hsz, hz.2, fun _ => by rw [show Γ.rho nilId = 0 from hz.1]; exact c1, fun hh => ?_⟩
      have := hA nilId hsz
      rw [this, hna] at hh; cases hh
    · obtain ⟨k1, k2, k3, k4⟩ := c3 d k hk
      exact ⟨k1, k2, fun hh => k3 (by rw [← hA k k1]; exact hh), fun hh => k4 (by rw [← hA k k1]; exact hh)⟩
  · left; exact ⟨hi, f2 i hia⟩

end Yaep.MP
