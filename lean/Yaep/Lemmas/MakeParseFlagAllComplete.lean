import Yaep.Lemmas.MakeParseFlagAllCov
import Yaep.Lemmas.MakeParseFlagAllSound
/-!
# The ambiguity flag, all parses, part 5: a run that leaves the flag off proves the parse list
deterministic

`JInv c W s`: `W` is the set of the contexts of the parse states that have been on top of the
stack so far.  Every step from a context in `W` leads to contexts that are in `W` or belong to
states still on the stack, and met at most one candidate (the flag is off); the contexts of the
entries of `parse_state_tab` are in `W` or on the stack.  When the stack is empty `W` is closed:
`Det` holds of the initial context (`run_det`).
-/
namespace Yaep.MP
open Yaep

/-! ## small facts about `step` (any mode) -/

theorem step_amb_mono_any {c : Ctx} {s : St} (h : s.amb = true) : (step c s).amb = true := by
  cases hst : s.stack with
  | nil =>
    have : step c s = s := by unfold step; rw [hst]
    rw [this]; exact h
  | cons sid rest =>
    by_cases hpos : (s.state sid).pos = 0
    · rw [(step_pop_shape hst hpos).2.2]; exact h
    · cases hsym : (c.rule (s.state sid).rule).rhs.getD ((s.state sid).pos - 1) (.t 0) with
      | t a => rw [(step_term_shape hst hpos hsym).2.2]; exact h
      | n A =>
        rw [step_nt' hst hpos hsym]
        have h' := candLoop_amb_mono (c := c) (L := ntLoc c s sid A)
          (set := c.sets.getD (s.state sid).plInd #[])
          (reduces c (c.sets.getD (s.state sid).plInd #[]) A) 0 [] (ntS0 s sid) h
        split <;> exact h'

theorem run_amb_mono {c : Ctx} : ∀ (fuel : Nat) (s s' : St), run c fuel s = some s' →
    s.amb = true → s'.amb = true
  | 0, s, s', hr, h => by
    unfold run at hr
    split at hr
    · injection hr with hr; rw [← hr]; exact h
    · cases hr
  | fuel + 1, s, s', hr, h => by
    unfold run at hr
    split at hr
    · injection hr with hr; rw [← hr]; exact h
    · exact run_amb_mono fuel _ _ hr (step_amb_mono_any h)

theorem run_bad_mono {c : Ctx} : ∀ (fuel : Nat) (s s' : St), run c fuel s = some s' →
    s.bad = true → s'.bad = true
  | 0, s, s', hr, h => by
    unfold run at hr
    split at hr
    · injection hr with hr; rw [← hr]; exact h
    · cases hr
  | fuel + 1, s, s', hr, h => by
    unfold run at hr
    split at hr
    · injection hr with hr; rw [← hr]; exact h
    · exact run_bad_mono fuel _ _ hr (step_bad_any h)

theorem step_pop_table {c : Ctx} {s : St} {sid : Nat} {rest : List Nat}
    (hst : s.stack = sid :: rest) (hpos : (s.state sid).pos = 0) : (step c s).table = s.table := by
  cases han : (s.state sid).anode with
  | none =>
    unfold step
    simp only [hst, hpos, han]
    simp only [beq_self_eq_true, if_true]
    split
    · split <;> rfl
    · rfl
  | some an =>
    rw [step_pop_some hst hpos han]
    exact (popFold_table _ _ _).1

theorem stepTerm_table (c : Ctx) (sid : Nat) (st : PState) (pos : Nat) (disp : Option Nat) (a : Nat)
    (pa : Option Nat) (s : St) : (stepTerm c sid st pos disp a pa s).table = s.table := by
  unfold stepTerm
  cases pa with
  | none => rfl
  | some p =>
    cases disp with
    | none => rfl
    | some d =>
      simp only
      split
      · rfl
      · split <;> rfl

/-! ## monotonicity of `DetStep` -/

theorem DetStep.mono {c : Ctx} {V V' : K4} {r p o j : Nat} (h : DetStep c V r p o j)
    (hV : ∀ r p o j, V r p o j → V' r p o j) : DetStep c V' r p o j := by
  intro hp
  have h' := h hp
  revert h'
  cases (c.rule r).rhs.getD (p - 1) (.t 0) with
  | t a => exact fun h' => hV _ _ _ _ h'
  | n A =>
    intro h'
    simp only at h' ⊢
    exact ⟨h'.1, fun i hi => ⟨hV _ _ _ _ (h'.2 i hi).1, fun h1 h2 => hV _ _ _ _ ((h'.2 i hi).2 h1 h2)⟩⟩

/-! ## the candidate loop in all-parses mode: every passing candidate is covered -/

theorem candLoop_cov {c : Ctx} (hall : c.oneParse = false) {W : K4} {L : Loc} {set : Array Item}
    (hpd : (∃ pa d, L.parentAnode = some pa ∧ L.disp = some d) ∨ L.disp = none) :
    ∀ (l : List Nat) (n : Nat) (os : List Nat) (s1 : St),
      (∀ i ∈ l, (set.getD i default).dot = (c.rule (set.getD i default).rule).rhs.length) →
      L.origSid < s1.states.size → Cov c W L.origSid s1 →
      SExt L.origSid s1 (candLoop c L set l n os s1).1 ∧
      Cov c W L.origSid (candLoop c L set l n os s1).1 ∧
      (L.disp.isSome = true → ∀ i ∈ l, checkFound c L (set.getD i default).origin = true →
        (set.getD i default).dot ≠ 0 →
        InX W L.origSid (candLoop c L set l n os s1).1 (set.getD i default).rule
          (set.getD i default).dot (set.getD i default).origin L.plInd)
  | [], n, os, s1, _, _, hcov => ⟨SExt.refl _ _, hcov, fun _ i hi => by cases hi⟩
  | i :: l, n, os, s1, hred, hx, hcov => by
    have hred' : ∀ k ∈ l, (set.getD k default).dot = (c.rule (set.getD k default).rule).rhs.length :=
      fun k hk => hred k (List.mem_cons_of_mem _ hk)
    unfold candLoop
    by_cases hf : checkFound c L (set.getD i default).origin = true
    · simp only [hf, hall]
      simp only [Bool.not_true, Bool.false_eq_true, if_false, Bool.and_false]
      -- the state with the flag possibly set
      have e0 : SExt L.origSid s1 (if (n != 0) = true then { s1 with amb := true } else s1) := by
        split
        · exact SExt.of_eq rfl rfl
        · exact SExt.refl _ _
      have c0 : Cov c W L.origSid (if (n != 0) = true then { s1 with amb := true } else s1) :=
        hcov.mono e0 (by split <;> rfl)
      have hx0 : L.origSid < (if (n != 0) = true then { s1 with amb := true } else s1 : St).states.size := by
        have := e0.size; omega
      generalize (if (n != 0) = true then { s1 with amb := true } else s1 : St) = s1' at e0 c0 hx0
      have hcand : SExt L.origSid s1' (candidate c L (set.getD i default) n os s1').1 ∧
          Cov c W L.origSid (candidate c L (set.getD i default) n os s1').1 ∧
          (L.disp.isSome = true → (set.getD i default).dot ≠ 0 →
            InX W L.origSid (candidate c L (set.getD i default) n os s1').1 (set.getD i default).rule
              (set.getD i default).dot (set.getD i default).origin L.plInd) := by
        rcases hpd with ⟨pa, d, hpa, hd⟩ | hd
        · obtain ⟨a1, a2, a3⟩ := candidate_cov (W := W) (n := n) (os := os) hall hpa hd
            (hred i List.mem_cons_self) hx0 c0
          exact ⟨a1, a2, fun _ => a3⟩
        · obtain ⟨a1, a2⟩ := candidate_untr_cov (c := c) (W := W) (sit := set.getD i default) (n := n)
            (os := os) hd c0
          exact ⟨a1, a2, fun h => by rw [hd] at h; cases h⟩
      obtain ⟨e1, c1, i1⟩ := hcand
      have hx1 : L.origSid < (candidate c L (set.getD i default) n os s1').1.states.size := by
        have := e1.size; omega
      obtain ⟨e2, c2, i2⟩ := candLoop_cov hall hpd l (n + 1)
        (candidate c L (set.getD i default) n os s1').2 (candidate c L (set.getD i default) n os s1').1
        hred' hx1 c1
      refine ⟨(e0.trans e1).trans e2, c2, ?_⟩
      intro hds k hk hkf hkd
      rcases List.mem_cons.mp hk with rfl | hk
      · exact (i1 hds hkd).mono e2
      · exact i2 hds k hk hkf hkd
    · simp only [hf]
      simp only [Bool.not_false, if_true]
      obtain ⟨e2, c2, i2⟩ := candLoop_cov hall hpd l n os s1 hred' hx hcov
      refine ⟨e2, c2, ?_⟩
      intro hds k hk hkf hkd
      rcases List.mem_cons.mp hk with rfl | hk
      · exact absurd hkf hf
      · exact i2 hds k hk hkf hkd

/-! ## the invariant -/

/-- the context `(r, p, o, j)` is in `W` or is the context of a state on the stack -/
def InS (W : K4) (s : St) (r p o j : Nat) : Prop :=
  W r p o j ∨ ∃ y ∈ s.stack, y < s.states.size ∧ (s.state y).rule = r ∧
    (s.state y).pos = p ∧ (s.state y).orig = o ∧ (s.state y).plInd = j

theorem InX.toS {W : K4} {x : Nat} {s : St} {r p o j : Nat} (h : InX W x s r p o j) :
    InS W s r p o j := by
  rcases h with h | ⟨y, hy, _, hlt, hf⟩
  · exact Or.inl h
  · exact Or.inr ⟨y, hy, hlt, hf⟩

theorem InS.congr {W : K4} {s1 s2 : St} {r p o j : Nat} (h1 : s2.states = s1.states)
    (h2 : s2.stack = s1.stack) (h : InS W s1 r p o j) : InS W s2 r p o j := by
  unfold InS St.state at *
  rw [h1, h2]; exact h

/-- `W` with the context of the state `st` -/
def addK (W : K4) (st : PState) : K4 :=
  fun r p o j => W r p o j ∨ (r = st.rule ∧ p = st.pos ∧ o = st.orig ∧ j = st.plInd)

structure JInv (c : Ctx) (W : K4) (s : St) : Prop where
  vis : ∀ r p o j, W r p o j → DetStep c (InS W s) r p o j
  tab : ∀ pl r o node, (r, o, node) ∈ s.table.getD pl [] → InS W s r (c.rule r).rhs.length o pl

/-- the states below the top keep their contexts, the context of the top joins `W` -/
theorem inS_step {W : K4} {s s' : St} {sid : Nat} {rest : List Nat} (hst : s.stack = sid :: rest)
    (keep : ∀ y ∈ rest, y ≠ sid → y ∈ s'.stack ∧ y < s'.states.size ∧ s'.state y = s.state y)
    {r p o j : Nat} (h : InS W s r p o j) : InS (addK W (s.state sid)) s' r p o j := by
  rcases h with h | ⟨y, hy, hlt, h1, h2, h3, h4⟩
  · exact Or.inl (Or.inl h)
  · by_cases hys : y = sid
    · subst hys
      exact Or.inl (Or.inr ⟨h1.symm, h2.symm, h3.symm, h4.symm⟩)
    · rw [hst] at hy
      have hyr : y ∈ rest := by
        rcases List.mem_cons.mp hy with e | e
        · exact absurd e hys
        · exact e
      obtain ⟨k1, k2, k3⟩ := keep y hyr hys
      exact Or.inr ⟨y, k1, k2, by rw [k3]; exact ⟨h1, h2, h3, h4⟩⟩

theorem jinv_of {c : Ctx} {W : K4} {s s' : St} {sid : Nat} {rest : List Nat} (hj : JInv c W s)
    (hst : s.stack = sid :: rest)
    (keep : ∀ y ∈ rest, y ≠ sid → y ∈ s'.stack ∧ y < s'.states.size ∧ s'.state y = s.state y)
    (htop : DetStep c (InS (addK W (s.state sid)) s') (s.state sid).rule (s.state sid).pos
      (s.state sid).orig (s.state sid).plInd)
    (htab : ∀ pl r o node, (r, o, node) ∈ s'.table.getD pl [] →
      InS (addK W (s.state sid)) s' r (c.rule r).rhs.length o pl) :
    JInv c (addK W (s.state sid)) s' := by
  refine ⟨?_, htab⟩
  intro r p o j hw
  rcases hw with hw | ⟨rfl, rfl, rfl, rfl⟩
  · exact (hj.vis r p o j hw).mono (fun _ _ _ _ h => inS_step hst keep h)
  · exact htop

/-- **one iteration in all-parses mode that leaves the flag off keeps `JInv`** -/
theorem step_jinv {c : Ctx} (hall : c.oneParse = false) {W : K4} {s : St} {sid pa : Nat}
    {rest : List Nat} (hj : JInv c W s) (hst : s.stack = sid :: rest)
    (hlt : ∀ y ∈ s.stack, y < s.states.size)
    (hpa : (s.state (s.state sid).parent).anode = some pa)
    (hamb : (step c s).amb = false) (hbad : (step c s).bad = false) :
    JInv c (addK W (s.state sid)) (step c s) := by
  have hsidlt : sid < s.states.size := hlt sid (by rw [hst]; exact List.mem_cons_self)
  by_cases hpos : (s.state sid).pos = 0
  · obtain ⟨e1, e2, _⟩ := step_pop_shape (c := c) hst hpos
    have et := step_pop_table (c := c) hst hpos
    have keep : ∀ y ∈ rest, y ≠ sid → y ∈ (step c s).stack ∧ y < (step c s).states.size ∧
        (step c s).state y = s.state y := by
      intro y hy _
      refine ⟨by rw [e2]; exact hy, by rw [e1]; exact hlt y (by rw [hst]; exact List.mem_cons_of_mem _ hy), ?_⟩
      unfold St.state; rw [e1]
    refine jinv_of hj hst keep (fun hp => absurd hpos hp) ?_
    intro pl r o node hm
    rw [et] at hm
    exact inS_step hst keep (hj.tab pl r o node hm)
  · cases hsym : (c.rule (s.state sid).rule).rhs.getD ((s.state sid).pos - 1) (.t 0) with
    | t a =>
      obtain ⟨e1, e2, _⟩ := step_term_shape hst hpos hsym
      have et : (step c s).table = s.table := by
        rw [step_term hst hpos hsym]; exact stepTerm_table ..
      have hsz : (step c s).states.size = s.states.size := by rw [e1]; simp
      have keep : ∀ y ∈ rest, y ≠ sid → y ∈ (step c s).stack ∧ y < (step c s).states.size ∧
          (step c s).state y = s.state y := by
        intro y hy hne
        refine ⟨by rw [e2, hst]; exact List.mem_cons_of_mem _ hy,
          by rw [hsz]; exact hlt y (by rw [hst]; exact List.mem_cons_of_mem _ hy), ?_⟩
        unfold St.state
        rw [e1, getD_set!, if_neg (fun hh => hne hh.1.symm)]
      refine jinv_of hj hst keep ?_ ?_
      · intro _
        rw [hsym]
        simp only
        refine Or.inr ⟨sid, by rw [e2, hst]; exact List.mem_cons_self, by rw [hsz]; exact hsidlt, ?_⟩
        have est : (step c s).state sid =
            { s.state sid with
              pos := (s.state sid).pos - 1
              plInd := if (s.state sid).pos - 1 != 0 then (s.state sid).plInd - 1 else (s.state sid).plInd } := by
          unfold St.state
          rw [e1, getD_set!, if_pos ⟨rfl, hsidlt⟩]
          rfl
        rw [est]
        exact ⟨rfl, rfl, rfl, rfl⟩
      · intro pl r o node hm
        rw [et] at hm
        exact inS_step hst keep (hj.tab pl r o node hm)
    | n A =>
      obtain ⟨⟨n, hshape, hbad0⟩, hambiff⟩ := step_nt_shape hst hpos hsym hsidlt
      have hn : n ≠ 0 := fun h0 => by rw [hbad0 h0] at hbad; cases hbad
      obtain ⟨a1, a2, ⟨ids, a3, a3'⟩, a4, a5⟩ := hshape
      have hsz0 : (ntS0 s sid).states.size = s.states.size := by simp [ntS0]
      have huniq : ∀ i1 i2, Passes c s sid A i1 → Passes c s sid A i2 → i1 = i2 := by
        intro i1 i2 p1 p2
        apply Classical.byContradiction
        intro hne
        have := hambiff.mpr (Or.inr ⟨i1, i2, hne, p1, p2⟩)
        rw [hamb] at this; cases this
      have keep : ∀ y ∈ rest, y ≠ sid → y ∈ (step c s).stack ∧ y < (step c s).states.size ∧
          (step c s).state y = s.state y := by
        intro y hy hne
        have hylt := hlt y (by rw [hst]; exact List.mem_cons_of_mem _ hy)
        refine ⟨by rw [a3]; exact List.mem_append_right _ (List.mem_cons_of_mem _ hy), by omega, ?_⟩
        unfold St.state
        rw [a2 y (by omega) hne]
        show (s.states.set! sid _).getD y default = _
        rw [getD_set!, if_neg (fun hh => hne hh.1.symm)]
      -- the candidate loop covers every passing candidate
      have hS : (step c s).states = (candLoop c (ntLoc c s sid A) (c.sets.getD (s.state sid).plInd #[])
            (reduces c (c.sets.getD (s.state sid).plInd #[]) A) 0 [] (ntS0 s sid)).1.states ∧
          (step c s).stack = (candLoop c (ntLoc c s sid A) (c.sets.getD (s.state sid).plInd #[])
            (reduces c (c.sets.getD (s.state sid).plInd #[]) A) 0 [] (ntS0 s sid)).1.stack ∧
          (step c s).table = (candLoop c (ntLoc c s sid A) (c.sets.getD (s.state sid).plInd #[])
            (reduces c (c.sets.getD (s.state sid).plInd #[]) A) 0 [] (ntS0 s sid)).1.table := by
        rw [step_nt' hst hpos hsym]
        split <;> exact ⟨rfl, rfl, rfl⟩
      have hcov0 : Cov c (addK W (s.state sid)) (ntLoc c s sid A).origSid (ntS0 s sid) := by
        intro pl r o node hm
        have hm' : (r, o, node) ∈ s.table.getD pl [] := hm
        rcases hj.tab pl r o node hm' with h | ⟨y, hy, hylt, h1, h2, h3, h4⟩
        · exact Or.inl (Or.inl h)
        · by_cases hys : y = sid
          · subst hys
            exact Or.inl (Or.inr ⟨h1.symm, h2.symm, h3.symm, h4.symm⟩)
          · refine Or.inr ⟨y, hy, hys, by omega, ?_⟩
            have : (ntS0 s sid).state y = s.state y := state_setState_ne _ (fun e => hys e.symm)
            rw [this]; exact ⟨h1, h2, h3, h4⟩
      have hpd : (∃ pa d, (ntLoc c s sid A).parentAnode = some pa ∧ (ntLoc c s sid A).disp = some d) ∨
          (ntLoc c s sid A).disp = none := by
        cases hd : (ntLoc c s sid A).disp with
        | none => exact Or.inr rfl
        | some d => exact Or.inl ⟨pa, d, hpa, rfl⟩
      obtain ⟨_, c2, i2⟩ := candLoop_cov (W := addK W (s.state sid)) hall hpd
        (reduces c (c.sets.getD (s.state sid).plInd #[]) A) 0 [] (ntS0 s sid)
        (fun i hi => (mem_reduces hi).2.1) (by show sid < _; omega) hcov0
      have toS : ∀ {r p o j : Nat}, InX (addK W (s.state sid)) sid
          (candLoop c (ntLoc c s sid A) (c.sets.getD (s.state sid).plInd #[])
            (reduces c (c.sets.getD (s.state sid).plInd #[]) A) 0 [] (ntS0 s sid)).1 r p o j →
          InS (addK W (s.state sid)) (step c s) r p o j :=
        fun h => InS.congr hS.1 hS.2.1 h.toS
      refine jinv_of hj hst keep ?_ ?_
      · intro _
        rw [hsym]
        simp only
        refine ⟨huniq, fun i hi => ⟨?_, ?_⟩⟩
        · rcases a4 with ⟨h0, _⟩ | ⟨_, i0, hi0, e⟩
          · exact absurd h0 hn
          · have hii : i0 = i := huniq i0 i hi0 hi
            subst hii
            refine Or.inr ⟨sid, by rw [a3]; exact List.mem_append_right _ List.mem_cons_self, by omega, ?_⟩
            have e' : (step c s).state sid =
                { s.state sid with
                  pos := (s.state sid).pos - 1
                  plInd := ((c.sets.getD (s.state sid).plInd #[]).getD i0 default).origin } := e
            rw [e']
            exact ⟨rfl, rfl, rfl, rfl⟩
        · intro hds hdot
          exact toS (i2 hds i hi.1 hi.2 hdot)
      · intro pl r o node hm
        rw [hS.2.2] at hm
        exact toS (c2 pl r o node hm)

/-! ## the whole run -/

/-- **a run in all-parses mode that ends with the flag off proves the walk deterministic**: the
contexts visited form a closed set -/
theorem run_det {g : Grammar} {ok : Nat → Nat → Nat → Bool} {toks : List Nat} {c : Ctx}
    (hc : CtxAll g ok toks c) (hg : GrOK g) :
    ∀ (fuel : Nat) (s s' : St) (W : K4), (∃ G, AGood g ok toks s G none) → JInv c W s →
      run c fuel s = some s' → s'.amb = false → s'.bad = false →
      ∃ W' : K4, (∀ r p o j, W r p o j → W' r p o j) ∧ Closed c W' ∧
        ∀ sid rest, s.stack = sid :: rest →
          W' (s.state sid).rule (s.state sid).pos (s.state sid).orig (s.state sid).plInd := by
  intro fuel
  induction fuel with
  | zero =>
    intro s s' W _ hj hr _ _
    unfold run at hr
    split at hr
    · rename_i he
      have hnil : s.stack = [] := by simpa using he
      refine ⟨W, fun _ _ _ _ h => h, ?_, fun sid rest h => by rw [hnil] at h; cases h⟩
      intro r p o j hw
      refine (hj.vis r p o j hw).mono ?_
      intro r' p' o' j' h
      rcases h with h | ⟨y, hy, _⟩
      · exact h
      · rw [hnil] at hy; cases hy
    · cases hr
  | succ fuel ih =>
    intro s s' W hgood hj hr hamb hbad
    unfold run at hr
    split at hr
    · rename_i he
      have hnil : s.stack = [] := by simpa using he
      refine ⟨W, fun _ _ _ _ h => h, ?_, fun sid rest h => by rw [hnil] at h; cases h⟩
      intro r p o j hw
      refine (hj.vis r p o j hw).mono ?_
      intro r' p' o' j' h
      rcases h with h | ⟨y, hy, _⟩
      · exact h
      · rw [hnil] at hy; cases hy
    · rename_i he
      cases hst : s.stack with
      | nil => rw [hst] at he; simp at he
      | cons sid rest =>
        obtain ⟨G, hG⟩ := hgood
        have hamb1 : (step c s).amb = false := by
          cases h : (step c s).amb with
          | false => rfl
          | true => rw [run_amb_mono fuel _ _ hr h] at hamb; cases hamb
        have hbad1 : (step c s).bad = false := by
          cases h : (step c s).bad with
          | false => rfl
          | true => rw [run_bad_mono fuel _ _ hr h] at hbad; cases hbad
        have hlt : ∀ y ∈ s.stack, y < s.states.size := by
          intro y hy
          obtain ⟨rl, hy'⟩ := hG.states y hy
          exact hy'.lt
        have hmem : sid ∈ s.stack := by rw [hst]; exact List.mem_cons_self
        obtain ⟨rl, hX⟩ := hG.states sid hmem
        obtain ⟨pa, hpa⟩ := hX.pa
        have hj1 := step_jinv hc.all hj hst hlt hpa hamb1 hbad1
        have hgood1 : ∃ G', AGood g ok toks (step c s) G' none := by
          rcases astep_inv hc hg (Or.inr ⟨G, hG⟩) with hb | h
          · rw [hbad1] at hb; cases hb
          · exact h
        obtain ⟨W', h1, h2, _⟩ := ih (step c s) s' _ hgood1 hj1 hr hamb hbad
        refine ⟨W', fun r p o j h => h1 r p o j (Or.inl h), h2, ?_⟩
        intro sid' rest' h
        injection h with e1 _
        subst e1
        exact h1 _ _ _ _ (Or.inr ⟨rfl, rfl, rfl, rfl⟩)

theorem init_facts {c : Ctx} {s0 : St} (hi : init c = some s0) :
    s0.stack = [1] ∧ s0.table = Array.replicate c.sets.size [] ∧ 1 < s0.states.size ∧ s0.amb = false := by
  unfold init at hi
  simp only at hi
  split at hi
  · cases hi
  · split at hi
    · cases hi
    · injection hi with hi
      subst hi
      exact ⟨rfl, rfl, by simp, rfl⟩

/-- in a closed set the flag stays off during the whole run (any mode) -/
theorem run_vinv {c : Ctx} {V : K4} (hV : Closed c V) : ∀ (fuel : Nat) (s s' : St), VInv V s →
    s.amb = false → run c fuel s = some s' → s'.bad = true ∨ s'.amb = false
  | 0, s, s', _, ha, hr => by
    unfold run at hr
    split at hr
    · injection hr with hr; rw [← hr]; exact Or.inr ha
    · cases hr
  | fuel + 1, s, s', hv, ha, hr => by
    unfold run at hr
    split at hr
    · injection hr with hr; rw [← hr]; exact Or.inr ha
    · obtain ⟨h1, h2⟩ := step_vinv hV hv
      have ha' : (step c s).amb = false := by
        cases h : (step c s).amb with
        | false => rfl
        | true => rw [h2 h] at ha; cases ha
      rcases h1 with hb | hv'
      · exact Or.inl (run_bad_mono fuel _ _ hr hb)
      · exact run_vinv hV fuel _ _ hv' ha' hr

/-- **if the all-parses run leaves the flag off, so does the one-parse run** (same parse list) -/
theorem all_unamb_one_unamb {g : Grammar} {ok : Nat → Nat → Nat → Bool} {toks : List Nat}
    {sets : Array (Array Item)} {plToks : Array Int} {fuel fuel1 : Nat} {res res1 : Result}
    (hc : CtxAll g ok toks (mkCtx g sets plToks false)) (hg : GrOK g)
    (hm : makeParse g sets plToks false fuel = .ok res) (hamb : res.amb = false)
    (hm1 : makeParse g sets plToks true fuel1 = .ok res1) : res1.amb = false := by
  -- the all-parses run gives a closed set that contains the initial context
  have hdet : ∃ (s0 : St) (V : K4), init (mkCtx g sets plToks false) = some s0 ∧
      Closed (mkCtx g sets plToks false) V ∧
      V (s0.state 1).rule (s0.state 1).pos (s0.state 1).orig (s0.state 1).plInd := by
    simp only [makeParse] at hm
    split at hm
    · cases hm
    · rename_i s0 hi
      split at hm
      · cases hm
      · rename_i s hr
        split at hm
        · cases hm
        · rename_i hb
          split at hm
          · cases hm
          · split at hm
            · cases hm
            · injection hm with hm
              subst hm
              obtain ⟨f1, f2, _, _⟩ := init_facts hi
              have hj0 : JInv (mkCtx g sets plToks false) (fun _ _ _ _ => False) s0 := by
                refine ⟨fun _ _ _ _ h => h.elim, ?_⟩
                intro pl r o node hmem
                rw [f2] at hmem
                simp [Array.getD_eq_getD_getElem?, Array.getElem?_replicate] at hmem
                split at hmem <;> simp at hmem
              obtain ⟨W', _, h2, h3⟩ := run_det hc hg fuel s0 s _ (ainit_inv hc hg hi) hj0 hr hamb
                (by simpa using hb)
              exact ⟨s0, W', hi, h2, h3 1 [] f1⟩
  obtain ⟨s0, V, hi, hV, hV0⟩ := hdet
  have hV1 : Closed (mkCtx g sets plToks true) V := hV
  have hi1 : init (mkCtx g sets plToks true) = some s0 := hi
  simp only [makeParse] at hm1
  rw [hi1] at hm1
  simp only at hm1
  split at hm1
  · cases hm1
  · rename_i s hr
    split at hm1
    · cases hm1
    · rename_i hb
      split at hm1
      · cases hm1
      · split at hm1
        · cases hm1
        · injection hm1 with hm1
          subst hm1
          obtain ⟨f1, _, f3, f4⟩ := init_facts hi
          have hv0 : VInv V s0 := by
            intro sid hsid
            rw [f1] at hsid
            have : sid = 1 := by simpa using hsid
            subst this
            exact ⟨f3, Or.inr hV0⟩
          rcases run_vinv hV1 fuel1 s0 s hv0 f4 hr with h | h
          · rw [h] at hb; simp at hb
          · exact h

end Yaep.MP
