import Yaep.Lemmas.CompleteNTLoop
/-!
# Completeness of the all-parses forest, part 13: a translated nonterminal before the dot
-/
namespace Yaep.CP
open Yaep Yaep.MP

section
variable {g : Grammar} {ok : Nat → Nat → Nat → Bool} {toks : List Nat} {c : Ctx} {s : St}
  {X d pa A : Nat} {rest : List Nat}

/-- an entry of the reduce vector that does not pass the check loop is skipped -/
theorem LInv.skip {i : Nat} {rem os : List Nat} {s' : St}
    (h : LInv g toks c s X d pa A rest (i :: rem) os s')
    (hf : checkFound c (ntLoc c s X A) ((c.sets.getD (s.state X).plInd #[]).getD i default).origin = false) :
    LInv g toks c s X d pa A rest rem os s' := by
  refine ⟨h.ext, h.sibs, fun j hj hp => ?_, h.news⟩
  rcases h.handled j hj hp with e | e
  · rcases List.mem_cons.mp e with rfl | e
    · rw [hf] at hp; cases hp
    · exact Or.inl e
  · exact Or.inr e

/-- the ambiguity flag is not looked at -/
theorem LInv.amb {rem os : List Nat} {s' : St} (h : LInv g toks c s X d pa A rest rem os s')
    (hstk : ∀ x ∈ s'.stack, (s'.state x).parent < s'.states.size ∧ x < s'.states.size) :
    LInv g toks c s X d pa A rest rem os { s' with amb := true } :=
  h.extend (CExt.of_eq rfl rfl rfl) hstk (fun _ hx => Or.inl hx)

/-- **the loop over the reduces of a translated nonterminal** without reuse event -/
theorem loop_tr (hc : CtxAll g ok toks c) (hg : GrOK g) (hsr : g.symsInRange = true)
    (hinv : CInv g ok toks s) {G : Ghost} (hgood : AGood g ok toks s G none)
    {rl : Rule} {γ : List Sym} (N : NT g toks s X rest rl A d pa γ) :
    s.reuse ≤ (candLoop c (ntLoc c s X A) (c.sets.getD (s.state X).plInd #[])
      (reduces c (c.sets.getD (s.state X).plInd #[]) A) 0 [] (ntS0 s X)).1.reuse ∧
    ((candLoop c (ntLoc c s X A) (c.sets.getD (s.state X).plInd #[])
      (reduces c (c.sets.getD (s.state X).plInd #[]) A) 0 [] (ntS0 s X)).1.reuse = s.reuse →
     (candLoop c (ntLoc c s X A) (c.sets.getD (s.state X).plInd #[])
      (reduces c (c.sets.getD (s.state X).plInd #[]) A) 0 [] (ntS0 s X)).2 ≠ 0 →
     ∃ G' os', LoopOK g ok toks (ntLoc c s X A) rl A d pa
        (candLoop c (ntLoc c s X A) (c.sets.getD (s.state X).plInd #[])
          (reduces c (c.sets.getD (s.state X).plInd #[]) A) 0 [] (ntS0 s X)).1 G' os' ∧
       LInv g toks c s X d pa A rest [] os'
        (candLoop c (ntLoc c s X A) (c.sets.getD (s.state X).plInd #[])
          (reduces c (c.sets.getD (s.state X).plInd #[]) A) 0 [] (ntS0 s X)).1) := by
  have hwf := hg.twf
  have hrule := hc.rule_eq N.hr
  have hLpa : (ntLoc c s X A).parentAnode = some pa := N.hpa
  have hLd : (ntLoc c s X A).disp = some d := by simp only [ntLoc, hrule]; exact N.hd
  obtain ⟨os', hM⟩ := candLoop_rem (c := c) (L := ntLoc c s X A)
    (set := c.sets.getD (s.state X).plInd #[]) hc.all
    (fun rem n os s' => (∀ j ∈ rem, j ∈ reduces c (c.sets.getD (s.state X).plInd #[]) A) ∧
      s.reuse ≤ s'.reuse ∧ (s'.reuse = s.reuse →
        (n = 0 ∧ os = [] ∧ s' = ntS0 s X ∧
          ∀ j ∈ reduces c (c.sets.getD (s.state X).plInd #[]) A,
            checkFound c (ntLoc c s X A) ((c.sets.getD (s.state X).plInd #[]).getD j default).origin = true →
            j ∈ rem) ∨
        (n ≠ 0 ∧ (∃ G', LoopOK g ok toks (ntLoc c s X A) rl A d pa s' G' os) ∧
          LInv g toks c s X d pa A rest rem os s')))
    (fun rem n os s' hn hm => by
      refine ⟨hm.1, hm.2.1, fun hre => ?_⟩
      rcases hm.2.2 hre with ⟨h0, _⟩ | ⟨_, ⟨G', hl⟩, hli⟩
      · exact absurd h0 hn
      · exact Or.inr ⟨hn, ⟨G', hl.congr rfl rfl rfl rfl rfl⟩, hli.amb (stk_of_good hl.good)⟩)
    (fun i rem n os s' hf hm => by
      refine ⟨fun j hj => hm.1 j (List.mem_cons_of_mem _ hj), hm.2.1, fun hre => ?_⟩
      rcases hm.2.2 hre with ⟨h0, h1, h2, h3⟩ | ⟨hn, hl, hli⟩
      · refine Or.inl ⟨h0, h1, h2, fun j hj hp => ?_⟩
        rcases List.mem_cons.mp (h3 j hj hp) with rfl | e
        · rw [hf] at hp; cases hp
        · exact e
      · exact Or.inr ⟨hn, hl, hli.skip hf⟩)
    (fun i rem n os s' hf hm => by
      have hi := hm.1 i List.mem_cons_self
      obtain ⟨c1, _⟩ := candidate_counts c (ntLoc c s X A)
        ((c.sets.getD (s.state X).plInd #[]).getD i default) n os s'
      refine ⟨fun j hj => hm.1 j (List.mem_cons_of_mem _ hj), Nat.le_trans hm.2.1 c1, fun hre => ?_⟩
      have hre' : s'.reuse = s.reuse := by have := hm.2.1; omega
      obtain ⟨sr, so, rl', kids, hsit, hr', hlhs, hE, hkid, hE2⟩ := cand_facts_all hc hi hf
      right
      refine ⟨Nat.succ_ne_zero _, ?_⟩
      rw [hsit] at hre ⊢
      rcases hm.2.2 hre' with ⟨h0, rfl, rfl, h3⟩ | ⟨hn, ⟨G', hl⟩, hli⟩
      · subst h0
        exact ⟨cand_step_zero hc hwf hgood N.hst N.hr N.hpos N.hsym N.hd N.hpa hr' hlhs hE hE2,
          lstep_zero hc hg hsr hinv hgood N h3 hr' hlhs hsit hE hkid hE2 hre⟩
      · exact ⟨cand_step_pos hc hwf hn hLpa hLd hl hr' hlhs hE hE2,
          lstep_pos hc hg hsr N hn hl hli hr' hlhs hsit hE hkid hE2 (by rw [hre, hre'])⟩)
    (reduces c (c.sets.getD (s.state X).plInd #[]) A) 0 [] (ntS0 s X)
    ⟨fun j hj => hj, Nat.le_refl _, fun _ => Or.inl ⟨rfl, rfl, rfl, fun j hj _ => hj⟩⟩
  refine ⟨hM.2.1, fun hre hn0 => ?_⟩
  rcases hM.2.2 hre with ⟨h0, _⟩ | ⟨_, ⟨G', hl⟩, hli⟩
  · exact absurd h0 hn0
  · exact ⟨G', os', hl, hli⟩

/-- **a translated nonterminal before the dot** -/
theorem cstep_nt_tr (hcc : CtxAllc g ok toks c) (hg : GrOK g) (hsr : g.symsInRange = true)
    (hokd : OkDer g ok toks) (hinv : CInv g ok toks s) (hst : s.stack = X :: rest) {rlX : Rule}
    (hr : g.rules[(s.state X).rule]? = some rlX) (hpos : (s.state X).pos ≠ 0)
    (hsym : rlX.rhs[(s.state X).pos - 1]? = some (.n A))
    (hd : rlX.order.getD ((s.state X).pos - 1) none = some d)
    (hnb : (step c s).bad = false) (hev : (step c s).reuse = s.reuse) :
    CInv g ok toks (step c s) := by
  have hc := hcc.toCtxAll
  obtain ⟨G, hgood⟩ := hinv.good
  have hwf := hg.twf
  have hXmem : X ∈ s.stack := by rw [hst]; simp
  obtain ⟨rl0, hX0⟩ := hgood.states X hXmem
  have est : s.states.getD X default = s.state X := rfl
  have hrl : rl0 = rlX := by
    have := hX0.hr; rw [est, hr] at this; injection this with this; exact this.symm
  subst hrl
  have hok := Grammar.translWF_rule hwf hr
  obtain ⟨hparX, hXlt⟩ := parent_lt hgood hXmem
  have hrule := hc.rule_eq hr
  have hpa := tgt_fst hgood hXmem
  obtain ⟨hitem, _⟩ := hX0.item (by rw [est]; exact hpos)
  rw [est] at hitem
  obtain ⟨rl1, γ, r1, hcov, hder⟩ := hinv.rc X hXmem
  rw [hr] at r1; injection r1 with r1; subst r1
  have hcurX : cur (s.state X) = (s.state X).plInd := by unfold cur; rw [if_neg hpos]
  rw [hcurX] at hder
  have N : NT g toks s X rest rl0 A d (tgt s (s.state X)).1 γ := ⟨hst, hr, hpos, hsym, hd, hpa, hcov, hder⟩
  have hstep := step_nt' (c := c) hst hpos (by rw [hrule]; exact getD_of_getElem? hsym)
  obtain ⟨l1, l2⟩ := loop_tr hc hg hsr hinv hgood N
  have hn0 : (candLoop c (ntLoc c s X A) (c.sets.getD (s.state X).plInd #[])
      (reduces c (c.sets.getD (s.state X).plInd #[]) A) 0 [] (ntS0 s X)).2 ≠ 0 := by
    intro h0
    rw [hstep, h0] at hnb
    simp at hnb
  have hstep' : step c s = (candLoop c (ntLoc c s X A) (c.sets.getD (s.state X).plInd #[])
      (reduces c (c.sets.getD (s.state X).plInd #[]) A) 0 [] (ntS0 s X)).1 := by
    rw [hstep]
    have : ((candLoop c (ntLoc c s X A) (c.sets.getD (s.state X).plInd #[])
      (reduces c (c.sets.getD (s.state X).plInd #[]) A) 0 [] (ntS0 s X)).2 == 0) = false := by
      simpa using hn0
    rw [this]; rfl
  rw [← hstep'] at l1 l2
  obtain ⟨G', os', hloop, hli⟩ := l2 hev hn0
  obtain ⟨k0, hk0⟩ := hli.ext
  have hadvO : ∀ y, y ≠ X → (s.setState X { s.state X with pos := (s.state X).pos - 1, plInd := k0 }).state y
      = s.state y := fun y hy => state_setState_ne _ (Ne.symm hy)
  have hadvX : (s.setState X { s.state X with pos := (s.state X).pos - 1, plInd := k0 }).state X =
      { s.state X with pos := (s.state X).pos - 1, plInd := k0 } := state_setState_same _ hXlt
  have hadvsz : (s.setState X { s.state X with pos := (s.state X).pos - 1, plInd := k0 }).states.size =
      s.states.size := by simp
  have hstO : ∀ y, y < s.states.size → y ≠ X → (step c s).state y = s.state y := by
    intro y hy hne
    rw [hk0.sts y (by rw [hadvsz]; exact hy), hadvO y hne]
  have hstX : (step c s).state X = { s.state X with pos := (s.state X).pos - 1, plInd := k0 } := by
    rw [hk0.sts X (by rw [hadvsz]; exact hXlt), hadvX]
  have hanode : ∀ y, y < s.states.size → ((step c s).state y).anode = (s.state y).anode := by
    intro y hy
    by_cases hyX : y = X
    · subst hyX; rw [hstX]
    · rw [hstO y hy hyX]
  have hm : HMono s.heap (step c s).heap := hk0.hm
  refine hinv.step_of hst ⟨G', hloop.good⟩ hm hanode ?_ hli.news ?_
  · intro x hx
    have hxs : x ∈ s.stack := by rw [hst]; exact List.mem_cons_of_mem _ hx
    have hne : x ≠ X := by
      have := hgood.top_max hst x hx
      omega
    exact ⟨hk0.stack x hxs, hstO x (parent_lt hgood hxs).2 hne⟩
  · -- the debts of the top state
    intro π t ho
    have hpi := ho.tgt_eq
    -- the sibling for a split of the symbols before the dot
    have hsib : ∀ τ, τ = X ∨ τ ∈ os' → τ ∈ (step c s).stack ∧
        ((step c s).state τ).rule = (s.state X).rule ∧ ((step c s).state τ).pos = (s.state X).pos - 1 ∧
        ((step c s).state τ).orig = (s.state X).orig ∧
        tgt (step c s) ((step c s).state τ) = tgt s (s.state X) ∧
        ((step c s).state τ).parentDisp = (s.state X).parentDisp := by
      intro τ hτ
      obtain ⟨b1, b2, b3, b4, b5, b6, _⟩ := hloop.sib τ hτ
      have b5' : ((step c s).state τ).parent = (s.state X).parent := by
        have : ((step c s).state τ).parent = ((step c s).state X).parent := b5
        rw [this, hstX]
      refine ⟨b1, b2, b3, b4, ?_, b6⟩
      unfold tgt
      rw [b5', hanode _ (by omega)]
      have b6' : ((step c s).state τ).parentDisp = (s.state X).parentDisp := b6
      rw [b6']
    have hsplit : ∀ kids, PT.ValidListAt g toks kids (rl0.rhs.take (s.state X).pos) (s.state X).orig
        (cur (s.state X)) → ∃ pre r2 gks τ, kids = pre ++ [.node r2 gks] ∧
        pre.length = (s.state X).pos - 1 ∧ (τ = X ∨ τ ∈ os') ∧
        PT.ValidListAt g toks pre (rl0.rhs.take ((step c s).state τ).pos) ((step c s).state τ).orig
          (cur ((step c s).state τ)) ∧
        Ev g toks (step c s) (placeOf ((step c s).state τ) (tgt s (s.state X)).1 d)
          (translate g (.node r2 gks)) := by
      intro kids hk
      rw [hcurX] at hk
      obtain ⟨pre, r2, rl2, gks, m', rfl, q2, q3, q4, q5, q6⟩ := split_kids hpos hsym hk
      obtain ⟨i, hi, hi2, hpass⟩ := cand_complete hcc hsr hokd hr hpos hsym hitem hcov hder q3 q4 q5 q6
      rcases hli.handled i hi (by rw [hi2]; exact hpass) with e | e
      · cases e
      · rw [hi2] at e
        obtain ⟨rl'', τ, e1, _, e3, e4, e5⟩ := e
        have e1' : g.rules[r2]? = some rl'' := e1
        rw [q4] at e1'; injection e1' with e1'; subst e1'
        have e4' : ((step c s).state τ).plInd = m' := e4
        obtain ⟨_, _, b3, b4, _, _⟩ := hsib τ e3
        refine ⟨pre, r2, gks, τ, rfl, q2, e3, ?_, e5 gks q6⟩
        have hcurτ : cur ((step c s).state τ) = m' := by
          unfold cur
          split
          · rename_i h0
            rw [b3] at h0
            rw [h0] at q3
            simp only [List.take_zero] at q3
            rw [b4]
            exact (ValidListAt.nil_inv q3).2
          · exact e4'
        rw [hcurτ, b3, b4]; exact q3
    cases ho with
    | @owner an rl2 kids nm slots h1 h2 h3 h4 h5 h6 h7 h8 h9 =>
      rw [hr] at h3; injection h3 with h3; subst h3
      obtain ⟨pre, r2, gks, τ, rfl, hprelen, hτ, hpre, hdel⟩ := hsplit kids h5
      obtain ⟨b1, b2, b3, b4, b5, _⟩ := hsib τ hτ
      obtain ⟨aτ, t1, t2⟩ := (hli.sibs τ hτ).2.2 an h2
      have hplace : placeOf ((step c s).state τ) (tgt s (s.state X)).1 d = (aτ, d) := by
        unfold placeOf; rw [t1]
      rw [hplace] at hdel
      refine Ev.owe b1 (.owner (a := aτ) (kids := pre) (by rw [b5]; exact h1) t1
        (by rw [b2]; exact hr) h4 hpre h6 ?_ ?_ h9)
      · intro dd q hd' ho hq
        rw [b3] at hq
        rw [h7 dd q hd' ho (by omega)]
        congr 1
        rw [List.getD_eq_getElem?_getD, List.getD_eq_getElem?_getD,
          List.getElem?_append_left (by omega)]
      · intro dd q hd' ho hq
        rw [b3] at hq
        rcases Nat.eq_or_lt_of_le hq with e | hlt
        · subst e
          have hdd : dd = d := by rw [hd] at ho; injection ho with ho; exact ho.symm
          subst hdd
          have hsl : slots.getD dd .nil = translate g (.node r2 gks) := by
            rw [h7 dd _ hd' ho (by omega)]
            congr 1
            rw [List.getD_eq_getElem?_getD, List.getElem?_append_right (by omega), hprelen]
            simp
          rw [hsl]; exact hdel
        · have hne : dd ≠ d := by
            intro e
            subst e
            have := hok.inj _ _ _ (order_getD_eq_some.mp ho) (order_getD_eq_some.mp hd)
            omega
          have h8' := (h8 dd q hd' ho (by omega)).1
          exact .now (t2 dd _ hne (ev_top_now hgood hst h2 h8'))
    | @pass rl2 kids q h1 h2 h3 h4 h5 h6 =>
      rw [hr] at h3; injection h3 with h3; subst h3
      obtain ⟨pre, r2, gks, τ, rfl, hprelen, hτ, hpre, hdel⟩ := hsplit kids h4
      obtain ⟨b1, b2, b3, b4, b5, b6⟩ := hsib τ hτ
      have t1 := (hli.sibs τ hτ).2.1 h2
      rcases Nat.lt_or_ge q ((s.state X).pos - 1) with hlt | hge
      · have e : (pre ++ [PT.node r2 gks]).getD q default = pre.getD q default := by
          rw [List.getD_eq_getElem?_getD, List.getD_eq_getElem?_getD,
            List.getElem?_append_left (by omega)]
        rw [e]
        exact Ev.owe b1 (.pass (kids := pre) (by rw [b5]; exact h1) t1 (by rw [b2]; exact hr) hpre
          (by rw [b3]; exact hlt) h6)
      · have hq : q = (s.state X).pos - 1 := by omega
        subst hq
        have e : (pre ++ [PT.node r2 gks]).getD ((s.state X).pos - 1) default = .node r2 gks := by
          rw [List.getD_eq_getElem?_getD, List.getElem?_append_right (by omega), hprelen]
          simp
        rw [e]
        have hplace : placeOf ((step c s).state τ) (tgt s (s.state X)).1 d = π := by
          unfold placeOf; rw [t1]
          simp only
          rw [b6, ← h1]; rfl
        rw [hplace] at hdel
        exact hdel
    | @passNil rl2 h1 h2 h3 h4 =>
      obtain ⟨b1, b2, _, _, b5, _⟩ := hsib X (Or.inl rfl)
      exact Ev.owe b1 (.passNil (by rw [b5]; exact h1) (by rw [hstX]; exact h2)
        (by rw [b2]; exact h3) h4)

end

end Yaep.CP
