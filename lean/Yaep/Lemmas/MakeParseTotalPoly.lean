import Yaep.Lemmas.MakeParseTotalSize
/-!
# A polynomial bound for the main loop of `make_parse` (all parses), part 1

The exponential number of iterations (`Yaep/Props/MakeParseTotal.lean`, `passGrammar`) needs a rule
without abstract node that reaches itself through translated symbols of rules without abstract
node (`PassCyclic`).  Without such a cycle the number of iterations is polynomial in the length of
the input; this file prepares the argument:

* `PassStep`, `PassCyclic`, `passRank`, `lvl`: the level of a rule — rules with an abstract node
  are at the top, a rule without abstract node is above the rules without abstract node (and
  nonempty right-hand side) of its translated symbol;
* `tabFree`: the number of keys `(rule, orig, pl_ind)` that `parse_state_tab` does not hold yet; an
  insertion of an absent key decreases it (`tabFree_insert`);
* `candidate_parts`: one candidate = an optional copy of the original state, then nothing / a state
  for a rule without abstract node / a state for a new abstract node together with its insertion
  into the table.
-/
namespace Yaep.MP
open Yaep

/-! ## the pass-through relation between rules -/

/-- rule `r` has no abstract node, `r'` neither (and a nonempty right-hand side), and the
left-hand side of `r'` is a translated symbol of `r` -/
def passStepB (g : Grammar) (r r' : Nat) : Bool :=
  match g.rules[r]?, g.rules[r']? with
  | some rl, some rl' =>
    rl.anode.isNone && rl'.anode.isNone && !rl'.rhs.isEmpty &&
      (List.range rl.rhs.length).any fun q =>
        (rl.order.getD q none).isSome && rl.rhs[q]? == some (.n rl'.lhs)
  | _, _ => false

def PassStep (g : Grammar) (r r' : Nat) : Prop := passStepB g r r' = true

/-- a rule without abstract node passes its translation up to itself -/
def PassCyclic (g : Grammar) : Prop := ∃ r, Plus (PassStep g) r r

theorem passStep_lt {g : Grammar} {r r' : Nat} (h : PassStep g r r') : r' < g.rules.length := by
  unfold PassStep passStepB at h
  split at h
  · rename_i rl rl' _ h2
    exact (List.getElem?_eq_some_iff.mp h2).1
  · cases h

theorem plus_passStep_lt {g : Grammar} {r r' : Nat} (h : Plus (PassStep g) r r') : r' < g.rules.length := by
  induction h with
  | single h => exact passStep_lt h
  | cons _ _ ih => exact ih

theorem passStep_intro {g : Grammar} {r r' : Nat} {rl rl' : Rule} {q d : Nat}
    (hr : g.rules[r]? = some rl) (hr' : g.rules[r']? = some rl') (ha : rl.anode = none)
    (ha' : rl'.anode = none) (hne : rl'.rhs.length ≠ 0) (hq : rl.order.getD q none = some d)
    (hs : rl.rhs[q]? = some (.n rl'.lhs)) : PassStep g r r' := by
  unfold PassStep passStepB
  simp only [hr, hr', ha, ha']
  have hqlt : q < rl.rhs.length := (List.getElem?_eq_some_iff.mp hs).1
  have hne' : rl'.rhs.isEmpty = false := by
    cases h : rl'.rhs with
    | nil => rw [h] at hne; simp at hne
    | cons _ _ => rfl
  simp only [Option.isNone_none, hne', Bool.not_false, Bool.and_self, Bool.true_and, List.any_eq_true,
    List.mem_range, Bool.and_eq_true, beq_iff_eq]
  exact ⟨q, hqlt, by rw [hq]; rfl, hs⟩

/-- the number of rules reachable by one or more pass-through steps -/
noncomputable def passRank (g : Grammar) (r : Nat) : Nat :=
  ((List.range g.rules.length).filter fun r' =>
    @decide (Plus (PassStep g) r r') (Classical.propDecidable _)).length

theorem passRank_le (g : Grammar) (r : Nat) : passRank g r ≤ g.rules.length := by
  unfold passRank
  have := List.length_filter_le
    (fun r' => @decide (Plus (PassStep g) r r') (Classical.propDecidable _)) (List.range g.rules.length)
  simpa using this

theorem passRank_lt {g : Grammar} (hc : ¬ PassCyclic g) {r r' : Nat} (h : PassStep g r r') :
    passRank g r' < passRank g r := by
  unfold passRank
  apply filter_length_lt (y := r')
  · intro x _ hx
    simp only [decide_eq_true_eq] at hx ⊢
    exact Plus.cons h hx
  · exact List.mem_range.mpr (passStep_lt h)
  · simpa using Plus.single h
  · simp only [decide_eq_false_iff_not]
    exact fun hB => hc ⟨r', hB⟩

/-- the level of a rule: rules with an abstract node are at the top -/
noncomputable def lvl (g : Grammar) (r : Nat) : Nat :=
  match g.rules[r]? with
  | some rl => if rl.anode.isSome then g.rules.length + 1 else passRank g r
  | none => 0

theorem lvl_le (g : Grammar) (r : Nat) : lvl g r ≤ g.rules.length + 1 := by
  unfold lvl
  split
  · split
    · exact Nat.le_refl _
    · have := passRank_le g r; omega
  · omega

/-- the exponent of a state in the polynomial potential: level of the rule, then position -/
noncomputable def pexp (g : Grammar) (st : PState) : Nat := lvl g st.rule * (g.maxRhs + 1) + st.pos

/-- the largest exponent of a state just pushed -/
def pexpTop (g : Grammar) : Nat := (g.rules.length + 1) * (g.maxRhs + 1) + g.maxRhs

/-! ## the parse-state table -/

theorem filter_length_le' {α : Type} {l : List α} {p q : α → Bool}
    (hpq : ∀ x ∈ l, p x = true → q x = true) : (l.filter p).length ≤ (l.filter q).length := by
  induction l with
  | nil => simp
  | cons x l ih =>
    have ih' := ih (fun y hy => hpq y (List.mem_cons_of_mem _ hy))
    have hx := hpq x List.mem_cons_self
    cases hp : p x <;> cases hq : q x <;> simp [hp, hq] <;> simp [hp, hq] at hx <;> omega

theorem filter_length_lt' {α : Type} {l : List α} {p q : α → Bool}
    (hpq : ∀ x ∈ l, p x = true → q x = true) {y : α} (hy : y ∈ l) (hqy : q y = true)
    (hpy : p y = false) : (l.filter p).length + 1 ≤ (l.filter q).length := by
  induction l with
  | nil => cases hy
  | cons x l ih =>
    have hle := filter_length_le' (fun z hz => hpq z (List.mem_cons_of_mem _ hz))
    have hx := hpq x List.mem_cons_self
    rcases List.mem_cons.mp hy with rfl | hy'
    · simp [hqy, hpy]; omega
    · have ih' := ih (fun z hz => hpq z (List.mem_cons_of_mem _ hz)) hy'
      cases hp : p x <;> cases hq : q x <;> simp [hp, hq] <;> simp [hp, hq] at hx <;> omega

/-- all keys `(rule, orig, pl_ind)` of a parse list of `n + 1` sets -/
def keyUniv (g : Grammar) (n : Nat) : List (Nat × Nat × Nat) :=
  (List.range g.rules.length).flatMap fun r =>
    (List.range (n + 1)).flatMap fun o => (List.range (n + 1)).map fun p => (r, o, p)

theorem mem_keyUniv {g : Grammar} {n : Nat} {k : Nat × Nat × Nat} :
    k ∈ keyUniv g n ↔ k.1 < g.rules.length ∧ k.2.1 ≤ n ∧ k.2.2 ≤ n := by
  unfold keyUniv
  simp only [List.mem_flatMap, List.mem_map, List.mem_range]
  constructor
  · rintro ⟨r, hr, o, ho, p, hp, rfl⟩; exact ⟨hr, by simp only; omega, by simp only; omega⟩
  · rintro ⟨h1, h2, h3⟩; exact ⟨k.1, h1, k.2.1, by omega, k.2.2, by omega, rfl⟩

theorem length_keyUniv (g : Grammar) (n : Nat) :
    (keyUniv g n).length = g.rules.length * ((n + 1) * (n + 1)) := by
  unfold keyUniv
  rw [length_flatMap_const _ _ ((n + 1) * (n + 1)), List.length_range]
  intro r _
  rw [length_flatMap_const _ _ (n + 1), List.length_range]
  intro o _
  rw [List.length_map, List.length_range]

/-- the number of keys that are not in the table -/
def tabFree (g : Grammar) (n : Nat) (t : Array (List (Nat × Nat × Nat))) : Nat :=
  ((keyUniv g n).filter fun k => (tableFind t k.1 k.2.1 k.2.2).isNone).length

theorem tabFree_le (g : Grammar) (n : Nat) (t : Array (List (Nat × Nat × Nat))) :
    tabFree g n t ≤ g.rules.length * ((n + 1) * (n + 1)) := by
  unfold tabFree
  rw [← length_keyUniv]
  exact List.length_filter_le _ _

theorem tableInsert_size (t : Array (List (Nat × Nat × Nat))) (r o p nd : Nat) :
    (tableInsert t r o p nd).size = t.size := by
  unfold tableInsert
  split
  · simp
  · rfl

theorem tableFind_insert_same {t : Array (List (Nat × Nat × Nat))} {r o p nd : Nat} (hp : p < t.size) :
    tableFind (tableInsert t r o p nd) r o p = some nd := by
  unfold tableFind tableInsert
  rw [if_pos hp, getD_set!, if_pos ⟨rfl, hp⟩]
  simp

theorem tableFind_insert_mono {t : Array (List (Nat × Nat × Nat))} {r o p nd r' o' p' : Nat}
    (h : (tableFind (tableInsert t r o p nd) r' o' p').isNone = true) :
    (tableFind t r' o' p').isNone = true := by
  by_cases hp : p < t.size
  · unfold tableFind tableInsert at h
    unfold tableFind
    rw [if_pos hp, getD_set!] at h
    by_cases hpp : p = p' ∧ p < t.size
    · rw [if_pos hpp] at h
      obtain ⟨rfl, _⟩ := hpp
      simp only [List.find?_cons] at h
      split at h
      · simp at h
      · exact h
    · rw [if_neg hpp] at h; exact h
  · unfold tableInsert at h
    rw [if_neg hp] at h; exact h

/-- inserting an absent key of the universe leaves fewer free keys -/
theorem tabFree_insert {g : Grammar} {n : Nat} {t : Array (List (Nat × Nat × Nat))} {r o p nd : Nat}
    (hr : r < g.rules.length) (ho : o ≤ n) (hp : p ≤ n) (hps : p < t.size)
    (hf : tableFind t r o p = none) : tabFree g n (tableInsert t r o p nd) + 1 ≤ tabFree g n t := by
  unfold tabFree
  apply filter_length_lt' (y := (r, o, p))
  · intro k _ hk
    exact tableFind_insert_mono hk
  · exact mem_keyUniv.mpr ⟨hr, ho, hp⟩
  · simp [hf]
  · simp [tableFind_insert_same hps]

end Yaep.MP
