import Yaep.Model.Analysis
import Yaep.Lemmas.Saturate
import Yaep.Spec.WellFormed
/-!
# Helper lemmas: the fixpoints of the grammar analysis against their declarative specs
-/
namespace Yaep

/-! ## generic facts about `Der` -/

theorem Der.of_mem_rules {g : Grammar} {rl : Rule} {u : List Nat} (hmem : rl ∈ g.rules)
    (h : Der g rl.rhs u) : Der g [.n rl.lhs] u := by
  obtain ⟨r, hr⟩ := List.getElem?_of_mem hmem
  have := Der.nt hr h Der.nil
  simpa using this

/-- `Der.nt` with the indices freed (convenient for concrete grammars) -/
theorem Der.nt' {g : Grammar} {r : Nat} {rl : Rule} {A : Nat} {ss : List Sym} {u v w : List Nat}
    (hr : g.rules[r]? = some rl) (hl : rl.lhs = A) (h1 : Der g rl.rhs u) (h2 : Der g ss v)
    (hw : w = u ++ v) : Der g (Sym.n A :: ss) w := by
  subst hl hw
  exact Der.nt hr h1 h2

theorem Der.cons_n_inv {g : Grammar} {A : Nat} {ss : List Sym} {w : List Nat}
    (h : Der g (Sym.n A :: ss) w) :
    ∃ (r : Nat) (rl : Rule) (u v : List Nat), g.rules[r]? = some rl ∧ rl.lhs = A ∧
      Der g rl.rhs u ∧ Der g ss v ∧ w = u ++ v := by
  generalize hα : Sym.n A :: ss = α at h
  cases h with
  | nil => cases hα
  | term _ => cases hα
  | nt hr h1 h2 =>
    rename_i r rl ss' u v
    simp only [List.cons.injEq, Sym.n.injEq] at hα
    obtain ⟨h3, h4⟩ := hα
    subst h4
    exact ⟨r, rl, u, v, hr, h3.symm, h1, h2, rfl⟩

theorem Der.cons_t_inv {g : Grammar} {a : Nat} {ss : List Sym} {w : List Nat}
    (h : Der g (Sym.t a :: ss) w) : ∃ v, Der g ss v ∧ w = a :: v := by
  generalize hα : Sym.t a :: ss = α at h
  cases h with
  | nil => cases hα
  | term h1 =>
    simp only [List.cons.injEq, Sym.t.injEq] at hα
    obtain ⟨h3, h4⟩ := hα
    subst h3 h4
    exact ⟨_, h1, rfl⟩
  | nt _ _ _ => cases hα

theorem Der.nil_inv {g : Grammar} {w : List Nat} (h : Der g [] w) : w = [] := by
  generalize hα : ([] : List Sym) = α at h
  cases h with
  | nil => rfl
  | term _ => cases hα
  | nt _ _ _ => cases hα

/-- splitting a derivation of `s :: ss` -/
theorem Der.cons_inv {g : Grammar} {s : Sym} {ss : List Sym} {w : List Nat}
    (h : Der g (s :: ss) w) : ∃ u v, Der g [s] u ∧ Der g ss v ∧ w = u ++ v := by
  cases s with
  | t a =>
    obtain ⟨v, hv, rfl⟩ := h.cons_t_inv
    exact ⟨[a], v, Der.term Der.nil, hv, rfl⟩
  | n A =>
    obtain ⟨r, rl, u, v, hr, hl, h1, h2, rfl⟩ := h.cons_n_inv
    refine ⟨u, v, ?_, h2, rfl⟩
    have := Der.nt hr h1 Der.nil
    rw [hl] at this
    simpa using this

theorem Der.nil_of_forall {g : Grammar} {α : List Sym} (h : ∀ s ∈ α, Der g [s] []) :
    Der g α [] := by
  induction α with
  | nil => exact Der.nil
  | cons s ss ih =>
    have h1 := h s (List.mem_cons_self)
    have h2 := ih (fun x hx => h x (List.mem_cons_of_mem _ hx))
    exact Der.append h1 h2

theorem Der.forall_of_nil {g : Grammar} {α : List Sym} (h : Der g α []) :
    ∀ s ∈ α, Der g [s] [] := by
  induction α with
  | nil => intro s hs; cases hs
  | cons s ss ih =>
    obtain ⟨u, v, h1, h2, huv⟩ := h.cons_inv
    obtain ⟨hu, hv⟩ := List.append_eq_nil_iff.mp huv.symm
    subst hu hv
    intro x hx
    rcases List.mem_cons.mp hx with rfl | hx
    · exact h1
    · exact ih h2 x hx

theorem Der.exists_of_forall {g : Grammar} {α : List Sym} (h : ∀ s ∈ α, ∃ w, Der g [s] w) :
    ∃ w, Der g α w := by
  induction α with
  | nil => exact ⟨[], Der.nil⟩
  | cons s ss ih =>
    obtain ⟨u, h1⟩ := h s (List.mem_cons_self)
    obtain ⟨v, h2⟩ := ih (fun x hx => h x (List.mem_cons_of_mem _ hx))
    exact ⟨u ++ v, Der.append h1 h2⟩

theorem Der.not_t_nil {g : Grammar} {a : Nat} {ss : List Sym} : ¬ Der g (Sym.t a :: ss) [] := by
  intro h
  obtain ⟨v, _, hv⟩ := h.cons_t_inv
  cases hv

/-! ## nullable -/

theorem mem_nullableStep {rules : List Rule} {s : List Nat} {A : Nat} :
    A ∈ nullableStep rules s ↔
      ∃ rl ∈ rules, rl.rhs.all (symNullable s) = true ∧ rl.lhs = A := by
  unfold nullableStep
  rw [List.mem_filterMap]
  constructor
  · rintro ⟨rl, hrl, h⟩
    split at h
    · rename_i hall
      exact ⟨rl, hrl, hall, by simpa using h⟩
    · cases h
  · rintro ⟨rl, hrl, hall, rfl⟩
    exact ⟨rl, hrl, by simp [hall]⟩

theorem nullableStep_subset_univ (rules : List Rule) (s : List Nat) :
    nullableStep rules s ⊆ rules.map (·.lhs) := by
  intro A hA
  obtain ⟨rl, hrl, _, rfl⟩ := mem_nullableStep.mp hA
  exact List.mem_map.mpr ⟨rl, hrl, rfl⟩

/-- the fuel `rules.length + 1` suffices: `nullable` is closed under the step function -/
theorem nullable_closed (g : Grammar) : nullableStep g.rules g.nullable ⊆ g.nullable := by
  unfold Grammar.nullable
  apply saturate_closed (nullableStep g.rules) (g.rules.map (·.lhs))
  · intro s _; exact nullableStep_subset_univ _ _
  · intro _ h; cases h
  · exact List.nodup_nil
  · simp

theorem symNullable_sound {g : Grammar} {nl : List Nat} (hnl : ∀ A ∈ nl, Nullable g A)
    {s : Sym} (h : symNullable nl s = true) : Der g [s] [] := by
  cases s with
  | t a => simp [symNullable] at h
  | n B => exact hnl B (by simpa [symNullable] using h)

theorem nullable_sound (g : Grammar) : ∀ A ∈ g.nullable, Nullable g A := by
  unfold Grammar.nullable
  apply saturate_sound (nullableStep g.rules) (Nullable g)
  · intro s hs A hA
    obtain ⟨rl, hrl, hall, rfl⟩ := mem_nullableStep.mp hA
    apply Der.of_mem_rules hrl
    apply Der.nil_of_forall
    intro x hx
    exact symNullable_sound hs (List.all_eq_true.mp hall x hx)
  · intro _ h; cases h

theorem nullable_complete_aux {g : Grammar} {nl : List Nat}
    (hcl : nullableStep g.rules nl ⊆ nl) {α : List Sym} {w : List Nat} (h : Der g α w) :
    w = [] → ∀ s ∈ α, symNullable nl s = true := by
  induction h with
  | nil => intro _ s hs; cases hs
  | term _ _ => intro hw; cases hw
  | @nt r rl ss u v hr _ _ ih1 ih2 =>
    intro hw
    obtain ⟨hu, hv⟩ := List.append_eq_nil_iff.mp hw
    intro s hs
    rcases List.mem_cons.mp hs with rfl | hs
    · have : rl.lhs ∈ nl := by
        apply hcl
        apply mem_nullableStep.mpr
        exact ⟨rl, List.mem_of_getElem? hr, List.all_eq_true.mpr (ih1 hu), rfl⟩
      simpa [symNullable] using this
    · exact ih2 hv s hs

theorem symNullable_iff {g : Grammar} {s : Sym} :
    symNullable g.nullable s = true ↔ Der g [s] [] := by
  constructor
  · exact symNullable_sound (nullable_sound g)
  · intro h
    exact nullable_complete_aux (nullable_closed g) h rfl s (List.mem_singleton.mpr rfl)

/-! ## productive -/

theorem mem_productiveStep {rules : List Rule} {s : List Nat} {A : Nat} :
    A ∈ productiveStep rules s ↔
      ∃ rl ∈ rules, rl.rhs.all (symProductive s) = true ∧ rl.lhs = A := by
  unfold productiveStep
  rw [List.mem_filterMap]
  constructor
  · rintro ⟨rl, hrl, h⟩
    split at h
    · rename_i hall
      exact ⟨rl, hrl, hall, by simpa using h⟩
    · cases h
  · rintro ⟨rl, hrl, hall, rfl⟩
    exact ⟨rl, hrl, by simp [hall]⟩

theorem productiveStep_subset_univ (rules : List Rule) (s : List Nat) :
    productiveStep rules s ⊆ rules.map (·.lhs) := by
  intro A hA
  obtain ⟨rl, hrl, _, rfl⟩ := mem_productiveStep.mp hA
  exact List.mem_map.mpr ⟨rl, hrl, rfl⟩

/-- the fuel `rules.length + 1` suffices -/
theorem productive_closed (g : Grammar) :
    productiveStep g.rules g.productive ⊆ g.productive := by
  unfold Grammar.productive
  apply saturate_closed (productiveStep g.rules) (g.rules.map (·.lhs))
  · intro s _; exact productiveStep_subset_univ _ _
  · intro _ h; cases h
  · exact List.nodup_nil
  · simp

theorem symProductive_sound {g : Grammar} {pr : List Nat} (hpr : ∀ A ∈ pr, Productive g A)
    {s : Sym} (h : symProductive pr s = true) : ∃ w, Der g [s] w := by
  cases s with
  | t a => exact ⟨[a], Der.term Der.nil⟩
  | n B => exact hpr B (by simpa [symProductive] using h)

theorem productive_sound (g : Grammar) : ∀ A ∈ g.productive, Productive g A := by
  unfold Grammar.productive
  apply saturate_sound (productiveStep g.rules) (Productive g)
  · intro s hs A hA
    obtain ⟨rl, hrl, hall, rfl⟩ := mem_productiveStep.mp hA
    obtain ⟨w, hw⟩ := Der.exists_of_forall (g := g) (α := rl.rhs)
      (fun x hx => symProductive_sound hs (List.all_eq_true.mp hall x hx))
    exact ⟨w, Der.of_mem_rules hrl hw⟩
  · intro _ h; cases h

theorem productive_complete_aux {g : Grammar} {pr : List Nat}
    (hcl : productiveStep g.rules pr ⊆ pr) {α : List Sym} {w : List Nat} (h : Der g α w) :
    ∀ s ∈ α, symProductive pr s = true := by
  induction h with
  | nil => intro s hs; cases hs
  | term _ ih =>
    intro s hs
    rcases List.mem_cons.mp hs with rfl | hs
    · rfl
    · exact ih s hs
  | @nt r rl ss u v hr _ _ ih1 ih2 =>
    intro s hs
    rcases List.mem_cons.mp hs with rfl | hs
    · have : rl.lhs ∈ pr := by
        apply hcl
        apply mem_productiveStep.mpr
        exact ⟨rl, List.mem_of_getElem? hr, List.all_eq_true.mpr ih1, rfl⟩
      simpa [symProductive] using this
    · exact ih2 s hs

/-! ## reachable -/

theorem mem_rhsNts {rhs : List Sym} {B : Nat} : B ∈ rhsNts rhs ↔ Sym.n B ∈ rhs := by
  unfold rhsNts
  rw [List.mem_filterMap]
  constructor
  · rintro ⟨s, hs, h⟩
    cases s with
    | t a => cases h
    | n C => simp only [Option.some.injEq] at h; subst h; exact hs
  · intro h
    exact ⟨Sym.n B, h, rfl⟩

theorem mem_reachStep {rules : List Rule} {s : List Nat} {B : Nat} :
    B ∈ reachStep rules s ↔ ∃ rl ∈ rules, rl.lhs ∈ s ∧ Sym.n B ∈ rl.rhs := by
  unfold reachStep
  rw [List.mem_flatMap]
  constructor
  · rintro ⟨rl, hrl, h⟩
    split at h
    · rename_i hl
      exact ⟨rl, hrl, hl, mem_rhsNts.mp h⟩
    · cases h
  · rintro ⟨rl, hrl, hl, h⟩
    exact ⟨rl, hrl, by simpa [hl] using mem_rhsNts.mpr h⟩

theorem foldl_max_ge_init (rules : List Rule) (m : Nat) :
    m ≤ rules.foldl (fun m r => max m r.rhs.length) m := by
  induction rules generalizing m with
  | nil => exact Nat.le_refl _
  | cons r rs ih =>
    simp only [List.foldl_cons]
    exact Nat.le_trans (Nat.le_max_left _ _) (ih _)

theorem foldl_max_ge_mem (rules : List Rule) (m : Nat) {rl : Rule} (h : rl ∈ rules) :
    rl.rhs.length ≤ rules.foldl (fun m r => max m r.rhs.length) m := by
  induction rules generalizing m with
  | nil => cases h
  | cons r rs ih =>
    simp only [List.foldl_cons]
    rcases List.mem_cons.mp h with rfl | h
    · exact Nat.le_trans (Nat.le_max_right _ _) (foldl_max_ge_init _ _)
    · exact ih _ h

theorem rhs_length_le_maxRhs (g : Grammar) {rl : Rule} (h : rl ∈ g.rules) :
    rl.rhs.length ≤ g.maxRhs := foldl_max_ge_mem _ _ h

theorem flatMap_length_le {α β : Type} (l : List α) (f : α → List β) (k : Nat)
    (h : ∀ x ∈ l, (f x).length ≤ k) : (l.flatMap f).length ≤ l.length * k := by
  induction l with
  | nil => simp
  | cons x xs ih =>
    have h1 := h x List.mem_cons_self
    have h2 := ih (fun y hy => h y (List.mem_cons_of_mem _ hy))
    simp only [List.flatMap_cons, List.length_append, List.length_cons]
    rw [Nat.succ_mul]
    omega

/-- the universe of `reachable`: `axiomN` and all nonterminals occurring in right-hand sides -/
def reachUniv (g : Grammar) : List Nat := g.axiomN :: g.rules.flatMap fun r => rhsNts r.rhs

theorem reachUniv_length (g : Grammar) :
    (reachUniv g).length ≤ g.rules.length * g.maxRhs + 1 := by
  unfold reachUniv
  simp only [List.length_cons]
  apply Nat.succ_le_succ
  apply flatMap_length_le
  intro rl hrl
  refine Nat.le_trans ?_ (rhs_length_le_maxRhs g hrl)
  unfold rhsNts
  exact List.length_filterMap_le _ _

theorem reachStep_subset_univ (g : Grammar) (s : List Nat) :
    reachStep g.rules s ⊆ reachUniv g := by
  intro B hB
  obtain ⟨rl, hrl, _, h⟩ := mem_reachStep.mp hB
  unfold reachUniv
  exact List.mem_cons_of_mem _ (List.mem_flatMap.mpr ⟨rl, hrl, mem_rhsNts.mpr h⟩)

/-- the fuel `rules.length * (maxRhs + 1) + 2` suffices -/
theorem reachable_closed (g : Grammar) : reachStep g.rules g.reachable ⊆ g.reachable := by
  unfold Grammar.reachable
  apply saturate_closed (reachStep g.rules) (reachUniv g)
  · intro s _; exact reachStep_subset_univ g s
  · intro x hx
    rw [List.mem_singleton] at hx
    subst hx
    exact List.mem_cons_self
  · simp
  · have h := reachUniv_length g
    have : g.rules.length * g.maxRhs ≤ g.rules.length * (g.maxRhs + 1) :=
      Nat.mul_le_mul_left _ (Nat.le_succ _)
    simp only [List.length_singleton]
    omega

theorem reachable_sound (g : Grammar) : ∀ B ∈ g.reachable, Reachable g B := by
  unfold Grammar.reachable
  apply saturate_sound (reachStep g.rules) (Reachable g)
  · intro s hs B hB
    obtain ⟨rl, hrl, hl, h⟩ := mem_reachStep.mp hB
    obtain ⟨r, hr⟩ := List.getElem?_of_mem hrl
    exact Reaches.step (hs _ hl) ⟨r, rl, hr, rfl, h⟩
  · intro x hx
    rw [List.mem_singleton] at hx
    subst hx
    exact Reaches.refl _

theorem reachable_complete (g : Grammar) {A B : Nat} (h : Reaches g A B) :
    A ∈ g.reachable → B ∈ g.reachable := by
  induction h with
  | refl => exact id
  | step _ hocc ih =>
    intro hA
    obtain ⟨r, rl, hr, hl, hB⟩ := hocc
    apply reachable_closed g
    apply mem_reachStep.mpr
    exact ⟨rl, List.mem_of_getElem? hr, by rw [hl]; exact ih hA, hB⟩

theorem axiomN_mem_reachable (g : Grammar) : g.axiomN ∈ g.reachable := by
  unfold Grammar.reachable
  exact subset_saturate _ _ _ (List.mem_singleton.mpr rfl)

/-! ## the unit-with-nullable graph and `loopSet` -/

theorem mem_unitPositions {nl : List Nat} {rhs : List Sym} {B : Nat} :
    B ∈ unitPositions nl rhs ↔
      ∃ i, rhs[i]? = some (Sym.n B) ∧
        ∀ (j : Nat) (s : Sym), j ≠ i → rhs[j]? = some s → symNullable nl s = true := by
  unfold unitPositions
  rw [List.mem_filterMap]
  constructor
  · rintro ⟨i, _, h⟩
    split at h
    · rename_i B' hi
      split at h
      · rename_i hall
        simp only [Option.some.injEq] at h
        subst h
        refine ⟨i, hi, ?_⟩
        intro j s hji hj
        have hjlt : j < rhs.length := (List.getElem?_eq_some_iff.mp hj).1
        have := List.all_eq_true.mp hall j (List.mem_range.mpr hjlt)
        rw [List.getD_eq_getElem?_getD, hj] at this
        simpa [hji] using this
      · cases h
    · cases h
  · rintro ⟨i, hi, hall⟩
    have hilt : i < rhs.length := (List.getElem?_eq_some_iff.mp hi).1
    refine ⟨i, List.mem_range.mpr hilt, ?_⟩
    simp only [hi]
    rw [if_pos]
    apply List.all_eq_true.mpr
    intro j hj
    have hjlt : j < rhs.length := List.mem_range.mp hj
    by_cases hji : j = i
    · simp [hji]
    · have hj' : rhs[j]? = some rhs[j] := List.getElem?_eq_getElem hjlt
      have := hall j _ hji hj'
      rw [List.getD_eq_getElem?_getD, hj']
      simp [this]

theorem mem_unitEdges {g : Grammar} {A B : Nat} :
    (A, B) ∈ g.unitEdges ↔
      ∃ rl ∈ g.rules, rl.lhs = A ∧ B ∈ unitPositions g.nullable rl.rhs := by
  unfold Grammar.unitEdges
  simp only [List.mem_flatMap, List.mem_map, Prod.mk.injEq]
  constructor
  · rintro ⟨rl, hrl, B', hB', h1, h2⟩
    subst h2
    exact ⟨rl, hrl, h1, hB'⟩
  · rintro ⟨rl, hrl, h1, hB⟩
    exact ⟨rl, hrl, B, hB, h1, rfl⟩

/-- the edges of the computed graph are exactly the declarative unit steps -/
theorem mem_unitEdges_iff {g : Grammar} {A B : Nat} :
    (A, B) ∈ g.unitEdges ↔ UnitStep g A B := by
  rw [mem_unitEdges]
  constructor
  · rintro ⟨rl, hrl, hl, hB⟩
    obtain ⟨i, hi, hall⟩ := mem_unitPositions.mp hB
    obtain ⟨r, hr⟩ := List.getElem?_of_mem hrl
    exact ⟨r, rl, i, hr, hl, hi, fun j s hji hj => symNullable_iff.mp (hall j s hji hj)⟩
  · rintro ⟨r, rl, i, hr, hl, hi, hall⟩
    refine ⟨rl, List.mem_of_getElem? hr, hl, mem_unitPositions.mpr ⟨i, hi, ?_⟩⟩
    exact fun j s hji hj => symNullable_iff.mpr (hall j s hji hj)

/-! ### transitive closure -/

theorem Plus.trans {α : Type} {R : α → α → Prop} {a b c : α} (h1 : Plus R a b)
    (h2 : Plus R b c) : Plus R a c := by
  induction h1 with
  | single h => exact Plus.cons h h2
  | cons h _ ih => exact Plus.cons h (ih h2)

theorem Plus.snoc {α : Type} {R : α → α → Prop} {a b c : α} (h1 : Plus R a b) (h2 : R b c) :
    Plus R a c := h1.trans (Plus.single h2)

/-- the last step of a non-empty chain -/
theorem Plus.exists_last {α : Type} {R : α → α → Prop} {a c : α} (h : Plus R a c) :
    ∃ b, R b c := by
  induction h with
  | single h => exact ⟨_, h⟩
  | cons _ _ ih => exact ih

/-- the first step of a non-empty chain: either it is the whole chain or a chain follows -/
theorem Plus.exists_first {α : Type} {R : α → α → Prop} {a c : α} (h : Plus R a c) :
    ∃ b, R a b ∧ (b = c ∨ Plus R b c) := by
  cases h with
  | single h => exact ⟨_, h, Or.inl rfl⟩
  | cons h h' => exact ⟨_, h, Or.inr h'⟩

theorem Plus.mono {α : Type} {R S : α → α → Prop} (hRS : ∀ a b, R a b → S a b) {a b : α}
    (h : Plus R a b) : Plus S a b := by
  induction h with
  | single h => exact Plus.single (hRS _ _ h)
  | cons h _ ih => exact Plus.cons (hRS _ _ h) ih

/-- pigeonhole: in a finite non-empty set `L` where every member has an `R`-successor in
`L`, following successors must eventually repeat.  `visited` are the (distinct) nodes seen
so far, all of which lead to the current node `a`. -/
theorem exists_cycle_aux {R : Nat → Nat → Prop} (L : List Nat)
    (hL : ∀ a ∈ L, ∃ b ∈ L, R a b) (n : Nat) :
    ∀ (visited : List Nat) (a : Nat), visited ⊆ L → visited.Nodup → a ∈ L →
      (∀ x ∈ visited, Plus R x a) → L.length < visited.length + n → ∃ c, Plus R c c := by
  induction n with
  | zero =>
    intro visited a hsub hnd _ _ hlen
    have := nodup_subset_length hnd hsub
    omega
  | succ n ih =>
    intro visited a hsub hnd ha hreach hlen
    by_cases hav : a ∈ visited
    · exact ⟨a, hreach a hav⟩
    · obtain ⟨b, hb, hab⟩ := hL a ha
      apply ih (a :: visited) b
      · intro x hx
        rcases List.mem_cons.mp hx with rfl | hx
        · exact ha
        · exact hsub hx
      · exact List.nodup_cons.mpr ⟨hav, hnd⟩
      · exact hb
      · intro x hx
        rcases List.mem_cons.mp hx with rfl | hx
        · exact Plus.single hab
        · exact (hreach x hx).snoc hab
      · simp only [List.length_cons]; omega

theorem exists_cycle {R : Nat → Nat → Prop} (L : List Nat) (hne : L ≠ [])
    (hL : ∀ a ∈ L, ∃ b ∈ L, R a b) : ∃ c, Plus R c c := by
  cases L with
  | nil => exact absurd rfl hne
  | cons a t =>
    apply exists_cycle_aux (a :: t) hL ((a :: t).length + 1) [] a
    · intro _ h; cases h
    · exact List.nodup_nil
    · exact List.mem_cons_self
    · intro _ h; cases h
    · simp

/-! ### `loopSet` -/

theorem loopPred_iff {edges : List (Nat × Nat)} {L : List Nat} {A : Nat} :
    (edges.any fun e => e.1 == A && L.contains e.2) = true ↔ ∃ B, (A, B) ∈ edges ∧ B ∈ L := by
  rw [List.any_eq_true]
  constructor
  · rintro ⟨⟨A', B⟩, he, h⟩
    simp only [Bool.and_eq_true, beq_iff_eq, List.contains_iff_mem] at h
    obtain ⟨h1, h2⟩ := h
    subst h1
    exact ⟨B, he, h2⟩
  · rintro ⟨B, he, hB⟩
    refine ⟨(A, B), he, ?_⟩
    show ((A == A) && L.contains B) = true
    rw [beq_self_eq_true, Bool.true_and]
    exact List.contains_iff_mem.mpr hB

theorem mem_loopInit {g : Grammar} {B : Nat} :
    B ∈ (g.unitEdges.map (·.2)).eraseDups ↔ ∃ A, (A, B) ∈ g.unitEdges := by
  rw [List.mem_eraseDups, List.mem_map]
  constructor
  · rintro ⟨⟨A, B'⟩, he, h⟩
    simp only at h
    subst h
    exact ⟨A, he⟩
  · rintro ⟨A, he⟩
    exact ⟨(A, B), he, rfl⟩

theorem loopSet_eq (g : Grammar) : g.loopSet =
    shrink (fun (L : List Nat) (A : Nat) => g.unitEdges.any fun e => e.1 == A && L.contains e.2)
      ((g.unitEdges.map fun e => e.2).eraseDups.length + 1)
      (g.unitEdges.map fun e => e.2).eraseDups := rfl

/-- every member of `loopSet` has an edge into `loopSet` -/
theorem loopSet_stable (g : Grammar) :
    ∀ A ∈ g.loopSet, ∃ B ∈ g.loopSet, (A, B) ∈ g.unitEdges := by
  intro A hA
  rw [loopSet_eq] at hA
  have h := shrink_stable _ _ _ (Nat.lt_succ_self _) A hA
  rw [← loopSet_eq] at h
  obtain ⟨B, he, hB⟩ := loopPred_iff.mp h
  exact ⟨B, hB, he⟩

/-- `loopSet` contains every set of edge targets in which every member has an edge into
the set -/
theorem loopSet_greatest (g : Grammar) (L : List Nat)
    (hsub : ∀ B ∈ L, ∃ A, (A, B) ∈ g.unitEdges)
    (hstab : ∀ A ∈ L, ∃ B ∈ L, (A, B) ∈ g.unitEdges) : L ⊆ g.loopSet := by
  rw [loopSet_eq]
  apply shrink_greatest
  · intro s t a hst h
    obtain ⟨B, he, hB⟩ := loopPred_iff.mp h
    exact loopPred_iff.mpr ⟨B, he, hst hB⟩
  · intro B hB
    exact mem_loopInit.mpr (hsub B hB)
  · intro A hA
    obtain ⟨B, hB, he⟩ := hstab A hA
    exact loopPred_iff.mpr ⟨B, he, hB⟩

theorem cyclic_of_loopSet_ne_nil (g : Grammar) (h : g.loopSet ≠ []) : Cyclic g := by
  apply exists_cycle g.loopSet h
  intro A hA
  obtain ⟨B, hB, he⟩ := loopSet_stable g A hA
  exact ⟨B, hB, mem_unitEdges_iff.mp he⟩

theorem loopSet_ne_nil_of_cyclic (g : Grammar) (h : Cyclic g) : g.loopSet ≠ [] := by
  classical
  obtain ⟨A, hA⟩ := h
  -- the set of all edge targets that lead back to `A`
  have key : ∃ L : List Nat, ∀ B, B ∈ L ↔
      (∃ C, (C, B) ∈ g.unitEdges) ∧ Plus (UnitStep g) B A := by
    refine ⟨(g.unitEdges.map (·.2)).filter
      (fun B => decide (Plus (UnitStep g) B A)), ?_⟩
    intro B
    rw [List.mem_filter, List.mem_map]
    constructor
    · rintro ⟨⟨⟨C, B'⟩, he, rfl⟩, h2⟩
      exact ⟨⟨C, he⟩, of_decide_eq_true h2⟩
    · rintro ⟨⟨C, he⟩, h2⟩
      exact ⟨⟨(C, B), he, rfl⟩, decide_eq_true h2⟩
  obtain ⟨L, hLmem⟩ := key
  have hsub : L ⊆ g.loopSet := by
    apply loopSet_greatest g L
    · intro B hB; exact ((hLmem B).mp hB).1
    · intro B hB
      obtain ⟨C, hBC, hC⟩ := ((hLmem B).mp hB).2.exists_first
      refine ⟨C, (hLmem C).mpr ⟨⟨B, mem_unitEdges_iff.mpr hBC⟩, ?_⟩, mem_unitEdges_iff.mpr hBC⟩
      rcases hC with rfl | hC
      · exact hA
      · exact hC
  have hAL : A ∈ L := by
    obtain ⟨C, hC⟩ := hA.exists_last
    exact (hLmem A).mpr ⟨⟨C, mem_unitEdges_iff.mpr hC⟩, hA⟩
  intro hnil
  have := hsub hAL
  rw [hnil] at this
  cases this

end Yaep
