import Yaep.Spec.Forest
/-!
# Helper lemmas about `prodAll`, the table fold `denoteTab` and the unfolded forest
-/
namespace Yaep


theorem mem_prodAll_forall₂ {α : Type} : ∀ {ls : List (List α)} {l : List α},
    l ∈ prodAll ls ↔ Pointwise (fun x xs => x ∈ xs) l ls
  | [], l => by
    simp only [prodAll, List.mem_singleton]
    constructor
    · rintro rfl; exact .nil
    · intro h; cases h; rfl
  | xs :: rest, l => by
    simp only [prodAll, List.mem_flatMap, List.mem_map]
    constructor
    · rintro ⟨x, hx, t, ht, rfl⟩
      exact .cons hx (mem_prodAll_forall₂.1 ht)
    · intro h
      cases h with
      | cons hx ht => exact ⟨_, hx, _, mem_prodAll_forall₂.2 ht, rfl⟩

theorem forall₂_iff_getElem {α β : Type} {R : α → β → Prop} : ∀ {l : List α} {m : List β},
    Pointwise R l m ↔
      l.length = m.length ∧ ∀ (k : Nat) (h1 : k < l.length) (h2 : k < m.length), R l[k] m[k]
  | [], [] => by simp; exact .nil
  | [], _ :: _ => by
    constructor
    · intro h; cases h
    · rintro ⟨h, -⟩; simp at h
  | _ :: _, [] => by
    constructor
    · intro h; cases h
    · rintro ⟨h, -⟩; simp at h
  | a :: l, b :: m => by
    constructor
    · intro h
      cases h with
      | cons h1 h2 =>
        obtain ⟨e, f⟩ := forall₂_iff_getElem.1 h2
        refine ⟨by simp [e], ?_⟩
        intro k hk1 hk2
        cases k with
        | zero => exact h1
        | succ k => exact f k (by simpa using hk1) (by simpa using hk2)
    · rintro ⟨e, f⟩
      refine .cons (f 0 (by simp) (by simp)) (forall₂_iff_getElem.2 ⟨by simpa using e, ?_⟩)
      intro k hk1 hk2
      exact f (k + 1) (by simpa using hk1) (by simpa using hk2)

/-! ## the table fold -/

/-- one step of the table folds `denoteTab`, `countTab` -/
def pushStep {β : Type} (f : Array β → NodeRec → β) (vals : Array β) (r : NodeRec) : Array β :=
  vals.push (f vals r)

section
variable {β : Type} (f : Array β → NodeRec → β)


theorem foldl_pushStep_size (l : List NodeRec) (init : Array β) :
    (l.foldl (pushStep f) init).size = init.size + l.length := by
  induction l generalizing init with
  | nil => simp
  | cons r l ih => simp [ih, pushStep]; omega

theorem foldl_pushStep_prefix (l : List NodeRec) (init : Array β) {i : Nat}
    (h : i < init.size) : (l.foldl (pushStep f) init)[i]? = init[i]? := by
  induction l generalizing init with
  | nil => simp
  | cons r l ih =>
    simp only [List.foldl_cons]
    rw [ih _ (by simp [pushStep]; omega)]
    simp [pushStep, Array.getElem?_push]
    omega

/-- the value computed for entry `i` is `denoteRec` of the values of the earlier entries -/
theorem foldl_pushStep_getElem? (l : List NodeRec) {i : Nat} (h : i < l.length) :
    (l.foldl (pushStep f) #[])[i]? =
      some (f ((l.take i).foldl (pushStep f) #[]) l[i]) := by
  have e : l = l.take i ++ l[i] :: l.drop (i + 1) := by
    rw [List.getElem_cons_drop h, List.take_append_drop]
  conv => lhs; rw [e]
  rw [List.foldl_append, List.foldl_cons]
  have hs : ((l.take i).foldl (pushStep f) #[]).size = i := by
    rw [foldl_pushStep_size]; simp; omega
  rw [foldl_pushStep_prefix f _ _ (by simp [pushStep, hs])]
  generalize (l.take i).foldl (pushStep f) #[] = A at hs
  subst hs
  simp [pushStep]

theorem foldl_pushStep_take (l : List NodeRec) {k n : Nat} (hk : k < n) (hn : n ≤ l.length) :
    ((l.take n).foldl (pushStep f) #[])[k]? = (l.foldl (pushStep f) #[])[k]? := by
  conv => rhs; rw [← List.take_append_drop n l, List.foldl_append]
  refine (foldl_pushStep_prefix f _ _ ?_).symm
  rw [foldl_pushStep_size]; simp; omega

end

theorem denoteTab_eq (tab : Array NodeRec) :
    denoteTab tab = tab.toList.foldl (pushStep denoteRec) #[] := by
  unfold denoteTab
  rw [← Array.foldl_toList]
  rfl

theorem denoteRec_congr {v w : Array (List Tree)} {r : NodeRec}
    (h : ∀ k ∈ r.children, v.getD k [] = w.getD k []) : denoteRec v r = denoteRec w r := by
  cases r with
  | anode n c ks =>
    simp only [denoteRec]
    have : ks.map (fun k => v.getD k []) = ks.map (fun k => w.getD k []) :=
      List.map_congr_left (fun k hk => h k hk)
    rw [this]
  | alt as =>
    simp only [denoteRec]
    have : as.map (fun k => v.getD k []) = as.map (fun k => w.getD k []) :=
      List.map_congr_left (fun k hk => h k hk)
    rw [List.flatMap_def, List.flatMap_def, this]
  | _ => rfl

theorem tableWF_children {tab : Array NodeRec} (h : tableWF tab = true) {i : Nat}
    (hi : i < tab.size) : ∀ k ∈ (tab.getD i .bad).children, k < i := by
  simp only [tableWF, List.all_eq_true, List.mem_range] at h
  intro k hk
  simpa using h i hi k hk

theorem denoteTab_size (tab : Array NodeRec) : (denoteTab tab).size = tab.size := by
  rw [denoteTab_eq, foldl_pushStep_size]; simp

/-- the fixpoint equation of the fold: on a well-formed table, the value of entry `i` is
`denoteRec` applied to the final values -/
theorem denoteTab_getElem? {tab : Array NodeRec} (h : tableWF tab = true) {i : Nat}
    (hi : i < tab.size) :
    (denoteTab tab)[i]? = some (denoteRec (denoteTab tab) (tab.getD i .bad)) := by
  have hl : i < tab.toList.length := by simpa using hi
  rw [denoteTab_eq, foldl_pushStep_getElem? _ _ hl]
  have e : tab.toList[i] = tab.getD i .bad := by
    simp [Array.getD_eq_getD_getElem?, hi]
  rw [e]
  congr 1
  apply denoteRec_congr
  intro k hk
  have hki := tableWF_children h hi k hk
  rw [Array.getD_eq_getD_getElem?, Array.getD_eq_getD_getElem?,
    foldl_pushStep_take _ _ hki (Nat.le_of_lt hl)]

theorem denoteList_map {α : Type} (f : α → Node) (ks : List α) :
    denoteList (ks.map f) = ks.map (fun k => denote (f k)) := by
  induction ks with
  | nil => simp [denoteList]
  | cons k ks ih => simp [denoteList, ih]

theorem denoteList_eq_map (ks : List Node) : denoteList ks = ks.map denote := by
  simpa using denoteList_map id ks

theorem denoteTab_getD_unfold {tab : Array NodeRec} (h : tableWF tab = true) :
    ∀ (i : Nat), i < tab.size → ∀ fuel, i < fuel →
      (denoteTab tab).getD i [] = denote (unfold tab fuel i) := by
  intro i
  induction i using Nat.strongRecOn with
  | _ i ih =>
    intro hi fuel hf
    obtain ⟨fuel, rfl⟩ : ∃ f, fuel = f + 1 := ⟨fuel - 1, by omega⟩
    have hkids := tableWF_children h hi
    rw [Array.getD_eq_getD_getElem?, denoteTab_getElem? h hi, Option.getD_some]
    simp only [unfold, hi, if_true]
    have key : ∀ ks : List Nat, (∀ k ∈ ks, k < i) →
        ks.map (fun k => (denoteTab tab).getD k []) =
          denoteList (ks.map (unfold tab fuel)) := by
      intro ks hks
      rw [denoteList_map]
      exact List.map_congr_left fun k hk =>
        ih k (hks k hk) (by have := hks k hk; omega) fuel (by have := hks k hk; omega)
    cases e : tab.getD i .bad with
    | nil => simp [denoteRec, denote]
    | err => simp [denoteRec, denote]
    | term c a => simp [denoteRec, denote]
    | bad => simp [denoteRec, denote, denoteList]
    | anode n c ks =>
      rw [e] at hkids
      simp only [denoteRec, denote]
      rw [key ks hkids]
    | alt as =>
      rw [e] at hkids
      simp only [denoteRec, denote]
      rw [List.flatMap_def, key as hkids]

theorem pointwise_map_right {α β γ : Type} {R : α → γ → Prop} {f : β → γ} :
    ∀ {l : List α} {m : List β}, Pointwise R l (m.map f) ↔ Pointwise (fun a b => R a (f b)) l m
  | [], [] => by simp; exact ⟨fun _ => .nil, fun _ => .nil⟩
  | [], _ :: _ => ⟨fun h => (by cases h), fun h => (by cases h)⟩
  | _ :: _, [] => ⟨fun h => (by cases h), fun h => (by cases h)⟩
  | a :: l, b :: m => by
    constructor
    · intro h
      cases h with
      | cons h1 h2 => exact .cons h1 (pointwise_map_right.1 h2)
    · intro h
      cases h with
      | cons h1 h2 => exact .cons h1 (pointwise_map_right.2 h2)

theorem unfold_fuel_indep {tab : Array NodeRec} (h : tableWF tab = true) :
    ∀ (i : Nat), i < tab.size → ∀ f₁ f₂, i < f₁ → i < f₂ → unfold tab f₁ i = unfold tab f₂ i := by
  intro i
  induction i using Nat.strongRecOn with
  | _ i ih =>
    intro hi f₁ f₂ h1 h2
    obtain ⟨f₁, rfl⟩ : ∃ f, f₁ = f + 1 := ⟨f₁ - 1, by omega⟩
    obtain ⟨f₂, rfl⟩ : ∃ f, f₂ = f + 1 := ⟨f₂ - 1, by omega⟩
    have hkids := tableWF_children h hi
    have key : ∀ ks : List Nat, (∀ k ∈ ks, k < i) →
        ks.map (unfold tab f₁) = ks.map (unfold tab f₂) := by
      intro ks hks
      exact List.map_congr_left fun k hk =>
        ih k (hks k hk) (by have := hks k hk; omega) f₁ f₂ (by have := hks k hk; omega)
          (by have := hks k hk; omega)
    simp only [unfold, hi, if_true]
    cases e : tab.getD i .bad with
    | anode n c ks => rw [e] at hkids; simp only [key ks hkids]
    | alt as => rw [e] at hkids; simp only [key as hkids]
    | _ => rfl

theorem mem_denote_anode_iff {n : String} {c : Nat} {ks : List Node} {t : Tree} :
    t ∈ denote (.anode n c ks) ↔
      ∃ l, t = .anode n c l ∧ Pointwise (fun x k => x ∈ denote k) l ks := by
  simp only [denote, List.mem_map, mem_prodAll_forall₂, denoteList_eq_map]
  constructor
  · rintro ⟨l, hl, rfl⟩; exact ⟨l, rfl, pointwise_map_right.1 hl⟩
  · rintro ⟨l, rfl, hl⟩; exact ⟨l, pointwise_map_right.2 hl, rfl⟩

theorem mem_denote_alt_iff {as : List Node} {t : Tree} :
    t ∈ denote (.alt as) ↔ ∃ a ∈ as, t ∈ denote a := by
  simp only [denote, denoteList_eq_map, List.mem_flatten, List.mem_map]
  constructor
  · rintro ⟨_, ⟨a, ha, rfl⟩, ht⟩; exact ⟨a, ha, ht⟩
  · rintro ⟨a, ha, ht⟩; exact ⟨_, ⟨a, ha, rfl⟩, ht⟩

/-! ## `countTab` -/

/-- product of a list of numbers -/
def prodNat : List Nat → Nat
  | [] => 1
  | x :: xs => x * prodNat xs

theorem foldl_mul_eq {α : Type} (g : α → Nat) (ks : List α) (a : Nat) :
    ks.foldl (fun acc k => acc * g k) a = a * prodNat (ks.map g) := by
  induction ks generalizing a with
  | nil => simp [prodNat]
  | cons k ks ih => simp [ih, prodNat, Nat.mul_assoc]

theorem foldl_add_eq {α : Type} (g : α → Nat) (ks : List α) (a : Nat) :
    ks.foldl (fun acc k => acc + g k) a = a + (ks.map g).sum := by
  induction ks generalizing a with
  | nil => simp
  | cons k ks ih => simp [ih, Nat.add_assoc]

theorem prodAll_length {α : Type} (ls : List (List α)) :
    (prodAll ls).length = prodNat (ls.map List.length) := by
  induction ls with
  | nil => simp [prodAll, prodNat]
  | cons xs rest ih =>
    simp only [prodAll, List.length_flatMap, List.length_map, List.map_cons, prodNat, ih]
    induction xs with
    | nil => simp
    | cons x xs ih2 => simp [ih2, Nat.succ_mul]; omega

theorem countRec_eq (vals : Array Nat) (r : NodeRec) :
    countRec vals r = match r with
      | .anode _ _ ks => prodNat (ks.map fun k => vals.getD k 0)
      | .alt as => (as.map fun k => vals.getD k 0).sum
      | .bad => 0
      | _ => 1 := by
  cases r <;> simp [countRec, foldl_mul_eq, foldl_add_eq]

theorem countRec_congr {v w : Array Nat} {r : NodeRec}
    (h : ∀ k ∈ r.children, v.getD k 0 = w.getD k 0) : countRec v r = countRec w r := by
  rw [countRec_eq, countRec_eq]
  cases r with
  | anode n c ks =>
    simp only
    rw [List.map_congr_left (l := ks) (fun k hk => h k hk)]
  | alt as =>
    simp only
    rw [List.map_congr_left (l := as) (fun k hk => h k hk)]
  | _ => rfl

theorem countTab_eq (tab : Array NodeRec) :
    countTab tab = tab.toList.foldl (pushStep countRec) #[] := by
  unfold countTab
  rw [← Array.foldl_toList]
  rfl

theorem countTab_size (tab : Array NodeRec) : (countTab tab).size = tab.size := by
  rw [countTab_eq, foldl_pushStep_size]; simp

theorem countTab_getElem? {tab : Array NodeRec} (h : tableWF tab = true) {i : Nat}
    (hi : i < tab.size) :
    (countTab tab)[i]? = some (countRec (countTab tab) (tab.getD i .bad)) := by
  have hl : i < tab.toList.length := by simpa using hi
  rw [countTab_eq, foldl_pushStep_getElem? _ _ hl]
  have e : tab.toList[i] = tab.getD i .bad := by
    simp [Array.getD_eq_getD_getElem?, hi]
  rw [e]
  congr 1
  apply countRec_congr
  intro k hk
  have hki := tableWF_children h hi k hk
  rw [Array.getD_eq_getD_getElem?, Array.getD_eq_getD_getElem?,
    foldl_pushStep_take _ _ hki (Nat.le_of_lt hl)]

theorem countTab_getD_length {tab : Array NodeRec} (h : tableWF tab = true) :
    ∀ (i : Nat), i < tab.size →
      (countTab tab).getD i 0 = ((denoteTab tab).getD i []).length := by
  intro i
  induction i using Nat.strongRecOn with
  | _ i ih =>
    intro hi
    have hkids := tableWF_children h hi
    rw [Array.getD_eq_getD_getElem?, countTab_getElem? h hi, Option.getD_some,
      Array.getD_eq_getD_getElem? (xs := denoteTab tab), denoteTab_getElem? h hi,
      Option.getD_some, countRec_eq]
    have key : ∀ ks : List Nat, (∀ k ∈ ks, k < i) →
        ks.map (fun k => (countTab tab).getD k 0) =
          (ks.map fun k => (denoteTab tab).getD k []).map List.length := by
      intro ks hks
      rw [List.map_map]
      exact List.map_congr_left fun k hk =>
        ih k (hks k hk) (by have := hks k hk; omega)
    cases e : tab.getD i .bad with
    | nil => simp [denoteRec]
    | err => simp [denoteRec]
    | term c a => simp [denoteRec]
    | bad => simp [denoteRec]
    | anode n c ks =>
      rw [e] at hkids
      simp only [denoteRec, List.length_map, prodAll_length]
      rw [key ks hkids]
    | alt as =>
      rw [e] at hkids
      simp only [denoteRec, List.length_flatMap]
      rw [key as hkids, List.map_map]
      rfl
end Yaep
