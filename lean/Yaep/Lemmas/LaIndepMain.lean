import Yaep.Lemmas.LaIndepSets
/-!
# Lookahead independence, part 11: the induction over the parse list

`setPair`: the start pairs of set `j` at the two levels (given that the earlier sets agree on their
`prog` pairs).  `prel_all`: all sets agree on their `prog` pairs.  `setsRel_plSets`: the relation
`SetsRel` between the parse lists `make_parse` reads at levels 0 and 1.
-/
namespace Yaep.LI
open Yaep Yaep.BS

/-- the `prog` pairs of set `m` are the same at both levels -/
def PRel (g : Grammar) (w : List Nat) (m : Nat) : Prop :=
  (tg ((plC g 1 w).getD m default)).filter (fun p => prog g (w ++ [g.eofT])[m]? p.1) =
    (tg ((plC g 0 w).getD m default)).filter (fun p => prog g (w ++ [g.eofT])[m]? p.1)

/-- set `j` at the two levels: made from start pairs `ns0`, `ns1 = ns0.filter (level-1 test)` -/
structure SetPair (g : Grammar) (w : List Nat) (j : Nat) (ns0 ns1 : List (Sit × Nat))
    (I0 I1 : List Sit) : Prop where
  e0 : ExpandLists g g.analysis (ns0.map (·.1)) ((plC g 0 w).getD j default).core I0
  d0 : ((plC g 0 w).getD j default).dists = ns0.map (·.2)
  e1 : ExpandLists g g.analysis (ns1.map (·.1)) ((plC g 1 w).getD j default).core I1
  d1 : ((plC g 1 w).getD j default).dists = ns1.map (·.2)
  rel : ns1 = ns0.filter fun p => ok1 g (w ++ [g.eofT]) j p.1.1 p.1.2
  pairs : ∀ p ∈ ns0, ValidSit g p.1 ∧ 1 ≤ p.2 ∧ p.2 ≤ j

theorem progA_of_next_t {g : Grammar} {a : Nat} {s : Sit} (h : g.nextSym s.1 s.2 = some (Sym.t a)) :
    progA g a s = true := by
  obtain ⟨rl, hr, hdrop⟩ := drop_of_next h
  exact progA_iff.mpr ⟨rl, hr, by rw [hdrop]; simp⟩

theorem setPair {g : Grammar} (hsr : g.symsInRange = true) {w : List Nat}
    (f0 : LvlFacts g w 0) (f1 : LvlFacts g w 1) {j : Nat} (hj1 : 1 ≤ j)
    (hj2 : j ≤ (w ++ [g.eofT]).length) (ih : ∀ m, m < j → PRel g w m) :
    ∃ ns0 ns1 I0 I1, SetPair g w j ns0 ns1 I0 I1 := by
  have hl0 : (buildPLC g 0 w).2.2.length = (w ++ [g.eofT]).length + 1 := f0.len
  have hl1 : (buildPLC g 1 w).2.2.length = (w ++ [g.eofT]).length + 1 := f1.len
  have hitems0 := f0.items
  have hplok0 := f0.plok
  unfold PRel at ih
  unfold plC at ih hitems0 hplok0
  show ∃ ns0 ns1 I0 I1, SetPair g w j ns0 ns1 I0 I1
  obtain ⟨tab0, plA0, a0, ht0, hp0, hw0, hc0⟩ := buildPLC_unroll g 0 w j hj1 (by omega)
  obtain ⟨tab1, plA1, a1, ht1, hp1, hw1, hc1⟩ := buildPLC_unroll g 1 w j hj1 (by omega)
  rw [hw0] at hw1
  cases hw1
  -- the prefixes
  have hlen0 : ((buildPLC g 0 w).2.2.take j).length = j := by rw [List.length_take]; omega
  have hlen1 : ((buildPLC g 1 w).2.2.take j).length = j := by rw [List.length_take]; omega
  have hne0 : (buildPLC g 0 w).2.2.take j ≠ [] := by
    intro h; rw [h] at hlen0; simp at hlen0; omega
  have hne1 : (buildPLC g 1 w).2.2.take j ≠ [] := by
    intro h; rw [h] at hlen1; simp at hlen1; omega
  obtain ⟨I0, hE0, hd0⟩ := buildNewSet_lists (g := g) (an := g.analysis)
    (ok := okItem g g.analysis 0 (w ++ [g.eofT])[j]?) (pl := (buildPLC g 0 w).2.2.take j) (a := a0) ht0
  obtain ⟨I1, hE1, hd1⟩ := buildNewSet_lists (g := g) (an := g.analysis)
    (ok := okItem g g.analysis 1 (w ++ [g.eofT])[j]?) (pl := (buildPLC g 1 w).2.2.take j) (a := a0) ht1
  rw [← hc0] at hE0 hd0
  rw [← hc1] at hE1 hd1
  generalize hns0 : (newStarts g g.analysis (okItem g g.analysis 0 (w ++ [g.eofT])[j]?)
    ((buildPLC g 0 w).2.2.take j) a0).1 = ns0 at hE0 hd0
  generalize hns1 : (newStarts g g.analysis (okItem g g.analysis 1 (w ++ [g.eofT])[j]?)
    ((buildPLC g 1 w).2.2.take j) a0).1 = ns1 at hE1 hd1
  -- the pairs of the level-0 set
  have hinv0 := newStarts_inv (ok := okItem g g.analysis 0 (w ++ [g.eofT])[j]?) (a := a0)
    (an := g.analysis) rfl hp0 hne0
  have hpairs : ∀ p ∈ ns0, ValidSit g p.1 ∧ 1 ≤ p.2 ∧ p.2 ≤ j := by
    intro p hp
    rw [← hns0] at hp
    obtain ⟨h1, h2, h3, _⟩ := hinv0.all p hp
    rw [hp0.len, hlen0] at h3
    exact ⟨h1, h2, h3⟩
  -- they are items of the level-0 set
  have hshape0 : Shape ((buildPLC g 0 w).2.2.getD j default).core := (hplok0.ok j (by omega)).shape
  have hitem0 : ∀ p ∈ ns0, F0 g (w ++ [g.eofT]) j ⟨p.1.1, p.1.2, j - p.2⟩ := by
    intro p hp
    apply (hitems0 j hj2 _).mp
    rw [items_eq_tg hshape0, tg_eq hE0 hd0]
    exact List.mem_map.mpr ⟨p, List.mem_append_left _ (List.mem_append_left _ hp), rfl⟩
  refine ⟨ns0, ns1, I0, I1, hE0, hd0, hE1, hd1, ?_, hpairs⟩
  rw [← hns0, ← hns1]
  apply newStarts_rel (an := g.analysis) (ok0 := okItem g g.analysis 0 (w ++ [g.eofT])[j]?)
    (ok1 := okItem g g.analysis 1 (w ++ [g.eofT])[j]?) rfl hp0 hp1 hne0 hne1 (by rw [hlen0, hlen1])
    (fun _ _ => rfl)
  · -- sources of the first loop
    rw [getLastD_take _ _ hj1 (by omega), getLastD_take _ _ hj1 (by omega)]
    apply src_eq_of_filter_eq (ih (j - 1) (by omega))
    intro p hp
    rw [hw0]
    exact progA_of_next_t hp
  · -- sources of the second loop
    intro p hp het
    rw [hns0] at hp
    obtain ⟨_, hp1', hp2'⟩ := hpairs p hp
    rw [hlen0, show j - 1 + 1 - p.2 = j - p.2 by omega, getD_take _ _ (by omega),
      getD_take _ _ (by omega)]
    obtain ⟨c, hc, hall⟩ := trigger_first hsr (hitem0 p hp) hp1' hp2' het
    apply src_eq_of_filter_eq (ih (j - p.2) (by omega))
    intro y hy
    rw [hc]
    exact hall y hy
  · -- a trigger that fails the test
    intro p hp het hfalse r d hnx
    rw [hns0] at hp
    obtain ⟨⟨rl', hr', hd'⟩, _, _⟩ := hpairs p hp
    refine Bool.eq_false_iff.mpr fun htrue => ?_
    obtain ⟨rl, hr, hs⟩ := nextSym_eq_some.mp hnx
    have hlhs : lhsOf g p.1 = rl'.lhs := by
      unfold lhsOf; rw [List.getD_eq_getElem?_getD, hr']; rfl
    rw [hlhs] at hs
    have h1 := laSub_follow hsr hr hs hr'
    have h2 := laSub_emptyTail hr' hd' het
    have : ok1 g (w ++ [g.eofT]) j p.1.1 p.1.2 = true :=
      ok1_mono h2 (ok1_mono h1 htrue)
    have hfalse' : ok1 g (w ++ [g.eofT]) j p.1.1 p.1.2 = false := hfalse
    rw [this] at hfalse'
    cases hfalse'

/-- the `prog` pairs of set `j` from the relation between the start pairs -/
theorem prel_of_setPair {g : Grammar} (hsr : g.symsInRange = true) {w : List Nat} {j : Nat}
    {ns0 ns1 : List (Sit × Nat)} {I0 I1 : List Sit} (h : SetPair g w j ns0 ns1 I0 I1) :
    PRel g w j :=
  tg_filter_eq (Ks := fun s => ok1 g (w ++ [g.eofT]) j s.1 s.2)
    (Ps := prog g (w ++ [g.eofT])[j]?) h.e0 h.d0 h.e1 h.d1 h.rel
    (fun _ hs => ok1_of_prog hs) (fun _ _ hq hP => prog_of_chain hq hP) (kclosed_prog hsr _)

/-- set 0 is the same object at both levels -/
theorem head_eq (g : Grammar) (w : List Nat) :
    (plC g 1 w).getD 0 default = (plC g 0 w).getD 0 default := by
  show (buildPLC g 1 w).2.2.getD 0 default = (buildPLC g 0 w).2.2.getD 0 default
  rw [buildPLC_head, buildPLC_head]

theorem prel_all {g : Grammar} (hsr : g.symsInRange = true) {w : List Nat}
    (f0 : LvlFacts g w 0) (f1 : LvlFacts g w 1) :
    ∀ j, j ≤ (w ++ [g.eofT]).length → PRel g w j := by
  intro j
  induction j using Nat.strongRecOn with
  | _ j ih =>
    intro hj
    rcases Nat.eq_zero_or_pos j with h0 | hpos
    · subst h0
      unfold PRel
      rw [head_eq]
    · obtain ⟨ns0, ns1, I0, I1, hsp⟩ := setPair hsr f0 f1 hpos hj
        (fun m hm => ih m hm (by omega))
      exact prel_of_setPair hsr hsp

/-- the statement of `SetsRel.mask` for the lists of items of the step model -/
def MaskStmt (g : Grammar) (w : List Nat) (j B : Nat) : Prop :=
  ∃ l : List (Item × Bool),
    l.map Prod.fst = (((plC g 0 w).getD j default).items j).filter (isRed g B) ∧
    (l.filter Prod.snd).map Prod.fst = (((plC g 1 w).getD j default).items j).filter (isRed g B) ∧
    ∀ x ∈ l, F1 g (w ++ [g.eofT]) j x.1 →
      (x.1.origin < j → ok1 g (w ++ [g.eofT]) j x.1.rule x.1.dot = true) → x.2 = true

theorem mask_of_setPair {g : Grammar} {w : List Nat} (f0 : LvlFacts g w 0) (f1 : LvlFacts g w 1)
    {j : Nat} (hj1 : 1 ≤ j) (hj2 : j ≤ (w ++ [g.eofT]).length)
    {ns0 ns1 : List (Sit × Nat)} {I0 I1 : List Sit} (h : SetPair g w j ns0 ns1 I0 I1) (B : Nat) :
    MaskStmt g w j B := by
  have hshape0 : Shape ((plC g 0 w).getD j default).core :=
    (f0.plok.ok j (by have := f0.len; omega)).shape
  have hshape1 : Shape ((plC g 1 w).getD j default).core :=
    (f1.plok.ok j (by have := f1.len; omega)).shape
  have hpairs1 : ∀ p ∈ ns1, 1 ≤ p.2 ∧ p.2 ≤ j := by
    intro p hp
    rw [h.rel] at hp
    exact (h.pairs p (List.mem_filter.mp hp).1).2
  have hpairs0 : ∀ p ∈ ns0, 1 ≤ p.2 ∧ p.2 ≤ j := fun p hp => (h.pairs p hp).2
  -- an item with origin `j` of either set is an initial situation
  have hinit0 : ∀ s : Sit, F0 g (w ++ [g.eofT]) j ⟨s.1, s.2, j⟩ → s ∈ I0 := by
    intro s hF
    have hm := (f0.items j hj2 _).mpr hF
    rw [items_eq_tg hshape0] at hm
    obtain ⟨q, hq, he⟩ := List.mem_map.mp hm
    exact init_of_origin h.e0 h.d0 hpairs0 hj1 hq he
  have hinit1 : ∀ s : Sit, F1 g (w ++ [g.eofT]) j ⟨s.1, s.2, j⟩ → s ∈ I1 := by
    intro s hF
    have hm := (f1.items j hj2 _).mpr hF
    rw [items_eq_tg hshape1] at hm
    obtain ⟨q, hq, he⟩ := List.mem_map.mp hm
    exact init_of_origin h.e1 h.d1 hpairs1 hj1 hq he
  have hF1 : ∀ s ∈ I1, F1 g (w ++ [g.eofT]) j ⟨s.1, s.2, j⟩ := by
    intro s hs
    apply (f1.items j hj2 _).mp
    rw [items_eq_tg hshape1]
    exact List.mem_map.mpr ⟨(s, 0), mem_tg_init h.e1 h.d1 hs, rfl⟩
  unfold MaskStmt
  rw [items_eq_tg hshape0, items_eq_tg hshape1]
  obtain ⟨l, hl1, hl2, hl3⟩ := mask_of_rel (Ks := fun s => ok1 g (w ++ [g.eofT]) j s.1 s.2) j B
    (fun it => F1 g (w ++ [g.eofT]) j it ∧
      (it.origin < j → ok1 g (w ++ [g.eofT]) j it.rule it.dot = true))
    h.e0 h.d0 h.e1 h.d1 h.rel
    (by
      intro s hs
      exact hinit0 s (F1_sub_F0 (hF1 s hs)))
    (by
      intro p hp hC
      obtain ⟨_, h1, h2⟩ := h.pairs p hp
      exact hC.2 (by show j - p.2 < j; omega))
    (by
      intro p hp s' hs' _ hC
      obtain ⟨_, h1, h2⟩ := h.pairs p hp
      have := hC.2 (by show j - p.2 < j; omega)
      exact ok1_mono (laSub_chain hs') this)
    (by
      intro s _ _ hC
      exact hinit1 s hC.1)
  exact ⟨l, hl1, hl2, fun x hx hF hok => hl3 x hx ⟨hF, hok⟩⟩

end Yaep.LI
